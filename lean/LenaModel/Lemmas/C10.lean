import LenaModel.Model.C10
/-! # C10 — helper lemmas for `LaTeXToPDF`: what is produced for the selected values is, as a multiset,
a function of the selected values, the initial file system and the return codes alone

`pdfSpec` is the timing-free description: decide for every selected value against the *initial* file
system; a skipped one contributes its `(pdf, context)` at once, a launched one contributes the result of
its process iff the return code is 0.  `pdf_loop_spec` shows that the loop of `LaTeXToPDF.run`, from any
state, for any schedule and any interleaved unselected values, produces a permutation of that — provided
the files involved do not collide (`KeysOK`). -/

namespace Lena.C10

/-! ## unfolding one iteration of a loop -/

section
variable {σ α β : Type}

theorem loop_nil (f : σ → α → Step σ β) (s : σ) : loop f s [] = ⟨[], s, none⟩ := rfl

theorem loop_cons_ok (f : σ → α → Step σ β) (s s' : σ) (v : α) (vs : List α) (out : List β)
    (h : f s v = ⟨out, s', none⟩) :
    loop f s (v :: vs) = ⟨out :: (loop f s' vs).blocks, (loop f s' vs).st, (loop f s' vs).err⟩ := by
  simp [loop, h]

theorem loop_cons_err (f : σ → α → Step σ β) (s s' : σ) (v : α) (vs : List α) (out : List β) (e : Exc)
    (h : f s v = ⟨out, s', some e⟩) :
    loop f s (v :: vs) = ⟨[out], s', some e⟩ := by
  simp [loop, h]

end

/-! ## the file system: a write is invisible at every other path -/

theorem find_replaceFile_ne (p q : String) (c : Content) (t : Nat) (h : q ≠ p) : ∀ files : List File,
    (replaceFile p c t files).find? (fun f => f.path == q) = files.find? (fun f => f.path == q)
  | [] => by
    have : (p == q) = false := by simpa using fun e => h e.symm
    simp [replaceFile, List.find?, this]
  | f :: r => by
    unfold replaceFile
    by_cases hf : (f.path == p) = true
    · have hfp : f.path = p := by simpa using hf
      have h1 : (p == q) = false := by simpa using fun e => h e.symm
      simp [List.find?, h1, hfp]
    · simp only [hf, Bool.false_eq_true, if_false, List.find?]
      rw [find_replaceFile_ne p q c t h r]

theorem FS.mtime_write_ne (fs : FS) (p q : String) (c : Content) (h : q ≠ p) :
    (fs.write p c).mtime q = fs.mtime q := by
  simp [FS.mtime, FS.find, FS.write, find_replaceFile_ne p q c fs.clock h]

theorem FS.exists_write_ne (fs : FS) (p q : String) (c : Content) (h : q ≠ p) :
    (fs.write p c).exists q = fs.exists q := by
  simp [FS.exists, FS.isFile, FS.isDir, FS.find, FS.write, find_replaceFile_ne p q c fs.clock h]

/-- the two file systems look the same at path `q` to `LaTeXToPDF` (`getmtime`, `exists`) -/
def Agree (fs fs' : FS) (q : String) : Prop := fs.mtime q = fs'.mtime q ∧ fs.exists q = fs'.exists q

theorem Agree.refl (fs : FS) (q : String) : Agree fs fs q := ⟨rfl, rfl⟩

theorem Agree.trans {a b c : FS} {q : String} (h1 : Agree a b q) (h2 : Agree b c q) : Agree a c q :=
  ⟨h1.1.trans h2.1, h1.2.trans h2.2⟩

theorem agree_write (fs : FS) (p q : String) (c : Content) (h : q ≠ p) : Agree (fs.write p c) fs q :=
  ⟨FS.mtime_write_ne fs p q c h, FS.exists_write_ne fs p q c h⟩

/-! ## the decision for a selected value depends on the file system at its two file names only -/

theorem pdfDecide_congr (ow : Bool) (fs fs' : FS) (v : Item)
    (h : ∀ t, texOf v = some t → Agree fs fs' t ∧ Agree fs fs' (pdfName t)) :
    pdfDecide ow fs v = pdfDecide ow fs' v := by
  unfold pdfDecide
  cases hd : v.data with
  | str t =>
    obtain ⟨⟨h1, _⟩, ⟨h3, h4⟩⟩ := h t (by simp [texOf, hd])
    simp only [pdfName] at h3 h4
    simp only [h1, h3, h4]
  | _ => rfl

/-! ## results of the process pool -/

theorem prodsOf_append (a b : List Emit) : prodsOf (a ++ b) = prodsOf a ++ prodsOf b := by
  simp [prodsOf, List.filterMap_append]

theorem prodsOf_nil : prodsOf [] = [] := rfl
theorem prodsOf_pass (v : Item) : prodsOf [.pass v] = [] := rfl
theorem prodsOf_prod (v : Item) : prodsOf [.prod v] = [v] := rfl
theorem prodsOf_cons_prod (v : Item) (es : List Emit) : prodsOf (.prod v :: es) = v :: prodsOf es := rfl

theorem pending_cons (rc : Nat → Int) (p : Proc) (ps : List Proc) :
    pending rc (p :: ps) = (if rc p.pid != 0 then [] else [procResult p]) ++ pending rc ps := by
  unfold pending
  rw [List.filterMap_cons]
  by_cases h : (rc p.pid != 0) = true
  · rw [if_pos h, if_pos h]; rfl
  · rw [if_neg h, if_neg h]; rfl

theorem pending_append (rc : Nat → Int) (a b : List Proc) : pending rc (a ++ b) = pending rc a ++ pending rc b := by
  simp [pending, List.filterMap_append]

/-- `pop_returned_processes`: what it yields plus what remains pending is what was pending; the pool
shrinks; only the pool's own files are written -/
theorem popReturned_spec (sch : Sched) (it : Nat) : ∀ (pool : List Proc) (fs : FS),
    (prodsOf (popReturned sch it fs pool).2.1 ++ pending sch.rc (popReturned sch it fs pool).1).Perm
      (pending sch.rc pool) ∧
    (popReturned sch it fs pool).1.Sublist pool ∧
    (∀ q, q ∉ pool.map (·.key) → Agree (popReturned sch it fs pool).2.2 fs q)
  | [], fs => by simp [popReturned, prodsOf_nil, pending, Agree.refl]
  | p :: ps, fs => by
    unfold popReturned
    split
    · split
      · rename_i hrc
        obtain ⟨h1, h2, h3⟩ := popReturned_spec sch it ps fs
        refine ⟨?_, h2.trans (List.sublist_cons_self _ _), ?_⟩
        · rw [pending_cons]; simpa [hrc] using h1
        · intro q hq
          exact h3 q (fun h => hq (by simp [h]))
      · rename_i hrc
        obtain ⟨h1, h2, h3⟩ := popReturned_spec sch it ps (fs.write p.key (.conv "pdf" p.tex))
        refine ⟨?_, h2.trans (List.sublist_cons_self _ _), ?_⟩
        · rw [pending_cons]
          simp only [hrc, Bool.false_eq_true, if_false, prodsOf_cons_prod, List.cons_append, List.nil_append]
          exact List.Perm.cons _ h1
        · intro q hq
          have hqp : q ≠ p.key := fun h => hq (by simp [h])
          exact (h3 q (fun h => hq (by simp [h]))).trans (agree_write fs p.key q _ hqp)
    · obtain ⟨h1, h2, h3⟩ := popReturned_spec sch it ps fs
      refine ⟨?_, List.Sublist.cons_cons _ h2, ?_⟩
      · rw [pending_cons, pending_cons]
        refine (List.perm_append_comm_assoc _ _ _).trans ?_
        exact List.Perm.append_left _ h1
      · intro q hq
        exact h3 q (fun h => hq (by simp [h]))

/-- after the flow every remaining process is waited for: exactly the pending results, in pool order -/
theorem pdfDrain_spec (sch : Sched) : ∀ (pool : List Proc) (fs : FS),
    prodsOf (pdfDrain sch fs pool).1 = pending sch.rc pool
  | [], fs => rfl
  | p :: ps, fs => by
    unfold pdfDrain
    rw [pending_cons]
    split
    · rename_i hrc
      simpa [hrc] using pdfDrain_spec sch ps fs
    · rename_i hrc
      simp only [prodsOf_cons_prod, List.cons_append, List.nil_append]
      rw [pdfDrain_spec sch ps _]

/-- a key that is not in the pool is appended -/
theorem poolSet_of_not_mem (p : Proc) : ∀ pool : List Proc, p.key ∉ pool.map (·.key) → poolSet p pool = pool ++ [p]
  | [], _ => rfl
  | q :: qs, h => by
    have hq : (q.key == p.key) = false := by
      simpa using fun e => h (by simp [e])
    simp only [poolSet, hq, Bool.false_eq_true, if_false, List.cons_append]
    rw [poolSet_of_not_mem p qs (fun hm => h (by simp [hm]))]

/-! ## the timing-free description -/

/-- the files do not collide: the pdf names in the pool and of the selected values are pairwise different,
and no tex name is one of these pdf names -/
structure KeysOK (poolKeys : List String) (xs : List Item) : Prop where
  nodup : (poolKeys ++ selKeys xs).Nodup
  texNotKey : ∀ t ∈ selTex xs, t ∉ poolKeys ++ selKeys xs

/-- the executable check `keysOKb` (what the model driver evaluates) implies `KeysOK` -/
theorem keysOK_of_keysOKb (poolKeys : List String) (xs : List Item) (h : keysOKb poolKeys xs = true) :
    KeysOK poolKeys xs := by
  simp only [keysOKb, Bool.and_eq_true, decide_eq_true_eq, List.all_eq_true, Bool.not_eq_true',
    List.contains_eq_mem, decide_eq_false_iff_not] at h
  exact ⟨h.1, h.2⟩

theorem pdfSpec_congr (ow : Bool) (rc : Nat → Int) (fs fs' : FS) : ∀ (as : List Item) (n : Nat),
    (∀ t ∈ as.filterMap texOf, Agree fs fs' t ∧ Agree fs fs' (pdfName t)) →
    pdfSpec ow rc fs n as = pdfSpec ow rc fs' n as
  | [], _, _ => rfl
  | a :: as, n, h => by
    have ha : pdfDecide ow fs a = pdfDecide ow fs' a :=
      pdfDecide_congr ow fs fs' a (fun t ht => h t (by simp [ht]))
    have hrest : ∀ t ∈ as.filterMap texOf, Agree fs fs' t ∧ Agree fs fs' (pdfName t) := by
      intro t ht
      apply h t
      simp only [List.filterMap_cons]
      split
      · exact ht
      · exact List.mem_cons_of_mem _ ht
    unfold pdfSpec
    rw [ha]
    split
    · rfl
    · rw [pdfSpec_congr ow rc fs fs' as n hrest]
    · rw [pdfSpec_congr ow rc fs fs' as (n + 1) hrest]

/-! ## the loop against the timing-free description -/

theorem pdfDecide_of_texOf_none (ow : Bool) (fs : FS) (v : Item) (h : texOf v = none) :
    ∃ e, pdfDecide ow fs v = .err e := by
  unfold pdfDecide
  unfold texOf at h
  revert h
  generalize v.data = data
  intro h
  cases data <;> simp only at h ⊢ <;> try contradiction
  all_goals (split <;> exact ⟨_, rfl⟩)

theorem pdfDecide_launch (ow : Bool) (fs : FS) (v : Item) (key tex : String) (ctx : Ctx)
    (h : pdfDecide ow fs v = .launch key tex ctx) : texOf v = some tex ∧ key = pdfName tex := by
  unfold pdfDecide at h
  unfold texOf pdfName
  revert h
  generalize v.data = data
  intro h
  cases data <;> simp only at h ⊢
  case str t =>
    repeat' split at h
    all_goals first
      | contradiction
      | (injection h with h1 h2 h3; subst h1 h2; exact ⟨rfl, rfl⟩)
  all_goals (split at h <;> contradiction)

theorem selTex_cons_unsel (v : Item) (vs : List Item) (h : pdfSel v = false) : selTex (v :: vs) = selTex vs := by
  simp [selTex, h]

theorem selTex_cons_sel (v : Item) (vs : List Item) (t : String) (h : pdfSel v = true) (ht : texOf v = some t) :
    selTex (v :: vs) = t :: selTex vs := by
  simp [selTex, h, ht]

theorem KeysOK.sublist {pk pk' : List String} {xs : List Item} (h : KeysOK pk xs) (hs : pk'.Sublist pk) :
    KeysOK pk' xs where
  nodup := h.nodup.sublist (List.Sublist.append hs (List.Sublist.refl _))
  texNotKey := by
    intro t ht hm
    apply h.texNotKey t ht
    rcases List.mem_append.1 hm with hm | hm
    · exact List.mem_append_left _ (hs.subset hm)
    · exact List.mem_append_right _ hm

theorem KeysOK.reads_not_pool {pk : List String} {xs : List Item} (h : KeysOK pk xs) (t : String)
    (ht : t ∈ selTex xs) : t ∉ pk ∧ pdfName t ∉ pk := by
  constructor
  · intro hm; exact h.texNotKey t ht (List.mem_append_left _ hm)
  · intro hm
    have hk : pdfName t ∈ selKeys xs := List.mem_map.2 ⟨t, ht, rfl⟩
    exact (List.nodup_append.1 h.nodup).2.2 _ hm _ hk rfl

theorem KeysOK.tail_unsel {pk : List String} {v : Item} {vs : List Item} (h : KeysOK pk (v :: vs))
    (hs : pdfSel v = false) : KeysOK pk vs := by
  have e : selTex (v :: vs) = selTex vs := selTex_cons_unsel v vs hs
  constructor
  · simpa [selKeys, e] using h.nodup
  · intro t ht; simpa [selKeys, e] using h.texNotKey t (by rw [e]; exact ht)

theorem KeysOK.tail_launch {pk : List String} {v : Item} {vs : List Item} {t : String} (h : KeysOK pk (v :: vs))
    (hs : pdfSel v = true) (ht : texOf v = some t) : KeysOK (pk ++ [pdfName t]) vs := by
  have e : selTex (v :: vs) = t :: selTex vs := selTex_cons_sel v vs t hs ht
  constructor
  · have := h.nodup
    simpa [selKeys, e] using this
  · intro t' ht'
    have := h.texNotKey t' (by rw [e]; exact List.mem_cons_of_mem _ ht')
    simpa [selKeys, e] using this

theorem KeysOK.tail_skip {pk : List String} {v : Item} {vs : List Item} {t : String} (h : KeysOK pk (v :: vs))
    (hs : pdfSel v = true) (ht : texOf v = some t) : KeysOK pk vs :=
  (h.tail_launch hs ht).sublist (List.sublist_append_left _ _)

open List in
/-- **the loop of `LaTeXToPDF.run` against the timing-free description**: from any state, for any schedule
and any interleaved unselected values -/
theorem pdf_loop_spec (ow : Bool) (sch : Sched) : ∀ (xs : List Item) (st : PdfSt),
    (loop (pdfStep ow sch) st xs).err = none →
    KeysOK (st.pool.map (·.key)) xs →
    (prodsOf (loop (pdfStep ow sch) st xs).blocks.flatten ++
        pending sch.rc (loop (pdfStep ow sch) st xs).st.pool).Perm
      (pending sch.rc st.pool ++ pdfSpec ow sch.rc st.fs st.launched (xs.filter pdfSel))
  | [], st, _, _ => by simp [loop, prodsOf_nil, pdfSpec]
  | v :: vs, st, he, hk => by
    obtain ⟨hpop, hsub, hagree⟩ := popReturned_spec sch st.iter st.pool st.fs
    generalize hr : popReturned sch st.iter st.fs st.pool = r at hpop hsub hagree
    obtain ⟨pool1, popped, fs1⟩ := r
    simp only at hpop hsub hagree
    have hsubk : (pool1.map (·.key)).Sublist (st.pool.map (·.key)) := hsub.map _
    -- the description of the rest of the flow does not see the files written by the pool
    have hcongr : ∀ (n : Nat), KeysOK (st.pool.map (·.key)) vs →
        pdfSpec ow sch.rc fs1 n (vs.filter pdfSel) = pdfSpec ow sch.rc st.fs n (vs.filter pdfSel) := by
      intro n hkv
      apply pdfSpec_congr
      intro t ht
      obtain ⟨h1, h2⟩ := hkv.reads_not_pool t ht
      exact ⟨hagree t h1, hagree (pdfName t) h2⟩
    cases hs : pdfSel v
    · -- an unselected value
      have hstep : pdfStep ow sch st v =
          ⟨popped ++ [.pass v], { st with fs := fs1, pool := pool1, iter := st.iter + 1 }, none⟩ := by
        simp [pdfStep, hr, hs]
      rw [loop_cons_ok _ _ _ _ _ _ hstep] at he ⊢
      simp only at he
      have hkv := hk.tail_unsel hs
      have ih := pdf_loop_spec ow sch vs _ he (hkv.sublist hsubk)
      simp only [List.flatten_cons, prodsOf_append, prodsOf_pass, List.append_nil, List.filter_cons, hs,
        Bool.false_eq_true, if_false]
      simp only at ih
      rw [hcongr _ hkv] at ih
      calc (prodsOf popped ++ prodsOf _) ++ pending sch.rc _
          = prodsOf popped ++ (prodsOf _ ++ pending sch.rc _) := by rw [List.append_assoc]
        _ ~ prodsOf popped ++ (pending sch.rc pool1 ++ pdfSpec ow sch.rc st.fs st.launched (vs.filter pdfSel)) :=
            List.Perm.append_left _ ih
        _ = (prodsOf popped ++ pending sch.rc pool1) ++ pdfSpec ow sch.rc st.fs st.launched (vs.filter pdfSel) := by
            rw [List.append_assoc]
        _ ~ pending sch.rc st.pool ++ pdfSpec ow sch.rc st.fs st.launched (vs.filter pdfSel) :=
            List.Perm.append_right _ hpop
    · -- a selected value
      cases ht : texOf v with
      | none =>
        obtain ⟨e, hd⟩ := pdfDecide_of_texOf_none ow fs1 v ht
        have hstep : pdfStep ow sch st v =
            ⟨popped, { st with fs := fs1, pool := pool1, iter := st.iter + 1 }, some e⟩ := by
          simp [pdfStep, hr, hs, hd]
        rw [loop_cons_err _ _ _ _ _ _ _ hstep] at he
        simp at he
      | some t =>
        have hreads := hk.reads_not_pool t (by rw [selTex_cons_sel v vs t hs ht]; simp)
        have hdec : pdfDecide ow fs1 v = pdfDecide ow st.fs v := by
          apply pdfDecide_congr
          intro t' ht'
          rw [ht] at ht'
          injection ht' with ht'
          subst ht'
          exact ⟨hagree _ hreads.1, hagree _ hreads.2⟩
        simp only [List.filter_cons, hs, if_true]
        rw [show pdfSpec ow sch.rc st.fs st.launched (v :: vs.filter pdfSel) =
          (match pdfDecide ow st.fs v with
            | .err _ => []
            | .skip y => y :: pdfSpec ow sch.rc st.fs st.launched (vs.filter pdfSel)
            | .launch key tex ctx =>
              (if sch.rc st.launched != 0 then [] else [procResult ⟨key, st.launched, tex, ctx, v.tok⟩]) ++
                pdfSpec ow sch.rc st.fs (st.launched + 1) (vs.filter pdfSel)) from rfl]
        rw [← hdec]
        cases hd : pdfDecide ow fs1 v with
        | err e =>
          have hstep : pdfStep ow sch st v =
              ⟨popped, { st with fs := fs1, pool := pool1, iter := st.iter + 1 }, some e⟩ := by
            simp [pdfStep, hr, hs, hd]
          rw [loop_cons_err _ _ _ _ _ _ _ hstep] at he
          simp at he
        | skip y =>
          have hstep : pdfStep ow sch st v =
              ⟨popped ++ [.prod y], { st with fs := fs1, pool := pool1, iter := st.iter + 1 }, none⟩ := by
            simp [pdfStep, hr, hs, hd]
          rw [loop_cons_ok _ _ _ _ _ _ hstep] at he ⊢
          simp only at he
          have hkv := hk.tail_skip hs ht
          have ih := pdf_loop_spec ow sch vs _ he (hkv.sublist hsubk)
          simp only at ih
          rw [hcongr _ hkv] at ih
          simp only [List.flatten_cons, prodsOf_append, prodsOf_prod]
          calc (prodsOf popped ++ [y] ++ prodsOf _) ++ pending sch.rc _
              = prodsOf popped ++ ([y] ++ (prodsOf _ ++ pending sch.rc _)) := by simp [List.append_assoc]
            _ ~ prodsOf popped ++ ([y] ++ (pending sch.rc pool1 ++
                  pdfSpec ow sch.rc st.fs st.launched (vs.filter pdfSel))) :=
                List.Perm.append_left _ (List.Perm.append_left _ ih)
            _ ~ prodsOf popped ++ (pending sch.rc pool1 ++ ([y] ++
                  pdfSpec ow sch.rc st.fs st.launched (vs.filter pdfSel))) :=
                List.Perm.append_left _ (List.perm_append_comm_assoc _ _ _)
            _ = (prodsOf popped ++ pending sch.rc pool1) ++ (y ::
                  pdfSpec ow sch.rc st.fs st.launched (vs.filter pdfSel)) := by simp [List.append_assoc]
            _ ~ pending sch.rc st.pool ++ (y :: pdfSpec ow sch.rc st.fs st.launched (vs.filter pdfSel)) :=
                List.Perm.append_right _ hpop
        | launch key tex ctx =>
          obtain ⟨htex, hkey⟩ := pdfDecide_launch ow fs1 v key tex ctx hd
          rw [ht] at htex
          injection htex with htex
          subst htex hkey
          have hnot : (pdfName t) ∉ pool1.map (·.key) := fun hm => hreads.2 (hsubk.subset hm)
          have hset : poolSet ⟨pdfName t, st.launched, t, ctx, v.tok⟩ pool1 =
              pool1 ++ [⟨pdfName t, st.launched, t, ctx, v.tok⟩] := poolSet_of_not_mem _ _ hnot
          have hstep : pdfStep ow sch st v =
              ⟨popped, { fs := fs1, pool := pool1 ++ [⟨pdfName t, st.launched, t, ctx, v.tok⟩],
                         launched := st.launched + 1, iter := st.iter + 1 }, none⟩ := by
            simp [pdfStep, hr, hs, hd, hset]
          rw [loop_cons_ok _ _ _ _ _ _ hstep] at he ⊢
          simp only at he
          have hkl := hk.tail_launch hs ht
          have hkv := hk.tail_skip hs ht
          have hsubk' : ((pool1 ++ [(⟨pdfName t, st.launched, t, ctx, v.tok⟩ : Proc)]).map (·.key)).Sublist
              (st.pool.map (·.key) ++ [pdfName t]) := by
            simpa using List.Sublist.append hsubk (List.Sublist.refl [pdfName t])
          have ih := pdf_loop_spec ow sch vs _ he (hkl.sublist hsubk')
          simp only at ih
          rw [hcongr _ hkv, pending_append] at ih
          simp only [List.flatten_cons, prodsOf_append]
          rw [show pending sch.rc [(⟨pdfName t, st.launched, t, ctx, v.tok⟩ : Proc)] =
            (if sch.rc st.launched != 0 then [] else [procResult ⟨pdfName t, st.launched, t, ctx, v.tok⟩]) by
              rw [pending_cons]; simp [pending]] at ih
          calc (prodsOf popped ++ prodsOf _) ++ pending sch.rc _
              = prodsOf popped ++ (prodsOf _ ++ pending sch.rc _) := by rw [List.append_assoc]
            _ ~ prodsOf popped ++ ((pending sch.rc pool1 ++ _) ++ _) := List.Perm.append_left _ ih
            _ = (prodsOf popped ++ pending sch.rc pool1) ++ (_ ++ _) := by simp [List.append_assoc]
            _ ~ pending sch.rc st.pool ++ (_ ++ _) := List.Perm.append_right _ hpop

theorem pdfSpecErr_congr (ow : Bool) (fs fs' : FS) : ∀ (as : List Item),
    (∀ t ∈ as.filterMap texOf, Agree fs fs' t ∧ Agree fs fs' (pdfName t)) →
    pdfSpecErr ow fs as = pdfSpecErr ow fs' as
  | [], _ => rfl
  | a :: as, h => by
    have ha : pdfDecide ow fs a = pdfDecide ow fs' a :=
      pdfDecide_congr ow fs fs' a (fun t ht => h t (by simp [ht]))
    have hrest : ∀ t ∈ as.filterMap texOf, Agree fs fs' t ∧ Agree fs fs' (pdfName t) := by
      intro t ht
      apply h t
      simp only [List.filterMap_cons]
      split
      · exact ht
      · exact List.mem_cons_of_mem _ ht
    unfold pdfSpecErr
    rw [ha, pdfSpecErr_congr ow fs fs' as hrest]

/-- **whether and with which exception the loop of `LaTeXToPDF.run` ends is decided by the selected values and
the file system the run starts with** — not by the interleaved unselected values, not by the schedule -/
theorem pdf_loop_err (ow : Bool) (sch : Sched) : ∀ (xs : List Item) (st : PdfSt),
    KeysOK (st.pool.map (·.key)) xs →
    (loop (pdfStep ow sch) st xs).err = pdfSpecErr ow st.fs (xs.filter pdfSel)
  | [], st, _ => rfl
  | v :: vs, st, hk => by
    obtain ⟨_, hsub, hagree⟩ := popReturned_spec sch st.iter st.pool st.fs
    generalize hr : popReturned sch st.iter st.fs st.pool = r at hsub hagree
    obtain ⟨pool1, popped, fs1⟩ := r
    simp only at hsub hagree
    have hsubk : (pool1.map (·.key)).Sublist (st.pool.map (·.key)) := hsub.map _
    have hcongr : KeysOK (st.pool.map (·.key)) vs →
        pdfSpecErr ow fs1 (vs.filter pdfSel) = pdfSpecErr ow st.fs (vs.filter pdfSel) := by
      intro hkv
      apply pdfSpecErr_congr
      intro t ht
      obtain ⟨h1, h2⟩ := hkv.reads_not_pool t ht
      exact ⟨hagree t h1, hagree (pdfName t) h2⟩
    cases hs : pdfSel v
    · have hstep : pdfStep ow sch st v =
          ⟨popped ++ [.pass v], { st with fs := fs1, pool := pool1, iter := st.iter + 1 }, none⟩ := by
        simp [pdfStep, hr, hs]
      rw [loop_cons_ok _ _ _ _ _ _ hstep]
      have hkv := hk.tail_unsel hs
      have ih := pdf_loop_err ow sch vs { st with fs := fs1, pool := pool1, iter := st.iter + 1 }
        (hkv.sublist hsubk)
      simp only [List.filter_cons, hs, Bool.false_eq_true, if_false]
      simp only at ih
      rw [ih, hcongr hkv]
    · cases ht : texOf v with
      | none =>
        obtain ⟨e, hd⟩ := pdfDecide_of_texOf_none ow fs1 v ht
        obtain ⟨e', hd'⟩ := pdfDecide_of_texOf_none ow st.fs v ht
        have hee : e = e' := by
          have := pdfDecide_congr ow fs1 st.fs v (fun t h => by rw [ht] at h; cases h)
          rw [hd, hd'] at this
          injection this
        have hstep : pdfStep ow sch st v =
            ⟨popped, { st with fs := fs1, pool := pool1, iter := st.iter + 1 }, some e⟩ := by
          simp [pdfStep, hr, hs, hd]
        rw [loop_cons_err _ _ _ _ _ _ _ hstep]
        simp [hs, pdfSpecErr, hd', hee]
      | some t =>
        have hreads := hk.reads_not_pool t (by rw [selTex_cons_sel v vs t hs ht]; simp)
        have hdec : pdfDecide ow fs1 v = pdfDecide ow st.fs v := by
          apply pdfDecide_congr
          intro t' ht'
          rw [ht] at ht'
          injection ht' with ht'
          subst ht'
          exact ⟨hagree _ hreads.1, hagree _ hreads.2⟩
        simp only [List.filter_cons, hs, if_true]
        rw [show pdfSpecErr ow st.fs (v :: vs.filter pdfSel) =
          (match pdfDecide ow st.fs v with
            | .err e => some e
            | _ => pdfSpecErr ow st.fs (vs.filter pdfSel)) from rfl]
        rw [← hdec]
        cases hd : pdfDecide ow fs1 v with
        | err e =>
          have hstep : pdfStep ow sch st v =
              ⟨popped, { st with fs := fs1, pool := pool1, iter := st.iter + 1 }, some e⟩ := by
            simp [pdfStep, hr, hs, hd]
          rw [loop_cons_err _ _ _ _ _ _ _ hstep]
        | skip y =>
          have hstep : pdfStep ow sch st v =
              ⟨popped ++ [.prod y], { st with fs := fs1, pool := pool1, iter := st.iter + 1 }, none⟩ := by
            simp [pdfStep, hr, hs, hd]
          rw [loop_cons_ok _ _ _ _ _ _ hstep]
          have hkv := hk.tail_skip hs ht
          have ih := pdf_loop_err ow sch vs { st with fs := fs1, pool := pool1, iter := st.iter + 1 }
            (hkv.sublist hsubk)
          simp only at ih
          rw [ih, hcongr hkv]
        | launch key tex ctx =>
          obtain ⟨htex, hkey⟩ := pdfDecide_launch ow fs1 v key tex ctx hd
          rw [ht] at htex
          injection htex with htex
          subst htex hkey
          have hnot : (pdfName t) ∉ pool1.map (·.key) := fun hm => hreads.2 (hsubk.subset hm)
          have hset : poolSet ⟨pdfName t, st.launched, t, ctx, v.tok⟩ pool1 =
              pool1 ++ [⟨pdfName t, st.launched, t, ctx, v.tok⟩] := poolSet_of_not_mem _ _ hnot
          have hstep : pdfStep ow sch st v =
              ⟨popped, { fs := fs1, pool := pool1 ++ [⟨pdfName t, st.launched, t, ctx, v.tok⟩],
                         launched := st.launched + 1, iter := st.iter + 1 }, none⟩ := by
            simp [pdfStep, hr, hs, hd, hset]
          rw [loop_cons_ok _ _ _ _ _ _ hstep]
          have hkl := hk.tail_launch hs ht
          have hkv := hk.tail_skip hs ht
          have hsubk' : ((pool1 ++ [(⟨pdfName t, st.launched, t, ctx, v.tok⟩ : Proc)]).map (·.key)).Sublist
              (st.pool.map (·.key) ++ [pdfName t]) := by
            simpa using List.Sublist.append hsubk (List.Sublist.refl [pdfName t])
          have ih := pdf_loop_err ow sch vs
            { fs := fs1, pool := pool1 ++ [⟨pdfName t, st.launched, t, ctx, v.tok⟩],
              launched := st.launched + 1, iter := st.iter + 1 } (hkl.sublist hsubk')
          simp only at ih
          rw [ih, hcongr hkv]

/-! ## the file system changes only at the pdf names of processes -/

theorem pdfDrain_agree (sch : Sched) (q : String) : ∀ (pool : List Proc) (fs : FS),
    q ∉ pool.map (·.key) → Agree (pdfDrain sch fs pool).2 fs q
  | [], fs, _ => Agree.refl _ _
  | p :: ps, fs, hq => by
    have hqp : q ≠ p.key := fun h => hq (by simp [h])
    have hqs : q ∉ ps.map (·.key) := fun h => hq (by simp [h])
    unfold pdfDrain
    split
    · exact pdfDrain_agree sch q ps fs hqs
    · exact (pdfDrain_agree sch q ps _ hqs).trans (agree_write fs p.key q _ hqp)

theorem poolSet_keys (p : Proc) : ∀ (pool : List Proc) (q : String),
    q ∈ (poolSet p pool).map (·.key) → q = p.key ∨ q ∈ pool.map (·.key)
  | [], q, h => by simpa [poolSet] using h
  | x :: xs, q, h => by
    unfold poolSet at h
    split at h
    · rename_i hk
      simp only [List.map_cons, List.mem_cons] at h
      rcases h with h | h
      · exact Or.inl h
      · exact Or.inr (by simp [h])
    · simp only [List.map_cons, List.mem_cons] at h
      rcases h with h | h
      · exact Or.inr (by simp [h])
      · rcases poolSet_keys p xs q h with h | h
        · exact Or.inl h
        · exact Or.inr (by simp [h])

theorem selKeys_cons_unsel (v : Item) (vs : List Item) (h : pdfSel v = false) : selKeys (v :: vs) = selKeys vs := by
  simp [selKeys, selTex_cons_unsel v vs h]

theorem selKeys_cons_sel (v : Item) (vs : List Item) (t : String) (h : pdfSel v = true) (ht : texOf v = some t) :
    selKeys (v :: vs) = pdfName t :: selKeys vs := by
  simp [selKeys, selTex_cons_sel v vs t h ht]

/-- the loop of `LaTeXToPDF.run` leaves every path alone that is neither the pdf of a process in the pool nor the
pdf name of a selected value of the flow; and no process for such a path is in the pool afterwards -/
theorem pdf_loop_fs (ow : Bool) (sch : Sched) (q : String) : ∀ (xs : List Item) (st : PdfSt),
    q ∉ st.pool.map (·.key) → q ∉ selKeys xs →
    Agree (loop (pdfStep ow sch) st xs).st.fs st.fs q ∧ q ∉ (loop (pdfStep ow sch) st xs).st.pool.map (·.key)
  | [], st, hp, _ => ⟨Agree.refl _ _, hp⟩
  | v :: vs, st, hp, hs => by
    obtain ⟨_, hsub, hagree⟩ := popReturned_spec sch st.iter st.pool st.fs
    generalize hr : popReturned sch st.iter st.fs st.pool = r at hsub hagree
    obtain ⟨pool1, popped, fs1⟩ := r
    simp only at hsub hagree
    have hp1 : q ∉ pool1.map (·.key) := fun h => hp ((hsub.map _).subset h)
    have ha1 : Agree fs1 st.fs q := hagree q hp
    cases hsel : pdfSel v
    · have hstep : pdfStep ow sch st v =
          ⟨popped ++ [.pass v], { st with fs := fs1, pool := pool1, iter := st.iter + 1 }, none⟩ := by
        simp [pdfStep, hr, hsel]
      rw [loop_cons_ok _ _ _ _ _ _ hstep]
      obtain ⟨i1, i2⟩ := pdf_loop_fs ow sch q vs { st with fs := fs1, pool := pool1, iter := st.iter + 1 } hp1
        (by rw [selKeys_cons_unsel v vs hsel] at hs; exact hs)
      exact ⟨i1.trans ha1, i2⟩
    · cases hd : pdfDecide ow fs1 v with
      | err e =>
        have hstep : pdfStep ow sch st v =
            ⟨popped, { st with fs := fs1, pool := pool1, iter := st.iter + 1 }, some e⟩ := by
          simp [pdfStep, hr, hsel, hd]
        rw [loop_cons_err _ _ _ _ _ _ _ hstep]
        exact ⟨ha1, hp1⟩
      | skip y =>
        have hstep : pdfStep ow sch st v =
            ⟨popped ++ [.prod y], { st with fs := fs1, pool := pool1, iter := st.iter + 1 }, none⟩ := by
          simp [pdfStep, hr, hsel, hd]
        rw [loop_cons_ok _ _ _ _ _ _ hstep]
        have hs' : q ∉ selKeys vs := by
          cases ht : texOf v with
          | none => simpa [selKeys, selTex, List.filter_cons, hsel, ht] using hs
          | some t => rw [selKeys_cons_sel v vs t hsel ht] at hs; exact fun h => hs (List.mem_cons_of_mem _ h)
        obtain ⟨i1, i2⟩ := pdf_loop_fs ow sch q vs { st with fs := fs1, pool := pool1, iter := st.iter + 1 } hp1 hs'
        exact ⟨i1.trans ha1, i2⟩
      | launch key tex ctx =>
        obtain ⟨htex, hkey⟩ := pdfDecide_launch ow fs1 v key tex ctx hd
        rw [selKeys_cons_sel v vs tex hsel htex] at hs
        have hqk : q ≠ key := by rw [hkey]; exact fun h => hs (by simp [h])
        have hs' : q ∉ selKeys vs := fun h => hs (List.mem_cons_of_mem _ h)
        have hstep : pdfStep ow sch st v =
            ⟨popped, { fs := fs1, pool := poolSet ⟨key, st.launched, tex, ctx, v.tok⟩ pool1,
                       launched := st.launched + 1, iter := st.iter + 1 }, none⟩ := by
          simp [pdfStep, hr, hsel, hd]
        rw [loop_cons_ok _ _ _ _ _ _ hstep]
        have hp2 : q ∉ (poolSet ⟨key, st.launched, tex, ctx, v.tok⟩ pool1).map (·.key) := by
          intro h
          rcases poolSet_keys _ _ _ h with h | h
          · exact hqk h
          · exact hp1 h
        obtain ⟨i1, i2⟩ := pdf_loop_fs ow sch q vs
          { fs := fs1, pool := poolSet ⟨key, st.launched, tex, ctx, v.tok⟩ pool1,
            launched := st.launched + 1, iter := st.iter + 1 } hp2 hs'
        exact ⟨i1.trans ha1, i2⟩

/-! ## helper lemmas of `Props/C10.lean` (moved here to keep that file readable) -/

section
variable {σ α β : Type}

theorem loop_blocks_length_le (f : σ → α → Step σ β) : ∀ (xs : List α) (s : σ),
    (loop f s xs).blocks.length ≤ xs.length
  | [], s => by simp [loop]
  | v :: vs, s => by
    rcases h : f s v with ⟨out, s', _ | e⟩
    · rw [loop_cons_ok f s s' v vs out h]; simpa using loop_blocks_length_le f vs s'
    · rw [loop_cons_err f s s' v vs out e h]; simp

theorem loop_blocks_length_of_ok (f : σ → α → Step σ β) : ∀ (xs : List α) (s : σ),
    (loop f s xs).err = none → (loop f s xs).blocks.length = xs.length
  | [], s, _ => by simp [loop]
  | v :: vs, s, he => by
    rcases h : f s v with ⟨out, s', _ | e⟩
    · rw [loop_cons_ok f s s' v vs out h] at he ⊢
      simpa using loop_blocks_length_of_ok f vs s' he
    · rw [loop_cons_err f s s' v vs out e h] at he; simp at he

theorem loop_blocks_ne_nil_of_err (f : σ → α → Step σ β) : ∀ (xs : List α) (s : σ),
    (loop f s xs).err.isSome = true → (loop f s xs).blocks ≠ []
  | [], s, he => by simp [loop] at he
  | v :: vs, s, _ => by
    rcases h : f s v with ⟨out, s', _ | e⟩
    · rw [loop_cons_ok f s s' v vs out h]; simp
    · rw [loop_cons_err f s s' v vs out e h]; simp

theorem pick_true_mergeBlocks : ∀ (p : List Bool) (blocks : List (List α)) (B : List α) (failed : Bool),
    p.count false ≤ B.length →
    (failed = true → blocks ≠ [] ∧ blocks.length ≤ p.count true) →
    (failed = false → blocks.length = p.count true) →
    pick true p (mergeBlocks failed p blocks B) = blocks
  | [], blocks, B, failed, _, h1, h2 => by
    cases failed
    · have := h2 rfl
      simp at this
      simp [this, pick]
    · have := (h1 rfl).2
      simp at this
      exact absurd this (h1 rfl).1
  | true :: p, [], B, failed, _, h1, h2 => by
    cases failed
    · have := h2 rfl
      simp at this
    · exact absurd rfl (h1 rfl).1
  | true :: p, blk :: as, B, failed, hB, h1, h2 => by
    by_cases hstop : (failed && as.isEmpty) = true
    · simp only [Bool.and_eq_true, List.isEmpty_iff] at hstop
      obtain ⟨_, has⟩ := hstop
      subst has
      simp [mergeBlocks, pick, *]
    · have ih := pick_true_mergeBlocks p as B failed (by simpa using hB)
        (fun hf => by
          have := h1 hf
          constructor
          · intro has; subst has; simp [hf] at hstop
          · simpa using this.2)
        (fun hf => by simpa using h2 hf)
      simp only [Bool.not_eq_true] at hstop
      simp [mergeBlocks, hstop, pick, ih]
  | false :: p, blocks, [], failed, hB, _, _ => by simp at hB
  | false :: p, blocks, b :: bs, failed, hB, h1, h2 => by
    have ih := pick_true_mergeBlocks p blocks bs failed (by simpa using hB)
      (fun hf => by simpa using h1 hf) (fun hf => by simpa using h2 hf)
    have : mergeBlocks failed (false :: p) blocks (b :: bs) = [b] :: mergeBlocks failed p blocks bs := by
      cases blocks <;> rfl
    simp [this, pick, ih]

theorem pick_false_mergeBlocks_of_ok : ∀ (p : List Bool) (blocks : List (List α)) (B : List α),
    p.count false = B.length → blocks.length = p.count true →
    pick false p (mergeBlocks false p blocks B) = B.map (fun b => [b])
  | [], blocks, B, hB, _ => by
    have : B = [] := by simpa using hB.symm
    simp [this, pick]
  | true :: p, [], B, _, h => by simp at h
  | true :: p, blk :: as, B, hB, h => by
    have ih := pick_false_mergeBlocks_of_ok p as B (by simpa using hB) (by simpa using h)
    simp [mergeBlocks, pick, ih]
  | false :: p, blocks, [], hB, _ => by simp at hB
  | false :: p, blocks, b :: bs, hB, h => by
    have ih := pick_false_mergeBlocks_of_ok p blocks bs (by simpa using hB) (by simpa using h)
    have : mergeBlocks false (false :: p) blocks (b :: bs) = [b] :: mergeBlocks false p blocks bs := by
      cases blocks <;> rfl
    simp [this, pick, ih]

theorem pick_false_mergeBlocks_prefix : ∀ (p : List Bool) (blocks : List (List α)) (B : List α) (failed : Bool),
    ∃ k, pick false p (mergeBlocks failed p blocks B) = (B.take k).map (fun b => [b])
  | [], blocks, B, failed => ⟨0, by simp [pick]⟩
  | true :: p, [], B, failed => ⟨0, by simp [mergeBlocks, pick]⟩
  | true :: p, blk :: as, B, failed => by
    by_cases hstop : (failed && as.isEmpty) = true
    · exact ⟨0, by simp [mergeBlocks, hstop, pick]⟩
    · obtain ⟨k, hk⟩ := pick_false_mergeBlocks_prefix p as B failed
      simp only [Bool.not_eq_true] at hstop
      exact ⟨k, by simp [mergeBlocks, hstop, pick, hk]⟩
  | false :: p, blocks, [], failed => ⟨0, by cases blocks <;> simp [mergeBlocks, pick]⟩
  | false :: p, blocks, b :: bs, failed => by
    obtain ⟨k, hk⟩ := pick_false_mergeBlocks_prefix p blocks bs failed
    have : mergeBlocks failed (false :: p) blocks (b :: bs) = [b] :: mergeBlocks failed p blocks bs := by
      cases blocks <;> rfl
    exact ⟨k + 1, by simp [this, pick, hk]⟩

/-- exactly `consumedB` unselected values get through -/
theorem pick_false_mergeBlocks_cut : ∀ (p : List Bool) (blocks : List (List α)) (B : List α) (failed : Bool),
    pick false p (mergeBlocks failed p blocks B) =
      (B.take (consumedB failed p blocks.length)).map (fun b => [b])
  | [], blocks, B, failed => by simp [pick, consumedB]
  | true :: p, [], B, failed => by simp [mergeBlocks, pick, consumedB]
  | true :: p, blk :: as, B, failed => by
    by_cases hstop : (failed && as.isEmpty) = true
    · have h2 : (failed && as.length == 0) = true := by
        simp only [Bool.and_eq_true, List.isEmpty_iff] at hstop
        simp [hstop.1, hstop.2]
      simp [mergeBlocks, hstop, pick, consumedB, h2]
    · have ih := pick_false_mergeBlocks_cut p as B failed
      have h2 : (failed && as.length == 0) = false := by
        simp only [Bool.not_eq_true, Bool.and_eq_false_iff] at hstop
        rcases hstop with h | h
        · simp [h]
        · have : as ≠ [] := by intro e; simp [e] at h
          have : as.length ≠ 0 := by simpa using this
          simp [this]
      simp only [Bool.not_eq_true] at hstop
      simp [mergeBlocks, hstop, pick, consumedB, h2, ih]
  | false :: p, blocks, [], failed => by cases blocks <;> simp [mergeBlocks, pick]
  | false :: p, blocks, b :: bs, failed => by
    have ih := pick_false_mergeBlocks_cut p blocks bs failed
    have : mergeBlocks failed (false :: p) blocks (b :: bs) = [b] :: mergeBlocks failed p blocks bs := by
      cases blocks <;> rfl
    simp [this, pick, consumedB, ih]

/-- without a failure every `false` entry of the pattern counts -/
theorem consumedB_of_ok : ∀ (p : List Bool) (n : Nat), n = p.count true → consumedB false p n = p.count false
  | [], _, _ => rfl
  | true :: p, 0, h => by simp at h
  | true :: p, n + 1, h => by
    have := consumedB_of_ok p n (by simpa using h)
    simp [consumedB, this]
  | false :: p, n, h => by
    have := consumedB_of_ok p n (by simpa using h)
    simp [consumedB, this]

theorem sublist_flatten_mergeBlocks : ∀ (p : List Bool) (blocks : List (List α)) (B : List α),
    p.count false = B.length → blocks.length = p.count true →
    B.Sublist (mergeBlocks false p blocks B).flatten
  | [], blocks, B, hB, _ => by
    have : B = [] := by simpa using hB.symm
    simp [this]
  | true :: p, [], B, _, h => by simp at h
  | true :: p, blk :: as, B, hB, h => by
    have ih := sublist_flatten_mergeBlocks p as B (by simpa using hB) (by simpa using h)
    simp only [mergeBlocks, Bool.false_and, Bool.false_eq_true, if_false, List.flatten_cons]
    exact ih.trans (List.sublist_append_right _ _)
  | false :: p, blocks, [], hB, _ => by simp at hB
  | false :: p, blocks, b :: bs, hB, h => by
    have ih := sublist_flatten_mergeBlocks p blocks bs (by simpa using hB) (by simpa using h)
    have : mergeBlocks false (false :: p) blocks (b :: bs) = [b] :: mergeBlocks false p blocks bs := by
      cases blocks <;> rfl
    simp only [this, List.flatten_cons, List.singleton_append]
    exact List.Sublist.cons_cons b ih

theorem ctxOr_d (v : Item) (k : Nat) : (v.ctxOr k).d = v.dict := by
  unfold Item.ctxOr Item.dict; cases v.ctx <;> rfl

/-- a loop whose body never changes the state leaves it as it was -/
theorem loop_state_const (f : σ → α → Step σ β) (h : ∀ s v, (f s v).st = s) :
    ∀ (xs : List α) (s : σ), (loop f s xs).st = s
  | [], s => rfl
  | v :: vs, s => by
    have hv := h s v
    rcases hf : f s v with ⟨out, s', _ | e⟩
    · rw [hf] at hv; simp only at hv; subst hv
      simp only [loop, hf]
      exact loop_state_const f h vs s'
    · rw [hf] at hv; simp only at hv; subst hv
      simp [loop, hf]

theorem mapBinsRounds_st (dc : Bool) (v : Item) (h : HistD) (d : Dict) (res : List CellRes) (s : σ) :
    ∀ (fuel k : Nat) (acc : List Item), (mapBinsRounds dc v h d res s fuel k acc).st = s
  | 0, _, _ => rfl
  | fuel + 1, k, acc => by
    unfold mapBinsRounds
    split
    · rfl
    · rfl
    · exact mapBinsRounds_st dc v h d res s fuel (k + 1) _

theorem Tok.made_ne (t : Tok) (k : Nat) : Tok.made t k ≠ t := by
  intro h
  have := congrArg sizeOf h
  simp at this
  omega

/-- every yielded value is a new object made from `v` -/
def AllFresh (v : Item) (out : List Item) : Prop := ∀ y ∈ out, ∃ k, y.tok = Tok.made v.tok k

theorem AllFresh.ne {v : Item} {out : List Item} (h : AllFresh v out) : ∀ y ∈ out, y.tok ≠ v.tok := by
  intro y hy
  obtain ⟨k, hk⟩ := h y hy
  rw [hk]; exact Tok.made_ne _ _

theorem allFresh_mk (v : Item) (k : Nat) (d : Data) (c : Ctx) : AllFresh v [mk v k d c] := by
  intro y hy
  simp only [List.mem_singleton] at hy
  exact ⟨2 * k, by rw [hy]; rfl⟩

theorem allFresh_nil (v : Item) : AllFresh v [] := by
  intro y hy; simp at hy

theorem allFresh_ite (v : Item) (c : Prop) [Decidable c] (a b : Step σ Item) (ha : AllFresh v a.out)
    (hb : AllFresh v b.out) : AllFresh v (if c then a else b).out := by
  split <;> assumption

theorem toCSV_selected_fresh (cfg : CsvCfg) (s : σ) (v : Item) (h : toCSVSel v = true) :
    AllFresh v (toCSVStep cfg s v).out := by
  unfold toCSVSel at h
  simp only [Bool.and_eq_true] at h
  obtain ⟨h1, h2⟩ := h
  simp only [toCSVStep, ctxOr_d, h1, Bool.not_true, Bool.false_eq_true, if_false]
  revert h2
  generalize v.data = data
  intro h2
  cases data with
  | hist hh =>
    simp only [Bool.or_eq_true] at h2
    by_cases h3 : (hh.dim == 1) = true
    · simp only [h3, if_true]
      exact allFresh_ite _ _ _ _ (allFresh_mk _ _ _ _) (allFresh_nil _)
    · have h4 : (hh.dim == 2) = true := by
        rcases h2 with h2 | h2
        · exact absurd h2 h3
        · exact h2
      simp only [h3, h4, Bool.false_eq_true, if_true, if_false]
      exact allFresh_ite _ _ _ _ (allFresh_mk _ _ _ _) (allFresh_nil _)
  | rows id k upd =>
    cases k
    case notCallable => simp [Data.hasRows, Data.rowsInfo] at h2
    all_goals
      simp only [Data.rowsInfo]
      first | exact allFresh_nil _ | exact allFresh_mk _ _ _ _
  | graph src n =>
    simp only [Data.rowsInfo]
    exact allFresh_mk _ _ _ _
  | _ => simp [Data.hasRows, Data.rowsInfo] at h2

theorem render_selected_fresh (cfg : RenderCfg) (s : σ) (v : Item) (h : renderSel cfg v = true) :
    AllFresh v (renderStep cfg s v).out := by
  simp only [renderStep, h, if_true]
  repeat' split
  all_goals first | exact allFresh_nil _ | exact allFresh_mk _ _ _ _

theorem png_selected_fresh (cfg : PngCfg) (fs : FS) (v : Item) (h : pngSel v = true) :
    AllFresh v (pngStep cfg fs v).out := by
  simp only [pngStep, h, if_true]
  repeat' split
  all_goals first | exact allFresh_nil _ | exact allFresh_mk _ _ _ _

theorem histToGraph_selected_fresh (cfg : H2GCfg) (s : σ) (v : Item) (h : histToGraphSel v = true) :
    AllFresh v (histToGraphStep cfg s v).out := by
  unfold histToGraphSel at h
  simp only [Bool.and_eq_true] at h
  simp only [histToGraphStep, ctxOr_d, h.1, h.2, Bool.not_true, Bool.or_self, Bool.false_eq_true, if_false]
  have h1 := h.1
  revert h1
  generalize v.data = data
  intro h1
  cases data <;> simp only [Data.isHist] at h1 <;> try contradiction
  dsimp only
  split
  · exact allFresh_nil _
  · exact allFresh_mk _ _ _ _

theorem iterateBins_selected_fresh (sb : BinKind → Bool) (s : σ) (v : Item) (h : iterateBinsSel sb v = true) :
    AllFresh v (iterateBinsStep sb s v).out := by
  unfold iterateBinsSel at h
  unfold iterateBinsStep
  revert h
  generalize v.data = data
  intro h
  cases data <;> simp only at h <;> try contradiction
  simp only [h, Bool.not_true, Bool.false_eq_true, if_false]
  split
  · exact allFresh_nil _
  · intro y hy
    simp only [List.mem_map, List.mem_range] at hy
    obtain ⟨i, _, rfl⟩ := hy
    exact ⟨2 * i, rfl⟩

theorem mapBinsRounds_fresh (dc : Bool) (v : Item) (h : HistD) (d : Dict) (res : List CellRes) (s : σ) :
    ∀ (fuel k : Nat) (acc : List Item), AllFresh v acc → AllFresh v (mapBinsRounds dc v h d res s fuel k acc).out
  | 0, _, acc, ha => by
    intro y hy
    simp only [mapBinsRounds, List.mem_reverse] at hy
    exact ha y hy
  | fuel + 1, k, acc, ha => by
    unfold mapBinsRounds
    split
    · intro y hy
      simp only [List.mem_reverse] at hy
      exact ha y hy
    · intro y hy
      simp only [List.mem_reverse] at hy
      exact ha y hy
    · apply mapBinsRounds_fresh dc v h d res s fuel (k + 1)
      intro y hy
      simp only [List.mem_cons] at hy
      rcases hy with rfl | hy
      · exact ⟨2 * k, rfl⟩
      · exact ha y hy

theorem mapBins_selected_fresh (sb : BinKind → Bool) (inner : Item → CellRes) (dc : Bool) (s : σ) (v : Item)
    (h : mapBinsSel sb v = true) : AllFresh v (mapBinsStep sb inner dc s v).out := by
  unfold mapBinsSel at h
  unfold mapBinsStep
  revert h
  generalize v.data = data
  intro h
  cases data <;> simp only at h <;> try contradiction
  simp only [h, Bool.not_true, Bool.false_eq_true, if_false]
  exact mapBinsRounds_fresh _ _ _ _ _ _ _ _ _ (allFresh_nil _)

theorem groupOut_fresh (v : Item) (c : Ctx) (newVals : List (List Item)) (n : Nat) :
    ∀ (fuel k : Nat) (acc : List Item), AllFresh v acc → AllFresh v (groupOut v c newVals n fuel k acc).1
  | 0, _, acc, ha => by
    intro y hy
    simp only [groupOut, List.mem_reverse] at hy
    exact ha y hy
  | fuel + 1, k, acc, ha => by
    unfold groupOut
    split
    · intro y hy
      simp only [List.mem_reverse] at hy
      exact ha y hy
    · apply groupOut_fresh v c newVals n fuel (k + 1)
      intro y hy
      simp only [List.mem_cons] at hy
      rcases hy with rfl | hy
      · exact ⟨2 * k, rfl⟩
      · exact ha y hy

theorem mapGroup_selected_fresh (inner : σ → List Item → Step σ Item) (s : σ) (v : Item)
    (h : mapGroupSel v = true) : AllFresh v (mapGroupStep inner s v).out := by
  unfold mapGroupSel hasKey Item.dict at h
  unfold mapGroupStep
  cases hc : v.ctx with
  | none => simp [hc, lookup] at h
  | some c =>
    simp only [hc] at h ⊢
    cases hg : lookup c.d "group" with
    | none => simp [hg] at h
    | some g =>
      simp only [hg, Option.isSome_some, Bool.true_and] at h
      simp only [h, Bool.not_true, Bool.false_eq_true, if_false]
      repeat' split
      all_goals first
        | exact allFresh_nil _
        | exact groupOut_fresh _ _ _ _ _ _ _ (allFresh_nil _)

theorem passedOf_append (a b : List Emit) : passedOf (a ++ b) = passedOf a ++ passedOf b := by
  simp [passedOf, List.filterMap_append]

theorem passedOf_nil : passedOf [] = [] := rfl

theorem passedOf_pass (v : Item) : passedOf [.pass v] = [v] := rfl

theorem passedOf_prod (v : Item) : passedOf [.prod v] = [] := rfl

theorem passedOf_cons_prod (v : Item) (es : List Emit) : passedOf (.prod v :: es) = passedOf es := rfl

theorem popReturned_prod (sch : Sched) (it : Nat) : ∀ (pool : List Proc) (fs : FS),
    passedOf (popReturned sch it fs pool).2.1 = []
  | [], fs => rfl
  | p :: ps, fs => by
    unfold popReturned
    split
    · split
      · exact popReturned_prod sch it ps fs
      · have := popReturned_prod sch it ps (fs.write p.key (.conv "pdf" p.tex))
        simpa only [passedOf_cons_prod] using this
    · exact popReturned_prod sch it ps fs

theorem pdfDrain_prod (sch : Sched) : ∀ (pool : List Proc) (fs : FS), passedOf (pdfDrain sch fs pool).1 = []
  | [], fs => rfl
  | p :: ps, fs => by
    unfold pdfDrain
    split
    · exact pdfDrain_prod sch ps fs
    · have := pdfDrain_prod sch ps (fs.write p.key (.conv "pdf" p.tex))
      simpa only [passedOf_cons_prod] using this

/-- a selected value is never yielded as it came -/
theorem pdfStep_passed (ow : Bool) (sch : Sched) (st : PdfSt) (v : Item) :
    passedOf (pdfStep ow sch st v).out = if pdfSel v then [] else [v] := by
  have hpop := popReturned_prod sch st.iter st.pool st.fs
  cases h : pdfSel v
  · simp [pdfStep, h, passedOf_append, hpop, passedOf_pass]
  · simp only [pdfStep, h, Bool.not_true, Bool.false_eq_true, if_false, if_true]
    repeat' split
    all_goals simp only [passedOf_append, hpop, passedOf_prod, List.append_nil]

theorem pdf_loop_passed (ow : Bool) (sch : Sched) : ∀ (xs : List Item) (st : PdfSt),
    passedOf (loop (pdfStep ow sch) st xs).blocks.flatten =
      (xs.take (loop (pdfStep ow sch) st xs).blocks.length).filter (fun v => !pdfSel v)
  | [], st => rfl
  | v :: vs, st => by
    have hv := pdfStep_passed ow sch st v
    rcases hf : pdfStep ow sch st v with ⟨out, st', _ | e⟩
    · rw [hf] at hv
      have ih := pdf_loop_passed ow sch vs st'
      simp only [loop, hf, List.flatten_cons, passedOf_append, List.length_cons, List.take_succ_cons,
        List.filter_cons, ih]
      simp only at hv
      rw [hv]
      cases pdfSel v <;> simp
    · rw [hf] at hv
      simp only at hv
      simp only [loop, hf, List.flatten_cons, List.flatten_nil, List.append_nil, List.length_cons,
        List.length_nil, List.take_succ_cons, List.take_zero, List.filter_cons, List.filter_nil, hv]
      cases pdfSel v <;> simp

theorem pdfRun_err (ow : Bool) (sch : Sched) (fs : FS) (xs : List Item) :
    (pdfRun ow sch fs xs).err = (loop (pdfStep ow sch) ⟨fs, [], 0, 0⟩ xs).err := by
  cases h : (loop (pdfStep ow sch) ⟨fs, [], 0, 0⟩ xs).err <;> simp [pdfRun, h]

end

/-! ## the heap of context objects (aliasing) -/

theorem Heap.get_set_ne (h : Heap) (k t : Tok) (d : Dict) (hne : k ≠ t) : (h.set k d).get t = h.get t := by
  induction h with
  | nil => simp [Heap.set, Heap.get, hne]
  | cons x r ih =>
    obtain ⟨t', d'⟩ := x
    by_cases h1 : t' = k
    · subst h1
      simp [Heap.set, Heap.get, hne]
    · by_cases h2 : t' = t
      · subst h2
        simp [Heap.set, Heap.get, h1]
      · simp [Heap.set, Heap.get, h1, h2, ih]

theorem Heap.get_record_none (t : Tok) : ∀ (outs : List Item) (h : Heap), h.get t = none →
    (∀ y ∈ outs, ∀ c, y.ctx = some c → c.tok ≠ t) → (h.record outs).get t = none
  | [], h, h0, _ => h0
  | y :: ys, h, h0, hy => by
    unfold Heap.record
    simp only [List.foldl_cons]
    cases hc : y.ctx with
    | none =>
      simp only
      exact Heap.get_record_none t ys h h0 (fun z hz => hy z (List.mem_cons_of_mem _ hz))
    | some c =>
      simp only
      cases hct : c.tok with
      | src n =>
        simp only
        apply Heap.get_record_none t ys _ _ (fun z hz => hy z (List.mem_cons_of_mem _ hz))
        rw [Heap.get_set_ne _ _ _ _ (by rw [← hct]; exact hy y (by simp) c hc)]
        exact h0
      | made p k =>
        simp only
        exact Heap.get_record_none t ys h h0 (fun z hz => hy z (List.mem_cons_of_mem _ hz))

theorem Item.refresh_of_none (h : Heap) (v : Item) (hv : ∀ c, v.ctx = some c → h.get c.tok = none) :
    v.refresh h = v := by
  unfold Item.refresh
  cases hc : v.ctx with
  | none => rfl
  | some c => simp [hv c hc]


theorem ctxToks_cons_none (v : Item) (vs : List Item) (h : v.ctx = none) : ctxToks (v :: vs) = ctxToks vs := by
  simp [ctxToks, h]

theorem ctxToks_cons_some (v : Item) (vs : List Item) (c : Ctx) (h : v.ctx = some c) :
    ctxToks (v :: vs) = c.tok :: ctxToks vs := by
  simp [ctxToks, h]

end Lena.C10
