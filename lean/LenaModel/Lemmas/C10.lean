import LenaModel.Model.C10
/-! # C10 — helper lemmas for `LaTeXToPDF`: what is produced for the selected values is, as a multiset,
a function of the selected values, the initial file system and the return codes alone

`pdfSpec` is the timing-free description: decide for every selected value against the *initial* file
system; a skipped one contributes its `(pdf, context)` at once, a launched one contributes the result of
its process iff the return code is 0.  `pdf_loop_spec` shows that the loop of `LaTeXToPDF.run`, from any
state, for any schedule and any interleaved unselected values, produces a permutation of that — provided
the files involved do not collide (`KeysOK`). -/

namespace Lena.C10

/-! ## unfolding one iteration of a loop -/

section
variable {σ α β : Type}

theorem loop_nil (f : σ → α → Step σ β) (s : σ) : loop f s [] = ⟨[], s, none⟩ := rfl

theorem loop_cons_ok (f : σ → α → Step σ β) (s s' : σ) (v : α) (vs : List α) (out : List β)
    (h : f s v = ⟨out, s', none⟩) :
    loop f s (v :: vs) = ⟨out :: (loop f s' vs).blocks, (loop f s' vs).st, (loop f s' vs).err⟩ := by
  simp [loop, h]

theorem loop_cons_err (f : σ → α → Step σ β) (s s' : σ) (v : α) (vs : List α) (out : List β) (e : Exc)
    (h : f s v = ⟨out, s', some e⟩) :
    loop f s (v :: vs) = ⟨[out], s', some e⟩ := by
  simp [loop, h]

end

/-! ## the file system: a write is invisible at every other path -/

theorem find_replaceFile_ne (p q : String) (c : Content) (t : Nat) (h : q ≠ p) : ∀ files : List File,
    (replaceFile p c t files).find? (fun f => f.path == q) = files.find? (fun f => f.path == q)
  | [] => by
    have : (p == q) = false := by simpa using fun e => h e.symm
    simp [replaceFile, List.find?, this]
  | f :: r => by
    unfold replaceFile
    by_cases hf : (f.path == p) = true
    · have hfp : f.path = p := by simpa using hf
      have h1 : (p == q) = false := by simpa using fun e => h e.symm
      simp [hf, List.find?, h1, hfp]
    · simp only [hf, Bool.false_eq_true, if_false, List.find?]
      rw [find_replaceFile_ne p q c t h r]

theorem FS.mtime_write_ne (fs : FS) (p q : String) (c : Content) (h : q ≠ p) :
    (fs.write p c).mtime q = fs.mtime q := by
  simp [FS.mtime, FS.find, FS.write, find_replaceFile_ne p q c fs.clock h]

theorem FS.exists_write_ne (fs : FS) (p q : String) (c : Content) (h : q ≠ p) :
    (fs.write p c).exists q = fs.exists q := by
  simp [FS.exists, FS.isFile, FS.isDir, FS.find, FS.write, find_replaceFile_ne p q c fs.clock h]

/-- the two file systems look the same at path `q` to `LaTeXToPDF` (`getmtime`, `exists`) -/
def Agree (fs fs' : FS) (q : String) : Prop := fs.mtime q = fs'.mtime q ∧ fs.exists q = fs'.exists q

theorem Agree.refl (fs : FS) (q : String) : Agree fs fs q := ⟨rfl, rfl⟩

theorem Agree.trans {a b c : FS} {q : String} (h1 : Agree a b q) (h2 : Agree b c q) : Agree a c q :=
  ⟨h1.1.trans h2.1, h1.2.trans h2.2⟩

theorem agree_write (fs : FS) (p q : String) (c : Content) (h : q ≠ p) : Agree (fs.write p c) fs q :=
  ⟨FS.mtime_write_ne fs p q c h, FS.exists_write_ne fs p q c h⟩

/-! ## the decision for a selected value depends on the file system at its two file names only -/

theorem pdfDecide_congr (ow : Bool) (fs fs' : FS) (v : Item)
    (h : ∀ t, texOf v = some t → Agree fs fs' t ∧ Agree fs fs' (pdfName t)) :
    pdfDecide ow fs v = pdfDecide ow fs' v := by
  unfold pdfDecide
  cases hd : v.data with
  | str t =>
    obtain ⟨⟨h1, _⟩, ⟨h3, h4⟩⟩ := h t (by simp [texOf, hd])
    simp only [pdfName] at h3 h4
    simp only [h1, h3, h4]
  | _ => rfl

/-! ## results of the process pool -/

theorem prodsOf_append (a b : List Emit) : prodsOf (a ++ b) = prodsOf a ++ prodsOf b := by
  simp [prodsOf, List.filterMap_append]

theorem prodsOf_nil : prodsOf [] = [] := rfl
theorem prodsOf_pass (v : Item) : prodsOf [.pass v] = [] := rfl
theorem prodsOf_prod (v : Item) : prodsOf [.prod v] = [v] := rfl
theorem prodsOf_cons_prod (v : Item) (es : List Emit) : prodsOf (.prod v :: es) = v :: prodsOf es := rfl

theorem pending_cons (rc : Nat → Int) (p : Proc) (ps : List Proc) :
    pending rc (p :: ps) = (if rc p.pid != 0 then [] else [procResult p]) ++ pending rc ps := by
  unfold pending
  rw [List.filterMap_cons]
  by_cases h : (rc p.pid != 0) = true
  · rw [if_pos h, if_pos h]; rfl
  · rw [if_neg h, if_neg h]; rfl

theorem pending_append (rc : Nat → Int) (a b : List Proc) : pending rc (a ++ b) = pending rc a ++ pending rc b := by
  simp [pending, List.filterMap_append]

/-- `pop_returned_processes`: what it yields plus what remains pending is what was pending; the pool
shrinks; only the pool's own files are written -/
theorem popReturned_spec (sch : Sched) (it : Nat) : ∀ (pool : List Proc) (fs : FS),
    (prodsOf (popReturned sch it fs pool).2.1 ++ pending sch.rc (popReturned sch it fs pool).1).Perm
      (pending sch.rc pool) ∧
    (popReturned sch it fs pool).1.Sublist pool ∧
    (∀ q, q ∉ pool.map (·.key) → Agree (popReturned sch it fs pool).2.2 fs q)
  | [], fs => by simp [popReturned, prodsOf_nil, pending, Agree.refl]
  | p :: ps, fs => by
    unfold popReturned
    split
    · split
      · rename_i hrc
        obtain ⟨h1, h2, h3⟩ := popReturned_spec sch it ps fs
        refine ⟨?_, h2.trans (List.sublist_cons_self _ _), ?_⟩
        · rw [pending_cons]; simpa [hrc] using h1
        · intro q hq
          exact h3 q (fun h => hq (by simp [h]))
      · rename_i hrc
        obtain ⟨h1, h2, h3⟩ := popReturned_spec sch it ps (fs.write p.key (.conv "pdf" p.tex))
        refine ⟨?_, h2.trans (List.sublist_cons_self _ _), ?_⟩
        · rw [pending_cons]
          simp only [hrc, Bool.false_eq_true, if_false, prodsOf_cons_prod, List.cons_append, List.nil_append]
          exact List.Perm.cons _ h1
        · intro q hq
          have hqp : q ≠ p.key := fun h => hq (by simp [h])
          exact (h3 q (fun h => hq (by simp [h]))).trans (agree_write fs p.key q _ hqp)
    · obtain ⟨h1, h2, h3⟩ := popReturned_spec sch it ps fs
      refine ⟨?_, List.Sublist.cons_cons _ h2, ?_⟩
      · rw [pending_cons, pending_cons]
        refine (List.perm_append_comm_assoc _ _ _).trans ?_
        exact List.Perm.append_left _ h1
      · intro q hq
        exact h3 q (fun h => hq (by simp [h]))

/-- after the flow every remaining process is waited for: exactly the pending results, in pool order -/
theorem pdfDrain_spec (sch : Sched) : ∀ (pool : List Proc) (fs : FS),
    prodsOf (pdfDrain sch fs pool).1 = pending sch.rc pool
  | [], fs => rfl
  | p :: ps, fs => by
    unfold pdfDrain
    rw [pending_cons]
    split
    · rename_i hrc
      simpa [hrc] using pdfDrain_spec sch ps fs
    · rename_i hrc
      simp only [hrc, Bool.false_eq_true, if_false, prodsOf_cons_prod, List.cons_append, List.nil_append]
      rw [pdfDrain_spec sch ps _]

/-- a key that is not in the pool is appended -/
theorem poolSet_of_not_mem (p : Proc) : ∀ pool : List Proc, p.key ∉ pool.map (·.key) → poolSet p pool = pool ++ [p]
  | [], _ => rfl
  | q :: qs, h => by
    have hq : (q.key == p.key) = false := by
      simpa using fun e => h (by simp [e])
    simp only [poolSet, hq, Bool.false_eq_true, if_false, List.cons_append]
    rw [poolSet_of_not_mem p qs (fun hm => h (by simp [hm]))]

/-! ## the timing-free description -/

/-- the files do not collide: the pdf names in the pool and of the selected values are pairwise different,
and no tex name is one of these pdf names -/
structure KeysOK (poolKeys : List String) (xs : List Item) : Prop where
  nodup : (poolKeys ++ selKeys xs).Nodup
  texNotKey : ∀ t ∈ selTex xs, t ∉ poolKeys ++ selKeys xs

/-- the executable check `keysOKb` (what the model driver evaluates) implies `KeysOK` -/
theorem keysOK_of_keysOKb (poolKeys : List String) (xs : List Item) (h : keysOKb poolKeys xs = true) :
    KeysOK poolKeys xs := by
  simp only [keysOKb, Bool.and_eq_true, decide_eq_true_eq, List.all_eq_true, Bool.not_eq_true',
    List.contains_eq_mem, decide_eq_false_iff_not] at h
  exact ⟨h.1, h.2⟩

theorem pdfSpec_congr (ow : Bool) (rc : Nat → Int) (fs fs' : FS) : ∀ (as : List Item) (n : Nat),
    (∀ t ∈ as.filterMap texOf, Agree fs fs' t ∧ Agree fs fs' (pdfName t)) →
    pdfSpec ow rc fs n as = pdfSpec ow rc fs' n as
  | [], _, _ => rfl
  | a :: as, n, h => by
    have ha : pdfDecide ow fs a = pdfDecide ow fs' a :=
      pdfDecide_congr ow fs fs' a (fun t ht => h t (by simp [List.filterMap_cons, ht]))
    have hrest : ∀ t ∈ as.filterMap texOf, Agree fs fs' t ∧ Agree fs fs' (pdfName t) := by
      intro t ht
      apply h t
      simp only [List.filterMap_cons]
      split
      · exact ht
      · exact List.mem_cons_of_mem _ ht
    unfold pdfSpec
    rw [ha]
    split
    · rfl
    · rw [pdfSpec_congr ow rc fs fs' as n hrest]
    · rw [pdfSpec_congr ow rc fs fs' as (n + 1) hrest]

/-! ## the loop against the timing-free description -/

theorem pdfDecide_of_texOf_none (ow : Bool) (fs : FS) (v : Item) (h : texOf v = none) :
    ∃ e, pdfDecide ow fs v = .err e := by
  unfold pdfDecide
  unfold texOf at h
  revert h
  generalize v.data = data
  intro h
  cases data <;> simp only at h ⊢ <;> try contradiction
  all_goals (split <;> exact ⟨_, rfl⟩)

theorem pdfDecide_launch (ow : Bool) (fs : FS) (v : Item) (key tex : String) (ctx : Ctx)
    (h : pdfDecide ow fs v = .launch key tex ctx) : texOf v = some tex ∧ key = pdfName tex := by
  unfold pdfDecide at h
  unfold texOf pdfName
  revert h
  generalize v.data = data
  intro h
  cases data <;> simp only at h ⊢
  case str t =>
    repeat' split at h
    all_goals first
      | contradiction
      | (injection h with h1 h2 h3; subst h1 h2; exact ⟨rfl, rfl⟩)
  all_goals (split at h <;> contradiction)

theorem selTex_cons_unsel (v : Item) (vs : List Item) (h : pdfSel v = false) : selTex (v :: vs) = selTex vs := by
  simp [selTex, List.filter_cons, h]

theorem selTex_cons_sel (v : Item) (vs : List Item) (t : String) (h : pdfSel v = true) (ht : texOf v = some t) :
    selTex (v :: vs) = t :: selTex vs := by
  simp [selTex, List.filter_cons, h, List.filterMap_cons, ht]

theorem KeysOK.sublist {pk pk' : List String} {xs : List Item} (h : KeysOK pk xs) (hs : pk'.Sublist pk) :
    KeysOK pk' xs where
  nodup := h.nodup.sublist (List.Sublist.append hs (List.Sublist.refl _))
  texNotKey := by
    intro t ht hm
    apply h.texNotKey t ht
    rcases List.mem_append.1 hm with hm | hm
    · exact List.mem_append_left _ (hs.subset hm)
    · exact List.mem_append_right _ hm

theorem KeysOK.reads_not_pool {pk : List String} {xs : List Item} (h : KeysOK pk xs) (t : String)
    (ht : t ∈ selTex xs) : t ∉ pk ∧ pdfName t ∉ pk := by
  constructor
  · intro hm; exact h.texNotKey t ht (List.mem_append_left _ hm)
  · intro hm
    have hk : pdfName t ∈ selKeys xs := List.mem_map.2 ⟨t, ht, rfl⟩
    exact (List.nodup_append.1 h.nodup).2.2 _ hm _ hk rfl

theorem KeysOK.tail_unsel {pk : List String} {v : Item} {vs : List Item} (h : KeysOK pk (v :: vs))
    (hs : pdfSel v = false) : KeysOK pk vs := by
  have e : selTex (v :: vs) = selTex vs := selTex_cons_unsel v vs hs
  constructor
  · simpa [selKeys, e] using h.nodup
  · intro t ht; simpa [selKeys, e] using h.texNotKey t (by rw [e]; exact ht)

theorem KeysOK.tail_launch {pk : List String} {v : Item} {vs : List Item} {t : String} (h : KeysOK pk (v :: vs))
    (hs : pdfSel v = true) (ht : texOf v = some t) : KeysOK (pk ++ [pdfName t]) vs := by
  have e : selTex (v :: vs) = t :: selTex vs := selTex_cons_sel v vs t hs ht
  constructor
  · have := h.nodup
    simpa [selKeys, e] using this
  · intro t' ht'
    have := h.texNotKey t' (by rw [e]; exact List.mem_cons_of_mem _ ht')
    simpa [selKeys, e] using this

theorem KeysOK.tail_skip {pk : List String} {v : Item} {vs : List Item} {t : String} (h : KeysOK pk (v :: vs))
    (hs : pdfSel v = true) (ht : texOf v = some t) : KeysOK pk vs :=
  (h.tail_launch hs ht).sublist (List.sublist_append_left _ _)

open List in
/-- **the loop of `LaTeXToPDF.run` against the timing-free description**: from any state, for any schedule
and any interleaved unselected values -/
theorem pdf_loop_spec (ow : Bool) (sch : Sched) : ∀ (xs : List Item) (st : PdfSt),
    (loop (pdfStep ow sch) st xs).err = none →
    KeysOK (st.pool.map (·.key)) xs →
    (prodsOf (loop (pdfStep ow sch) st xs).blocks.flatten ++
        pending sch.rc (loop (pdfStep ow sch) st xs).st.pool).Perm
      (pending sch.rc st.pool ++ pdfSpec ow sch.rc st.fs st.launched (xs.filter pdfSel))
  | [], st, _, _ => by simp [loop, prodsOf_nil, pdfSpec]
  | v :: vs, st, he, hk => by
    obtain ⟨hpop, hsub, hagree⟩ := popReturned_spec sch st.iter st.pool st.fs
    generalize hr : popReturned sch st.iter st.fs st.pool = r at hpop hsub hagree
    obtain ⟨pool1, popped, fs1⟩ := r
    simp only at hpop hsub hagree
    have hsubk : (pool1.map (·.key)).Sublist (st.pool.map (·.key)) := hsub.map _
    -- the description of the rest of the flow does not see the files written by the pool
    have hcongr : ∀ (n : Nat), KeysOK (st.pool.map (·.key)) vs →
        pdfSpec ow sch.rc fs1 n (vs.filter pdfSel) = pdfSpec ow sch.rc st.fs n (vs.filter pdfSel) := by
      intro n hkv
      apply pdfSpec_congr
      intro t ht
      obtain ⟨h1, h2⟩ := hkv.reads_not_pool t ht
      exact ⟨hagree t h1, hagree (pdfName t) h2⟩
    cases hs : pdfSel v
    · -- an unselected value
      have hstep : pdfStep ow sch st v =
          ⟨popped ++ [.pass v], { st with fs := fs1, pool := pool1, iter := st.iter + 1 }, none⟩ := by
        simp [pdfStep, hr, hs]
      rw [loop_cons_ok _ _ _ _ _ _ hstep] at he ⊢
      simp only at he
      have hkv := hk.tail_unsel hs
      have ih := pdf_loop_spec ow sch vs _ he (hkv.sublist hsubk)
      simp only [List.flatten_cons, prodsOf_append, prodsOf_pass, List.append_nil, List.filter_cons, hs,
        Bool.false_eq_true, if_false]
      simp only at ih
      rw [hcongr _ hkv] at ih
      calc (prodsOf popped ++ prodsOf _) ++ pending sch.rc _
          = prodsOf popped ++ (prodsOf _ ++ pending sch.rc _) := by rw [List.append_assoc]
        _ ~ prodsOf popped ++ (pending sch.rc pool1 ++ pdfSpec ow sch.rc st.fs st.launched (vs.filter pdfSel)) :=
            List.Perm.append_left _ ih
        _ = (prodsOf popped ++ pending sch.rc pool1) ++ pdfSpec ow sch.rc st.fs st.launched (vs.filter pdfSel) := by
            rw [List.append_assoc]
        _ ~ pending sch.rc st.pool ++ pdfSpec ow sch.rc st.fs st.launched (vs.filter pdfSel) :=
            List.Perm.append_right _ hpop
    · -- a selected value
      cases ht : texOf v with
      | none =>
        obtain ⟨e, hd⟩ := pdfDecide_of_texOf_none ow fs1 v ht
        have hstep : pdfStep ow sch st v =
            ⟨popped, { st with fs := fs1, pool := pool1, iter := st.iter + 1 }, some e⟩ := by
          simp [pdfStep, hr, hs, hd]
        rw [loop_cons_err _ _ _ _ _ _ _ hstep] at he
        simp at he
      | some t =>
        have hreads := hk.reads_not_pool t (by rw [selTex_cons_sel v vs t hs ht]; simp)
        have hdec : pdfDecide ow fs1 v = pdfDecide ow st.fs v := by
          apply pdfDecide_congr
          intro t' ht'
          rw [ht] at ht'
          injection ht' with ht'
          subst ht'
          exact ⟨hagree _ hreads.1, hagree _ hreads.2⟩
        simp only [List.filter_cons, hs, if_true]
        rw [show pdfSpec ow sch.rc st.fs st.launched (v :: vs.filter pdfSel) =
          (match pdfDecide ow st.fs v with
            | .err _ => []
            | .skip y => y :: pdfSpec ow sch.rc st.fs st.launched (vs.filter pdfSel)
            | .launch key tex ctx =>
              (if sch.rc st.launched != 0 then [] else [procResult ⟨key, st.launched, tex, ctx, v.tok⟩]) ++
                pdfSpec ow sch.rc st.fs (st.launched + 1) (vs.filter pdfSel)) from rfl]
        rw [← hdec]
        cases hd : pdfDecide ow fs1 v with
        | err e =>
          have hstep : pdfStep ow sch st v =
              ⟨popped, { st with fs := fs1, pool := pool1, iter := st.iter + 1 }, some e⟩ := by
            simp [pdfStep, hr, hs, hd]
          rw [loop_cons_err _ _ _ _ _ _ _ hstep] at he
          simp at he
        | skip y =>
          have hstep : pdfStep ow sch st v =
              ⟨popped ++ [.prod y], { st with fs := fs1, pool := pool1, iter := st.iter + 1 }, none⟩ := by
            simp [pdfStep, hr, hs, hd]
          rw [loop_cons_ok _ _ _ _ _ _ hstep] at he ⊢
          simp only at he
          have hkv := hk.tail_skip hs ht
          have ih := pdf_loop_spec ow sch vs _ he (hkv.sublist hsubk)
          simp only at ih
          rw [hcongr _ hkv] at ih
          simp only [List.flatten_cons, prodsOf_append, prodsOf_prod]
          calc (prodsOf popped ++ [y] ++ prodsOf _) ++ pending sch.rc _
              = prodsOf popped ++ ([y] ++ (prodsOf _ ++ pending sch.rc _)) := by simp [List.append_assoc]
            _ ~ prodsOf popped ++ ([y] ++ (pending sch.rc pool1 ++
                  pdfSpec ow sch.rc st.fs st.launched (vs.filter pdfSel))) :=
                List.Perm.append_left _ (List.Perm.append_left _ ih)
            _ ~ prodsOf popped ++ (pending sch.rc pool1 ++ ([y] ++
                  pdfSpec ow sch.rc st.fs st.launched (vs.filter pdfSel))) :=
                List.Perm.append_left _ (List.perm_append_comm_assoc _ _ _)
            _ = (prodsOf popped ++ pending sch.rc pool1) ++ (y ::
                  pdfSpec ow sch.rc st.fs st.launched (vs.filter pdfSel)) := by simp [List.append_assoc]
            _ ~ pending sch.rc st.pool ++ (y :: pdfSpec ow sch.rc st.fs st.launched (vs.filter pdfSel)) :=
                List.Perm.append_right _ hpop
        | launch key tex ctx =>
          obtain ⟨htex, hkey⟩ := pdfDecide_launch ow fs1 v key tex ctx hd
          rw [ht] at htex
          injection htex with htex
          subst htex hkey
          have hnot : (pdfName t) ∉ pool1.map (·.key) := fun hm => hreads.2 (hsubk.subset hm)
          have hset : poolSet ⟨pdfName t, st.launched, t, ctx, v.tok⟩ pool1 =
              pool1 ++ [⟨pdfName t, st.launched, t, ctx, v.tok⟩] := poolSet_of_not_mem _ _ hnot
          have hstep : pdfStep ow sch st v =
              ⟨popped, { fs := fs1, pool := pool1 ++ [⟨pdfName t, st.launched, t, ctx, v.tok⟩],
                         launched := st.launched + 1, iter := st.iter + 1 }, none⟩ := by
            simp [pdfStep, hr, hs, hd, hset]
          rw [loop_cons_ok _ _ _ _ _ _ hstep] at he ⊢
          simp only at he
          have hkl := hk.tail_launch hs ht
          have hkv := hk.tail_skip hs ht
          have hsubk' : ((pool1 ++ [(⟨pdfName t, st.launched, t, ctx, v.tok⟩ : Proc)]).map (·.key)).Sublist
              (st.pool.map (·.key) ++ [pdfName t]) := by
            simpa using List.Sublist.append hsubk (List.Sublist.refl [pdfName t])
          have ih := pdf_loop_spec ow sch vs _ he (hkl.sublist hsubk')
          simp only at ih
          rw [hcongr _ hkv, pending_append] at ih
          simp only [List.flatten_cons, prodsOf_append]
          rw [show pending sch.rc [(⟨pdfName t, st.launched, t, ctx, v.tok⟩ : Proc)] =
            (if sch.rc st.launched != 0 then [] else [procResult ⟨pdfName t, st.launched, t, ctx, v.tok⟩]) by
              rw [pending_cons]; simp [pending]] at ih
          calc (prodsOf popped ++ prodsOf _) ++ pending sch.rc _
              = prodsOf popped ++ (prodsOf _ ++ pending sch.rc _) := by rw [List.append_assoc]
            _ ~ prodsOf popped ++ ((pending sch.rc pool1 ++ _) ++ _) := List.Perm.append_left _ ih
            _ = (prodsOf popped ++ pending sch.rc pool1) ++ (_ ++ _) := by simp [List.append_assoc]
            _ ~ pending sch.rc st.pool ++ (_ ++ _) := List.Perm.append_right _ hpop

end Lena.C10
