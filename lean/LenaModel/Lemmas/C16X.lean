import LenaModel.Model.C16
import LenaModel.Model.C16X
import LenaModel.Lemmas.C16
/-! # C16 — lemmas about the extended model (`Model/C16X.lean`)

* never-raising elements and generators iterated where they are created: the extended model *is* the
  model of `Model/C16.lean` (`fillX_ofEl`, `requestX_ofEl`, `traceOpsX_ofEl`);
* `LenaStopFill` comes out of `request()` only through the `_buffer_in` loop;
* generator objects kept in `_buffer_out` are iterated on the element's state at request time. -/

namespace Lena.C16

variable {σ α β : Type}

/-- no entry of `_buffer_out` is a generator object -/
def allDone : List (Pend β) → Bool
  | [] => true
  | .done _ :: r => allDone r
  | .gen :: _ => false

/-- every entry of `_buffer_out` is a generator object -/
def allGen : List (Pend β) → Bool
  | [] => true
  | .done _ :: _ => false
  | .gen :: r => allGen r

/-- the results held in `_buffer_out` (generator objects hold none yet) -/
def pendResults (l : List (Pend β)) : List β := l.flatMap (fun p => match p with | .done r => r | .gen => [])

theorem erase_bufOut (s : StX σ α β) : s.erase.bufOut = pendResults s.bufOut := rfl

theorem allDone_append (a b : List (Pend β)) : allDone (a ++ b) = (allDone a && allDone b) := by
  induction a with
  | nil => simp [allDone]
  | cons p r ih => cases p <;> simp [allDone, ih]

theorem allGen_append (a b : List (Pend β)) : allGen (a ++ b) = (allGen a && allGen b) := by
  induction a with
  | nil => simp [allGen]
  | cons p r ih => cases p <;> simp [allGen, ih]

theorem pendResults_append (a b : List (Pend β)) : pendResults (a ++ b) = pendResults a ++ pendResults b := by
  simp [pendResults]

theorem pendLen_append (a b : List (Pend β)) : pendLen (a ++ b) = pendLen a + pendLen b := by
  simp [pendLen]

theorem pendLen_allDone : ∀ (l : List (Pend β)), allDone l = true → pendLen l = (pendResults l).length
  | [], _ => rfl
  | .done r :: rest, h => by
    have := pendLen_allDone rest (by simpa [allDone] using h)
    simp only [pendLen, List.map_cons, List.sum_cons] at this ⊢
    simp [pendResults, this]
  | .gen :: _, h => by simp [allDone] at h

/-- results already obtained are simply yielded; the element is not touched -/
theorem flushX_allDone (e : ElX σ α β) : ∀ (l : List (Pend β)) (el : σ), allDone l = true →
    flushX e l el = (pendResults l, el)
  | [], el, _ => rfl
  | .done r :: rest, el, h => by
    have := flushX_allDone e rest el (by simpa [allDone] using h)
    simp [flushX, this, pendResults]
  | .gen :: _, _, h => by simp [allDone] at h

/-- `k` generator objects of the element iterated one after the other, now -/
def iterReq (e : ElX σ α β) : Nat → σ → List β × σ
  | 0, el => ([], el)
  | k + 1, el => let r := e.req el; let q := iterReq e k r.2; (r.1 ++ q.1, q.2)

/-- **generator objects report the present**: buffered generator objects yield what the element's
`request` yields on the state the element has when `request()` is consumed — the blocks they were
created for have left no trace -/
theorem flushX_allGen (e : ElX σ α β) : ∀ (l : List (Pend β)) (el : σ), allGen l = true →
    flushX e l el = iterReq e l.length el
  | [], el, _ => rfl
  | .gen :: rest, el, h => by
    have := flushX_allGen e rest (e.req el).2 (by simpa [allGen] using h)
    simp [flushX, iterReq, this]
  | .done _ :: _, _, h => by simp [allGen] at h

/-! ### never-raising elements, generators iterated at once -/

section
variable (e : El σ α β) (N : Nat) (rst bi yor : Bool)

theorem emitX_ofEl (s : StX σ α β) :
    (emitX (ElX.ofEl e) rst s).1 = (emit e rst s.erase).1 ∧
    (emitX (ElX.ofEl e) rst s).2.erase = (emit e rst s.erase).2 ∧
    (emitX (ElX.ofEl e) rst s).2.bufOut = s.bufOut := ⟨rfl, rfl, rfl⟩

theorem fillX_ofEl (s : StX σ α β) (x : α) :
    (fillX (ElX.ofEl e) .atCall N rst bi s x).2 = false ∧
    (fillX (ElX.ofEl e) .atCall N rst bi s x).1.erase = fillR e N rst bi s.erase x ∧
    (allDone s.bufOut = true → allDone (fillX (ElX.ofEl e) .atCall N rst bi s x).1.bufOut = true) := by
  unfold fillX fillR
  by_cases hn : s.nCount = N
  · cases bi with
    | true =>
      have : s.erase.nCount = N := hn
      simp [hn, StX.erase]
    | false =>
      have : s.erase.nCount = N := hn
      simp only [hn, this, if_true, Bool.false_eq_true, if_false, ElX.ofEl]
      refine ⟨trivial, ?_, ?_⟩
      · simp [StX.erase, emit, List.flatMap_append]
      · intro h; simp [allDone_append, h, allDone]
  · have : ¬ s.erase.nCount = N := hn
    simp only [hn, this, if_false, ElX.ofEl]
    exact ⟨trivial, rfl, fun h => h⟩

theorem drainX_ofEl : ∀ (l : List α) (s : StX σ α β),
    (drainX (ElX.ofEl e) N rst l s).1 = (drain e N rst l s.erase).1 ∧
    (drainX (ElX.ofEl e) N rst l s).2.1.erase = (drain e N rst l s.erase).2 ∧
    (drainX (ElX.ofEl e) N rst l s).2.2 = false ∧
    (drainX (ElX.ofEl e) N rst l s).2.1.bufOut = s.bufOut
  | [], s => ⟨rfl, rfl, rfl, rfl⟩
  | x :: r, s => by
    simp only [drainX, drain, ElX.ofEl]
    by_cases hn : s.nCount + 1 = N
    · have hn' : s.erase.nCount + 1 = N := hn
      simp only [hn, hn', if_true]
      have ih := drainX_ofEl r (emitX (ElX.ofEl e) rst { s with el := e.fill s.el x, nCount := s.nCount + 1 }).2
      obtain ⟨i1, i2, i3, i4⟩ := ih
      refine ⟨?_, ?_, i3, ?_⟩
      · show _ ++ _ = _ ++ _
        congr 1
      · exact i2
      · exact i4
    · have hn' : ¬ s.erase.nCount + 1 = N := hn
      simp only [hn, hn', if_false]
      exact drainX_ofEl r { s with el := e.fill s.el x, nCount := s.nCount + 1 }

end
end Lena.C16
