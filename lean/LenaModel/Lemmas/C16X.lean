import LenaModel.Model.C16
import LenaModel.Model.C16X
import LenaModel.Lemmas.C16
import LenaModel.Lemmas.C16Acc
/-! # C16 — lemmas about the extended model (`Model/C16X.lean`)

* never-raising elements and generators iterated where they are created: the extended model *is* the
  model of `Model/C16.lean` (`fillX_ofEl`, `requestX_ofEl`, `traceOpsX_ofEl`);
* `LenaStopFill` comes out of `request()` only through the `_buffer_in` loop;
* generator objects kept in `_buffer_out` are iterated on the element's state at request time. -/

namespace Lena.C16

variable {σ α β : Type}

/-- the results held in `_buffer_out` (generator objects hold none yet) -/
def pendResults (l : List (Pend β)) : List β := l.flatMap (fun p => match p with | .done r => r | .gen => [])

theorem erase_bufOut (s : StX σ α β) : s.erase.bufOut = pendResults s.bufOut := rfl

theorem allDone_append (a b : List (Pend β)) : allDone (a ++ b) = (allDone a && allDone b) := by
  induction a with
  | nil => simp [allDone]
  | cons p r ih => cases p <;> simp [allDone, ih]

theorem allGen_append (a b : List (Pend β)) : allGen (a ++ b) = (allGen a && allGen b) := by
  induction a with
  | nil => simp [allGen]
  | cons p r ih => cases p <;> simp [allGen, ih]

theorem pendResults_append (a b : List (Pend β)) : pendResults (a ++ b) = pendResults a ++ pendResults b := by
  simp [pendResults]

theorem pendLen_append (a b : List (Pend β)) : pendLen (a ++ b) = pendLen a + pendLen b := by
  simp [pendLen]

theorem pendLen_allDone : ∀ (l : List (Pend β)), allDone l = true → pendLen l = (pendResults l).length
  | [], _ => rfl
  | .done r :: rest, h => by
    have := pendLen_allDone rest (by simpa [allDone] using h)
    simp only [pendLen, List.map_cons, List.sum_cons] at this ⊢
    simp [pendResults, this]
  | .gen :: _, h => by simp [allDone] at h

/-- results already obtained are simply yielded; the element is not touched -/
theorem flushX_allDone (e : ElX σ α β) : ∀ (l : List (Pend β)) (el : σ), allDone l = true →
    flushX e l el = (pendResults l, el)
  | [], el, _ => rfl
  | .done r :: rest, el, h => by
    have := flushX_allDone e rest el (by simpa [allDone] using h)
    simp [flushX, this, pendResults]
  | .gen :: _, _, h => by simp [allDone] at h

/-- **generator objects report the present**: buffered generator objects yield what the element's
`request` yields on the state the element has when `request()` is consumed — the blocks they were
created for have left no trace -/
theorem flushX_allGen (e : ElX σ α β) : ∀ (l : List (Pend β)) (el : σ), allGen l = true →
    flushX e l el = iterReq e l.length el
  | [], el, _ => rfl
  | .gen :: rest, el, h => by
    have := flushX_allGen e rest (e.req el).2 (by simpa [allGen] using h)
    simp [flushX, iterReq, this]
  | .done _ :: _, _, h => by simp [allGen] at h

theorem outsX_append (a b : List (CallObs β)) : outsX (a ++ b) = outsX a ++ outsX b := by
  simp [outsX]

theorem traceOpsX_append (e : ElX σ α β) (ev : Eval) (N : Nat) (rst bi yor : Bool) :
    ∀ (a b : List (OpX α)) (s : StX σ α β),
    traceOpsX e ev N rst bi yor (a ++ b) s =
      ((traceOpsX e ev N rst bi yor a s).1 ++ (traceOpsX e ev N rst bi yor b (traceOpsX e ev N rst bi yor a s).2).1,
       (traceOpsX e ev N rst bi yor b (traceOpsX e ev N rst bi yor a s).2).2)
  | [], _, _ => rfl
  | .fill x :: r, b, s => by simp [traceOpsX, traceOpsX_append e ev N rst bi yor r b]
  | .request :: r, b, s => by simp [traceOpsX, traceOpsX_append e ev N rst bi yor r b]
  | .reset :: r, b, s => by simp [traceOpsX, traceOpsX_append e ev N rst bi yor r b]

/-- fills yield nothing -/
theorem outsX_fills (e : ElX σ α β) (ev : Eval) (N : Nat) (rst bi yor : Bool) : ∀ (l : List α) (s : StX σ α β),
    outsX (traceOpsX e ev N rst bi yor (l.map OpX.fill) s).1 = []
  | [], _ => rfl
  | x :: r, s => by
    simp only [List.map_cons, traceOpsX, outsX, List.flatMap_cons, Option.getD_none, List.nil_append]
    exact outsX_fills e ev N rst bi yor r _

/-! `request` of the extended model as its four consecutive steps -/

def xStep1 (e : ElX σ α β) (bi : Bool) (s : StX σ α β) : List β × StX σ α β :=
  (if bi then [] else (flushX e s.bufOut s.el).1,
   if bi then s else { s with el := (flushX e s.bufOut s.el).2, bufOut := [] })
def xStep2 (e : ElX σ α β) (N : Nat) (rst : Bool) (s : StX σ α β) : List β × StX σ α β :=
  if s.nCount = N then emitX e rst s else ([], s)
def xStep3 (e : ElX σ α β) (N : Nat) (rst bi : Bool) (s : StX σ α β) : List β × StX σ α β × Bool :=
  if bi then drainX e N rst s.bufIn { s with bufIn := [] } else ([], s, false)
def xStep4 (e : ElX σ α β) (rst yor : Bool) (s : StX σ α β) : List β × StX σ α β :=
  if yor && s.nCount != 0 then emitX e rst s else ([], s)

theorem requestX_steps (e : ElX σ α β) (N : Nat) (rst bi yor : Bool) (s : StX σ α β) :
    requestX e N rst bi yor s =
      if (xStep3 e N rst bi (xStep2 e N rst (xStep1 e bi s).2).2).2.2 then
        ((xStep1 e bi s).1 ++ (xStep2 e N rst (xStep1 e bi s).2).1 ++ (xStep3 e N rst bi (xStep2 e N rst (xStep1 e bi s).2).2).1,
         (xStep3 e N rst bi (xStep2 e N rst (xStep1 e bi s).2).2).2.1, true)
      else
        ((xStep1 e bi s).1 ++ (xStep2 e N rst (xStep1 e bi s).2).1 ++ (xStep3 e N rst bi (xStep2 e N rst (xStep1 e bi s).2).2).1 ++
            (xStep4 e rst yor (xStep3 e N rst bi (xStep2 e N rst (xStep1 e bi s).2).2).2.1).1,
         (xStep4 e rst yor (xStep3 e N rst bi (xStep2 e N rst (xStep1 e bi s).2).2).2.1).2, false) := by
  cases bi <;> rfl

/-! ### what `_buffer_out` holds -/

theorem drainX_bufOut (e : ElX σ α β) (N : Nat) (rst : Bool) : ∀ (l : List α) (s : StX σ α β),
    (drainX e N rst l s).2.1.bufOut = s.bufOut
  | [], _ => rfl
  | x :: r, s => by
    simp only [drainX]
    split
    · rfl
    · split
      · exact drainX_bufOut e N rst r _
      · exact drainX_bufOut e N rst r _

/-- after `request()` (also one that ended with `LenaStopFill`) `_buffer_out` is empty; with
`buffer_input` it is not used -/
theorem requestX_bufOut (e : ElX σ α β) (N : Nat) (rst bi yor : Bool) (s : StX σ α β) :
    (requestX e N rst bi yor s).2.1.bufOut = if bi then s.bufOut else [] := by
  rw [requestX_steps]
  have h1 : (xStep1 e bi s).2.bufOut = if bi then s.bufOut else [] := by cases bi <;> rfl
  have h2 : ∀ t : StX σ α β, (xStep2 e N rst t).2.bufOut = t.bufOut := by
    intro t; unfold xStep2; split <;> rfl
  have h3 : ∀ t : StX σ α β, (xStep3 e N rst bi t).2.1.bufOut = t.bufOut := by
    intro t; unfold xStep3; split
    · exact drainX_bufOut e N rst _ _
    · rfl
  have h4 : ∀ t : StX σ α β, (xStep4 e rst yor t).2.bufOut = t.bufOut := by
    intro t; unfold xStep4; split <;> rfl
  split
  · simp only [h3, h2, h1]
  · simp only [h4, h3, h2, h1]

theorem bufKind_nil (ev : Eval) : bufKind ev ([] : List (Pend β)) = true := by cases ev <;> rfl

theorem fillX_bufKind (e : ElX σ α β) (ev : Eval) (N : Nat) (rst bi : Bool) (s : StX σ α β) (x : α)
    (h : bufKind ev s.bufOut = true) : bufKind ev (fillX e ev N rst bi s x).1.bufOut = true := by
  unfold fillX
  by_cases hn : s.nCount = N
  · cases bi with
    | true => simpa [hn] using h
    | false =>
      simp only [hn, if_true, Bool.false_eq_true, if_false]
      cases ev with
      | atCall =>
        simp only [bufKind] at h ⊢
        split <;> simp [allDone_append, h, allDone]
      | atRequest =>
        simp only [bufKind] at h ⊢
        split <;> simp [allGen_append, h, allGen]
  · simp only [hn, if_false]
    split <;> exact h

theorem traceOpsX_bufKind (e : ElX σ α β) (ev : Eval) (N : Nat) (rst bi yor : Bool) :
    ∀ (ops : List (OpX α)) (s : StX σ α β), bufKind ev s.bufOut = true →
    bufKind ev (traceOpsX e ev N rst bi yor ops s).2.bufOut = true
  | [], _, h => h
  | .fill x :: r, s, h => traceOpsX_bufKind e ev N rst bi yor r _ (fillX_bufKind e ev N rst bi s x h)
  | .request :: r, s, h => by
    apply traceOpsX_bufKind e ev N rst bi yor r
    rw [requestX_bufOut]
    split
    · exact h
    · exact bufKind_nil ev
  | .reset :: r, s, h => traceOpsX_bufKind e ev N rst bi yor r _ h

/-! ### never-raising elements, generators iterated at once -/

section
variable (e : El σ α β) (N : Nat) (rst bi yor : Bool)

theorem emitX_ofEl (s : StX σ α β) :
    (emitX (ElX.ofEl e) rst s).1 = (emit e rst s.erase).1 ∧
    (emitX (ElX.ofEl e) rst s).2.erase = (emit e rst s.erase).2 ∧
    (emitX (ElX.ofEl e) rst s).2.bufOut = s.bufOut := ⟨rfl, rfl, rfl⟩

theorem fillX_ofEl (s : StX σ α β) (x : α) :
    (fillX (ElX.ofEl e) .atCall N rst bi s x).2 = false ∧
    (fillX (ElX.ofEl e) .atCall N rst bi s x).1.erase = fillR e N rst bi s.erase x ∧
    (allDone s.bufOut = true → allDone (fillX (ElX.ofEl e) .atCall N rst bi s x).1.bufOut = true) := by
  unfold fillX fillR
  by_cases hn : s.nCount = N
  · cases bi with
    | true =>
      have : s.erase.nCount = N := hn
      simp [hn, StX.erase]
    | false =>
      have : s.erase.nCount = N := hn
      simp only [hn, this, if_true, Bool.false_eq_true, if_false, ElX.ofEl]
      refine ⟨trivial, ?_, ?_⟩
      · simp [StX.erase, emit, List.flatMap_append]
      · intro h; simp [allDone_append, h, allDone]
  · have : ¬ s.erase.nCount = N := hn
    simp only [hn, this, if_false, ElX.ofEl]
    exact ⟨trivial, rfl, fun h => h⟩

theorem drainX_ofEl : ∀ (l : List α) (s : StX σ α β),
    (drainX (ElX.ofEl e) N rst l s).1 = (drain e N rst l s.erase).1 ∧
    (drainX (ElX.ofEl e) N rst l s).2.1.erase = (drain e N rst l s.erase).2 ∧
    (drainX (ElX.ofEl e) N rst l s).2.2 = false ∧
    (drainX (ElX.ofEl e) N rst l s).2.1.bufOut = s.bufOut
  | [], s => ⟨rfl, rfl, rfl, rfl⟩
  | x :: r, s => by
    simp only [drainX, drain, ElX.ofEl]
    by_cases hn : s.nCount + 1 = N
    · have hn' : s.erase.nCount + 1 = N := hn
      simp only [hn, hn', if_true]
      have ih := drainX_ofEl r (emitX (ElX.ofEl e) rst { s with el := e.fill s.el x, nCount := s.nCount + 1 }).2
      obtain ⟨i1, i2, i3, i4⟩ := ih
      refine ⟨?_, ?_, i3, ?_⟩
      · show _ ++ _ = _ ++ _
        congr 1
      · exact i2
      · exact i4
    · have hn' : ¬ s.erase.nCount + 1 = N := hn
      simp only [hn, hn', if_false]
      exact drainX_ofEl r { s with el := e.fill s.el x, nCount := s.nCount + 1 }


end

section
variable (e : El σ α β) (N : Nat) (rst bi yor : Bool)

theorem xStep1_ofEl (s : StX σ α β) (hd : allDone s.bufOut = true) :
    (xStep1 (ElX.ofEl e) bi s).1 = (reqStep1 bi s.erase).1 ∧
    (xStep1 (ElX.ofEl e) bi s).2.erase = (reqStep1 bi s.erase).2 ∧
    allDone (xStep1 (ElX.ofEl e) bi s).2.bufOut = true := by
  cases bi with
  | true => exact ⟨rfl, rfl, hd⟩
  | false =>
    have hf := flushX_allDone (ElX.ofEl e) s.bufOut s.el hd
    simp only [xStep1, reqStep1, Bool.false_eq_true, if_false, hf]
    exact ⟨rfl, rfl, rfl⟩

theorem xStep2_ofEl (t : StX σ α β) :
    (xStep2 (ElX.ofEl e) N rst t).1 = (reqStep2 e N rst t.erase).1 ∧
    (xStep2 (ElX.ofEl e) N rst t).2.erase = (reqStep2 e N rst t.erase).2 ∧
    (xStep2 (ElX.ofEl e) N rst t).2.bufOut = t.bufOut := by
  unfold xStep2 reqStep2
  have hcnt : t.erase.nCount = t.nCount := rfl
  by_cases hn : t.nCount = N
  · rw [if_pos hn, if_pos (hcnt.trans hn)]; exact ⟨rfl, rfl, rfl⟩
  · rw [if_neg hn, if_neg (by rw [hcnt]; exact hn)]; exact ⟨rfl, rfl, rfl⟩

theorem xStep3_ofEl (t : StX σ α β) :
    (xStep3 (ElX.ofEl e) N rst bi t).1 = (reqStep3 e N rst bi t.erase).1 ∧
    (xStep3 (ElX.ofEl e) N rst bi t).2.1.erase = (reqStep3 e N rst bi t.erase).2 ∧
    (xStep3 (ElX.ofEl e) N rst bi t).2.2 = false ∧
    (xStep3 (ElX.ofEl e) N rst bi t).2.1.bufOut = t.bufOut := by
  cases bi with
  | false => exact ⟨rfl, rfl, rfl, rfl⟩
  | true =>
    simp only [xStep3, reqStep3, if_true]
    exact drainX_ofEl e N rst t.bufIn { t with bufIn := [] }

theorem xStep4_ofEl (t : StX σ α β) :
    (xStep4 (ElX.ofEl e) rst yor t).1 = (reqStep4 e rst yor t.erase).1 ∧
    (xStep4 (ElX.ofEl e) rst yor t).2.erase = (reqStep4 e rst yor t.erase).2 ∧
    (xStep4 (ElX.ofEl e) rst yor t).2.bufOut = t.bufOut := by
  unfold xStep4 reqStep4
  have hcnt : t.erase.nCount = t.nCount := rfl
  rw [hcnt]
  by_cases hc : (yor && t.nCount != 0) = true
  · rw [if_pos hc, if_pos hc]; exact ⟨rfl, rfl, rfl⟩
  · rw [if_neg hc, if_neg hc]; exact ⟨rfl, rfl, rfl⟩

/-- for a never-raising element whose generators are iterated where they are created, `request` of the
extended model is `request` of `Model/C16.lean` -/
theorem requestX_ofEl (s : StX σ α β) (hd : allDone s.bufOut = true) :
    (requestX (ElX.ofEl e) N rst bi yor s).1 = (requestR e N rst bi yor s.erase).1 ∧
    (requestX (ElX.ofEl e) N rst bi yor s).2.1.erase = (requestR e N rst bi yor s.erase).2 ∧
    (requestX (ElX.ofEl e) N rst bi yor s).2.2 = false ∧
    allDone (requestX (ElX.ofEl e) N rst bi yor s).2.1.bufOut = true := by
  rw [requestX_steps, requestR_steps]
  obtain ⟨a1, a2, a3⟩ := xStep1_ofEl e bi s hd
  obtain ⟨b1, b2, b3⟩ := xStep2_ofEl e N rst (xStep1 (ElX.ofEl e) bi s).2
  obtain ⟨c1, c2, c3, c4⟩ := xStep3_ofEl e N rst bi (xStep2 (ElX.ofEl e) N rst (xStep1 (ElX.ofEl e) bi s).2).2
  obtain ⟨d1, d2, d3⟩ := xStep4_ofEl e rst yor
    (xStep3 (ElX.ofEl e) N rst bi (xStep2 (ElX.ofEl e) N rst (xStep1 (ElX.ofEl e) bi s).2).2).2.1
  rw [a2] at b1 b2
  rw [b2] at c1 c2
  rw [c2] at d1 d2
  rw [c3]
  simp only [Bool.false_eq_true, if_false]
  refine ⟨by rw [a1, b1, c1, d1], d2, trivial, ?_⟩
  rw [d3, c4, b3]; exact a3


/-- a history of `Model/C16.lean` as a history of the extended model -/
def Op.toX : Op α → OpX α
  | .fill x => .fill x
  | .request => .request

/-- **conservative extension**: on never-raising elements, with generators iterated where they are
created and without `reset()` calls, the extended model shows exactly what `traceOps`/`runOps` show, and
never `LenaStopFill` -/
theorem traceOpsX_ofEl : ∀ (ops : List (Op α)) (s : StX σ α β), allDone s.bufOut = true →
    (traceOpsX (ElX.ofEl e) .atCall N rst bi yor (ops.map Op.toX) s).1.map
        (fun c => (c.out, c.nCount, c.lenIn, c.lenOut)) = traceOps e N rst bi yor ops s.erase ∧
    (∀ c ∈ (traceOpsX (ElX.ofEl e) .atCall N rst bi yor (ops.map Op.toX) s).1, c.raised = false) ∧
    (traceOpsX (ElX.ofEl e) .atCall N rst bi yor (ops.map Op.toX) s).2.erase = (runOps e N rst bi yor ops s.erase).2 ∧
    outsX (traceOpsX (ElX.ofEl e) .atCall N rst bi yor (ops.map Op.toX) s).1 = (runOps e N rst bi yor ops s.erase).1.flatten
  | [], s, _ => ⟨rfl, by simp [traceOpsX], rfl, rfl⟩
  | .fill x :: r, s, hd => by
    obtain ⟨f1, f2, f3⟩ := fillX_ofEl e N rst bi s x
    have hd' := f3 hd
    obtain ⟨i1, i2, i3, i4⟩ := traceOpsX_ofEl r (fillX (ElX.ofEl e) .atCall N rst bi s x).1 hd'
    rw [f2] at i1 i3 i4
    simp only [List.map_cons, Op.toX, traceOpsX, traceOps, runOps]
    refine ⟨?_, ?_, i3, ?_⟩
    · rw [i1]
      congr 1
      have hl := pendLen_allDone _ hd'
      rw [← erase_bufOut, f2] at hl
      rw [hl]
      have : (fillX (ElX.ofEl e) Eval.atCall N rst bi s x).1.nCount = (fillR e N rst bi s.erase x).nCount := by
        rw [← f2]; rfl
      have hb : (fillX (ElX.ofEl e) Eval.atCall N rst bi s x).1.bufIn = (fillR e N rst bi s.erase x).bufIn := by
        rw [← f2]; rfl
      rw [this, hb]
    · intro c hc
      rcases List.mem_cons.mp hc with rfl | hc
      · exact f1
      · exact i2 c hc
    · simpa [outsX] using i4
  | .request :: r, s, hd => by
    obtain ⟨q1, q2, q3, q4⟩ := requestX_ofEl e N rst bi yor s hd
    obtain ⟨i1, i2, i3, i4⟩ := traceOpsX_ofEl r (requestX (ElX.ofEl e) N rst bi yor s).2.1 q4
    rw [q2] at i1 i3 i4
    simp only [List.map_cons, Op.toX, traceOpsX, traceOps, runOps]
    refine ⟨?_, ?_, i3, ?_⟩
    · rw [i1]
      congr 1
      have hl := pendLen_allDone _ q4
      rw [← erase_bufOut, q2] at hl
      rw [hl, q1]
      have : (requestX (ElX.ofEl e) N rst bi yor s).2.1.nCount = (requestR e N rst bi yor s.erase).2.nCount := by
        rw [← q2]; rfl
      have hb : (requestX (ElX.ofEl e) N rst bi yor s).2.1.bufIn = (requestR e N rst bi yor s.erase).2.bufIn := by
        rw [← q2]; rfl
      rw [this, hb]
    · intro c hc
      rcases List.mem_cons.mp hc with rfl | hc
      · exact q3
      · exact i2 c hc
    · simp only [outsX, List.flatMap_cons, Option.getD_some, List.flatten_cons] at i4 ⊢
      rw [q1]
      congr 1

end
end Lena.C16
