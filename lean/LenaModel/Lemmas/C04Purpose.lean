import LenaModel.Lemmas.C04Local
/-! # C04 — the purpose clause of the second sentence: downstream in-place updates of what an accumulator
yielded change neither what was filled nor any later result -/

namespace Lena.C04

open Lena.C03 (Kind)
open Lena.Flow (Value)

variable {σ S C : Type}

/-- the two runs — with and without the downstream updates — stay in step: same private state, heaps equal
outside the yielded objects `Y` -/
theorem downstream_sim (ops : Ops σ S C) (ns : Nat) (ctr : σ → Nat)
    (hL : LocalF ops ns ctr) (hF : FreshYield ops ns ctr) (hT : Tidy ops ns ctr) :
    ∀ (h : List (HOp σ S C)) (st₁ st₂ : Store C) (s : σ) (Y : List Tok),
      Downstream ops ns ctr st₁ s Y h →
      (∀ t, t ∉ Y → st₁ t = st₂ t) →
      RefsBelow ops ns ctr s → (∀ t ∈ Y, t.1 = ns ∧ t.2 < ctr s) → (∀ t ∈ Y, t ∉ ops.refs s) →
      runHistS ops st₁ s h = runHistS ops st₂ s (stripExt h) := by
  intro h
  induction h with
  | nil => intro st₁ st₂ s Y _ _ _ _ _; rfl
  | cons op h ih =>
    intro st₁ st₂ s Y hd hag hrb hY hYr
    cases op with
    | ext f =>
      obtain ⟨d1, d2⟩ := hd
      simp only [stripExt, runHistS]
      exact ih (f st₁) st₂ s Y d2 (fun t ht => by rw [d1 st₁ t ht]; exact hag t ht) hrb hY hYr
    | upd g =>
      obtain ⟨⟨d1, d1'⟩, d2⟩ := hd
      simp only [stripExt, runHistS]
      refine ih st₁ st₂ (g s) Y d2 hag ?_ (fun t ht => by rw [d1]; exact hY t ht) (fun t ht hr => hYr t ht (d1' t hr))
      intro t ht hns
      rw [d1]
      exact hrb t (d1' t ht) hns
    | req r =>
      obtain ⟨hacc, d1, d2⟩ := hd
      simp only [stripExt, runHistS]
      -- the footprint of the invocation avoids the yielded objects
      have hfoot : ∀ t, footF ns (ctr s) (ops.refs s) r.cells t → t ∉ Y := by
        intro t ht hy
        rcases ht with ht | ht | ht
        · exact hYr t hy ht
        · exact (d1 t ht).2 hy
        · have := (hY t hy).2; omega
      obtain ⟨e1, e2⟩ := hL.det st₁ st₂ s r (fun t ht => hag t (hfoot t ht))
      -- the heaps agree afterwards outside the old yielded objects
      have hag' : ∀ t, t ∉ Y → (ops.act st₁ s r).1 t = (ops.act st₂ s r).1 t := by
        intro t ht
        by_cases hf : footF ns (ctr s) (ops.refs s) r.cells t
        · exact e2 t hf
        · rw [hL.frame st₁ s r t hf, hL.frame st₂ s r t hf]; exact hag t ht
      have houts : ∀ t ∈ cellsOf (ops.act st₁ s r).2.2.outs, (ops.act st₁ s r).1 t = (ops.act st₂ s r).1 t :=
        fun t ht => e2 t (hL.refs_sub st₁ s r t (Or.inr ht))
      have hsnap : (cellsOf (ops.act st₁ s r).2.2.outs).map (ops.act st₁ s r).1 =
          (cellsOf (ops.act st₂ s r).2.2.outs).map (ops.act st₂ s r).1 := by
        rw [← e1]
        exact List.map_congr_left houts
      have hcells : ∀ t ∈ r.cells, t.1 = ns → t.2 < ctr s := fun t ht => (d1 t ht).1
      have hrb' := hT.below st₁ s r hacc hrb hcells
      have hmono := hF.mono st₁ s r
      rw [hsnap, ← e1]
      congr 1
      refine ih (ops.act st₁ s r).1 (ops.act st₂ s r).1 (ops.act st₁ s r).2.1 (Y ++ cellsOf (ops.act st₁ s r).2.2.outs)
        d2 ?_ hrb' ?_ ?_
      · intro t ht
        exact hag' t (fun hy => ht (List.mem_append_left _ hy))
      · intro t ht
        rcases List.mem_append.mp ht with ht | ht
        · exact ⟨(hY t ht).1, Nat.lt_of_lt_of_le (hY t ht).2 hmono⟩
        · obtain ⟨g1, _, g3⟩ := hF.fresh st₁ s r hacc t ht
          exact ⟨g1, g3⟩
      · intro t ht hr
        rcases List.mem_append.mp ht with ht | ht
        · exact hfoot t (hL.refs_sub st₁ s r t (Or.inl hr)) ht
        · exact hT.nokeep st₁ s r hacc hrb hcells t ht hr

/-! ## the modelled accumulators keep their books (`Tidy`) -/

theorem curTok_tok (ns : Nat) (w : PW) (s : AccSt) :
    (((curTok ns s).run w).2 ∈ s.refs ∧ ((curTok ns s).run w).1.ctr = w.ctr) ∨
    (((curTok ns s).run w).2 = (ns, w.ctr) ∧ ((curTok ns s).run w).1.ctr = w.ctr + 1) := by
  unfold curTok
  cases h : s.cur with
  | some c => left; simp [AccSt.refs, h]
  | none => right; simp

theorem getCtx_tok (ns : Nat) (w : PW) (x : HItem) :
    (((getCtx ns x).run w).2 ∈ x.cells ∧ ((getCtx ns x).run w).1.ctr = w.ctr) ∨
    (((getCtx ns x).run w).2 = (ns, w.ctr) ∧ ((getCtx ns x).run w).1.ctr = w.ctr + 1) := by
  unfold getCtx
  cases h : x.ctxTok with
  | some c => left; simp; exact ctxTok_mem h
  | none => right; simp

theorem yieldCounts_ctr (ns : Nat) (c : Tok) (count : Nat) (names : List String) (w : PW) :
    ((yieldCounts ns c count names).run w).1.ctr = w.ctr + names.length := (yieldCounts_spec ns c count names w).1

theorem yieldCopies_ctr_vec (ns : Nat) (c : Tok) (d : Value) (k : Nat) (w : PW) :
    ((yieldCopies ns c (maybeWithContext d) k).run w).1.ctr = w.ctr + k :=
  (yieldCopies_spec ns c _ (fun t w => maybeWithContext_run _ t w) k w).1

theorem yieldCopies_ctr_hist (ns : Nat) (c : Tok) (d : Value) (k : Nat) (w : PW) :
    ((yieldCopies ns c (fun t => (pure (mkItem d (some t)) : M HItem)) k).run w).1.ctr = w.ctr + k :=
  (yieldCopies_spec ns c _ (fun t w => by simp [mkItem]) k w).1

/-- the state after `compute()` is the old one, possibly with `_cur_context` made explicit -/
theorem accCompute_state (ns : Nat) (k : AccKind) (hk : k.fresh = true) (w : PW) (s : AccSt) :
    ((accCompute ns k s).run w).2.1 = s ∨
    (((accCompute ns k s).run w).2.1 = { s with cur := some ((curTok ns s).run w).2 } ∧
      ((curTok ns s).run w).1.ctr ≤ ((accCompute ns k s).run w).1.ctr) := by
  cases k <;> simp [AccKind.fresh] at hk <;>
    simp only [accCompute, M.bind_run, M.pure_run, M.ite_run, maybeWithContext, readM_run] <;>
    (repeat' split) <;> simp [yieldCounts_ctr, yieldCopies_ctr_vec, yieldCopies_ctr_hist] <;> (try (right; omega)) <;>
    (try omega)

/-- everything `compute()` yields was allocated after `_cur_context` was looked at -/
theorem accCompute_sharp (ns : Nat) (k : AccKind) (hk : k.fresh = true) (w : PW) (s : AccSt) :
    ∀ t ∈ cellsOf ((accCompute ns k s).run w).2.2.outs, ((curTok ns s).run w).1.ctr ≤ t.2 := by
  cases k with
  | store => simp [AccKind.fresh] at hk
  | keepLast => simp [AccKind.fresh] at hk
  | reqStore => simp [AccKind.fresh] at hk
  | storeGroup => simp [AccKind.fresh] at hk
  | groupBy key => simp [AccKind.fresh] at hk
  | graph =>
    simp only [accCompute, M.bind_run, M.pure_run, copyM_run, updM_run, M.ite_run]
    simp [mkItem, cellsOf]
  | vecMulti k =>
    simp only [accCompute, M.ite_run]
    split
    · simp [cellsOf]
    · simp only [M.bind_run, M.pure_run]
      generalize (curTok ns s).run w = r0
      obtain ⟨_, y2, _⟩ := yieldCopies_spec ns r0.2 (maybeWithContext (.str "vec"))
        (fun d w => maybeWithContext_run _ d w) k r0.1
      exact fun t ht => (y2 t ht).2.1
  | sibMulti var lo hi k =>
    simp only [accCompute, M.bind_run, M.pure_run]
    generalize (curTok ns s).run w = r0
    have u1 := updM_fst_ctr r0.2 (setVariable var) r0.1
    generalize ((updM r0.2 (setVariable var)).run r0.1).1 = w1 at u1
    obtain ⟨_, y2, _⟩ := yieldCopies_spec ns r0.2 (fun d => pure (mkItem (.str "hist") (some d)))
      (fun d w => by simp [mkItem]) k w1
    intro t ht
    have := (y2 t ht).2.1
    omega
  | meanCounts names =>
    simp only [accCompute, M.ite_run]
    split
    · simp [cellsOf]
    · simp only [M.bind_run, M.pure_run]
      generalize (curTok ns s).run w = r0
      obtain ⟨c1, c2⟩ := copyM_fst_ctr ns r0.2 r0.1
      rw [c2]
      generalize ((copyM ns r0.2).run r0.1).1 = w1 at c1
      obtain ⟨m1, m2⟩ := maybeWithContext_run (.quot s.total s.count) (ns, r0.1.ctr) w1
      rw [m1]
      obtain ⟨_, y2, _⟩ := yieldCounts_spec ns r0.2 s.count names w1
      intro t ht
      rw [cellsOf_cons] at ht
      rcases List.mem_append.mp ht with ht | ht
      · rcases m2 with m2 | m2
        · rw [m2] at ht; simp at ht
        · rw [m2] at ht; simp at ht; subst ht; exact Nat.le_refl _
      · have := (y2 t ht).2.1
        omega
  | vecList =>
    simp only [accCompute, maybeWithContext, M.ite_run]
    split
    · simp [cellsOf]
    · simp only [M.bind_run, M.pure_run, copyM_run, readM_run]
      split <;> simp [mkItem, cellsOf]
  | sum =>
    simp only [accCompute, M.bind_run, readM_run]
    split <;> simp [mkItem, cellsOf]
  | dsum =>
    simp only [accCompute, M.bind_run, readM_run]
    split <;> simp [mkItem, cellsOf]
  | reqSum => simp [accCompute, mkItem, cellsOf]
  | count name => simp [accCompute, mkItem, cellsOf]
  | histogram => simp [accCompute, mkItem, cellsOf]
  | numpyHist => simp [accCompute, mkItem, cellsOf]
  | sib var lo hi => simp [accCompute, mkItem, cellsOf]
  | vectorize dim =>
    simp only [accCompute, maybeWithContext, M.bind_run, M.pure_run, copyM_run, readM_run]
    split <;> simp [mkItem, cellsOf]
  | vmc corrected poe =>
    simp only [accCompute, maybeWithContext, M.ite_run]
    split
    · split <;> simp [cellsOf]
    · split
      · simp [cellsOf]
      · simp only [M.bind_run, M.pure_run, copyM_run, readM_run]
        split <;> simp [mkItem, cellsOf]
  | mean sumSeq poe =>
    simp only [accCompute, maybeWithContext, M.ite_run]
    split
    · split <;> simp [cellsOf]
    · rcases sumSeq with _ | _ | _ | name
      · simp only [M.bind_run, M.pure_run, copyM_run, readM_run]
        split <;> simp [mkItem, cellsOf]
      · simp only [M.bind_run, M.pure_run, copyM_run, readM_run]
        split <;> simp [mkItem, cellsOf]
      · simp only [M.bind_run, M.pure_run, copyM_run, readM_run]
        split <;> simp [mkItem, cellsOf]
      · simp only [M.bind_run, M.pure_run, copyM_run, readM_run, updM_run]
        split <;> simp [mkItem, cellsOf]


/-- the state after `fill(value)`: the stored values are untouched; `_cur_context` is the old one, the context
object of the value, or (SplitIntoBins) a new copy of it -/
theorem accFill_state (ns : Nat) (k : AccKind) (hk : k.fresh = true) (w : PW) (s : AccSt) (x : HItem) :
    ((accFill ns k s x).run w).2.group = s.group ∧ ((accFill ns k s x).run w).2.groups = s.groups ∧
    (((accFill ns k s x).run w).2.cur = s.cur ∨
     ((accFill ns k s x).run w).2.cur = some ((getCtx ns x).run w).2 ∨
     (((accFill ns k s x).run w).2.cur = some (ns, ((getCtx ns x).run w).1.ctr) ∧
       ((accFill ns k s x).run w).1.ctr = ((getCtx ns x).run w).1.ctr + 1)) ∧
    ((getCtx ns x).run w).1.ctr ≤ ((accFill ns k s x).run w).1.ctr := by
  cases k <;> simp [AccKind.fresh] at hk <;>
    simp only [accFill, M.bind_run, M.pure_run, M.ite_run, copyM_run] <;>
    (repeat' split) <;> simp

/-- after `compute()` the state refers to what it referred to before, or to an allocated object -/
theorem accCompute_refs (ns : Nat) (k : AccKind) (hk : k.fresh = true) (w : PW) (s : AccSt) :
    ∀ t ∈ ((accCompute ns k s).run w).2.1.refs, t ∈ s.refs ∨ (t.1 = ns ∧ t.2 < ((accCompute ns k s).run w).1.ctr) := by
  intro t ht
  rcases accCompute_state ns k hk w s with e | ⟨e, hge⟩
  · rw [e] at ht; exact Or.inl ht
  · rw [e] at ht
    simp only [AccSt.refs, List.mem_append, Option.mem_toList, Option.some.injEq] at ht
    rcases ht with (ht | ht) | ht
    · subst ht
      rcases curTok_tok ns w s with ⟨h1, _⟩ | ⟨h1, h2⟩
      · exact Or.inl h1
      · rw [h1]; exact Or.inr ⟨rfl, by simp only; omega⟩
    · exact Or.inl (by simp only [AccSt.refs, List.mem_append]; exact Or.inl (Or.inr ht))
    · exact Or.inl (by simp only [AccSt.refs, List.mem_append]; exact Or.inr ht)

/-- **`compute()` keeps no reference to what it yields** -/
theorem accCompute_nokeep (ns : Nat) (k : AccKind) (hk : k.fresh = true) (w : PW) (s : AccSt)
    (hrb : ∀ t ∈ s.refs, t.1 = ns → t.2 < w.ctr) :
    ∀ t ∈ cellsOf ((accCompute ns k s).run w).2.2.outs, t ∉ ((accCompute ns k s).run w).2.1.refs := by
  intro t ht hr
  have hfr := (accCompute_fresh ns k hk w s).2.1 t ht
  have hsh := accCompute_sharp ns k hk w s t ht
  have hcur := (curTok_spec ns w s).1
  have hold : t ∉ s.refs := fun h => by have := hrb t h hfr.1; omega
  rcases accCompute_state ns k hk w s with e | ⟨e, _⟩
  · rw [e] at hr; exact hold hr
  · rw [e] at hr
    simp only [AccSt.refs, List.mem_append, Option.mem_toList, Option.some.injEq] at hr
    rcases hr with (hr | hr) | hr
    · subst hr
      rcases curTok_tok ns w s with ⟨h1, _⟩ | ⟨h1, h2⟩
      · exact hold h1
      · rw [h1] at hsh; simp only at hsh; omega
    · exact hold (by simp only [AccSt.refs, List.mem_append]; exact Or.inl (Or.inr hr))
    · exact hold (by simp only [AccSt.refs, List.mem_append]; exact Or.inr hr)

/-- **the modelled framework accumulators keep their books**: they refer only to allocated objects, and keep no
reference to a context they yield -/
theorem accOps_tidy (ns : Nat) (k : AccKind) (hk : k.fresh = true) :
    Tidy (accOps ns k) ns (fun s : HSt => s.ctr) := by
  have hfill : ∀ st (s : HSt) (x : HItem),
      ((accOps ns k).act st s (.fill x)).2.1.acc = ((accFill ns k s.acc x).run ⟨st, s.ctr⟩).2 ∧
      ((accOps ns k).act st s (.fill x)).2.1.ctr = ((accFill ns k s.acc x).run ⟨st, s.ctr⟩).1.ctr ∧
      ((accOps ns k).act st s (.fill x)).2.2.outs = [] := by
    intro st s x
    simp [accOps, hOps, hAct, hActM, applySteps]
  have hcomp : ∀ st (s : HSt) (r : Req Skel), (r = .compute ∨ r = .request) →
      ((accOps ns k).act st s r).2.1.acc = ((accCompute ns k s.acc).run ⟨st, s.ctr⟩).2.1 ∧
      ((accOps ns k).act st s r).2.1.ctr = ((accCompute ns k s.acc).run ⟨st, s.ctr⟩).1.ctr ∧
      ((accOps ns k).act st s r).2.2.outs = ((accCompute ns k s.acc).run ⟨st, s.ctr⟩).2.2.outs := by
    intro st s r hr
    rcases hr with rfl | rfl <;> simp [accOps, hOps, hAct, hActM]
  -- the references after `fill`
  have fillrefs : ∀ st (s : HSt) (x : HItem), ∀ t ∈ ((accOps ns k).act st s (.fill x)).2.1.acc.refs,
      t ∈ s.acc.refs ∨ t ∈ x.cells ∨ (t.1 = ns ∧ t.2 < ((accOps ns k).act st s (.fill x)).2.1.ctr) := by
    intro st s x t ht
    obtain ⟨f1, f2, _⟩ := hfill st s x
    obtain ⟨g1, g2, g3, g4⟩ := accFill_state ns k hk ⟨st, s.ctr⟩ s.acc x
    rw [f1] at ht
    rw [f2]
    simp only [AccSt.refs, List.mem_append, Option.mem_toList] at ht ⊢
    rcases ht with (ht | ht) | ht
    · rcases g3 with g3 | g3 | ⟨g3, g5⟩
      · rw [g3] at ht; exact Or.inl (Or.inl (Or.inl ht))
      · rw [g3] at ht
        simp only [Option.some.injEq] at ht
        subst ht
        rcases getCtx_tok ns ⟨st, s.ctr⟩ x with ⟨h1, _⟩ | ⟨h1, h2⟩
        · exact Or.inr (Or.inl h1)
        · rw [h1]; exact Or.inr (Or.inr ⟨rfl, by simp only at h2 ⊢; omega⟩)
      · rw [g3] at ht
        simp only [Option.some.injEq] at ht
        subst ht
        exact Or.inr (Or.inr ⟨rfl, by simp only; omega⟩)
    · rw [g1] at ht; exact Or.inl (Or.inl (Or.inr ht))
    · rw [g2] at ht; exact Or.inl (Or.inr ht)
  have compfacts : ∀ st (s : HSt) (r : Req Skel), (r = .compute ∨ r = .request) →
      (∀ t ∈ ((accOps ns k).act st s r).2.1.acc.refs,
        t ∈ s.acc.refs ∨ (t.1 = ns ∧ t.2 < ((accOps ns k).act st s r).2.1.ctr)) ∧
      ((∀ t ∈ s.acc.refs, t.1 = ns → t.2 < s.ctr) →
        ∀ t ∈ cellsOf ((accOps ns k).act st s r).2.2.outs, t ∉ ((accOps ns k).act st s r).2.1.acc.refs) := by
    intro st s r hr
    obtain ⟨c1, c2, c3⟩ := hcomp st s r hr
    rw [c1, c2, c3]
    exact ⟨accCompute_refs ns k hk ⟨st, s.ctr⟩ s.acc, accCompute_nokeep ns k hk ⟨st, s.ctr⟩ s.acc⟩
  refine ⟨?_, ?_⟩
  · -- below
    intro st s r hacc hrb hcells t ht hns
    have hmono := (accOps_freshYield' ns k hk).mono st s r
    cases r with
    | fill x =>
      rcases fillrefs st s x t ht with h | h | h
      · exact Nat.lt_of_lt_of_le (hrb t h hns) hmono
      · exact Nat.lt_of_lt_of_le (hcells t h hns) hmono
      · exact h.2
    | compute =>
      rcases (compfacts st s .compute (Or.inl rfl)).1 t ht with h | h
      · exact Nat.lt_of_lt_of_le (hrb t h hns) hmono
      · exact h.2
    | request =>
      rcases (compfacts st s .request (Or.inr rfl)).1 t ht with h | h
      · exact Nat.lt_of_lt_of_le (hrb t h hns) hmono
      · exact h.2
    | call => simp [Req.isAcc] at hacc
    | run buf => simp [Req.isAcc] at hacc
  · -- nokeep
    intro st s r hacc hrb hcells t ht
    cases r with
    | fill x => rw [(hfill st s x).2.2] at ht; simp [cellsOf] at ht
    | compute => exact (compfacts st s .compute (Or.inl rfl)).2 hrb t ht
    | request => exact (compfacts st s .request (Or.inr rfl)).2 hrb t ht
    | call => simp [Req.isAcc] at hacc
    | run buf => simp [Req.isAcc] at hacc

end Lena.C04
