import LenaModel.Lemmas.C04Local
/-! # C04 — the purpose clause of the second sentence: downstream in-place updates of what an accumulator
yielded change neither what was filled nor any later result -/

namespace Lena.C04

open Lena.C03 (Kind)
open Lena.Flow (Value)

variable {σ S C : Type}

/-- the two runs — with and without the downstream updates — stay in step: same private state, heaps equal
outside the yielded objects `Y` -/
theorem downstream_sim (ops : Ops σ S C) (ns : Nat) (ctr : σ → Nat)
    (hL : LocalF ops ns ctr) (hF : FreshYield ops ns ctr) (hT : Tidy ops ns ctr) :
    ∀ (h : List (HOp σ S C)) (st₁ st₂ : Store C) (s : σ) (Y : List Tok),
      Downstream ops ns ctr st₁ s Y h →
      (∀ t, t ∉ Y → st₁ t = st₂ t) →
      RefsBelow ops ns ctr s → (∀ t ∈ Y, t.1 = ns ∧ t.2 < ctr s) → (∀ t ∈ Y, t ∉ ops.refs s) →
      runHistS ops st₁ s h = runHistS ops st₂ s (stripExt h) := by
  intro h
  induction h with
  | nil => intro st₁ st₂ s Y _ _ _ _ _; rfl
  | cons op h ih =>
    intro st₁ st₂ s Y hd hag hrb hY hYr
    cases op with
    | ext f =>
      obtain ⟨d1, d2⟩ := hd
      simp only [stripExt, runHistS]
      exact ih (f st₁) st₂ s Y d2 (fun t ht => by rw [d1 st₁ t ht]; exact hag t ht) hrb hY hYr
    | upd g =>
      obtain ⟨⟨d1, d1'⟩, d2⟩ := hd
      simp only [stripExt, runHistS]
      refine ih st₁ st₂ (g s) Y d2 hag ?_ (fun t ht => by rw [d1]; exact hY t ht) (fun t ht hr => hYr t ht (d1' t hr))
      intro t ht hns
      rw [d1]
      exact hrb t (d1' t ht) hns
    | req r =>
      obtain ⟨hacc, d1, d2⟩ := hd
      simp only [stripExt, runHistS]
      -- the footprint of the invocation avoids the yielded objects
      have hfoot : ∀ t, footF ns (ctr s) (ops.refs s) r.cells t → t ∉ Y := by
        intro t ht hy
        rcases ht with ht | ht | ht
        · exact hYr t hy ht
        · exact (d1 t ht).2 hy
        · have := (hY t hy).2; omega
      obtain ⟨e1, e2⟩ := hL.det st₁ st₂ s r (fun t ht => hag t (hfoot t ht))
      -- the heaps agree afterwards outside the old yielded objects
      have hag' : ∀ t, t ∉ Y → (ops.act st₁ s r).1 t = (ops.act st₂ s r).1 t := by
        intro t ht
        by_cases hf : footF ns (ctr s) (ops.refs s) r.cells t
        · exact e2 t hf
        · rw [hL.frame st₁ s r t hf, hL.frame st₂ s r t hf]; exact hag t ht
      have houts : ∀ t ∈ cellsOf (ops.act st₁ s r).2.2.outs, (ops.act st₁ s r).1 t = (ops.act st₂ s r).1 t :=
        fun t ht => e2 t (hL.refs_sub st₁ s r t (Or.inr ht))
      have hsnap : (cellsOf (ops.act st₁ s r).2.2.outs).map (ops.act st₁ s r).1 =
          (cellsOf (ops.act st₂ s r).2.2.outs).map (ops.act st₂ s r).1 := by
        rw [← e1]
        exact List.map_congr_left houts
      have hcells : ∀ t ∈ r.cells, t.1 = ns → t.2 < ctr s := fun t ht => (d1 t ht).1
      have hrb' := hT.below st₁ s r hacc hrb hcells
      have hmono := hF.mono st₁ s r
      rw [hsnap, ← e1]
      congr 1
      refine ih (ops.act st₁ s r).1 (ops.act st₂ s r).1 (ops.act st₁ s r).2.1 (Y ++ cellsOf (ops.act st₁ s r).2.2.outs)
        d2 ?_ hrb' ?_ ?_
      · intro t ht
        exact hag' t (fun hy => ht (List.mem_append_left _ hy))
      · intro t ht
        rcases List.mem_append.mp ht with ht | ht
        · exact ⟨(hY t ht).1, Nat.lt_of_lt_of_le (hY t ht).2 hmono⟩
        · obtain ⟨g1, _, g3⟩ := hF.fresh st₁ s r hacc t ht
          exact ⟨g1, g3⟩
      · intro t ht hr
        rcases List.mem_append.mp ht with ht | ht
        · exact hfoot t (hL.refs_sub st₁ s r t (Or.inl hr)) ht
        · exact hT.nokeep st₁ s r hacc hrb hcells t ht hr

end Lena.C04
