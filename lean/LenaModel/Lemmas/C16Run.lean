import LenaModel.Model.C16
import LenaModel.Lemmas.C16
/-! # C16 — the four block loops of `FillRequest.run` against the block specification

Each loop (`_run_fill_compute`, and the three variants of `_run_run`) yields `specBlocks` of the
flow cut into `chunks`.  Induction on a length bound (the loops recurse on `xs.drop N`). -/

namespace Lena.C16
variable {σ α β : Type}

section
variable (e : El σ α β) (N : Nat) (rst yor : Bool)

theorem take_length_of_not_short {N : Nat} {xs : List α} (h : ¬ (xs.take N).length < N) : (xs.take N).length = N := by
  simp only [List.length_take] at h ⊢; omega

theorem runFillCompute_spec (hN : 0 < N) : ∀ (k : Nat) (xs : List α) (s : σ), xs.length ≤ k →
    (runFillCompute e N rst yor s xs).1 = specBlocks (blockFill e) e.reset N rst yor s (chunks N xs)
  | 0, xs, s, h => by
    have : xs = [] := List.length_eq_zero_iff.mp (by omega)
    subst this
    rw [runFillCompute, chunks_nil]; simp [specBlocks]
  | k + 1, xs, s, h => by
    rw [runFillCompute]
    have hN0 : ¬ N = 0 := by omega
    simp only [hN0, dite_false]
    by_cases hx : xs = []
    · subst hx; simp [chunks_nil, specBlocks]
    · simp only [hx, dite_false]
      have hpos : 0 < xs.length := List.length_pos_iff.mpr hx
      rw [chunks_cons N hN xs hx, specBlocks]
      by_cases hlen : (xs.take N).length = N
      · have hmod : ¬ (xs.take N).length % N ≠ 0 := by simp [hlen]
        simp only [hlen, if_true, blockFill]
        rw [runFillCompute_spec hN k (xs.drop N) _ (by simp; omega)]
        simp
      · have hlt : (xs.take N).length < N := by simp only [List.length_take] at hlen ⊢; omega
        have hmod : (xs.take N).length % N ≠ 0 := by
          rw [Nat.mod_eq_of_lt hlt]; simp only [List.length_take] at hlen ⊢; omega
        simp only [hmod, ne_eq, not_false_eq_true, if_true, hlen, if_false, blockFill]
        cases yor <;> simp


theorem runRunYor_spec (hN : 0 < N) : ∀ (k : Nat) (xs : List α) (s : σ), xs.length ≤ k →
    (runRunYor e N rst s xs).1 = specBlocks (blockRun e) e.reset N rst true s (chunks N xs)
  | 0, xs, s, h => by
    have : xs = [] := List.length_eq_zero_iff.mp (by omega)
    subst this
    rw [runRunYor, chunks_nil]; simp [specBlocks]
  | k + 1, [], s, h => by
    rw [runRunYor, chunks_nil]; simp [specBlocks]
  | k + 1, x :: rest, s, h => by
    rw [runRunYor, chunks_cons N hN (x :: rest) (by simp), specBlocks]
    have htake : (x :: rest).take N = x :: rest.take (N - 1) := by
      obtain ⟨m, rfl⟩ : ∃ m, N = m + 1 := ⟨N - 1, by omega⟩
      simp
    have hdrop : (x :: rest).drop N = rest.drop (N - 1) := by
      obtain ⟨m, rfl⟩ : ∃ m, N = m + 1 := ⟨N - 1, by omega⟩
      simp
    rw [htake, hdrop]
    simp only [List.length_cons] at h
    have ih := runRunYor_spec hN k (rest.drop (N - 1))
      (if rst then e.reset (e.run s (x :: rest.take (N - 1))).2 else (e.run s (x :: rest.take (N - 1))).2)
      (by simp; omega)
    simp only [ih, blockRun]
    by_cases hlen : (x :: rest.take (N - 1)).length = N
    · simp only [hlen, if_true]
    · -- a short block is the last one
      have hd : rest.drop (N - 1) = [] := by
        apply List.drop_eq_nil_of_le
        simp only [List.length_cons, List.length_take] at hlen
        omega
      simp only [hlen, if_false, if_true, hd, chunks_nil, specBlocks, List.append_nil]

theorem runRunBI_spec (hN : 0 < N) : ∀ (k : Nat) (xs : List α) (s : σ), xs.length ≤ k →
    (runRunBI e N rst s xs).1 = specBlocks (blockRun e) e.reset N rst false s (chunks N xs)
  | 0, xs, s, h => by
    have : xs = [] := List.length_eq_zero_iff.mp (by omega)
    subst this
    have hN0 : ¬ N = 0 := by omega
    rw [runRunBI, chunks_nil]; simp [specBlocks, hN0, hN]
  | k + 1, xs, s, h => by
    rw [runRunBI]
    have hN0 : ¬ N = 0 := by omega
    simp only [hN0, dite_false]
    by_cases hx : xs = []
    · subst hx; simp [chunks_nil, specBlocks, hN]
    · have hpos : 0 < xs.length := List.length_pos_iff.mpr hx
      rw [chunks_cons N hN xs hx, specBlocks]
      by_cases hlen : (xs.take N).length < N
      · have hne : ¬ (xs.take N).length = N := by omega
        rw [dif_pos hlen, if_neg hne]; simp
      · have heq := take_length_of_not_short hlen
        rw [dif_neg hlen, if_pos heq]
        simp only [blockRun]
        rw [runRunBI_spec hN k (xs.drop N) _ (by simp; omega)]

theorem runRunBO_spec (hN : 0 < N) : ∀ (k : Nat) (xs : List α) (s : σ), xs.length ≤ k →
    (runRunBO e N rst s xs).1 = specBlocks (blockRun e) e.reset N rst false s (chunks N xs)
  | 0, xs, s, h => by
    have : xs = [] := List.length_eq_zero_iff.mp (by omega)
    subst this
    have hN0 : ¬ N = 0 := by omega
    rw [runRunBO, chunks_nil]; simp [specBlocks, hN0, hN]
  | k + 1, xs, s, h => by
    rw [runRunBO]
    have hN0 : ¬ N = 0 := by omega
    simp only [hN0, dite_false]
    by_cases hx : xs = []
    · subst hx; simp [chunks_nil, specBlocks, hN]
    · have hpos : 0 < xs.length := List.length_pos_iff.mpr hx
      rw [chunks_cons N hN xs hx, specBlocks]
      by_cases hlen : (xs.take N).length < N
      · have hne : ¬ (xs.take N).length = N := by omega
        rw [dif_pos hlen, if_neg hne]; simp
      · have heq := take_length_of_not_short hlen
        rw [dif_neg hlen, if_pos heq]
        simp only [blockRun]
        rw [runRunBO_spec hN k (xs.drop N) _ (by simp; omega)]

end

end Lena.C16
