import LenaModel.Lemmas.C12
import LenaModel.Model.C12Spec
import LenaModel.Lemmas.C12Hist
/-! # C12 — lemmas about the graph part of the model: `_parse_error_names`, `_get_err_indices`, the loop of
`graph.scale`, the invariants of a constructed graph, `zip(*coords)`.  Core Lean only. -/
namespace Lena.C12
open Lena Lena.NArr

/-! ### `_parse_error_names` -/

/-- once inside the error fields, `splitFields` accepts only error fields and numbers them consecutively -/
theorem splitFields_inErr : ∀ (names : List Name) (ind lc : Nat) (errs : List (Name × Nat)) (lc' : Nat),
    splitFields names ind true lc = .ok (errs, lc') →
      (∀ f ∈ names, isErrField f = true) ∧ errs = names.zipIdx ind ∧ lc' = lc
  | [], ind, lc, errs, lc', h => by
    simp [splitFields] at h
    simp [h.1, h.2]
  | f :: rest, ind, lc, errs, lc', h => by
    simp only [splitFields] at h
    by_cases hf : errorPrefix.isPrefixOf f = true
    · simp only [hf, if_true] at h
      cases hr : splitFields rest (ind + 1) true lc with
      | error e => simp [hr, bind, Except.bind] at h
      | ok p =>
        obtain ⟨errs', lc''⟩ := p
        simp [hr, bind, Except.bind, pure, Except.pure] at h
        obtain ⟨h1, h2, h3⟩ := splitFields_inErr rest (ind + 1) lc errs' lc'' hr
        refine ⟨?_, ?_, ?_⟩
        · intro g hg
          rcases List.mem_cons.1 hg with rfl | hg
          · exact hf
          · exact h1 g hg
        · rw [← h.1, h2]; simp [List.zipIdx_cons]
        · rw [← h.2, h3]
    · simp [hf] at h

/-- `splitFields` from the start: coordinate fields first, then error fields numbered by their positions;
`last_coord_ind` is the position of the last coordinate field -/
theorem splitFields_spec : ∀ (names : List Name) (ind lc : Nat) (errs : List (Name × Nat)) (lc' : Nat),
    splitFields names ind false lc = .ok (errs, lc') →
      ∃ cs es, names = cs ++ es ∧ (∀ c ∈ cs, isErrField c = false) ∧ (∀ f ∈ es, isErrField f = true) ∧
        errs = es.zipIdx (ind + cs.length) ∧ lc' = (if cs = [] then lc else ind + cs.length - 1)
  | [], ind, lc, errs, lc', h => by
    simp [splitFields] at h
    exact ⟨[], [], by simp, by simp, by simp, by simp [h.1], by simp [h.2]⟩
  | f :: rest, ind, lc, errs, lc', h => by
    simp only [splitFields] at h
    by_cases hf : errorPrefix.isPrefixOf f = true
    · simp only [hf, if_true] at h
      cases hr : splitFields rest (ind + 1) true lc with
      | error e => simp [hr, bind, Except.bind] at h
      | ok p =>
        obtain ⟨errs', lc''⟩ := p
        simp [hr, bind, Except.bind, pure, Except.pure] at h
        obtain ⟨h1, h2, h3⟩ := splitFields_inErr rest (ind + 1) lc errs' lc'' hr
        refine ⟨[], f :: rest, by simp, by simp, ?_, ?_, ?_⟩
        · intro g hg
          rcases List.mem_cons.1 hg with rfl | hg
          · exact hf
          · exact h1 g hg
        · rw [← h.1, h2]; simp [List.zipIdx_cons]
        · simp [← h.2, h3]
    · simp only [hf] at h
      simp only [Bool.false_eq_true, if_false] at h
      obtain ⟨cs, es, h1, h2, h3, h4, h5⟩ := splitFields_spec rest (ind + 1) ind errs lc' h
      refine ⟨f :: cs, es, by simp [h1], ?_, h3, ?_, ?_⟩
      · intro c hc
        rcases List.mem_cons.1 hc with rfl | hc
        · simpa only [isErrField, Bool.not_eq_true] using hf
        · exact h2 c hc
      · rw [h4]; congr 1; simp; omega
      · rw [h5]
        by_cases hcs : cs = []
        · simp [hcs]
        · have : cs.length ≠ 0 := by simpa using hcs
          simp [hcs]

theorem parseErrs_spec (coords : List Name) : ∀ (errs : List (Name × Nat)) (parsed : List ParsedErr),
    parseErrs coords errs = .ok parsed →
      parsed.length = errs.length ∧
      ∀ (k : Nat) (err : Name) (ind : Nat), errs[k]? = some (err, ind) →
        ∃ p, parsed[k]? = some p ∧ p.ind = ind ∧ coords.filter (errMatches (err.drop 6)) = [p.coord]
  | [], parsed, h => by
    simp [parseErrs] at h
    simp [h]
  | (err, ind) :: rest, parsed, h => by
    simp only [parseErrs] at h
    split at h
    · simp at h
    · rename_i c hc
      cases hr : parseErrs coords rest with
      | error e => simp [hr, bind, Except.bind] at h
      | ok tail =>
        simp [hr, bind, Except.bind, pure, Except.pure] at h
        obtain ⟨h1, h2⟩ := parseErrs_spec coords rest tail hr
        subst h
        refine ⟨by simp [h1], ?_⟩
        intro k err' ind' hk
        cases k with
        | zero =>
          simp at hk
          obtain ⟨rfl, rfl⟩ := hk
          exact ⟨{ coord := c, tail := (err.drop 6).drop (c.length + 1), ind := ind }, by simp, rfl, hc⟩
        | succ k =>
          simp at hk
          obtain ⟨p, hp1, hp2, hp3⟩ := h2 k err' ind' hk
          exact ⟨p, by simpa using hp1, hp2, hp3⟩
    · simp at h

/-- `_get_err_indices`: positions `k + dim` of the parsed errors that belong to the coordinate -/
theorem mem_errIndices (dim : Nat) (name : Name) : ∀ (parsed : List ParsedErr) (k0 i : Nat),
    i ∈ errIndices dim name parsed k0 ↔ ∃ j p, parsed[j]? = some p ∧ p.coord = name ∧ i = j + k0 + dim
  | [], k0, i => by simp [errIndices]
  | e :: rest, k0, i => by
    simp only [errIndices]
    have ih := mem_errIndices dim name rest (k0 + 1) i
    by_cases hc : (e.coord == name) = true
    · simp only [hc, if_true, List.mem_cons, ih]
      constructor
      · rintro (rfl | ⟨j, p, h1, h2, h3⟩)
        · exact ⟨0, e, by simp, by simpa using hc, by omega⟩
        · exact ⟨j + 1, p, by simpa using h1, h2, by omega⟩
      · rintro ⟨j, p, h1, h2, h3⟩
        cases j with
        | zero => left; omega
        | succ j => right; exact ⟨j, p, by simpa using h1, h2, by omega⟩
    · simp only [hc, Bool.false_eq_true, if_false, ih]
      constructor
      · rintro ⟨j, p, h1, h2, h3⟩
        exact ⟨j + 1, p, by simpa using h1, h2, by omega⟩
      · rintro ⟨j, p, h1, h2, h3⟩
        cases j with
        | zero =>
          simp at h1
          subst h1
          simp [h2] at hc
        | succ j => exact ⟨j, p, by simpa using h1, h2, by omega⟩

/-- the loop of `graph.scale` touches exactly the listed columns -/
theorem rescaleCoords_getElem? (c : Q) (inds : List Nat) : ∀ (coords : List (List Q)) (k0 i : Nat),
    (rescaleCoords c inds coords k0)[i]? =
      coords[i]?.map (fun arr => if inds.contains (i + k0) then arr.map (fun v => c * v) else arr)
  | [], k0, i => by simp [rescaleCoords]
  | arr :: rest, k0, i => by
    cases i with
    | zero => simp [rescaleCoords]
    | succ i =>
      simp only [rescaleCoords, List.getElem?_cons_succ, rescaleCoords_getElem? c inds rest (k0 + 1) i]
      congr 2
      funext arr
      have : i + (k0 + 1) = i + 1 + k0 := by omega
      rw [this]

theorem rescaleCoords_length (c : Q) (inds : List Nat) : ∀ (coords : List (List Q)) (k0 : Nat),
    (rescaleCoords c inds coords k0).length = coords.length
  | [], _ => by simp [rescaleCoords]
  | _ :: rest, k0 => by simp [rescaleCoords, rescaleCoords_length c inds rest (k0 + 1)]

/-! ### invariants of a constructed graph -/

theorem isErrField_iff (f : Name) : isErrField f = true ↔ ∃ rest, f = errorPrefix ++ rest := by
  simp only [isErrField, List.isPrefixOf_iff_prefix]
  constructor
  · rintro ⟨t, ht⟩; exact ⟨t, ht.symm⟩
  · rintro ⟨t, ht⟩; exact ⟨t, ht.symm⟩

theorem errorPrefix_length : errorPrefix.length = 6 := by decide

/-- an error field cannot be its own coordinate -/
theorem errMatches_self_false (f : Name) (hf : isErrField f = true) : errMatches (f.drop 6) f = false := by
  obtain ⟨rest, rfl⟩ := (isErrField_iff f).1 hf
  have hd : (errorPrefix ++ rest).drop 6 = rest := by
    rw [← errorPrefix_length, List.drop_left]
  rw [hd]
  simp only [errMatches, Bool.or_eq_false_iff]
  constructor
  · apply Bool.eq_false_iff.2
    intro h
    have := congrArg List.length (eq_of_beq h)
    simp [errorPrefix_length] at this
  · apply Bool.eq_false_iff.2
    intro h
    have := (List.isPrefixOf_iff_prefix.1 h).length_le
    simp [errorPrefix_length] at this
    omega

/-- what `graph.__init__` establishes -/
structure GraphInv (g : Graph) : Prop where
  names_len : g.fieldNames.length = g.coords.length
  dim_pos : 1 ≤ g.dim
  dim_parsed : g.dim + g.parsed.length = g.fieldNames.length
  coord_fields : ∀ c ∈ g.fieldNames.take g.dim, isErrField c = false
  error_fields : ∀ f ∈ g.fieldNames.drop g.dim, isErrField f = true
  parsed_spec : ∀ (k : Nat) (f : Name), g.fieldNames[g.dim + k]? = some f →
    ∃ p, g.parsed[k]? = some p ∧ p.ind = g.dim + k ∧
      (g.fieldNames.take g.dim).filter (errMatches (f.drop 6)) = [p.coord]

theorem mkGraph_inv (coords : List (List Q)) (fn : FieldNamesArg) (sc : Option Q) (g : Graph)
    (h : mkGraph coords fn sc = .ok g) :
    GraphInv g ∧ g.coords = coords ∧ g.scale = sc ∧ fieldNamesTuple fn = .ok g.fieldNames ∧ coords ≠ [] ∧
      sameLengths coords = true ∧ hasDuplicates g.fieldNames = false := by
  unfold mkGraph at h
  by_cases hc : coords.isEmpty = true
  · simp [hc] at h
  by_cases hs : sameLengths coords = true
  case neg => simp [hc, hs] at h
  cases hn : fieldNamesTuple fn with
  | error e => simp [hc, hs, hn, bind, Except.bind] at h
  | ok names =>
    by_cases hl : names.length = coords.length
    case neg => simp [hc, hs, hn, hl, bind, Except.bind] at h
    by_cases hd : hasDuplicates names = true
    · simp [hc, hs, hn, hl, hd, bind, Except.bind] at h
    cases hp : parseErrorNames names with
    | error e => simp [hc, hs, hn, hl, hd, hp, bind, Except.bind] at h
    | ok parsed =>
      simp [hc, hs, hn, hl, hd, hp, bind, Except.bind, pure, Except.pure] at h
      subst h
      have hcne : coords ≠ [] := by simpa using hc
      refine ⟨?_, rfl, rfl, rfl, hcne, hs, by simpa using hd⟩
      -- the parse
      unfold parseErrorNames at hp
      cases hsf : splitFields names 0 false 0 with
      | error e => simp [hsf, bind, Except.bind] at hp
      | ok q =>
        obtain ⟨errors, lc⟩ := q
        simp only [hsf, bind, Except.bind] at hp
        obtain ⟨cs, es, h1, h2, h3, h4, h5⟩ := splitFields_spec names 0 0 errors lc hsf
        obtain ⟨p1, p2⟩ := parseErrs_spec _ _ _ hp
        have hnl : names.length ≠ 0 := by
          rw [hl]; simpa using hcne
        -- there is at least one coordinate field
        have hcs : cs ≠ [] := by
          intro hcs
          subst hcs
          simp only [List.nil_append] at h1
          simp at h4 h5
          rw [h1] at hnl hp p2
          cases hes : es with
          | nil => simp [hes] at hnl
          | cons f rest =>
            subst h5
            subst h4
            subst hes
            obtain ⟨p, _, _, hp3⟩ := p2 0 f 0 (by simp [List.zipIdx_cons])
            have hm := errMatches_self_false f (h3 f List.mem_cons_self)
            simp [hm] at hp3
        have hlc : lc + 1 = cs.length := by
          have : cs.length ≠ 0 := by simpa using hcs
          simp [hcs] at h5; omega
        have htake : names.take (lc + 1) = cs := by rw [hlc, h1, List.take_left]
        have hplen : parsed.length = es.length := by simp [p1, h4]
        have hdim : coords.length - parsed.length = cs.length := by rw [← hl]; simp [h1, hplen]
        have hcspos : 1 ≤ cs.length := by
          have : cs.length ≠ 0 := by simpa using hcs
          omega
        refine ⟨hl, ?_, ?_, ?_, ?_, ?_⟩
        · simp only [hdim]; exact hcspos
        · simp only [hdim]; simp [h1, hplen]
        · simp only [hdim]; rw [h1, List.take_left]; exact h2
        · simp only [hdim]; rw [h1, List.drop_left]; exact h3
        · intro k f hf
          simp only [hdim] at hf ⊢
          have hes : es[k]? = some f := by
            rw [h1, List.getElem?_append_right (by omega)] at hf
            simpa using hf
          have herr : errors[k]? = some (f, cs.length + k) := by
            rw [h4]
            simp [List.getElem?_zipIdx, hes]
          obtain ⟨p, hp1, hp2, hp3⟩ := p2 k f (cs.length + k) herr
          rw [htake] at hp3
          refine ⟨p, hp1, hp2, ?_⟩
          rw [h1, List.take_left]
          exact hp3

/-! ### `zip(*coords)` and the column-wise `append` of `hist_to_graph` -/

theorem zipRows_length (m : Nat) : ∀ (cols : List (List Q)), cols ≠ [] → (∀ c ∈ cols, c.length = m) →
    (zipRows cols).length = m
  | [], h, _ => absurd rfl h
  | [c], _, hm => by simp [zipRows, hm c (by simp)]
  | c :: c' :: cs, _, hm => by
    have ih := zipRows_length m (c' :: cs) (by simp) (fun x hx => hm x (List.mem_cons_of_mem _ hx))
    simp [zipRows, ih, hm c (by simp)]

theorem zipRows_appendRow (m : Nat) : ∀ (cols : List (List Q)) (row : List Q), cols ≠ [] →
    cols.length = row.length → (∀ c ∈ cols, c.length = m) →
    zipRows (appendRow cols row) = zipRows cols ++ [row] ∧ (∀ c ∈ appendRow cols row, c.length = m + 1) ∧
      (appendRow cols row).length = cols.length
  | [], _, h, _, _ => absurd rfl h
  | [_], [], _, hl, _ => by simp at hl
  | [c], [v], _, _, hm => by
    simp [appendRow, zipRows, hm c (by simp)]
  | [_], _ :: _ :: _, _, hl, _ => by simp at hl
  | _ :: _ :: _, [], _, hl, _ => by simp at hl
  | c :: c' :: cs, v :: vs, _, hl, hm => by
    obtain ⟨ih1, ih2, ih3⟩ := zipRows_appendRow m (c' :: cs) vs (by simp) (by simpa using hl)
      (fun x hx => hm x (List.mem_cons_of_mem _ hx))
    have hc : c.length = m := hm c (by simp)
    have hz : (zipRows (c' :: cs)).length = m :=
      zipRows_length m (c' :: cs) (by simp) (fun x hx => hm x (List.mem_cons_of_mem _ hx))
    refine ⟨?_, ?_, by simp [appendRow, ih3]⟩
    · -- the tail of `appendRow` is again a non-empty list of columns
      have hne : appendRow (c' :: cs) vs ≠ [] := by
        intro h0; rw [h0] at ih3; simp at ih3
      cases hap : appendRow (c' :: cs) vs with
      | nil => exact absurd hap hne
      | cons d ds =>
        simp only [appendRow, hap, zipRows]
        rw [← hap, ih1]
        rw [List.zipWith_append (by rw [hc, hz])]
        simp
    · intro x hx
      simp only [appendRow, List.mem_cons] at hx
      rcases hx with rfl | hx
      · simp [hc]
      · exact ih2 x hx

/-! ### vocabulary and helper lemmas of the graph theorems (`Props/C12.lean`) -/

theorem errMatches_iff (f c : Name) (hf : isErrField f = true) :
    errMatches (f.drop 6) c = true ↔ ErrorFieldOf c f := by
  obtain ⟨rest, rfl⟩ := (isErrField_iff f).1 hf
  have hd : (errorPrefix ++ rest).drop 6 = rest := by
    rw [← errorPrefix_length, List.drop_left]
  rw [hd]
  simp only [errMatches, Bool.or_eq_true, beq_iff_eq, List.isPrefixOf_iff_prefix]
  constructor
  · rintro (h | ⟨t, ht⟩)
    · exact ⟨rest, rfl, Or.inl h⟩
    · exact ⟨rest, rfl, Or.inr ⟨t, by simpa using ht.symm⟩⟩
  · rintro ⟨rest', h1, h2⟩
    have : rest' = rest := List.append_cancel_left h1.symm
    subst this
    rcases h2 with h | ⟨t, ht⟩
    · exact Or.inl h
    · exact Or.inr ⟨t, by simp [ht]⟩

theorem graphLoop_spec (mode : CoordMode) (mv : Option (Q → List Q)) (w : Nat) :
    ∀ (cellsL : List (Q × List (Q × Q))) (cols : List (List Q)) (m : Nat), cols ≠ [] → cols.length = w →
      (∀ c ∈ cols, c.length = m) → (∀ p ∈ cellsL, (pointOf mode mv p.2 p.1).length = w) →
      ∃ cols', graphLoop mode mv (cellsL.map (fun p => (.leaf p.1, p.2))) cols = .ok cols' ∧
        zipRows cols' = zipRows cols ++ cellsL.map (fun p => pointOf mode mv p.2 p.1) ∧
        cols'.length = w ∧ ∀ c ∈ cols', c.length = m + cellsL.length
  | [], cols, m, _, hw, hm, _ => ⟨cols, by simp [graphLoop], by simp, hw, by simpa using hm⟩
  | (v, ed) :: rest, cols, m, hne, hw, hm, hp => by
    have hrow : (pointOf mode mv ed v).length = w := hp (v, ed) List.mem_cons_self
    obtain ⟨a1, a2, a3⟩ := zipRows_appendRow m cols (pointOf mode mv ed v) hne (by rw [hw, hrow]) hm
    have hne' : appendRow cols (pointOf mode mv ed v) ≠ [] := by
      intro h0; rw [h0] at a3; exact hne (List.length_eq_zero_iff.1 a3.symm)
    obtain ⟨cols', b1, b2, b3, b4⟩ := graphLoop_spec mode mv w rest _ (m + 1) hne' (by rw [a3, hw]) a2
      (fun p hp' => hp p (List.mem_cons_of_mem _ hp'))
    refine ⟨cols', ?_, ?_, b3, ?_⟩
    · simp only [List.map_cons, graphLoop]
      exact b1
    · rw [b2, a1]; simp
    · intro c hc
      rw [b4 c hc]; simp; omega

theorem getCoord_length (mode : CoordMode) (hm : mode ≠ .bad) (ed : List (Q × Q)) :
    (getCoord mode ed).length = ed.length := by
  cases mode <;> simp [getCoord] at hm ⊢

theorem cellEdgesRef_length : ∀ (axes : List (List Q)) (idx : List Nat), InRange axes idx →
    (cellEdgesRef axes idx).length = axes.length
  | [], [], _ => rfl
  | [], _ :: _, h => by simp [InRange] at h
  | _ :: _, [], h => by simp [InRange] at h
  | _ :: es, _ :: is, h => by simp [cellEdgesRef, cellEdgesRef_length es is h.2]

/-! ### every valid naming is accepted (forward direction of the parse) -/

theorem splitFields_inErr_ok : ∀ (es : List Name) (ind lc : Nat), (∀ f ∈ es, isErrField f = true) →
    splitFields es ind true lc = .ok (es.zipIdx ind, lc)
  | [], _, _, _ => by simp [splitFields]
  | f :: rest, ind, lc, h => by
    have hf : errorPrefix.isPrefixOf f = true := h f List.mem_cons_self
    have ih := splitFields_inErr_ok rest (ind + 1) lc (fun g hg => h g (List.mem_cons_of_mem _ hg))
    simp [splitFields, hf, ih, bind, Except.bind, pure, Except.pure, List.zipIdx_cons]

theorem splitFields_ok : ∀ (cs es : List Name) (ind lc : Nat), (∀ c ∈ cs, isErrField c = false) →
    (∀ f ∈ es, isErrField f = true) →
    splitFields (cs ++ es) ind false lc =
      .ok (es.zipIdx (ind + cs.length), if cs = [] then lc else ind + cs.length - 1)
  | [], es, ind, lc, _, he => by
    cases es with
    | nil => simp [splitFields]
    | cons f rest =>
      have hf : errorPrefix.isPrefixOf f = true := he f List.mem_cons_self
      have ih := splitFields_inErr_ok rest (ind + 1) lc (fun g hg => he g (List.mem_cons_of_mem _ hg))
      simp [splitFields, hf, ih, bind, Except.bind, pure, Except.pure, List.zipIdx_cons]
  | c :: cs, es, ind, lc, hc, he => by
    have hcf : errorPrefix.isPrefixOf c = false := hc c List.mem_cons_self
    have ih := splitFields_ok cs es (ind + 1) ind (fun x hx => hc x (List.mem_cons_of_mem _ hx)) he
    simp only [List.cons_append, splitFields, hcf, Bool.false_eq_true, if_false, ih]
    congr 2
    · congr 1; simp; omega
    · by_cases hcs : cs = []
      · simp [hcs]
      · have : cs.length ≠ 0 := by simpa using hcs
        simp [hcs]

theorem parseErrs_ok (coords : List Name) : ∀ (errs : List (Name × Nat)),
    (∀ p ∈ errs, ∃ c, coords.filter (errMatches (p.1.drop 6)) = [c]) →
    ∃ parsed, parseErrs coords errs = .ok parsed ∧ parsed.length = errs.length
  | [], _ => ⟨[], by simp [parseErrs], rfl⟩
  | (err, ind) :: rest, h => by
    obtain ⟨c, hc⟩ := h (err, ind) List.mem_cons_self
    obtain ⟨tail, ht, hl⟩ := parseErrs_ok coords rest (fun p hp => h p (List.mem_cons_of_mem _ hp))
    simp only at hc
    exact ⟨{ coord := c, tail := (err.drop 6).drop (c.length + 1), ind := ind } :: tail,
      by simp [parseErrs, hc, ht, bind, Except.bind, pure, Except.pure], by simp [hl]⟩

/-! ### helper lemmas for `graph.__add__` -/

theorem sameLengths_of_all (m : Nat) : ∀ (cols : List (List Q)), (∀ c ∈ cols, c.length = m) → sameLengths cols = true
  | [], _ => rfl
  | c :: cs, h => by
    simp only [sameLengths, List.all_eq_true, beq_iff_eq]
    intro x hx
    rw [h x (List.mem_cons_of_mem _ hx), h c List.mem_cons_self]

theorem mkGraph_parse (coords : List (List Q)) (fn : FieldNamesArg) (sc : Option Q) (g : Graph)
    (h : mkGraph coords fn sc = .ok g) :
    parseErrorNames g.fieldNames = .ok g.parsed ∧ g.dim = g.fieldNames.length - g.parsed.length := by
  unfold mkGraph at h
  by_cases hc : coords.isEmpty = true
  · simp [hc] at h
  by_cases hs : sameLengths coords = true
  case neg => simp [hc, hs] at h
  cases hn : fieldNamesTuple fn with
  | error e => simp [hc, hs, hn, bind, Except.bind] at h
  | ok names =>
    by_cases hl : names.length = coords.length
    case neg => simp [hc, hs, hn, hl, bind, Except.bind] at h
    by_cases hd : hasDuplicates names = true
    · simp [hc, hs, hn, hl, hd, bind, Except.bind] at h
    cases hp : parseErrorNames names with
    | error e => simp [hc, hs, hn, hl, hd, hp, bind, Except.bind] at h
    | ok parsed =>
      simp only [hc, hs, hn, hl, hd, hp, bind, Except.bind, pure, Except.pure] at h
      simp at h
      subst h
      exact ⟨hp, by simp [hl]⟩

theorem sameLengths_iff (cols : List (List Q)) (c : List Q) :
    sameLengths (c :: cols) = true ↔ ∀ x ∈ cols, x.length = c.length := by
  simp [sameLengths]

theorem sameCoordLengths_ok (a b : List (List Q)) : ∀ k, k ≤ a.length → k ≤ b.length →
    (∀ i (_ : i < k) (ha : i < a.length) (hb : i < b.length), a[i].length = b[i].length) →
    sameCoordLengths a b k = .ok true
  | 0, _, _, _ => rfl
  | k + 1, hka, hkb, h => by
    have ih := sameCoordLengths_ok a b k (by omega) (by omega) (fun i hi ha hb => h i (by omega) ha hb)
    have h1 : a[k]? = some a[k] := List.getElem?_eq_getElem (by omega)
    have h2 : b[k]? = some b[k] := List.getElem?_eq_getElem (by omega)
    simp [sameCoordLengths, ih, h1, h2, h k (by omega) (by omega) (by omega), bind, Except.bind, pure, Except.pure]

end Lena.C12
