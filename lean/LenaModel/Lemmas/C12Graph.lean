import LenaModel.Lemmas.C12
/-! # C12 — lemmas about the graph part of the model: `_parse_error_names`, `_get_err_indices`, the loop of
`graph.scale`, the invariants of a constructed graph, `zip(*coords)`.  Core Lean only. -/
namespace Lena.C12
open Lena Lena.NArr

/-! ### `_parse_error_names` -/

/-- the field name starts with `"error_"` -/
def isErrField (f : Name) : Bool := errorPrefix.isPrefixOf f

/-- once inside the error fields, `splitFields` accepts only error fields and numbers them consecutively -/
theorem splitFields_inErr : ∀ (names : List Name) (ind lc : Nat) (errs : List (Name × Nat)) (lc' : Nat),
    splitFields names ind true lc = .ok (errs, lc') →
      (∀ f ∈ names, isErrField f = true) ∧ errs = names.zipIdx ind ∧ lc' = lc
  | [], ind, lc, errs, lc', h => by
    simp [splitFields] at h
    simp [h.1, h.2]
  | f :: rest, ind, lc, errs, lc', h => by
    simp only [splitFields] at h
    by_cases hf : errorPrefix.isPrefixOf f = true
    · simp only [hf, if_true] at h
      cases hr : splitFields rest (ind + 1) true lc with
      | error e => simp [hr, bind, Except.bind] at h
      | ok p =>
        obtain ⟨errs', lc''⟩ := p
        simp [hr, bind, Except.bind, pure, Except.pure] at h
        obtain ⟨h1, h2, h3⟩ := splitFields_inErr rest (ind + 1) lc errs' lc'' hr
        refine ⟨?_, ?_, ?_⟩
        · intro g hg
          rcases List.mem_cons.1 hg with rfl | hg
          · exact hf
          · exact h1 g hg
        · rw [← h.1, h2]; simp [List.zipIdx_cons]
        · rw [← h.2, h3]
    · simp [hf] at h

/-- `splitFields` from the start: coordinate fields first, then error fields numbered by their positions;
`last_coord_ind` is the position of the last coordinate field -/
theorem splitFields_spec : ∀ (names : List Name) (ind lc : Nat) (errs : List (Name × Nat)) (lc' : Nat),
    splitFields names ind false lc = .ok (errs, lc') →
      ∃ cs es, names = cs ++ es ∧ (∀ c ∈ cs, isErrField c = false) ∧ (∀ f ∈ es, isErrField f = true) ∧
        errs = es.zipIdx (ind + cs.length) ∧ lc' = (if cs = [] then lc else ind + cs.length - 1)
  | [], ind, lc, errs, lc', h => by
    simp [splitFields] at h
    exact ⟨[], [], by simp, by simp, by simp, by simp [h.1], by simp [h.2]⟩
  | f :: rest, ind, lc, errs, lc', h => by
    simp only [splitFields] at h
    by_cases hf : errorPrefix.isPrefixOf f = true
    · simp only [hf, if_true] at h
      cases hr : splitFields rest (ind + 1) true lc with
      | error e => simp [hr, bind, Except.bind] at h
      | ok p =>
        obtain ⟨errs', lc''⟩ := p
        simp [hr, bind, Except.bind, pure, Except.pure] at h
        obtain ⟨h1, h2, h3⟩ := splitFields_inErr rest (ind + 1) lc errs' lc'' hr
        refine ⟨[], f :: rest, by simp, by simp, ?_, ?_, ?_⟩
        · intro g hg
          rcases List.mem_cons.1 hg with rfl | hg
          · exact hf
          · exact h1 g hg
        · rw [← h.1, h2]; simp [List.zipIdx_cons]
        · simp [← h.2, h3]
    · simp only [hf] at h
      simp only [Bool.false_eq_true, if_false] at h
      obtain ⟨cs, es, h1, h2, h3, h4, h5⟩ := splitFields_spec rest (ind + 1) ind errs lc' h
      refine ⟨f :: cs, es, by simp [h1], ?_, h3, ?_, ?_⟩
      · intro c hc
        rcases List.mem_cons.1 hc with rfl | hc
        · simpa only [isErrField, Bool.not_eq_true] using hf
        · exact h2 c hc
      · rw [h4]; congr 1; simp; omega
      · rw [h5]
        by_cases hcs : cs = []
        · simp [hcs]
        · have : cs.length ≠ 0 := by simpa using hcs
          simp [hcs]

theorem parseErrs_spec (coords : List Name) : ∀ (errs : List (Name × Nat)) (parsed : List ParsedErr),
    parseErrs coords errs = .ok parsed →
      parsed.length = errs.length ∧
      ∀ (k : Nat) (err : Name) (ind : Nat), errs[k]? = some (err, ind) →
        ∃ p, parsed[k]? = some p ∧ p.ind = ind ∧ coords.filter (errMatches (err.drop 6)) = [p.coord]
  | [], parsed, h => by
    simp [parseErrs] at h
    simp [h]
  | (err, ind) :: rest, parsed, h => by
    simp only [parseErrs] at h
    split at h
    · simp at h
    · rename_i c hc
      cases hr : parseErrs coords rest with
      | error e => simp [hr, bind, Except.bind] at h
      | ok tail =>
        simp [hr, bind, Except.bind, pure, Except.pure] at h
        obtain ⟨h1, h2⟩ := parseErrs_spec coords rest tail hr
        subst h
        refine ⟨by simp [h1], ?_⟩
        intro k err' ind' hk
        cases k with
        | zero =>
          simp at hk
          obtain ⟨rfl, rfl⟩ := hk
          exact ⟨{ coord := c, tail := (err.drop 6).drop (c.length + 1), ind := ind }, by simp, rfl, hc⟩
        | succ k =>
          simp at hk
          obtain ⟨p, hp1, hp2, hp3⟩ := h2 k err' ind' hk
          exact ⟨p, by simpa using hp1, hp2, hp3⟩
    · simp at h

/-- `_get_err_indices`: positions `k + dim` of the parsed errors that belong to the coordinate -/
theorem mem_errIndices (dim : Nat) (name : Name) : ∀ (parsed : List ParsedErr) (k0 i : Nat),
    i ∈ errIndices dim name parsed k0 ↔ ∃ j p, parsed[j]? = some p ∧ p.coord = name ∧ i = j + k0 + dim
  | [], k0, i => by simp [errIndices]
  | e :: rest, k0, i => by
    simp only [errIndices]
    have ih := mem_errIndices dim name rest (k0 + 1) i
    by_cases hc : (e.coord == name) = true
    · simp only [hc, if_true, List.mem_cons, ih]
      constructor
      · rintro (rfl | ⟨j, p, h1, h2, h3⟩)
        · exact ⟨0, e, by simp, by simpa using hc, by omega⟩
        · exact ⟨j + 1, p, by simpa using h1, h2, by omega⟩
      · rintro ⟨j, p, h1, h2, h3⟩
        cases j with
        | zero => left; omega
        | succ j => right; exact ⟨j, p, by simpa using h1, h2, by omega⟩
    · simp only [hc, Bool.false_eq_true, if_false, ih]
      constructor
      · rintro ⟨j, p, h1, h2, h3⟩
        exact ⟨j + 1, p, by simpa using h1, h2, by omega⟩
      · rintro ⟨j, p, h1, h2, h3⟩
        cases j with
        | zero =>
          simp at h1
          subst h1
          simp [h2] at hc
        | succ j => exact ⟨j, p, by simpa using h1, h2, by omega⟩

/-- the loop of `graph.scale` touches exactly the listed columns -/
theorem rescaleCoords_getElem? (c : Q) (inds : List Nat) : ∀ (coords : List (List Q)) (k0 i : Nat),
    (rescaleCoords c inds coords k0)[i]? =
      coords[i]?.map (fun arr => if inds.contains (i + k0) then arr.map (fun v => c * v) else arr)
  | [], k0, i => by simp [rescaleCoords]
  | arr :: rest, k0, i => by
    cases i with
    | zero => simp [rescaleCoords]
    | succ i =>
      simp only [rescaleCoords, List.getElem?_cons_succ, rescaleCoords_getElem? c inds rest (k0 + 1) i]
      congr 2
      funext arr
      have : i + (k0 + 1) = i + 1 + k0 := by omega
      rw [this]

theorem rescaleCoords_length (c : Q) (inds : List Nat) : ∀ (coords : List (List Q)) (k0 : Nat),
    (rescaleCoords c inds coords k0).length = coords.length
  | [], _ => by simp [rescaleCoords]
  | _ :: rest, k0 => by simp [rescaleCoords, rescaleCoords_length c inds rest (k0 + 1)]

end Lena.C12
