import LenaModel.Model.C01
/-! # C01 — helper lemmas: adapters, conversion, composition of stages -/

namespace Lena.C01
open Lena.Flow

variable {α : Type}

/-! ### attributes -/

theorem Attr.callable_iff (a : Attr) : a.callable = true ↔ a = .method := by
  cases a <;> simp [Attr.callable]

theorem Attr.present_of_callable (a : Attr) (h : a.callable = true) : a.present = true := by
  cases a <;> simp_all [Attr.callable, Attr.present]

/-- `is_fill_compute_el` is "fill and compute are callable" -/
theorem isFillComputeEl_iff (e : Element α) :
    isFillComputeEl e = (e.fill.callable && e.compute.callable) := by
  unfold isFillComputeEl
  cases hf : e.fill <;> cases hc : e.compute <;> simp [Attr.callable, Attr.present]

theorem convertible_false_iff (e : Element α) :
    e.convertible = false ↔ e.run.callable = false ∧ e.call = false ∧ isFillComputeEl e = false := by
  rw [isFillComputeEl_iff]
  unfold Element.convertible
  cases e.run.callable <;> cases e.call <;> cases (e.fill.callable && e.compute.callable) <;> simp

/-! ### invoking a method that exists is its denotation -/

theorem invokeRun_of_callable (e : Element α) (h : e.run.callable = true) : e.invokeRun = e.runDen := by
  funext s
  have := (Attr.callable_iff e.run).1 h
  simp [Element.invokeRun, this]

theorem invokeCall_of_call (e : Element α) (h : e.call = true) : e.invokeCall = e.callDen := by
  funext x
  simp [Element.invokeCall, h]

theorem invokeFill_of_callable (e : Element α) (h : e.fill.callable = true) : e.invokeFill = e.fillDen := by
  funext hs x
  have := (Attr.callable_iff e.fill).1 h
  simp [Element.invokeFill, this]

theorem invokeCompute_of_callable (e : Element α) (h : e.compute.callable = true) :
    e.invokeCompute = e.computeDen := by
  funext hs
  have := (Attr.callable_iff e.compute).1 h
  simp [Element.invokeCompute, this]

theorem fcLoop_eq_fcSpec (e : Element α) (hf : e.fill.callable = true) (hc : e.compute.callable = true)
    (t : Option Exc) : ∀ (xs h : List α), fcLoop e t h xs = fcSpec e t h xs
  | [], h => by
    simp [fcLoop, fcSpec, invokeCompute_of_callable e hc]
  | x :: xs, h => by
    simp only [fcLoop, fcSpec, invokeFill_of_callable e hf]
    cases e.fillDen h x with
    | error err => rfl
    | ok u => cases u; exact fcLoop_eq_fcSpec e hf hc t xs _

/-! ### `Sequence.__init__`: one argument -/

/-- the three outcomes of the conversion loop body, by the documented precedence -/
theorem convert_ok_iff (e : Element α) : (∃ st, convert e = .ok st) ↔ e.convertible = true := by
  unfold convert mkRun Element.convertible
  rw [isFillComputeEl_iff]
  cases hr : e.run <;> cases hc : e.call <;> cases hf : e.fill.callable <;> cases hp : e.compute.callable <;>
    simp [Attr.callable, Attr.present]

theorem convert_error (e : Element α) (err : Exc) (h : convert e = .error err) :
    err = .lenaTypeError ∧ e.convertible = false := by
  have hc : ¬ e.convertible = true := by
    intro hc
    obtain ⟨st, hst⟩ := (convert_ok_iff e).2 hc
    rw [hst] at h; cases h
  refine ⟨?_, by simpa using hc⟩
  unfold convert at h
  split at h
  · cases h
  · split at h
    · cases h
    · cases h; rfl

/-- a converted argument runs as the element's own stream transformation: none of the
`AttributeError`/`TypeError` branches of the `invoke…` functions is reachable -/
theorem convert_run (e : Element α) (st : Stored α) (h : convert e = .ok st) : st.run = e.den := by
  unfold convert at h
  by_cases h1 : e.run.callable = true
  · have hp := Attr.present_of_callable _ h1
    simp [h1, hp] at h
    subst h
    simp [Stored.run, Element.den, h1, invokeRun_of_callable e h1]
  · have h1' : e.run.callable = false := by simpa using h1
    simp only [h1', Bool.and_false, Bool.false_eq_true, if_false, mkRun] at h
    by_cases h2 : e.call = true
    · simp [h2] at h
      subst h
      simp [Stored.run, Element.den, h1', h2, invokeCall_of_call e h2]
    · have h2' : e.call = false := by simpa using h2
      simp only [h2', Bool.false_eq_true, if_false] at h
      by_cases h3 : isFillComputeEl e = true
      · simp [h3] at h
        subst h
        rw [isFillComputeEl_iff] at h3
        have hf : e.fill.callable = true := by
          cases hh : e.fill.callable <;> simp_all
        have hc : e.compute.callable = true := by
          cases hh : e.compute.callable <;> simp_all
        simp only [Stored.run, Element.den, h1', h2', Bool.false_eq_true, if_false]
        funext s
        exact fcLoop_eq_fcSpec e hf hc s.term s.vals []
      · simp [h3] at h

/-! ### composition of stages -/

/-- `composeS` is the monadic left fold: feed each stage with the output of the previous one -/
theorem composeS_eq_foldlM (ts : List (Stage α)) (s : Strm α) :
    composeS ts s = ts.foldlM (fun fl t => t fl) s := by
  induction ts generalizing s with
  | nil => rfl
  | cons t ts ih =>
    simp only [composeS, List.foldlM_cons, bind, Except.bind]
    cases t s with
    | error e => rfl
    | ok s' => exact ih s'

theorem composeS_append (a b : List (Stage α)) (s : Strm α) :
    composeS (a ++ b) s = (composeS a s >>= composeS b) := by
  induction a generalizing s with
  | nil => rfl
  | cons t ts ih =>
    simp only [List.cons_append, composeS]
    cases t s with
    | error e => rfl
    | ok s' => exact ih s'

theorem composeS_singleton (t : Stage α) : composeS [t] = t := by
  funext s
  simp only [composeS]
  cases t s <;> rfl

theorem composeS_map_foldlM (es : List (Element α)) (s : Strm α) :
    composeS (es.map Element.den) s = es.foldlM (fun fl e => e.den fl) s := by
  induction es generalizing s with
  | nil => rfl
  | cons e es ih =>
    simp only [List.map_cons, composeS, List.foldlM_cons, bind, Except.bind]
    cases e.den s with
    | error err => rfl
    | ok s' => exact ih s'

/-! ### `Sequence.__init__`: the whole loop -/

theorem convertAll_run : ∀ (es : List (Element α)) (ss : List (Stored α)), convertAll es = .ok ss →
    runStored ss = composeS (es.map Element.den)
  | [], ss, h => by
    simp [convertAll] at h; subst h
    funext s; rfl
  | e :: es, ss, h => by
    simp only [convertAll] at h
    cases hc : convert e with
    | error err => simp [hc] at h
    | ok st =>
      cases hr : convertAll es with
      | error err => simp [hc, hr] at h
      | ok ss' =>
        simp [hc, hr] at h
        subst h
        funext s
        simp only [runStored, List.map_cons, composeS, convert_run e st hc, convertAll_run es ss' hr]
        cases e.den s <;> rfl

theorem convertAll_ok_iff : ∀ (es : List (Element α)),
    (∃ ss, convertAll es = .ok ss) ↔ ∀ e ∈ es, e.convertible = true
  | [] => by simp [convertAll]
  | e :: es => by
    have ih := convertAll_ok_iff es
    simp only [convertAll, List.mem_cons, forall_eq_or_imp]
    rw [← convert_ok_iff e, ← ih]
    constructor
    · rintro ⟨ss, h⟩
      cases hc : convert e with
      | error err => simp [hc] at h
      | ok st =>
        cases hr : convertAll es with
        | error err => simp [hc, hr] at h
        | ok ss' => exact ⟨⟨st, rfl⟩, ⟨ss', rfl⟩⟩
    · rintro ⟨⟨st, hc⟩, ⟨ss', hr⟩⟩
      exact ⟨st :: ss', by simp [hc, hr]⟩

theorem convertAll_error : ∀ (es : List (Element α)) (err : Exc), convertAll es = .error err →
    err = .lenaTypeError ∧ ∃ e ∈ es, e.convertible = false
  | [], err, h => by simp [convertAll] at h
  | e :: es, err, h => by
    simp only [convertAll] at h
    cases hc : convert e with
    | error err' =>
      simp [hc] at h; subst h
      exact ⟨(convert_error e _ hc).1, e, by simp, (convert_error e _ hc).2⟩
    | ok st =>
      cases hr : convertAll es with
      | error err' =>
        simp [hc, hr] at h; subst h
        obtain ⟨h1, e', he', h2⟩ := convertAll_error es _ hr
        exact ⟨h1, e', by simp [he'], h2⟩
      | ok ss' => simp [hc, hr] at h

/-! ### the data elements of an argument list -/

/-- every argument that carries data can be converted -/
def okAll (es : List (Element α)) : Prop := ∀ e ∈ es, e.hasNoData = false → e.convertible = true

/-- the composition of the documented transformations of the data elements -/
def denAll (es : List (Element α)) : Stage α := composeS ((dataSeq es).map Element.den)

theorem mem_dataSeq (es : List (Element α)) (e : Element α) :
    e ∈ dataSeq es ↔ e ∈ es ∧ e.hasNoData = false := by
  simp [dataSeq]

theorem okAll_iff_dataSeq (es : List (Element α)) : okAll es ↔ ∀ e ∈ dataSeq es, e.convertible = true := by
  simp only [okAll, mem_dataSeq]
  constructor
  · intro h e he; exact h e he.1 he.2
  · intro h e he hd; exact h e ⟨he, hd⟩

theorem dataSeq_append (a b : List (Element α)) : dataSeq (a ++ b) = dataSeq a ++ dataSeq b := by
  simp [dataSeq]

theorem dataSeq_idem (a : List (Element α)) : dataSeq (dataSeq a) = dataSeq a := by
  simp [dataSeq]

theorem okAll_append (a b : List (Element α)) : okAll (a ++ b) ↔ okAll a ∧ okAll b := by
  simp only [okAll, List.mem_append]
  constructor
  · intro h; exact ⟨fun e he => h e (Or.inl he), fun e he => h e (Or.inr he)⟩
  · rintro ⟨h1, h2⟩ e (he | he)
    · exact h1 e he
    · exact h2 e he

theorem okAll_nil : okAll ([] : List (Element α)) := by simp [okAll]

theorem denAll_append (a b : List (Element α)) (s : Strm α) :
    denAll (a ++ b) s = (denAll a s >>= denAll b) := by
  simp only [denAll, dataSeq_append, List.map_append, composeS_append]

theorem denAll_nil (s : Strm α) : denAll ([] : List (Element α)) s = .ok s := rfl

theorem okAll_dataSeq (a : List (Element α)) : okAll (dataSeq a) ↔ okAll a := by
  rw [okAll_iff_dataSeq, okAll_iff_dataSeq, dataSeq_idem]

theorem denAll_dataSeq (a : List (Element α)) : denAll (dataSeq a) = denAll a := by
  simp [denAll, dataSeq_idem]

/-- `Sequence(*args)` succeeds exactly when every data argument is convertible, and then runs as
the composition of their transformations; otherwise it raises `LenaTypeError` -/
theorem mkSequence_ok (args : List (Element α)) (h : okAll args) :
    ∃ s, mkSequence args = .ok s ∧ s.run = denAll args ∧ s.nargs = args.length := by
  obtain ⟨ss, hss⟩ := (convertAll_ok_iff (dataSeq args)).2 ((okAll_iff_dataSeq args).1 h)
  refine ⟨{ nargs := args.length, stored := ss, argVals := args.filterMap (·.asValue) }, by simp [mkSequence, hss], ?_, rfl⟩
  exact convertAll_run _ _ hss

theorem mkSequence_not_ok (args : List (Element α)) (h : ¬ okAll args) :
    mkSequence args = .error .lenaTypeError := by
  unfold mkSequence
  cases hc : convertAll (dataSeq args) with
  | error err => simp [(convertAll_error _ _ hc).1]
  | ok ss =>
    exact absurd ((okAll_iff_dataSeq args).2 ((convertAll_ok_iff _).1 ⟨ss, hc⟩)) h

theorem mkSequence_ok_inv (args : List (Element α)) (s : Seq α) (h : mkSequence args = .ok s) :
    okAll args ∧ s.run = denAll args ∧ s.nargs = args.length := by
  by_cases ho : okAll args
  · obtain ⟨s', h1, h2, h3⟩ := mkSequence_ok args ho
    rw [h] at h1; cases h1
    exact ⟨ho, h2, h3⟩
  · rw [mkSequence_not_ok args ho] at h; cases h

theorem mkSequence_error_inv (args : List (Element α)) (err : Exc) (h : mkSequence args = .error err) :
    err = .lenaTypeError ∧ ¬ okAll args := by
  by_cases ho : okAll args
  · obtain ⟨s', h1, -⟩ := mkSequence_ok args ho
    rw [h] at h1; cases h1
  · rw [mkSequence_not_ok args ho] at h; cases h; exact ⟨rfl, ho⟩

/-! ### a constructed sequence as an element -/

theorem toElement_den (s : Seq α) : s.toElement.den = s.run := by
  simp [Seq.toElement, Element.den, Attr.callable]

theorem toElement_invokeRun (s : Seq α) : s.toElement.invokeRun = s.run := by
  funext fl; simp [Seq.toElement, Element.invokeRun]

theorem toElement_okAll (s : Seq α) : okAll [s.toElement] := by
  intro e he _
  simp at he; subst he
  simp [Seq.toElement, Element.convertible, Attr.callable]

theorem denAll_toElement (s : Seq α) : denAll [s.toElement] = s.run := by
  have : dataSeq [s.toElement] = [s.toElement] := by simp [dataSeq, Seq.toElement]
  simp [denAll, this, composeS_singleton, toElement_den]

theorem okAll_cons (e : Element α) (es : List (Element α)) : okAll (e :: es) ↔ okAll [e] ∧ okAll es := by
  have := okAll_append [e] es
  simpa using this

theorem denAll_cons (e : Element α) (es : List (Element α)) (s : Strm α) :
    denAll (e :: es) s = (denAll [e] s >>= denAll es) := by
  have := denAll_append [e] es s
  simpa using this

end Lena.C01
