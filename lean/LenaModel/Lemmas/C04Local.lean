import LenaModel.Lemmas.C04Alone
/-! # C04 — the concrete elements of the model: what they allocate, and that they are local -/
namespace Lena.C04
open Lena.C03 (Kind)
open Lena.Flow (Value)

/-! ## the monad of in-invocation code, pointwise -/

@[simp] theorem M.pure_run {α : Type} (a : α) (w : PW) : (pure a : M α).run w = (w, a) := rfl
@[simp] theorem M.bind_run {α β : Type} (k : M α) (g : α → M β) (w : PW) :
    (k >>= g).run w = (g (k.run w).2).run (k.run w).1 := rfl
@[simp] theorem allocM_run (ns : Nat) (c : Value) (w : PW) :
    (allocM ns c).run w = ({ st := w.st.set (ns, w.ctr) c, ctr := w.ctr + 1 }, (ns, w.ctr)) := rfl
@[simp] theorem readM_run (t : Tok) (w : PW) : (readM t).run w = (w, w.st t) := rfl
@[simp] theorem writeM_run (t : Tok) (v : Value) (w : PW) :
    (writeM t v).run w = ({ w with st := w.st.set t v }, ()) := rfl
@[simp] theorem updM_run (t : Tok) (f : Value → Value) (w : PW) :
    (updM t f).run w = ({ w with st := w.st.set t (f (w.st t)) }, ()) := rfl
@[simp] theorem copyM_run (ns : Nat) (t : Tok) (w : PW) :
    (copyM ns t).run w = ({ st := w.st.set (ns, w.ctr) (w.st t), ctr := w.ctr + 1 }, (ns, w.ctr)) := rfl
@[simp] theorem M.ite_run {α : Type} (c : Prop) [Decidable c] (f g : M α) (w : PW) :
    (if c then f else g).run w = if c then f.run w else g.run w := by
  split <;> rfl

/-! ## what the accumulators allocate -/

theorem curTok_spec (ns : Nat) (w : PW) (s : AccSt) :
    w.ctr ≤ ((curTok ns s).run w).1.ctr ∧ ((curTok ns s).run w).1.ctr ≤ w.ctr + 1 := by
  unfold curTok
  cases s.cur <;> simp

theorem getCtx_ctr (ns : Nat) (w : PW) (x : HItem) : w.ctr ≤ ((getCtx ns x).run w).1.ctr := by
  unfold getCtx
  cases x.ctxTok <;> simp

theorem accFill_ctr (ns : Nat) (k : AccKind) (w : PW) (s : AccSt) (x : HItem) :
    w.ctr ≤ ((accFill ns k s x).run w).1.ctr := by
  have := getCtx_ctr ns w x
  cases k
  case groupBy key =>
    simp only [accFill, M.bind_run]
    split <;> split <;> simp
  all_goals simp only [accFill, M.bind_run, M.pure_run, copyM_run]
  all_goals try exact this
  all_goals (try (split <;> simp <;> omega))
  all_goals simp

theorem copyM_fst_ctr (ns : Nat) (c : Tok) (w : PW) :
    ((copyM ns c).run w).1.ctr = w.ctr + 1 ∧ ((copyM ns c).run w).2 = (ns, w.ctr) := by simp
theorem updM_fst_ctr (t : Tok) (f : Value → Value) (w : PW) : ((updM t f).run w).1.ctr = w.ctr := by simp

/-- the loop of a multi-valued `compute()`: `k` new objects, one per value -/
theorem yieldCopies_spec (ns : Nat) (c : Tok) (mk : Tok → M HItem)
    (hmk : ∀ d w, ((mk d).run w).1 = w ∧ (((mk d).run w).2.cells = [] ∨ ((mk d).run w).2.cells = [d])) :
    ∀ (k : Nat) (w : PW),
      ((yieldCopies ns c mk k).run w).1.ctr = w.ctr + k ∧
      (∀ t ∈ cellsOf ((yieldCopies ns c mk k).run w).2, InRange ns w.ctr (w.ctr + k) t) ∧
      (cellsOf ((yieldCopies ns c mk k).run w).2).Nodup := by
  intro k
  induction k with
  | zero => intro w; simp [yieldCopies, cellsOf]
  | succ k ih =>
    intro w
    simp only [yieldCopies, M.bind_run, M.pure_run]
    obtain ⟨c1, c2⟩ := copyM_fst_ctr ns c w
    rw [c2]
    generalize ((copyM ns c).run w).1 = w1 at c1
    obtain ⟨m1, m2⟩ := hmk (ns, w.ctr) w1
    rw [m1]
    obtain ⟨i1, i2, i3⟩ := ih w1
    refine ⟨by rw [i1, c1]; omega, ?_, ?_⟩
    · intro t ht
      rw [cellsOf_cons] at ht
      rcases List.mem_append.mp ht with ht | ht
      · rcases m2 with m2 | m2
        · rw [m2] at ht; simp at ht
        · rw [m2] at ht; simp at ht; subst ht; exact ⟨rfl, Nat.le_refl _, by simp⟩
      · obtain ⟨g1, g2, g3⟩ := i2 t ht
        exact ⟨g1, by omega, by omega⟩
    · rw [cellsOf_cons, List.nodup_append]
      refine ⟨?_, i3, ?_⟩
      · rcases m2 with m2 | m2 <;> rw [m2] <;> simp
      · intro a ha b hb hab
        subst hab
        obtain ⟨_, g2, _⟩ := i2 a hb
        rcases m2 with m2 | m2
        · rw [m2] at ha; simp at ha
        · rw [m2] at ha; simp at ha; subst ha; simp at g2; omega

theorem yieldCounts_spec (ns : Nat) (c : Tok) (count : Nat) :
    ∀ (names : List String) (w : PW),
      ((yieldCounts ns c count names).run w).1.ctr = w.ctr + names.length ∧
      (∀ t ∈ cellsOf ((yieldCounts ns c count names).run w).2, InRange ns w.ctr (w.ctr + names.length) t) ∧
      (cellsOf ((yieldCounts ns c count names).run w).2).Nodup := by
  intro names
  induction names with
  | nil => intro w; simp [yieldCounts, cellsOf]
  | cons name rest ih =>
    intro w
    simp only [yieldCounts, M.bind_run, M.pure_run]
    obtain ⟨c1, c2⟩ := copyM_fst_ctr ns c w
    rw [c2]
    generalize ((copyM ns c).run w).1 = w1 at c1
    have u1 := updM_fst_ctr (ns, w.ctr) (fun v => Value.dict (Lena.Flow.dictSet (ctxOf v) name (Value.int count))) w1
    generalize ((updM (ns, w.ctr) (fun v => Value.dict (Lena.Flow.dictSet (ctxOf v) name (Value.int count)))).run w1).1 = w2 at u1
    obtain ⟨i1, i2, i3⟩ := ih w2
    refine ⟨by rw [i1, u1, c1]; simp; omega, ?_, ?_⟩
    · intro t ht
      rw [cellsOf_cons] at ht
      rcases List.mem_append.mp ht with ht | ht
      · simp [mkItem] at ht; subst ht; exact ⟨rfl, Nat.le_refl _, by simp⟩
      · obtain ⟨g1, g2, g3⟩ := i2 t ht
        exact ⟨g1, by omega, by simp only [List.length_cons]; omega⟩
    · rw [cellsOf_cons, List.nodup_append]
      refine ⟨by simp [mkItem], i3, ?_⟩
      intro a ha b hb hab
      subst hab
      obtain ⟨_, g2, _⟩ := i2 a hb
      simp [mkItem] at ha
      subst ha
      simp at g2; omega

theorem maybeWithContext_run (d : Value) (c : Tok) (w : PW) :
    ((maybeWithContext d c).run w).1 = w ∧
    (((maybeWithContext d c).run w).2.cells = [] ∨ ((maybeWithContext d c).run w).2.cells = [c]) := by
  simp only [maybeWithContext, M.bind_run, readM_run]
  split <;> simp [mkItem]

theorem accCompute_fresh (ns : Nat) (k : AccKind) (hk : k.fresh = true)
    (w : PW) (s : AccSt) :
    w.ctr ≤ ((accCompute ns k s).run w).1.ctr ∧
    (∀ t ∈ cellsOf ((accCompute ns k s).run w).2.2.outs, InRange ns w.ctr ((accCompute ns k s).run w).1.ctr t) ∧
    (cellsOf ((accCompute ns k s).run w).2.2.outs).Nodup := by
  have hc := curTok_spec ns w s
  cases k with
  | store => simp [AccKind.fresh] at hk
  | keepLast => simp [AccKind.fresh] at hk
  | reqStore => simp [AccKind.fresh] at hk
  | storeGroup => simp [AccKind.fresh] at hk
  | groupBy key => simp [AccKind.fresh] at hk
  | graph =>
    simp only [accCompute, M.bind_run, M.pure_run, copyM_run, updM_run, M.ite_run]
    split <;> simp [mkItem, cellsOf, InRange] <;> omega
  | vecMulti k =>
    simp only [accCompute, M.ite_run]
    split
    · simp [cellsOf]
    · simp only [M.bind_run, M.pure_run]
      generalize hw0 : (curTok ns s).run w = r0 at hc
      obtain ⟨y1, y2, y3⟩ := yieldCopies_spec ns r0.2 (maybeWithContext (.str "vec"))
        (fun d w => maybeWithContext_run _ d w) k r0.1
      refine ⟨by rw [y1]; omega, ?_, y3⟩
      intro t ht
      obtain ⟨g1, g2, g3⟩ := y2 t ht
      exact ⟨g1, by omega, by rw [y1]; exact g3⟩
  | sibMulti var lo hi k =>
    simp only [accCompute, M.bind_run, M.pure_run]
    generalize hw0 : (curTok ns s).run w = r0 at hc
    have u1 := updM_fst_ctr r0.2 (setVariable var) r0.1
    generalize ((updM r0.2 (setVariable var)).run r0.1).1 = w1 at u1
    obtain ⟨y1, y2, y3⟩ := yieldCopies_spec ns r0.2 (fun d => pure (mkItem (.str "hist") (some d)))
      (fun d w => by simp [mkItem]) k w1
    refine ⟨by rw [y1, u1]; omega, ?_, y3⟩
    intro t ht
    obtain ⟨g1, g2, g3⟩ := y2 t ht
    exact ⟨g1, by omega, by rw [y1]; exact g3⟩
  | meanCounts names =>
    simp only [accCompute, M.ite_run]
    split
    · simp [cellsOf]
    · simp only [M.bind_run, M.pure_run]
      generalize hw0 : (curTok ns s).run w = r0 at hc
      obtain ⟨c1, c2⟩ := copyM_fst_ctr ns r0.2 r0.1
      rw [c2]
      generalize ((copyM ns r0.2).run r0.1).1 = w1 at c1
      obtain ⟨m1, m2⟩ := maybeWithContext_run (.quot s.total s.count) (ns, r0.1.ctr) w1
      rw [m1]
      obtain ⟨y1, y2, y3⟩ := yieldCounts_spec ns r0.2 s.count names w1
      refine ⟨by rw [y1, c1]; omega, ?_, ?_⟩
      · intro t ht
        rw [cellsOf_cons] at ht
        rcases List.mem_append.mp ht with ht | ht
        · rcases m2 with m2 | m2
          · rw [m2] at ht; simp at ht
          · rw [m2] at ht; simp at ht; subst ht
            exact ⟨rfl, hc.1, by rw [y1, c1]; simp; omega⟩
        · obtain ⟨g1, g2, g3⟩ := y2 t ht
          exact ⟨g1, by omega, by rw [y1]; exact g3⟩
      · rw [cellsOf_cons, List.nodup_append]
        refine ⟨by rcases m2 with m2 | m2 <;> rw [m2] <;> simp, y3, ?_⟩
        intro a ha b hb hab
        subst hab
        obtain ⟨_, g2, _⟩ := y2 a hb
        rcases m2 with m2 | m2
        · rw [m2] at ha; simp at ha
        · rw [m2] at ha; simp at ha; subst ha; simp at g2; omega
  | vecList =>
    simp only [accCompute, maybeWithContext, M.ite_run]
    split
    · simp [cellsOf]
    · simp only [M.bind_run, M.pure_run, copyM_run, readM_run]
      split <;> simp [mkItem, cellsOf, InRange] <;> omega
  | sum =>
    simp only [accCompute, M.bind_run, readM_run]
    split
    · simp [mkItem, cellsOf]; exact hc.1
    · simp [mkItem, cellsOf, InRange]; omega
  | dsum =>
    simp only [accCompute, M.bind_run, readM_run]
    split
    · simp [mkItem, cellsOf]; exact hc.1
    · simp [mkItem, cellsOf, InRange]; omega
  | reqSum => simp [accCompute, mkItem, cellsOf, InRange]; omega
  | count name => simp [accCompute, mkItem, cellsOf, InRange]; omega
  | histogram => simp [accCompute, mkItem, cellsOf, InRange]; omega
  | numpyHist => simp [accCompute, mkItem, cellsOf, InRange]; omega
  | sib var lo hi => simp [accCompute, mkItem, cellsOf, InRange]; omega
  | vectorize dim =>
    simp only [accCompute, maybeWithContext, M.bind_run, M.pure_run, copyM_run, readM_run]
    split <;> simp [mkItem, cellsOf, InRange] <;> omega
  | vmc corrected poe =>
    simp only [accCompute, maybeWithContext, M.ite_run]
    split
    · split <;> simp [cellsOf]
    · split
      · simp [cellsOf]
      · simp only [M.bind_run, M.pure_run, copyM_run, readM_run]
        split <;> simp [mkItem, cellsOf, InRange] <;> omega
  | mean sumSeq poe =>
    simp only [accCompute, maybeWithContext, M.ite_run]
    split
    · split <;> simp [cellsOf]
    · rcases sumSeq with _ | _ | _ | name
      · simp only [M.bind_run, M.pure_run, copyM_run, readM_run]
        split <;> simp [mkItem, cellsOf, InRange] <;> omega
      · simp only [M.bind_run, M.pure_run, copyM_run, readM_run]
        split <;> simp [mkItem, cellsOf, InRange] <;> omega
      · simp only [M.bind_run, M.pure_run, copyM_run, readM_run]
        split <;> simp [mkItem, cellsOf, InRange] <;> omega
      · simp only [M.bind_run, M.pure_run, copyM_run, readM_run, updM_run]
        split <;> simp [mkItem, cellsOf, InRange] <;> omega

/-! ## local computations -/

/-- two private worlds that look the same on the set `F` of objects -/
def PWAgree (F : Tok → Prop) (w₁ w₂ : PW) : Prop := w₁.ctr = w₂.ctr ∧ ∀ t, F t → w₁.st t = w₂.st t

/-- a piece of code that touches only objects of `F` (writes nothing else, behaves the same in two
worlds that agree on `F`) and whose result satisfies `Q` -/
structure LC {α : Type} (F : Tok → Prop) (lo : Nat) (Q : α → Prop) (k : M α) : Prop where
  mono : ∀ w, lo ≤ w.ctr → w.ctr ≤ (k.run w).1.ctr
  frame : ∀ w, lo ≤ w.ctr → ∀ t, ¬ F t → (k.run w).1.st t = w.st t
  agree : ∀ w₁ w₂, lo ≤ w₁.ctr → PWAgree F w₁ w₂ →
    (k.run w₁).2 = (k.run w₂).2 ∧ PWAgree F (k.run w₁).1 (k.run w₂).1
  post : ∀ w, lo ≤ w.ctr → Q (k.run w).2

variable {F : Tok → Prop} {ns lo : Nat} {α β : Type}

theorem LC.pure {Q : α → Prop} (a : α) (ha : Q a) : LC F lo Q (pure a : M α) :=
  ⟨fun _ _ => Nat.le_refl _, fun _ _ _ _ => rfl, fun _ _ _ h => ⟨rfl, h⟩, fun _ _ => ha⟩

theorem LC.bind {Q : α → Prop} {R : β → Prop} {k : M α} {g : α → M β}
    (h₁ : LC F lo Q k) (h₂ : ∀ a, Q a → LC F lo R (g a)) : LC F lo R (k >>= g) := by
  refine ⟨fun w hw => ?_, fun w hw t ht => ?_, fun w₁ w₂ hw h => ?_, fun w hw => ?_⟩
  · have hw' : lo ≤ (k.run w).1.ctr := Nat.le_trans hw (h₁.mono w hw)
    rw [M.bind_run]
    exact Nat.le_trans (h₁.mono w hw) ((h₂ _ (h₁.post w hw)).mono _ hw')
  · have hw' : lo ≤ (k.run w).1.ctr := Nat.le_trans hw (h₁.mono w hw)
    rw [M.bind_run, (h₂ _ (h₁.post w hw)).frame _ hw' t ht, h₁.frame w hw t ht]
  · obtain ⟨a1, a2⟩ := h₁.agree w₁ w₂ hw h
    have hw' : lo ≤ (k.run w₁).1.ctr := Nat.le_trans hw (h₁.mono w₁ hw)
    have hw2 : lo ≤ w₂.ctr := by rw [← h.1]; exact hw
    rw [M.bind_run, M.bind_run, a1]
    exact (h₂ _ (h₁.post w₂ hw2)).agree _ _ hw' a2
  · have hw' : lo ≤ (k.run w).1.ctr := Nat.le_trans hw (h₁.mono w hw)
    rw [M.bind_run]
    exact (h₂ _ (h₁.post w hw)).post _ hw'

theorem LC.weaken {Q Q' : α → Prop} {k : M α} (h : LC F lo Q k) (hq : ∀ a, Q a → Q' a) : LC F lo Q' k :=
  ⟨h.mono, h.frame, h.agree, fun w hw => hq _ (h.post w hw)⟩

theorem LC.alloc (hns : ∀ n, lo ≤ n → F (ns, n)) (c : Value) : LC F lo F (allocM ns c) := by
  refine ⟨fun w _ => by simp, fun w hw t ht => ?_, fun w₁ w₂ _ h => ?_, fun w hw => hns _ hw⟩
  · simp only [allocM_run]
    exact Store.set_ne _ _ (fun heq => ht (heq ▸ hns _ hw))
  · obtain ⟨h1, h2⟩ := h
    refine ⟨by simp [h1], by simp [h1], fun t ht => ?_⟩
    simp only [allocM_run, Store.set, h1]
    split
    · rfl
    · exact h2 t ht

/-- the content of an object of `F` -/
theorem LC.read (t₀ : Tok) (h₀ : F t₀) : LC F lo (fun _ => True) (readM t₀) :=
  ⟨fun _ _ => Nat.le_refl _, fun _ _ _ _ => rfl, fun _ _ _ h => ⟨h.2 t₀ h₀, h⟩, fun _ _ => trivial⟩

/-- an object of `F` gets a new content -/
theorem LC.write (t₀ : Tok) (h₀ : F t₀) (v : Value) : LC F lo (fun _ => True) (writeM t₀ v) := by
  refine ⟨fun w _ => Nat.le_refl _, fun w _ t ht => ?_, fun w₁ w₂ _ h => ?_, fun _ _ => trivial⟩
  · simp only [writeM_run]
    exact Store.set_ne _ _ (fun heq => ht (heq ▸ h₀))
  · obtain ⟨h1, h2⟩ := h
    refine ⟨rfl, h1, fun t ht => ?_⟩
    simp only [writeM_run, Store.set]
    split
    · rfl
    · exact h2 t ht

theorem LC.upd (t₀ : Tok) (h₀ : F t₀) (f : Value → Value) : LC F lo (fun _ => True) (updM t₀ f) :=
  LC.bind (LC.read t₀ h₀) (fun v _ => LC.write t₀ h₀ (f v))

theorem LC.copy (hns : ∀ n, lo ≤ n → F (ns, n)) (t₀ : Tok) (h₀ : F t₀) : LC F lo F (copyM ns t₀) :=
  LC.bind (LC.read t₀ h₀) (fun v _ => LC.alloc hns v)

/-! ## the elements of the model are local -/

/-- all objects of a value are in `F` -/
def ItemIn (F : Tok → Prop) (x : HItem) : Prop := ∀ t ∈ x.cells, F t

theorem ctxTok_mem {x : HItem} {c : Tok} (h : x.ctxTok = some c) : c ∈ x.cells := by
  unfold HItem.ctxTok at h
  split at h
  · exact List.mem_of_getLast? h
  · simp at h

theorem dataTok_mem {x : HItem} {c : Tok} (h : x.dataTok = some c) : c ∈ x.cells := by
  unfold HItem.dataTok at h
  split at h
  · exact List.mem_of_head? h
  · simp at h

theorem withCtx_in {x : HItem} {c : Tok} (hx : ItemIn F x) (hc : F c) : ItemIn F (x.withCtx c) := by
  intro t ht
  simp only [HItem.withCtx, List.mem_append, Option.mem_toList, List.mem_singleton] at ht
  rcases ht with ht | rfl
  · exact hx t (dataTok_mem ht)
  · exact hc

theorem mkItem_in {d : Value} {c : Option Tok} (hc : ∀ t, c = some t → F t) : ItemIn F (mkItem d c) := by
  intro t ht
  simp only [mkItem, Option.mem_toList] at ht
  exact hc t ht

theorem getCtx_lc (hns : ∀ n, lo ≤ n → F (ns, n)) (x : HItem) (hx : ItemIn F x) : LC F lo F (getCtx ns x) := by
  unfold getCtx
  cases h : x.ctxTok with
  | some c => exact LC.pure c (hx c (ctxTok_mem h))
  | none => exact LC.alloc hns _

theorem curTok_lc (hns : ∀ n, lo ≤ n → F (ns, n)) (s : AccSt) (hs : ∀ t ∈ s.refs, F t) : LC F lo F (curTok ns s) := by
  unfold curTok
  cases h : s.cur with
  | some c => exact LC.pure c (hs c (by simp [AccSt.refs, h]))
  | none => exact LC.alloc hns _

theorem maybeWithContext_lc (d : Value) (c : Tok) (hc : F c) : LC F lo (ItemIn F) (maybeWithContext d c) := by
  unfold maybeWithContext
  refine LC.bind (LC.read c hc) (fun v _ => ?_)
  split
  · exact LC.pure _ (mkItem_in (by simp))
  · exact LC.pure _ (mkItem_in (by intro t ht; simp at ht; subst ht; exact hc))


/-- the objects an accumulator state refers to are in `F` -/
def RefsIn (F : Tok → Prop) (s : AccSt) : Prop := ∀ t ∈ s.refs, F t

theorem refsIn_mk {total : Int} {count : Nat} {cur : Option Tok} {group : List HItem}
    {groups : List (Option Value × Tok × List HItem)}
    (hc : ∀ t, cur = some t → F t) (hg : ∀ t ∈ cellsOf group, F t) (hgs : ∀ t ∈ groupsCells groups, F t) :
    RefsIn F ⟨total, count, cur, group, groups⟩ := by
  intro t ht
  simp only [AccSt.refs, List.mem_append, Option.mem_toList] at ht
  rcases ht with (ht | ht) | ht
  · exact hc t ht
  · exact hg t ht
  · exact hgs t ht

theorem RefsIn.groups {s : AccSt} (h : RefsIn F s) : ∀ t ∈ groupsCells s.groups, F t :=
  fun t ht => h t (by simp only [AccSt.refs, List.mem_append]; exact Or.inr ht)

theorem groupsCells_append (a b : List (Option Value × Tok × List HItem)) :
    groupsCells (a ++ b) = groupsCells a ++ groupsCells b := by
  induction a with
  | nil => rfl
  | cons g r ih => simp [groupsCells, ih, List.append_assoc]

theorem groupsCells_cons (g : Option Value × Tok × List HItem) (r : List (Option Value × Tok × List HItem)) :
    groupsCells (g :: r) = g.2.1 :: cellsOf g.2.2 ++ groupsCells r := rfl

theorem groupsCells_groupAppend (k : Option Value) (x : HItem) : ∀ (gs : List (Option Value × Tok × List HItem)) (t : Tok),
    t ∈ groupsCells (groupAppend k x gs) → t ∈ groupsCells gs ∨ t ∈ x.cells := by
  intro gs
  induction gs with
  | nil => intro t ht; simp [groupAppend, groupsCells] at ht
  | cons g r ih =>
    intro t ht
    simp only [groupAppend] at ht
    split at ht
    · rw [groupsCells_cons] at ht ⊢
      simp only [cellsOf_append, List.mem_cons, List.mem_append, cellsOf_cons, cellsOf_nil,
        List.append_nil] at ht ⊢
      rcases ht with (ht | ht | ht) | ht
      · exact Or.inl (Or.inl (Or.inl ht))
      · exact Or.inl (Or.inl (Or.inr ht))
      · exact Or.inr ht
      · exact Or.inl (Or.inr ht)
    · rw [groupsCells_cons] at ht ⊢
      simp only [List.mem_cons, List.mem_append] at ht ⊢
      rcases ht with (ht | ht) | ht
      · exact Or.inl (Or.inl (Or.inl ht))
      · exact Or.inl (Or.inl (Or.inr ht))
      · rcases ih t ht with h | h
        · exact Or.inl (Or.inr h)
        · exact Or.inr h

theorem cellsOf_mkGroups : ∀ (gs : List (Option Value × Tok × List HItem)),
    cellsOf (gs.map (fun g => mkGroup g.2.1 g.2.2)) = groupsCells gs := by
  intro gs
  induction gs with
  | nil => rfl
  | cons g r ih =>
    rw [List.map_cons, cellsOf_cons, ih]
    simp [groupsCells, mkGroup]

theorem RefsIn.cur {s : AccSt} (h : RefsIn F s) : ∀ t, s.cur = some t → F t :=
  fun t ht => h t (by simp [AccSt.refs, ht])

theorem RefsIn.group {s : AccSt} (h : RefsIn F s) : ∀ t ∈ cellsOf s.group, F t :=
  fun t ht => h t (by simp only [AccSt.refs, List.mem_append]; exact Or.inl (Or.inr ht))

theorem some_inj_F {c : Tok} (hc : F c) : ∀ t, some c = some t → F t := by
  intro t ht; simp at ht; subst ht; exact hc

theorem accFill_lc (hns : ∀ n, lo ≤ n → F (ns, n)) (k : AccKind) (s : AccSt) (hs : RefsIn F s) (x : HItem)
    (hx : ItemIn F x) : LC F lo (RefsIn F) (accFill ns k s x) := by
  have g := getCtx_lc hns x hx
  cases k <;> simp only [accFill]
  case sum => exact LC.bind g (fun c hc => LC.pure _ (refsIn_mk (some_inj_F hc) hs.group hs.groups))
  case dsum => exact LC.bind g (fun c hc => LC.pure _ (refsIn_mk (some_inj_F hc) hs.group hs.groups))
  case reqSum => exact LC.bind g (fun c hc => LC.pure _ (refsIn_mk (some_inj_F hc) hs.group hs.groups))
  case count => exact LC.bind g (fun c hc => LC.pure _ (refsIn_mk (some_inj_F hc) hs.group hs.groups))
  case mean => exact LC.bind g (fun c hc => LC.pure _ (refsIn_mk (some_inj_F hc) hs.group hs.groups))
  case vmc => exact LC.bind g (fun c hc => LC.pure _ (refsIn_mk (some_inj_F hc) hs.group hs.groups))
  case vectorize => exact LC.bind g (fun c hc => LC.pure _ (refsIn_mk (some_inj_F hc) hs.group hs.groups))
  case histogram => exact LC.bind g (fun c hc => LC.pure _ (refsIn_mk (some_inj_F hc) hs.group hs.groups))
  case numpyHist => exact LC.bind g (fun c hc => LC.pure _ (refsIn_mk (some_inj_F hc) hs.group hs.groups))
  case sib var lo hi =>
    refine LC.bind g (fun c hc => LC.bind (LC.copy hns c hc) (fun d hd => ?_))
    split
    · exact LC.pure _ hs
    · exact LC.pure _ (refsIn_mk (some_inj_F hd) hs.group hs.groups)
  case vecList => exact LC.bind g (fun c hc => LC.pure _ (refsIn_mk (some_inj_F hc) hs.group hs.groups))
  case vecMulti => exact LC.bind g (fun c hc => LC.pure _ (refsIn_mk (some_inj_F hc) hs.group hs.groups))
  case meanCounts => exact LC.bind g (fun c hc => LC.pure _ (refsIn_mk (some_inj_F hc) hs.group hs.groups))
  case sibMulti var lo hi k =>
    refine LC.bind g (fun c hc => LC.bind (LC.copy hns c hc) (fun d hd => ?_))
    split
    · exact LC.pure _ hs
    · exact LC.pure _ (refsIn_mk (some_inj_F hd) hs.group hs.groups)
  case graph => exact LC.bind g (fun c hc => LC.pure _ (refsIn_mk (some_inj_F hc) hs.group hs.groups))
  case groupBy key =>
    have hk : LC F lo (fun _ => True) (match x.ctxTok with
        | some c => do
          let v ← readM c
          pure ((ctxOf v).lookup key)
        | none => pure none : M (Option Value)) := by
      cases h : x.ctxTok with
      | some c => exact LC.bind (LC.read c (hx c (ctxTok_mem h))) (fun v _ => LC.pure _ trivial)
      | none => exact LC.pure _ trivial
    refine LC.bind hk (fun k _ => ?_)
    split
    · refine LC.pure _ (refsIn_mk hs.cur hs.group ?_)
      intro t ht
      rcases groupsCells_groupAppend k x s.groups t ht with h | h
      · exact hs.groups t h
      · exact hx t h
    · refine LC.bind (LC.alloc hns _) (fun l hl => LC.pure _ (refsIn_mk hs.cur hs.group ?_))
      intro t ht
      rw [groupsCells_append] at ht
      rcases List.mem_append.mp ht with ht | ht
      · exact hs.groups t ht
      · simp only [groupsCells, cellsOf_cons, cellsOf_nil, List.append_nil, List.mem_cons, List.mem_append,
          List.not_mem_nil, or_false] at ht
        rcases ht with rfl | ht
        · exact hl
        · exact hx t ht
  all_goals
    refine LC.pure _ (refsIn_mk hs.cur ?_ hs.groups)
    intro t ht
    rw [cellsOf_append] at ht
    rcases List.mem_append.mp ht with ht | ht
    · exact hs.group t ht
    · exact hx t (by simpa [cellsOf] using ht)

theorem yieldCopies_lc (hns : ∀ n, lo ≤ n → F (ns, n)) (c : Tok) (hc : F c) (mk : Tok → M HItem)
    (hmk : ∀ d, F d → LC F lo (ItemIn F) (mk d)) : ∀ k, LC F lo (fun ys : List HItem => ∀ t ∈ cellsOf ys, F t) (yieldCopies ns c mk k) := by
  intro k
  induction k with
  | zero => exact LC.pure _ (by intro t ht; simp [cellsOf] at ht)
  | succ k ih =>
    simp only [yieldCopies]
    refine LC.bind (LC.copy hns c hc) (fun d hd => LC.bind (hmk d hd) (fun y hy => LC.bind ih (fun r hr => LC.pure _ ?_)))
    intro t ht
    rw [cellsOf_cons] at ht
    rcases List.mem_append.mp ht with ht | ht
    · exact hy t ht
    · exact hr t ht

theorem yieldCounts_lc (hns : ∀ n, lo ≤ n → F (ns, n)) (c : Tok) (hc : F c) (count : Nat) :
    ∀ names, LC F lo (fun ys : List HItem => ∀ t ∈ cellsOf ys, F t) (yieldCounts ns c count names) := by
  intro names
  induction names with
  | nil => exact LC.pure _ (by intro t ht; simp [cellsOf] at ht)
  | cons name rest ih =>
    simp only [yieldCounts]
    refine LC.bind (LC.copy hns c hc) (fun e he => LC.bind (LC.upd e he _) (fun _ _ => LC.bind ih (fun r hr => LC.pure _ ?_)))
    intro t ht
    rw [cellsOf_cons] at ht
    rcases List.mem_append.mp ht with ht | ht
    · exact mkItem_in (some_inj_F he) t ht
    · exact hr t ht

/-- what `compute`/`request` returns: a state and values that refer to objects of `F` only -/
def CompIn (F : Tok → Prop) (r : AccSt × Resp Skel) : Prop := RefsIn F r.1 ∧ ∀ t ∈ cellsOf r.2.outs, F t

theorem compIn_one {s : AccSt} {y : HItem} (hs : RefsIn F s) (hy : ItemIn F y) :
    CompIn F (s, { outs := [y] }) :=
  ⟨hs, by intro t ht; exact hy t (by simpa [cellsOf] using ht)⟩

theorem compIn_nil {s : AccSt} (hs : RefsIn F s) (e : Option String) : CompIn F (s, { err := e }) :=
  ⟨hs, by intro t ht; simp [cellsOf] at ht⟩

theorem accCompute_lc (hns : ∀ n, lo ≤ n → F (ns, n)) (k : AccKind) (s : AccSt) (hs : RefsIn F s) :
    LC F lo (CompIn F) (accCompute ns k s) := by
  have g := curTok_lc hns s hs
  have one : ∀ (c d : Tok) (v : Value), F c → F d →
      CompIn F (({ s with cur := some c } : AccSt), { outs := [mkItem v (some d)] }) :=
    fun c d v hc hd => compIn_one (refsIn_mk (some_inj_F hc) hs.group hs.groups) (mkItem_in (some_inj_F hd))
  cases k <;> simp only [accCompute]
  case sum =>
    refine LC.bind g (fun c hc => LC.bind (LC.read c hc) (fun v _ => ?_))
    split
    · exact LC.pure _ (compIn_one (refsIn_mk (some_inj_F hc) hs.group hs.groups) (mkItem_in (by simp)))
    · exact LC.bind (LC.copy hns c hc) (fun d hd => LC.pure _ (one c d _ hc hd))
  case dsum =>
    refine LC.bind g (fun c hc => LC.bind (LC.read c hc) (fun v _ => ?_))
    split
    · exact LC.pure _ (compIn_one (refsIn_mk (some_inj_F hc) hs.group hs.groups) (mkItem_in (by simp)))
    · exact LC.bind (LC.copy hns c hc) (fun d hd => LC.pure _ (one c d _ hc hd))
  case reqSum =>
    exact LC.bind g (fun c hc => LC.bind (LC.copy hns c hc) (fun d hd => LC.pure _ (one c d _ hc hd)))
  case count name =>
    exact LC.bind g (fun c hc => LC.bind (LC.upd c hc _) (fun _ _ =>
      LC.bind (LC.copy hns c hc) (fun d hd => LC.pure _ (one c d _ hc hd))))
  case histogram =>
    exact LC.bind g (fun c hc => LC.bind (LC.copy hns c hc) (fun d hd => LC.pure _ (one c d _ hc hd)))
  case numpyHist =>
    exact LC.bind g (fun c hc => LC.bind (LC.copy hns c hc) (fun d hd => LC.bind (LC.upd d hd _) (fun _ _ =>
      LC.pure _ (one c d _ hc hd))))
  case sib var lo hi =>
    exact LC.bind g (fun c hc => LC.bind (LC.upd c hc _) (fun _ _ =>
      LC.bind (LC.copy hns c hc) (fun d hd => LC.pure _ (one c d _ hc hd))))
  case vectorize dim =>
    exact LC.bind g (fun c hc => LC.bind (LC.copy hns c hc) (fun d hd =>
      LC.bind (maybeWithContext_lc _ d hd) (fun y hy =>
        LC.pure _ (compIn_one (refsIn_mk (some_inj_F hc) hs.group hs.groups) hy))))
  case vmc corrected poe =>
    split
    · split
      · exact LC.pure _ (compIn_nil hs none)
      · exact LC.pure _ (compIn_nil hs _)
    · split
      · exact LC.pure _ (compIn_nil hs _)
      · exact LC.bind g (fun c hc => LC.bind (LC.copy hns c hc) (fun d hd =>
          LC.bind (maybeWithContext_lc _ d hd) (fun y hy =>
            LC.pure _ (compIn_one (refsIn_mk (some_inj_F hc) hs.group hs.groups) hy))))
  case mean sumSeq poe =>
    split
    · split
      · exact LC.pure _ (compIn_nil hs none)
      · exact LC.pure _ (compIn_nil hs _)
    · refine LC.bind g (fun c hc => LC.bind (LC.copy hns c hc) (fun d hd =>
          LC.bind (maybeWithContext_lc _ d hd) (fun y hy => ?_)))
      split
      · refine LC.bind (LC.copy hns c hc) (fun e he => LC.bind (LC.upd e he _) (fun _ _ => LC.pure _ ⟨refsIn_mk (some_inj_F hc) hs.group hs.groups, ?_⟩))
        intro t ht
        simp only [cellsOf, List.flatMap_cons, List.flatMap_nil, List.append_nil, List.mem_append] at ht
        rcases ht with ht | ht
        · exact hy t ht
        · exact mkItem_in (some_inj_F he) t ht
      · exact LC.pure _ (compIn_one (refsIn_mk (some_inj_F hc) hs.group hs.groups) hy)
  case vecMulti k =>
    split
    · exact LC.pure _ (compIn_nil hs _)
    · exact LC.bind g (fun c hc => LC.bind (yieldCopies_lc hns c hc _ (fun d hd => maybeWithContext_lc _ d hd) k)
        (fun ys hys => LC.pure _ ⟨refsIn_mk (some_inj_F hc) hs.group hs.groups, hys⟩))
  case sibMulti var lo hi k =>
    exact LC.bind g (fun c hc => LC.bind (LC.upd c hc _) (fun _ _ =>
      LC.bind (yieldCopies_lc hns c hc _ (fun d hd => LC.pure _ (mkItem_in (some_inj_F hd))) k)
        (fun ys hys => LC.pure _ ⟨refsIn_mk (some_inj_F hc) hs.group hs.groups, hys⟩)))
  case meanCounts names =>
    split
    · exact LC.pure _ (compIn_nil hs _)
    · refine LC.bind g (fun c hc => LC.bind (LC.copy hns c hc) (fun d hd =>
        LC.bind (maybeWithContext_lc _ d hd) (fun y hy => LC.bind (yieldCounts_lc hns c hc s.count names)
          (fun r hr => LC.pure _ ⟨refsIn_mk (some_inj_F hc) hs.group hs.groups, ?_⟩))))
      intro t ht
      rw [cellsOf_cons] at ht
      rcases List.mem_append.mp ht with ht | ht
      · exact hy t ht
      · exact hr t ht
  case store => exact LC.pure _ ⟨hs, hs.group⟩
  case keepLast =>
    refine LC.pure _ ⟨hs, ?_⟩
    intro t ht
    cases hl : s.group.getLast? with
    | none => simp [hl, cellsOf] at ht
    | some y =>
      simp only [hl, Option.toList_some, cellsOf, List.flatMap_cons, List.flatMap_nil, List.append_nil] at ht
      exact hs.group t (by simp only [cellsOf, List.mem_flatMap]; exact ⟨y, List.mem_of_getLast? hl, ht⟩)
  case reqStore => exact LC.pure _ ⟨refsIn_mk hs.cur (by intro t ht; simp [cellsOf] at ht) hs.groups, hs.group⟩
  case vecList =>
    split
    · exact LC.pure _ (compIn_nil hs _)
    · exact LC.bind g (fun c hc => LC.bind (LC.copy hns c hc) (fun d hd =>
        LC.bind (maybeWithContext_lc _ d hd) (fun y hy =>
          LC.pure _ (compIn_one (refsIn_mk (some_inj_F hc) hs.group hs.groups) hy))))
  case graph =>
    refine LC.bind g (fun c hc => LC.bind (LC.copy hns c hc) (fun d hd => LC.bind (LC.upd d hd _) (fun _ _ =>
      LC.bind (Q := fun _ => True) ?_ (fun _ _ => LC.pure _ (one c d _ hc hd)))))
    split
    · exact LC.pure _ trivial
    · exact LC.upd d hd _
  case storeGroup =>
    refine LC.bind (LC.alloc hns _) (fun l hl => LC.pure _ ⟨hs, ?_⟩)
    intro t ht
    simp only [cellsOf_cons, cellsOf_nil, List.append_nil, mkGroup, List.mem_cons] at ht
    rcases ht with rfl | ht
    · exact hl
    · exact hs.group t ht
  case groupBy key =>
    refine LC.pure _ ⟨hs, ?_⟩
    intro t ht
    rw [cellsOf_mkGroups] at ht
    exact hs.groups t ht


/-- the value that goes on (if any) refers to objects of `F` only -/
def StepIn (F : Tok → Prop) (r : Nat × Option HItem) : Prop := ∀ y, r.2 = some y → ItemIn F y

theorem stepIn_some {n : Nat} {y : HItem} (hy : ItemIn F y) : StepIn F (n, some y) := by
  intro y' h; simp at h; subst h; exact hy

theorem applyStep_lc (hns : ∀ n, lo ≤ n → F (ns, n)) (e : Step) (n : Nat) (x : HItem) (hx : ItemIn F x) :
    LC F lo (StepIn F) (applyStep ns e n x) := by
  have g := getCtx_lc hns x hx
  cases e <;> simp only [applyStep]
  case var name =>
    refine LC.bind g (fun c hc => LC.bind (LC.upd c hc _) (fun _ _ => LC.pure _ (stepIn_some ?_)))
    exact withCtx_in (x := { x with skel := { x.skel with data := getter x.skel.data } }) hx hc
  case upd key v =>
    exact LC.bind g (fun c hc => LC.bind (LC.upd c hc _) (fun _ _ => LC.pure _ (stepIn_some (withCtx_in hx hc))))
  case mkfn name =>
    refine LC.bind g (fun c hc => LC.bind (LC.read c hc) (fun v _ => ?_))
    split
    · exact LC.pure _ (stepIn_some hx)
    · exact LC.bind (LC.write c hc _) (fun _ _ => LC.pure _ (stepIn_some (withCtx_in hx hc)))
  case tag name =>
    exact LC.bind g (fun c hc => LC.bind (LC.upd c hc _) (fun _ _ => LC.pure _ (stepIn_some (withCtx_in hx hc))))
  case app v =>
    split
    · rename_i d hd
      exact LC.bind (LC.upd d (hx d (dataTok_mem hd)) _) (fun _ _ => LC.pure _ (stepIn_some hx))
    · exact LC.pure _ (stepIn_some hx)
  case setd key v =>
    split
    · rename_i d hd
      exact LC.bind (LC.upd d (hx d (dataTok_mem hd)) _) (fun _ _ => LC.pure _ (stepIn_some hx))
    · exact LC.pure _ (stepIn_some hx)
  case count name =>
    exact LC.bind g (fun c hc => LC.bind (LC.upd c hc _) (fun _ _ => LC.pure _ (stepIn_some (withCtx_in hx hc))))
  case stop m =>
    split
    · exact LC.pure _ (by intro y h; simp at h)
    · exact LC.pure _ (stepIn_some hx)
  case emit => exact LC.pure _ (stepIn_some hx)
  case touch v =>
    split
    · rename_i d hd
      exact LC.bind (LC.upd d (hx d (dataTok_mem hd)) _) (fun _ _ => LC.pure _ (stepIn_some hx))
    · exact LC.pure _ (stepIn_some hx)
  case touchc v =>
    exact LC.bind g (fun c hc => LC.bind (LC.upd c hc _) (fun _ _ => LC.pure _ (stepIn_some (withCtx_in hx hc))))

/-- the value that reaches the end of a fill sequence -/
def ChainIn (F : Tok → Prop) (r : List Nat × Option HItem) : Prop := ∀ y, r.2 = some y → ItemIn F y

theorem applySteps_lc (hns : ∀ n, lo ≤ n → F (ns, n)) : ∀ (es : List Step) (cs : List Nat) (x : HItem), ItemIn F x →
    LC F lo (ChainIn F) (applySteps ns es cs x) := by
  intro es
  induction es with
  | nil =>
    intro cs x hx
    exact LC.pure _ (by intro y h; simp at h; subst h; exact hx)
  | cons e es ih =>
    intro cs x hx
    simp only [applySteps]
    refine LC.bind (applyStep_lc hns e _ x hx) (fun a ha => ?_)
    split
    · exact LC.pure _ (by intro y h; simp at h)
    · rename_i y hy
      exact LC.bind (ih cs.tail y (ha y hy)) (fun r hr => LC.pure _ hr)

/-- values that refer to objects of `F` only -/
def ItemsIn (F : Tok → Prop) (ys : List HItem) : Prop := ∀ t ∈ cellsOf ys, F t

theorem runSteps_lc (hns : ∀ n, lo ≤ n → F (ns, n)) (steps : List Step) : ∀ (buf : List HItem) (cs : List Nat),
    ItemsIn F buf → LC F lo (fun r : List Nat × List HItem => ItemsIn F r.2) (runSteps ns steps cs buf) := by
  intro buf
  induction buf with
  | nil => intro cs _; exact LC.pure _ (by intro t ht; simp [cellsOf] at ht)
  | cons x xs ih =>
    intro cs hb
    have hx : ItemIn F x := fun t ht => hb t (by rw [cellsOf_cons]; exact List.mem_append_left _ ht)
    have hxs : ItemsIn F xs := fun t ht => hb t (by rw [cellsOf_cons]; exact List.mem_append_right _ ht)
    simp only [runSteps]
    refine LC.bind (applySteps_lc hns steps cs x hx) (fun r hr => LC.bind (ih r.1 hxs) (fun q hq => LC.pure _ ?_))
    intro t ht
    rw [cellsOf_append] at ht
    rcases List.mem_append.mp ht with ht | ht
    · cases h2 : r.2 with
      | none => simp [h2, cellsOf] at ht
      | some y =>
        simp only [h2, Option.toList_some, cellsOf, List.flatMap_cons, List.flatMap_nil, List.append_nil] at ht
        exact hr y h2 t ht
    · exact hq t ht

theorem mem_of_mem_dropLast' {α : Type} {l : List α} {a : α} (h : a ∈ l.dropLast) : a ∈ l := by
  rw [List.dropLast_eq_take] at h
  exact List.mem_of_mem_take h

theorem countAtEnd_lc (hns : ∀ n, lo ≤ n → F (ns, n)) (name : String) (count : Nat) (ys : List HItem)
    (hys : ItemsIn F ys) : LC F lo (ItemsIn F) (countAtEnd ns name count ys) := by
  unfold countAtEnd
  split
  · exact LC.pure _ hys
  · rename_i y hy
    have hyin : ItemIn F y := fun t ht => hys t (by
      simp only [cellsOf, List.mem_flatMap]; exact ⟨y, List.mem_of_getLast? hy, ht⟩)
    refine LC.bind (getCtx_lc hns y hyin) (fun c hc => LC.bind (LC.upd c hc _) (fun _ _ => LC.pure _ ?_))
    intro t ht
    rw [cellsOf_append] at ht
    rcases List.mem_append.mp ht with ht | ht
    · simp only [cellsOf, List.mem_flatMap] at ht
      obtain ⟨z, hz, htz⟩ := ht
      exact hys t (by simp only [cellsOf, List.mem_flatMap]; exact ⟨z, mem_of_mem_dropLast' hz, htz⟩)
    · exact withCtx_in hyin hc t (by simpa [cellsOf] using ht)

theorem mkSrc_lc (hns : ∀ n, lo ≤ n → F (ns, n)) (total : Nat) : ∀ (j : Nat) (acc : List HItem), ItemsIn F acc →
    LC F lo (ItemsIn F) (mkSrc ns total j acc) := by
  intro j
  induction j with
  | zero => intro acc h; exact LC.pure _ h
  | succ j ih =>
    intro acc h
    simp only [mkSrc]
    refine LC.bind (LC.alloc hns _) (fun c hc => ih _ ?_)
    intro t ht
    rw [cellsOf_append] at ht
    rcases List.mem_append.mp ht with ht | ht
    · exact h t ht
    · exact mkItem_in (some_inj_F hc) t (by simpa [cellsOf] using ht)

/-- the result of an invocation: the new private state and the values yielded refer to objects of `F` only -/
def ActIn (F : Tok → Prop) (r : HSt × Resp Skel) : Prop := RefsIn F r.1.acc ∧ ∀ t ∈ cellsOf r.2.outs, F t

theorem hActM_lc (hns : ∀ n, lo ≤ n → F (ns, n)) (sp : BSpec) (s : HSt) (hs : RefsIn F s.acc) (r : Req Skel)
    (hr : ∀ t ∈ r.cells, F t) : LC F lo (ActIn F) (hActM ns sp s r) := by
  cases r <;> simp only [hActM]
  case call =>
    exact LC.bind (mkSrc_lc hns _ _ [] (by intro t ht; simp [cellsOf] at ht)) (fun outs ho => LC.pure _ ⟨hs, ho⟩)
  case fill x =>
    refine LC.bind (applySteps_lc hns sp.steps s.cs x (fun t ht => hr t (by simpa [Req.cells] using ht))) (fun c hc => ?_)
    split
    · exact LC.pure _ ⟨hs, by intro t ht; simp [cellsOf] at ht⟩
    · rename_i y hy
      exact LC.bind (accFill_lc hns sp.term s.acc hs y (hc y hy)) (fun a ha =>
        LC.pure _ ⟨ha, by intro t ht; simp [cellsOf] at ht⟩)
  case compute => exact LC.bind (accCompute_lc hns sp.term s.acc hs) (fun f hf => LC.pure _ hf)
  case request => exact LC.bind (accCompute_lc hns sp.term s.acc hs) (fun f hf => LC.pure _ hf)
  case run buf =>
    refine LC.bind (runSteps_lc hns _ buf s.cs (fun t ht => hr t (by simpa [Req.cells] using ht))) (fun q hq => ?_)
    split
    · split
      · exact LC.pure _ ⟨hs, hq⟩
      · refine LC.bind (LC.alloc hns _) (fun c hc => LC.pure _ ⟨hs, ?_⟩)
        intro t ht
        rw [cellsOf_append] at ht
        rcases List.mem_append.mp ht with ht | ht
        · exact hq t ht
        · exact mkItem_in (some_inj_F hc) t (by simpa [cellsOf] using ht)
    · exact LC.bind (countAtEnd_lc hns _ _ _ hq) (fun ys hys => LC.pure _ ⟨hs, hys⟩)


/-- **Every branch of the harness model is local** (`Local`, the hypothesis of `branch_alone_equiv`): whatever
its elements (`Variable`, `UpdateContext`, `MakeFilename`, `Count`, `Slice`, the user mutators of context and
data) and its accumulator, an invocation reads and writes only objects of the branch's own namespace, objects
its state refers to and objects it is passed. -/
theorem hOps_local (ns : Nat) (sp : BSpec) : Local (hOps ns sp) ns := by
  have key : ∀ (s : HSt) (r : Req Skel),
      LC (foot ns (s.acc.refs) r.cells) s.ctr (ActIn (foot ns (s.acc.refs) r.cells)) (hActM ns sp s r) :=
    fun s r => hActM_lc (fun n _ => Or.inl rfl) sp s (fun t ht => Or.inr (Or.inl ht)) r
      (fun t ht => Or.inr (Or.inr ht))
  refine ⟨?_, ?_, ?_⟩
  · intro st s r t ht
    have hp := (key s r).post ⟨st, s.ctr⟩ (Nat.le_refl _)
    rcases ht with ht | ht
    · exact hp.1 t ht
    · exact hp.2 t ht
  · intro st s r t ht
    exact (key s r).frame ⟨st, s.ctr⟩ (Nat.le_refl _) t ht
  · intro st₁ st₂ s r h
    obtain ⟨a1, a2⟩ := (key s r).agree ⟨st₁, s.ctr⟩ ⟨st₂, s.ctr⟩ (Nat.le_refl _) ⟨rfl, h⟩
    refine ⟨?_, a2.2⟩
    simp only [hOps, hAct]
    rw [a1, a2.1]

/-- every branch of the harness model is local with the fine footprint: it never touches an object of its own that
it no longer refers to -/
theorem hOps_localF (ns : Nat) (sp : BSpec) : LocalF (hOps ns sp) ns (fun s : HSt => s.ctr) := by
  have key : ∀ (s : HSt) (r : Req Skel),
      LC (footF ns s.ctr (s.acc.refs) r.cells) s.ctr (ActIn (footF ns s.ctr (s.acc.refs) r.cells)) (hActM ns sp s r) :=
    fun s r => hActM_lc (fun n hn => Or.inr (Or.inr ⟨rfl, hn⟩)) sp s (fun t ht => Or.inl ht) r
      (fun t ht => Or.inr (Or.inl ht))
  refine ⟨?_, ?_, ?_⟩
  · intro st s r t ht
    have hp := (key s r).post ⟨st, s.ctr⟩ (Nat.le_refl _)
    rcases ht with ht | ht
    · exact hp.1 t ht
    · exact hp.2 t ht
  · intro st s r t ht
    exact (key s r).frame ⟨st, s.ctr⟩ (Nat.le_refl _) t ht
  · intro st₁ st₂ s r h
    obtain ⟨a1, a2⟩ := (key s r).agree ⟨st₁, s.ctr⟩ ⟨st₂, s.ctr⟩ (Nat.le_refl _) ⟨rfl, h⟩
    refine ⟨?_, a2.2⟩
    simp only [hOps, hAct]
    rw [a1, a2.1]

/-- every modelled accumulator except those that yield the filled values by specification allocates
what it yields -/
theorem accOps_freshYield' (ns : Nat) (k : AccKind) (hk : k.fresh = true) :
    FreshYield (accOps ns k) ns (fun s : HSt => s.ctr) := by
  have hmono : ∀ st (s : HSt) (r : Req Skel), s.ctr ≤ ((accOps ns k).act st s r).2.1.ctr := by
    intro st s r
    exact (hActM_lc (F := fun _ => True) (lo := s.ctr) (fun _ _ => trivial) _ s (fun _ _ => trivial) r (fun _ _ => trivial)).mono ⟨st, s.ctr⟩ (Nat.le_refl _)
  refine ⟨hmono, ?_, ?_⟩
  · intro st s r hr
    cases r with
    | fill x =>
      simp only [accOps, hOps, hAct, hActM, applySteps, M.bind_run, M.pure_run]
      simp [cellsOf]
    | compute => exact (accCompute_fresh ns k hk ⟨st, s.ctr⟩ s.acc).2.1
    | request => exact (accCompute_fresh ns k hk ⟨st, s.ctr⟩ s.acc).2.1
    | call => simp [Req.isAcc] at hr
    | run buf => simp [Req.isAcc] at hr
  · intro st s r hr
    cases r with
    | fill x =>
      simp only [accOps, hOps, hAct, hActM, applySteps, M.bind_run, M.pure_run]
      simp [cellsOf]
    | compute => exact (accCompute_fresh ns k hk ⟨st, s.ctr⟩ s.acc).2.2
    | request => exact (accCompute_fresh ns k hk ⟨st, s.ctr⟩ s.acc).2.2
    | call => simp [Req.isAcc] at hr
    | run buf => simp [Req.isAcc] at hr

theorem hActM_fill_outs (ns : Nat) (sp : BSpec) (s : HSt) (x : HItem) (w : PW) :
    ((hActM ns sp s (.fill x)).run w).2.2.outs = [] := by
  simp only [hActM, M.bind_run]
  split <;> simp

/-- a `FillComputeSeq(*steps, accumulator)` — any harness fill/compute branch — allocates what it yields, if its
accumulator does -/
theorem hOps_freshYield' (ns : Nat) (sp : BSpec) (hk : sp.term.fresh = true) :
    FreshYield (hOps ns sp) ns (fun s : HSt => s.ctr) := by
  have hmono : ∀ st (s : HSt) (r : Req Skel), s.ctr ≤ ((hOps ns sp).act st s r).2.1.ctr := by
    intro st s r
    exact (hActM_lc (F := fun _ => True) (lo := s.ctr) (fun _ _ => trivial) _ s (fun _ _ => trivial) r (fun _ _ => trivial)).mono ⟨st, s.ctr⟩ (Nat.le_refl _)
  have hfill : ∀ st (s : HSt) (x : HItem), ((hOps ns sp).act st s (.fill x)).2.2.outs = [] := by
    intro st s x
    simp only [hOps, hAct]
    exact hActM_fill_outs ns sp s x _
  refine ⟨hmono, ?_, ?_⟩
  · intro st s r hr
    cases r with
    | fill x => rw [hfill]; simp [cellsOf]
    | compute => exact (accCompute_fresh ns sp.term hk ⟨st, s.ctr⟩ s.acc).2.1
    | request => exact (accCompute_fresh ns sp.term hk ⟨st, s.ctr⟩ s.acc).2.1
    | call => simp [Req.isAcc] at hr
    | run buf => simp [Req.isAcc] at hr
  · intro st s r hr
    cases r with
    | fill x => rw [hfill]; simp [cellsOf]
    | compute => exact (accCompute_fresh ns sp.term hk ⟨st, s.ctr⟩ s.acc).2.2
    | request => exact (accCompute_fresh ns sp.term hk ⟨st, s.ctr⟩ s.acc).2.2
    | call => simp [Req.isAcc] at hr
    | run buf => simp [Req.isAcc] at hr

/-- a branch whose accumulator cannot raise never returns an exception: the run of the model, which goes on after
an `err`, is then the run of the code -/
theorem hOps_noerr (ns : Nat) (sp : BSpec) (hk : sp.term.canErr = false) (st : Store Value) (s : HSt) (r : Req Skel) :
    ((hOps ns sp).act st s r).2.2.err = none := by
  cases r with
  | call => simp [hOps, hAct, hActM]
  | fill x =>
    simp only [hOps, hAct, hActM, M.bind_run]
    split <;> simp
  | run buf =>
    simp only [hOps, hAct, hActM, M.bind_run]
    split
    · split <;> simp
    · simp
  | compute =>
    simp only [hOps, hAct, hActM, M.bind_run, M.pure_run]
    cases hterm : sp.term <;> rw [hterm] at hk <;> simp [AccKind.canErr] at hk <;>
      simp only [accCompute, M.bind_run, M.pure_run, M.ite_run] <;> (try split) <;> (try split) <;> simp_all
  | request =>
    simp only [hOps, hAct, hActM, M.bind_run, M.pure_run]
    cases hterm : sp.term <;> rw [hterm] at hk <;> simp [AccKind.canErr] at hk <;>
      simp only [accCompute, M.bind_run, M.pure_run, M.ite_run] <;> (try split) <;> (try split) <;> simp_all

end Lena.C04
