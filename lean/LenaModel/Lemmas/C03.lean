import LenaModel.Model.C03
/-! # C03 — lemmas: the loops of `Split.run` are folds; blocks; per-branch lives -/

namespace Lena.C03

variable {σ α : Type}

/-! ## list facts -/

theorem getElem_mid {β : Type} (pre post : List β) (b : β)
    (h : pre.length < (pre ++ b :: post).length) : (pre ++ b :: post)[pre.length] = b := by
  simp

theorem eraseIdx_mid {β : Type} (pre post : List β) (b : β) :
    (pre ++ b :: post).eraseIdx pre.length = pre ++ post := by
  induction pre with
  | nil => simp
  | cons x r ih => simp [ih]

theorem set_mid {β : Type} (pre post : List β) (b b' : β) :
    (pre ++ b :: post).set pre.length b' = pre ++ b' :: post := by
  induction pre with
  | nil => simp
  | cons x r ih => simp [ih]

/-! ## the loop over active sequences is a fold -/

/-- zipper form of the loop invariant: `ind = pre.length`, `active_seqs = pre ++ post` -/
theorem blockLoop_zipper (copyBuf : Bool) (buf : List α) :
    ∀ (fuel : Nat) (pre post : List (Branch σ α)) (acc : List (Ev α)), post.length < fuel + 1 →
      blockLoop copyBuf buf (fuel + 1) pre.length (pre ++ post) acc =
        (acc ++ (foldB (stepBranch buf) post).1, pre ++ (foldB (stepBranch buf) post).2) := by
  intro fuel
  induction fuel with
  | zero =>
    intro pre post acc h
    have : post = [] := by cases post <;> simp_all
    subst this
    simp [blockLoop, foldB]
  | succ fuel ih =>
    intro pre post acc h
    cases post with
    | nil => simp [blockLoop, foldB]
    | cons b post =>
      unfold blockLoop
      have hlt : pre.length < (pre ++ b :: post).length := by simp
      simp only [hlt, dite_true, getElem_mid pre post b hlt, deepcopy, ite_self]
      cases hs : stepBranch buf b with
      | mk out nb =>
        cases nb with
        | none =>
          simp only [eraseIdx_mid]
          rw [ih pre post (acc ++ out) (by simpa using h)]
          simp [foldB, hs, List.append_assoc]
        | some b' =>
          simp only [set_mid]
          have e : pre ++ b' :: post = (pre ++ [b']) ++ post := by simp
          have el : pre.length + 1 = (pre ++ [b']).length := by simp
          rw [e, el, ih (pre ++ [b']) post (acc ++ out) (by simpa using h)]
          simp [foldB, hs, List.append_assoc]

/-- the loop as started by `Split.run` (`ind = 0`) is the fold, for every `copy_buf` -/
theorem blockLoop_eq_fold (copyBuf : Bool) (buf : List α) (act : List (Branch σ α)) (acc : List (Ev α)) :
    blockLoop copyBuf buf (act.length + 1) 0 act acc =
      (acc ++ (foldB (stepBranch buf) act).1, (foldB (stepBranch buf) act).2) := by
  have := blockLoop_zipper copyBuf buf act.length [] act acc (by omega)
  simpa using this

/-! ## blocks -/

theorem blocksFuel_nil (b n : Nat) : blocksFuel b n ([] : List α) = [] := by
  cases n <;> rfl

/-- one more unit of fuel than needed changes nothing -/
theorem blocksFuel_fuel (b : Nat) (hb : 0 < b) :
    ∀ (n m : Nat) (xs : List α), xs.length ≤ n → xs.length ≤ m → blocksFuel b n xs = blocksFuel b m xs := by
  intro n
  induction n with
  | zero =>
    intro m xs h _
    have : xs = [] := by cases xs <;> simp_all
    subst this
    simp [blocksFuel_nil]
  | succ n ih =>
    intro m xs hn hm
    cases xs with
    | nil => simp [blocksFuel_nil]
    | cons x xs =>
      cases m with
      | zero => simp at hm
      | succ m =>
        simp only [blocksFuel]
        congr 1
        apply ih
        · simp only [List.length_drop, List.length_cons] at hn ⊢; omega
        · simp only [List.length_drop, List.length_cons] at hm ⊢; omega

/-- unfolding equation of `blocks` for a natural `bufsize` -/
theorem blocks_some_cons (b : Nat) (hb : 0 < b) (x : α) (xs : List α) :
    blocks (some b) (x :: xs) = (x :: xs).take b :: blocks (some b) ((x :: xs).drop b) := by
  simp only [blocks, List.length_cons, blocksFuel]
  congr 1
  apply blocksFuel_fuel b hb
  · simp only [List.length_drop, List.length_cons]; omega
  · simp

@[simp] theorem blocks_nil (bs : Option Nat) : blocks bs ([] : List α) = [] := by
  cases bs <;> simp [blocks, blocksFuel_nil]

/-- `readBlock` and `blocks`: the buffer read is the first block, the rest of the flow gives the
remaining blocks -/
theorem blocks_readBlock (bs : Option Nat) (hbs : bs ≠ some 0) (flow : List α) (hne : flow ≠ []) :
    (readBlock bs flow).1 ≠ [] ∧
      blocks bs flow = (readBlock bs flow).1 :: blocks bs (readBlock bs flow).2 := by
  cases bs with
  | none =>
    cases flow with
    | nil => exact absurd rfl hne
    | cons x xs => simp [readBlock, blocks]
  | some b =>
    have hb : 0 < b := by
      cases b with
      | zero => exact absurd rfl hbs
      | succ b => omega
    cases flow with
    | nil => exact absurd rfl hne
    | cons x xs =>
      refine ⟨?_, ?_⟩
      · cases b with
        | zero => omega
        | succ b => simp [readBlock]
      · simp only [readBlock]
        exact blocks_some_cons b hb x xs

theorem readBlock_length (bs : Option Nat) (hbs : bs ≠ some 0) (flow : List α) (hne : flow ≠ []) :
    (readBlock bs flow).2.length < flow.length := by
  cases bs with
  | none =>
    cases flow with
    | nil => exact absurd rfl hne
    | cons x xs => simp [readBlock]
  | some b =>
    cases b with
    | zero => exact absurd rfl hbs
    | succ b =>
      cases flow with
      | nil => exact absurd rfl hne
      | cons x xs => simp only [readBlock, List.length_drop, List.length_cons]; omega

theorem readBlock_nil (bs : Option Nat) : (readBlock bs ([] : List α)) = ([], []) := by
  cases bs <;> simp [readBlock]

/-! ## the loop over blocks is a fold over `blocks` -/

theorem outerLoop_eq_passes (copyBuf : Bool) (bs : Option Nat) (hbs : bs ≠ some 0) :
    ∀ (fuel : Nat) (flow : List α) (act : List (Branch σ α)) (acc : List (Ev α)) (fwe : Bool),
      flow.length < fuel →
      outerLoop copyBuf bs fuel flow act acc fwe =
        (acc ++ (passes (blocks bs flow) act).1, (passes (blocks bs flow) act).2,
          fwe && (blocks bs flow).isEmpty) := by
  intro fuel
  induction fuel with
  | zero => intro flow act acc fwe h; omega
  | succ fuel ih =>
    intro flow act acc fwe h
    unfold outerLoop
    cases flow with
    | nil => simp [readBlock_nil, passes]
    | cons x xs =>
      obtain ⟨hne, hbl⟩ := blocks_readBlock bs hbs (x :: xs) (by simp)
      have hlen := readBlock_length bs hbs (x :: xs) (by simp)
      have hemp : (readBlock bs (x :: xs)).1.isEmpty = false := by
        cases h1 : (readBlock bs (x :: xs)).1 with
        | nil => exact absurd h1 hne
        | cons _ _ => rfl
      simp only [hemp, Bool.false_eq_true, ↓reduceIte, blockLoop_eq_fold]
      rw [ih _ _ _ _ (by omega), hbl]
      simp [passes, List.append_assoc]

/-! ## unfolding `fillBuf` -/

theorem fillBuf_cons_stop (i : Nat) (ops : Ops σ α) (s s' : σ) (x : α) (xs : List α)
    (h : ops.fill s x = (s', true)) : fillBuf i ops s (x :: xs) = ([.fill i x true], s', true) := by
  simp [fillBuf, h]

theorem fillBuf_cons_ok (i : Nat) (ops : Ops σ α) (s s' : σ) (x : α) (xs : List α)
    (h : ops.fill s x = (s', false)) :
    fillBuf i ops s (x :: xs) = (.fill i x false :: (fillBuf i ops s' xs).1, (fillBuf i ops s' xs).2) := by
  simp [fillBuf, h]

/-! ## events carry the id of their branch; a branch keeps its id, kind and methods -/

theorem fillBuf_branch (i : Nat) (ops : Ops σ α) :
    ∀ (s : σ) (buf : List α), ∀ e ∈ (fillBuf i ops s buf).1, e.branch = some i := by
  intro s buf
  induction buf generalizing s with
  | nil => simp [fillBuf]
  | cons x xs ih =>
    intro e he
    simp only [fillBuf] at he
    cases hf : ops.fill s x with
    | mk s' st =>
      cases st with
      | true => simp [hf] at he; subst he; rfl
      | false =>
        simp only [hf, List.mem_cons] at he
        rcases he with rfl | he
        · rfl
        · exact ih s' e he

theorem outs_branch (i : Nat) (vals : List α) : ∀ e ∈ outs i vals, e.branch = some i := by
  intro e he
  simp only [outs, List.mem_map] at he
  obtain ⟨v, _, rfl⟩ := he
  rfl

theorem stepBranch_branch (buf : List α) (b : Branch σ α) :
    ∀ e ∈ (stepBranch buf b).1, e.branch = some b.id := by
  intro e he
  unfold stepBranch at he
  cases hk : b.kind <;> simp only [hk] at he
  · simp only [List.mem_cons] at he
    rcases he with rfl | he
    · rfl
    · exact outs_branch _ _ e he
  · split at he
    · simp only [List.mem_append, List.mem_cons] at he
      rcases he with he | rfl | he
      · exact fillBuf_branch _ _ _ _ e he
      · rfl
      · exact outs_branch _ _ e he
    · exact fillBuf_branch _ _ _ _ e he
  · simp only [List.mem_append, List.mem_cons] at he
    rcases he with he | rfl | he
    · exact fillBuf_branch _ _ _ _ e he
    · rfl
    · exact outs_branch _ _ e he
  · simp only [List.mem_cons] at he
    rcases he with rfl | he
    · rfl
    · exact outs_branch _ _ e he

/-- what `stepBranch` keeps of a branch that stays active -/
theorem stepBranch_some (buf : List α) (b b' : Branch σ α) (h : (stepBranch buf b).2 = some b') :
    b'.id = b.id ∧ b'.kind = b.kind ∧ b'.ops = b.ops ∧ b.kind ≠ .source := by
  unfold stepBranch at h
  cases hk : b.kind <;> simp only [hk] at h
  · simp at h
  · split at h
    · simp at h
    · simp only [Option.some.injEq] at h; subst h; simp
  · split at h
    · simp at h
    · simp only [Option.some.injEq] at h; subst h; simp
  · simp only [Option.some.injEq] at h; subst h; simp

/-! ## folds as `flatMap` / `filterMap` -/

theorem flatMap_congr' {β γ : Type} {l : List β} {f g : β → List γ} (h : ∀ b ∈ l, f b = g b) :
    l.flatMap f = l.flatMap g := by
  induction l with
  | nil => rfl
  | cons b r ih =>
    simp only [List.flatMap_cons]
    rw [h b (List.mem_cons_self ..), ih (fun c hc => h c (List.mem_cons_of_mem _ hc))]

theorem filterMap_eq_map' {β γ : Type} {l : List β} {f : β → Option γ} {g : β → γ}
    (h : ∀ b ∈ l, f b = some (g b)) : l.filterMap f = l.map g := by
  induction l with
  | nil => rfl
  | cons b r ih =>
    rw [List.filterMap_cons, h b (List.mem_cons_self ..), ih (fun c hc => h c (List.mem_cons_of_mem _ hc))]
    rfl


theorem foldB_fst {β ε : Type} (step : β → List ε × Option β) (l : List β) :
    (foldB step l).1 = l.flatMap (fun b => (step b).1) := by
  induction l with
  | nil => rfl
  | cons b r ih => simp [foldB, ih]

theorem foldB_snd {β ε : Type} (step : β → List ε × Option β) (l : List β) :
    (foldB step l).2 = l.filterMap (fun b => (step b).2) := by
  induction l with
  | nil => rfl
  | cons b r ih =>
    simp only [foldB, ih, List.filterMap_cons]
    cases (step b).2 <;> rfl

theorem flatMap_filterMap_id {β ε : Type} (f : β → List ε) (os : List (Option β)) :
    (os.filterMap id).flatMap f =
      os.flatMap (fun o => match o with
        | none => []
        | some b => f b) := by
  induction os with
  | nil => rfl
  | cons o r ih => cases o <;> simp [ih]

theorem filterMap_filterMap_id {β γ : Type} (f : β → Option γ) (os : List (Option β)) :
    (os.filterMap id).filterMap f =
      (os.map (fun o => match o with
        | none => none
        | some b => f b)).filterMap id := by
  induction os with
  | nil => rfl
  | cons o r ih =>
    cases o with
    | none => simp [ih]
    | some b =>
      simp only [List.filterMap_cons, id, List.map_cons, ih]

/-- one pass over the active branches, in terms of possibly-dropped branches -/
theorem pass_opt (blk : List α) (os : List (Option (Branch σ α))) :
    (foldB (stepBranch blk) (os.filterMap id)).1 = os.flatMap (fun o => (stepO blk o).1) ∧
    (foldB (stepBranch blk) (os.filterMap id)).2 =
      (os.map (fun o => (stepO blk o).2)).filterMap id := by
  rw [foldB_fst, foldB_snd, flatMap_filterMap_id, filterMap_filterMap_id]
  constructor
  · congr 1
    funext o
    cases o <;> rfl
  · congr 2
    funext o
    cases o <;> rfl

/-- the two nested folds are the matrix of per-branch lives -/
theorem passes_matrix (bl : List (List α)) :
    ∀ (os : List (Option (Branch σ α))),
      (passes bl (os.filterMap id)).1 =
        (List.range bl.length).flatMap (fun k => os.flatMap (fun o => ((life o bl).1)[k]?.getD [])) ∧
      (passes bl (os.filterMap id)).2 = (os.map (fun o => (life o bl).2)).filterMap id := by
  induction bl with
  | nil =>
    intro os
    simp [passes, life]
  | cons blk rest ih =>
    intro os
    obtain ⟨h1, h2⟩ := pass_opt blk os
    obtain ⟨i1, i2⟩ := ih (os.map (fun o => (stepO blk o).2))
    simp only [passes, h1, h2, i1, i2, List.length_cons, List.range_succ_eq_map, List.flatMap_cons,
      List.flatMap_map, life, List.map_map]
    constructor
    · congr 1
    · rfl

/-! ## what is left of a branch -/

theorem life_length (bl : List (List α)) : ∀ (o : Option (Branch σ α)), (life o bl).1.length = bl.length := by
  induction bl with
  | nil => intro o; rfl
  | cons blk rest ih => intro o; simp [life, ih]

theorem life_none (bl : List (List α)) :
    life (none : Option (Branch σ α)) bl = (bl.map (fun _ => []), none) := by
  induction bl with
  | nil => rfl
  | cons blk rest ih => simp [life, stepO, ih]

/-- a branch that is still active after `bl` is the original object (same id, kind, methods);
after at least one block it is not a Source -/
theorem life_some (bl : List (List α)) :
    ∀ (o : Option (Branch σ α)) (b' : Branch σ α), (life o bl).2 = some b' →
      ∃ b, o = some b ∧ b'.id = b.id ∧ b'.kind = b.kind ∧ b'.ops = b.ops ∧
        (bl ≠ [] → b.kind ≠ .source) := by
  induction bl with
  | nil =>
    intro o b' h
    exact ⟨b', by simpa [life] using h, rfl, rfl, rfl, fun h => absurd rfl h⟩
  | cons blk rest ih =>
    intro o b' h
    simp only [life] at h
    obtain ⟨b1, h1, hid, hk, hops, _⟩ := ih _ _ h
    cases o with
    | none => simp [stepO] at h1
    | some b =>
      simp only [stepO] at h1
      obtain ⟨gid, gk, gops, gns⟩ := stepBranch_some blk b b1 h1
      exact ⟨b, rfl, by rw [hid, gid], by rw [hk, gk], by rw [hops, gops], fun _ => gns⟩

theorem life_branch (bl : List (List α)) :
    ∀ (b : Branch σ α), ∀ l ∈ (life (some b) bl).1, ∀ e ∈ l, e.branch = some b.id := by
  induction bl with
  | nil => intro b l hl; simp [life] at hl
  | cons blk rest ih =>
    intro b l hl e he
    simp only [life, List.mem_cons] at hl
    rcases hl with rfl | hl
    · exact stepBranch_branch blk b e he
    · simp only [stepO] at hl
      cases hs : (stepBranch blk b).2 with
      | none =>
        rw [hs, life_none] at hl
        simp only [List.mem_map] at hl
        obtain ⟨_, _, rfl⟩ := hl
        simp at he
      | some b1 =>
        rw [hs] at hl
        have := ih b1 l hl e he
        rw [this, (stepBranch_some blk b b1 hs).1]

theorem finalOne_branch (fwe : Bool) (b : Branch σ α) : ∀ e ∈ finalOne fwe b, e.branch = some b.id := by
  intro e he
  unfold finalOne at he
  cases hk : b.kind <;> simp only [hk] at he
  · simp only [List.mem_cons] at he
    rcases he with rfl | he
    · rfl
    · exact outs_branch _ _ e he
  · simp only [List.mem_cons] at he
    rcases he with rfl | he
    · rfl
    · exact outs_branch _ _ e he
  · split at he
    · simp only [List.mem_cons] at he
      rcases he with rfl | he
      · rfl
      · exact outs_branch _ _ e he
    · simp at he
  · split at he
    · simp only [List.mem_cons] at he
      rcases he with rfl | he
      · rfl
      · exact outs_branch _ _ e he
    · simp at he

theorem contribution_branch (b : Branch σ α) (bl : List (List α)) (k : Nat) :
    ∀ e ∈ contribution b bl k, e.branch = some b.id := by
  intro e he
  unfold contribution at he
  cases h : ((life (some b) bl).1)[k]? with
  | none => simp [h] at he
  | some l =>
    simp only [h, Option.getD_some] at he
    exact life_branch bl b l (List.mem_of_getElem? h) e he

theorem finalContribution_branch (b : Branch σ α) (bl : List (List α)) :
    ∀ e ∈ finalContribution b bl, e.branch = some b.id := by
  intro e he
  unfold finalContribution at he
  cases h : (life (some b) bl).2 with
  | none => simp [h, finalO] at he
  | some b' =>
    simp only [h, finalO] at he
    obtain ⟨b0, h0, hid, _⟩ := life_some bl _ _ h
    cases h0
    rw [← hid]
    exact finalOne_branch _ b' e he

/-! ## the final pass -/

theorem finalPass_eq_flatMap (fwe : Bool) (act : List (Branch σ α))
    (h : fwe = true ∨ ∀ b ∈ act, b.kind ≠ .source) :
    finalPass fwe act = act.flatMap (finalOne fwe) := by
  induction act with
  | nil => rfl
  | cons b rest ih =>
    have ih' := ih (by
      rcases h with h | h
      · exact Or.inl h
      · exact Or.inr (fun c hc => h c (List.mem_cons_of_mem _ hc)))
    cases hk : b.kind with
    | source =>
      rcases h with h | h
      · subst h
        simp [finalPass, finalOne, hk, ih']
      · exact absurd hk (h b (List.mem_cons_self ..))
    | fillCompute => simp [finalPass, finalOne, hk, ih']
    | fillRequest => cases fwe <;> simp [finalPass, finalOne, hk, ih']
    | sequence => cases fwe <;> simp [finalPass, finalOne, hk, ih']

theorem flatMap_finalOne_filterMap (fwe : Bool) (bl : List (List α)) (brs : List (Branch σ α)) :
    (brs.filterMap (id ∘ (fun o => (life o bl).2) ∘ some)).flatMap (finalOne fwe) =
      brs.flatMap (fun b => finalO fwe (life (some b) bl).2) := by
  induction brs with
  | nil => rfl
  | cons b r ih =>
    simp only [List.filterMap_cons, Function.comp, List.flatMap_cons, id]
    cases hl : (life (some b) bl).2 with
    | none => simpa [finalO] using ih
    | some b' => simpa [finalO] using ih

/-- the nested folds followed by the final pass are the documented schedule -/
theorem runSpec_eq_schedule (s : Split σ α) (flow : List α) : s.runSpec flow = s.schedule flow := by
  unfold Split.runSpec Split.schedule
  generalize blocks s.bufsize flow = bl
  have hos : (s.branches.map some).filterMap id = s.branches := by
    induction s.branches with
    | nil => rfl
    | cons b r ih => simp [ih]
  obtain ⟨m1, m2⟩ := passes_matrix bl (s.branches.map some)
  rw [hos] at m1 m2
  simp only [m1, m2, List.flatMap_map, List.map_map]
  congr 1
  rw [finalPass_eq_flatMap]
  · rw [List.filterMap_map]
    exact flatMap_finalOne_filterMap _ bl s.branches
  · cases bl with
    | nil => exact Or.inl rfl
    | cons blk rest =>
      refine Or.inr (fun b' hb' => ?_)
      simp only [List.mem_filterMap, List.mem_map, Function.comp, id] at hb'
      obtain ⟨o, ⟨b, _, rfl⟩, ho⟩ := hb'
      obtain ⟨b0, h0, _, hk, _, hns⟩ := life_some (blk :: rest) _ _ ho
      cases h0
      rw [hk]
      exact hns (by simp)

/-! ## projections -/

theorem proj_append (i : Nat) (l₁ l₂ : List (Ev α)) : proj i (l₁ ++ l₂) = proj i l₁ ++ proj i l₂ := by
  simp [proj]

theorem proj_eq_self (i : Nat) (l : List (Ev α)) (h : ∀ e ∈ l, e.branch = some i) : proj i l = l := by
  unfold proj
  rw [List.filter_eq_self]
  intro e he
  simp [h e he]

theorem proj_eq_nil (i j : Nat) (l : List (Ev α)) (h : ∀ e ∈ l, e.branch = some j) (hij : j ≠ i) :
    proj i l = [] := by
  unfold proj
  rw [List.filter_eq_nil_iff]
  intro e he
  simp [h e he, hij]

/-- among branches with distinct ids, the events of branch `b` in a branch-wise concatenation
are exactly its own part -/
theorem proj_flatMap_nodup (f : Branch σ α → List (Ev α)) :
    ∀ (brs : List (Branch σ α)), (∀ b ∈ brs, ∀ e ∈ f b, e.branch = some b.id) →
      (brs.map (·.id)).Nodup → ∀ b ∈ brs, proj b.id (brs.flatMap f) = f b := by
  intro brs
  induction brs with
  | nil => intro _ _ b hb; simp at hb
  | cons c rest ih =>
    intro hf hnd b hb
    simp only [List.map_cons, List.nodup_cons, List.mem_map, not_exists, not_and] at hnd
    simp only [List.flatMap_cons, proj_append]
    have hrest : ∀ b ∈ rest, ∀ e ∈ f b, e.branch = some b.id :=
      fun b hb => hf b (List.mem_cons_of_mem _ hb)
    rcases List.mem_cons.mp hb with rfl | hb'
    · rw [proj_eq_self _ _ (hf b (List.mem_cons_self ..))]
      have : proj b.id (rest.flatMap f) = [] := by
        unfold proj
        rw [List.filter_eq_nil_iff]
        intro e he
        simp only [List.mem_flatMap] at he
        obtain ⟨d, hd, hed⟩ := he
        have hne : d.id ≠ b.id := hnd.1 d hd
        simp [hrest d hd e hed, hne]
      simp [this]
    · have hne : c.id ≠ b.id := fun h => hnd.1 b hb' h.symm
      rw [proj_eq_nil _ _ _ (hf c (List.mem_cons_self ..)) hne, ih hrest hnd.2 b hb']
      rfl

theorem flatMap_range_getD {β : Type} (l : List (List β)) :
    (List.range l.length).flatMap (fun k => l[k]?.getD []) = l.flatten := by
  induction l with
  | nil => rfl
  | cons x r ih =>
    simp only [List.length_cons, List.range_succ_eq_map, List.flatMap_cons, List.flatMap_map,
      List.flatten_cons]
    congr 1

theorem proj_flatMap_range (i : Nat) (n : Nat) (f : Nat → List (Ev α)) :
    proj i ((List.range n).flatMap f) = (List.range n).flatMap (fun k => proj i (f k)) := by
  induction (List.range n) with
  | nil => rfl
  | cons k r ih => simp [proj_append, ih]

end Lena.C03
