import LenaModel.Model.C03
/-! # C03 — lemmas: the loops of `Split.run` are folds; blocks; per-branch lives -/

namespace Lena.C03

variable {σ α : Type}

/-! ## list facts -/

theorem getElem_mid {β : Type} (pre post : List β) (b : β)
    (h : pre.length < (pre ++ b :: post).length) : (pre ++ b :: post)[pre.length] = b := by
  simp

theorem eraseIdx_mid {β : Type} (pre post : List β) (b : β) :
    (pre ++ b :: post).eraseIdx pre.length = pre ++ post := by
  induction pre with
  | nil => simp
  | cons x r ih => simp [ih]

theorem set_mid {β : Type} (pre post : List β) (b b' : β) :
    (pre ++ b :: post).set pre.length b' = pre ++ b' :: post := by
  induction pre with
  | nil => simp
  | cons x r ih => simp [ih]

/-! ## the loop over active sequences is a fold -/

/-- zipper form of the loop invariant: `ind = pre.length`, `active_seqs = pre ++ post` -/
theorem blockLoop_zipper (copyBuf : Bool) (buf : List α) :
    ∀ (fuel : Nat) (pre post : List (Branch σ α)) (acc : List (Ev α)), post.length < fuel + 1 →
      blockLoop copyBuf buf (fuel + 1) pre.length (pre ++ post) acc =
        (acc ++ (foldB (stepBranch buf) post).1, pre ++ (foldB (stepBranch buf) post).2) := by
  intro fuel
  induction fuel with
  | zero =>
    intro pre post acc h
    have : post = [] := by cases post <;> simp_all
    subst this
    simp [blockLoop, foldB]
  | succ fuel ih =>
    intro pre post acc h
    cases post with
    | nil => simp [blockLoop, foldB]
    | cons b post =>
      unfold blockLoop
      have hlt : pre.length < (pre ++ b :: post).length := by simp
      simp only [hlt, dite_true, getElem_mid pre post b hlt, deepcopy, ite_self]
      cases hs : stepBranch buf b with
      | mk out nb =>
        cases nb with
        | none =>
          simp only [eraseIdx_mid]
          rw [ih pre post (acc ++ out) (by simpa using h)]
          simp [foldB, hs, List.append_assoc]
        | some b' =>
          simp only [set_mid]
          have e : pre ++ b' :: post = (pre ++ [b']) ++ post := by simp
          have el : pre.length + 1 = (pre ++ [b']).length := by simp
          rw [e, el, ih (pre ++ [b']) post (acc ++ out) (by simpa using h)]
          simp [foldB, hs, List.append_assoc]

/-- the loop as started by `Split.run` (`ind = 0`) is the fold, for every `copy_buf` -/
theorem blockLoop_eq_fold (copyBuf : Bool) (buf : List α) (act : List (Branch σ α)) (acc : List (Ev α)) :
    blockLoop copyBuf buf (act.length + 1) 0 act acc =
      (acc ++ (foldB (stepBranch buf) act).1, (foldB (stepBranch buf) act).2) := by
  have := blockLoop_zipper copyBuf buf act.length [] act acc (by omega)
  simpa using this

/-! ## blocks -/

theorem blocksFuel_nil (b n : Nat) : blocksFuel b n ([] : List α) = [] := by
  cases n <;> rfl

/-- one more unit of fuel than needed changes nothing -/
theorem blocksFuel_fuel (b : Nat) (hb : 0 < b) :
    ∀ (n m : Nat) (xs : List α), xs.length ≤ n → xs.length ≤ m → blocksFuel b n xs = blocksFuel b m xs := by
  intro n
  induction n with
  | zero =>
    intro m xs h _
    have : xs = [] := by cases xs <;> simp_all
    subst this
    simp [blocksFuel_nil]
  | succ n ih =>
    intro m xs hn hm
    cases xs with
    | nil => simp [blocksFuel_nil]
    | cons x xs =>
      cases m with
      | zero => simp at hm
      | succ m =>
        simp only [blocksFuel]
        congr 1
        apply ih
        · simp only [List.length_drop, List.length_cons] at hn ⊢; omega
        · simp only [List.length_drop, List.length_cons] at hm ⊢; omega

/-- unfolding equation of `blocks` for a natural `bufsize` -/
theorem blocks_some_cons (b : Nat) (hb : 0 < b) (x : α) (xs : List α) :
    blocks (some b) (x :: xs) = (x :: xs).take b :: blocks (some b) ((x :: xs).drop b) := by
  simp only [blocks, List.length_cons, blocksFuel]
  congr 1
  apply blocksFuel_fuel b hb
  · simp only [List.length_drop, List.length_cons]; omega
  · simp

@[simp] theorem blocks_nil (bs : Option Nat) : blocks bs ([] : List α) = [] := by
  cases bs <;> simp [blocks, blocksFuel_nil]

/-- `readBlock` and `blocks`: the buffer read is the first block, the rest of the flow gives the
remaining blocks -/
theorem blocks_readBlock (bs : Option Nat) (hbs : bs ≠ some 0) (flow : List α) (hne : flow ≠ []) :
    (readBlock bs flow).1 ≠ [] ∧
      blocks bs flow = (readBlock bs flow).1 :: blocks bs (readBlock bs flow).2 := by
  cases bs with
  | none =>
    cases flow with
    | nil => exact absurd rfl hne
    | cons x xs => simp [readBlock, blocks]
  | some b =>
    have hb : 0 < b := by
      cases b with
      | zero => exact absurd rfl hbs
      | succ b => omega
    cases flow with
    | nil => exact absurd rfl hne
    | cons x xs =>
      refine ⟨?_, ?_⟩
      · cases b with
        | zero => omega
        | succ b => simp [readBlock]
      · simp only [readBlock]
        exact blocks_some_cons b hb x xs

theorem readBlock_length (bs : Option Nat) (hbs : bs ≠ some 0) (flow : List α) (hne : flow ≠ []) :
    (readBlock bs flow).2.length < flow.length := by
  cases bs with
  | none =>
    cases flow with
    | nil => exact absurd rfl hne
    | cons x xs => simp [readBlock]
  | some b =>
    cases b with
    | zero => exact absurd rfl hbs
    | succ b =>
      cases flow with
      | nil => exact absurd rfl hne
      | cons x xs => simp only [readBlock, List.length_drop, List.length_cons]; omega

theorem readBlock_nil (bs : Option Nat) : (readBlock bs ([] : List α)) = ([], []) := by
  cases bs <;> simp [readBlock]

/-! ## the loop over blocks is a fold over `blocks` -/

theorem outerLoop_eq_passes (copyBuf : Bool) (bs : Option Nat) (hbs : bs ≠ some 0) :
    ∀ (fuel : Nat) (flow : List α) (act : List (Branch σ α)) (acc : List (Ev α)) (fwe : Bool),
      flow.length < fuel →
      outerLoop copyBuf bs fuel flow act acc fwe =
        (acc ++ (passes (blocks bs flow) act).1, (passes (blocks bs flow) act).2,
          fwe && (blocks bs flow).isEmpty) := by
  intro fuel
  induction fuel with
  | zero => intro flow act acc fwe h; omega
  | succ fuel ih =>
    intro flow act acc fwe h
    unfold outerLoop
    cases flow with
    | nil => simp [readBlock_nil, passes]
    | cons x xs =>
      obtain ⟨hne, hbl⟩ := blocks_readBlock bs hbs (x :: xs) (by simp)
      have hlen := readBlock_length bs hbs (x :: xs) (by simp)
      have hemp : (readBlock bs (x :: xs)).1.isEmpty = false := by
        cases h1 : (readBlock bs (x :: xs)).1 with
        | nil => exact absurd h1 hne
        | cons _ _ => rfl
      simp only [hemp, Bool.false_eq_true, ↓reduceIte, blockLoop_eq_fold]
      rw [ih _ _ _ _ (by omega), hbl]
      simp [passes, List.append_assoc]

/-! ## events carry the id of their branch; a branch keeps its id, kind and methods -/

theorem fillBuf_branch (i : Nat) (ops : Ops σ α) :
    ∀ (s : σ) (buf : List α), ∀ e ∈ (fillBuf i ops s buf).1, e.branch = some i := by
  intro s buf
  induction buf generalizing s with
  | nil => simp [fillBuf]
  | cons x xs ih =>
    intro e he
    simp only [fillBuf] at he
    cases hf : ops.fill s x with
    | mk s' st =>
      cases st with
      | true => simp [hf] at he; subst he; rfl
      | false =>
        simp only [hf, List.mem_cons] at he
        rcases he with rfl | he
        · rfl
        · exact ih s' e he

theorem outs_branch (i : Nat) (vals : List α) : ∀ e ∈ outs i vals, e.branch = some i := by
  intro e he
  simp only [outs, List.mem_map] at he
  obtain ⟨v, _, rfl⟩ := he
  rfl

theorem stepBranch_branch (buf : List α) (b : Branch σ α) :
    ∀ e ∈ (stepBranch buf b).1, e.branch = some b.id := by
  intro e he
  unfold stepBranch at he
  cases hk : b.kind <;> simp only [hk] at he
  · simp only [List.mem_cons] at he
    rcases he with rfl | he
    · rfl
    · exact outs_branch _ _ e he
  · split at he
    · simp only [List.mem_append, List.mem_cons] at he
      rcases he with he | rfl | he
      · exact fillBuf_branch _ _ _ _ e he
      · rfl
      · exact outs_branch _ _ e he
    · exact fillBuf_branch _ _ _ _ e he
  · simp only [List.mem_append, List.mem_cons] at he
    rcases he with he | rfl | he
    · exact fillBuf_branch _ _ _ _ e he
    · rfl
    · exact outs_branch _ _ e he
  · simp only [List.mem_cons] at he
    rcases he with rfl | he
    · rfl
    · exact outs_branch _ _ e he

/-- what `stepBranch` keeps of a branch that stays active -/
theorem stepBranch_some (buf : List α) (b b' : Branch σ α) (h : (stepBranch buf b).2 = some b') :
    b'.id = b.id ∧ b'.kind = b.kind ∧ b'.ops = b.ops ∧ b.kind ≠ .source := by
  unfold stepBranch at h
  cases hk : b.kind <;> simp only [hk] at h
  · simp at h
  · split at h
    · simp at h
    · simp only [Option.some.injEq] at h; subst h; simp [hk]
  · split at h
    · simp at h
    · simp only [Option.some.injEq] at h; subst h; simp [hk]
  · simp only [Option.some.injEq] at h; subst h; simp [hk]

end Lena.C03
