import LenaModel.Model.C03
namespace Lena.C03
end Lena.C03
