import LenaModel.Lemmas.C04Alone
/-! # C04 — `Split._fill` / `Zip._fill`: every branch is filled as if it were alone -/
namespace Lena.C04
open Lena.C03 (Kind readBlock blocks)
variable {σ S C : Type}

/-- `Split._fill` (`lastOrig = true`) and `Zip._fill` (`lastOrig = false`) for one value -/
def fillG (lastOrig : Bool) (x : Item S) : World C → List (Branch σ S C) → FillAllRes σ S C
  | w, [] => ⟨[], w, [], false⟩
  | w, b :: rest =>
    let r := fillOne (!rest.isEmpty || !lastOrig) x w b
    if r.2.2.2 then ⟨r.1, r.2.1, r.2.2.1 :: rest, true⟩
    else
      let q := fillG lastOrig x r.2.1 rest
      ⟨r.1 ++ q.evs, q.w, r.2.2.1 :: q.brs, q.stopped⟩

theorem splitFill_eq (x : Item S) : ∀ (brs : List (Branch σ S C)) (w : World C),
    splitFill true x w brs = fillG true x w brs := by
  intro brs
  induction brs with
  | nil => intro w; rfl
  | cons b rest ih =>
    intro w
    conv => lhs; unfold splitFill
    conv => rhs; unfold fillG
    simp only [Bool.true_and, Bool.not_true, Bool.or_false, ih]

theorem zipFill_eq (x : Item S) : ∀ (brs : List (Branch σ S C)) (w : World C),
    zipFill x w brs = fillG false x w brs := by
  intro brs
  induction brs with
  | nil => intro w; rfl
  | cons b rest ih =>
    intro w
    conv => lhs; unfold zipFill
    conv => rhs; unfold fillG
    simp only [Bool.not_false, Bool.or_true, ih]

theorem fillG_cons (lastOrig : Bool) (x : Item S) (w : World C) (b : Branch σ S C) (rest : List (Branch σ S C)) :
    fillG lastOrig x w (b :: rest) =
      if (fillOne (!rest.isEmpty || !lastOrig) x w b).2.2.2 then
        ⟨(fillOne (!rest.isEmpty || !lastOrig) x w b).1, (fillOne (!rest.isEmpty || !lastOrig) x w b).2.1,
          (fillOne (!rest.isEmpty || !lastOrig) x w b).2.2.1 :: rest, true⟩
      else
        ⟨(fillOne (!rest.isEmpty || !lastOrig) x w b).1 ++
            (fillG lastOrig x (fillOne (!rest.isEmpty || !lastOrig) x w b).2.1 rest).evs,
          (fillG lastOrig x (fillOne (!rest.isEmpty || !lastOrig) x w b).2.1 rest).w,
          (fillOne (!rest.isEmpty || !lastOrig) x w b).2.2.1 ::
            (fillG lastOrig x (fillOne (!rest.isEmpty || !lastOrig) x w b).2.1 rest).brs,
          (fillG lastOrig x (fillOne (!rest.isEmpty || !lastOrig) x w b).2.1 rest).stopped⟩ := by
  conv => lhs; unfold fillG

theorem fillG_append (lastOrig : Bool) (x : Item S) (suf : List (Branch σ S C)) (hs : suf ≠ []) :
    ∀ (pre : List (Branch σ S C)) (w : World C),
      fillG lastOrig x w (pre ++ suf) =
        if (fillG false x w pre).stopped then
          ⟨(fillG false x w pre).evs, (fillG false x w pre).w, (fillG false x w pre).brs ++ suf, true⟩
        else
          ⟨(fillG false x w pre).evs ++ (fillG lastOrig x (fillG false x w pre).w suf).evs,
            (fillG lastOrig x (fillG false x w pre).w suf).w,
            (fillG false x w pre).brs ++ (fillG lastOrig x (fillG false x w pre).w suf).brs,
            (fillG lastOrig x (fillG false x w pre).w suf).stopped⟩ := by
  intro pre
  induction pre with
  | nil => intro w; simp [fillG]
  | cons b rest ih =>
    intro w
    have hne : (rest ++ suf).isEmpty = false := by cases rest <;> cases suf <;> simp_all
    rw [List.cons_append, fillG_cons, fillG_cons, ih]
    simp only [hne, Bool.not_false, Bool.true_or, Bool.not_false, Bool.or_true]
    split
    · simp
    · split <;> simp [List.append_assoc]


/-! ## one branch, one value -/

theorem fillOne_eq (copied : Bool) (x : Item S) (w : World C) (b : Branch σ S C) :
    fillOne copied x w b =
      ([.hand b.id [(chooseBuf true copied [x] (copyNsOf b.id) w).2.1.headD x] copied,
        .fill b.id ((chooseBuf true copied [x] (copyNsOf b.id) w).2.1.headD x)
          (b.ops.act (chooseBuf true copied [x] (copyNsOf b.id) w).1.st b.st
            (.fill ((chooseBuf true copied [x] (copyNsOf b.id) w).2.1.headD x))).2.2.stopped],
       { st := (b.ops.act (chooseBuf true copied [x] (copyNsOf b.id) w).1.st b.st
            (.fill ((chooseBuf true copied [x] (copyNsOf b.id) w).2.1.headD x))).1,
         cc := (chooseBuf true copied [x] (copyNsOf b.id) w).1.cc },
       { b with st := (b.ops.act (chooseBuf true copied [x] (copyNsOf b.id) w).1.st b.st
            (.fill ((chooseBuf true copied [x] (copyNsOf b.id) w).2.1.headD x))).2.1 },
       (b.ops.act (chooseBuf true copied [x] (copyNsOf b.id) w).1.st b.st
            (.fill ((chooseBuf true copied [x] (copyNsOf b.id) w).2.1.headD x))).2.2.stopped) := by
  cases copied <;> simp [fillOne, chooseBuf]

theorem chooseBuf_single (copied : Bool) (x : Item S) (ns : Nat) (w : World C) :
    (chooseBuf true copied [x] ns w).2.1 = [(chooseBuf true copied [x] ns w).2.1.headD x] := by
  cases copied with
  | false => simp [chooseBuf]
  | true => simpa [chooseBuf] using deepcopy_single ns w x

theorem fillOne_branch (copied : Bool) (x : Item S) (w : World C) (b : Branch σ S C) :
    ∀ e ∈ (fillOne copied x w b).1, e.branch = some b.id := by
  intro e he
  rw [fillOne_eq] at he
  simp only [List.mem_cons, List.not_mem_nil, or_false] at he
  rcases he with rfl | rfl <;> rfl

theorem fillOne_br (copied : Bool) (x : Item S) (w : World C) (b : Branch σ S C) :
    (fillOne copied x w b).2.2.1.id = b.id ∧ (fillOne copied x w b).2.2.1.kind = b.kind ∧
    (fillOne copied x w b).2.2.1.ops = b.ops := by
  rw [fillOne_eq]; exact ⟨rfl, rfl, rfl⟩

theorem fillOne_others (i : Nat) (P : Tok → Prop) (copied : Bool) (x : Item S)
    (hPorig : copied = false → ∀ t ∈ x.cells, ¬ P t) (w : World C) (b : Branch σ S C) (hout : Outside i P b) :
    (∀ t, P t → (fillOne copied x w b).2.1.st t = w.st t) ∧
    proj i (fillOne copied x w b).1 = [] ∧
    (∀ t ∈ b.ops.refs (fillOne copied x w b).2.2.1.st, ¬ P t) := by
  obtain ⟨hid, hloc, hns, hrefs⟩ := hout
  obtain ⟨cs1, cs2⟩ := chooseBuf_spec copied [x] (copyNsOf b.id) w
  have hsingle := chooseBuf_single copied x (copyNsOf b.id) w
  have hbr := fillOne_branch copied x w b
  rw [fillOne_eq] at hbr ⊢
  simp only
  generalize hc : chooseBuf true copied [x] (copyNsOf b.id) w = c at cs1 cs2 hsingle hbr
  have hbuf : (∀ t ∈ (c.2.1.headD x).cells, ¬ P t) ∧ (∀ t, P t → c.1.st t = w.st t) := by
    have hcells : ∀ t ∈ (c.2.1.headD x).cells, t ∈ cellsOf c.2.1 := by
      intro t ht; rw [hsingle]; simpa [cellsOf] using ht
    cases hm : copied with
    | true =>
      obtain ⟨_, a2, a3, _⟩ := cs1 hm
      exact ⟨fun t ht hp => (hns t hp).2 (a2 t (hcells t ht)),
        fun t hp => a3 t (fun hin => (hns t hp).2 (a2 t hin))⟩
    | false =>
      rw [cs2 hm]
      exact ⟨by simpa using hPorig hm, fun t _ => rfl⟩
  have hW : ∀ t, foot (ownNs b.id) (b.ops.refs b.st) (Req.fill (c.2.1.headD x)).cells t → ¬ P t := by
    intro t ht hp
    rcases ht with ht | ht | ht
    · exact (hns t hp).1 ht
    · exact hrefs t ht hp
    · exact hbuf.1 t ht hp
  refine ⟨?_, proj_none i b.id hid _ hbr, fun t ht => (act_refs hloc (fun t => ¬ P t) _ _ hW _).1 t ht⟩
  intro t hp
  rw [act_frame hloc (fun t => ¬ P t) _ _ hW _ t (fun h => h hp), hbuf.2 t hp]

/-- a list of branches other than `i` filled with one value -/
theorem fillG_others (i : Nat) (P : Tok → Prop) (lastOrig : Bool) (x : Item S)
    (hPorig : lastOrig = true → ∀ t ∈ x.cells, ¬ P t) :
    ∀ (post : List (Branch σ S C)) (w : World C), (∀ b ∈ post, Outside i P b) →
      (∀ t, P t → (fillG lastOrig x w post).w.st t = w.st t) ∧
      proj i (fillG lastOrig x w post).evs = [] ∧
      (∀ b' ∈ (fillG lastOrig x w post).brs, Outside i P b') := by
  intro post
  induction post with
  | nil => intro w _; simp [fillG, proj]
  | cons b rest ih =>
    intro w hout
    have hb := hout b (List.mem_cons_self ..)
    obtain ⟨t1, t2, t3⟩ := fillOne_others i P (!rest.isEmpty || !lastOrig) x
      (by intro hm; apply hPorig; cases lastOrig <;> simp_all) w b hb
    obtain ⟨e1, _, e3⟩ := fillOne_br (!rest.isEmpty || !lastOrig) x w b
    have hb' : Outside i P (fillOne (!rest.isEmpty || !lastOrig) x w b).2.2.1 := by
      obtain ⟨o1, o2, o3, _⟩ := hb
      refine ⟨by rw [e1]; exact o1, by rw [e1, e3]; exact o2, by rw [e1]; exact o3, ?_⟩
      rw [e3]; exact t3
    have hrest : ∀ b' ∈ rest, Outside i P b' := fun b' hb' => hout b' (List.mem_cons_of_mem _ hb')
    rw [fillG_cons]
    split
    · refine ⟨t1, t2, ?_⟩
      intro b' hb''
      rcases List.mem_cons.mp hb'' with rfl | hb''
      · exact hb'
      · exact hrest b' hb''
    · obtain ⟨i1, i2, i3⟩ := ih (fillOne (!rest.isEmpty || !lastOrig) x w b).2.1 hrest
      refine ⟨fun t hp => by rw [i1 t hp, t1 t hp], by rw [proj_append, t2, i2]; rfl, ?_⟩
      intro b' hb''
      rcases List.mem_cons.mp hb'' with rfl | hb''
      · exact hb'
      · exact i3 b' hb''


theorem fillOne_sim (i : Nat) (st0 : Store C) (Ui : List Tok) (x : Item S) (copied : Bool)
    (w1 : World C) (stA : Store C) (b : Branch σ S C) (hbid : b.id = i) (hloc : Local b.ops (ownNs i))
    (hmine : ∀ t ∈ b.ops.refs b.st, Prot i Ui t) (hup : ∀ t ∈ x.cells, t.1 = upNs)
    (hagree : Agree (Prot i Ui) w1.st stA) (hprist : ∀ t ∈ x.cells, w1.st t = st0 t ∧ stA t = st0 t) :
    ∃ y,
      y.skel = x.skel ∧ (copied = false → y = x) ∧ (copied = true → ∀ t ∈ y.cells, t.1 = copyNsOf i) ∧
      (fillOne copied x w1 b).1 = (aloneFill st0 x y copied stA b).1 ∧
      (fillOne copied x w1 b).2.2.1 = (aloneFill st0 x y copied stA b).2.2.1 ∧
      (fillOne copied x w1 b).2.2.2 = (aloneFill st0 x y copied stA b).2.2.2 ∧
      Agree (Prot i (UiNext copied Ui [x])) (fillOne copied x w1 b).2.1.st (aloneFill st0 x y copied stA b).2.1 ∧
      (∀ t, ¬ Prot i (UiNext copied Ui [x]) t →
        (fillOne copied x w1 b).2.1.st t = w1.st t ∧ (aloneFill st0 x y copied stA b).2.1 t = stA t) ∧
      (∀ t ∈ b.ops.refs (fillOne copied x w1 b).2.2.1.st, Prot i (UiNext copied Ui [x]) t) := by
  subst hbid
  obtain ⟨cs1, cs2⟩ := chooseBuf_spec copied [x] (copyNsOf b.id) w1
  have hsingle := chooseBuf_single copied x (copyNsOf b.id) w1
  rw [fillOne_eq]
  cases copied with
  | false =>
    have hc := cs2 rfl
    refine ⟨x, rfl, fun _ => rfl, by simp, ?_⟩
    simp only [aloneFill, hc, List.headD_cons, Bool.false_eq_true, if_false, UiNext]
    have hW : ∀ t, foot (ownNs b.id) (b.ops.refs b.st) (Req.fill x).cells t → Prot b.id (Ui ++ cellsOf [x]) t := by
      intro t ht
      rcases ht with ht | ht | ht
      · exact Or.inl ht
      · exact prot_mono (fun t ht => List.mem_append_left _ ht) (hmine t ht)
      · exact Or.inr (Or.inr (List.mem_append_right _ (by simpa [cellsOf, Req.cells] using ht)))
    have hag : Agree (Prot b.id (Ui ++ cellsOf [x])) w1.st stA := by
      intro t ht
      rcases ht with ht | ht | ht
      · exact hagree t (Or.inl ht)
      · exact hagree t (Or.inr (Or.inl ht))
      · rcases List.mem_append.mp ht with ht | ht
        · exact hagree t (Or.inr (Or.inr ht))
        · have hx : t ∈ x.cells := by simpa [cellsOf] using ht
          rw [(hprist t hx).1, (hprist t hx).2]
    obtain ⟨e1, e2⟩ := act_agree hloc _ b.st (.fill x) hW hag
    refine ⟨by rw [e1], by rw [e1], by rw [e1], e2, ?_, (act_refs hloc _ b.st (.fill x) hW _).1⟩
    intro t ht
    exact ⟨act_frame hloc _ b.st (.fill x) hW _ t ht, act_frame hloc _ b.st (.fill x) hW _ t ht⟩
  | true =>
    obtain ⟨_, a2, a3, a4⟩ := cs1 rfl
    obtain ⟨c1, c2⟩ := chooseBuf_contents [x] (copyNsOf b.id) w1
      (fun t ht h => (ns_facts b.id b.id).2.2.2.2 (by rw [← h, hup t (by simpa [cellsOf] using ht)]))
    generalize hc : chooseBuf true true [x] (copyNsOf b.id) w1 = c at a2 a3 a4 c1 c2 hsingle
    have hycells : cellsOf c.2.1 = (c.2.1.headD x).cells := by rw [hsingle]; simp [cellsOf]
    have hyskel : (c.2.1.headD x).skel = x.skel := by
      rw [hsingle] at a4; simpa using a4
    refine ⟨c.2.1.headD x, hyskel, by simp, fun _ t ht => a2 t (by rw [hycells]; exact ht), ?_⟩
    simp only [aloneFill, if_true, UiNext]
    have hW : ∀ t, foot (ownNs b.id) (b.ops.refs b.st) (Req.fill (c.2.1.headD x)).cells t → Prot b.id Ui t := by
      intro t ht
      rcases ht with ht | ht | ht
      · exact Or.inl ht
      · exact hmine t ht
      · exact Or.inr (Or.inl (a2 t (by rw [hycells]; exact ht)))
    have hpre : preload st0 [x] [c.2.1.headD x] stA = preload st0 [x] c.2.1 stA := by rw [← hsingle]
    have hag : Agree (Prot b.id Ui) c.1.st (preload st0 [x] [c.2.1.headD x] stA) := by
      rw [hpre]
      intro t ht
      by_cases hin : t ∈ cellsOf c.2.1
      · obtain ⟨s, hs, hp⟩ := preload_inside st0 [x] c.2.1 stA t c1 hin
        rw [hp, c2 (t, s) hs]
        exact (hprist s (by simpa [cellsOf] using (List.of_mem_zip hs).2)).1
      · rw [preload_outside st0 [x] c.2.1 stA t hin, a3 t hin]
        exact hagree t ht
    obtain ⟨e1, e2⟩ := act_agree hloc _ b.st (.fill (c.2.1.headD x)) hW hag
    refine ⟨by rw [e1], by rw [e1], by rw [e1], e2, ?_, (act_refs hloc _ b.st _ hW _).1⟩
    intro t ht
    have hnot : t ∉ cellsOf c.2.1 := fun hin => ht (Or.inr (Or.inl (a2 t hin)))
    refine ⟨by rw [act_frame hloc _ b.st _ hW _ t ht, a3 t hnot], ?_⟩
    rw [act_frame hloc _ b.st _ hW _ t ht, hpre, preload_outside st0 [x] c.2.1 stA t hnot]


theorem outside_outsideI {i : Nat} {Ui F : List Tok} {P : Tok → Prop} {b : Branch σ S C} (h : Outside i P b)
    (hP : ∀ t, (Prot i Ui t ∨ t ∈ F) → P t) : OutsideI i Ui F b :=
  ⟨h.1, h.2.1, fun t ht => ⟨fun hp => h.2.2.2 t ht (hP t (Or.inl hp)), fun hf => h.2.2.2 t ht (hP t (Or.inr hf))⟩⟩

theorem Sim.weakenF {i : Nat} {st0 : Store C} {Ui F F' : List Tok} {w : World C} {act : List (Branch σ S C)}
    {stA : Store C} {b : Branch σ S C} (h : Sim i st0 Ui F w act stA b) (hF : ∀ t ∈ F', t ∈ F) :
    Sim i st0 Ui F' w act stA b := by
  obtain ⟨pre, suf, hact, hout⟩ := h.split
  exact ⟨⟨pre, suf, hact, fun b' hb' => ⟨(hout b' hb').1, (hout b' hb').2.1,
      fun t ht => ⟨((hout b' hb').2.2 t ht).1, fun hf => ((hout b' hb').2.2 t ht).2 (hF t hf)⟩⟩⟩,
    h.bid, h.loc, h.mine, fun t ht => ⟨(h.ui t ht).1, fun hf => (h.ui t ht).2 (hF t hf)⟩,
    fun t ht => h.fup t (hF t ht), fun t ht => h.prist t (hF t ht), h.agree⟩

/-- one value filled into the branches, seen from branch `i` -/
theorem fillG_sim (i : Nat) (st0 : Store C) (Ui Fut : List Tok) (lastOrig : Bool) (x : Item S) (w : World C)
    (act : List (Branch σ S C)) (stA : Store C) (b : Branch σ S C)
    (hsim : Sim i st0 Ui (x.cells ++ Fut) w act stA b) (hdisj : ∀ t ∈ x.cells, t ∉ Fut) :
    (proj i (fillG lastOrig x w act).evs = [] ∧ (fillG lastOrig x w act).stopped = true ∧
      Sim i st0 Ui [] (fillG lastOrig x w act).w (fillG lastOrig x w act).brs stA b) ∨
    ∃ y copied,
      y.skel = x.skel ∧ (copied = false → y = x) ∧ (copied = true → ∀ t ∈ y.cells, t.1 = copyNsOf i) ∧
      proj i (fillG lastOrig x w act).evs = (aloneFill st0 x y copied stA b).1 ∧
      ((aloneFill st0 x y copied stA b).2.2.2 = true → (fillG lastOrig x w act).stopped = true) ∧
      Sim i st0 (UiNext copied Ui [x]) [] (fillG lastOrig x w act).w (fillG lastOrig x w act).brs
        (aloneFill st0 x y copied stA b).2.1 (aloneFill st0 x y copied stA b).2.2.1 ∧
      ((fillG lastOrig x w act).stopped = false →
        Sim i st0 (UiNext copied Ui [x]) Fut (fillG lastOrig x w act).w (fillG lastOrig x w act).brs
          (aloneFill st0 x y copied stA b).2.1 (aloneFill st0 x y copied stA b).2.2.1) := by
  obtain ⟨pre, suf, hact, hout⟩ := hsim.split
  subst hact
  have huiup : ∀ t ∈ Ui, t.1 = upNs := fun t ht => (hsim.ui t ht).1
  have hxup : ∀ t ∈ x.cells, t.1 = upNs := fun t ht => hsim.fup t (List.mem_append_left _ ht)
  rw [fillG_append lastOrig x (b :: suf) (by simp) pre w]
  obtain ⟨p1, p2, p3⟩ := fillG_others i (fun t => Prot i Ui t ∨ t ∈ x.cells ++ Fut) false x (by simp) pre w
    (fun b' hb' => outsideI_outside (hout b' (List.mem_append_left _ hb')) huiup (fun t ht => ⟨hsim.fup t ht, ht⟩))
  generalize fillG false x w pre = R at p1 p2 p3
  split
  · refine Or.inl ⟨p2, rfl, ⟨R.brs, suf, rfl, ?_⟩, hsim.bid, hsim.loc, hsim.mine,
      fun t ht => ⟨huiup t ht, by simp⟩, by simp, by simp, fun t ht => by rw [p1 t (Or.inl ht)]; exact hsim.agree t ht⟩
    intro b' hb'
    rcases List.mem_append.mp hb' with hb' | hb'
    · exact outside_outsideI (p3 b' hb') (by intro t ht; rcases ht with ht | ht; exact Or.inl ht; simp at ht)
    · obtain ⟨o1, o2, o3⟩ := hout b' (List.mem_append_right _ hb')
      exact ⟨o1, o2, fun t ht => ⟨(o3 t ht).1, by simp⟩⟩
  · right
    obtain ⟨y, t1, t2, t3, t4, t5, t6, t7, t8, t9⟩ := fillOne_sim i st0 Ui x (!suf.isEmpty || !lastOrig) R.w stA b
      hsim.bid hsim.loc hsim.mine hxup
      (fun t ht => by rw [p1 t (Or.inl ht)]; exact hsim.agree t ht)
      (fun t ht => by
        have := hsim.prist t (List.mem_append_left _ ht)
        exact ⟨by rw [p1 t (Or.inr (List.mem_append_left _ ht))]; exact this.1, this.2⟩)
    have hTproj : proj i (fillOne (!suf.isEmpty || !lastOrig) x R.w b).1 = (fillOne (!suf.isEmpty || !lastOrig) x R.w b).1 :=
      proj_all i _ (by intro e he; rw [← hsim.bid]; exact fillOne_branch _ _ _ _ e he)
    obtain ⟨fb1, _, fb3⟩ := fillOne_br (!suf.isEmpty || !lastOrig) x R.w b
    refine ⟨y, (!suf.isEmpty || !lastOrig), t1, t2, t3, ?_⟩
    rw [fillG_cons]
    generalize hT : fillOne (!suf.isEmpty || !lastOrig) x R.w b = T at t4 t5 t6 t7 t8 t9 hTproj fb1 fb3
    have hxNot : ∀ t ∈ x.cells, ¬ Prot i Ui t := by
      intro t ht hp
      have hu := hxup t ht
      have nf := ns_facts i i
      rcases hp with hp | hp | hp
      · exact nf.2.2.2.1 (by rw [← hp, hu])
      · exact nf.2.2.2.2 (by rw [← hp, hu])
      · exact (hsim.ui t hp).2 (List.mem_append_left _ ht)
    have hFutNot : ∀ t ∈ Fut, ¬ Prot i (UiNext (!suf.isEmpty || !lastOrig) Ui [x]) t := by
      intro t ht hp
      have hu := hsim.fup t (List.mem_append_right _ ht)
      have nf := ns_facts i i
      rcases hp with hp | hp | hp
      · exact nf.2.2.2.1 (by rw [← hp, hu])
      · exact nf.2.2.2.2 (by rw [← hp, hu])
      · simp only [UiNext] at hp
        split at hp
        · exact (hsim.ui t hp).2 (List.mem_append_right _ ht)
        · rcases List.mem_append.mp hp with hp | hp
          · exact (hsim.ui t hp).2 (List.mem_append_right _ ht)
          · exact hdisj t (by simpa [cellsOf] using hp) ht
    have hpreOut : ∀ (F' : List Tok), (∀ t ∈ F', t ∈ Fut) → ∀ b' ∈ R.brs,
        OutsideI i (UiNext (!suf.isEmpty || !lastOrig) Ui [x]) F' b' := by
      intro F' hF' b' hb'
      refine outside_outsideI (p3 b' hb') ?_
      intro t ht
      rcases ht with ht | ht
      · rcases ht with ht | ht | ht
        · exact Or.inl (Or.inl ht)
        · exact Or.inl (Or.inr (Or.inl ht))
        · simp only [UiNext] at ht
          split at ht
          · exact Or.inl (Or.inr (Or.inr ht))
          · rcases List.mem_append.mp ht with ht | ht
            · exact Or.inl (Or.inr (Or.inr ht))
            · exact Or.inr (List.mem_append_left _ (by simpa [cellsOf] using ht))
      · exact Or.inr (List.mem_append_right _ (hF' t ht))
    have huiNext : ∀ (F' : List Tok), (∀ t ∈ F', t ∈ Fut) → ∀ t ∈ UiNext (!suf.isEmpty || !lastOrig) Ui [x],
        t.1 = upNs ∧ t ∉ F' := by
      intro F' hF' t ht
      simp only [UiNext] at ht
      split at ht
      · exact ⟨huiup t ht, fun hf => (hsim.ui t ht).2 (List.mem_append_right _ (hF' t hf))⟩
      · rcases List.mem_append.mp ht with ht | ht
        · exact ⟨huiup t ht, fun hf => (hsim.ui t ht).2 (List.mem_append_right _ (hF' t hf))⟩
        · have hx : t ∈ x.cells := by simpa [cellsOf] using ht
          exact ⟨hxup t hx, fun hf => hdisj t hx (hF' t hf)⟩
    split
    · -- branch `i` raised LenaStopFill
      rename_i hstop
      refine ⟨by simp only; rw [proj_append, p2, hTproj, t4]; rfl, fun _ => rfl, ?_, fun h => by simp at h⟩
      simp only
      refine ⟨⟨R.brs, suf, by rw [t5], ?_⟩, by rw [← t5, fb1]; exact hsim.bid,
        by rw [← t5, fb3]; exact hsim.loc, by rw [← t5, fb3]; exact t9, huiNext [] (by simp), by simp, by simp, t7⟩
      intro b' hb'
      rcases List.mem_append.mp hb' with hb' | hb'
      · exact hpreOut [] (by simp) b' hb'
      · obtain ⟨o1, o2, o3⟩ := hout b' (List.mem_append_right _ hb')
        have hm : (!suf.isEmpty || !lastOrig) = true := by
          cases suf with
          | nil => exact absurd hb' (List.not_mem_nil)
          | cons _ _ => rfl
        refine ⟨o1, o2, fun t ht => ⟨?_, List.not_mem_nil⟩⟩
        rw [hm]
        simp only [UiNext, if_true]
        exact (o3 t ht).1
    · rename_i hstop
      -- the branches after `i`
      have hq : (∀ t, (Prot i (UiNext (!suf.isEmpty || !lastOrig) Ui [x]) t ∨ t ∈ Fut) →
            (fillG lastOrig x T.2.1 suf).w.st t = T.2.1.st t) ∧
          proj i (fillG lastOrig x T.2.1 suf).evs = [] ∧
          (∀ b' ∈ (fillG lastOrig x T.2.1 suf).brs,
            Outside i (fun t => Prot i (UiNext (!suf.isEmpty || !lastOrig) Ui [x]) t ∨ t ∈ Fut) b') := by
        cases hsuf : suf with
        | nil => simp [fillG, proj]
        | cons b2 suf' =>
          rw [← hsuf]
          have hm : (!suf.isEmpty || !lastOrig) = true := by rw [hsuf]; simp
          refine fillG_others i _ lastOrig x ?_ suf T.2.1 ?_
          · intro _ t ht hp
            rcases hp with hp | hp
            · rw [hm] at hp
              simp only [UiNext, if_true] at hp
              exact hxNot t ht hp
            · exact hdisj t ht hp
          · intro b' hb'
            rw [hm]
            simp only [UiNext, if_true]
            exact outsideI_outside (hout b' (List.mem_append_right _ hb')) huiup
              (fun t ht => ⟨hsim.fup t (List.mem_append_right _ ht), List.mem_append_right _ ht⟩)
      obtain ⟨q1, q2, q3⟩ := hq
      generalize fillG lastOrig x T.2.1 suf = Q at q1 q2 q3
      have hSim : Sim i st0 (UiNext (!suf.isEmpty || !lastOrig) Ui [x]) Fut Q.w (R.brs ++ T.2.2.1 :: Q.brs)
          (aloneFill st0 x y (!suf.isEmpty || !lastOrig) stA b).2.1 (aloneFill st0 x y (!suf.isEmpty || !lastOrig) stA b).2.2.1 := by
        have hothers : ∀ b' ∈ R.brs ++ Q.brs, OutsideI i (UiNext (!suf.isEmpty || !lastOrig) Ui [x]) Fut b' := by
          intro b' hb'
          rcases List.mem_append.mp hb' with hb' | hb'
          · exact hpreOut Fut (fun t ht => ht) b' hb'
          · exact outside_outsideI (q3 b' hb') (fun t ht => ht)
        refine ⟨⟨R.brs, Q.brs, by rw [t5], hothers⟩, by rw [← t5, fb1]; exact hsim.bid,
          by rw [← t5, fb3]; exact hsim.loc, by rw [← t5, fb3]; exact t9, huiNext Fut (fun t ht => ht),
          fun t ht => hsim.fup t (List.mem_append_right _ ht), ?_, ?_⟩
        · intro t ht
          have hnp := hFutNot t ht
          have hpr := hsim.prist t (List.mem_append_right _ ht)
          refine ⟨?_, by rw [(t8 t hnp).2]; exact hpr.2⟩
          rw [q1 t (Or.inr ht), (t8 t hnp).1, p1 t (Or.inr (List.mem_append_right _ ht))]
          exact hpr.1
        · intro t ht
          rw [q1 t (Or.inl ht)]
          exact t7 t ht
      refine ⟨by simp only; rw [proj_append, proj_append, p2, hTproj, q2, t4]; simp, ?_, hSim.weakenF (by simp), fun _ => hSim⟩
      intro h; rw [← t6] at h; exact absurd h hstop

/-! ## a whole flow -/

theorem aloneFillLife_nil (st0 st : Store C) (b : Branch σ S C) :
    aloneFillLife st0 st b [] = ([], st, b, false) := rfl

theorem fillFlow_sim (i : Nat) (st0 : Store C) (lastOrig : Bool) : ∀ (flow : List (Item S)) (Ui : List Tok)
    (w : World C) (act : List (Branch σ S C)) (stA : Store C) (b : Branch σ S C),
    Sim i st0 Ui (cellsOf flow) w act stA b → (cellsOf flow).Nodup →
    ∃ sched : List (Item S × Item S × Bool),
      sched.map (·.1) = flow.take sched.length ∧ (∀ e ∈ sched, FillOK i e) ∧
      proj i (fillFlow (fillG lastOrig) w act flow).evs = (aloneFillLife st0 stA b sched).1 ∧
      ∃ Ui', Sim i st0 Ui' [] (fillFlow (fillG lastOrig) w act flow).w (fillFlow (fillG lastOrig) w act flow).brs
        (aloneFillLife st0 stA b sched).2.1 (aloneFillLife st0 stA b sched).2.2.1 := by
  intro flow
  induction flow with
  | nil =>
    intro Ui w act stA b hsim _
    exact ⟨[], rfl, by simp, by simp [fillFlow, aloneFillLife, proj], Ui, by simpa [fillFlow, aloneFillLife] using hsim⟩
  | cons x xs ih =>
    intro Ui w act stA b hsim hnd
    rw [cellsOf_cons] at hsim hnd
    rw [List.nodup_append] at hnd
    have hdisj : ∀ t ∈ x.cells, t ∉ cellsOf xs := fun t ht hin => hnd.2.2 t ht t hin rfl
    unfold fillFlow
    simp only
    rcases fillG_sim i st0 Ui (cellsOf xs) lastOrig x w act stA b hsim hdisj with ⟨h1, h2, h3⟩ | ⟨y, copied, s1, s2, s3, s4, s5, s6, s7⟩
    · refine ⟨[], rfl, by simp, ?_, Ui, ?_⟩
      · simp only [h2, if_true, h1, aloneFillLife]
      · simpa only [h2, if_true, aloneFillLife_nil] using h3
    · cases hst : (fillG lastOrig x w act).stopped with
      | true =>
        refine ⟨[(x, y, copied)], by simp, ?_, ?_, UiNext copied Ui [x], ?_⟩
        · intro e he; simp at he; subst he; exact ⟨s1, s2, s3⟩
        · simp only [if_true, s4, aloneFillLife]
          split
          · rfl
          · simp
        · simp only [if_true, aloneFillLife]
          split
          · exact s6
          · simpa using s6
      | false =>
        have hns : (aloneFill st0 x y copied stA b).2.2.2 = false := by
          cases h : (aloneFill st0 x y copied stA b).2.2.2 with
          | false => rfl
          | true => rw [s5 h] at hst; exact absurd hst (by simp)
        obtain ⟨sched, r1, r2, r3, Ui', r4⟩ := ih (UiNext copied Ui [x]) (fillG lastOrig x w act).w (fillG lastOrig x w act).brs
          (aloneFill st0 x y copied stA b).2.1 (aloneFill st0 x y copied stA b).2.2.1 (s7 hst) hnd.2.1
        refine ⟨(x, y, copied) :: sched, by simp [r1], ?_, ?_, Ui', ?_⟩
        · intro e he
          rcases List.mem_cons.mp he with rfl | he
          · exact ⟨s1, s2, s3⟩
          · exact r2 e he
        · simp only [Bool.false_eq_true, if_false, aloneFillLife, hns]
          rw [proj_append, s4, r3]
        · simpa only [Bool.false_eq_true, if_false, aloneFillLife, hns] using r4

/-- the simulation relation holds at the start: all branches refer to their own objects only -/
theorem sim_init (brs : List (Branch σ S C)) (w : World C) (F : List Tok) (hF : ∀ t ∈ F, t.1 = upNs)
    (hids : (brs.map (·.id)).Nodup) (hloc : ∀ b ∈ brs, Local b.ops (ownNs b.id))
    (hrefs : ∀ b ∈ brs, ∀ t ∈ b.ops.refs b.st, t.1 = ownNs b.id) (b : Branch σ S C) (hb : b ∈ brs) :
    Sim b.id w.st [] F w brs w.st b := by
  obtain ⟨pre, suf, hsplit⟩ := List.append_of_mem hb
  have hothers : ∀ b' ∈ pre ++ suf, b'.id ≠ b.id := by
    intro b' hb' heq
    rw [hsplit, List.map_append, List.map_cons, List.nodup_append] at hids
    obtain ⟨_, h2, h3⟩ := hids
    rw [List.nodup_cons] at h2
    rcases List.mem_append.mp hb' with hb' | hb'
    · exact h3 b'.id (List.mem_map_of_mem hb') b.id (List.mem_cons_self ..) heq
    · exact h2.1 (by rw [← heq]; exact List.mem_map_of_mem hb')
  refine ⟨⟨pre, suf, hsplit, ?_⟩, rfl, hloc b hb, ?_, by simp, hF, fun t _ => ⟨rfl, rfl⟩, fun t _ => rfl⟩
  · intro b' hb'
    have hmem : b' ∈ brs := by
      rw [hsplit]
      rcases List.mem_append.mp hb' with h | h
      · exact List.mem_append_left _ h
      · exact List.mem_append_right _ (List.mem_cons_of_mem _ h)
    have nf := ns_facts b'.id b.id
    refine ⟨hothers b' hb', hloc b' hmem, fun t ht => ?_⟩
    have hns := hrefs b' hmem t ht
    refine ⟨fun hp => ?_, fun hf => nf.2.2.2.1 (by rw [← hns, hF t hf])⟩
    rcases hp with hp | hp | hp
    · exact hothers b' hb' (nf.1.mp (by rw [← hns, hp]))
    · exact nf.2.2.1 (by rw [← hns, hp])
    · simp at hp
  · intro t ht
    exact Or.inl (hrefs b hb t ht)

theorem fillFlow_congr (f g : Item S → World C → List (Branch σ S C) → FillAllRes σ S C)
    (h : ∀ x w brs, f x w brs = g x w brs) : ∀ (flow : List (Item S)) (w : World C) (brs : List (Branch σ S C)),
    fillFlow f w brs flow = fillFlow g w brs flow := by
  intro flow
  induction flow with
  | nil => intro w brs; rfl
  | cons x xs ih => intro w brs; simp only [fillFlow, h, ih]

/-! ## `compute()` / `request()` after the filling -/

theorem collect_append (req : Req S) (ev : Nat → Ev S C) : ∀ (pre suf : List (Branch σ S C)) (st : Store C),
    collect req ev st (pre ++ suf) =
      ((collect req ev st pre).1 ++ (collect req ev (collect req ev st pre).2.1 suf).1,
       (collect req ev (collect req ev st pre).2.1 suf).2.1,
       (collect req ev st pre).2.2 ++ (collect req ev (collect req ev st pre).2.1 suf).2.2) := by
  intro pre
  induction pre with
  | nil => intro suf st; simp [collect]
  | cons b rest ih =>
    intro suf st
    simp only [List.cons_append, collect, ih]
    simp [List.append_assoc]

theorem collect_others (i : Nat) (P : Tok → Prop) (req : Req S) (hreq : req.cells = []) (ev : Nat → Ev S C)
    (hev : ∀ j, (ev j).branch = some j) : ∀ (pre : List (Branch σ S C)) (st : Store C),
    (∀ b ∈ pre, Outside i P b) →
    (∀ t, P t → (collect req ev st pre).2.1 t = st t) ∧ proj i (collect req ev st pre).1 = [] := by
  intro pre
  induction pre with
  | nil => intro st _; simp [collect, proj]
  | cons b rest ih =>
    intro st hout
    obtain ⟨hid, hloc, hns, hrefs⟩ := hout b (List.mem_cons_self ..)
    have hW : ∀ t, foot (ownNs b.id) (b.ops.refs b.st) req.cells t → ¬ P t := by
      intro t ht hp
      rcases ht with ht | ht | ht
      · exact (hns t hp).1 ht
      · exact hrefs t ht hp
      · rw [hreq] at ht; simp at ht
    obtain ⟨i1, i2⟩ := ih (b.ops.act st b.st req).1 (fun b' hb' => hout b' (List.mem_cons_of_mem _ hb'))
    simp only [collect]
    refine ⟨fun t hp => by rw [i1 t hp, act_frame hloc (fun t => ¬ P t) _ _ hW _ t (fun h => h hp)], ?_⟩
    have h1 : proj i (ev b.id :: outsEv b.id (b.ops.act st b.st req).1 (b.ops.act st b.st req).2.2.outs) = [] := by
      apply proj_none i b.id hid
      intro e he
      rcases List.mem_cons.mp he with rfl | he
      · exact hev b.id
      · exact outsEv_branch _ _ _ e he
    rw [show ev b.id :: outsEv b.id (b.ops.act st b.st req).1 (b.ops.act st b.st req).2.2.outs ++
          (collect req ev (b.ops.act st b.st req).1 rest).1 =
        (ev b.id :: outsEv b.id (b.ops.act st b.st req).1 (b.ops.act st b.st req).2.2.outs) ++
          (collect req ev (b.ops.act st b.st req).1 rest).1 from rfl, proj_append, h1, i2]
    rfl

/-- what branch `i` yields in `Split._compute()` / `_request()` (and when the sequences of a `Zip` are computed in
turn) is what it yields alone -/
theorem collect_sim (i : Nat) (st0 : Store C) (Ui : List Tok) (req : Req S) (hreq : req.cells = [])
    (ev : Nat → Ev S C) (hev : ∀ j, (ev j).branch = some j) (w : World C) (act : List (Branch σ S C))
    (stA : Store C) (b : Branch σ S C) (hsim : Sim i st0 Ui [] w act stA b) :
    proj i (collect req ev w.st act).1 =
      ev i :: outsEv i (b.ops.act stA b.st req).1 (b.ops.act stA b.st req).2.2.outs := by
  obtain ⟨pre, suf, hact, hout⟩ := hsim.split
  subst hact
  have huiup : ∀ t ∈ Ui, t.1 = upNs := fun t ht => (hsim.ui t ht).1
  have hoP : ∀ b' ∈ pre ++ suf, Outside i (fun t => Prot i Ui t ∨ t ∈ ([] : List Tok)) b' :=
    fun b' hb' => outsideI_outside (hout b' hb') huiup (by intro t ht; simp at ht)
  obtain ⟨p1, p2⟩ := collect_others i _ req hreq ev hev pre w.st (fun b' hb' => hoP b' (List.mem_append_left _ hb'))
  rw [collect_append, proj_append, p2]
  simp only [collect, List.nil_append]
  have hb := hsim.bid
  subst hb
  have hW : ∀ t, foot (ownNs b.id) (b.ops.refs b.st) req.cells t → Prot b.id Ui t := by
    intro t ht
    rcases ht with ht | ht | ht
    · exact Or.inl ht
    · exact hsim.mine t ht
    · rw [hreq] at ht; simp at ht
  have hag : Agree (Prot b.id Ui) (collect req ev w.st pre).2.1 stA := by
    intro t ht
    rw [p1 t (Or.inl ht)]
    exact hsim.agree t ht
  obtain ⟨a1, a2⟩ := act_agree hsim.loc (Prot b.id Ui) b.st req hW hag
  have ho := (act_refs hsim.loc (Prot b.id Ui) b.st req hW (collect req ev w.st pre).2.1).2
  obtain ⟨_, q2⟩ := collect_others b.id _ req hreq ev hev suf (b.ops.act (collect req ev w.st pre).2.1 b.st req).1
    (fun b' hb' => hoP b' (List.mem_append_right _ hb'))
  rw [show ev b.id :: outsEv b.id (b.ops.act (collect req ev w.st pre).2.1 b.st req).1
          (b.ops.act (collect req ev w.st pre).2.1 b.st req).2.2.outs ++
        (collect req ev (b.ops.act (collect req ev w.st pre).2.1 b.st req).1 suf).1 =
      (ev b.id :: outsEv b.id (b.ops.act (collect req ev w.st pre).2.1 b.st req).1
          (b.ops.act (collect req ev w.st pre).2.1 b.st req).2.2.outs) ++
        (collect req ev (b.ops.act (collect req ev w.st pre).2.1 b.st req).1 suf).1 from rfl,
    proj_append, q2, List.append_nil, outsEv_agree b.id (Prot b.id Ui) a2 _ ho, a1]
  apply proj_all
  intro e he
  rcases List.mem_cons.mp he with rfl | he
  · exact hev b.id
  · exact outsEv_branch _ _ _ e he

/-- `Split._fill` (`lastOrig = true`) and `Zip._fill` (`lastOrig = false`): every branch is filled as if alone -/
theorem fillG_alone (lastOrig : Bool) (brs : List (Branch σ S C)) (w : World C) (flow : List (Item S))
    (hup : ∀ t ∈ cellsOf flow, t.1 = upNs) (hnd : (cellsOf flow).Nodup)
    (hids : (brs.map (·.id)).Nodup) (hloc : ∀ b ∈ brs, Local b.ops (ownNs b.id))
    (hrefs : ∀ b ∈ brs, ∀ t ∈ b.ops.refs b.st, t.1 = ownNs b.id) (b : Branch σ S C) (hb : b ∈ brs) :
    ∃ sched : List (Item S × Item S × Bool),
      sched.map (·.1) = flow.take sched.length ∧ (∀ e ∈ sched, FillOK b.id e) ∧
      proj b.id (fillFlow (fillG lastOrig) w brs flow).evs = (aloneFillLife w.st w.st b sched).1 ∧
      ∀ (req : Req S) (ev : Nat → Ev S C), req.cells = [] → (∀ j, (ev j).branch = some j) →
        proj b.id (collect req ev (fillFlow (fillG lastOrig) w brs flow).w.st (fillFlow (fillG lastOrig) w brs flow).brs).1 =
          ev b.id :: outsEv b.id
            ((aloneFillLife w.st w.st b sched).2.2.1.ops.act (aloneFillLife w.st w.st b sched).2.1
              (aloneFillLife w.st w.st b sched).2.2.1.st req).1
            ((aloneFillLife w.st w.st b sched).2.2.1.ops.act (aloneFillLife w.st w.st b sched).2.1
              (aloneFillLife w.st w.st b sched).2.2.1.st req).2.2.outs := by
  obtain ⟨sched, r1, r2, r3, Ui', r4⟩ := fillFlow_sim b.id w.st lastOrig flow [] w brs w.st b
    (sim_init brs w (cellsOf flow) hup hids hloc hrefs b hb) hnd
  exact ⟨sched, r1, r2, r3, fun req ev hreq hev => collect_sim b.id w.st Ui' req hreq ev hev _ _ _ _ r4⟩

end Lena.C04
