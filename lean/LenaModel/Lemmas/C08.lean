import LenaModel.Model.C08
import LenaModel.Model.C08Spec
/-! # C08 — helper lemmas: dictionary primitives, well-formedness, the path algebra of
`ucSet` / `delPath` / `updRec`, splitting of dotted strings -/
namespace Lena.C08
/-! ## decidable equality (for the `example`s; `deriving` does not handle the nested type) -/
mutual
def Val.beq : Val → Val → Bool
  | .leaf a, .leaf b => decide (a = b)
  | .dict a, .dict b => beqEntries a b
  | .list a, .list b => beqList a b
  | _, _ => false
def beqEntries : Entries → Entries → Bool
  | [], [] => true
  | (k, v) :: r, (k', v') :: r' => decide (k = k') && Val.beq v v' && beqEntries r r'
  | _, _ => false
def beqList : List Val → List Val → Bool
  | [], [] => true
  | v :: r, v' :: r' => Val.beq v v' && beqList r r'
  | _, _ => false
end

mutual
theorem Val.beq_iff : ∀ a b : Val, Val.beq a b = true ↔ a = b
  | .leaf a, .leaf b => by simp [Val.beq]
  | .dict a, .dict b => by simp [Val.beq, beqEntries_iff a b]
  | .list a, .list b => by simp [Val.beq, beqList_iff a b]
  | .leaf _, .dict _ => by simp [Val.beq]
  | .leaf _, .list _ => by simp [Val.beq]
  | .dict _, .leaf _ => by simp [Val.beq]
  | .dict _, .list _ => by simp [Val.beq]
  | .list _, .leaf _ => by simp [Val.beq]
  | .list _, .dict _ => by simp [Val.beq]
theorem beqEntries_iff : ∀ a b : Entries, beqEntries a b = true ↔ a = b
  | [], [] => by simp [beqEntries]
  | (k, v) :: r, (k', v') :: r' => by simp [beqEntries, Val.beq_iff v v', beqEntries_iff r r', and_assoc]
  | [], _ :: _ => by simp [beqEntries]
  | _ :: _, [] => by simp [beqEntries]
theorem beqList_iff : ∀ a b : List Val, beqList a b = true ↔ a = b
  | [], [] => by simp [beqList]
  | v :: r, v' :: r' => by simp [beqList, Val.beq_iff v v', beqList_iff r r']
  | [], _ :: _ => by simp [beqList]
  | _ :: _, [] => by simp [beqList]
end

instance : DecidableEq Val := fun a b =>
  if h : Val.beq a b = true then isTrue ((Val.beq_iff a b).1 h)
  else isFalse (fun e => h ((Val.beq_iff a b).2 e))

deriving instance DecidableEq for Except
deriving instance DecidableEq for Item

/-! ## dictionary primitives -/

@[simp] theorem lookup_nil (k : String) : lookup [] k = none := rfl

theorem lookup_cons (k : String) (v : Val) (r : Entries) (key : String) :
    lookup ((k, v) :: r) key = if k = key then some v else lookup r key := rfl

theorem lookup_setKey_same (d : Entries) (k : String) (v : Val) : lookup (setKey d k v) k = some v := by
  induction d with
  | nil => simp [setKey, lookup]
  | cons e r ih =>
    obtain ⟨k', w⟩ := e
    by_cases h : k' = k
    · simp [setKey, lookup, h]
    · simp [setKey, lookup, h, ih]

theorem lookup_setKey_other (d : Entries) (k k' : String) (v : Val) (h : k' ≠ k) :
    lookup (setKey d k v) k' = lookup d k' := by
  induction d with
  | nil => simp [setKey, lookup, Ne.symm h]
  | cons e r ih =>
    obtain ⟨k'', w⟩ := e
    by_cases h2 : k'' = k
    · subst h2; simp [setKey, lookup, Ne.symm h]
    · by_cases h3 : k'' = k'
      · subst h3; simp [setKey, lookup, h]
      · simp [setKey, lookup, h2, h3, ih]

theorem lookup_eraseKey_other (d : Entries) (k k' : String) (h : k' ≠ k) :
    lookup (eraseKey d k) k' = lookup d k' := by
  induction d with
  | nil => simp [eraseKey]
  | cons e r ih =>
    obtain ⟨k'', w⟩ := e
    by_cases h2 : k'' = k
    · subst h2; simp [eraseKey, lookup, Ne.symm h]
    · by_cases h3 : k'' = k'
      · subst h3; simp [eraseKey, lookup, h]
      · simp [eraseKey, lookup, h2, h3, ih]

/-! ## well-formed dictionaries: no key twice, at every depth -/
mutual
def Val.WF : Val → Prop
  | .leaf _ => True
  | .dict es => EntriesWF es
  | .list xs => ListWF xs
def EntriesWF : Entries → Prop
  | [] => True
  | (k, v) :: r => lookup r k = none ∧ v.WF ∧ EntriesWF r
def ListWF : List Val → Prop
  | [] => True
  | v :: r => v.WF ∧ ListWF r
end

theorem lookup_eraseKey_same (d : Entries) (k : String) (h : EntriesWF d) : lookup (eraseKey d k) k = none := by
  induction d with
  | nil => simp [eraseKey]
  | cons e r ih =>
    obtain ⟨k', w⟩ := e
    simp only [EntriesWF] at h
    by_cases h2 : k' = k
    · subst h2; simp [eraseKey, h.1]
    · simp [eraseKey, lookup, h2, ih h.2.2]


/-! ## paths -/

@[simp] theorem getPath_nil (v : Val) : getPath v [] = some v := by
  cases v <;> rfl

@[simp] theorem getPath_leaf_cons (a : Leaf) (k : String) (p : List String) : getPath (.leaf a) (k :: p) = none := rfl

@[simp] theorem getPath_list_cons (xs : List Val) (k : String) (p : List String) : getPath (.list xs) (k :: p) = none := rfl

theorem getPath_dict_cons (es : Entries) (k : String) (p : List String) :
    getPath (.dict es) (k :: p) = (lookup es k).bind (fun w => getPath w p) := by
  simp only [getPath]
  cases lookup es k <;> rfl

theorem getPath_singleton (es : Entries) (k : String) : getPath (.dict es) [k] = lookup es k := by
  rw [getPath_dict_cons]
  cases lookup es k <;> simp

theorem getPath_empty_cons (k : String) (p : List String) : getPath (.dict []) (k :: p) = none := by
  simp [getPath_dict_cons]

theorem getPath_subDict (d : Entries) (k k' : String) (p : List String) :
    getPath (.dict (subDict d k)) (k' :: p) = getPath (.dict d) (k :: k' :: p) := by
  rw [getPath_dict_cons d]
  unfold subDict
  cases h : lookup d k with
  | none => simp [getPath_dict_cons]
  | some w =>
    cases w with
    | leaf a => simp [getPath_dict_cons]
    | list xs => simp [getPath_dict_cons]
    | dict e => simp

theorem ucSet_cons2 (rec : Bool) (d : Entries) (k k' : String) (r : List String) (u : Val) :
    ucSet rec d (k :: k' :: r) u = setKey d k (.dict (ucSet rec (subDict d k) (k' :: r) u)) := by
  rw [ucSet]; unfold subDict
  cases lookup d k with
  | none => rfl
  | some w => cases w <;> rfl

theorem updRec_nil (d : Entries) : updRec d [] = d := by simp [updRec]

theorem updRec_cons (d : Entries) (k : String) (v : Val) (r : Entries) :
    updRec d ((k, v) :: r) = updRec (setKey d k (updItem (lookup d k) v)) r := by
  simp [updRec]

theorem ucSet_single (rec : Bool) (d : Entries) (k : String) (u : Val) :
    ucSet rec d [k] u = setKey d k (if rec then updItem (lookup d k) u else u) := by
  cases rec <;> simp [ucSet, updRec_cons, updRec_nil]

/-- after `UpdateContext` the addressed item is the update value (merged into the previous
dictionary when `recursively`) -/
theorem getPath_ucSet_same (rec : Bool) (u : Val) :
    ∀ (p : List String) (d : Entries), p ≠ [] →
      getPath (.dict (ucSet rec d p u)) p = some (if rec then updItem (getPath (.dict d) p) u else u)
  | [], _, h => absurd rfl h
  | [k], d, _ => by
    rw [ucSet_single, getPath_singleton, lookup_setKey_same, getPath_singleton]
  | k :: k' :: r, d, _ => by
    rw [ucSet_cons2, getPath_dict_cons, lookup_setKey_same]
    simp only [Option.bind_some]
    rw [getPath_ucSet_same rec u (k' :: r) (subDict d k) (by simp), getPath_subDict]

/-- every item whose path is not prefix-comparable with the updated path is unchanged -/
theorem getPath_ucSet_frame (rec : Bool) (u : Val) :
    ∀ (p : List String) (d : Entries) (q : List String), p ≠ [] → ¬ p <+: q → ¬ q <+: p →
      getPath (.dict (ucSet rec d p u)) q = getPath (.dict d) q
  | [], _, _, h, _, _ => absurd rfl h
  | _ :: _, _, [], _, _, h2 => absurd List.nil_prefix h2
  | [k], d, k' :: q, _, h1, _ => by
    have hk : k' ≠ k := by
      intro e; subst e; exact h1 (by simp)
    rw [ucSet_single, getPath_dict_cons, lookup_setKey_other _ _ _ _ hk, getPath_dict_cons]
  | k :: k2 :: r, d, k' :: q, _, h1, h2 => by
    rw [ucSet_cons2]
    by_cases hk : k' = k
    · subst hk
      rw [getPath_dict_cons, lookup_setKey_same]
      simp only [Option.bind_some]
      have h1' : ¬ (k2 :: r) <+: q := fun h => h1 (by simpa using h)
      have h2' : ¬ q <+: (k2 :: r) := fun h => h2 (by simpa using h)
      rw [getPath_ucSet_frame rec u (k2 :: r) (subDict d k') q (by simp) h1' h2']
      cases q with
      | nil => exact absurd List.nil_prefix h2'
      | cons x q' => exact getPath_subDict d k' x q'
    · rw [getPath_dict_cons, lookup_setKey_other _ _ _ _ hk, getPath_dict_cons]

/-! ## `DeleteContext` -/

theorem delPath_cons2 (d : Entries) (k k' : String) (r : List String) :
    delPath d (k :: k' :: r) =
      match lookup d k with
      | some (.dict e) => setKey d k (.dict (delPath e (k' :: r)))
      | _ => d := by
  rw [delPath]
  cases lookup d k with
  | none => rfl
  | some w => cases w <;> rfl

/-- after `DeleteContext` the addressed item is absent -/
theorem getPath_delPath_same :
    ∀ (p : List String) (d : Entries), p ≠ [] → EntriesWF d → getPath (.dict (delPath d p)) p = none
  | [], _, h, _ => absurd rfl h
  | [k], d, _, hw => by
    simp only [delPath]
    rw [getPath_singleton, lookup_eraseKey_same d k hw]
  | k :: k' :: r, d, _, hw => by
    rw [delPath_cons2]
    cases h : lookup d k with
    | none => simp [getPath_dict_cons, h]
    | some w =>
      cases w with
      | leaf a => simp [getPath_dict_cons, h]
      | list xs => simp [getPath_dict_cons, h]
      | dict e =>
        simp only
        rw [getPath_dict_cons, lookup_setKey_same]
        simp only [Option.bind_some]
        exact getPath_delPath_same (k' :: r) e (by simp) (lookup_wf d k hw h)
where
  lookup_wf (d : Entries) (k : String) {e : Entries} (hw : EntriesWF d) (h : lookup d k = some (.dict e)) : EntriesWF e := by
    induction d with
    | nil => simp at h
    | cons x r ih =>
      obtain ⟨k', w⟩ := x
      simp only [EntriesWF] at hw
      rw [lookup_cons] at h
      by_cases hk : k' = k
      · simp [hk] at h; subst h; simpa [Val.WF] using hw.2.1
      · simp [hk] at h; exact ih hw.2.2 h

/-- every item whose path does not start with the deleted path, and is not a prefix of it, is unchanged -/
theorem getPath_delPath_frame :
    ∀ (p : List String) (d : Entries) (q : List String), p ≠ [] → ¬ p <+: q → ¬ q <+: p →
      getPath (.dict (delPath d p)) q = getPath (.dict d) q
  | [], _, _, h, _, _ => absurd rfl h
  | _ :: _, _, [], _, _, h2 => absurd List.nil_prefix h2
  | [k], d, k' :: q, _, h1, _ => by
    have hk : k' ≠ k := by
      intro e; subst e; exact h1 (by simp)
    simp only [delPath]
    rw [getPath_dict_cons, lookup_eraseKey_other _ _ _ hk, getPath_dict_cons]
  | k :: k2 :: r, d, k' :: q, _, h1, h2 => by
    rw [delPath_cons2]
    cases h : lookup d k with
    | none => rfl
    | some w =>
      cases w with
      | leaf a => rfl
      | list xs => rfl
      | dict e =>
        simp only
        by_cases hk : k' = k
        · subst hk
          rw [getPath_dict_cons, lookup_setKey_same, getPath_dict_cons, h]
          simp only [Option.bind_some]
          have h1' : ¬ (k2 :: r) <+: q := fun h => h1 (by simpa using h)
          have h2' : ¬ q <+: (k2 :: r) := fun h => h2 (by simpa using h)
          exact getPath_delPath_frame (k2 :: r) e q (by simp) h1' h2'
        · rw [getPath_dict_cons, lookup_setKey_other _ _ _ _ hk, getPath_dict_cons]

/-! ## `update_recursively` -/

theorem updItem_none (v : Val) : updItem none v = v := by
  cases v <;> simp [updItem]

/-- key by key: a key of `other` gets the merged item, every other key keeps its item -/
theorem lookup_updRec : ∀ (o : Entries), EntriesWF o → ∀ (d : Entries) (k : String),
    lookup (updRec d o) k =
      match lookup o k with
      | none => lookup d k
      | some v => some (updItem (lookup d k) v)
  | [], _, d, k => by simp [updRec_nil]
  | (k0, v0) :: r, hw, d, k => by
    simp only [EntriesWF] at hw
    rw [updRec_cons, lookup_updRec r hw.2.2, lookup_cons]
    by_cases hk : k0 = k
    · subst hk
      simp [hw.1, lookup_setKey_same]
    · simp only [hk, if_false]
      rw [lookup_setKey_other _ _ _ _ (Ne.symm hk)]

theorem nestList_eq : ∀ (p : List String) (v : Val), p ≠ [] → nestList p v = .ok (nestPath p v)
  | [], _, h => absurd rfl h
  | [k], v, _ => by simp [nestList, nestPath]
  | k :: k' :: r, v, _ => by
    rw [nestList, nestList_eq (k' :: r) v (by simp)]
    simp [nestPath]

theorem getPath_nestPath : ∀ (p : List String) (v : Val), getPath (nestPath p v) p = some v
  | [], v => by simp [nestPath]
  | k :: r, v => by
    rw [nestPath, getPath_dict_cons]
    simp [lookup, getPath_nestPath r v]

theorem ucSet_empty : ∀ (p : List String) (u : Val), p ≠ [] → Val.dict (ucSet true [] p u) = nestPath p u
  | [], _, h => absurd rfl h
  | [k], u, _ => by
    simp [ucSet_single, setKey, nestPath, updItem_none]
  | k :: k' :: r, u, _ => by
    rw [ucSet_cons2]
    have : subDict [] k = [] := by simp [subDict]
    rw [this, ucSet_empty (k' :: r) u (by simp)]
    simp [setKey, nestPath]

/-- `update_recursively(d, str_to_dict(key, v))` is the recursive assignment of `UpdateContext` -/
theorem updRec_nestPath : ∀ (p : List String) (d : Entries) (u : Val) (k : String),
    updRec d [(k, nestPath p u)] = ucSet true d (k :: p) u
  | [], d, u, k => by
    rw [ucSet_single, updRec_cons, updRec_nil]; simp [nestPath]
  | k' :: r, d, u, k => by
    rw [ucSet_cons2, updRec_cons, updRec_nil, nestPath]
    congr 1
    unfold subDict
    cases h : lookup d k with
    | none =>
      simp only [updItem]
      have := ucSet_empty (k' :: r) u (by simp)
      rw [this, nestPath]
    | some w =>
      cases w with
      | leaf a =>
        simp only [updItem]
        rw [updRec_nestPath r [] u k']
      | list xs =>
        simp only [updItem]
        rw [updRec_nestPath r [] u k']
      | dict e =>
        simp only [updItem]
        rw [updRec_nestPath r e u k']

/-! ## dotted strings -/

theorem splitDotsC_ne_nil (s : List Char) : splitDotsC s ≠ [] := by
  induction s with
  | nil => simp [splitDotsC]
  | cons c cs ih =>
    rw [splitDotsC]
    split
    · simp
    · split <;> simp

theorem splitDotsC_dotfree (w : List Char) (h : '.' ∉ w) : splitDotsC w = [w] := by
  induction w with
  | nil => rfl
  | cons c cs ih =>
    have hc : c ≠ '.' := fun e => h (by simp [e])
    have hcs : '.' ∉ cs := fun e => h (by simp [e])
    rw [splitDotsC, ih hcs]
    simp [hc]

theorem splitDotsC_append_dot (w rest : List Char) (h : '.' ∉ w) :
    splitDotsC (w ++ '.' :: rest) = w :: splitDotsC rest := by
  induction w with
  | nil =>
    simp only [List.nil_append]
    rw [splitDotsC]
    cases hs : splitDotsC rest with
    | nil => exact absurd hs (splitDotsC_ne_nil rest)
    | cons x xs => simp
  | cons c cs ih =>
    have hc : c ≠ '.' := fun e => h (by simp [e])
    have hcs : '.' ∉ cs := fun e => h (by simp [e])
    simp only [List.cons_append]
    rw [splitDotsC, ih hcs]
    simp [hc]

theorem splitDotsC_joinDotsC : ∀ (ws : List (List Char)), ws ≠ [] → (∀ w ∈ ws, '.' ∉ w) →
    splitDotsC (joinDotsC ws) = ws
  | [], h, _ => absurd rfl h
  | [w], _, hw => by
    simp only [joinDotsC]
    exact splitDotsC_dotfree w (hw w (by simp))
  | w :: w' :: ws, _, hw => by
    simp only [joinDotsC]
    rw [splitDotsC_append_dot w _ (hw w (by simp)),
      splitDotsC_joinDotsC (w' :: ws) (by simp) (fun x hx => hw x (by simp [hx]))]

/-- a key path as the property means it: every key is non-empty and has no dot -/
def WFPath (p : List String) : Prop := ∀ k ∈ p, k ≠ "" ∧ '.' ∉ k.toList

theorem splitDots_joinDots (p : List String) (hne : p ≠ []) (h : ∀ k ∈ p, '.' ∉ k.toList) :
    splitDots (joinDots p) = p := by
  unfold splitDots joinDots
  rw [String.toList_ofList, splitDotsC_joinDotsC]
  · simp [List.map_map, Function.comp_def, String.ofList_toList]
  · simpa using hne
  · intro w hw
    simp only [List.mem_map] at hw
    obtain ⟨k, hk, rfl⟩ := hw
    exact h k hk

theorem joinDots_nil : joinDots [] = "" := by
  simp [joinDots, joinDotsC]

theorem joinDotsC_ne_nil : ∀ (ws : List (List Char)), ws ≠ [] → (∀ w ∈ ws, w ≠ []) → joinDotsC ws ≠ []
  | [], h, _ => absurd rfl h
  | [w], _, hw => by simpa [joinDotsC] using hw w (by simp)
  | w :: w' :: ws, _, hw => by
    have := hw w (by simp)
    simp only [joinDotsC]
    cases w with
    | nil => exact absurd rfl this
    | cons c cs => simp

theorem joinDots_ne_empty (p : List String) (hne : p ≠ []) (h : WFPath p) : joinDots p ≠ "" := by
  unfold joinDots
  intro e
  have e' := congrArg String.toList e
  rw [String.toList_ofList] at e'
  refine joinDotsC_ne_nil (p.map String.toList) (by simpa using hne) ?_ (by simpa using e')
  intro w hw
  simp only [List.mem_map] at hw
  obtain ⟨k, hk, rfl⟩ := hw
  intro e2
  exact (h k hk).1 (String.toList_eq_nil_iff.1 e2)

/-! ## the walk of `get_recursively` is the path lookup -/

theorem walk_eq_getPath : ∀ (p : List String) (d : Entries), walk d (p.map Leaf.str) = getPath (.dict d) p
  | [], d => by simp [walk]
  | [k], d => by simp [walk, lookupLeaf, getPath_singleton]
  | k :: k' :: r, d => by
    simp only [List.map_cons, walk, lookupLeaf]
    rw [getPath_dict_cons]
    cases h : lookup d k with
    | none => simp
    | some w =>
      cases w with
      | leaf a => simp
      | list xs => simp
      | dict e =>
        have := walk_eq_getPath (k' :: r) e
        simp only [List.map_cons] at this
        simp [this]

/-! ## the Boolean forms of the hypotheses (executed by the driver) decide them -/

theorem wfPathB_iff (p : List String) : wfPathB p = true ↔ WFPath p := by
  simp only [wfPathB, WFPath, List.all_eq_true, Bool.and_eq_true, bne_iff_ne, ne_eq, Bool.not_eq_true',
    List.contains_eq_mem, decide_eq_false_iff_not]

mutual
theorem valWFB_iff : ∀ v : Val, valWFB v = true ↔ v.WF
  | .leaf a => by simp [valWFB, Val.WF]
  | .dict es => by simp only [valWFB, Val.WF]; exact entriesWFB_iff es
  | .list xs => by simp only [valWFB, Val.WF]; exact listWFB_iff xs
theorem entriesWFB_iff : ∀ es : Entries, entriesWFB es = true ↔ EntriesWF es
  | [] => by simp [entriesWFB, EntriesWF]
  | (k, v) :: r => by
    simp only [entriesWFB, EntriesWF, Bool.and_eq_true, Option.isNone_iff_eq_none, valWFB_iff v, entriesWFB_iff r,
      and_assoc]
theorem listWFB_iff : ∀ xs : List Val, listWFB xs = true ↔ ListWF xs
  | [] => by simp [listWFB, ListWF]
  | v :: r => by simp only [listWFB, ListWF, Bool.and_eq_true, valWFB_iff v, listWFB_iff r]
end

end Lena.C08
