import LenaModel.Model.C11Conc
import LenaModel.Model.C11Spec
import LenaModel.Props.C06
/-! # C11 — lemmas: cells of regular arrays, the walk of `SplitIntoBins.fill`, `md_map` with a raising
function, the lockstep rounds of `_MdSeqMap`.  Core Lean only. -/

namespace Lena.C11

open Lena
open Lena.C06 (Edges Coord)
open Lena.C14 (V Slots Value getSlot setSlot emptyD key)

variable {α β γ σ ρ ε D ο E : Type}

/-! ## cells of a nested array -/

theorem cellAt_isSome_iff : ∀ (dims : List Nat) (a : NArr β) (p : List Nat), NArr.HasShape dims a →
    ((cellAt a p).isSome ↔ PathIn p dims)
  | [], .leaf v, [], _ => by simp [cellAt, PathIn]
  | [], .leaf v, _ :: _, _ => by simp [cellAt, PathIn]
  | [], .node _, _, h => by simp [NArr.HasShape] at h
  | _ :: _, .leaf _, _, h => by simp [NArr.HasShape] at h
  | n :: ns, .node xs, [], _ => by simp [cellAt, PathIn]
  | n :: ns, .node xs, i :: is, h => by
    simp only [NArr.HasShape] at h
    simp only [cellAt, PathIn]
    cases hx : xs[i]? with
    | none =>
      have : xs.length ≤ i := by simpa using hx
      simp; omega
    | some x =>
      have hi := (List.getElem?_eq_some_iff.1 hx)
      have hm : x ∈ xs := by rw [← hi.2]; exact List.getElem_mem _
      have ih := cellAt_isSome_iff ns x is (h.2 x hm)
      simp only [ih]
      constructor
      · intro hp; exact ⟨by have := hi.1; omega, hp⟩
      · intro hp; exact hp.2

theorem cellAt_modifyAt_same (f : β → β) : ∀ (a : NArr β) (p : List Nat) (c : β),
    cellAt a p = some c → cellAt (NArr.modifyAt f a p) p = some (f c)
  | .leaf v, [], c, h => by simp [cellAt] at h; simp [NArr.modifyAt, cellAt, h]
  | .leaf v, _ :: _, c, h => by simp [cellAt] at h
  | .node xs, [], c, h => by simp [cellAt] at h
  | .node xs, i :: is, c, h => by
    simp only [cellAt] at h
    cases hx : xs[i]? with
    | none => simp [hx] at h
    | some x =>
      simp only [hx] at h
      obtain ⟨hi, hxe⟩ := List.getElem?_eq_some_iff.1 hx
      subst hxe
      simp [NArr.modifyAt, cellAt, hi, cellAt_modifyAt_same f _ is c h]

theorem cellAt_modifyAt_other (f : β → β) : ∀ (a : NArr β) (p q : List Nat),
    q ≠ p → cellAt (NArr.modifyAt f a p) q = cellAt a q
  | .leaf v, [], [], h => absurd rfl h
  | .leaf v, [], _ :: _, _ => by simp [NArr.modifyAt, cellAt]
  | .leaf v, _ :: _, q, _ => by simp [NArr.modifyAt]
  | .node xs, [], q, _ => by simp [NArr.modifyAt]
  | .node xs, i :: is, [], _ => by
    simp only [NArr.modifyAt]
    cases hx : xs[i]? <;> simp [cellAt]
  | .node xs, i :: is, j :: js, h => by
    simp only [NArr.modifyAt]
    cases hx : xs[i]? with
    | none => simp
    | some x =>
      obtain ⟨hi, hxe⟩ := List.getElem?_eq_some_iff.1 hx
      subst hxe
      simp only [cellAt]
      by_cases hij : j = i
      · subst hij
        have hne : js ≠ is := fun e => h (by rw [e])
        simp [hi, cellAt_modifyAt_other f _ is js hne]
      · have : i ≠ j := fun e => hij e.symm
        simp [List.getElem?_set_ne this]

theorem hasShape_modifyAt (f : β → β) : ∀ (dims : List Nat) (a : NArr β) (p : List Nat),
    NArr.HasShape dims a → NArr.HasShape dims (NArr.modifyAt f a p)
  | [], .leaf v, [], _ => by simp [NArr.modifyAt, NArr.HasShape]
  | [], .leaf v, _ :: _, _ => by simp [NArr.modifyAt, NArr.HasShape]
  | [], .node _, _, h => by simp [NArr.HasShape] at h
  | _ :: _, .leaf _, _, h => by simp [NArr.HasShape] at h
  | n :: ns, .node xs, [], h => by simpa [NArr.modifyAt] using h
  | n :: ns, .node xs, i :: is, h => by
    simp only [NArr.modifyAt]
    cases hx : xs[i]? with
    | none => simpa using h
    | some x =>
      simp only [NArr.HasShape] at h ⊢
      have hi := (List.getElem?_eq_some_iff.1 hx)
      have hm : x ∈ xs := by rw [← hi.2]; exact List.getElem_mem _
      refine ⟨by simpa using h.1, ?_⟩
      intro y hy
      rcases List.mem_or_eq_of_mem_set hy with hy | hy
      · exact h.2 y hy
      · subst hy; exact hasShape_modifyAt f ns x is (h.2 x hm)

theorem cellAt_full (v : β) : ∀ (dims : List Nat) (p : List Nat) (c : β),
    cellAt (NArr.full dims v) p = some c → c = v
  | [], [], c, h => by simp [NArr.full, cellAt] at h; exact h.symm
  | [], _ :: _, c, h => by simp [NArr.full, cellAt] at h
  | n :: ns, [], c, h => by simp [NArr.full, cellAt] at h
  | n :: ns, i :: is, c, h => by
    simp only [NArr.full, cellAt] at h
    cases hx : (List.replicate n (NArr.full ns v))[i]? with
    | none => simp [hx] at h
    | some x =>
      simp only [hx] at h
      have hi := (List.getElem?_eq_some_iff.1 hx)
      have : x = NArr.full ns v := by rw [← hi.2]; simp
      subst this
      exact cellAt_full v ns is c h

/-! ## the walk of `SplitIntoBins.fill` -/

theorem inRangeB_iff : ∀ (idx : List Int) (dims : List Nat), inRangeB idx dims = true ↔ C06.InRange idx dims
  | [], [] => by simp [inRangeB, C06.InRange]
  | [], _ :: _ => by simp [inRangeB, C06.InRange]
  | _ :: _, [] => by simp [inRangeB, C06.InRange]
  | i :: is, d :: ds => by
    simp only [inRangeB, C06.InRange, Bool.and_eq_true, decide_eq_true_eq, inRangeB_iff is ds]

/-- `pathOf` in terms of `C06.InRange` -/
theorem pathOf_eq (dims : List Nat) (idx : List Int) :
    pathOf dims idx = if C06.InRange idx dims then some (idx.map Int.toNat) else none := by
  unfold pathOf
  by_cases h : C06.InRange idx dims
  · simp [h, (inRangeB_iff idx dims).2 h]
  · have : ¬ inRangeB idx dims = true := fun hb => h ((inRangeB_iff idx dims).1 hb)
    simp [h, this]

theorem pathInB_iff : ∀ (p dims : List Nat), pathInB p dims = true ↔ PathIn p dims
  | [], [] => by simp [pathInB, PathIn]
  | [], _ :: _ => by simp [pathInB, PathIn]
  | _ :: _, [] => by simp [pathInB, PathIn]
  | i :: is, n :: ns => by simp [pathInB, PathIn, pathInB_iff is ns]

theorem inRange_length : ∀ (idx : List Int) (dims : List Nat), C06.InRange idx dims → idx.length = dims.length
  | [], [], _ => rfl
  | [], _ :: _, h => by simp [C06.InRange] at h
  | _ :: _, [], h => by simp [C06.InRange] at h
  | _ :: is, _ :: ds, h => by
    simp only [C06.InRange] at h
    simp [inRange_length is ds h.2]

/-- a bin index with a component outside its axis: the value is ignored, nothing is filled -/
theorem fillWalk_out (fc : σ → Except ε σ) : ∀ (dims : List Nat) (a : NArr σ) (idx : List Int),
    NArr.HasShape dims a → idx.length = dims.length → ¬ C06.InRange idx dims →
    fillWalk fc a idx = .ok none
  | [], .leaf c, [], _, _, h => by simp [C06.InRange] at h
  | [], .leaf c, _ :: _, _, hl, _ => by simp at hl
  | [], .node _, _, h, _, _ => by simp [NArr.HasShape] at h
  | _ :: _, .leaf _, _, h, _, _ => by simp [NArr.HasShape] at h
  | n :: ns, .node xs, [], _, hl, _ => by simp at hl
  | n :: ns, .node xs, i :: is, hs, hl, hr => by
    simp only [NArr.HasShape] at hs
    simp only [C06.InRange] at hr
    simp only [fillWalk]
    by_cases h0 : i < 0
    · simp [h0]
    · simp only [h0, if_false]
      cases hx : xs[i.toNat]? with
      | none => rfl
      | some x =>
        have hi := (List.getElem?_eq_some_iff.1 hx)
        have hm : x ∈ xs := by rw [← hi.2]; exact List.getElem_mem _
        have hin : 0 ≤ i ∧ i < (n : Int) := by have := hi.1; omega
        have hr' : ¬ C06.InRange is ns := fun h => hr ⟨hin, h⟩
        have ih := fillWalk_out fc ns x is (hs.2 x hm) (by simpa using hl) hr'
        simp [ih]

/-- an in-range bin index: exactly the cell at that path is handed to the analysis -/
theorem fillWalk_in (fc : σ → Except ε σ) : ∀ (dims : List Nat) (a : NArr σ) (idx : List Int),
    NArr.HasShape dims a → C06.InRange idx dims →
    ∃ c, cellAt a (idx.map Int.toNat) = some c ∧
      fillWalk fc a idx =
        (match fc c with
         | .error e => .error (.inner e)
         | .ok c' => .ok (some (NArr.modifyAt (fun _ => c') a (idx.map Int.toNat))))
  | [], .leaf c, [], _, _ => by
    refine ⟨c, by simp [cellAt], ?_⟩
    simp only [fillWalk, List.map_nil, NArr.modifyAt]
    cases fc c <;> rfl
  | [], .leaf c, _ :: _, _, h => by simp [C06.InRange] at h
  | [], .node _, _, h, _ => by simp [NArr.HasShape] at h
  | _ :: _, .leaf _, _, h, _ => by simp [NArr.HasShape] at h
  | n :: ns, .node xs, [], _, h => by simp [C06.InRange] at h
  | n :: ns, .node xs, i :: is, hs, hr => by
    simp only [NArr.HasShape] at hs
    simp only [C06.InRange] at hr
    have hi : i.toNat < xs.length := by have := hr.1; omega
    have hx : xs[i.toNat]? = some xs[i.toNat] := List.getElem?_eq_getElem hi
    have hm : xs[i.toNat] ∈ xs := List.getElem_mem _
    obtain ⟨c, hc, hw⟩ := fillWalk_in fc ns xs[i.toNat] is (hs.2 _ hm) hr.2
    refine ⟨c, by simp [cellAt, hx, hc], ?_⟩
    have h0 : ¬ i < 0 := by have := hr.1; omega
    simp only [fillWalk, h0, if_false, hx, hw, List.map_cons, NArr.modifyAt]
    cases fc c <;> rfl

/-! ## one `fill`, a flow of fills -/

section sib
variable [LT α] [LE α] [DecidableLT α] [DecidableLE α] [DecidableEq α]
variable (names : List String) (an : Analysis σ D ρ ε) (av : ArgVar α D ε) (guess : Nat → Nat → Nat → Int)

/-- the bin indices that `get_bin_on_value` reports have one component per axis of `dims` -/
def IdxLen (guess : Nat → Nat → Nat → Int) (edges : Edges α) (dims : List Nat) : Prop :=
  ∀ (x : Coord α) (idx : List Int), C06.getBinOnValue guess x edges = .ok idx → idx.length = dims.length

/-- **One `fill`, completely**: on bins of the regular shape `dims`, `fill` does exactly this. -/
theorem fill_spec {dims : List Nat} (s : SIB α σ) (hs : NArr.HasShape dims s.bins)
    (hl : IdxLen guess s.edges dims) (v : Value D) :
    SIB.fill names an av guess s v =
      (match route names av guess s.edges dims v with
       | .error e => .error e
       | .ok none => .ok s
       | .ok (some p) =>
         match cellAt s.bins p with
         | none => .error .unmodelled
         | some c =>
           match an.fill c v with
           | .error e => .error (.inner e)
           | .ok c' => .ok { s with bins := NArr.modifyAt (fun _ => c') s.bins p,
                                    curContext := (C14.getDataContext names v).2 }) := by
  simp only [SIB.fill, route]
  cases hg : av.getter (C14.getDataContext names v).1 with
  | error e => rfl
  | ok x =>
    simp only []
    cases hb : C06.getBinOnValue guess x s.edges with
    | error e => rfl
    | ok idx =>
      simp only [pathOf_eq]
      by_cases hr : C06.InRange idx dims
      · obtain ⟨c, hc, hw⟩ := fillWalk_in (fun c => an.fill c v) dims s.bins idx hs hr
        simp only [hr, if_true, hc, hw]
        cases an.fill c v <;> rfl
      · have hw := fillWalk_out (fun c => an.fill c v) dims s.bins idx hs (hl x idx hb) hr
        simp [hr, hw]

/-- edges and shape are invariants of `fill` -/
theorem fill_frame {dims : List Nat} {s s' : SIB α σ} (hs : NArr.HasShape dims s.bins)
    (hl : IdxLen guess s.edges dims) {v : Value D} (h : SIB.fill names an av guess s v = .ok s') :
    s'.edges = s.edges ∧ NArr.HasShape dims s'.bins := by
  rw [fill_spec names an av guess s hs hl v] at h
  cases hr : route names av guess s.edges dims v with
  | error e => simp [hr] at h
  | ok r =>
    cases r with
    | none => simp [hr] at h; subst h; exact ⟨rfl, hs⟩
    | some p =>
      simp only [hr] at h
      cases hc : cellAt s.bins p with
      | none => simp [hc] at h
      | some c =>
        simp only [hc] at h
        cases hf : an.fill c v with
        | error e => simp [hf] at h
        | ok c' =>
          simp only [hf, Except.ok.injEq] at h
          subst h
          exact ⟨rfl, hasShape_modifyAt _ dims s.bins p hs⟩

theorem ctxAfter_cons_inside (edges : Edges α) (dims : List Nat) (c0 : Slots) (v : Value D) (vs : List (Value D))
    (h : (routedTo names av guess edges dims v).isSome = true) :
    ctxAfter names av guess edges dims c0 (v :: vs) =
      ctxAfter names av guess edges dims (C14.getDataContext names v).2 vs := by
  simp only [ctxAfter, insideFlow, List.filter_cons, h, if_true]
  cases hl : List.filter (fun v => (routedTo names av guess edges dims v).isSome) vs with
  | nil => simp
  | cons w ws =>
    cases hgl : (w :: ws).getLast? with
    | none => simp at hgl
    | some u => simp [List.getLast?_cons_cons, hgl]

theorem ctxAfter_cons_outside (edges : Edges α) (dims : List Nat) (c0 : Slots) (v : Value D) (vs : List (Value D))
    (h : (routedTo names av guess edges dims v).isSome = false) :
    ctxAfter names av guess edges dims c0 (v :: vs) = ctxAfter names av guess edges dims c0 vs := by
  simp [ctxAfter, insideFlow, h]

/-- **Invariant of a successful flow of fills**, from any state with regular bins: edges and shape stay;
every cell ends in the state that its own analysis reaches, from the cell's initial state, on the cell's
sub-flow in arrival order; `_cur_context` is the context of the last value inside the edges. -/
theorem fillAllFrom_ok {dims : List Nat} : ∀ (flow : List (Value D)) (k : Nat) (s0 s : SIB α σ),
    NArr.HasShape dims s0.bins → IdxLen guess s0.edges dims →
    SIB.fillAllFrom names an av guess k s0 flow = .ok s →
    s.edges = s0.edges ∧ NArr.HasShape dims s.bins ∧
    (∀ p c0, cellAt s0.bins p = some c0 →
      ∃ c, cellAt s.bins p = some c ∧
        an.fillAll c0 (subflow names av guess s0.edges dims p flow) = .ok c) ∧
    s.curContext = ctxAfter names av guess s0.edges dims s0.curContext flow
  | [], k, s0, s, hs, _, h => by
    simp only [SIB.fillAllFrom, Except.ok.injEq] at h
    subst h
    refine ⟨rfl, hs, ?_, by simp [ctxAfter, insideFlow]⟩
    intro p c0 hc
    exact ⟨c0, hc, by simp [subflow, Analysis.fillAll]⟩
  | v :: vs, k, s0, s, hs, hl, h => by
    simp only [SIB.fillAllFrom] at h
    cases hf : SIB.fill names an av guess s0 v with
    | error e => simp [hf] at h
    | ok s1 =>
      simp only [hf] at h
      obtain ⟨he1, hs1⟩ := fill_frame names an av guess hs hl hf
      have hl1 : IdxLen guess s1.edges dims := by rw [he1]; exact hl
      obtain ⟨he, hsh, hcells, hctx⟩ := fillAllFrom_ok vs (k + 1) s1 s hs1 hl1 h
      rw [he1] at hcells hctx
      rw [fill_spec names an av guess s0 hs hl v] at hf
      refine ⟨he.trans he1, hsh, ?_, ?_⟩
      · intro p c0 hc0
        cases hr : route names av guess s0.edges dims v with
        | error e => simp [hr] at hf
        | ok r =>
          have hrt : routedTo names av guess s0.edges dims v = r := by simp [routedTo, hr]
          cases r with
          | none =>
            simp only [hr, Except.ok.injEq] at hf
            subst hf
            obtain ⟨c, hc, hrun⟩ := hcells p c0 hc0
            refine ⟨c, hc, ?_⟩
            simpa [subflow, List.filter_cons, hrt] using hrun
          | some q =>
            simp only [hr] at hf
            cases hcq : cellAt s0.bins q with
            | none => simp [hcq] at hf
            | some cq =>
              simp only [hcq] at hf
              cases hfc : an.fill cq v with
              | error e => simp [hfc] at hf
              | ok cq' =>
                simp only [hfc, Except.ok.injEq] at hf
                by_cases hpq : p = q
                · subst hpq
                  have hcc : c0 = cq := by rw [hc0] at hcq; exact Option.some.inj hcq
                  subst hcc
                  have h1 : cellAt s1.bins p = some cq' := by
                    rw [← hf]; exact cellAt_modifyAt_same _ s0.bins p c0 hc0
                  obtain ⟨c, hc, hrun⟩ := hcells p cq' h1
                  refine ⟨c, hc, ?_⟩
                  simp only [subflow, List.filter_cons, hrt, beq_self_eq_true, if_true, Analysis.fillAll, hfc]
                  exact hrun
                · have h1 : cellAt s1.bins p = some c0 := by
                    rw [← hf]; simp only []; rw [cellAt_modifyAt_other _ s0.bins q p hpq]; exact hc0
                  obtain ⟨c, hc, hrun⟩ := hcells p c0 h1
                  refine ⟨c, hc, ?_⟩
                  have : (some q == some p) = false := by
                    simp only [beq_eq_false_iff_ne, ne_eq, Option.some.injEq]
                    exact fun e => hpq e.symm
                  simpa [subflow, List.filter_cons, hrt, this] using hrun
      · cases hr : route names av guess s0.edges dims v with
        | error e => simp [hr] at hf
        | ok r =>
          have hrt : routedTo names av guess s0.edges dims v = r := by simp [routedTo, hr]
          cases r with
          | none =>
            simp only [hr, Except.ok.injEq] at hf
            subst hf
            rw [hctx, ctxAfter_cons_outside names av guess _ _ _ v vs (by simp [hrt])]
          | some q =>
            simp only [hr] at hf
            cases hcq : cellAt s0.bins q with
            | none => simp [hcq] at hf
            | some cq =>
              simp only [hcq] at hf
              cases hfc : an.fill cq v with
              | error e => simp [hfc] at hf
              | ok cq' =>
                simp only [hfc, Except.ok.injEq] at hf
                rw [hctx, ctxAfter_cons_inside names av guess _ _ _ v vs (by simp [hrt]), ← hf]

/-- a failing flow of fills: everything before the failing value succeeded, and the failing value's own
`fill` raised -/
theorem fillAllFrom_error : ∀ (flow : List (Value D)) (k : Nat) (s0 : SIB α σ) (m : Nat) (e : Exc ε),
    SIB.fillAllFrom names an av guess k s0 flow = .error (m, e) →
    ∃ (pre : List (Value D)) (v : Value D) (post : List (Value D)) (sm : SIB α σ),
      flow = pre ++ v :: post ∧ m = k + pre.length ∧
      SIB.fillAllFrom names an av guess k s0 pre = .ok sm ∧ SIB.fill names an av guess sm v = .error e
  | [], k, s0, m, e, h => by simp [SIB.fillAllFrom] at h
  | v :: vs, k, s0, m, e, h => by
    simp only [SIB.fillAllFrom] at h
    cases hf : SIB.fill names an av guess s0 v with
    | error e' =>
      simp only [hf, Except.error.injEq, Prod.mk.injEq] at h
      refine ⟨[], v, vs, s0, rfl, by simp [h.1], by simp [SIB.fillAllFrom], by rw [hf, h.2]⟩
    | ok s1 =>
      simp only [hf] at h
      obtain ⟨pre, w, post, sm, hfl, hm, hpre, hw⟩ := fillAllFrom_error vs (k + 1) s1 m e h
      refine ⟨v :: pre, w, post, sm, by simp [hfl], by simp [hm]; omega, by simp [SIB.fillAllFrom, hf, hpre], hw⟩

end sib

/-! ## `md_map` on regular arrays -/

theorem mapList_eq_map (f : β → γ) (xs : List (NArr β)) : NArr.mapList f xs = xs.map (NArr.map f) := by
  induction xs with
  | nil => rfl
  | cons x xs ih => simp [NArr.mapList, ih]

theorem cellAt_map (f : β → γ) : ∀ (a : NArr β) (p : List Nat), cellAt (NArr.map f a) p = (cellAt a p).map f
  | .leaf v, [] => by simp [NArr.map, cellAt]
  | .leaf v, _ :: _ => by simp [NArr.map, cellAt]
  | .node xs, [] => by simp [NArr.map, cellAt]
  | .node xs, i :: is => by
    simp only [NArr.map, cellAt, mapList_eq_map, List.getElem?_map]
    cases hx : xs[i]? with
    | none => simp
    | some x => simp [cellAt_map f x is]

theorem hasShape_map (f : β → γ) : ∀ (dims : List Nat) (a : NArr β), NArr.HasShape dims a → NArr.HasShape dims (NArr.map f a)
  | [], .leaf v, _ => by simp [NArr.map, NArr.HasShape]
  | [], .node _, h => by simp [NArr.HasShape] at h
  | _ :: _, .leaf _, h => by simp [NArr.HasShape] at h
  | n :: ns, .node xs, h => by
    simp only [NArr.HasShape] at h
    simp only [NArr.map, NArr.HasShape, mapList_eq_map, List.length_map]
    refine ⟨h.1, ?_⟩
    intro y hy
    obtain ⟨x, hx, rfl⟩ := List.mem_map.1 hy
    exact hasShape_map f ns x (h.2 x hx)

theorem mdMapLeaves_ok (f : β → γ) : ∀ (xs : List (NArr β)), (∀ x ∈ xs, NArr.HasShape [] x) →
    NArr.mdMapLeaves f xs = .ok (NArr.mapList f xs)
  | [], _ => by simp [NArr.mdMapLeaves, NArr.mapList]
  | .leaf v :: xs, h => by
    have := mdMapLeaves_ok f xs (fun x hx => h x (List.mem_cons_of_mem _ hx))
    simp [NArr.mdMapLeaves, this, NArr.mapList, NArr.map, bind, Except.bind, pure, Except.pure]
  | .node ys :: xs, h => by
    have := h (.node ys) (List.mem_cons_self)
    simp [NArr.HasShape] at this

/-- `md_map(f, array)` of a regular array with at least one axis is the cell-wise map -/
theorem mdMap_ok (f : β → γ) : ∀ (ns : List Nat) (n : Nat) (a : NArr β), NArr.HasShape (n :: ns) a →
    NArr.mdMap f a = .ok (NArr.map f a)
  | _, _, .leaf _, h => by simp [NArr.HasShape] at h
  | _, _, .node [], _ => by simp [NArr.mdMap, NArr.map, NArr.mapList]
  | [], n, .node (.leaf v :: xs), h => by
    simp only [NArr.HasShape] at h
    simp [NArr.mdMap, mdMapLeaves_ok f _ h.2, NArr.map, bind, Except.bind, pure, Except.pure]
  | [], n, .node (.node ys :: xs), h => by
    simp only [NArr.HasShape] at h
    have := h.2 (.node ys) List.mem_cons_self
    simp [NArr.HasShape] at this
  | m :: ms, n, .node (.leaf v :: xs), h => by
    simp only [NArr.HasShape] at h
    have := h.2 (.leaf v) List.mem_cons_self
    simp [NArr.HasShape] at this
  | m :: ms, n, .node (.node ys :: xs), h => by
    simp only [NArr.HasShape] at h
    have key : ∀ (l : List (NArr β)), (∀ x ∈ l, NArr.HasShape (m :: ms) x) →
        NArr.mdMapNodes f l = .ok (NArr.mapList f l) := by
      intro l
      induction l with
      | nil => intro _; simp [NArr.mdMapNodes, NArr.mapList]
      | cons x l ih =>
        intro hl
        have hx := mdMap_ok f ms m x (hl x List.mem_cons_self)
        have hr := ih (fun y hy => hl y (List.mem_cons_of_mem _ hy))
        simp [NArr.mdMapNodes, hx, hr, NArr.mapList, bind, Except.bind, pure, Except.pure]
    simp [NArr.mdMap, key _ h.2, NArr.map, bind, Except.bind, pure, Except.pure]

/-! ## `md_map` with a function that may raise -/

/-- every cell of `a` is mapped successfully to the cell of `b` at the same place -/
def CellsOK (f : β → Except E γ) (a : NArr β) (b : NArr γ) : Prop :=
  ∀ p v, cellAt a p = some v → ∃ w, f v = .ok w ∧ cellAt b p = some w

/-- some cell of `a` makes `f` raise `e` -/
def CellFails (f : β → Except E γ) (a : NArr β) (e : E) : Prop :=
  ∃ p v, cellAt a p = some v ∧ f v = .error e

theorem mdMapELeaves_char (f : β → Except E γ) (unm : E) : ∀ (xs : List (NArr β)),
    (∀ x ∈ xs, NArr.HasShape [] x) →
    (∀ ys, mdMapELeaves f unm xs = .ok ys →
      ys.length = xs.length ∧ (∀ y ∈ ys, NArr.HasShape [] y) ∧
      ∀ (i : Nat) v, xs[i]? = some (NArr.leaf v) → ∃ w, f v = .ok w ∧ ys[i]? = some (NArr.leaf w)) ∧
    (∀ e, mdMapELeaves f unm xs = .error e → ∃ (i : Nat) (v : β), xs[i]? = some (NArr.leaf v) ∧ f v = .error e)
  | [], _ => by
    refine ⟨?_, ?_⟩
    · intro ys h; simp [mdMapELeaves] at h; subst h; simp
    · intro e h; simp [mdMapELeaves] at h
  | .node zs :: xs, h => by
    have := h (.node zs) List.mem_cons_self
    simp [NArr.HasShape] at this
  | .leaf v :: xs, h => by
    have ih := mdMapELeaves_char f unm xs (fun x hx => h x (List.mem_cons_of_mem _ hx))
    simp only [mdMapELeaves]
    cases hf : f v with
    | error e0 =>
      refine ⟨by intro ys hy; simp at hy, ?_⟩
      intro e he
      simp only [Except.error.injEq] at he
      exact ⟨0, v, by simp, by rw [hf, he]⟩
    | ok w =>
      cases hr : mdMapELeaves f unm xs with
      | error e0 =>
        refine ⟨by intro ys hy; simp at hy, ?_⟩
        intro e he
        simp only [Except.error.injEq] at he
        obtain ⟨i, v', hi, hv⟩ := ih.2 e0 hr
        exact ⟨i + 1, v', by simpa using hi, by rw [hv, he]⟩
      | ok r =>
        obtain ⟨hlen, hsh, hcell⟩ := ih.1 r hr
        refine ⟨?_, by intro e he; simp at he⟩
        intro ys hy
        simp only [Except.ok.injEq] at hy
        subst hy
        refine ⟨by simp [hlen], ?_, ?_⟩
        · intro y hy
          rcases List.mem_cons.1 hy with rfl | hy
          · simp [NArr.HasShape]
          · exact hsh y hy
        · intro i v' hi
          cases i with
          | zero =>
            simp only [List.getElem?_cons_zero, Option.some.injEq, NArr.leaf.injEq] at hi
            subst hi
            exact ⟨w, hf, by simp⟩
          | succ i =>
            simp only [List.getElem?_cons_succ] at hi
            obtain ⟨w', hw, hy⟩ := hcell i v' hi
            exact ⟨w', hw, by simpa using hy⟩

theorem cellAt_leafList (xs : List (NArr β)) (hx : ∀ x ∈ xs, NArr.HasShape [] x) (p : List Nat) (v : β) :
    cellAt (.node xs) p = some v ↔ ∃ i, p = [i] ∧ xs[i]? = some (NArr.leaf v) := by
  cases p with
  | nil => simp [cellAt]
  | cons i is =>
    simp only [cellAt]
    cases hxi : xs[i]? with
    | none =>
      constructor
      · intro h; simp at h
      · rintro ⟨j, hj, hv⟩
        simp only [List.cons.injEq] at hj
        obtain ⟨rfl, _⟩ := hj
        rw [hxi] at hv
        simp at hv
    | some x =>
      obtain ⟨hi, hxe⟩ := List.getElem?_eq_some_iff.1 hxi
      have hm : x ∈ xs := by rw [← hxe]; exact List.getElem_mem _
      have hsx := hx x hm
      cases x with
      | node zs => simp [NArr.HasShape] at hsx
      | leaf u =>
        cases is with
        | nil =>
          constructor
          · intro h
            simp only [cellAt, Option.some.injEq] at h
            subst h
            exact ⟨i, rfl, hxi⟩
          · rintro ⟨j, hj, hv⟩
            simp only [List.cons.injEq, and_true] at hj
            subst hj
            rw [hxi] at hv
            simp only [Option.some.injEq, NArr.leaf.injEq] at hv
            simp [cellAt, hv]
        | cons k ks =>
          constructor
          · intro h; simp [cellAt] at h
          · rintro ⟨j, hj, _⟩; simp at hj

/-- **`md_map(f, array)` with a raising `f` on a regular array**: either every cell is mapped and the
shape is kept, or the reported exception is that of some cell. -/
theorem mdMapE_char (f : β → Except E γ) (lte unm : E) : ∀ (dims : List Nat) (a : NArr β),
    NArr.HasShape dims a → dims ≠ [] →
    (∀ b, mdMapE f lte unm a = .ok b → NArr.HasShape dims b ∧ CellsOK f a b) ∧
    (∀ e, mdMapE f lte unm a = .error e → CellFails f a e)
  | [], _, _, hd => absurd rfl hd
  | _ :: _, .leaf _, h, _ => by simp [NArr.HasShape] at h
  | [n], .node xs, h, _ => by
    simp only [NArr.HasShape] at h
    cases xs with
    | nil =>
      simp only [mdMapE]
      refine ⟨?_, by intro e he; simp at he⟩
      intro b hb
      simp only [Except.ok.injEq] at hb
      subst hb
      refine ⟨by simpa [NArr.HasShape] using h.1, ?_⟩
      intro p v hv
      cases p <;> simp [cellAt] at hv
    | cons x t =>
      cases x with
      | node zs =>
        have := h.2 (.node zs) List.mem_cons_self
        simp [NArr.HasShape] at this
      | leaf u =>
        have hc := mdMapELeaves_char f unm (.leaf u :: t) h.2
        simp only [mdMapE]
        cases hr : mdMapELeaves f unm (.leaf u :: t) with
        | error e0 =>
          refine ⟨by intro b hb; simp at hb, ?_⟩
          intro e he
          simp only [Except.error.injEq] at he
          obtain ⟨i, v, hi, hv⟩ := hc.2 e0 hr
          exact ⟨[i], v, (cellAt_leafList _ h.2 [i] v).2 ⟨i, rfl, hi⟩, by rw [hv, he]⟩
        | ok r =>
          obtain ⟨hlen, hsh, hcell⟩ := hc.1 r hr
          refine ⟨?_, by intro e he; simp at he⟩
          intro b hb
          simp only [Except.ok.injEq] at hb
          subst hb
          refine ⟨by simp only [NArr.HasShape]; exact ⟨by rw [hlen]; exact h.1, hsh⟩, ?_⟩
          intro p v hv
          obtain ⟨i, rfl, hi⟩ := (cellAt_leafList _ h.2 p v).1 hv
          obtain ⟨w, hw, hy⟩ := hcell i v hi
          exact ⟨w, hw, (cellAt_leafList _ hsh [i] w).2 ⟨i, rfl, hy⟩⟩
  | n :: m :: ms, .node xs, h, _ => by
    simp only [NArr.HasShape] at h
    -- the list-level statement, by induction on the list with the statement for the sub-arrays
    have key : ∀ (l : List (NArr β)), (∀ x ∈ l, NArr.HasShape (m :: ms) x) →
        (∀ r, mdMapENodes f lte unm l = .ok r →
          r.length = l.length ∧ (∀ y ∈ r, NArr.HasShape (m :: ms) y) ∧
          ∀ (i : Nat) x, l[i]? = some x → ∃ y, r[i]? = some y ∧ CellsOK f x y) ∧
        (∀ e, mdMapENodes f lte unm l = .error e → ∃ (i : Nat) (x : NArr β), l[i]? = some x ∧ CellFails f x e) := by
      intro l
      induction l with
      | nil =>
        intro _
        refine ⟨?_, by intro e he; simp [mdMapENodes] at he⟩
        intro r hr
        simp [mdMapENodes] at hr
        subst hr
        simp
      | cons x l ih =>
        intro hl
        have hx := mdMapE_char f lte unm (m :: ms) x (hl x List.mem_cons_self) (by simp)
        have ihl := ih (fun y hy => hl y (List.mem_cons_of_mem _ hy))
        simp only [mdMapENodes]
        cases hxe : mdMapE f lte unm x with
        | error e0 =>
          refine ⟨by intro r hr; simp at hr, ?_⟩
          intro e he
          simp only [Except.error.injEq] at he
          subst he
          exact ⟨0, x, by simp, hx.2 e0 hxe⟩
        | ok y =>
          cases hre : mdMapENodes f lte unm l with
          | error e0 =>
            refine ⟨by intro r hr; simp at hr, ?_⟩
            intro e he
            simp only [Except.error.injEq] at he
            subst he
            obtain ⟨i, x', hi, hf⟩ := ihl.2 e0 hre
            exact ⟨i + 1, x', by simpa using hi, hf⟩
          | ok r0 =>
            obtain ⟨hlen, hsh, hcell⟩ := ihl.1 r0 hre
            obtain ⟨hys, hyc⟩ := hx.1 y hxe
            refine ⟨?_, by intro e he; simp at he⟩
            intro r hr
            simp only [Except.ok.injEq] at hr
            subst hr
            refine ⟨by simp [hlen], ?_, ?_⟩
            · intro z hz
              rcases List.mem_cons.1 hz with rfl | hz
              · exact hys
              · exact hsh z hz
            · intro i x' hi
              cases i with
              | zero =>
                simp only [List.getElem?_cons_zero, Option.some.injEq] at hi
                subst hi
                exact ⟨y, by simp, hyc⟩
              | succ i =>
                simp only [List.getElem?_cons_succ] at hi
                obtain ⟨y', hy', hc'⟩ := hcell i x' hi
                exact ⟨y', by simpa using hy', hc'⟩
    cases xs with
    | nil =>
      simp only [mdMapE]
      refine ⟨?_, by intro e he; simp at he⟩
      intro b hb
      simp only [Except.ok.injEq] at hb
      subst hb
      refine ⟨by simpa [NArr.HasShape] using h.1, ?_⟩
      intro p v hv
      cases p <;> simp [cellAt] at hv
    | cons x t =>
      cases x with
      | leaf u =>
        have := h.2 (.leaf u) List.mem_cons_self
        simp [NArr.HasShape] at this
      | node zs =>
        have hk := key (.node zs :: t) h.2
        simp only [mdMapE]
        cases hr : mdMapENodes f lte unm (.node zs :: t) with
        | error e0 =>
          refine ⟨by intro b hb; simp at hb, ?_⟩
          intro e he
          simp only [Except.error.injEq] at he
          subst he
          obtain ⟨i, x', hi, p, v, hp, hf⟩ := hk.2 e0 hr
          exact ⟨i :: p, v, by simp [cellAt, hi, hp], hf⟩
        | ok r =>
          obtain ⟨hlen, hsh, hcell⟩ := hk.1 r hr
          refine ⟨?_, by intro e he; simp at he⟩
          intro b hb
          simp only [Except.ok.injEq] at hb
          subst hb
          refine ⟨by simp only [NArr.HasShape]; exact ⟨by rw [hlen]; exact h.1, hsh⟩, ?_⟩
          intro p v hv
          cases p with
          | nil => simp [cellAt] at hv
          | cons i is =>
            simp only [cellAt] at hv
            cases hxi : (NArr.node zs :: t)[i]? with
            | none => simp [hxi] at hv
            | some x' =>
              simp only [hxi] at hv
              obtain ⟨y, hy, hc⟩ := hcell i x' hxi
              obtain ⟨w, hw, hcw⟩ := hc is v hv
              exact ⟨w, hw, by simp [cellAt, hy, hcw]⟩

/-! ## cells in iteration order -/

mutual
theorem cellAt_of_mem_cells : ∀ (a : NArr β) (p : List Nat) (v : β), (p, v) ∈ NArr.cells a → cellAt a p = some v
  | .leaf u, p, v, h => by
    simp only [NArr.cells, List.mem_singleton, Prod.mk.injEq] at h
    obtain ⟨rfl, rfl⟩ := h
    rfl
  | .node xs, p, v, h => by
    simp only [NArr.cells] at h
    obtain ⟨i, p', hp, x, hx, hc⟩ := cellAt_of_mem_cellsFrom xs 0 p v h
    subst hp
    simp [cellAt, hx, hc]
theorem cellAt_of_mem_cellsFrom : ∀ (xs : List (NArr β)) (k : Nat) (p : List Nat) (v : β),
    (p, v) ∈ NArr.cellsFrom k xs →
    ∃ (i : Nat) (p' : List Nat), p = (k + i) :: p' ∧ ∃ x, xs[i]? = some x ∧ cellAt x p' = some v
  | [], k, p, v, h => by simp [NArr.cellsFrom] at h
  | x :: xs, k, p, v, h => by
    simp only [NArr.cellsFrom, List.mem_append, List.mem_map] at h
    rcases h with ⟨⟨p', v'⟩, hm, he⟩ | h
    · simp only [Prod.mk.injEq] at he
      obtain ⟨rfl, rfl⟩ := he
      exact ⟨0, p', by simp, x, by simp, cellAt_of_mem_cells x p' v' hm⟩
    · obtain ⟨i, p', hp, y, hy, hc⟩ := cellAt_of_mem_cellsFrom xs (k + 1) p v h
      exact ⟨i + 1, p', by rw [hp]; congr 1; omega, y, by simpa using hy, hc⟩
end

mutual
theorem mem_cells_of_cellAt : ∀ (a : NArr β) (p : List Nat) (v : β), cellAt a p = some v → (p, v) ∈ NArr.cells a
  | .leaf u, [], v, h => by simp [cellAt] at h; simp [NArr.cells, h]
  | .leaf u, _ :: _, v, h => by simp [cellAt] at h
  | .node xs, [], v, h => by simp [cellAt] at h
  | .node xs, i :: is, v, h => by
    simp only [cellAt] at h
    cases hx : xs[i]? with
    | none => simp [hx] at h
    | some x =>
      simp only [hx] at h
      simp only [NArr.cells]
      have := mem_cellsFrom_of_cellAt xs 0 i is v x hx h
      simpa using this
theorem mem_cellsFrom_of_cellAt : ∀ (xs : List (NArr β)) (k i : Nat) (is : List Nat) (v : β) (x : NArr β),
    xs[i]? = some x → cellAt x is = some v → ((k + i) :: is, v) ∈ NArr.cellsFrom k xs
  | [], k, i, is, v, x, hx, _ => by simp at hx
  | y :: ys, k, 0, is, v, x, hx, hc => by
    simp only [List.getElem?_cons_zero, Option.some.injEq] at hx
    subst hx
    simp only [NArr.cellsFrom, List.mem_append, List.mem_map]
    exact Or.inl ⟨(is, v), mem_cells_of_cellAt y is v hc, by simp⟩
  | y :: ys, k, i + 1, is, v, x, hx, hc => by
    simp only [List.getElem?_cons_succ] at hx
    simp only [NArr.cellsFrom, List.mem_append]
    refine Or.inr ?_
    have := mem_cellsFrom_of_cellAt ys (k + 1) i is v x hx hc
    have e : k + 1 + i = k + (i + 1) := by omega
    rw [e] at this
    exact this
end

theorem mem_values_iff (a : NArr β) (v : β) : v ∈ NArr.values a ↔ ∃ p, cellAt a p = some v := by
  simp only [NArr.values, List.mem_map]
  constructor
  · rintro ⟨⟨p, w⟩, hm, rfl⟩; exact ⟨p, cellAt_of_mem_cells a p w hm⟩
  · rintro ⟨p, hp⟩; exact ⟨(p, v), mem_cells_of_cellAt a p v hp, rfl⟩

/-! ## the lockstep rounds of `_MdSeqMap` -/

theorem nextAt_ok_iff (j : Nat) (t : Trace ρ (Exc ε)) (r : ρ) : nextAt j t = .ok r ↔ t.out[j]? = some r := by
  unfold nextAt
  cases t.out[j]? <;> simp

theorem nextAt_error_iff (j : Nat) (t : Trace ρ (Exc ε)) (eo : Option (Exc ε)) :
    nextAt j t = .error eo ↔ t.out[j]? = none ∧ t.fin = eo := by
  unfold nextAt
  cases t.out[j]? <;> simp

section rounds
variable (mk : NArr ρ → Except (Exc ε) ο) (traces : NArr (Trace ρ (Exc ε)))

/-- round `j` on a regular array of generators: it succeeds with every cell's `j`-th value in place … -/
theorem roundAt_ok {dims : List Nat} (hs : NArr.HasShape dims traces) (hd : dims ≠ []) {j : Nat} {result : NArr ρ}
    (h : roundAt traces j = .ok result) :
    NArr.HasShape dims result ∧
      ∀ p t, cellAt traces p = some t → ∃ r, t.out[j]? = some r ∧ cellAt result p = some r := by
  obtain ⟨hsh, hc⟩ := (mdMapE_char (nextAt j) _ _ dims traces hs hd).1 result h
  refine ⟨hsh, ?_⟩
  intro p t ht
  obtain ⟨r, hr, hcr⟩ := hc p t ht
  exact ⟨r, (nextAt_ok_iff j t r).1 hr, hcr⟩

/-- … or ends the way some cell's generator ends that has no `j`-th value -/
theorem roundAt_error {dims : List Nat} (hs : NArr.HasShape dims traces) (hd : dims ≠ []) {j : Nat}
    {eo : Option (Exc ε)} (h : roundAt traces j = .error eo) :
    ∃ p t, cellAt traces p = some t ∧ t.out[j]? = none ∧ t.fin = eo := by
  obtain ⟨p, t, ht, hf⟩ := (mdMapE_char (nextAt j) _ _ dims traces hs hd).2 eo h
  exact ⟨p, t, ht, (nextAt_error_iff j t eo).1 hf⟩

theorem zipRounds_length_le : ∀ (fuel j : Nat), (zipRounds mk traces fuel j).out.length ≤ fuel
  | 0, _ => by simp [zipRounds]
  | fuel + 1, j => by
    simp only [zipRounds]
    cases hr : roundAt traces j with
    | error eo => cases eo <;> simp
    | ok result =>
      simp only []
      cases hm : mk result with
      | error e => simp
      | ok o =>
        have := zipRounds_length_le fuel (j + 1)
        simp only [Trace.cons, List.length_cons]
        omega

/-- every value yielded is `mk` of a successful round -/
theorem zipRounds_out : ∀ (fuel j i : Nat) (o : ο), (zipRounds mk traces fuel j).out[i]? = some o →
    ∃ result, roundAt traces (j + i) = .ok result ∧ mk result = .ok o
  | 0, j, i, o, h => by simp [zipRounds] at h
  | fuel + 1, j, i, o, h => by
    simp only [zipRounds] at h
    cases hr : roundAt traces j with
    | error eo => cases eo <;> simp [hr] at h
    | ok result =>
      simp only [hr] at h
      cases hm : mk result with
      | error e => simp [hm] at h
      | ok o' =>
        simp only [hm, Trace.cons] at h
        cases i with
        | zero =>
          simp only [List.getElem?_cons_zero, Option.some.injEq] at h
          subst h
          exact ⟨result, by simpa using hr, hm⟩
        | succ i =>
          simp only [List.getElem?_cons_succ] at h
          obtain ⟨res, h1, h2⟩ := zipRounds_out fuel (j + 1) i o h
          have e : j + 1 + i = j + (i + 1) := by omega
          rw [e] at h1
          exact ⟨res, h1, h2⟩

/-- how the iteration ends -/
theorem zipRounds_fin : ∀ (fuel j : Nat),
    ((zipRounds mk traces fuel j).fin = none →
      roundAt traces (j + (zipRounds mk traces fuel j).out.length) = .error none) ∧
    (∀ e, (zipRounds mk traces fuel j).fin = some e →
      roundAt traces (j + (zipRounds mk traces fuel j).out.length) = .error (some e) ∨
      (∃ result, roundAt traces (j + (zipRounds mk traces fuel j).out.length) = .ok result ∧ mk result = .error e) ∨
      (zipRounds mk traces fuel j).out.length = fuel)
  | 0, j => by simp [zipRounds]
  | fuel + 1, j => by
    simp only [zipRounds]
    cases hr : roundAt traces j with
    | error eo =>
      cases eo with
      | none => simp [hr]
      | some e0 => simp [hr]
    | ok result =>
      simp only []
      cases hm : mk result with
      | error e0 =>
        simp only [List.length_nil, Nat.add_zero, hr]
        refine ⟨by simp, ?_⟩
        intro e he
        simp only [Option.some.injEq] at he
        subst he
        exact Or.inr (Or.inl ⟨result, rfl, hm⟩)
      | ok o =>
        obtain ⟨h1, h2⟩ := zipRounds_fin fuel (j + 1)
        simp only [Trace.cons, List.length_cons]
        have e : j + ((zipRounds mk traces fuel (j + 1)).out.length + 1) =
            j + 1 + (zipRounds mk traces fuel (j + 1)).out.length := by omega
        rw [e]
        refine ⟨h1, ?_⟩
        intro e' he'
        rcases h2 e' he' with h | h | h
        · exact Or.inl h
        · exact Or.inr (Or.inl h)
        · exact Or.inr (Or.inr (by omega))

variable {dims : List Nat} (hs : NArr.HasShape dims traces) (hd : dims ≠ [])
  (hne : ∃ p t, cellAt traces p = some t)
include hs hd

/-- **Values of `_MdSeqMap`**: the `i`-th value yielded is built from the array that holds every cell's
`i`-th result in that cell's place. -/
theorem mdSeqMapRun_out (i : Nat) (o : ο) (h : (mdSeqMapRun mk traces).out[i]? = some o) :
    ∃ result, NArr.HasShape dims result ∧
      (∀ p t, cellAt traces p = some t → ∃ r, t.out[i]? = some r ∧ cellAt result p = some r) ∧
      mk result = .ok o := by
  obtain ⟨result, hr, hm⟩ := zipRounds_out mk traces _ 0 i o h
  rw [Nat.zero_add] at hr
  obtain ⟨hsh, hc⟩ := roundAt_ok traces hs hd hr
  exact ⟨result, hsh, hc, hm⟩

/-- no more values than any cell yields -/
theorem mdSeqMapRun_length_le (p : List Nat) (t : Trace ρ (Exc ε)) (ht : cellAt traces p = some t) :
    (mdSeqMapRun mk traces).out.length ≤ t.out.length := by
  cases hn : (mdSeqMapRun mk traces).out.length with
  | zero => omega
  | succ n =>
    have hlt : n < (mdSeqMapRun mk traces).out.length := by omega
    have hget : (mdSeqMapRun mk traces).out[n]? = some ((mdSeqMapRun mk traces).out[n]) :=
      List.getElem?_eq_getElem hlt
    obtain ⟨result, _, hc, _⟩ := mdSeqMapRun_out mk traces hs hd n _ hget
    obtain ⟨r, hr, _⟩ := hc p t ht
    have := (List.getElem?_eq_some_iff.1 hr).1
    omega

include hne

/-- the fuel of the model never runs out when there is a cell -/
theorem mdSeqMapRun_length_lt_fuel : (mdSeqMapRun mk traces).out.length < firstCellLen traces + 1 := by
  obtain ⟨p, t, ht⟩ := hne
  have hv : t ∈ NArr.values traces := (mem_values_iff traces t).2 ⟨p, ht⟩
  cases hvs : NArr.values traces with
  | nil => rw [hvs] at hv; simp at hv
  | cons t0 rest =>
    have h0 : t0 ∈ NArr.values traces := by rw [hvs]; simp
    obtain ⟨p0, hp0⟩ := (mem_values_iff traces t0).1 h0
    have := mdSeqMapRun_length_le mk traces hs hd p0 t0 hp0
    simp only [firstCellLen, hvs]
    omega

omit hne in
/-- **End of `_MdSeqMap` by `StopIteration`**: the number of values yielded is the number of results of
some cell whose generator ended normally (with `mdSeqMapRun_length_le`: the minimum over the cells). -/
theorem mdSeqMapRun_stop (h : (mdSeqMapRun mk traces).fin = none) :
    ∃ p t, cellAt traces p = some t ∧ t.out.length = (mdSeqMapRun mk traces).out.length ∧ t.fin = none := by
  have h1 := (zipRounds_fin mk traces (firstCellLen traces + 1) 0).1 h
  rw [Nat.zero_add] at h1
  obtain ⟨p, t, ht, hnone, hfin⟩ := roundAt_error traces hs hd h1
  have hle := mdSeqMapRun_length_le mk traces hs hd p t ht
  have hge : t.out.length ≤ (mdSeqMapRun mk traces).out.length := by unfold mdSeqMapRun; simpa using hnone
  exact ⟨p, t, ht, by unfold mdSeqMapRun at hle hge ⊢; omega, hfin⟩

/-- **End of `_MdSeqMap` by an exception**: it is the exception of a cell's generator that had no further
value (and that cell has the minimal number of results), or the exception of building the value `mk`. -/
theorem mdSeqMapRun_raise (e : Exc ε) (h : (mdSeqMapRun mk traces).fin = some e) :
    (∃ p t, cellAt traces p = some t ∧ t.out.length = (mdSeqMapRun mk traces).out.length ∧ t.fin = some e) ∨
    (∃ result, NArr.HasShape dims result ∧
      (∀ p t, cellAt traces p = some t →
        ∃ r, t.out[(mdSeqMapRun mk traces).out.length]? = some r ∧ cellAt result p = some r) ∧
      mk result = .error e) := by
  have h1 := (zipRounds_fin mk traces (firstCellLen traces + 1) 0).2 e h
  rw [Nat.zero_add] at h1
  rcases h1 with h1 | ⟨result, hr, hm⟩ | h1
  · obtain ⟨p, t, ht, hnone, hfin⟩ := roundAt_error traces hs hd h1
    have hle := mdSeqMapRun_length_le mk traces hs hd p t ht
    have hge : t.out.length ≤ (mdSeqMapRun mk traces).out.length := by unfold mdSeqMapRun; simpa using hnone
    exact Or.inl ⟨p, t, ht, by unfold mdSeqMapRun at hle hge ⊢; omega, hfin⟩
  · obtain ⟨hsh, hc⟩ := roundAt_ok traces hs hd hr
    exact Or.inr ⟨result, hsh, hc, hm⟩
  · have := mdSeqMapRun_length_lt_fuel mk traces hs hd hne
    unfold mdSeqMapRun at this
    omega

end rounds

/-! ## `iter_bins_with_edges`: index tuples, cells, cell edges -/

/-- the indices `iter_bins` yields for a regular array are `itertools.product(range(n0), range(n1), …)` -/
theorem cells_fst : ∀ (dims : List Nat) (a : NArr β), NArr.HasShape dims a →
    (NArr.cells a).map (·.1) = NArr.indexProd (dims.map List.range)
  | [], .leaf v, _ => by simp [NArr.cells, NArr.indexProd]
  | [], .node _, h => by simp [NArr.HasShape] at h
  | _ :: _, .leaf _, h => by simp [NArr.HasShape] at h
  | n :: ns, .node xs, h => by
    simp only [NArr.HasShape] at h
    have key : ∀ (l : List (NArr β)) (k : Nat), (∀ x ∈ l, NArr.HasShape ns x) →
        (NArr.cellsFrom k l).map (·.1) =
          (List.range' k l.length).flatMap (fun i => (NArr.indexProd (ns.map List.range)).map (i :: ·)) := by
      intro l
      induction l with
      | nil => intro k _; simp [NArr.cellsFrom]
      | cons x l ih =>
        intro k hl
        have hx := cells_fst ns x (hl x List.mem_cons_self)
        have hr := ih (k + 1) (fun y hy => hl y (List.mem_cons_of_mem _ hy))
        simp only [NArr.cellsFrom, List.map_append, List.map_map, List.length_cons, List.range'_succ,
          List.flatMap_cons, hr]
        congr 1
        rw [← hx]
        simp [Function.comp_def]
    simp only [NArr.cells, List.map_cons, NArr.indexProd]
    rw [key xs 0 h.2, h.1, List.range_eq_range']

theorem getBin_of_cellAt : ∀ (a : NArr β) (p : List Nat) (v : β), cellAt a p = some v →
    NArr.getBin a p = .ok (.leaf v)
  | .leaf u, [], v, h => by simp [cellAt] at h; simp [NArr.getBin, h]
  | .leaf u, _ :: _, v, h => by simp [cellAt] at h
  | .node xs, [], v, h => by simp [cellAt] at h
  | .node xs, i :: is, v, h => by
    simp only [cellAt] at h
    cases hx : xs[i]? with
    | none => simp [hx] at h
    | some x =>
      simp only [hx] at h
      simp only [NArr.getBin, hx]
      exact getBin_of_cellAt x is v h

theorem traceMapM_congr {E' : Type} (f g : β → Except E' ρ) : ∀ (l : List β), (∀ x ∈ l, f x = g x) →
    traceMapM f l = traceMapM g l
  | [], _ => rfl
  | x :: xs, h => by
    simp only [traceMapM, h x List.mem_cons_self,
      traceMapM_congr f g xs (fun y hy => h y (List.mem_cons_of_mem _ hy))]

theorem traceMapM_map {E' : Type} (f : γ → Except E' ρ) (g : β → γ) : ∀ (l : List β),
    traceMapM f (l.map g) = traceMapM (fun x => f (g x)) l
  | [] => rfl
  | x :: xs => by simp only [List.map_cons, traceMapM, traceMapM_map f g xs]

/-- without exceptions `traceMapM` yields one value per element, in order -/
theorem traceMapM_ok {E' : Type} (f : β → Except E' ρ) (g : β → ρ) : ∀ (l : List β),
    (∀ x ∈ l, f x = .ok (g x)) → traceMapM f l = ⟨l.map g, none⟩
  | [], _ => rfl
  | x :: xs, h => by
    simp only [traceMapM, h x List.mem_cons_self,
      traceMapM_ok f g xs (fun y hy => h y (List.mem_cons_of_mem _ hy)), Trace.cons, List.map_cons]

theorem isCellEdgesB_iff [DecidableEq α] : ∀ (axes : List (List α)) (p : List Nat) (ce : List (α × α)),
    isCellEdgesB axes p ce = true ↔ IsCellEdges axes p ce
  | [], [], [] => by simp [isCellEdgesB, IsCellEdges]
  | [], [], _ :: _ => by simp [isCellEdgesB, IsCellEdges]
  | [], _ :: _, _ => by simp [isCellEdgesB, IsCellEdges]
  | _ :: _, [], _ => by simp [isCellEdgesB, IsCellEdges]
  | _ :: _, _ :: _, [] => by simp [isCellEdgesB, IsCellEdges]
  | arr :: axes, i :: p, lohi :: ce => by
    simp [isCellEdgesB, IsCellEdges, isCellEdgesB_iff axes p ce, and_assoc]

theorem cellEdges_spec (ε : Type) : ∀ (axes : List (List α)) (p : List Nat), PathIn p (axes.map (fun a => a.length - 1)) →
    ∃ ce, (cellEdges axes p : Except (Exc ε) (List (α × α))) = .ok ce ∧ IsCellEdges axes p ce
  | [], [], _ => ⟨[], rfl, trivial⟩
  | [], _ :: _, h => by simp [PathIn] at h
  | _ :: _, [], h => by simp [PathIn] at h
  | arr :: axes, i :: p, h => by
    simp only [List.map_cons, PathIn] at h
    obtain ⟨ce, hce, hic⟩ := cellEdges_spec ε axes p h.2
    have h1 : i < arr.length := by omega
    have h2 : i + 1 < arr.length := by omega
    refine ⟨(arr[i], arr[i + 1]) :: ce, ?_, ?_⟩
    · simp [cellEdges, List.getElem?_eq_getElem h1, List.getElem?_eq_getElem h2, hce]
    · exact ⟨List.getElem?_eq_getElem h1, List.getElem?_eq_getElem h2, hic⟩

/-! ## every cell once, in lexicographic order -/

theorem lexLtB_iff : ∀ (p q : List Nat), lexLtB p q = true ↔ LexLt p q
  | [], _ => by simp [lexLtB, LexLt]
  | _ :: _, [] => by simp [lexLtB, LexLt]
  | i :: is, j :: js => by simp [lexLtB, LexLt, lexLtB_iff is js]

theorem lexLt_irrefl : ∀ (p : List Nat), ¬ LexLt p p
  | [] => by simp [LexLt]
  | i :: is => by
    simp only [LexLt, Nat.lt_irrefl, true_and, false_or]
    exact lexLt_irrefl is

/-- `itertools.product` of strictly increasing ranges is strictly increasing lexicographically -/
theorem indexProd_sorted : ∀ (rs : List (List Nat)), (∀ r ∈ rs, r.Pairwise (· < ·)) →
    (NArr.indexProd rs).Pairwise LexLt
  | [], _ => by simp [NArr.indexProd]
  | r :: rs, h => by
    have ih := indexProd_sorted rs (fun r' hr' => h r' (List.mem_cons_of_mem _ hr'))
    have hr := h r List.mem_cons_self
    simp only [NArr.indexProd]
    induction r with
    | nil => simp
    | cons i r' ihr =>
      rw [List.pairwise_cons] at hr
      simp only [List.flatMap_cons]
      rw [List.pairwise_append]
      refine ⟨?_, ihr (fun r'' hr'' => by
          rcases List.mem_cons.1 hr'' with rfl | hm
          · exact hr.2
          · exact h r'' (List.mem_cons_of_mem _ hm)) hr.2, ?_⟩
      · rw [List.pairwise_map]
        exact ih.imp (fun hab => Or.inr ⟨rfl, hab⟩)
      · intro a ha b hb
        obtain ⟨x, _, rfl⟩ := List.mem_map.1 ha
        obtain ⟨j, hj, hb'⟩ := List.mem_flatMap.1 hb
        obtain ⟨y, _, rfl⟩ := List.mem_map.1 hb'
        exact Or.inl (hr.1 j hj)

/-- **`iter_bins` of a regular array visits every cell exactly once, in lexicographic index order** -/
theorem cells_sorted {dims : List Nat} {a : NArr β} (hs : NArr.HasShape dims a) :
    ((NArr.cells a).map (·.1)).Pairwise LexLt ∧ ((NArr.cells a).map (·.1)).Nodup := by
  have h1 : ((NArr.cells a).map (·.1)).Pairwise LexLt := by
    rw [cells_fst dims a hs]
    apply indexProd_sorted
    intro r hr
    obtain ⟨n, _, rfl⟩ := List.mem_map.1 hr
    exact List.pairwise_lt_range
  refine ⟨h1, ?_⟩
  rw [List.nodup_iff_pairwise_ne]
  refine h1.imp ?_
  intro p q hpq heq
  subst heq
  exact lexLt_irrefl p hpq

end Lena.C11
