import LenaModel.Model.C17Sess
import LenaModel.Lemmas.C17
/-! # C17 — helper lemmas for sessions (one instance used more than once) -/

namespace Lena.C17

variable {σ ι γ β : Type}

/-- `genTake` from a generator that may not exist -/
def genTakeO (next : γ → Option (β × γ)) (k : Nat) : Option γ → List β
  | none => []
  | some g => genTake next k g

/-- The generator number `g` of a session in state `s` that will still perform `ops`: an existing one, or
the one which the `(g − |gens|)`-th coming `start` creates — from the instance as it is *now*, which is what
"the instance does not change" buys. -/
def genOf (E : GenElem σ ι γ β) (s : Sess σ γ) (ops : List (GenOp ι)) (g : Nat) : Option γ :=
  match s.gens[g]? with
  | some x => some x
  | none => ((startsOf ops)[g - s.gens.length]?).map (fun x => (E.spawn s.inst x).1)

theorem genTake_of_none (next : γ → Option (β × γ)) (g : γ) (h : next g = none) :
    ∀ k, genTake next k g = []
  | 0 => rfl
  | k + 1 => by simp [genTake, h]

theorem genTake_of_some (next : γ → Option (β × γ)) (g g' : γ) (v : β) (h : next g = some (v, g')) (k : Nat) :
    genTake next (k + 1) g = v :: genTake next k g' := by
  simp [genTake, h]

theorem genOf_start (E : GenElem σ ι γ β) (hE : ∀ c x, (E.spawn c x).2 = c) (s : Sess σ γ) (x : ι)
    (ops : List (GenOp ι)) (g : Nat) :
    genOf E { inst := (E.spawn s.inst x).2, gens := s.gens ++ [(E.spawn s.inst x).1] } ops g
      = genOf E s (.start x :: ops) g := by
  unfold genOf
  simp only [hE, startsOf, List.length_append, List.length_cons, List.length_nil]
  by_cases h1 : g < s.gens.length
  · rw [List.getElem?_append_left h1]
    simp [List.getElem?_eq_getElem h1]
  · by_cases h2 : g = s.gens.length
    · subst h2
      simp
    · have h3 : s.gens.length + 1 ≤ g := by omega
      have e1 : (s.gens ++ [(E.spawn s.inst x).1])[g]? = none := by
        apply List.getElem?_eq_none; simp; omega
      have e2 : s.gens[g]? = none := List.getElem?_eq_none (by omega)
      obtain ⟨d, hd⟩ : ∃ d, g - s.gens.length = d + 1 := ⟨g - s.gens.length - 1, by omega⟩
      have e3 : g - (s.gens.length + 0 + 1) = d := by omega
      simp only [e1, e2, hd, List.getElem?_cons_succ]
      simp only [Nat.add_zero] at e3
      rw [e3]

theorem genOf_next (E : GenElem σ ι γ β) (s : Sess σ γ) (i : Nat) (ops : List (GenOp ι)) (g : Nat) :
    genOf E s (.next i :: ops) g = genOf E s ops g := by
  simp [genOf, startsOf]

theorem genOf_set_self (E : GenElem σ ι γ β) (s : Sess σ γ) (ops : List (GenOp ι)) (g : Nat) (x y : γ)
    (h : s.gens[g]? = some x) :
    genOf E { s with gens := s.gens.set g y } ops g = some y := by
  have hl : g < s.gens.length := by
    rcases Nat.lt_or_ge g s.gens.length with hlt | hge
    · exact hlt
    · rw [List.getElem?_eq_none hge] at h; cases h
  simp [genOf, List.getElem?_set_self hl]

theorem genOf_set_ne (E : GenElem σ ι γ β) (s : Sess σ γ) (ops : List (GenOp ι)) (g i : Nat) (y : γ)
    (h : i ≠ g) :
    genOf E { s with gens := s.gens.set i y } ops g = genOf E s ops g := by
  simp [genOf, List.getElem?_set_ne h]

theorem genOf_of_some (E : GenElem σ ι γ β) (s : Sess σ γ) (ops : List (GenOp ι)) (g : Nat) (x : γ)
    (h : s.gens[g]? = some x) : genOf E s ops g = some x := by
  simp [genOf, h]

/-- **The values every generator yields depend only on the call that created it.**  If `run`/`__call__`
leaves the instance state as it was, then in any session, for every generator `g`: the values it yielded
are the first `k` values of the generator as created (from the instance state of the *beginning*), `k`
being the number of `next(g)` calls answered so far (by a value or by `StopIteration`). -/
theorem sess_values (E : GenElem σ ι γ β) (hE : ∀ c x, (E.spawn c x).2 = c) :
    ∀ (ops : List (GenOp ι)) (s : Sess σ γ) (g : Nat),
      valuesOf g (sessEvents E s ops)
        = genTakeO E.next (nextsOf g (sessEvents E s ops)) (genOf E s ops g)
  | [], s, g => by
    simp only [sessEvents, valuesOf, nextsOf]
    cases genOf E s [] g <;> rfl
  | .start x :: ops, s, g => by
    have ih := sess_values E hE ops
      { inst := (E.spawn s.inst x).2, gens := s.gens ++ [(E.spawn s.inst x).1] } g
    rw [genOf_start E hE] at ih
    simpa only [sessEvents, sessStep] using ih
  | .next i :: ops, s, g => by
    cases hgi : s.gens[i]? with
    | none =>
      have ih := sess_values E hE ops s g
      simp only [sessEvents, sessStep, hgi]
      rw [genOf_next]
      exact ih
    | some gi =>
      cases hn : E.next gi with
      | none =>
        have ih := sess_values E hE ops s g
        simp only [sessEvents, sessStep, hgi, hn, valuesOf, nextsOf]
        rw [genOf_next, ih]
        by_cases hig : i = g
        · subst hig
          rw [genOf_of_some E s ops i gi hgi]
          simp only [if_true, genTakeO, genTake_of_none E.next gi hn]
        · simp only [hig, if_false]
      | some p =>
        obtain ⟨v, gi'⟩ := p
        have ih := sess_values E hE ops { s with gens := s.gens.set i gi' } g
        simp only [sessEvents, sessStep, hgi, hn, valuesOf, nextsOf]
        rw [genOf_next]
        by_cases hig : i = g
        · subst hig
          rw [genOf_set_self E s ops i gi gi' hgi] at ih
          rw [genOf_of_some E s ops i gi hgi]
          simp only [if_true, ih, genTakeO, genTake_of_some E.next gi gi' v hn]
        · rw [genOf_set_ne E s ops g i gi' hig] at ih
          simp only [hig, if_false, ih]

/-- `run`/`__call__` that keeps the instance keeps it over a whole session -/
theorem sessAfter_inst (E : GenElem σ ι γ β) (hE : ∀ c x, (E.spawn c x).2 = c) :
    ∀ (ops : List (GenOp ι)) (s : Sess σ γ), (sessAfter E s ops).inst = s.inst
  | [], _ => rfl
  | .start x :: ops, s => by
    simp only [sessAfter, sessStep]
    rw [sessAfter_inst E hE ops]
    exact hE _ _
  | .next i :: ops, s => by
    cases hgi : s.gens[i]? with
    | none =>
      simp only [sessAfter, sessStep, hgi]
      exact sessAfter_inst E hE ops s
    | some gi =>
      cases hn : E.next gi with
      | none =>
        simp only [sessAfter, sessStep, hgi, hn]
        exact sessAfter_inst E hE ops s
      | some p =>
        simp only [sessAfter, sessStep, hgi, hn]
        exact sessAfter_inst E hE ops _

/-! ### the concrete generators -/

theorem genTake_count (step : Int) : ∀ (k : Nat) (cur : Int),
    genTake countElem.next k { cur := cur, step := step } = countFrom cur step k
  | 0, _ => rfl
  | k + 1, cur => by
    simp only [genTake, countElem, CountGen.next, countFrom]
    rw [← genTake_count step k (cur + step)]
    rfl

theorem genTake_list (run : σ → ι → List β) : ∀ (k : Nat) (l : List β),
    genTake (listElem run).next k l = l.take k
  | 0, _ => by simp [genTake]
  | k + 1, [] => by simp [genTake, listElem]
  | k + 1, v :: r => by
    simp only [genTake, listElem, List.take_succ_cons]
    rw [← genTake_list run k r]
    rfl

/-! ### `fill_into` -/

/-- `LenaStopFill` leaves the state of the `Slice` as it was -/
theorem fillInto_stop_state (stop : Option Nat) (step : Nat) (s : FillState)
    (h : (fillInto stop step s).2 = .stopFill) : (fillInto stop step s).1 = s := by
  unfold fillInto at h ⊢
  have ht : ∀ t, (fillTail t).2 ≠ .stopFill := by
    intro t; unfold fillTail; split <;> simp
  split at h
  · split at h
    · split <;> first | rfl | simp_all
    · exact absurd h (ht _)
  · exact absurd h (ht _)

theorem filledOf_stops {α : Type} : ∀ (xs : List α), filledOf xs (List.replicate xs.length .stopFill) = []
  | [] => rfl
  | x :: xs => by simp [List.replicate, filledOf, filledOf_stops xs]

end Lena.C17
