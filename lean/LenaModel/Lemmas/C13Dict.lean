import LenaModel.Model.C13
/-! # C13 lemmas, part 1 — the information order on contexts

`c ⊑ c'` (`leL`): every key of `c` is a key of `c'`, with the same scalar, or with a dictionary that is `⊑`.
It is what an enclosing sequence's larger prefix does to the context that reaches an element, and
everything the protocol computes is monotone in it *as long as it succeeds* — that is the lemma which makes
the "skip an element while the context is empty" optimisation of `LenaSequence._set_context` sound. -/

namespace Lena.C13
open Lena Lena.Val

mutual
def leV : V → V → Prop
  | .leaf a, .leaf b => a = b
  | .dict x, .dict y => leL x y
  | .leaf _, .dict _ => False
  | .dict _, .leaf _ => False
def leO : Option V → Option V → Prop
  | none, _ => True
  | some _, none => False
  | some v, some w => leV v w
def leL : Ctx → Ctx → Prop
  | [], _ => True
  | x :: r, [] => leO x none ∧ leL r []
  | x :: r, y :: r' => leO x y ∧ leL r r'
end

/-! ## order -/

mutual
theorem leV_refl : ∀ v : V, leV v v
  | .leaf _ => by simp [leV]
  | .dict x => by simp only [leV]; exact leL_refl x
theorem leO_refl : ∀ o : Option V, leO o o
  | none => by simp [leO]
  | some v => by simp only [leO]; exact leV_refl v
theorem leL_refl : ∀ c : Ctx, leL c c
  | [] => by simp [leL]
  | x :: r => by simp only [leL]; exact ⟨leO_refl x, leL_refl r⟩
end

theorem leO_none_right {o : Option V} (h : leO o none) : o = none := by
  cases o <;> simp_all [leO]

mutual
theorem leV_trans : ∀ (a b c : V), leV a b → leV b c → leV a c
  | .leaf _, .leaf _, .leaf _, h1, h2 => by simp_all [leV]
  | .dict x, .dict y, .dict z, h1, h2 => by
    simp only [leV] at *; exact leL_trans x y z h1 h2
  | .leaf _, .dict _, _, h1, _ => by simp [leV] at h1
  | .dict _, .leaf _, _, h1, _ => by simp [leV] at h1
  | .leaf _, .leaf _, .dict _, _, h2 => by simp [leV] at h2
  | .dict _, .dict _, .leaf _, _, h2 => by simp [leV] at h2
theorem leO_trans : ∀ (a b c : Option V), leO a b → leO b c → leO a c
  | none, _, _, _, _ => by simp [leO]
  | some _, none, _, h1, _ => by simp [leO] at h1
  | some _, some _, none, _, h2 => by simp [leO] at h2
  | some u, some v, some w, h1, h2 => by
    simp only [leO] at *; exact leV_trans u v w h1 h2
theorem leL_trans : ∀ (a b c : Ctx), leL a b → leL b c → leL a c
  | [], _, _, _, _ => by simp [leL]
  | x :: r, [], c, h1, _ => by
    simp only [leL] at h1
    have hx := leO_none_right h1.1
    subst hx
    cases c with
    | nil => simp only [leL]; exact ⟨by simp [leO], leL_trans r [] [] h1.2 (by simp [leL])⟩
    | cons z c' => simp only [leL]; exact ⟨by simp [leO], leL_trans r [] c' h1.2 (by simp [leL])⟩
  | x :: r, y :: r', [], h1, h2 => by
    simp only [leL] at *
    have hy := leO_none_right h2.1
    subst hy
    exact ⟨leO_trans x none none h1.1 (by simp [leO]), leL_trans r r' [] h1.2 h2.2⟩
  | x :: r, y :: r', z :: r'', h1, h2 => by
    simp only [leL] at *
    exact ⟨leO_trans x y z h1.1 h2.1, leL_trans r r' r'' h1.2 h2.2⟩
end

/-! ## emptiness -/

theorem leL_of_not_nonEmpty : ∀ (c d : Ctx), nonEmpty c = false → leL c d
  | [], _, _ => by simp [leL]
  | x :: r, d, h => by
    simp only [nonEmpty, List.any_cons, Bool.or_eq_false_iff] at h
    have hx : x = none := by cases x <;> simp_all
    subst hx
    cases d with
    | nil => simp only [leL]; exact ⟨by simp [leO], leL_of_not_nonEmpty r [] (by simpa [nonEmpty] using h.2)⟩
    | cons y d' => simp only [leL]; exact ⟨by simp [leO], leL_of_not_nonEmpty r d' (by simpa [nonEmpty] using h.2)⟩

theorem nonEmpty_empty (n : Nat) : nonEmpty (Val.empty n : Ctx) = false := by
  simp [nonEmpty, Val.empty]

theorem empty_leL (n : Nat) (c : Ctx) : leL (Val.empty n) c :=
  leL_of_not_nonEmpty _ _ (nonEmpty_empty n)

theorem nonEmpty_mono : ∀ (c d : Ctx), leL c d → nonEmpty c = true → nonEmpty d = true
  | [], _, _, h => by simp [nonEmpty] at h
  | x :: r, [], h1, h => by
    simp only [leL] at h1
    have hx := leO_none_right h1.1
    subst hx
    have : nonEmpty r = true := by simpa [nonEmpty] using h
    have := nonEmpty_mono r [] h1.2 this
    simp [nonEmpty] at this
  | x :: r, y :: r', h1, h => by
    simp only [leL] at h1
    simp only [nonEmpty, List.any_cons, Bool.or_eq_true] at h ⊢
    rcases h with h | h
    · left
      cases x with
      | none => simp at h
      | some v => cases y with
        | none => simp [leO] at h1
        | some w => simp
    · right
      exact nonEmpty_mono r r' h1.2 (by simpa [nonEmpty] using h)

theorem eq_empty_of_not_nonEmpty : ∀ (n : Nat) (c : Ctx), c.length = n → nonEmpty c = false → c = Val.empty n
  | 0, [], _, _ => rfl
  | n + 1, x :: r, hl, h => by
    simp only [nonEmpty, List.any_cons, Bool.or_eq_false_iff] at h
    have hx : x = none := by cases x <;> simp_all
    subst hx
    have := eq_empty_of_not_nonEmpty n r (by simpa using hl) (by simpa [nonEmpty] using h.2)
    rw [this]; simp [Val.empty, List.replicate_succ]
  | 0, _ :: _, hl, _ => by simp at hl
  | _ + 1, [], hl, _ => by simp at hl

/-- below the empty context there is only the empty context -/
theorem nonEmpty_false_of_le {c d : Ctx} (h : leL c d) (hd : nonEmpty d = false) : nonEmpty c = false := by
  cases hc : nonEmpty c with
  | false => rfl
  | true => have := nonEmpty_mono c d h hc; simp [hd] at this

/-! ## slots -/

theorem getSlot_mono : ∀ (c d : Ctx) (k : Nat) (v : V), leL c d → getSlot c k = some v →
    ∃ w, getSlot d k = some w ∧ leV v w
  | [], _, _, _, _, h => by simp [getSlot] at h
  | x :: r, [], k, v, h1, h => by
    simp only [leL] at h1
    have hx := leO_none_right h1.1
    subst hx
    cases k with
    | zero => simp [getSlot] at h
    | succ k =>
      have h' : getSlot r k = some v := by simpa [getSlot] using h
      obtain ⟨w, hw, _⟩ := getSlot_mono r [] k v h1.2 h'
      simp [getSlot] at hw
  | x :: r, y :: r', k, v, h1, h => by
    simp only [leL] at h1
    cases k with
    | zero =>
      have hx : x = some v := by simpa [getSlot] using h
      subst hx
      cases y with
      | none => simp [leO] at h1
      | some w => exact ⟨w, by simp [getSlot], by simpa [leO] using h1.1⟩
    | succ k =>
      have h' : getSlot r k = some v := by simpa [getSlot] using h
      obtain ⟨w, hw, hvw⟩ := getSlot_mono r r' k v h1.2 h'
      exact ⟨w, by simpa [getSlot] using hw, hvw⟩

/-! ## `update_recursively` is monotone in the dictionary that is updated -/

mutual
/-- the update is contained in the result: `u ⊑ d ⊕ u` -/
theorem updV_ge : ∀ (u : V) (a : Option V), leV u (updV a u)
  | .leaf l, _ => by simp [updV, leV]
  | .dict y, none => by simp only [updV, leV]; exact leL_refl _
  | .dict y, some (.leaf _) => by simp only [updV, leV]; exact updL_ge y (emptyLike y)
  | .dict y, some (.dict x) => by simp only [updV, leV]; exact updL_ge y x
theorem updO_ge : ∀ (u a : Option V), leO u (updO a u)
  | none, _ => by simp [leO]
  | some u, a => by simp only [updO, leO]; exact updV_ge u a
theorem updL_ge : ∀ (u d : Ctx), leL u (updL d u)
  | [], _ => by simp [leL]
  | y :: r, [] => by simp only [updL, leL]; exact ⟨updO_ge y none, updL_ge r []⟩
  | y :: r, x :: d => by simp only [updL, leL]; exact ⟨updO_ge y x, updL_ge r d⟩
end

mutual
theorem updV_mono : ∀ (u : V) (a b : Option V), leO a b → leV (updV a u) (updV b u)
  | .leaf l, _, _, _ => by simp [updV, leV]
  | .dict y, none, none, _ => leV_refl _
  | .dict y, none, some (.leaf _), _ => by simp only [updV, leV]; exact updL_ge y _
  | .dict y, none, some (.dict x), _ => by simp only [updV, leV]; exact updL_ge y x
  | .dict y, some (.leaf _), none, h => by simp [leO] at h
  | .dict y, some (.dict _), none, h => by simp [leO] at h
  | .dict y, some (.leaf _), some (.leaf _), _ => leV_refl _
  | .dict y, some (.leaf _), some (.dict _), h => by simp [leO, leV] at h
  | .dict y, some (.dict _), some (.leaf _), h => by simp [leO, leV] at h
  | .dict y, some (.dict x), some (.dict x'), h => by
    simp only [updV, leO, leV] at *
    exact updL_mono y x x' h
theorem updO_mono : ∀ (u a b : Option V), leO a b → leO (updO a u) (updO b u)
  | none, a, b, h => by simp only [updO]; exact h
  | some u, a, b, h => by simp only [updO, leO]; exact updV_mono u a b h
theorem updL_mono : ∀ (u a b : Ctx), leL a b → leL (updL a u) (updL b u)
  | [], a, b, h => by simp only [updL]; exact h
  | y :: r', [], [], _ => leL_refl _
  | y :: r', [], z :: b, _ => by
    simp only [updL, leL]
    exact ⟨updO_mono y none z (by simp [leO]), updL_mono r' [] b (by simp [leL])⟩
  | y :: r', x :: a, [], h => by
    simp only [leL] at h
    have hx := leO_none_right h.1
    subst hx
    simp only [updL, leL]
    exact ⟨leO_refl _, updL_mono r' a [] h.2⟩
  | y :: r', x :: a, z :: b, h => by
    simp only [leL] at h
    simp only [updL, leL]
    exact ⟨updO_mono y x z h.1, updL_mono r' a b h.2⟩
end

/-! ## `intersection` is a lower bound and is monotone -/

mutual
theorem interV_self : ∀ v : V, interV v v = some v
  | .leaf a => by simp [interV]
  | .dict x => by simp [interV]
theorem interO_self : ∀ o : Option V, interO o o = o
  | none => by simp [interO]
  | some v => by simp only [interO]; exact interV_self v
theorem interL_self : ∀ c : Ctx, interL c c = c
  | [] => by simp [interL]
  | x :: r => by simp only [interL]; rw [interO_self x, interL_self r]
end

mutual
theorem interV_le_left : ∀ (v w : V), leO (interV v w) (some v)
  | .leaf a, w => by
    simp only [interV]; split
    · simp [leO, leV]
    · simp [leO]
  | .dict x, w => by
    simp only [interV]; split
    · simp only [leO, leV]; exact leL_refl x
    · cases w with
      | leaf b => simp [leO]
      | dict y => simp only [leO, leV]; exact interL_le_left x y
theorem interO_le_left : ∀ (a b : Option V), leO (interO a b) a
  | none, _ => by simp [interO, leO]
  | some _, none => by simp [interO, leO]
  | some v, some w => by simp only [interO]; exact interV_le_left v w
theorem interL_le_left : ∀ (a b : Ctx), leL (interL a b) a
  | [], _ => by simp [interL, leL]
  | x :: r, [] => by simp only [interL, leL]; exact ⟨interO_le_left x none, interL_le_left r []⟩
  | x :: r, y :: r' => by simp only [interL, leL]; exact ⟨interO_le_left x y, interL_le_left r r'⟩
end

mutual
theorem interV_mono : ∀ (v w v' w' : V), leV v v' → leV w w' → leO (interV v w) (interV v' w')
  | .leaf a, w, .leaf a', w', h1, h2 => by
    simp only [leV] at h1; subst h1
    simp only [interV]
    by_cases hw : w = .leaf a
    · subst hw
      cases w' with
      | leaf b => simp only [leV] at h2; subst h2; simp [leO, leV]
      | dict _ => simp [leV] at h2
    · simp [hw, leO]
  | .leaf _, _, .dict _, _, h1, _ => by simp [leV] at h1
  | .dict _, _, .leaf _, _, h1, _ => by simp [leV] at h1
  | .dict x, .leaf b, .dict x', w', _, _ => by simp [interV, leO]
  | .dict x, .dict y, .dict x', .leaf _, _, h2 => by simp [leV] at h2
  | .dict x, .dict y, .dict x', .dict y', h1, h2 => by
    simp only [leV] at h1 h2
    simp only [interV]
    by_cases hyx : (Val.dict y : V) = .dict x
    · have : y = x := by simpa using hyx
      subst this
      rw [if_pos rfl]
      by_cases h' : (Val.dict y' : V) = .dict x'
      · rw [if_pos h']; simp only [leO, leV]; exact h1
      · rw [if_neg h']; simp only [leO, leV]
        have := interL_mono y y x' y' h1 h2
        rwa [interL_self] at this
    · rw [if_neg hyx]
      by_cases h' : (Val.dict y' : V) = .dict x'
      · rw [if_pos h']; simp only [leO, leV]
        exact leL_trans _ _ _ (interL_le_left x y) h1
      · rw [if_neg h']; simp only [leO, leV]
        exact interL_mono x y x' y' h1 h2
theorem interO_mono : ∀ (a b a' b' : Option V), leO a a' → leO b b' → leO (interO a b) (interO a' b')
  | none, _, _, _, _, _ => by simp [interO, leO]
  | some _, none, _, _, _, _ => by simp [interO, leO]
  | some _, some _, none, _, h1, _ => by simp [leO] at h1
  | some _, some _, some _, none, _, h2 => by simp [leO] at h2
  | some v, some w, some v', some w', h1, h2 => by
    simp only [leO] at h1 h2
    simp only [interO]; exact interV_mono v w v' w' h1 h2
theorem interL_mono : ∀ (a b a' b' : Ctx), leL a a' → leL b b' → leL (interL a b) (interL a' b')
  | [], _, _, _, _, _ => by simp [interL, leL]
  | x :: r, b, [], b', h1, _ => by
    simp only [leL] at h1
    have hx := leO_none_right h1.1
    subst hx
    have hr : nonEmpty (interL (none :: r) b) = false := by
      have h0 : nonEmpty (none :: r : Ctx) = false := by
        have := nonEmpty_false_of_le h1.2 (by simp [nonEmpty])
        simpa [nonEmpty] using this
      exact nonEmpty_false_of_le (interL_le_left _ b) h0
    exact leL_of_not_nonEmpty _ _ hr
  | x :: r, [], x' :: r', b', h1, _ => by
    simp only [leL] at h1
    cases b' with
    | nil =>
      simp only [interL, leL]
      exact ⟨interO_mono x none x' none h1.1 (by simp [leO]), interL_mono r [] r' [] h1.2 (by simp [leL])⟩
    | cons y' b' =>
      simp only [interL, leL]
      exact ⟨interO_mono x none x' y' h1.1 (by simp [leO]), interL_mono r [] r' b' h1.2 (by simp [leL])⟩
  | x :: r, y :: b, x' :: r', [], h1, h2 => by
    simp only [leL] at h1 h2
    have hy := leO_none_right h2.1
    subst hy
    simp only [interL, leL]
    exact ⟨interO_mono x none x' none h1.1 (by simp [leO]), interL_mono r b r' [] h1.2 h2.2⟩
  | x :: r, y :: b, x' :: r', y' :: b', h1, h2 => by
    simp only [leL] at h1 h2
    simp only [interL, leL]
    exact ⟨interO_mono x y x' y' h1.1 h2.1, interL_mono r b r' b' h1.2 h2.2⟩
end

/-- pointwise relation of two lists of the same length -/
inductive All2 {α β : Type} (R : α → β → Prop) : List α → List β → Prop where
  | nil : All2 R [] []
  | cons {a b as bs} : R a b → All2 R as bs → All2 R (a :: as) (b :: bs)

mutual
theorem interV_le_right : ∀ (v w : V), leO (interV v w) (some w)
  | .leaf a, w => by
    simp only [interV]
    by_cases h : w = .leaf a
    · rw [if_pos h, h]; simp [leO, leV]
    · rw [if_neg h]; simp [leO]
  | .dict x, w => by
    simp only [interV]
    by_cases h : w = .dict x
    · rw [if_pos h, h]; simp only [leO, leV]; exact leL_refl x
    · rw [if_neg h]
      cases w with
      | leaf b => simp [leO]
      | dict y => simp only [leO, leV]; exact interL_le_right x y
theorem interO_le_right : ∀ (a b : Option V), leO (interO a b) b
  | none, _ => by simp [interO, leO]
  | some _, none => by simp [interO, leO]
  | some v, some w => by simp only [interO]; exact interV_le_right v w
theorem interL_le_right : ∀ (a b : Ctx), leL (interL a b) b
  | [], _ => by simp [interL, leL]
  | x :: r, [] => by
    simp only [interL, leL]
    refine ⟨?_, interL_le_right r []⟩
    cases x <;> simp [interO, leO]
  | x :: r, y :: r' => by simp only [interL, leL]; exact ⟨interO_le_right x y, interL_le_right r r'⟩
end

/-- the result of `intersection` is below every argument … -/
theorem interFold_le : ∀ (ds : List Ctx) (res : Ctx), leL (interFold res ds) res ∧ ∀ d ∈ ds, leL (interFold res ds) d
  | [], res => ⟨by simpa [interFold] using leL_refl res, by simp⟩
  | d :: ds, res => by
    simp only [interFold]
    by_cases hne : nonEmpty (interL res d) = true
    · simp only [hne, if_true]
      obtain ⟨h1, h2⟩ := interFold_le ds (interL res d)
      refine ⟨leL_trans _ _ _ h1 (interL_le_left res d), ?_⟩
      intro d' hd'
      simp only [List.mem_cons] at hd'
      rcases hd' with hd' | hd'
      · subst hd'; exact leL_trans _ _ _ h1 (interL_le_right res d')
      · exact h2 d' hd'
    · have hne' : nonEmpty (interL res d) = false := by simpa using hne
      simp only [hne]
      exact ⟨leL_of_not_nonEmpty _ _ hne', fun d' _ => leL_of_not_nonEmpty _ _ hne'⟩

theorem interN_le (n : Nat) (cs : List Ctx) (c : Ctx) (hc : c ∈ cs) : leL (interN n cs) c := by
  cases cs with
  | nil => simp at hc
  | cons c0 cs =>
    simp only [interN]
    simp only [List.mem_cons] at hc
    rcases hc with hc | hc
    · subst hc; exact (interFold_le cs c).1
    · exact (interFold_le cs c0).2 c hc

/-- … and is the greatest such context -/
theorem interL_glb (x a b : Ctx) (ha : leL x a) (hb : leL x b) : leL x (interL a b) := by
  have := interL_mono x x a b ha hb
  rwa [interL_self] at this

theorem interFold_glb : ∀ (ds : List Ctx) (res x : Ctx), leL x res → (∀ d ∈ ds, leL x d) → leL x (interFold res ds)
  | [], res, x, h, _ => by simpa [interFold] using h
  | d :: ds, res, x, h, hd => by
    simp only [interFold]
    have h1 := interL_glb x res d h (hd d (by simp))
    by_cases hne : nonEmpty (interL res d) = true
    · simp only [hne, if_true]
      exact interFold_glb ds _ x h1 (fun d' hd' => hd d' (by simp [hd']))
    · simp only [hne]; exact h1

theorem interN_glb (n : Nat) (cs : List Ctx) (x : Ctx) (hne : cs ≠ []) (h : ∀ c ∈ cs, leL x c) : leL x (interN n cs) := by
  cases cs with
  | nil => simp at hne
  | cons c0 cs =>
    simp only [interN]
    exact interFold_glb cs c0 x (h c0 (by simp)) (fun d hd => h d (by simp [hd]))

theorem interFold_mono : ∀ (ds ds' : List Ctx) (res res' : Ctx), All2 leL ds ds' → leL res res' →
    leL (interFold res ds) (interFold res' ds')
  | [], _, res, res', h, hr => by cases h; simpa [interFold] using hr
  | d :: ds, _, res, res', h, hr => by
    cases h with
    | cons hd htl =>
      rename_i d' ds'
      simp only [interFold]
      have h1 := interL_mono res d res' d' hr hd
      by_cases hne : nonEmpty (interL res d) = true
      · have hne' := nonEmpty_mono _ _ h1 hne
        simp only [hne, hne', if_true]
        exact interFold_mono ds ds' _ _ htl h1
      · simp only [hne]
        exact leL_of_not_nonEmpty _ _ (by simpa using hne)

theorem interN_mono (n : Nat) (cs cs' : List Ctx) (h : All2 leL cs cs') :
    leL (interN n cs) (interN n cs') := by
  cases h with
  | nil => exact leL_refl _
  | cons hd htl => simp only [interN]; exact interFold_mono _ _ _ _ htl hd

/-! ## lengths: every context of the protocol has `n` slots at top level -/

theorem updL_length : ∀ (d u : Ctx), (updL d u).length = max d.length u.length
  | d, [] => by simp [updL]
  | [], y :: r => by simp [updL, updL_length [] r]
  | x :: d, y :: r => by simp [updL, updL_length d r]

theorem interL_length : ∀ (a b : Ctx), (interL a b).length = a.length
  | [], _ => by simp [interL]
  | x :: r, [] => by simp [interL, interL_length r []]
  | x :: r, y :: b => by simp [interL, interL_length r b]

theorem interFold_length : ∀ (ds : List Ctx) (res : Ctx), (interFold res ds).length = res.length
  | [], _ => by simp [interFold]
  | d :: ds, res => by
    simp only [interFold]; split
    · rw [interFold_length ds, interL_length]
    · rw [interL_length]

theorem interN_length (n : Nat) (cs : List Ctx) (h : ∀ c ∈ cs, c.length = n) : (interN n cs).length = n := by
  cases cs with
  | nil => simp [interN, Val.empty]
  | cons c cs => simp only [interN]; rw [interFold_length]; exact h c (by simp)

theorem single_length (n k : Nat) (ks : List Nat) (l : Leaf) : (single n k ks l).length = n := by
  cases ks <;> simp [single]

theorem singleV_length (n k : Nat) (ks : List Nat) (v : V) : (singleV n k ks v).length = n := by
  cases ks <;> simp [singleV]

/-- the scalar `str_to_dict` of the model is the general one at a leaf -/
theorem single_eq_singleV (n : Nat) : ∀ (ks : List Nat) (k : Nat) (l : Leaf), single n k ks l = singleV n k ks (.leaf l)
  | [], k, l => by simp [single, singleV]
  | k' :: ks, k, l => by simp [single, singleV, single_eq_singleV n ks k' l]

/-! ## lookups and formatting are monotone while they succeed -/

theorem getRec_mono : ∀ (p : List Nat) (c d : Ctx) (v : V), leL c d → getRec c p = .ok v →
    ∃ w, getRec d p = .ok w ∧ leV v w
  | [], c, d, v, h, hv => by
    simp only [getRec] at hv
    cases hv
    exact ⟨.dict d, by simp [getRec], by simpa [leV] using h⟩
  | [k], c, d, v, h, hv => by
    simp only [getRec] at hv ⊢
    cases hs : getSlot c k with
    | none => simp [hs] at hv
    | some v0 =>
      simp only [hs] at hv
      cases hv
      obtain ⟨w, hw, hvw⟩ := getSlot_mono c d k v h hs
      exact ⟨w, by simp [hw], hvw⟩
  | k :: k' :: ks, c, d, v, h, hv => by
    simp only [getRec] at hv ⊢
    cases hs : getSlot c k with
    | none => simp [hs] at hv
    | some v0 =>
      cases v0 with
      | leaf _ => simp [hs] at hv
      | dict c' =>
        simp only [hs] at hv
        obtain ⟨w, hw, hvw⟩ := getSlot_mono c d k _ h hs
        cases w with
        | leaf _ => simp [leV] at hvw
        | dict d' =>
          simp only [leV] at hvw
          simp only [hw]
          exact getRec_mono (k' :: ks) c' d' v hvw hv

theorem render_mono : ∀ (v w : V), leV v w → render v = render w
  | .leaf a, .leaf b, h => by simp only [leV] at h; subst h; rfl
  | .dict _, .dict _, _ => by simp [render]
  | .leaf _, .dict _, h => by simp [leV] at h
  | .dict _, .leaf _, h => by simp [leV] at h

theorem renderAll_mono : ∀ (vs ws : List (V × String)) (acc : String),
    All2 (fun a b => leV a.1 b.1 ∧ a.2 = b.2) vs ws → renderAll acc vs = renderAll acc ws
  | [], _, _, h => by cases h; rfl
  | (v, lit) :: vs, _, acc, h => by
    cases h with
    | cons hd htl =>
      rename_i b ws
      obtain ⟨w, lit'⟩ := b
      simp only at hd
      obtain ⟨h1, h2⟩ := hd
      subst h2
      simp only [renderAll, render_mono v w h1]
      cases render w with
      | none => rfl
      | some s => exact renderAll_mono vs ws _ htl

theorem lookups_mono : ∀ (ps : List (List Nat × String)) (c d : Ctx) (vs : List (V × String)), leL c d →
    lookups c ps = .ok vs →
    ∃ ws, lookups d ps = .ok ws ∧ All2 (fun a b => leV a.1 b.1 ∧ a.2 = b.2) vs ws
  | [], c, d, vs, _, hv => by
    simp only [lookups] at hv; cases hv
    exact ⟨[], by simp [lookups], All2.nil⟩
  | (p, lit) :: ps, c, d, vs, h, hv => by
    simp only [lookups] at hv ⊢
    cases hg : getRec c p with
    | error e => simp [hg] at hv
    | ok v =>
      simp only [hg] at hv
      cases hl : lookups c ps with
      | error e => simp [hl] at hv
      | ok vs' =>
        simp only [hl] at hv
        cases hv
        obtain ⟨w, hw, hvw⟩ := getRec_mono p c d v h hg
        obtain ⟨ws, hws, hf⟩ := lookups_mono ps c d vs' h hl
        exact ⟨(w, lit) :: ws, by simp [hw, hws], All2.cons ⟨hvw, rfl⟩ hf⟩

theorem fmt_mono (t : Tpl) (c d : Ctx) (l : Leaf) (h : leL c d) (hv : fmt t c = .ok l) : fmt t d = .ok l := by
  simp only [fmt] at hv ⊢
  cases hl : lookups c t.parts with
  | error e => simp [hl] at hv
  | ok vs =>
    obtain ⟨ws, hws, hf⟩ := lookups_mono t.parts c d vs h hl
    simp only [hl] at hv
    simp only [hws, ← renderAll_mono vs ws t.head hf]
    exact hv

theorem fmtUpdate_mono (n k : Nat) (ks : List Nat) (v : SVal) (c d x : Ctx) (h : leL c d)
    (hv : fmtUpdate n k ks v c = .ok x) : ∃ y, fmtUpdate n k ks v d = .ok y ∧ leL x y := by
  cases v with
  | const l =>
    simp only [fmtUpdate] at hv ⊢
    cases hv
    exact ⟨_, rfl, updL_mono _ _ _ h⟩
  | tpl t =>
    simp only [fmtUpdate] at hv ⊢
    cases hf : fmt t c with
    | error e => simp [hf] at hv
    | ok l =>
      simp only [hf] at hv
      cases hv
      simp only [fmt_mono t c d l h hf]
      exact ⟨_, rfl, updL_mono _ _ _ h⟩
  | dictv y =>
    simp only [fmtUpdate] at hv ⊢
    cases hv
    exact ⟨_, rfl, updL_mono _ _ _ h⟩

theorem fmtUpdate_length (n k : Nat) (ks : List Nat) (v : SVal) (c x : Ctx) (hc : c.length = n)
    (hv : fmtUpdate n k ks v c = .ok x) : x.length = n := by
  cases v with
  | const l =>
    simp only [fmtUpdate] at hv; cases hv
    simp [updL_length, single_length, hc]
  | tpl t =>
    simp only [fmtUpdate] at hv
    cases hf : fmt t c with
    | error e => simp [hf] at hv
    | ok l =>
      simp only [hf] at hv; cases hv
      simp [updL_length, single_length, hc]
  | dictv y =>
    simp only [fmtUpdate] at hv; cases hv
    simp [updL_length, singleV_length, hc]

end Lena.C13
