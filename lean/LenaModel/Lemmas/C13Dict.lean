import LenaModel.Model.C13
/-! # C13 lemmas, part 1 — the information order on contexts

`c ⊑ c'` (`leL`): every key of `c` is a key of `c'`, with the same scalar, or with a dictionary that is `⊑`.
It is what an enclosing sequence's larger prefix does to the context that reaches an element, and
everything the protocol computes is monotone in it *as long as it succeeds* — that is the lemma which makes
the "skip an element while the context is empty" optimisation of `LenaSequence._set_context` sound. -/

namespace Lena.C13
open Lena Lena.Val

mutual
def leV : V → V → Prop
  | .leaf a, .leaf b => a = b
  | .dict x, .dict y => leL x y
  | .leaf _, .dict _ => False
  | .dict _, .leaf _ => False
def leO : Option V → Option V → Prop
  | none, _ => True
  | some _, none => False
  | some v, some w => leV v w
def leL : Ctx → Ctx → Prop
  | [], _ => True
  | x :: r, [] => leO x none ∧ leL r []
  | x :: r, y :: r' => leO x y ∧ leL r r'
end

/-! ## order -/

mutual
theorem leV_refl : ∀ v : V, leV v v
  | .leaf _ => by simp [leV]
  | .dict x => by simp only [leV]; exact leL_refl x
theorem leO_refl : ∀ o : Option V, leO o o
  | none => by simp [leO]
  | some v => by simp only [leO]; exact leV_refl v
theorem leL_refl : ∀ c : Ctx, leL c c
  | [] => by simp [leL]
  | x :: r => by simp only [leL]; exact ⟨leO_refl x, leL_refl r⟩
end

theorem leO_none_right {o : Option V} (h : leO o none) : o = none := by
  cases o <;> simp_all [leO]

mutual
theorem leV_trans : ∀ (a b c : V), leV a b → leV b c → leV a c
  | .leaf _, .leaf _, .leaf _, h1, h2 => by simp_all [leV]
  | .dict x, .dict y, .dict z, h1, h2 => by
    simp only [leV] at *; exact leL_trans x y z h1 h2
  | .leaf _, .dict _, _, h1, _ => by simp [leV] at h1
  | .dict _, .leaf _, _, h1, _ => by simp [leV] at h1
  | .leaf _, .leaf _, .dict _, _, h2 => by simp [leV] at h2
  | .dict _, .dict _, .leaf _, _, h2 => by simp [leV] at h2
theorem leO_trans : ∀ (a b c : Option V), leO a b → leO b c → leO a c
  | none, _, _, _, _ => by simp [leO]
  | some _, none, _, h1, _ => by simp [leO] at h1
  | some _, some _, none, _, h2 => by simp [leO] at h2
  | some u, some v, some w, h1, h2 => by
    simp only [leO] at *; exact leV_trans u v w h1 h2
theorem leL_trans : ∀ (a b c : Ctx), leL a b → leL b c → leL a c
  | [], _, _, _, _ => by simp [leL]
  | x :: r, [], c, h1, _ => by
    simp only [leL] at h1
    have hx := leO_none_right h1.1
    subst hx
    cases c with
    | nil => simp only [leL]; exact ⟨by simp [leO], leL_trans r [] [] h1.2 (by simp [leL])⟩
    | cons z c' => simp only [leL]; exact ⟨by simp [leO], leL_trans r [] c' h1.2 (by simp [leL])⟩
  | x :: r, y :: r', [], h1, h2 => by
    simp only [leL] at *
    have hy := leO_none_right h2.1
    subst hy
    exact ⟨leO_trans x none none h1.1 (by simp [leO]), leL_trans r r' [] h1.2 h2.2⟩
  | x :: r, y :: r', z :: r'', h1, h2 => by
    simp only [leL] at *
    exact ⟨leO_trans x y z h1.1 h2.1, leL_trans r r' r'' h1.2 h2.2⟩
end

/-! ## emptiness -/

theorem leL_of_not_nonEmpty : ∀ (c d : Ctx), nonEmpty c = false → leL c d
  | [], _, _ => by simp [leL]
  | x :: r, d, h => by
    simp only [nonEmpty, List.any_cons, Bool.or_eq_false_iff] at h
    have hx : x = none := by cases x <;> simp_all
    subst hx
    cases d with
    | nil => simp only [leL]; exact ⟨by simp [leO], leL_of_not_nonEmpty r [] (by simpa [nonEmpty] using h.2)⟩
    | cons y d' => simp only [leL]; exact ⟨by simp [leO], leL_of_not_nonEmpty r d' (by simpa [nonEmpty] using h.2)⟩

theorem nonEmpty_empty (n : Nat) : nonEmpty (Val.empty n : Ctx) = false := by
  simp [nonEmpty, Val.empty]

theorem empty_leL (n : Nat) (c : Ctx) : leL (Val.empty n) c :=
  leL_of_not_nonEmpty _ _ (nonEmpty_empty n)

theorem nonEmpty_mono : ∀ (c d : Ctx), leL c d → nonEmpty c = true → nonEmpty d = true
  | [], _, _, h => by simp [nonEmpty] at h
  | x :: r, [], h1, h => by
    simp only [leL] at h1
    have hx := leO_none_right h1.1
    subst hx
    have : nonEmpty r = true := by simpa [nonEmpty] using h
    have := nonEmpty_mono r [] h1.2 this
    simp [nonEmpty] at this
  | x :: r, y :: r', h1, h => by
    simp only [leL] at h1
    simp only [nonEmpty, List.any_cons, Bool.or_eq_true] at h ⊢
    rcases h with h | h
    · left
      cases x with
      | none => simp at h
      | some v => cases y with
        | none => simp [leO] at h1
        | some w => simp
    · right
      exact nonEmpty_mono r r' h1.2 (by simpa [nonEmpty] using h)

theorem eq_empty_of_not_nonEmpty : ∀ (n : Nat) (c : Ctx), c.length = n → nonEmpty c = false → c = Val.empty n
  | 0, [], _, _ => rfl
  | n + 1, x :: r, hl, h => by
    simp only [nonEmpty, List.any_cons, Bool.or_eq_false_iff] at h
    have hx : x = none := by cases x <;> simp_all
    subst hx
    have := eq_empty_of_not_nonEmpty n r (by simpa using hl) (by simpa [nonEmpty] using h.2)
    rw [this]; simp [Val.empty, List.replicate_succ]
  | 0, _ :: _, hl, _ => by simp at hl
  | _ + 1, [], hl, _ => by simp at hl

/-- below the empty context there is only the empty context -/
theorem nonEmpty_false_of_le {c d : Ctx} (h : leL c d) (hd : nonEmpty d = false) : nonEmpty c = false := by
  cases hc : nonEmpty c with
  | false => rfl
  | true => have := nonEmpty_mono c d h hc; simp [hd] at this

/-! ## slots -/

theorem getSlot_mono : ∀ (c d : Ctx) (k : Nat) (v : V), leL c d → getSlot c k = some v →
    ∃ w, getSlot d k = some w ∧ leV v w
  | [], _, _, _, _, h => by simp [getSlot] at h
  | x :: r, [], k, v, h1, h => by
    simp only [leL] at h1
    have hx := leO_none_right h1.1
    subst hx
    cases k with
    | zero => simp [getSlot] at h
    | succ k =>
      have h' : getSlot r k = some v := by simpa [getSlot] using h
      obtain ⟨w, hw, _⟩ := getSlot_mono r [] k v h1.2 h'
      simp [getSlot] at hw
  | x :: r, y :: r', k, v, h1, h => by
    simp only [leL] at h1
    cases k with
    | zero =>
      have hx : x = some v := by simpa [getSlot] using h
      subst hx
      cases y with
      | none => simp [leO] at h1
      | some w => exact ⟨w, by simp [getSlot], by simpa [leO] using h1.1⟩
    | succ k =>
      have h' : getSlot r k = some v := by simpa [getSlot] using h
      obtain ⟨w, hw, hvw⟩ := getSlot_mono r r' k v h1.2 h'
      exact ⟨w, by simpa [getSlot] using hw, hvw⟩

/-! ## `update_recursively` is monotone in the dictionary that is updated -/

end Lena.C13
