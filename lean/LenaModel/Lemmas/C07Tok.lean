import LenaModel.Model.C07Tok
import LenaModel.Lemmas.C07
/-! # C07 — helper lemmas for the token model -/
namespace Lena.C07
open Lena Lena.Val
variable {α : Type} [DecidableEq α]

/-! ### erasure -/

omit [DecidableEq α] in
theorem eraseL_length : ∀ l : TSlots α, (eraseL l).length = l.length
  | [] => by simp [eraseL]
  | none :: r => by simp [eraseL, eraseL_length r]
  | some v :: r => by simp [eraseL, eraseL_length r]

omit [DecidableEq α] in
theorem eraseL_cons (x : Option (TVal α)) (r : TSlots α) :
    eraseL (x :: r) = x.map eraseV :: eraseL r := by
  cases x <;> simp [eraseL]

omit [DecidableEq α] in
theorem eraseL_replicate_none (n : Nat) : eraseL (List.replicate n (none : Option (TVal α))) = List.replicate n none := by
  induction n with
  | zero => simp [eraseL]
  | succ n ih => simp [List.replicate_succ, eraseL, ih]

omit [DecidableEq α] in
mutual
theorem erase_copyV : ∀ (v : TVal α) (c : Nat), eraseV (copyV v c).1 = eraseV v
  | .leaf ts a, c => by simp [copyV, eraseV]
  | .dict t l, c => by simp [copyV, eraseV, erase_copyL l (c + 1)]
theorem erase_copyL : ∀ (l : TSlots α) (c : Nat), eraseL (copyL l c).1 = eraseL l
  | [], c => by simp [copyL, eraseL]
  | none :: r, c => by simp [copyL, eraseL, erase_copyL r c]
  | some v :: r, c => by simp [copyL, eraseL, erase_copyV v c, erase_copyL r _]
end

theorem interL_nil_right (lv : Int) : ∀ a : Slots α, interL lv a [] = List.replicate a.length none
  | [] => by simp [interL]
  | x :: r => by
      have : interO lv x none = none := by cases x <;> simp [interO]
      simp [interL, this, interL_nil_right lv r, List.replicate_succ]

mutual
theorem erase_interTO (lv : Int) : ∀ (x : Option (TVal α)) (y : Option (Val α)) (c : Nat),
    (interTO lv x y c).1.map eraseV = interO lv (x.map eraseV) y
  | none, _, _ => by simp [interTO, interO]
  | some _, none, _ => by simp [interTO, interO]
  | some (.leaf ts a), some (.leaf b), c => by
      by_cases e : b = a <;> simp [interTO, interO, eraseV, e]
  | some (.leaf ts a), some (.dict y), c => by simp [interTO, interO, eraseV]
  | some (.dict t x), some (.leaf b), c => by simp [interTO, interO, eraseV]
  | some (.dict t x), some (.dict y), c => by
      by_cases e : y = eraseL x
      · simp [interTO, interO, eraseV, e]
      · by_cases h1 : lv = 1
        · simp [interTO, interO, eraseV, e, h1]
        · have h0 : ¬ (lv - 1 = 0) := by omega
          have ih := erase_interTL (lv - 1) (copyL x (c + 1)).1 y (copyL x (c + 1)).2
          rw [erase_copyL] at ih
          simp [interTO, interO, eraseV, e, h1, h0, ih]
  termination_by _ y _ => sizeOf y
theorem erase_interTL (lv : Int) : ∀ (a : TSlots α) (b : Slots α) (c : Nat),
    eraseL (interTL lv a b c).1 = interL lv (eraseL a) b
  | [], _, _ => by simp [interTL, eraseL, interL]
  | x :: r, [], c => by
      rw [interTL, interL_nil_right, eraseL_replicate_none, eraseL_length]
      simp
  | x :: r, y :: r', c => by
      rw [interTL, eraseL_cons, eraseL_cons, interL, erase_interTO lv x y c, erase_interTL lv r r' _]
  termination_by _ b _ => sizeOf b
end

/-! ### freshness: all identities in the result are at least `c0` -/

/-- every identity of the value is `≥ c0` -/
def FreshV (c0 : Nat) (v : TVal α) : Prop := ∀ t ∈ toksV v, c0 ≤ t
def FreshL (c0 : Nat) (l : TSlots α) : Prop := ∀ t ∈ toksL l, c0 ≤ t
def FreshO (c0 : Nat) (x : Option (TVal α)) : Prop := ∀ v, x = some v → FreshV c0 v

omit [DecidableEq α] in
theorem FreshL_cons (c0 : Nat) (x : Option (TVal α)) (r : TSlots α) :
    FreshL c0 (x :: r) ↔ FreshO c0 x ∧ FreshL c0 r := by
  cases x with
  | none => simp [FreshL, FreshO, toksL]
  | some v =>
    simp only [FreshL, FreshO, FreshV, toksL, List.mem_append, Option.some.injEq]
    constructor
    · intro h
      exact ⟨fun w hw t ht => h t (Or.inl (hw ▸ ht)), fun t ht => h t (Or.inr ht)⟩
    · rintro ⟨h1, h2⟩ t (ht | ht)
      · exact h1 v rfl t ht
      · exact h2 t ht

omit [DecidableEq α] in
theorem FreshV_dict (c0 t : Nat) (l : TSlots α) : FreshV c0 (.dict t l) ↔ c0 ≤ t ∧ FreshL c0 l := by
  simp [FreshV, FreshL, toksV]

omit [DecidableEq α] in
theorem FreshL_replicate_none (c0 n : Nat) : FreshL c0 (List.replicate n (none : Option (TVal α))) := by
  induction n with
  | zero => simp [FreshL, toksL]
  | succ n ih => rw [List.replicate_succ, FreshL_cons]; exact ⟨by simp [FreshO], ih⟩

omit [DecidableEq α] in
mutual
theorem copyV_fresh : ∀ (v : TVal α) (c : Nat), c ≤ (copyV v c).2 ∧ FreshV c (copyV v c).1
  | .leaf ts a, c => by
      simp only [copyV, FreshV, toksV]
      refine ⟨by omega, ?_⟩
      intro t ht
      rw [List.mem_range'_1] at ht
      exact ht.1
  | .dict t l, c => by
      have ih := copyL_fresh l (c + 1)
      simp only [copyV]
      rw [FreshV_dict]
      exact ⟨by omega, Nat.le_refl _, fun t ht => by have := ih.2 t ht; omega⟩
theorem copyL_fresh : ∀ (l : TSlots α) (c : Nat), c ≤ (copyL l c).2 ∧ FreshL c (copyL l c).1
  | [], c => by simp [copyL, FreshL, toksL]
  | none :: r, c => by
      have ih := copyL_fresh r c
      simp only [copyL]
      rw [FreshL_cons]
      exact ⟨ih.1, by simp [FreshO], ih.2⟩
  | some v :: r, c => by
      have i1 := copyV_fresh v c
      have i2 := copyL_fresh r (copyV v c).2
      simp only [copyL]
      rw [FreshL_cons]
      refine ⟨by omega, ?_, fun t ht => by have := i2.2 t ht; omega⟩
      intro w hw
      cases hw
      exact i1.2
end

omit [DecidableEq α] in
theorem FreshL.mono {c0 c1 : Nat} {l : TSlots α} (h : FreshL c1 l) (hc : c0 ≤ c1) : FreshL c0 l :=
  fun t ht => by have := h t ht; omega

mutual
theorem interTO_fresh (lv : Int) (c0 : Nat) : ∀ (x : Option (TVal α)) (y : Option (Val α)) (c : Nat),
    FreshO c0 x → c0 ≤ c → c ≤ (interTO lv x y c).2 ∧ FreshO c0 (interTO lv x y c).1
  | none, _, c, _, _ => by simp [interTO, FreshO]
  | some _, none, c, _, _ => by simp [interTO, FreshO]
  | some (.leaf ts a), some (.leaf b), c, hx, _ => by
      by_cases e : b = a <;> simp [interTO, eraseV, e, FreshO]
      exact hx _ rfl
  | some (.leaf ts a), some (.dict y), c, _, _ => by simp [interTO, eraseV, FreshO]
  | some (.dict t x), some (.leaf b), c, _, _ => by simp [interTO, eraseV, FreshO]
  | some (.dict t x), some (.dict y), c, hx, hc => by
      by_cases e : y = eraseL x
      · simp only [interTO, eraseV, e, if_true]
        exact ⟨Nat.le_refl _, hx⟩
      · by_cases h1 : lv = 1
        · simp [interTO, eraseV, e, h1, FreshO]
        · have h0 : ¬ (lv - 1 = 0) := by omega
          have hcp := copyL_fresh x (c + 1)
          have ih := interTL_fresh (lv - 1) c0 (copyL x (c + 1)).1 y (copyL x (c + 1)).2
            (hcp.2.mono (by omega)) (by omega)
          simp only [interTO, eraseV, Val.dict.injEq, e, if_false, h1, h0]
          refine ⟨by omega, ?_⟩
          intro w hw
          cases hw
          rw [FreshV_dict]
          exact ⟨hc, ih.2⟩
  termination_by _ y _ => sizeOf y
theorem interTL_fresh (lv : Int) (c0 : Nat) : ∀ (a : TSlots α) (b : Slots α) (c : Nat),
    FreshL c0 a → c0 ≤ c → c ≤ (interTL lv a b c).2 ∧ FreshL c0 (interTL lv a b c).1
  | [], _, c, _, _ => by simp [interTL, FreshL, toksL]
  | x :: r, [], c, _, _ => by
      rw [interTL]
      exact ⟨Nat.le_refl _, FreshL_replicate_none c0 _⟩
  | x :: r, y :: r', c, ha, hc => by
      rw [FreshL_cons] at ha
      have i1 := interTO_fresh lv c0 x y c ha.1 hc
      have i2 := interTL_fresh lv c0 r r' (interTO lv x y c).2 ha.2 (by omega)
      rw [interTL, FreshL_cons]
      exact ⟨by omega, i1.2, i2.2⟩
  termination_by _ b _ => sizeOf b
end


/-! ### the loop over `dicts[1:]` and the whole call -/

omit [DecidableEq α] in
theorem erase_emptyT (c n : Nat) : eraseV (emptyT c n : TVal α) = .dict (List.replicate n none) := by
  simp [emptyT, eraseV, eraseL_replicate_none]

theorem erase_interTFold (lv : Int) (t : Nat) : ∀ (ds : List (Slots α)) (l : TSlots α) (c : Nat),
    eraseV (interTFold lv t l ds c).1 = .dict (interFold lv (eraseL l) ds)
  | [], l, c => by simp [interTFold, interFold, eraseV]
  | d :: ds, l, c => by
      by_cases h0 : lv = 0
      · simp only [interTFold, interFold, h0, if_true]
        split
        · exact erase_interTFold 0 t ds l c
        · rw [erase_emptyT]; simp [emptyLike, eraseL_length]
      · simp only [interTFold, interFold, h0, if_false, erase_interTL]
        split
        · rw [erase_interTFold lv t ds _ _, erase_interTL]
        · simp [eraseV, erase_interTL]

theorem interTFold_fresh (lv : Int) (t c0 : Nat) (ht : c0 ≤ t) : ∀ (ds : List (Slots α)) (l : TSlots α) (c : Nat),
    FreshL c0 l → c0 ≤ c → FreshV c0 (interTFold lv t l ds c).1
  | [], l, c, hl, _ => by
      simp only [interTFold]; rw [FreshV_dict]; exact ⟨ht, hl⟩
  | d :: ds, l, c, hl, hc => by
      by_cases h0 : lv = 0
      · simp only [interTFold, h0, if_true]
        split
        · exact interTFold_fresh 0 t c0 ht ds l c hl hc
        · simp only [emptyT]; rw [FreshV_dict]; exact ⟨hc, FreshL_replicate_none c0 _⟩
      · have i := interTL_fresh lv c0 l d c hl hc
        simp only [interTFold, h0, if_false]
        split
        · exact interTFold_fresh lv t c0 ht ds _ _ i.2 (by omega)
        · rw [FreshV_dict]; exact ⟨ht, i.2⟩

/-! ### difference with identities -/
section diff
variable (truthy : α → Bool)

omit [DecidableEq α] in
theorem truthyT_erase (v : TVal α) : truthyT truthy v = truthyV truthy (eraseV v) := by
  cases v <;> simp [truthyT, truthyV, eraseV]

mutual
theorem erase_diffTV (lv : Int) : ∀ (v : TVal α) (w : Val α) (c : Nat),
    eraseV (diffTV truthy lv v w c).1 = diffV truthy lv (eraseV v) w
  | .dict t x, .dict y, c => by
      simp only [diffTV, eraseV, diffV]
      split
      · rw [erase_emptyT]; simp [emptyLike, eraseL_length]
      · split
        · simp [eraseV]
        · simp [eraseV, erase_diffTL lv x y (c + 1)]
  | .dict t x, .leaf b, c => by simp [diffTV, eraseV, diffV]
  | .leaf ts a, w, c => by simp [diffTV, eraseV, diffV]
theorem erase_diffTO (lv : Int) : ∀ (x : Option (TVal α)) (y : Option (Val α)) (c : Nat),
    (diffTO truthy lv x y c).1.map eraseV = diffO truthy lv (x.map eraseV) y
  | none, _, _ => by simp [diffTO, diffO]
  | some v, none, _ => by simp [diffTO, diffO]
  | some v, some w, c => by
      simp only [diffTO, diffO, Option.map_some]
      split
      · simp
      · split
        · rw [truthyT_erase, erase_diffTV (lv - 1) v w c]
          split <;> simp [erase_diffTV (lv - 1) v w c]
        · simp
theorem erase_diffTL (lv : Int) : ∀ (a : TSlots α) (b : Slots α) (c : Nat),
    eraseL (diffTL truthy lv a b c).1 = diffL truthy lv (eraseL a) b
  | [], _, _ => by simp [diffTL, eraseL, diffL]
  | x :: r, [], c => by
      rw [diffTL, eraseL_cons, eraseL_cons, diffL, erase_diffTO lv x none c, erase_diffTL lv r [] _]
  | x :: r, y :: r', c => by
      rw [diffTL, eraseL_cons, eraseL_cons, diffL, erase_diffTO lv x y c, erase_diffTL lv r r' _]
end

/-- every identity of the value is one of `v` or new (`≥ c`) -/
def FromV (src : List Nat) (c : Nat) (v : TVal α) : Prop := ∀ t ∈ toksV v, t ∈ src ∨ c ≤ t
def FromL (src : List Nat) (c : Nat) (l : TSlots α) : Prop := ∀ t ∈ toksL l, t ∈ src ∨ c ≤ t
def FromO (src : List Nat) (c : Nat) (x : Option (TVal α)) : Prop := ∀ v, x = some v → FromV src c v

omit [DecidableEq α] in
theorem FromL_cons (src : List Nat) (c : Nat) (x : Option (TVal α)) (r : TSlots α) :
    FromL src c (x :: r) ↔ FromO src c x ∧ FromL src c r := by
  cases x with
  | none => simp [FromL, FromO, toksL]
  | some v =>
    simp only [FromL, FromO, FromV, toksL, List.mem_append, Option.some.injEq]
    constructor
    · intro h
      exact ⟨fun w hw t ht => h t (Or.inl (hw ▸ ht)), fun t ht => h t (Or.inr ht)⟩
    · rintro ⟨h1, h2⟩ t (ht | ht)
      · exact h1 v rfl t ht
      · exact h2 t ht

omit [DecidableEq α] in
theorem FromL_replicate_none (src : List Nat) (c n : Nat) :
    FromL src c (List.replicate n (none : Option (TVal α))) := by
  induction n with
  | zero => simp [FromL, toksL]
  | succ n ih => rw [List.replicate_succ, FromL_cons]; exact ⟨by simp [FromO], ih⟩

mutual
theorem diffTV_from (lv : Int) : ∀ (v : TVal α) (w : Val α) (c : Nat),
    c ≤ (diffTV truthy lv v w c).2 ∧ FromV (toksV v) c (diffTV truthy lv v w c).1
  | .dict t x, .dict y, c => by
      simp only [diffTV]
      split
      · refine ⟨by omega, ?_⟩
        intro u hu
        simp only [emptyT, toksV, List.mem_cons] at hu
        rcases hu with hu | hu
        · exact Or.inr (by omega)
        · exact (FromL_replicate_none (toksV (.dict t x)) c _ u hu)
      · split
        · exact ⟨Nat.le_refl _, fun u hu => Or.inl hu⟩
        · have ih := diffTL_from lv x y (c + 1)
          refine ⟨by omega, ?_⟩
          intro u hu
          simp only [toksV, List.mem_cons] at hu ⊢
          rcases hu with hu | hu
          · exact Or.inr (by omega)
          · rcases ih.2 u hu with h | h
            · exact Or.inl (Or.inr h)
            · exact Or.inr (by omega)
  | .dict t x, .leaf b, c => by
      simp only [diffTV]; exact ⟨Nat.le_refl _, fun u hu => Or.inl hu⟩
  | .leaf ts a, w, c => by
      simp only [diffTV]; exact ⟨Nat.le_refl _, fun u hu => Or.inl hu⟩
theorem diffTO_from (lv : Int) : ∀ (x : Option (TVal α)) (y : Option (Val α)) (c : Nat),
    c ≤ (diffTO truthy lv x y c).2 ∧
      ∀ v, x = some v → FromO (toksV v) c (diffTO truthy lv x y c).1
  | none, _, c => by simp [diffTO]
  | some v, none, c => by
      simp only [diffTO]
      refine ⟨Nat.le_refl _, ?_⟩
      intro v' hv w hw
      cases hv; cases hw
      exact fun u hu => Or.inl hu
  | some v, some w, c => by
      simp only [diffTO]
      split
      · exact ⟨Nat.le_refl _, fun _ _ w hw => by cases hw⟩
      · split
        · have ih' := diffTV_from (lv - 1) v w c
          refine ⟨ih'.1, ?_⟩
          intro v' hv r hr
          cases hv
          split at hr
          · cases hr; exact ih'.2
          · cases hr
        · refine ⟨Nat.le_refl _, ?_⟩
          intro v' hv r hr
          cases hv; cases hr
          exact fun u hu => Or.inl hu
theorem diffTL_from (lv : Int) : ∀ (a : TSlots α) (b : Slots α) (c : Nat),
    c ≤ (diffTL truthy lv a b c).2 ∧ FromL (toksL a) c (diffTL truthy lv a b c).1
  | [], _, c => by simp [diffTL, FromL, toksL]
  | x :: r, [], c => by
      have i1 := diffTO_from lv x none c
      have i2 := diffTL_from lv r [] (diffTO truthy lv x none c).2
      rw [diffTL, FromL_cons]
      refine ⟨by omega, ?_, ?_⟩
      · intro w hw u hu
        cases x with
        | none => simp [diffTO] at hw
        | some v =>
          rcases i1.2 v rfl w hw u hu with h | h
          · exact Or.inl (by simp [toksL, h])
          · exact Or.inr h
      · intro u hu
        rcases i2.2 u hu with h | h
        · exact Or.inl (by cases x <;> simp [toksL, h])
        · exact Or.inr (by omega)
  | x :: r, y :: r', c => by
      have i1 := diffTO_from lv x y c
      have i2 := diffTL_from lv r r' (diffTO truthy lv x y c).2
      rw [diffTL, FromL_cons]
      refine ⟨by omega, ?_, ?_⟩
      · intro w hw u hu
        cases x with
        | none => simp [diffTO] at hw
        | some v =>
          rcases i1.2 v rfl w hw u hu with h | h
          · exact Or.inl (by simp [toksL, h])
          · exact Or.inr h
      · intro u hu
        rcases i2.2 u hu with h | h
        · exact Or.inl (by cases x <;> simp [toksL, h])
        · exact Or.inr (by omega)
end

end diff

end Lena.C07
