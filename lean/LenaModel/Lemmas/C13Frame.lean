import LenaModel.Lemmas.C13Pass
/-! # C13 lemmas, part 4 — frame of `MakeFilename.__call__`, origin of an unresolved key

What `MakeFilename` may write into a run-time context: nothing outside `context["output"]`, and inside it only
the five keys prefix, suffix, filename, dirname, fileext. -/

namespace Lena.C13
open Lena Lena.Val

theorem getSlot_cons_succ (x : Option V) (r : Ctx) (i : Nat) : getSlot (x :: r) (i + 1) = getSlot r i := by
  simp [getSlot]

theorem getSlot_cons_zero (x : Option V) (r : Ctx) : getSlot (x :: r) 0 = x := by
  cases x <;> simp [getSlot]

theorem getSlot_nil (i : Nat) : getSlot ([] : Ctx) i = none := by simp [getSlot]

/-- a key that the update does not mention keeps its binding -/
theorem getSlot_updL_of_none : ∀ (u c : Ctx) (i : Nat), getSlot u i = none → getSlot (updL c u) i = getSlot c i
  | [], c, i, _ => by simp [updL]
  | y :: r, [], 0, h => by
    rw [getSlot_cons_zero] at h; subst h
    simp [updL, updO, getSlot_cons_zero, getSlot_nil]
  | y :: r, [], i + 1, h => by
    rw [getSlot_cons_succ] at h
    simp only [updL, getSlot_cons_succ, getSlot_nil]
    rw [getSlot_updL_of_none r [] i h, getSlot_nil]
  | y :: r, x :: c, 0, h => by
    rw [getSlot_cons_zero] at h; subst h
    simp [updL, updO, getSlot_cons_zero]
  | y :: r, x :: c, i + 1, h => by
    rw [getSlot_cons_succ] at h
    simp only [updL, getSlot_cons_succ]
    exact getSlot_updL_of_none r c i h

theorem getSlot_single_ne (n k : Nat) (ks : List Nat) (l : Leaf) (i : Nat) (h : i ≠ k) :
    getSlot (single n k ks l) i = none := by
  cases ks with
  | nil =>
    simp only [single, getSlot, List.getElem?_map]
    cases hr : (List.range n)[i]? with
    | none => simp
    | some j =>
      have : j = i := by
        rw [List.getElem?_eq_some_iff] at hr
        obtain ⟨_, hj⟩ := hr
        simpa using hj.symm
      subst this
      simp [h]
  | cons k' ks =>
    simp only [single, getSlot, List.getElem?_map]
    cases hr : (List.range n)[i]? with
    | none => simp
    | some j =>
      have : j = i := by
        rw [List.getElem?_eq_some_iff] at hr
        obtain ⟨_, hj⟩ := hr
        simpa using hj.symm
      subst this
      simp [h]

/-- `update_recursively(ctx, "k.ks", l)` leaves every other top-level key alone -/
theorem getSlot_updL_single_ne (n k : Nat) (ks : List Nat) (l : Leaf) (c : Ctx) (i : Nat) (h : i ≠ k) :
    getSlot (updL c (single n k ks l)) i = getSlot c i :=
  getSlot_updL_of_none _ c i (getSlot_single_ne n k ks l i h)

theorem getSlot_setSlot_ne : ∀ (c : Ctx) (k : Nat) (v : Option V) (i : Nat), i ≠ k →
    getSlot (setSlot c k v) i = getSlot c i
  | [], 0, v, i, h => by
    cases i with
    | zero => exact absurd rfl h
    | succ i => simp [setSlot, getSlot]
  | [], k + 1, v, 0, _ => by simp [setSlot, getSlot]
  | [], k + 1, v, i + 1, h => by
    simp only [setSlot, getSlot_cons_succ]
    rw [getSlot_setSlot_ne [] k v i (by omega)]
    simp [getSlot]
  | x :: r, 0, v, i, h => by
    cases i with
    | zero => exact absurd rfl h
    | succ i => simp [setSlot, getSlot]
  | x :: r, k + 1, v, 0, _ => by simp [setSlot, getSlot]
  | x :: r, k + 1, v, i + 1, h => by
    simp only [setSlot, getSlot_cons_succ]
    exact getSlot_setSlot_ne r k v i (by omega)

theorem getSlot_delAffix_ne (ok : OutKeys) (c : Ctx) (key : Nat) (s : String) (i : Nat) (h : i ≠ ok.output) :
    getSlot (delAffix ok c key s) i = getSlot c i := by
  unfold delAffix
  split
  · rfl
  · split
    · exact getSlot_setSlot_ne c ok.output _ i h
    · rfl

/-- **frame of one method of `MakeFilename.__call__`**: no top-level key other than `output` changes -/
theorem mkfStep_frame (n : Nat) (ok : OutKeys) (ow : Bool) (st : Option Ctx) (ctx r : Ctx) (key : MkfKey) (t : Tpl)
    (h : mkfStep n ok ow st ctx key t = some r) (i : Nat) (hi : i ≠ ok.output) : getSlot r i = getSlot ctx i := by
  unfold mkfStep at h
  -- every way out is `some ctx` or `some (updL ctx' (single n ok.output …))` with `ctx'` = `ctx` up to `delAffix`
  have key_fact : ∀ (c' : Ctx) (ks : List Nat) (l : Leaf), (∀ j, j ≠ ok.output → getSlot c' j = getSlot ctx j) →
      getSlot (updL c' (single n ok.output ks l)) i = getSlot ctx i := by
    intro c' ks l hc'
    rw [getSlot_updL_single_ne n ok.output ks l c' i hi, hc' i hi]
  have hdel : ∀ p s j, j ≠ ok.output →
      getSlot (delAffix ok (delAffix ok ctx ok.pfx p) ok.sfx s) j = getSlot ctx j := by
    intro p s j hj
    rw [getSlot_delAffix_ne ok _ ok.sfx s j hj, getSlot_delAffix_ne ok _ ok.pfx p j hj]
  simp only at h
  repeat' split at h
  all_goals first
    | (cases h; rfl)
    | (simp only [Option.some.injEq] at h; subst h; first
        | exact key_fact _ _ _ (fun _ _ => rfl)
        | exact key_fact _ _ _ (hdel _ _))
    | (simp at h)

theorem mkfSteps_frame (n : Nat) (ok : OutKeys) (ow : Bool) (st : Option Ctx) : ∀ (ms : List (MkfKey × Tpl)) (ctx r : Ctx),
    mkfSteps n ok ow st ms ctx = some r → ∀ i, i ≠ ok.output → getSlot r i = getSlot ctx i
  | [], ctx, r, h, i, _ => by simp only [mkfSteps, Option.some.injEq] at h; subst h; rfl
  | (k, t) :: ms, ctx, r, h, i, hi => by
    simp only [mkfSteps] at h
    cases h1 : mkfStep n ok ow st ctx k t with
    | none => simp [h1] at h
    | some c1 =>
      simp only [h1] at h
      rw [mkfSteps_frame n ok ow st ms c1 r h i hi, mkfStep_frame n ok ow st ctx c1 k t h1 i hi]

/-! ## inside `output` only the five keys change -/

theorem getSlot_updL : ∀ (u c : Ctx) (i : Nat), getSlot (updL c u) i = updO (getSlot c i) (getSlot u i)
  | [], c, i => by simp [updL, getSlot_nil, updO]
  | y :: r, [], 0 => by simp [updL, getSlot_cons_zero, getSlot_nil]
  | y :: r, [], i + 1 => by
    simp only [updL, getSlot_cons_succ, getSlot_nil]
    rw [getSlot_updL r [] i, getSlot_nil]
  | y :: r, x :: c, 0 => by simp [updL, getSlot_cons_zero]
  | y :: r, x :: c, i + 1 => by
    simp only [updL, getSlot_cons_succ]
    exact getSlot_updL r c i

theorem getSlot_setSlot_eq : ∀ (c : Ctx) (k : Nat) (v : Option V), getSlot (setSlot c k v) k = v
  | [], 0, v => by simp [setSlot, getSlot_cons_zero]
  | [], k + 1, v => by simp only [setSlot, getSlot_cons_succ]; exact getSlot_setSlot_eq [] k v
  | x :: r, 0, v => by simp [setSlot, getSlot_cons_zero]
  | x :: r, k + 1, v => by simp only [setSlot, getSlot_cons_succ]; exact getSlot_setSlot_eq r k v

theorem getSlot_clearSlot_ne : ∀ (c : Ctx) (k i : Nat), i ≠ k → getSlot (clearSlot c k) i = getSlot c i
  | [], _, _, _ => by simp [clearSlot]
  | x :: r, 0, i, h => by
    cases i with
    | zero => exact absurd rfl h
    | succ i => simp [clearSlot, getSlot_cons_succ]
  | x :: r, k + 1, 0, _ => by simp [clearSlot, getSlot_cons_zero]
  | x :: r, k + 1, i + 1, h => by
    simp only [clearSlot, getSlot_cons_succ]
    exact getSlot_clearSlot_ne r k i (by omega)

/-- the slots of `context["output"]` that `MakeFilename` may touch -/
def OutKeys.isOutputKey (ok : OutKeys) (j : Nat) : Prop :=
  j = ok.pfx ∨ j = ok.sfx ∨ j = ok.filename ∨ j = ok.dirname ∨ j = ok.fileext

theorem OutKeys.slot_isOutputKey (ok : OutKeys) (k : MkfKey) : ok.isOutputKey (ok.slot k) := by
  cases k <;> simp [OutKeys.slot, OutKeys.isOutputKey]

/-- the sub-dictionary under `output` (empty if there is none) -/
def outputOf (ok : OutKeys) (c : Ctx) : Ctx :=
  match getSlot c ok.output with
  | some (.dict o) => o
  | _ => []

theorem outputOf_delAffix (ok : OutKeys) (c : Ctx) (key : Nat) (s : String) (j : Nat) (hj : j ≠ key) :
    getSlot (outputOf ok (delAffix ok c key s)) j = getSlot (outputOf ok c) j := by
  unfold delAffix
  split
  · rfl
  · split
    · rename_i o ho
      simp only [outputOf, getSlot_setSlot_eq, ho]
      exact getSlot_clearSlot_ne o key j hj
    · rfl

theorem getSlot_map_range (n : Nat) (f : Nat → Option V) (i : Nat) :
    getSlot ((List.range n).map f) i = if i < n then f i else none := by
  simp only [getSlot, List.getElem?_map]
  by_cases hi : i < n
  · simp [hi]
  · simp [hi]

theorem outputOf_upd_single (n : Nat) (ok : OutKeys) (c : Ctx) (key : Nat) (l : Leaf) (j : Nat) (hj : j ≠ key) :
    getSlot (outputOf ok (updL c (single n ok.output [key] l))) j = getSlot (outputOf ok c) j := by
  unfold outputOf
  rw [getSlot_updL]
  have hs : getSlot (single n ok.output [key] l) ok.output =
      if ok.output < n then some (.dict (single n key [] l)) else none := by
    simp only [single]; rw [getSlot_map_range]; simp
  rw [hs]
  by_cases hn : ok.output < n
  · simp only [hn, if_true, updO]
    cases hc : getSlot c ok.output with
    | none =>
      simp only [updV, getSlot_nil]
      exact getSlot_single_ne n key [] l j hj
    | some v =>
      cases v with
      | leaf a =>
        simp only [updV, getSlot_nil]
        rw [getSlot_updL, getSlot_single_ne n key [] l j hj]
        simp only [updO, emptyLike, getSlot]
        cases hx : (List.replicate (single n key [] l).length (none : Option V))[j]? with
        | none => rfl
        | some x =>
          have := List.mem_replicate.1 (List.mem_of_getElem? hx)
          simp [this.2]
      | dict o =>
        simp only [updV]
        rw [getSlot_updL, getSlot_single_ne n key [] l j hj]
        simp [updO]
  · simp [hn, updO]

/-- **inner frame of one method**: below `output` only the five keys may change -/
theorem mkfStep_frame_output (n : Nat) (ok : OutKeys) (ow : Bool) (st : Option Ctx) (ctx r : Ctx) (key : MkfKey) (t : Tpl)
    (h : mkfStep n ok ow st ctx key t = some r) (j : Nat) (hj : ¬ ok.isOutputKey j) :
    getSlot (outputOf ok r) j = getSlot (outputOf ok ctx) j := by
  have hne : ∀ k : MkfKey, j ≠ ok.slot k := fun k hk => hj (hk ▸ ok.slot_isOutputKey k)
  have h1 := hne .pfx; have h2 := hne .sfx; have h3 := hne .filename
  simp only [OutKeys.slot] at h1 h2 h3
  unfold mkfStep at h
  have hdel : ∀ p s, getSlot (outputOf ok (delAffix ok (delAffix ok ctx ok.pfx p) ok.sfx s)) j =
      getSlot (outputOf ok ctx) j := by
    intro p s
    rw [outputOf_delAffix ok _ ok.sfx s j h2, outputOf_delAffix ok _ ok.pfx p j h1]
  simp only at h
  repeat' split at h
  all_goals first
    | (cases h; rfl)
    | (simp only [Option.some.injEq] at h; subst h; first
        | (rw [outputOf_upd_single n ok _ _ _ j h3]; exact hdel _ _)
        | exact outputOf_upd_single n ok _ _ _ j h1
        | exact outputOf_upd_single n ok _ _ _ j h2
        | exact outputOf_upd_single n ok _ _ _ j (hne _))
    | (simp at h)

theorem mkfSteps_frame_output (n : Nat) (ok : OutKeys) (ow : Bool) (st : Option Ctx) :
    ∀ (ms : List (MkfKey × Tpl)) (ctx r : Ctx), mkfSteps n ok ow st ms ctx = some r →
    ∀ j, ¬ ok.isOutputKey j → getSlot (outputOf ok r) j = getSlot (outputOf ok ctx) j
  | [], ctx, r, h, j, _ => by simp only [mkfSteps, Option.some.injEq] at h; subst h; rfl
  | (k, t) :: ms, ctx, r, h, j, hj => by
    simp only [mkfSteps] at h
    cases h1 : mkfStep n ok ow st ctx k t with
    | none => simp [h1] at h
    | some c1 =>
      simp only [h1] at h
      rw [mkfSteps_frame_output n ok ow st ms c1 r h j hj, mkfStep_frame_output n ok ow st ctx c1 k t h1 j hj]

end Lena.C13
