import LenaModel.Model.C06
import LenaModel.Model.C06Spec
import LenaModel.Lemmas.C06
/-! # C06 — helper lemmas of the extension round

* the search with an *arbitrary* guess: right answer or `unmodelled`, never a wrong bin
  (`bin1dLoop_ok_or_unmodelled`);
* the executable twins of the specification vocabulary agree with it (`guessOKAtB_iff`,
  `hasShape_iff`, `properList?_iff`, `cellOf?_eq_some_iff`);
* the interpolation under an arbitrary monotone rounding stays in range (`roundedGuess_in_range`). -/
open Lena Lena.C06
namespace Lena.C06
set_option linter.unusedSectionVars false
set_option linter.unusedSimpArgs false

section AnyGuess
variable {α : Type} [LT α] [LE α] [DecidableLT α] [DecidableLE α] [DecidableEq α]
  [Std.IsLinearOrder α] [Std.LawfulOrderLT α]

theorem bin1dLoop_ok_or_unmodelled (guess : Nat → Nat → Int) (val : α) (arr : List α)
    (hinc : StrictInc arr) :
    ∀ (n lo hi : Nat), hi - lo = n → lo ≤ hi → hi < arr.length → lo ≤ countLE arr val →
      countLE arr val ≤ hi + 1 →
      bin1dLoop guess val arr lo hi = .ok ((countLE arr val : Int) - 1) ∨
      bin1dLoop guess val arr lo hi = .error .unmodelled :=
  fun n lo hi hn hle hhi hk1 hk2 => Or.inl (bin1dLoop_correct guess val arr hinc n lo hi hn hle hhi hk1 hk2)

end AnyGuess
section Twins
variable {α β : Type} [LT α] [LE α] [DecidableLT α] [DecidableLE α] [DecidableEq α]

/-- the executable predicate is exactly `GuessOKAt` -/
theorem guessOKAtB_iff (arr : List α) (val : α) (guess : Nat → Nat → Int) :
    guessOKAtB arr val guess = true ↔ GuessOKAt arr val guess := by
  unfold guessOKAtB GuessOKAt
  simp only [List.all_eq_true, List.mem_range]
  constructor
  · intro h lo hi hhi hl h1 h2
    have hlo : lo < arr.length := by omega
    have := h hi hhi lo (by omega)
    simp only [List.getElem?_eq_getElem hlo, List.getElem?_eq_getElem hhi, hl, h1, h2, decide_true,
      Bool.and_self, Bool.not_true, Bool.false_or, Bool.and_eq_true, decide_eq_true_eq] at this
    exact this
  · intro h hi hhi lo hlohi
    have hlo : lo < arr.length := by omega
    simp only [List.getElem?_eq_getElem hlo, List.getElem?_eq_getElem hhi]
    by_cases hc : lo + 1 < hi ∧ arr[lo] < val ∧ val < arr[hi]
    · have := h lo hi hhi hc.1 hc.2.1 hc.2.2
      simp [hc.1, hc.2.1, hc.2.2, this.1, this.2]
    · by_cases c1 : lo + 1 < hi
      · by_cases c2 : arr[lo] < val
        · have c3 : ¬ val < arr[hi] := fun c3 => hc ⟨c1, c2, c3⟩
          simp [c1, c2, c3]
        · simp [c1, c2]
      · simp [c1]

/-- `properList?` computes the components of a proper coordinate -/
theorem properList?_iff (e : Edges α) (c : Coord α) (xs : List α) :
    properList? e c = some xs ↔ Proper e c xs := by
  constructor
  · intro h
    cases e with
    | flat arr =>
      cases c with
      | scalar x => simp [properList?] at h; subst h; exact Proper.flat arr x
      | tuple ys => simp [properList?] at h
    | nested axes =>
      cases c with
      | scalar x => simp [properList?] at h
      | tuple ys =>
        simp only [properList?] at h
        split at h
        · rename_i hl
          simp at h; subst h; exact Proper.nested axes ys hl
        · cases h
  · intro h
    cases h with
    | flat arr x => rfl
    | nested axes xs hl => simp [properList?, hl]

theorem properList?_none_iff (e : Edges α) (c : Coord α) :
    properList? e c = none ↔ ∀ xs, ¬ Proper e c xs := by
  constructor
  · intro h xs hp
    rw [(properList?_iff e c xs).2 hp] at h; cases h
  · intro h
    cases hq : properList? e c with
    | none => rfl
    | some xs => exact absurd ((properList?_iff e c xs).1 hq) (h xs)

mutual
theorem hasShape_iff : ∀ (ds : List Nat) (a : NArr β), NArr.hasShape ds a = true ↔ NArr.HasShape ds a
  | [], .leaf _ => by simp [NArr.hasShape, NArr.HasShape]
  | [], .node _ => by simp [NArr.hasShape, NArr.HasShape]
  | _ :: _, .leaf _ => by simp [NArr.hasShape, NArr.HasShape]
  | n :: ns, .node xs => by
    rw [NArr.hasShape, NArr.HasShape]
    simp only [Bool.and_eq_true, beq_iff_eq, allShape_iff ns xs]
theorem allShape_iff : ∀ (ns : List Nat) (xs : List (NArr β)),
    NArr.allShape ns xs = true ↔ ∀ x ∈ xs, NArr.HasShape ns x
  | _, [] => by simp [NArr.allShape]
  | ns, x :: xs => by
    simp only [NArr.allShape, Bool.and_eq_true, hasShape_iff ns x, allShape_iff ns xs, List.mem_cons,
      forall_eq_or_imp]
end

/-- `wfB` decides `WF` -/
theorem wfB_iff (h : Hist α β) : wfB h = true ↔ WF h := by
  unfold wfB
  simp only [Bool.and_eq_true, decide_eq_true_eq, hasShape_iff]
  exact ⟨fun ⟨a, b⟩ => ⟨a, b⟩, fun ⟨a, b⟩ => ⟨a, b⟩⟩

end Twins

section CellOf
variable {α : Type} [LT α] [LE α] [DecidableLT α] [DecidableLE α] [DecidableEq α]
  [Std.IsLinearOrder α] [Std.LawfulOrderLT α]

/-- `cellOf?` finds the cell that contains the point -/
theorem cellOf?_eq_some_iff (axes : List (List α)) (xs : List α) (idx : List Nat)
    (hinc : ∀ arr ∈ axes, StrictInc arr) (hl : xs.length = axes.length) :
    cellOf? axes xs = some idx ↔ InCell axes xs idx := by
  rw [inCell_iff axes xs idx hinc hl]
  unfold cellOf?
  by_cases hr : InRange (indices axes xs) (dimsOf axes)
  · simp only [hr, if_true, Option.some.injEq, true_and]
    exact ⟨fun h => h.symm, fun h => h.symm⟩
  · simp [hr]

theorem cellOf?_eq_none_iff (axes : List (List α)) (xs : List α)
    (hinc : ∀ arr ∈ axes, StrictInc arr) (hl : xs.length = axes.length) :
    cellOf? axes xs = none ↔ ∀ idx, ¬ InCell axes xs idx := by
  constructor
  · intro h idx hc
    rw [(cellOf?_eq_some_iff axes xs idx hinc hl).2 hc] at h; cases h
  · intro h
    cases hq : cellOf? axes xs with
    | none => rfl
    | some idx => exact absurd ((cellOf?_eq_some_iff axes xs idx hinc hl).1 hq) (h idx)

end CellOf

/-! ## the interpolation under a monotone rounding

IEEE-754 arithmetic computes every operation exactly and then rounds; round-to-nearest (any of
the standard modes) is monotone, and leaves `0`, `1` and small integers unchanged.  That is all
the interval argument needs. -/
section Rounding

theorem unit_div {x y : Rat} (h0 : 0 ≤ x) (h1 : x ≤ y) (hy : 0 < y) : 0 ≤ x / y ∧ x / y ≤ 1 := by
  rw [Rat.div_def]
  have hinv : 0 < y⁻¹ := Rat.inv_pos.2 hy
  constructor
  · exact Rat.mul_nonneg h0 (Rat.le_of_lt hinv)
  · have := Rat.mul_le_mul_of_nonneg_right h1 (Rat.le_of_lt hinv)
    rwa [Rat.mul_inv_cancel y (Rat.ne_of_gt hy)] at this

/-- For **any** monotone rounding function that leaves `0`, `1` and the integer
`ind_max − ind_min` unchanged, and any `a ≤ v ≤ b` whose rounded difference `fl(b − a)` is not
zero (no division by zero), the rounded interpolation guess lies in `[ind_min, ind_max]`. -/
theorem roundedGuess_in_range (fl : Rat → Rat) (mono : ∀ x y, x ≤ y → fl x ≤ fl y)
    (h0 : fl 0 = 0) (h1 : fl 1 = 1) {lo hi : Nat} (hle : lo ≤ hi)
    (hd : fl (((hi - lo : Nat) : Int) : Rat) = (((hi - lo : Nat) : Int) : Rat))
    {a b v : Rat} (hav : a ≤ v) (hvb : v ≤ b) (hpos : 0 < fl (b - a)) :
    (lo : Int) ≤ roundedGuess fl a b v lo hi ∧ roundedGuess fl a b v lo hi ≤ (hi : Int) := by
  have hx0 : 0 ≤ fl (v - a) := by rw [← h0]; exact mono _ _ (by grind)
  have hxy : fl (v - a) ≤ fl (b - a) := mono _ _ (by grind)
  obtain ⟨hq0, hq1⟩ := unit_div hx0 hxy hpos
  have hr0 : 0 ≤ fl (fl (v - a) / fl (b - a)) := by rw [← h0]; exact mono _ _ hq0
  have hr1 : fl (fl (v - a) / fl (b - a)) ≤ 1 := by rw [← h1]; exact mono _ _ hq1
  have hdn : (0 : Rat) ≤ (((hi - lo : Nat) : Int) : Rat) := Rat.intCast_nonneg.2 (Int.natCast_nonneg _)
  have hp0 : 0 ≤ (((hi - lo : Nat) : Int) : Rat) * fl (fl (v - a) / fl (b - a)) := Rat.mul_nonneg hdn hr0
  have hp1 : (((hi - lo : Nat) : Int) : Rat) * fl (fl (v - a) / fl (b - a)) ≤ (((hi - lo : Nat) : Int) : Rat) := by
    have := Rat.mul_le_mul_of_nonneg_left hr1 hdn
    rwa [Rat.mul_one] at this
  have ht0 : 0 ≤ fl ((((hi - lo : Nat) : Int) : Rat) * fl (fl (v - a) / fl (b - a))) := by
    rw [← h0]; exact mono _ _ hp0
  have ht1 : fl ((((hi - lo : Nat) : Int) : Rat) * fl (fl (v - a) / fl (b - a))) ≤ (((hi - lo : Nat) : Int) : Rat) := by
    have := mono _ _ hp1
    rwa [hd] at this
  have hf0 : (0 : Int) ≤ (fl ((((hi - lo : Nat) : Int) : Rat) * fl (fl (v - a) / fl (b - a)))).floor :=
    Rat.le_floor_iff.2 (by simpa using ht0)
  have hf1 : (fl ((((hi - lo : Nat) : Int) : Rat) * fl (fl (v - a) / fl (b - a)))).floor ≤ ((hi - lo : Nat) : Int) :=
    Rat.intCast_le_intCast.1 (Rat.le_trans (Rat.floor_le _) ht1)
  unfold roundedGuess
  omega

/-- hence, along a strictly increasing array of rationals, the rounded interpolation satisfies
`GuessOKAt` — provided the rounding leaves the integers below `len(arr)` unchanged and never
rounds the difference of two distinct edges to zero (gradual underflow guarantees both for
IEEE doubles and arrays shorter than 2⁵³) -/
theorem roundedGuessArr_okAt (fl : Rat → Rat) (mono : ∀ x y, x ≤ y → fl x ≤ fl y)
    (h0 : fl 0 = 0) (h1 : fl 1 = 1) (arr : List Rat) (val : Rat)
    (hint : ∀ d : Nat, d < arr.length → fl ((d : Int) : Rat) = ((d : Int) : Rat))
    (hnz : ∀ (i j : Nat) (hi : i < arr.length) (hj : j < arr.length), arr[i] < arr[j] → 0 < fl (arr[j] - arr[i])) :
    GuessOKAt arr val (roundedGuessArr fl arr val) := by
  intro lo hi h hl hlv hvh
  have hlo : lo < arr.length := by omega
  unfold roundedGuessArr
  simp only [List.getElem?_eq_getElem hlo, List.getElem?_eq_getElem h, Option.getD_some]
  exact roundedGuess_in_range fl mono h0 h1 (by omega) (hint _ (by omega)) (Rat.le_of_lt hlv) (Rat.le_of_lt hvh)
    (hnz lo hi hlo h (by grind))

end Rounding

section TwinsAt
variable {α : Type} [LT α] [LE α] [DecidableLT α] [DecidableLE α] [DecidableEq α]

/-- the executable predicate is exactly `GuessesOKAt` -/
theorem guessesOKAtB_iff (axes : List (List α)) (xs : List α) (g : Nat → Nat → Nat → Int) :
    guessesOKAtB axes xs g = true ↔ GuessesOKAt axes xs g := by
  unfold guessesOKAtB GuessesOKAt
  simp only [List.all_eq_true, List.mem_range]
  constructor
  · intro h k h₁ h₂
    have := h k (by omega)
    simp only [List.getElem?_eq_getElem h₁, List.getElem?_eq_getElem h₂] at this
    exact (guessOKAtB_iff _ _ _).1 this
  · intro h k hk
    have h₁ : k < axes.length := by omega
    have h₂ : k < xs.length := by omega
    simp only [List.getElem?_eq_getElem h₁, List.getElem?_eq_getElem h₂]
    exact (guessOKAtB_iff _ _ _).2 (h k h₁ h₂)

end TwinsAt

end Lena.C06
