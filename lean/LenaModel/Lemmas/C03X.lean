import LenaModel.Model.C03X
import LenaModel.Model.C03Spec
import LenaModel.Lemmas.C03
/-! # C03 — lemmas for `Model/C03X.lean`: the generic loops are folds -/

namespace Lena.C03

variable {σ α ε : Type}

/-- every element once, in order, until a step aborts: events, the elements that stay (after an
abort: the aborting one and the ones not reached), the dropped ones, the exception -/
def foldG {B E : Type} (step : B → List E × B × Res ε) : List B → PassG B E ε
  | [] => ⟨[], [], [], none⟩
  | b :: r =>
    match step b with
    | (ev, b', .stay) =>
      let t := foldG step r
      ⟨ev ++ t.events, b' :: t.act, t.dropped, t.exc⟩
    | (ev, b', .drop) =>
      let t := foldG step r
      ⟨ev ++ t.events, t.act, b' :: t.dropped, t.exc⟩
    | (ev, b', .abort e) => ⟨ev, b' :: r, [], some e⟩

theorem blockLoopG_zipper {B E : Type} (copyBuf : Bool) (buf : List α)
    (stepOf : List α → B → List E × B × Res ε) :
    ∀ (fuel : Nat) (pre post dropped : List B) (acc : List E), post.length < fuel + 1 →
      blockLoopG copyBuf buf stepOf (fuel + 1) pre.length (pre ++ post) dropped acc =
        ⟨acc ++ (foldG (stepOf buf) post).events, pre ++ (foldG (stepOf buf) post).act,
          dropped ++ (foldG (stepOf buf) post).dropped, (foldG (stepOf buf) post).exc⟩ := by
  intro fuel
  induction fuel with
  | zero =>
    intro pre post dropped acc h
    have : post = [] := by cases post <;> simp_all
    subst this
    simp [blockLoopG, foldG]
  | succ fuel ih =>
    intro pre post dropped acc h
    cases post with
    | nil => simp [blockLoopG, foldG]
    | cons b post =>
      unfold blockLoopG
      have hlt : pre.length < (pre ++ b :: post).length := by simp
      simp only [hlt, dite_true, getElem_mid pre post b hlt, deepcopy, ite_self]
      obtain ⟨ev, b', res, hs⟩ : ∃ ev b' res, stepOf buf b = (ev, b', res) := ⟨_, _, _, rfl⟩
      cases res with
      | stay =>
        simp only [hs, set_mid]
        have e : pre ++ b' :: post = (pre ++ [b']) ++ post := by simp
        have el : pre.length + 1 = (pre ++ [b']).length := by simp
        rw [e, el, ih (pre ++ [b']) post dropped (acc ++ ev) (by simpa using h)]
        simp [foldG, hs, List.append_assoc]
      | drop =>
        simp only [hs, eraseIdx_mid]
        rw [ih pre post (dropped ++ [b']) (acc ++ ev) (by simpa using h)]
        simp [foldG, hs, List.append_assoc]
      | abort e =>
        simp [hs, foldG]

theorem blockLoopG_eq_foldG {B E : Type} (copyBuf : Bool) (buf : List α)
    (stepOf : List α → B → List E × B × Res ε) (act dropped : List B) (acc : List E) :
    blockLoopG copyBuf buf stepOf (act.length + 1) 0 act dropped acc =
      ⟨acc ++ (foldG (stepOf buf) act).events, (foldG (stepOf buf) act).act,
        dropped ++ (foldG (stepOf buf) act).dropped, (foldG (stepOf buf) act).exc⟩ := by
  have := blockLoopG_zipper copyBuf buf stepOf act.length [] act dropped acc (by omega)
  simpa using this

/-- block by block over `foldG`, until an abort -/
def passesG {B E : Type} (stepOf : List α → B → List E × B × Res ε) :
    List (List α) → List B → List B → PassG B E ε
  | [], act, dropped => ⟨[], act, dropped, none⟩
  | blk :: rest, act, dropped =>
    let p := foldG (stepOf blk) act
    match p.exc with
    | some e => ⟨p.events, p.act, dropped ++ p.dropped, some e⟩
    | none =>
      let q := passesG stepOf rest p.act (dropped ++ p.dropped)
      ⟨p.events ++ q.events, q.act, q.dropped, q.exc⟩

theorem outerLoopG_eq_passesG {B E : Type} (copyBuf : Bool) (bs : Option Nat) (hbs : bs ≠ some 0)
    (stepOf : List α → B → List E × B × Res ε) :
    ∀ (fuel : Nat) (flow : List α) (act dropped : List B) (acc : List E) (fwe : Bool),
      flow.length < fuel →
      let r := outerLoopG copyBuf bs stepOf fuel flow act dropped acc fwe
      let p := passesG stepOf (blocks bs flow) act dropped
      r.events = acc ++ p.events ∧ r.act = p.act ∧ r.dropped = p.dropped ∧ r.exc = p.exc ∧
        (p.exc = none → r.fwe = (fwe && (blocks bs flow).isEmpty)) := by
  intro fuel
  induction fuel with
  | zero => intro flow act dropped acc fwe h; omega
  | succ fuel ih =>
    intro flow act dropped acc fwe h
    unfold outerLoopG
    cases flow with
    | nil => simp [readBlock_nil, passesG]
    | cons x xs =>
      obtain ⟨hne, hbl⟩ := blocks_readBlock bs hbs (x :: xs) (by simp)
      have hlen := readBlock_length bs hbs (x :: xs) (by simp)
      have hemp : (readBlock bs (x :: xs)).1.isEmpty = false := by
        cases h1 : (readBlock bs (x :: xs)).1 with
        | nil => exact absurd h1 hne
        | cons _ _ => rfl
      simp only [hemp, Bool.false_eq_true, ↓reduceIte, blockLoopG_eq_foldG, hbl, passesG]
      cases hexc : (foldG (stepOf (readBlock bs (x :: xs)).1) act).exc with
      | some e => simp
      | none =>
        simp only
        obtain ⟨i1, i2, i3, i4, i5⟩ := ih (readBlock bs (x :: xs)).2
          (foldG (stepOf (readBlock bs (x :: xs)).1) act).act
          (dropped ++ (foldG (stepOf (readBlock bs (x :: xs)).1) act).dropped)
          (acc ++ (foldG (stepOf (readBlock bs (x :: xs)).1) act).events) false (by omega)
        refine ⟨by rw [i1]; simp [List.append_assoc], i2, i3, i4, ?_⟩
        intro hp
        rw [i5 hp]
        simp

/-! ## branches that return normally: `stepFull` is `stepBranch` plus the object -/

theorem stepFull_events (buf : List α) (b : Branch σ α) : (stepFull buf b).1 = (stepBranch buf b).1 := by
  unfold stepFull stepBranch
  cases b.kind <;> simp only
  split <;> rfl

theorem stepFull_res (buf : List α) (b : Branch σ α) :
    (stepBranch buf b).2 = match (stepFull buf b).2.2 with
      | .stay => some (stepFull buf b).2.1
      | _ => none := by
  unfold stepFull stepBranch
  cases b.kind <;> simp only
  · split <;> rfl
  · split <;> rfl

theorem stepFull_id (buf : List α) (b : Branch σ α) :
    (stepFull buf b).2.1.id = b.id ∧ (stepFull buf b).2.1.kind = b.kind ∧ (stepFull buf b).2.1.ops = b.ops := by
  unfold stepFull
  cases hk : b.kind <;> simp only
  · simp
  · split <;> simp
  · simp
  · simp

theorem foldG_stepFull (buf : List α) (l : List (Branch σ α)) :
    (foldG (stepFull buf) l).events = (foldB (stepBranch buf) l).1 ∧
    (foldG (stepFull buf) l).act = (foldB (stepBranch buf) l).2 ∧
    (foldG (stepFull buf) l).exc = none := by
  induction l with
  | nil => exact ⟨rfl, rfl, rfl⟩
  | cons b r ih =>
    obtain ⟨i1, i2, i3⟩ := ih
    have he := stepFull_events buf b
    have hr := stepFull_res buf b
    obtain ⟨ev, b', res, hs⟩ : ∃ ev b' res, stepFull buf b = (ev, b', res) := ⟨_, _, _, rfl⟩
    rw [hs] at he hr
    cases res with
    | stay =>
      simp only at he hr
      simp [foldG, hs, foldB, ← he, hr, i1, i2, i3]
    | drop =>
      simp only at he hr
      simp [foldG, hs, foldB, ← he, hr, i1, i2, i3]
    | abort e => exact e.elim

theorem passesG_stepFull (bl : List (List α)) :
    ∀ (act dropped : List (Branch σ α)),
      (passesG (ε := Empty) stepFull bl act dropped).events = (passes bl act).1 ∧
      (passesG (ε := Empty) stepFull bl act dropped).act = (passes bl act).2 ∧
      (passesG (ε := Empty) stepFull bl act dropped).exc = none := by
  induction bl with
  | nil => intro act dropped; exact ⟨rfl, rfl, rfl⟩
  | cons blk rest ih =>
    intro act dropped
    obtain ⟨f1, f2, f3⟩ := foldG_stepFull blk act
    obtain ⟨i1, i2, i3⟩ := ih (foldG (stepFull blk) act).act (dropped ++ (foldG (stepFull blk) act).dropped)
    simp only [passesG, f3, passes]
    rw [i1, i2, i3, f1, f2]
    exact ⟨rfl, rfl, rfl⟩

theorem finalPassG_finalFull (fwe : Bool) (act : List (Branch σ α))
    (h : fwe = true ∨ ∀ b ∈ act, b.kind ≠ .source) :
    (finalPassG (finalFull fwe) act).1 = finalPass fwe act ∧
    (finalPassG (finalFull fwe) act).2.1 = act.map (fun b => (finalFull fwe b).2.1) ∧
    (finalPassG (finalFull fwe) act).2.2 = none := by
  induction act with
  | nil => exact ⟨rfl, rfl, rfl⟩
  | cons b rest ih =>
    obtain ⟨i1, i2, i3⟩ := ih (by
      rcases h with h | h
      · exact Or.inl h
      · exact Or.inr (fun c hc => h c (List.mem_cons_of_mem _ hc)))
    cases hk : b.kind with
    | source =>
      rcases h with h | h
      · subst h
        simp [finalPassG, finalFull, finalPass, hk, i1, i2, i3]
      · exact absurd hk (h b (List.mem_cons_self ..))
    | fillCompute => simp [finalPassG, finalFull, finalPass, hk, i1, i2, i3]
    | fillRequest => cases fwe <;> simp [finalPassG, finalFull, finalPass, hk, i1, i2, i3]
    | sequence => cases fwe <;> simp [finalPassG, finalFull, finalPass, hk, i1, i2, i3]

/-! ## the objects after the run -/

/-- one pass: the dropped objects together with (a function of) the kept ones are the objects
of the pass, up to order -/
theorem foldG_perm (buf : List α) (g : Branch σ α → Branch σ α) (l : List (Branch σ α)) :
    ((foldG (stepFull buf) l).dropped ++ (foldG (stepFull buf) l).act.map g).Perm
      (l.map (fun b => match (stepFull buf b).2.2 with
        | .stay => g (stepFull buf b).2.1
        | _ => (stepFull buf b).2.1)) := by
  induction l with
  | nil => exact List.Perm.refl _
  | cons b r ih =>
    obtain ⟨ev, b', res, hs⟩ : ∃ ev b' res, stepFull buf b = (ev, b', res) := ⟨_, _, _, rfl⟩
    cases res with
    | stay =>
      simp only [foldG, hs, List.map_cons]
      exact List.perm_middle.trans (List.Perm.cons _ ih)
    | drop =>
      simp only [foldG, hs, List.map_cons, List.cons_append]
      exact List.Perm.cons _ ih
    | abort e => exact e.elim

theorem passesG_perm (fin : Branch σ α → Branch σ α) (bl : List (List α)) :
    ∀ (act dropped : List (Branch σ α)),
      ((passesG (ε := Empty) stepFull bl act dropped).act.map fin ++
        (passesG (ε := Empty) stepFull bl act dropped).dropped).Perm
      (dropped ++ act.map (fun b => objAfterG fin b bl)) := by
  induction bl with
  | nil =>
    intro act dropped
    simp only [passesG, objAfterG]
    exact List.perm_append_comm
  | cons blk rest ih =>
    intro act dropped
    have f3 := (foldG_stepFull blk act).2.2
    simp only [passesG, f3]
    refine (ih _ _).trans ?_
    rw [List.append_assoc]
    refine List.Perm.append_left _ ?_
    have := foldG_perm blk (fun b => objAfterG fin b rest) act
    refine this.trans ?_
    apply List.Perm.of_eq
    apply List.map_congr_left
    intro b _
    simp only [objAfterG]
    try (cases (stepFull blk b).2.2 <;> rfl)

theorem findObj_append (i : Nat) (xs ys : List (Branch σ α)) :
    findObj i (xs ++ ys) = (findObj i xs).orElse (fun _ => findObj i ys) := by
  induction xs with
  | nil => simp [findObj]
  | cons x r ih =>
    simp only [List.cons_append, findObj]
    split
    · simp
    · exact ih

theorem findObj_none (i : Nat) (l : List (Branch σ α)) (h : ∀ b ∈ l, b.id ≠ i) : findObj i l = none := by
  induction l with
  | nil => rfl
  | cons x r ih =>
    simp only [findObj, h x (List.mem_cons_self ..), ↓reduceIte]
    exact ih (fun b hb => h b (List.mem_cons_of_mem _ hb))

theorem findObj_perm (i : Nat) {l₁ l₂ : List (Branch σ α)} (hp : l₁.Perm l₂)
    (hnd : (l₁.map (·.id)).Nodup) : findObj i l₁ = findObj i l₂ := by
  induction hp with
  | nil => rfl
  | cons x _ ih =>
    simp only [List.map_cons, List.nodup_cons] at hnd
    simp only [findObj]
    split
    · rfl
    · exact ih hnd.2
  | swap x y l =>
    simp only [List.map_cons, List.nodup_cons, List.mem_cons, not_or] at hnd
    simp only [findObj]
    by_cases hy : y.id = i
    · by_cases hx : x.id = i
      · exact absurd (hy.trans hx.symm) hnd.1.1
      · simp [hy, hx]
    · simp [hy]
  | trans h₁ _ ih₁ ih₂ =>
    rw [ih₁ hnd, ih₂ ((h₁.map _).nodup_iff.mp hnd)]

theorem findObj_map (f : Branch σ α → Branch σ α) (hf : ∀ b, (f b).id = b.id) :
    ∀ (l : List (Branch σ α)), (l.map (·.id)).Nodup → ∀ b ∈ l, findObj b.id (l.map f) = some (f b) := by
  intro l
  induction l with
  | nil => intro _ b hb; simp at hb
  | cons c r ih =>
    intro hnd b hb
    simp only [List.map_cons, List.nodup_cons, List.mem_map, not_exists, not_and] at hnd
    simp only [List.map_cons, findObj, hf]
    rcases List.mem_cons.mp hb with rfl | hb'
    · simp
    · have : c.id ≠ b.id := fun h => hnd.1 b hb' h.symm
      simp only [this, ↓reduceIte]
      exact ih hnd.2 b hb'

theorem objAfterG_id (fin : Branch σ α → Branch σ α) (hf : ∀ b, (fin b).id = b.id) (bl : List (List α)) :
    ∀ b : Branch σ α, (objAfterG fin b bl).id = b.id := by
  induction bl with
  | nil => intro b; exact hf b
  | cons blk rest ih =>
    intro b
    simp only [objAfterG]
    cases h : (stepFull blk b).2.2 with
    | stay => simp only; rw [ih]; exact (stepFull_id blk b).1
    | drop => exact (stepFull_id blk b).1
    | abort e => exact e.elim

end Lena.C03
