import LenaModel.Model.C07Share
import LenaModel.Lemmas.C07Tok
/-! # C07 — helper lemmas for the sharing model (`Model/C07Share.lean`) -/
namespace Lena.C07
open Lena Lena.Val
variable {α : Type}

/-! ### renaming -/

mutual
theorem erase_renV (f : Nat → Nat) : ∀ v : TVal α, eraseV (renV f v) = eraseV v
  | .leaf ts a => by simp [renV, eraseV]
  | .dict t l => by simp [renV, eraseV, erase_renL f l]
theorem erase_renL (f : Nat → Nat) : ∀ l : TSlots α, eraseL (renL f l) = eraseL l
  | [] => by simp [renL, eraseL]
  | none :: r => by simp [renL, eraseL, erase_renL f r]
  | some v :: r => by simp [renL, eraseL, erase_renV f v, erase_renL f r]
end

mutual
theorem toksV_renV (f : Nat → Nat) : ∀ v : TVal α, toksV (renV f v) = (toksV v).map f
  | .leaf ts a => by simp [renV, toksV]
  | .dict t l => by simp [renV, toksV, toksL_renL f l]
theorem toksL_renL (f : Nat → Nat) : ∀ l : TSlots α, toksL (renL f l) = (toksL l).map f
  | [] => by simp [renL, toksL]
  | none :: r => by simp [renL, toksL, toksL_renL f r]
  | some v :: r => by simp [renL, toksL, toksV_renV f v, toksL_renL f r]
end

theorem renL_length (f : Nat → Nat) : ∀ l : TSlots α, (renL f l).length = l.length
  | [] => by simp [renL]
  | none :: r => by simp [renL, renL_length f r]
  | some v :: r => by simp [renL, renL_length f r]

/-! ### the memo -/

theorem mem_firsts (t : Nat) : ∀ l : List Nat, t ∈ firsts l ↔ t ∈ l
  | [] => by simp [firsts]
  | u :: r => by
      simp only [firsts, List.mem_cons, List.mem_filter, mem_firsts t r, bne_iff_ne, ne_eq]
      constructor
      · rintro (h | ⟨h, _⟩)
        · exact Or.inl h
        · exact Or.inr h
      · intro h
        by_cases e : t = u
        · exact Or.inl e
        · rcases h with h | h
          · exact Or.inl h
          · exact Or.inr ⟨h, e⟩

theorem memoIdx_lt (t : Nat) : ∀ m : List Nat, t ∈ m → memoIdx t m < m.length
  | [], h => by simp at h
  | u :: r, h => by
      by_cases e : u = t
      · simp [memoIdx, e]
      · have : t ∈ r := by
          rcases List.mem_cons.1 h with h | h
          · exact absurd h.symm e
          · exact h
        have := memoIdx_lt t r this
        simp [memoIdx, e]; omega

theorem memoIdx_inj (s t : Nat) : ∀ m : List Nat, s ∈ m → memoIdx s m = memoIdx t m → s = t
  | [], h, _ => by simp at h
  | u :: r, h, e => by
      by_cases es : u = s
      · by_cases et : u = t
        · omega
        · subst es
          simp [memoIdx, et] at e
      · by_cases et : u = t
        · subst et
          simp [memoIdx, es] at e
        · have hs : s ∈ r := by
            rcases List.mem_cons.1 h with h | h
            · exact absurd h.symm es
            · exact h
          simp [memoIdx, es, et] at e
          exact memoIdx_inj s t r hs e

theorem memoIdx_head_zero (t u : Nat) (r : List Nat) : memoIdx u (t :: r) = 0 ↔ t = u := by
  by_cases e : t = u <;> simp [memoIdx, e]

/-! ### the memoising copy -/

/-- `copy.deepcopy` is the identity on values, whatever is shared -/
theorem erase_memoCopyV (v : TVal α) (c : Nat) : eraseV (memoCopyV v c).1 = eraseV v := by
  simp [memoCopyV, erase_renV]

theorem erase_memoCopyD (t : Nat) (l : TSlots α) (c : Nat) : eraseL (memoCopyD t l c).1 = eraseL l := by
  simp [memoCopyD, erase_renL]

theorem memoCopyD_length (t : Nat) (l : TSlots α) (c : Nat) : (memoCopyD t l c).1.length = l.length := by
  simp [memoCopyD, renL_length]

/-- every object of the copy is new: its identity lies in `[c, next)` -/
theorem memoCopyD_range (t : Nat) (l : TSlots α) (c : Nat) :
    c < (memoCopyD t l c).2 ∧ ∀ u ∈ toksL (memoCopyD t l c).1, c ≤ u ∧ u < (memoCopyD t l c).2 := by
  constructor
  · simp [memoCopyD, firsts]
  · intro u hu
    simp only [memoCopyD, toksL_renL, List.mem_map] at hu ⊢
    obtain ⟨s, hs, rfl⟩ := hu
    have hm : s ∈ firsts (t :: toksL l) := (mem_firsts s _).2 (List.mem_cons_of_mem _ hs)
    have := memoIdx_lt s _ hm
    simp only [memoNew]
    omega

theorem memoCopyD_fresh (t : Nat) (l : TSlots α) (c : Nat) : FreshL c (memoCopyD t l c).1 :=
  fun u hu => ((memoCopyD_range t l c).2 u hu).1

/-- the root of the copy of an acyclic dictionary occurs nowhere inside the copy -/
theorem memoCopyD_root_not_inside (t : Nat) (l : TSlots α) (c : Nat) (h : t ∉ toksL l) :
    c ∉ toksL (memoCopyD t l c).1 := by
  intro hc
  simp only [memoCopyD, toksL_renL, List.mem_map] at hc
  obtain ⟨s, hs, e⟩ := hc
  simp only [memoNew, firsts] at e
  have : memoIdx s (t :: (firsts (toksL l)).filter (fun u => u != t)) = 0 := by omega
  rw [memoIdx_head_zero] at this
  exact h (this ▸ hs)

/-! ### stores -/

mutual
theorem storeV_not_mem (t k : Nat) (x : Option (TVal α)) : ∀ v : TVal α, t ∉ toksV v → storeV t k x v = v
  | .leaf ts a, _ => by simp [storeV]
  | .dict u l, h => by
      simp only [toksV, List.mem_cons, not_or] at h
      have e : ¬ (u = t) := fun e => h.1 e.symm
      simp [storeV, e, storeL_not_mem t k x l h.2]
theorem storeL_not_mem (t k : Nat) (x : Option (TVal α)) : ∀ l : TSlots α, t ∉ toksL l → storeL t k x l = l
  | [], _ => by simp [storeL]
  | none :: r, h => by
      simp only [toksL] at h
      simp [storeL, storeL_not_mem t k x r h]
  | some v :: r, h => by
      simp only [toksL, List.mem_append, not_or] at h
      simp [storeL, storeV_not_mem t k x v h.1, storeL_not_mem t k x r h.2]
end

/-! ### intersection with the memoising copy: values -/

variable [DecidableEq α]

mutual
theorem erase_interSO (lv : Int) : ∀ (x : Option (TVal α)) (y : Option (Val α)) (c : Nat),
    (interSO lv x y c).1.map eraseV = interO lv (x.map eraseV) y
  | none, _, _ => by simp [interSO, interO]
  | some _, none, _ => by simp [interSO, interO]
  | some (.leaf ts a), some (.leaf b), c => by
      by_cases e : b = a <;> simp [interSO, interO, eraseV, e]
  | some (.leaf ts a), some (.dict y), c => by simp [interSO, interO, eraseV]
  | some (.dict t x), some (.leaf b), c => by simp [interSO, interO, eraseV]
  | some (.dict t x), some (.dict y), c => by
      by_cases e : y = eraseL x
      · simp [interSO, interO, eraseV, e]
      · by_cases h1 : lv = 1
        · simp [interSO, interO, eraseV, e, h1]
        · have h0 : ¬ (lv - 1 = 0) := by omega
          have ih := erase_interSL (lv - 1) (memoCopyD t x c).1 y (memoCopyD t x c).2
          rw [erase_memoCopyD] at ih
          simp [interSO, interO, eraseV, e, h1, h0, ih]
  termination_by _ y _ => sizeOf y
theorem erase_interSL (lv : Int) : ∀ (a : TSlots α) (b : Slots α) (c : Nat),
    eraseL (interSL lv a b c).1 = interL lv (eraseL a) b
  | [], _, _ => by simp [interSL, eraseL, interL]
  | x :: r, [], c => by
      rw [interSL, interL_nil_right, eraseL_replicate_none, eraseL_length]
      simp
  | x :: r, y :: r', c => by
      rw [interSL, eraseL_cons, eraseL_cons, interL, erase_interSO lv x y c, erase_interSL lv r r' _]
  termination_by _ b _ => sizeOf b
end

theorem erase_interSFold (lv : Int) (t : Nat) : ∀ (ds : List (Slots α)) (l : TSlots α) (c : Nat),
    eraseV (interSFold lv t l ds c).1 = .dict (interFold lv (eraseL l) ds)
  | [], l, c => by simp [interSFold, interFold, eraseV]
  | d :: ds, l, c => by
      by_cases h0 : lv = 0
      · simp only [interSFold, interFold, h0, if_true]
        split
        · exact erase_interSFold 0 t ds l c
        · rw [erase_emptyT]; simp [emptyLike, eraseL_length]
      · simp only [interSFold, interFold, h0, if_false, erase_interSL]
        split
        · rw [erase_interSFold lv t ds _ _, erase_interSL]
        · simp [eraseV, erase_interSL]

/-! ### intersection with the memoising copy: every object of the result is new -/

mutual
theorem interSO_fresh (lv : Int) (c0 : Nat) : ∀ (x : Option (TVal α)) (y : Option (Val α)) (c : Nat),
    FreshO c0 x → c0 ≤ c → c ≤ (interSO lv x y c).2 ∧ FreshO c0 (interSO lv x y c).1
  | none, _, c, _, _ => by simp [interSO, FreshO]
  | some _, none, c, _, _ => by simp [interSO, FreshO]
  | some (.leaf ts a), some (.leaf b), c, hx, _ => by
      by_cases e : b = a <;> simp [interSO, eraseV, e, FreshO]
      exact hx _ rfl
  | some (.leaf ts a), some (.dict y), c, _, _ => by simp [interSO, eraseV, FreshO]
  | some (.dict t x), some (.leaf b), c, _, _ => by simp [interSO, eraseV, FreshO]
  | some (.dict t x), some (.dict y), c, hx, hc => by
      by_cases e : y = eraseL x
      · simp only [interSO, eraseV, e, if_true]
        exact ⟨Nat.le_refl _, hx⟩
      · by_cases h1 : lv = 1
        · simp [interSO, eraseV, e, h1, FreshO]
        · have h0 : ¬ (lv - 1 = 0) := by omega
          have hr := memoCopyD_range t x c
          have hcp := memoCopyD_fresh t x c
          have ih := interSL_fresh (lv - 1) c0 (memoCopyD t x c).1 y (memoCopyD t x c).2
            (hcp.mono (by omega)) (by omega)
          simp only [interSO, eraseV, Val.dict.injEq, e, if_false, h1, h0]
          refine ⟨by omega, ?_⟩
          intro w hw
          cases hw
          rw [FreshV_dict]
          exact ⟨hc, ih.2⟩
  termination_by _ y _ => sizeOf y
theorem interSL_fresh (lv : Int) (c0 : Nat) : ∀ (a : TSlots α) (b : Slots α) (c : Nat),
    FreshL c0 a → c0 ≤ c → c ≤ (interSL lv a b c).2 ∧ FreshL c0 (interSL lv a b c).1
  | [], _, c, _, _ => by simp [interSL, FreshL, toksL]
  | x :: r, [], c, _, _ => by
      rw [interSL]
      exact ⟨Nat.le_refl _, FreshL_replicate_none c0 _⟩
  | x :: r, y :: r', c, ha, hc => by
      rw [FreshL_cons] at ha
      have i1 := interSO_fresh lv c0 x y c ha.1 hc
      have i2 := interSL_fresh lv c0 r r' (interSO lv x y c).2 ha.2 (by omega)
      rw [interSL, FreshL_cons]
      exact ⟨by omega, i1.2, i2.2⟩
  termination_by _ b _ => sizeOf b
end

theorem interSFold_fresh (lv : Int) (t c0 : Nat) (ht : c0 ≤ t) : ∀ (ds : List (Slots α)) (l : TSlots α) (c : Nat),
    FreshL c0 l → c0 ≤ c → FreshV c0 (interSFold lv t l ds c).1
  | [], l, c, hl, _ => by
      simp only [interSFold]; rw [FreshV_dict]; exact ⟨ht, hl⟩
  | d :: ds, l, c, hl, hc => by
      by_cases h0 : lv = 0
      · simp only [interSFold, h0, if_true]
        split
        · exact interSFold_fresh 0 t c0 ht ds l c hl hc
        · simp only [emptyT]; rw [FreshV_dict]; exact ⟨hc, FreshL_replicate_none c0 _⟩
      · have i := interSL_fresh lv c0 l d c hl hc
        simp only [interSFold, h0, if_false]
        split
        · exact interSFold_fresh lv t c0 ht ds _ _ i.2 (by omega)
        · rw [FreshV_dict]; exact ⟨ht, i.2⟩

/-! ### the loop of `intersection` as stores into the one object `res` -/

omit [DecidableEq α] in
theorem toksL_append : ∀ (a b : TSlots α), toksL (a ++ b) = toksL a ++ toksL b
  | [], b => by simp [toksL]
  | none :: r, b => by simp [toksL, toksL_append r b]
  | some v :: r, b => by simp [toksL, toksL_append r b]

omit [DecidableEq α] in
theorem storeTop_append (x x' : Option (TVal α)) (r : TSlots α) :
    ∀ done : TSlots α, storeTop done.length x' (done ++ x :: r) = done ++ x' :: r
  | [] => by simp [storeTop]
  | y :: done => by simp [storeTop, storeTop_append x x' r done]

omit [DecidableEq α] in
theorem storeV_root (t k : Nat) (x : Option (TVal α)) (l : TSlots α) (h : t ∉ toksL l) :
    storeV t k x (.dict t l) = .dict t (storeTop k x l) := by
  simp [storeV, storeL_not_mem t k x l h]

theorem interSO_none (lv : Int) (x : Option (TVal α)) (c : Nat) : interSO lv x none c = (none, c) := by
  cases x <;> simp [interSO]

theorem interSL_nil (lv : Int) (r : TSlots α) (c : Nat) : interSL lv r [] c = (List.replicate r.length none, c) := by
  cases r <;> simp [interSL]

/-- every object of what becomes of an item is an object of that item or new -/
theorem interSO_from (lv : Int) : ∀ (x : Option (TVal α)) (y : Option (Val α)) (c : Nat) (v : TVal α),
    (interSO lv x y c).1 = some v → ∀ u ∈ toksV v, (∃ w, x = some w ∧ u ∈ toksV w) ∨ c ≤ u
  | none, _, c, v, h => by simp [interSO] at h
  | some _, none, c, v, h => by simp [interSO] at h
  | some (.leaf ts a), some (.leaf b), c, v, h => by
      by_cases e : b = a
      · simp [interSO, eraseV, e] at h
        subst h
        exact fun u hu => Or.inl ⟨_, rfl, hu⟩
      · simp [interSO, eraseV, e] at h
  | some (.leaf ts a), some (.dict y), c, v, h => by simp [interSO, eraseV] at h
  | some (.dict t x), some (.leaf b), c, v, h => by simp [interSO, eraseV] at h
  | some (.dict t x), some (.dict y), c, v, h => by
      by_cases e : y = eraseL x
      · simp only [interSO, eraseV, e, if_true] at h
        cases h
        exact fun u hu => Or.inl ⟨_, rfl, hu⟩
      · by_cases h1 : lv = 1
        · simp [interSO, eraseV, e, h1] at h
        · have h0 : ¬ (lv - 1 = 0) := by omega
          have hr := memoCopyD_range t x c
          have ih := interSL_fresh (lv - 1) c (memoCopyD t x c).1 y (memoCopyD t x c).2
            (memoCopyD_fresh t x c) (by omega)
          simp only [interSO, eraseV, Val.dict.injEq, e, if_false, h1, h0] at h
          cases h
          intro u hu
          simp only [toksV, List.mem_cons] at hu
          rcases hu with hu | hu
          · exact Or.inr (by omega)
          · exact Or.inr (ih.2 u hu)

theorem interSO_next (lv : Int) (x : Option (TVal α)) (y : Option (Val α)) (c : Nat) : c ≤ (interSO lv x y c).2 :=
  (interSO_fresh lv 0 x y c (fun _ _ _ _ => Nat.zero_le _) (Nat.zero_le _)).1

/-- an object older than the counter that is not in an item is not in what becomes of the item -/
theorem interSO_not_mem (lv : Int) (t : Nat) (x : Option (TVal α)) (y : Option (Val α)) (c : Nat)
    (hc : t < c) (hx : t ∉ toksL [x]) : t ∉ toksL [(interSO lv x y c).1] := by
  cases hr : (interSO lv x y c).1 with
  | none => simp [toksL]
  | some v =>
    intro hmem
    simp only [toksL, List.append_nil] at hmem
    rcases interSO_from lv x y c v hr t hmem with ⟨w, hw, hu⟩ | h
    · subst hw
      exact hx (by simpa [toksL] using hu)
    · omega

theorem interObjLoop_eq (lv : Int) (t : Nat) : ∀ (todo : TSlots α) (d : Slots α) (done : TSlots α) (c : Nat),
    t < c → t ∉ toksL done → t ∉ toksL todo →
    interObjLoop lv t done.length todo d (.dict t (done ++ todo)) c
      = (.dict t (done ++ (interSL lv todo d c).1), (interSL lv todo d c).2)
  | [], d, done, c, _, _, _ => by simp [interObjLoop, interSL]
  | x :: r, [], done, c, hc, hd, ht => by
      have hx : t ∉ toksL [x] ∧ t ∉ toksL r := by
        have : toksL (x :: r) = toksL [x] ++ toksL r := by
          rw [← toksL_append]; rfl
        rw [this, List.mem_append, not_or] at ht
        exact ht
      have hroot : t ∉ toksL (done ++ x :: r) := by
        rw [toksL_append, List.mem_append, not_or]; exact ⟨hd, ht⟩
      rw [interObjLoop, interSO_none, storeV_root t _ _ _ hroot, storeTop_append]
      have hd' : t ∉ toksL (done ++ [none]) := by
        rw [toksL_append, List.mem_append, not_or]; exact ⟨hd, by simp [toksL]⟩
      have ih := interObjLoop_eq lv t r [] (done ++ [none]) c hc hd' hx.2
      simp only [List.length_append, List.length_singleton, List.append_assoc, List.singleton_append] at ih
      rw [ih, interSL_nil, interSL_nil]
      simp [List.replicate_succ]
  | x :: r, y :: r', done, c, hc, hd, ht => by
      have hx : t ∉ toksL [x] ∧ t ∉ toksL r := by
        have : toksL (x :: r) = toksL [x] ++ toksL r := by
          rw [← toksL_append]; rfl
        rw [this, List.mem_append, not_or] at ht
        exact ht
      have hroot : t ∉ toksL (done ++ x :: r) := by
        rw [toksL_append, List.mem_append, not_or]; exact ⟨hd, ht⟩
      rw [interObjLoop, storeV_root t _ _ _ hroot, storeTop_append]
      have hd' : t ∉ toksL (done ++ [(interSO lv x y c).1]) := by
        rw [toksL_append, List.mem_append, not_or]; exact ⟨hd, interSO_not_mem lv t x y c hc hx.1⟩
      have hn := interSO_next lv x y c
      have ih := interObjLoop_eq lv t r r' (done ++ [(interSO lv x y c).1]) (interSO lv x y c).2 (by omega) hd' hx.2
      simp only [List.length_append, List.length_singleton, List.append_assoc, List.singleton_append] at ih
      rw [ih, interSL]

end Lena.C07
