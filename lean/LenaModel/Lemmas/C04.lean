import LenaModel.Model.C04
import LenaModel.Lemmas.C03
/-! # C04 — lemmas: `copy.deepcopy` allocates fresh objects with the same contents; the loops of
`Split.run` are folds (`pass`, `passes`) -/

namespace Lena.C04

open Lena.C03 (Kind readBlock blocks)

variable {σ S C : Type}

/-! ## heap -/

@[simp] theorem Store.set_self (st : Store C) (t : Tok) (c : C) : (st.set t c) t = c := by
  simp [Store.set]

theorem Store.set_ne (st : Store C) {t u : Tok} (c : C) (h : u ≠ t) : (st.set t c) u = st u := by
  simp [Store.set, h]

@[simp] theorem cellsOf_nil : cellsOf ([] : List (Item S)) = [] := rfl
@[simp] theorem cellsOf_cons (x : Item S) (xs : List (Item S)) : cellsOf (x :: xs) = x.cells ++ cellsOf xs := by
  simp [cellsOf]
theorem cellsOf_append (xs ys : List (Item S)) : cellsOf (xs ++ ys) = cellsOf xs ++ cellsOf ys := by
  simp [cellsOf]

/-! ## `copy.deepcopy` -/

/-- the objects allocated by a copy that started at counter `lo` and is now at `hi` -/
def InRange (ns lo hi : Nat) (t : Tok) : Prop := t.1 = ns ∧ lo ≤ t.2 ∧ t.2 < hi

/-- every copy recorded in the memo was allocated by this call -/
def MemoIn (ns lo : Nat) (c : CopySt C) : Prop := ∀ p ∈ c.memo, InRange ns lo c.ctr p.2

theorem lookup_mem {m : List (Tok × Tok)} {t t' : Tok} (h : m.lookup t = some t') : (t, t') ∈ m := by
  induction m with
  | nil => simp at h
  | cons p m ih =>
    obtain ⟨k, v⟩ := p
    rw [List.lookup_cons] at h
    split at h
    · rename_i heq
      have : t = k := by simpa using heq
      simp_all
    · exact List.mem_cons_of_mem _ (ih h)

theorem copyCells_spec (ns lo : Nat) : ∀ (ts : List Tok) (c : CopySt C), lo ≤ c.ctr → MemoIn ns lo c →
    c.ctr ≤ (copyCells ns c ts).1.ctr ∧ MemoIn ns lo (copyCells ns c ts).1 ∧
    (copyCells ns c ts).2.length = ts.length ∧
    (∀ t ∈ (copyCells ns c ts).2, InRange ns lo (copyCells ns c ts).1.ctr t) ∧
    (∀ u, ¬ InRange ns c.ctr (copyCells ns c ts).1.ctr u → (copyCells ns c ts).1.st u = c.st u) := by
  intro ts
  induction ts with
  | nil => intro c _ hm; simp [copyCells]; exact hm
  | cons t ts ih =>
    intro c hlo hm
    unfold copyCells
    cases hl : c.memo.lookup t with
    | some t' =>
      simp only
      obtain ⟨h1, h2, h3, h4, h5⟩ := ih c hlo hm
      refine ⟨h1, h2, by simp [h3], ?_, h5⟩
      intro u hu
      rcases List.mem_cons.mp hu with rfl | hu
      · have := hm _ (lookup_mem hl)
        exact ⟨this.1, this.2.1, by have := this.2.2; simp at this; omega⟩
      · exact h4 u hu
    | none =>
      simp only
      have hm' : MemoIn ns lo ({ st := c.st.set (ns, c.ctr) (c.st t), ctr := c.ctr + 1, memo := (t, (ns, c.ctr)) :: c.memo } : CopySt C) := by
        intro p hp
        rcases List.mem_cons.mp hp with rfl | hp
        · exact ⟨rfl, hlo, by simp⟩
        · have := hm p hp
          exact ⟨this.1, this.2.1, by have := this.2.2; simp; omega⟩
      obtain ⟨h1, h2, h3, h4, h5⟩ := ih _ (by simp; omega) hm'
      simp only at h1 h2 h3 h4 h5
      refine ⟨by omega, h2, by simp [h3], ?_, ?_⟩
      · intro u hu
        rcases List.mem_cons.mp hu with rfl | hu
        · exact ⟨rfl, hlo, by omega⟩
        · exact h4 u hu
      · intro u hu
        rw [h5 u (by intro h; obtain ⟨g1, g2, g3⟩ := h; exact hu ⟨g1, by omega, g3⟩)]
        apply Store.set_ne
        intro heq
        exact hu ⟨by simp [heq], by simp [heq], by simp [heq]; omega⟩

theorem copyItems_spec (ns lo : Nat) : ∀ (xs : List (Item S)) (c : CopySt C), lo ≤ c.ctr → MemoIn ns lo c →
    c.ctr ≤ (copyItems ns c xs).1.ctr ∧ MemoIn ns lo (copyItems ns c xs).1 ∧
    (copyItems ns c xs).2.map (·.skel) = xs.map (·.skel) ∧
    (∀ t ∈ cellsOf (copyItems ns c xs).2, InRange ns lo (copyItems ns c xs).1.ctr t) ∧
    (∀ u, ¬ InRange ns c.ctr (copyItems ns c xs).1.ctr u → (copyItems ns c xs).1.st u = c.st u) := by
  intro xs
  induction xs with
  | nil => intro c _ hm; simp [copyItems]; exact hm
  | cons x xs ih =>
    intro c hlo hm
    unfold copyItems
    simp only
    obtain ⟨a1, a2, _, a4, a5⟩ := copyCells_spec ns lo x.cells c hlo hm
    obtain ⟨b1, b2, b3, b4, b5⟩ := ih (copyCells ns c x.cells).1 (by omega) a2
    refine ⟨by omega, b2, by simp [b3], ?_, ?_⟩
    · intro t ht
      rw [cellsOf_cons] at ht
      rcases List.mem_append.mp ht with ht | ht
      · obtain ⟨g1, g2, g3⟩ := a4 t ht
        exact ⟨g1, g2, by omega⟩
      · exact b4 t ht
    · intro u hu
      rw [b5 u (by intro h; obtain ⟨g1, g2, g3⟩ := h; exact hu ⟨g1, by omega, g3⟩)]
      exact a5 u (by intro h; obtain ⟨g1, g2, g3⟩ := h; exact hu ⟨g1, g2, by omega⟩)

/-- `copy.deepcopy(buf)`: the counter grows, the skeletons are kept, every object of the copy is new
(allocated by this call), and no existing object changes -/
theorem deepcopy_spec (w : World C) (buf : List (Item S)) :
    w.cc ≤ (deepcopy w buf).1.cc ∧
    (deepcopy w buf).2.map (·.skel) = buf.map (·.skel) ∧
    (∀ t ∈ cellsOf (deepcopy w buf).2, InRange copyNs w.cc (deepcopy w buf).1.cc t) ∧
    (∀ u, ¬ InRange copyNs w.cc (deepcopy w buf).1.cc u → (deepcopy w buf).1.st u = w.st u) := by
  have h := copyItems_spec (S := S) copyNs w.cc buf { st := w.st, ctr := w.cc, memo := [] } (Nat.le_refl _)
    (by intro p hp; simp at hp)
  exact ⟨h.1, h.2.2.1, h.2.2.2.1, h.2.2.2.2⟩

/-! ## the loop over active sequences is a fold -/

/-- one buffer: every active branch once, in order; the branch that is last *at that moment* gets
the original buffer, every other one a deep copy -/
def pass (copyBuf : Bool) (orig : List (Item S)) :
    World C → List (Branch σ S C) → List (Ev S C) × List (Branch σ S C) × World C
  | w, [] => ([], [], w)
  | w, b :: rest =>
    let c := chooseBuf copyBuf (!rest.isEmpty) orig w
    let r := stepBranch c.2.1 c.1.st b
    let q := pass copyBuf orig { c.1 with st := r.st } rest
    (.hand b.id c.2.1 c.2.2 :: r.evs ++ q.1,
      (match r.br with
        | none => q.2.1
        | some b' => b' :: q.2.1), q.2.2)

theorem blockLoop_zipper (copyBuf : Bool) (orig : List (Item S)) :
    ∀ (fuel : Nat) (pre post : List (Branch σ S C)) (w : World C) (acc : List (Ev S C)), post.length < fuel + 1 →
      blockLoop copyBuf orig (fuel + 1) pre.length (pre ++ post) w acc =
        (acc ++ (pass copyBuf orig w post).1, pre ++ (pass copyBuf orig w post).2.1, (pass copyBuf orig w post).2.2) := by
  intro fuel
  induction fuel with
  | zero =>
    intro pre post w acc h
    have : post = [] := by cases post <;> simp_all
    subst this
    simp [blockLoop, pass]
  | succ fuel ih =>
    intro pre post w acc h
    cases post with
    | nil => simp [blockLoop, pass]
    | cons b post =>
      unfold blockLoop
      have hlt : pre.length < (pre ++ b :: post).length := by simp
      have hmore : decide ((pre ++ b :: post).length - pre.length > 1) = !post.isEmpty := by
        cases post <;> simp
      simp only [hlt, dite_true, Lena.C03.getElem_mid pre post b hlt, hmore]
      cases hs : (stepBranch (chooseBuf copyBuf (!post.isEmpty) orig w).2.1
          (chooseBuf copyBuf (!post.isEmpty) orig w).1.st b).br with
      | none =>
        simp only [Lena.C03.eraseIdx_mid]
        rw [ih pre post _ _ (by simpa using h)]
        simp [pass, hs, List.append_assoc]
      | some b' =>
        simp only [Lena.C03.set_mid]
        have e : pre ++ b' :: post = (pre ++ [b']) ++ post := by simp
        have el : pre.length + 1 = (pre ++ [b']).length := by simp
        rw [e, el, ih (pre ++ [b']) post _ _ (by simpa using h)]
        simp [pass, hs, List.append_assoc]

theorem blockLoop_eq_pass (copyBuf : Bool) (orig : List (Item S)) (act : List (Branch σ S C)) (w : World C)
    (acc : List (Ev S C)) :
    blockLoop copyBuf orig (act.length + 1) 0 act w acc =
      (acc ++ (pass copyBuf orig w act).1, (pass copyBuf orig w act).2.1, (pass copyBuf orig w act).2.2) := by
  have := blockLoop_zipper copyBuf orig act.length [] act w acc (by omega)
  simpa using this

/-- buffer after buffer -/
def passes (copyBuf : Bool) : List (List (Item S)) → World C → List (Branch σ S C) →
    List (Ev S C) × List (Branch σ S C) × World C
  | [], w, act => ([], act, w)
  | blk :: rest, w, act =>
    let p := pass copyBuf blk w act
    let q := passes copyBuf rest p.2.2 p.2.1
    (p.1 ++ q.1, q.2)

theorem outerLoop_eq_passes (copyBuf : Bool) (bs : Option Nat) (hbs : bs ≠ some 0) :
    ∀ (fuel : Nat) (flow : List (Item S)) (act : List (Branch σ S C)) (w : World C) (acc : List (Ev S C)) (fwe : Bool),
      flow.length < fuel →
      outerLoop copyBuf bs fuel flow act w acc fwe =
        (acc ++ (passes copyBuf (blocks bs flow) w act).1, (passes copyBuf (blocks bs flow) w act).2.1,
          (passes copyBuf (blocks bs flow) w act).2.2, fwe && (blocks bs flow).isEmpty) := by
  intro fuel
  induction fuel with
  | zero => intro flow _ _ _ _ h; omega
  | succ fuel ih =>
    intro flow act w acc fwe h
    unfold outerLoop
    by_cases hne : flow = []
    · subst hne
      have : (readBlock bs ([] : List (Item S))).1 = [] := by cases bs <;> simp [readBlock]
      simp [this, passes]
    · obtain ⟨h1, h2⟩ := Lena.C03.blocks_readBlock bs hbs flow hne
      have hlen := Lena.C03.readBlock_length bs hbs flow hne
      have hemp : (readBlock bs flow).1.isEmpty = false := by
        cases hr : (readBlock bs flow).1 with
        | nil => exact absurd hr h1
        | cons _ _ => rfl
      simp only [hemp, Bool.false_eq_true, if_false]
      rw [blockLoop_eq_pass, ih _ _ _ _ _ (by omega), h2]
      simp [passes, List.append_assoc]

/-- `Split.run` as two nested folds followed by the final pass -/
theorem runTrace_eq (s : Split σ S C) (hv : s.bufsize ≠ some 0) (st0 : Store C) (flow : List (Item S)) :
    s.runTrace st0 flow =
      let p := passes s.copyBuf (blocks s.bufsize flow) { st := st0, cc := 0 } s.branches
      let f := finalPass (blocks s.bufsize flow).isEmpty p.2.2.st p.2.1
      (p.1 ++ f.1, f.2) := by
  unfold Split.runTrace
  rw [outerLoop_eq_passes s.copyBuf s.bufsize hv _ _ _ _ _ _ (Nat.lt_succ_self _)]
  simp

end Lena.C04
