import LenaModel.Model.C04
