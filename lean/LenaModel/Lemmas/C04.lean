import LenaModel.Model.C04
import LenaModel.Model.C04Spec
import LenaModel.Lemmas.C03
/-! # C04 — lemmas: `copy.deepcopy` allocates fresh objects with the same contents; the loops of
`Split.run` are folds (`pass`, `passes`) -/

namespace Lena.C04

open Lena.C03 (Kind readBlock blocks)

variable {σ S C : Type}

/-! ## heap -/

@[simp] theorem Store.set_self (st : Store C) (t : Tok) (c : C) : (st.set t c) t = c := by
  simp [Store.set]

theorem Store.set_ne (st : Store C) {t u : Tok} (c : C) (h : u ≠ t) : (st.set t c) u = st u := by
  simp [Store.set, h]

@[simp] theorem cellsOf_nil : cellsOf ([] : List (Item S)) = [] := rfl
@[simp] theorem cellsOf_cons (x : Item S) (xs : List (Item S)) : cellsOf (x :: xs) = x.cells ++ cellsOf xs := by
  simp [cellsOf]
theorem cellsOf_append (xs ys : List (Item S)) : cellsOf (xs ++ ys) = cellsOf xs ++ cellsOf ys := by
  simp [cellsOf]

/-! ## `copy.deepcopy` -/

/-- every copy recorded in the memo was allocated by this call -/
def MemoIn (ns lo : Nat) (c : CopySt C) : Prop := ∀ p ∈ c.memo, InRange ns lo c.ctr p.2

theorem lookup_mem {m : List (Tok × Tok)} {t t' : Tok} (h : m.lookup t = some t') : (t, t') ∈ m := by
  induction m with
  | nil => simp at h
  | cons p m ih =>
    obtain ⟨k, v⟩ := p
    rw [List.lookup_cons] at h
    split at h
    · rename_i heq
      have : t = k := by simpa using heq
      simp_all
    · exact List.mem_cons_of_mem _ (ih h)

theorem copyCells_spec (ns lo : Nat) : ∀ (ts : List Tok) (c : CopySt C), lo ≤ c.ctr → MemoIn ns lo c →
    c.ctr ≤ (copyCells ns c ts).1.ctr ∧ MemoIn ns lo (copyCells ns c ts).1 ∧
    (copyCells ns c ts).2.length = ts.length ∧
    (∀ t ∈ (copyCells ns c ts).2, InRange ns lo (copyCells ns c ts).1.ctr t) ∧
    (∀ u, ¬ InRange ns c.ctr (copyCells ns c ts).1.ctr u → (copyCells ns c ts).1.st u = c.st u) := by
  intro ts
  induction ts with
  | nil => intro c _ hm; simp [copyCells]; exact hm
  | cons t ts ih =>
    intro c hlo hm
    unfold copyCells
    cases hl : c.memo.lookup t with
    | some t' =>
      simp only
      obtain ⟨h1, h2, h3, h4, h5⟩ := ih c hlo hm
      refine ⟨h1, h2, by simp [h3], ?_, h5⟩
      intro u hu
      rcases List.mem_cons.mp hu with rfl | hu
      · have := hm _ (lookup_mem hl)
        exact ⟨this.1, this.2.1, by have := this.2.2; simp at this; omega⟩
      · exact h4 u hu
    | none =>
      simp only
      have hm' : MemoIn ns lo ({ st := c.st.set (ns, c.ctr) (c.st t), ctr := c.ctr + 1, memo := (t, (ns, c.ctr)) :: c.memo } : CopySt C) := by
        intro p hp
        rcases List.mem_cons.mp hp with rfl | hp
        · exact ⟨rfl, hlo, by simp⟩
        · have := hm p hp
          exact ⟨this.1, this.2.1, by have := this.2.2; simp; omega⟩
      obtain ⟨h1, h2, h3, h4, h5⟩ := ih _ (by simp; omega) hm'
      simp only at h1 h2 h3 h4 h5
      refine ⟨by omega, h2, by simp [h3], ?_, ?_⟩
      · intro u hu
        rcases List.mem_cons.mp hu with rfl | hu
        · exact ⟨rfl, hlo, by omega⟩
        · exact h4 u hu
      · intro u hu
        rw [h5 u (by intro h; obtain ⟨g1, g2, g3⟩ := h; exact hu ⟨g1, by omega, g3⟩)]
        apply Store.set_ne
        intro heq
        exact hu ⟨by simp [heq], by simp [heq], by simp [heq]; omega⟩

theorem copyItems_spec (ns lo : Nat) : ∀ (xs : List (Item S)) (c : CopySt C), lo ≤ c.ctr → MemoIn ns lo c →
    c.ctr ≤ (copyItems ns c xs).1.ctr ∧ MemoIn ns lo (copyItems ns c xs).1 ∧
    (copyItems ns c xs).2.map (·.skel) = xs.map (·.skel) ∧
    (∀ t ∈ cellsOf (copyItems ns c xs).2, InRange ns lo (copyItems ns c xs).1.ctr t) ∧
    (∀ u, ¬ InRange ns c.ctr (copyItems ns c xs).1.ctr u → (copyItems ns c xs).1.st u = c.st u) := by
  intro xs
  induction xs with
  | nil => intro c _ hm; simp [copyItems]; exact hm
  | cons x xs ih =>
    intro c hlo hm
    unfold copyItems
    simp only
    obtain ⟨a1, a2, _, a4, a5⟩ := copyCells_spec ns lo x.cells c hlo hm
    obtain ⟨b1, b2, b3, b4, b5⟩ := ih (copyCells ns c x.cells).1 (by omega) a2
    refine ⟨by omega, b2, by simp [b3], ?_, ?_⟩
    · intro t ht
      rw [cellsOf_cons] at ht
      rcases List.mem_append.mp ht with ht | ht
      · obtain ⟨g1, g2, g3⟩ := a4 t ht
        exact ⟨g1, g2, by omega⟩
      · exact b4 t ht
    · intro u hu
      rw [b5 u (by intro h; obtain ⟨g1, g2, g3⟩ := h; exact hu ⟨g1, by omega, g3⟩)]
      exact a5 u (by intro h; obtain ⟨g1, g2, g3⟩ := h; exact hu ⟨g1, g2, by omega⟩)

/-- `copy.deepcopy(buf)`: the counter grows, the skeletons are kept, every object of the copy is new
(allocated by this call), and no existing object changes -/
theorem deepcopy_spec (ns : Nat) (w : World C) (buf : List (Item S)) :
    w.cc ≤ (deepcopy ns w buf).1.cc ∧
    (deepcopy ns w buf).2.map (·.skel) = buf.map (·.skel) ∧
    (∀ t ∈ cellsOf (deepcopy ns w buf).2, InRange ns w.cc (deepcopy ns w buf).1.cc t) ∧
    (∀ u, ¬ InRange ns w.cc (deepcopy ns w buf).1.cc u → (deepcopy ns w buf).1.st u = w.st u) := by
  have h := copyItems_spec (S := S) ns w.cc buf { st := w.st, ctr := w.cc, memo := [] } (Nat.le_refl _)
    (by intro p hp; simp at hp)
  exact ⟨h.1, h.2.2.1, h.2.2.2.1, h.2.2.2.2⟩

/-! ## the loop over active sequences is a fold -/

/-- one buffer: every active branch once, in order; the branch that is last *at that moment* gets
the original buffer, every other one a deep copy -/
def pass (copyBuf : Bool) (orig : List (Item S)) :
    World C → List (Branch σ S C) → List (Ev S C) × List (Branch σ S C) × World C
  | w, [] => ([], [], w)
  | w, b :: rest =>
    let c := chooseBuf copyBuf (!rest.isEmpty) orig (copyNsOf b.id) w
    let r := stepBranch c.2.1 c.1.st b
    let q := pass copyBuf orig { c.1 with st := r.st } rest
    (.hand b.id c.2.1 c.2.2 :: r.evs ++ q.1,
      (match r.br with
        | none => q.2.1
        | some b' => b' :: q.2.1), q.2.2)

theorem blockLoop_zipper (copyBuf : Bool) (orig : List (Item S)) :
    ∀ (fuel : Nat) (pre post : List (Branch σ S C)) (w : World C) (acc : List (Ev S C)), post.length < fuel + 1 →
      blockLoop copyBuf orig (fuel + 1) pre.length (pre ++ post) w acc =
        (acc ++ (pass copyBuf orig w post).1, pre ++ (pass copyBuf orig w post).2.1, (pass copyBuf orig w post).2.2) := by
  intro fuel
  induction fuel with
  | zero =>
    intro pre post w acc h
    have : post = [] := by cases post <;> simp_all
    subst this
    simp [blockLoop, pass]
  | succ fuel ih =>
    intro pre post w acc h
    cases post with
    | nil => simp [blockLoop, pass]
    | cons b post =>
      unfold blockLoop
      have hlt : pre.length < (pre ++ b :: post).length := by simp
      have hmore : decide ((pre ++ b :: post).length - pre.length > 1) = !post.isEmpty := by
        cases post <;> simp
      simp only [hlt, dite_true, Lena.C03.getElem_mid pre post b hlt, hmore]
      cases hs : (stepBranch (chooseBuf copyBuf (!post.isEmpty) orig (copyNsOf b.id) w).2.1
          (chooseBuf copyBuf (!post.isEmpty) orig (copyNsOf b.id) w).1.st b).br with
      | none =>
        simp only [Lena.C03.eraseIdx_mid]
        rw [ih pre post _ _ (by simpa using h)]
        simp [pass, hs, List.append_assoc]
      | some b' =>
        simp only [Lena.C03.set_mid]
        have e : pre ++ b' :: post = (pre ++ [b']) ++ post := by simp
        have el : pre.length + 1 = (pre ++ [b']).length := by simp
        rw [e, el, ih (pre ++ [b']) post _ _ (by simpa using h)]
        simp [pass, hs, List.append_assoc]

theorem blockLoop_eq_pass (copyBuf : Bool) (orig : List (Item S)) (act : List (Branch σ S C)) (w : World C)
    (acc : List (Ev S C)) :
    blockLoop copyBuf orig (act.length + 1) 0 act w acc =
      (acc ++ (pass copyBuf orig w act).1, (pass copyBuf orig w act).2.1, (pass copyBuf orig w act).2.2) := by
  have := blockLoop_zipper copyBuf orig act.length [] act w acc (by omega)
  simpa using this

/-- buffer after buffer -/
def passes (copyBuf : Bool) : List (List (Item S)) → World C → List (Branch σ S C) →
    List (Ev S C) × List (Branch σ S C) × World C
  | [], w, act => ([], act, w)
  | blk :: rest, w, act =>
    let p := pass copyBuf blk w act
    let q := passes copyBuf rest p.2.2 p.2.1
    (p.1 ++ q.1, q.2)

theorem outerLoop_eq_passes (copyBuf : Bool) (bs : Option Nat) (hbs : bs ≠ some 0) :
    ∀ (fuel : Nat) (flow : List (Item S)) (act : List (Branch σ S C)) (w : World C) (acc : List (Ev S C)) (fwe : Bool),
      flow.length < fuel →
      outerLoop copyBuf bs fuel flow act w acc fwe =
        (acc ++ (passes copyBuf (blocks bs flow) w act).1, (passes copyBuf (blocks bs flow) w act).2.1,
          (passes copyBuf (blocks bs flow) w act).2.2, fwe && (blocks bs flow).isEmpty) := by
  intro fuel
  induction fuel with
  | zero => intro flow _ _ _ _ h; omega
  | succ fuel ih =>
    intro flow act w acc fwe h
    unfold outerLoop
    by_cases hne : flow = []
    · subst hne
      have : (readBlock bs ([] : List (Item S))).1 = [] := by cases bs <;> simp [readBlock]
      simp [this, passes]
    · obtain ⟨h1, h2⟩ := Lena.C03.blocks_readBlock bs hbs flow hne
      have hlen := Lena.C03.readBlock_length bs hbs flow hne
      have hemp : (readBlock bs flow).1.isEmpty = false := by
        cases hr : (readBlock bs flow).1 with
        | nil => exact absurd hr h1
        | cons _ _ => rfl
      simp only [hemp, Bool.false_eq_true, if_false]
      rw [blockLoop_eq_pass, ih _ _ _ _ _ (by omega), h2]
      simp [passes, List.append_assoc]

/-- `Split.run` as two nested folds followed by the final pass -/
theorem runTrace_eq (s : Split σ S C) (hv : s.bufsize ≠ some 0) (st0 : Store C) (flow : List (Item S)) :
    s.runTrace st0 flow =
      let p := passes s.copyBuf (blocks s.bufsize flow) { st := st0, cc := 0 } s.branches
      let f := finalPass (blocks s.bufsize flow).isEmpty p.2.2.st p.2.1
      (p.1 ++ f.1, f.2) := by
  unfold Split.runTrace
  rw [outerLoop_eq_passes s.copyBuf s.bufsize hv _ _ _ _ _ _ (Nat.lt_succ_self _)]
  simp

/-! ## which objects are handed to which branch -/

def Ev.isHand : Ev S C → Bool
  | .hand _ _ _ => true
  | _ => false

theorem Disj.nil_left (b : List Tok) : Disj [] b := by intro t h; simp at h
theorem Disj.nil_right (a : List Tok) : Disj a [] := by intro t _; simp

theorem handCells_of_not_hand {e : Ev S C} (h : e.isHand = false) : handCells e = [] := by
  cases e <;> simp_all [Ev.isHand, handCells]

/-- a hand event of a trace segment: a copy was allocated between the counters `lo` and `hi`; an
original buffer is one of `U` -/
def handOK (lo hi : Nat) (U : List (List (Item S))) : Ev S C → Prop
  | .hand i buf true => ∀ t ∈ cellsOf buf, InRange (copyNsOf i) lo hi t
  | .hand _ buf false => buf ∈ U
  | _ => True

def HandsOK (lo hi : Nat) (U : List (List (Item S))) (tr : List (Ev S C)) : Prop := ∀ e ∈ tr, handOK lo hi U e

theorem handOK_of_not_hand {lo hi : Nat} {U : List (List (Item S))} {e : Ev S C} (h : e.isHand = false) :
    handOK lo hi U e := by
  cases e <;> simp_all [Ev.isHand, handOK]

theorem handOK_mono {lo hi lo' hi' : Nat} {U U' : List (List (Item S))} (h1 : lo' ≤ lo) (h2 : hi ≤ hi')
    (hU : ∀ a ∈ U, a ∈ U') {e : Ev S C} (h : handOK lo hi U e) : handOK lo' hi' U' e := by
  cases e with
  | hand i buf c =>
    cases c with
    | true =>
      intro t ht
      obtain ⟨g1, g2, g3⟩ := h t ht
      exact ⟨g1, by omega, by omega⟩
    | false => exact hU _ h
  | _ => trivial

theorem HandsOK.mono {lo hi lo' hi' : Nat} {U U' : List (List (Item S))} {tr : List (Ev S C)} (h1 : lo' ≤ lo)
    (h2 : hi ≤ hi') (hU : ∀ a ∈ U, a ∈ U') (h : HandsOK lo hi U tr) : HandsOK lo' hi' U' tr :=
  fun e he => handOK_mono h1 h2 hU (h e he)

theorem HandsOK.append {lo hi : Nat} {U : List (List (Item S))} {l₁ l₂ : List (Ev S C)}
    (h₁ : HandsOK lo hi U l₁) (h₂ : HandsOK lo hi U l₂) : HandsOK lo hi U (l₁ ++ l₂) := by
  intro e he
  rcases List.mem_append.mp he with he | he
  · exact h₁ e he
  · exact h₂ e he

/-- events of an earlier segment and of a later segment refer to different objects -/
theorem cross_disj {lo mid hi : Nat} {U₁ U₂ : List (List (Item S))} {e₁ e₂ : Ev S C}
    (h₁ : handOK lo mid U₁ e₁) (h₂ : handOK mid hi U₂ e₂)
    (hU : ∀ a ∈ U₁, ∀ b ∈ U₂, Disj (cellsOf a) (cellsOf b))
    (hup₁ : ∀ a ∈ U₁, ∀ t ∈ cellsOf a, t.1 = upNs) (hup₂ : ∀ a ∈ U₂, ∀ t ∈ cellsOf a, t.1 = upNs) :
    Disj (handCells e₁) (handCells e₂) := by
  cases e₁ with
  | hand i buf c =>
    cases e₂ with
    | hand j buf' c' =>
      intro t ht ht'
      simp only [handCells] at ht ht'
      cases c <;> cases c'
      · exact hU _ h₁ _ h₂ t ht ht'
      · have a := hup₁ _ h₁ t ht
        have b := (h₂ t ht').1
        simp [upNs, copyNsOf] at a b; omega
      · have a := (h₁ t ht).1
        have b := hup₂ _ h₂ t ht'
        simp [upNs, copyNsOf] at a b; omega
      · obtain ⟨_, _, a⟩ := h₁ t ht
        obtain ⟨_, b, _⟩ := h₂ t ht'
        omega
    | _ => exact Disj.nil_right _
  | _ => exact Disj.nil_left _

theorem pairwise_nohand_append {l₁ l₂ : List (Ev S C)} (h : ∀ e ∈ l₁, e.isHand = false)
    (h₂ : (l₂.map handCells).Pairwise Disj) : ((l₁ ++ l₂).map handCells).Pairwise Disj := by
  induction l₁ with
  | nil => simpa using h₂
  | cons e l ih =>
    simp only [List.cons_append, List.map_cons, List.pairwise_cons]
    refine ⟨?_, ih (fun e he => h e (List.mem_cons_of_mem _ he))⟩
    intro a _
    rw [handCells_of_not_hand (h e (List.mem_cons_self ..))]
    exact Disj.nil_left _

theorem fillBuf_nohand (i : Nat) (ops : Ops σ S C) : ∀ (buf : List (Item S)) (st : Store C) (s : σ),
    ∀ e ∈ (fillBuf i ops st s buf).evs, e.isHand = false := by
  intro buf
  induction buf with
  | nil => intro st s e he; simp [fillBuf] at he
  | cons x xs ih =>
    intro st s e he
    unfold fillBuf at he
    simp only at he
    split at he
    · simp at he; subst he; rfl
    · rcases List.mem_cons.mp he with rfl | he
      · rfl
      · exact ih _ _ e he

theorem outsEv_nohand (i : Nat) (st : Store C) (vals : List (Item S)) : ∀ e ∈ outsEv i st vals, e.isHand = false := by
  intro e he
  simp only [outsEv, List.mem_map] at he
  obtain ⟨v, _, rfl⟩ := he
  rfl

theorem stepBranch_nohand (buf : List (Item S)) (st : Store C) (b : Branch σ S C) :
    ∀ e ∈ (stepBranch buf st b).evs, e.isHand = false := by
  intro e he
  unfold stepBranch at he
  split at he
  · rcases List.mem_cons.mp he with rfl | he
    · rfl
    · exact outsEv_nohand _ _ _ e he
  · dsimp only at he
    split at he
    · rcases List.mem_append.mp he with he | he
      · exact fillBuf_nohand _ _ _ _ _ e he
      · rcases List.mem_cons.mp he with rfl | he
        · rfl
        · exact outsEv_nohand _ _ _ e he
    · exact fillBuf_nohand _ _ _ _ _ e he
  · dsimp only at he
    rcases List.mem_append.mp he with he | he
    · exact fillBuf_nohand _ _ _ _ _ e he
    · rcases List.mem_cons.mp he with rfl | he
      · rfl
      · exact outsEv_nohand _ _ _ e he
  · rcases List.mem_cons.mp he with rfl | he
    · rfl
    · exact outsEv_nohand _ _ _ e he

theorem finalPass_nohand (fwe : Bool) : ∀ (act : List (Branch σ S C)) (st : Store C),
    ∀ e ∈ (finalPass fwe st act).1, e.isHand = false := by
  intro act
  induction act with
  | nil => intro st e he; simp [finalPass] at he
  | cons b rest ih =>
    intro st e he
    unfold finalPass at he
    split at he
    · split at he
      · rcases List.mem_cons.mp he with rfl | he
        · rfl
        · rcases List.mem_append.mp he with he | he
          · exact outsEv_nohand _ _ _ e he
          · exact ih _ e he
      · simp at he; subst he; rfl
    · rcases List.mem_cons.mp he with rfl | he
      · rfl
      · rcases List.mem_append.mp he with he | he
        · exact outsEv_nohand _ _ _ e he
        · exact ih _ e he
    · split at he
      · rcases List.mem_cons.mp he with rfl | he
        · rfl
        · rcases List.mem_append.mp he with he | he
          · exact outsEv_nohand _ _ _ e he
          · exact ih _ e he
      · exact ih _ e he
    · split at he
      · rcases List.mem_cons.mp he with rfl | he
        · rfl
        · rcases List.mem_append.mp he with he | he
          · exact outsEv_nohand _ _ _ e he
          · exact ih _ e he
      · exact ih _ e he

/-- one buffer with `copy_buf=True`: every branch but the last is handed new objects; the objects
handed to different branches are different -/
theorem pass_hands (orig : List (Item S)) (hup : ∀ t ∈ cellsOf orig, t.1 = upNs) :
    ∀ (act : List (Branch σ S C)) (w : World C),
      w.cc ≤ (pass true orig w act).2.2.cc ∧
      HandsOK w.cc (pass true orig w act).2.2.cc [orig] (pass true orig w act).1 ∧
      ((pass true orig w act).1.map handCells).Pairwise Disj := by
  intro act
  induction act with
  | nil => intro w; simp [pass, HandsOK]
  | cons b rest ih =>
    intro w
    unfold pass
    simp only
    generalize hc : chooseBuf true (!rest.isEmpty) orig (copyNsOf b.id) w = c
    generalize hr : stepBranch c.2.1 c.1.st b = r
    obtain ⟨i1, i2, i3⟩ := ih { st := r.st, cc := c.1.cc }
    simp only at i1
    have hnh : ∀ e ∈ r.evs, e.isHand = false := by rw [← hr]; exact stepBranch_nohand _ _ _
    -- the buffer of this branch
    have hb : w.cc ≤ c.1.cc ∧ handOK w.cc c.1.cc ([] : List (List (Item S))) (Ev.hand b.id c.2.1 c.2.2 : Ev S C)
        ∨ (rest = [] ∧ c = (w, orig, false)) := by
      cases rest with
      | nil => right; simp [← hc, chooseBuf]
      | cons b' rest' =>
        left
        have hd := deepcopy_spec (copyNsOf b.id) w orig
        simp only [chooseBuf, List.isEmpty_cons, Bool.not_false, Bool.and_self, if_true] at hc
        subst hc
        exact ⟨hd.1, hd.2.2.1⟩
    rcases hb with ⟨hle, hh⟩ | ⟨hrest, hcw⟩
    · refine ⟨by omega, ?_, ?_⟩
      · intro e he
        rcases List.mem_cons.mp he with rfl | he
        · exact handOK_mono (Nat.le_refl _) i1 (by intro a ha; simp at ha) hh
        · rcases List.mem_append.mp he with he | he
          · exact handOK_of_not_hand (hnh e he)
          · exact handOK_mono hle (Nat.le_refl _) (fun a ha => ha) (i2 e he)
      · simp only [List.cons_append, List.map_cons, List.pairwise_cons]
        refine ⟨?_, pairwise_nohand_append hnh i3⟩
        intro a ha
        simp only [List.map_append, List.mem_append, List.mem_map] at ha
        rcases ha with ⟨e, he, rfl⟩ | ⟨e, he, rfl⟩
        · rw [handCells_of_not_hand (hnh e he)]; exact Disj.nil_right _
        · exact cross_disj hh (i2 e he) (by intro a ha; simp at ha) (by intro a ha; simp at ha)
            (by intro a ha; simp at ha; subst ha; exact hup)
    · subst hrest
      subst hcw
      simp only [pass] at i1 i2 i3 ⊢
      refine ⟨Nat.le_refl _, ?_, ?_⟩
      · intro e he
        rcases List.mem_cons.mp he with rfl | he
        · simp [handOK]
        · have he' : e ∈ r.evs := by simpa using he
          exact handOK_of_not_hand (hnh e he')
      · simp only [List.map_cons, List.pairwise_cons, List.append_nil]
        refine ⟨?_, ?_⟩
        · intro a ha
          simp only [List.mem_map] at ha
          obtain ⟨e, he, rfl⟩ := ha
          rw [handCells_of_not_hand (hnh e he)]; exact Disj.nil_right _
        · have := pairwise_nohand_append (l₂ := []) hnh (by simp)
          simpa using this

theorem pass_nohand_nil (copyBuf : Bool) (orig : List (Item S)) (w : World C) :
    pass copyBuf orig w ([] : List (Branch σ S C)) = ([], [], w) := rfl

/-- all buffers -/
theorem passes_hands : ∀ (bl : List (List (Item S))) (act : List (Branch σ S C)) (w : World C),
    (∀ blk ∈ bl, ∀ t ∈ cellsOf blk, t.1 = upNs) →
    bl.Pairwise (fun a b => Disj (cellsOf a) (cellsOf b)) →
      w.cc ≤ (passes true bl w act).2.2.cc ∧
      HandsOK w.cc (passes true bl w act).2.2.cc bl (passes true bl w act).1 ∧
      ((passes true bl w act).1.map handCells).Pairwise Disj := by
  intro bl
  induction bl with
  | nil => intro act w _ _; simp [passes, HandsOK]
  | cons blk rest ih =>
    intro act w hup hpw
    unfold passes
    simp only
    obtain ⟨p1, p2, p3⟩ := pass_hands blk (hup blk (List.mem_cons_self ..)) act w
    rw [List.pairwise_cons] at hpw
    obtain ⟨q1, q2, q3⟩ := ih (pass true blk w act).2.1 (pass true blk w act).2.2
      (fun b hb => hup b (List.mem_cons_of_mem _ hb)) hpw.2
    refine ⟨by omega, ?_, ?_⟩
    · exact HandsOK.append (p2.mono (Nat.le_refl _) q1 (by intro a ha; simp at ha; subst ha; exact List.mem_cons_self ..))
        (q2.mono p1 (Nat.le_refl _) (fun a ha => List.mem_cons_of_mem _ ha))
    · rw [List.map_append, List.pairwise_append]
      refine ⟨p3, q3, ?_⟩
      intro a ha b hb
      simp only [List.mem_map] at ha hb
      obtain ⟨e₁, he₁, rfl⟩ := ha
      obtain ⟨e₂, he₂, rfl⟩ := hb
      exact cross_disj (p2 e₁ he₁) (q2 e₂ he₂)
        (by intro a ha b hb; simp at ha; subst ha; exact hpw.1 b hb)
        (by intro a ha; simp at ha; subst ha; exact hup _ (List.mem_cons_self ..))
        (fun a ha => hup a (List.mem_cons_of_mem _ ha))

/-! ## `Split._fill` and `Zip._fill` -/

theorem deepcopy_single (ns : Nat) (w : World C) (x : Item S) :
    (deepcopy ns w [x]).2 = [(deepcopy ns w [x]).2.headD x] := by
  have h := (deepcopy_spec ns w [x]).2.1
  cases hd : (deepcopy ns w [x]).2 with
  | nil => rw [hd] at h; simp at h
  | cons y ys =>
    rw [hd] at h
    cases ys with
    | nil => rfl
    | cons z zs => simp at h

/-- the events of filling one branch: which objects it was handed -/
theorem fillOne_hands (copied : Bool) (x : Item S) (w : World C) (b : Branch σ S C) :
    w.cc ≤ (fillOne copied x w b).2.1.cc ∧
    (copied = true → HandsOK w.cc (fillOne copied x w b).2.1.cc ([] : List (List (Item S))) (fillOne copied x w b).1) ∧
    (copied = false → (fillOne copied x w b).2.1.cc = w.cc ∧ HandsOK w.cc w.cc [[x]] (fillOne copied x w b).1) ∧
    (∀ e ∈ (fillOne copied x w b).1.drop 1, e.isHand = false) ∧
    (∃ buf c, (fillOne copied x w b).1.head? = some (Ev.hand b.id buf c)) := by
  cases copied with
  | true =>
    have hd := deepcopy_spec (copyNsOf b.id) w [x]
    have hs := deepcopy_single (copyNsOf b.id) w x
    refine ⟨by simpa [fillOne] using hd.1, ?_, by simp, ?_, ?_⟩
    · intro _ e he
      simp only [fillOne, if_true, List.mem_cons, List.not_mem_nil, or_false] at he
      rcases he with rfl | rfl
      · simp only [handOK]
        rw [← hs]
        exact hd.2.2.1
      · trivial
    · intro e he
      simp only [fillOne, List.drop_succ_cons, List.drop_zero, List.mem_cons, List.not_mem_nil, or_false] at he
      subst he; rfl
    · exact ⟨_, _, rfl⟩
  | false =>
    refine ⟨by simp [fillOne], by simp, ?_, ?_, ?_⟩
    · intro _
      refine ⟨by simp [fillOne], ?_⟩
      intro e he
      simp only [fillOne, Bool.false_eq_true, if_false, List.mem_cons, List.not_mem_nil, or_false] at he
      rcases he with rfl | rfl
      · simp [handOK]
      · trivial
    · intro e he
      simp only [fillOne, List.drop_succ_cons, List.drop_zero, List.mem_cons, List.not_mem_nil, or_false] at he
      subst he; rfl
    · exact ⟨_, _, rfl⟩

/-- a list of events whose first is a hand event and whose others are not -/
theorem pairwise_head_hand {l l₂ : List (Ev S C)} (hrest : ∀ e ∈ l.drop 1, e.isHand = false)
    (h₂ : (l₂.map handCells).Pairwise Disj)
    (hx : ∀ e ∈ l.take 1, ∀ e₂ ∈ l₂, Disj (handCells e) (handCells e₂)) :
    ((l ++ l₂).map handCells).Pairwise Disj := by
  cases l with
  | nil => simpa using h₂
  | cons e l =>
    simp only [List.drop_succ_cons, List.drop_zero] at hrest
    simp only [List.cons_append, List.map_cons, List.pairwise_cons]
    refine ⟨?_, pairwise_nohand_append hrest h₂⟩
    intro a ha
    simp only [List.map_append, List.mem_append, List.mem_map] at ha
    rcases ha with ⟨e', he', rfl⟩ | ⟨e', he', rfl⟩
    · rw [handCells_of_not_hand (hrest e' he')]; exact Disj.nil_right _
    · exact hx e (by simp) e' he'

theorem splitFill_hands (x : Item S) (hup : ∀ t ∈ x.cells, t.1 = upNs) :
    ∀ (brs : List (Branch σ S C)) (w : World C),
      w.cc ≤ (splitFill true x w brs).w.cc ∧
      HandsOK w.cc (splitFill true x w brs).w.cc [[x]] (splitFill true x w brs).evs ∧
      ((splitFill true x w brs).evs.map handCells).Pairwise Disj := by
  have hupx : ∀ a ∈ [[x]], ∀ t ∈ cellsOf a, t.1 = upNs := by
    intro a ha t ht; simp at ha; subst ha; simpa using hup t (by simpa using ht)
  intro brs
  induction brs with
  | nil => intro w; simp [splitFill, HandsOK]
  | cons b rest ih =>
    intro w
    unfold splitFill
    simp only [Bool.true_and]
    obtain ⟨f1, f2, f3, f4, _⟩ := fillOne_hands (!rest.isEmpty) x w b
    generalize hr : fillOne (!rest.isEmpty) x w b = r at f1 f2 f3 f4
    -- events of this branch alone
    have hself : HandsOK w.cc r.2.1.cc [[x]] r.1 ∧ (r.1.map handCells).Pairwise Disj := by
      refine ⟨?_, ?_⟩
      · cases hb : (!rest.isEmpty) with
        | true => exact (f2 hb).mono (Nat.le_refl _) (Nat.le_refl _) (by intro a ha; simp at ha)
        | false => exact (f3 hb).2.mono (Nat.le_refl _) f1 (fun a ha => ha)
      · have := pairwise_head_hand (l := r.1) (l₂ := []) f4 (by simp) (by intro e _ e₂ he₂; simp at he₂)
        simpa using this
    split
    · exact ⟨f1, hself.1, hself.2⟩
    · obtain ⟨i1, i2, i3⟩ := ih r.2.1
      refine ⟨by simp only; omega, HandsOK.append (hself.1.mono (Nat.le_refl _) i1 (fun a ha => ha))
        (i2.mono f1 (Nat.le_refl _) (fun a ha => ha)), ?_⟩
      apply pairwise_head_hand f4 i3
      intro e he e₂ he₂
      cases hb : (!rest.isEmpty) with
      | true =>
        exact cross_disj (f2 hb e (List.mem_of_mem_take he)) (i2 e₂ he₂) (by intro a ha; simp at ha)
          (by intro a ha; simp at ha) hupx
      | false =>
        have : rest = [] := by cases rest <;> simp_all
        subst this
        simp [splitFill] at he₂

theorem zipFill_hands (x : Item S) :
    ∀ (brs : List (Branch σ S C)) (w : World C),
      w.cc ≤ (zipFill x w brs).w.cc ∧
      HandsOK w.cc (zipFill x w brs).w.cc ([] : List (List (Item S))) (zipFill x w brs).evs ∧
      ((zipFill x w brs).evs.map handCells).Pairwise Disj := by
  intro brs
  induction brs with
  | nil => intro w; simp [zipFill, HandsOK]
  | cons b rest ih =>
    intro w
    unfold zipFill
    simp only
    obtain ⟨f1, f2, _, f4, _⟩ := fillOne_hands true x w b
    generalize hr : fillOne true x w b = r at f1 f2 f4
    have hself : (r.1.map handCells).Pairwise Disj := by
      have := pairwise_head_hand (l := r.1) (l₂ := []) f4 (by simp) (by intro e _ e₂ he₂; simp at he₂)
      simpa using this
    split
    · exact ⟨f1, f2 rfl, hself⟩
    · obtain ⟨i1, i2, i3⟩ := ih r.2.1
      refine ⟨by simp only; omega, HandsOK.append ((f2 rfl).mono (Nat.le_refl _) i1 (fun a ha => ha))
        (i2.mono f1 (Nat.le_refl _) (fun a ha => ha)), ?_⟩
      apply pairwise_head_hand f4 i3
      intro e he e₂ he₂
      exact cross_disj (f2 rfl e (List.mem_of_mem_take he)) (i2 e₂ he₂) (by intro a ha; simp at ha)
        (by intro a ha; simp at ha) (by intro a ha; simp at ha)

/-- a whole flow filled value by value; `U x` are the original buffers that filling `x` may hand out -/
theorem fillFlow_hands (fill1 : Item S → World C → List (Branch σ S C) → FillAllRes σ S C)
    (U : Item S → List (List (Item S))) (hU : ∀ x, ∀ a ∈ U x, a = [x])
    (h1 : ∀ x, (∀ t ∈ x.cells, t.1 = upNs) → ∀ brs w, w.cc ≤ (fill1 x w brs).w.cc ∧
      HandsOK w.cc (fill1 x w brs).w.cc (U x) (fill1 x w brs).evs ∧ ((fill1 x w brs).evs.map handCells).Pairwise Disj) :
    ∀ (flow : List (Item S)) (brs : List (Branch σ S C)) (w : World C),
      (∀ t ∈ cellsOf flow, t.1 = upNs) → (cellsOf flow).Nodup →
      w.cc ≤ (fillFlow fill1 w brs flow).w.cc ∧
      HandsOK w.cc (fillFlow fill1 w brs flow).w.cc (flow.flatMap U) (fillFlow fill1 w brs flow).evs ∧
      ((fillFlow fill1 w brs flow).evs.map handCells).Pairwise Disj := by
  intro flow
  induction flow with
  | nil => intro brs w _ _; simp [fillFlow, HandsOK]
  | cons x xs ih =>
    intro brs w hup hnd
    rw [cellsOf_cons, List.nodup_append] at hnd
    have hupx : ∀ t ∈ x.cells, t.1 = upNs := fun t ht => hup t (by rw [cellsOf_cons]; exact List.mem_append_left _ ht)
    have hupxs : ∀ t ∈ cellsOf xs, t.1 = upNs := fun t ht => hup t (by rw [cellsOf_cons]; exact List.mem_append_right _ ht)
    obtain ⟨a1, a2, a3⟩ := h1 x hupx brs w
    unfold fillFlow
    simp only
    split
    · exact ⟨a1, a2.mono (Nat.le_refl _) (Nat.le_refl _) (by intro a ha; simp; exact Or.inl ha), a3⟩
    · obtain ⟨b1, b2, b3⟩ := ih (fill1 x w brs).brs (fill1 x w brs).w hupxs hnd.2.1
      refine ⟨by simp only; omega, HandsOK.append
        (a2.mono (Nat.le_refl _) b1 (by intro a ha; simp; exact Or.inl ha))
        (b2.mono a1 (Nat.le_refl _) (by intro a ha; simp; exact Or.inr (by simpa using ha))), ?_⟩
      rw [List.map_append, List.pairwise_append]
      refine ⟨a3, b3, ?_⟩
      intro a ha b hb
      simp only [List.mem_map] at ha hb
      obtain ⟨e₁, he₁, rfl⟩ := ha
      obtain ⟨e₂, he₂, rfl⟩ := hb
      refine cross_disj (a2 e₁ he₁) (b2 e₂ he₂) ?_ ?_ ?_
      · intro a ha b hb t ht ht'
        have := hU x a ha; subst this
        simp only [List.mem_flatMap] at hb
        obtain ⟨y, hy, hb⟩ := hb
        have := hU y b hb; subst this
        simp at ht ht'
        exact hnd.2.2 t ht t (by simp only [cellsOf, List.mem_flatMap]; exact ⟨y, hy, ht'⟩) rfl
      · intro a ha t ht
        have := hU x a ha; subst this
        simp at ht; exact hupx t ht
      · intro a ha t ht
        simp only [List.mem_flatMap] at ha
        obtain ⟨y, hy, ha⟩ := ha
        have := hU y a ha; subst this
        simp at ht
        exact hupxs t (by simp only [cellsOf, List.mem_flatMap]; exact ⟨y, hy, ht⟩)

/-! ## blocks of an alias-free flow are alias-free -/

theorem readBlock_append (bs : Option Nat) (flow : List (Item S)) :
    (readBlock bs flow).1 ++ (readBlock bs flow).2 = flow := by
  cases bs <;> simp [readBlock]

theorem blocks_cells : ∀ (n : Nat) (bs : Option Nat) (_ : bs ≠ some 0) (flow : List (Item S)), flow.length ≤ n →
    (cellsOf flow).Nodup →
      (∀ blk ∈ blocks bs flow, ∀ t ∈ cellsOf blk, t ∈ cellsOf flow) ∧
      (blocks bs flow).Pairwise (fun a b => Disj (cellsOf a) (cellsOf b)) := by
  intro n
  induction n with
  | zero =>
    intro bs _ flow h _
    have : flow = [] := by cases flow <;> simp_all
    subst this
    simp
  | succ n ih =>
    intro bs hbs flow h hnd
    by_cases hne : flow = []
    · subst hne; simp
    · obtain ⟨_, h2⟩ := Lena.C03.blocks_readBlock bs hbs flow hne
      have hlen := Lena.C03.readBlock_length bs hbs flow hne
      have happ := readBlock_append bs flow
      rw [h2]
      have hc : cellsOf flow = cellsOf (readBlock bs flow).1 ++ cellsOf (readBlock bs flow).2 := by
        rw [← cellsOf_append, happ]
      rw [hc, List.nodup_append] at hnd
      obtain ⟨r1, r2⟩ := ih bs hbs (readBlock bs flow).2 (by omega) hnd.2.1
      refine ⟨?_, ?_⟩
      · intro blk hblk t ht
        rw [hc]
        rcases List.mem_cons.mp hblk with rfl | hblk
        · exact List.mem_append_left _ ht
        · exact List.mem_append_right _ (r1 blk hblk t ht)
      · rw [List.pairwise_cons]
        refine ⟨?_, r2⟩
        intro blk hblk t ht ht'
        exact hnd.2.2 t ht t (r1 blk hblk t ht') rfl

/-! ## accumulators allocate what they yield -/

/-! ## histories of one accumulator -/

theorem runHist_ctr_ge (ops : Ops σ S C) (ns : Nat) (ctr : σ → Nat) (hF : FreshYield ops ns ctr) :
    ∀ (h : List (HOp σ S C)) (st : Store C) (s : σ), (∀ g, HOp.upd g ∈ h → ∀ s, ctr s ≤ ctr (g s)) →
      ∀ e ∈ runHist ops ctr st s h, ctr s ≤ e.ctr := by
  intro h
  induction h with
  | nil => intro st s _ e he; simp [runHist] at he
  | cons op h ih =>
    intro st s hg e he
    have hg' : ∀ g, HOp.upd g ∈ h → ∀ s, ctr s ≤ ctr (g s) := fun g hm => hg g (List.mem_cons_of_mem _ hm)
    cases op with
    | ext f => exact ih _ _ hg' e he
    | upd g => exact Nat.le_trans (hg g (List.mem_cons_self ..) s) (ih _ _ hg' e he)
    | req r =>
      simp only [runHist, List.mem_cons] at he
      rcases he with rfl | he
      · exact Nat.le_refl _
      · exact Nat.le_trans (hF.mono st s r) (ih _ _ hg' e he)

theorem acc_yield_fresh_aux (ops : Ops σ S C) (ns : Nat) (ctr : σ → Nat) (hF : FreshYield ops ns ctr) :
    ∀ (h : List (HOp σ S C)) (st : Store C) (s : σ),
      (∀ r, HOp.req r ∈ h → r.isAcc = true) →
      (∀ g, HOp.upd g ∈ h → ∀ s, ctr s ≤ ctr (g s)) →
      (∀ e ∈ runHist ops ctr st s h, ∀ t ∈ e.req.cells, t.1 = ns → t.2 < e.ctr) →
      ∀ pre e post, runHist ops ctr st s h = pre ++ e :: post →
        (cellsOf e.resp.outs).Nodup ∧
        (∀ t ∈ cellsOf e.resp.outs, t.1 = ns ∧ e.ctr ≤ t.2) ∧
        ∀ t ∈ cellsOf e.resp.outs, ∀ e' ∈ pre, t ∉ e'.req.cells ∧ t ∉ cellsOf e'.resp.outs := by
  intro h
  induction h with
  | nil => intro st s _ _ _ pre e post heq; simp [runHist] at heq
  | cons op h ih =>
    intro st s hacc hg hin pre e post heq
    have hg' : ∀ g, HOp.upd g ∈ h → ∀ s, ctr s ≤ ctr (g s) := fun g hm => hg g (List.mem_cons_of_mem _ hm)
    cases op with
    | ext f =>
      exact ih (f st) s (fun r hr => hacc r (List.mem_cons_of_mem _ hr)) hg' hin pre e post heq
    | upd g =>
      exact ih st (g s) (fun r hr => hacc r (List.mem_cons_of_mem _ hr)) hg' hin pre e post heq
    | req r =>
      have hr : r.isAcc = true := hacc r (List.mem_cons_self ..)
      simp only [runHist] at heq hin
      cases pre with
      | nil =>
        simp only [List.nil_append, List.cons.injEq] at heq
        obtain ⟨rfl, _⟩ := heq
        refine ⟨hF.nodup st s r hr, ?_, by intro t _ e' he'; simp at he'⟩
        intro t ht
        have := hF.fresh st s r hr t ht
        exact ⟨this.1, this.2.1⟩
      | cons e0 pre' =>
        simp only [List.cons_append, List.cons.injEq] at heq
        obtain ⟨he0, heq⟩ := heq
        obtain ⟨i1, i2, i3⟩ := ih (ops.act st s r).1 (ops.act st s r).2.1
          (fun r hr => hacc r (List.mem_cons_of_mem _ hr)) hg'
          (fun e he => hin e (List.mem_cons_of_mem _ he)) pre' e post heq
        refine ⟨i1, i2, ?_⟩
        intro t ht e' he'
        rcases List.mem_cons.mp he' with rfl | he'
        · -- the first event: everything it mentions existed before `e` allocated
          have hge : ctr (ops.act st s r).2.1 ≤ e.ctr :=
            runHist_ctr_ge ops ns ctr hF h _ _ hg' e (by rw [heq]; simp)
          obtain ⟨t1, t2⟩ := i2 t ht
          subst he0
          refine ⟨fun hmem => ?_, fun hmem => ?_⟩
          · have := hin _ (List.mem_cons_self ..) t hmem t1
            simp only at this
            have := hF.mono st s r
            omega
          · have := (hF.fresh st s r hr t hmem).2.2
            omega
        · exact i3 t ht e' he'


end Lena.C04
