import LenaModel.Model.C04
import LenaModel.Lemmas.C03
/-! # C04 — lemmas: `copy.deepcopy` allocates fresh objects with the same contents; the loops of
`Split.run` are folds (`pass`, `passes`) -/

namespace Lena.C04

open Lena.C03 (Kind readBlock blocks)

variable {σ S C : Type}

/-! ## heap -/

@[simp] theorem Store.set_self (st : Store C) (t : Tok) (c : C) : (st.set t c) t = c := by
  simp [Store.set]

theorem Store.set_ne (st : Store C) {t u : Tok} (c : C) (h : u ≠ t) : (st.set t c) u = st u := by
  simp [Store.set, h]

@[simp] theorem cellsOf_nil : cellsOf ([] : List (Item S)) = [] := rfl
@[simp] theorem cellsOf_cons (x : Item S) (xs : List (Item S)) : cellsOf (x :: xs) = x.cells ++ cellsOf xs := by
  simp [cellsOf]
theorem cellsOf_append (xs ys : List (Item S)) : cellsOf (xs ++ ys) = cellsOf xs ++ cellsOf ys := by
  simp [cellsOf]

/-! ## `copy.deepcopy` -/

/-- the objects allocated by a copy that started at counter `lo` and is now at `hi` -/
def InRange (ns lo hi : Nat) (t : Tok) : Prop := t.1 = ns ∧ lo ≤ t.2 ∧ t.2 < hi

/-- every copy recorded in the memo was allocated by this call -/
def MemoIn (ns lo : Nat) (c : CopySt C) : Prop := ∀ p ∈ c.memo, InRange ns lo c.ctr p.2

theorem lookup_mem {m : List (Tok × Tok)} {t t' : Tok} (h : m.lookup t = some t') : (t, t') ∈ m := by
  induction m with
  | nil => simp at h
  | cons p m ih =>
    obtain ⟨k, v⟩ := p
    rw [List.lookup_cons] at h
    split at h
    · rename_i heq
      have : t = k := by simpa using heq
      simp_all
    · exact List.mem_cons_of_mem _ (ih h)

theorem copyCells_spec (ns lo : Nat) : ∀ (ts : List Tok) (c : CopySt C), lo ≤ c.ctr → MemoIn ns lo c →
    c.ctr ≤ (copyCells ns c ts).1.ctr ∧ MemoIn ns lo (copyCells ns c ts).1 ∧
    (copyCells ns c ts).2.length = ts.length ∧
    (∀ t ∈ (copyCells ns c ts).2, InRange ns lo (copyCells ns c ts).1.ctr t) ∧
    (∀ u, ¬ InRange ns c.ctr (copyCells ns c ts).1.ctr u → (copyCells ns c ts).1.st u = c.st u) := by
  intro ts
  induction ts with
  | nil => intro c _ hm; simp [copyCells]; exact hm
  | cons t ts ih =>
    intro c hlo hm
    unfold copyCells
    cases hl : c.memo.lookup t with
    | some t' =>
      simp only
      obtain ⟨h1, h2, h3, h4, h5⟩ := ih c hlo hm
      refine ⟨h1, h2, by simp [h3], ?_, h5⟩
      intro u hu
      rcases List.mem_cons.mp hu with rfl | hu
      · have := hm _ (lookup_mem hl)
        exact ⟨this.1, this.2.1, by have := this.2.2; simp at this; omega⟩
      · exact h4 u hu
    | none =>
      simp only
      have hm' : MemoIn ns lo ({ st := c.st.set (ns, c.ctr) (c.st t), ctr := c.ctr + 1, memo := (t, (ns, c.ctr)) :: c.memo } : CopySt C) := by
        intro p hp
        rcases List.mem_cons.mp hp with rfl | hp
        · exact ⟨rfl, hlo, by simp⟩
        · have := hm p hp
          exact ⟨this.1, this.2.1, by have := this.2.2; simp; omega⟩
      obtain ⟨h1, h2, h3, h4, h5⟩ := ih _ (by simp; omega) hm'
      simp only at h1 h2 h3 h4 h5
      refine ⟨by omega, h2, by simp [h3], ?_, ?_⟩
      · intro u hu
        rcases List.mem_cons.mp hu with rfl | hu
        · exact ⟨rfl, hlo, by omega⟩
        · exact h4 u hu
      · intro u hu
        rw [h5 u (by intro h; obtain ⟨g1, g2, g3⟩ := h; simp only at g2; exact hu ⟨g1, by omega, g3⟩)]
        apply Store.set_ne
        intro heq
        exact hu ⟨by simp [heq], by simp [heq], by simp [heq]; omega⟩

theorem copyItems_spec (ns lo : Nat) : ∀ (xs : List (Item S)) (c : CopySt C), lo ≤ c.ctr → MemoIn ns lo c →
    c.ctr ≤ (copyItems ns c xs).1.ctr ∧ MemoIn ns lo (copyItems ns c xs).1 ∧
    (copyItems ns c xs).2.map (·.skel) = xs.map (·.skel) ∧
    (∀ t ∈ cellsOf (copyItems ns c xs).2, InRange ns lo (copyItems ns c xs).1.ctr t) ∧
    (∀ u, ¬ InRange ns c.ctr (copyItems ns c xs).1.ctr u → (copyItems ns c xs).1.st u = c.st u) := by
  intro xs
  induction xs with
  | nil => intro c _ hm; simp [copyItems]; exact hm
  | cons x xs ih =>
    intro c hlo hm
    unfold copyItems
    simp only
    obtain ⟨a1, a2, _, a4, a5⟩ := copyCells_spec ns lo x.cells c hlo hm
    obtain ⟨b1, b2, b3, b4, b5⟩ := ih (copyCells ns c x.cells).1 (by omega) a2
    refine ⟨by omega, b2, by simp [b3], ?_, ?_⟩
    · intro t ht
      rw [cellsOf_cons] at ht
      rcases List.mem_append.mp ht with ht | ht
      · obtain ⟨g1, g2, g3⟩ := a4 t ht
        exact ⟨g1, g2, by omega⟩
      · exact b4 t ht
    · intro u hu
      rw [b5 u (by intro h; obtain ⟨g1, g2, g3⟩ := h; exact hu ⟨g1, by omega, g3⟩)]
      exact a5 u (by intro h; obtain ⟨g1, g2, g3⟩ := h; exact hu ⟨g1, g2, by omega⟩)

/-- `copy.deepcopy(buf)`: the counter grows, the skeletons are kept, every object of the copy is new
(allocated by this call), and no existing object changes -/
theorem deepcopy_spec (w : World C) (buf : List (Item S)) :
    w.cc ≤ (deepcopy w buf).1.cc ∧
    (deepcopy w buf).2.map (·.skel) = buf.map (·.skel) ∧
    (∀ t ∈ cellsOf (deepcopy w buf).2, InRange copyNs w.cc (deepcopy w buf).1.cc t) ∧
    (∀ u, ¬ InRange copyNs w.cc (deepcopy w buf).1.cc u → (deepcopy w buf).1.st u = w.st u) := by
  have h := copyItems_spec (S := S) copyNs w.cc buf { st := w.st, ctr := w.cc, memo := [] } (Nat.le_refl _)
    (by intro p hp; simp at hp)
  exact ⟨h.1, h.2.2.1, h.2.2.2.1, h.2.2.2.2⟩

end Lena.C04
