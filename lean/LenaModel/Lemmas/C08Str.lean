import LenaModel.Model.C08
import LenaModel.Lemmas.C08
/-! # C08 — lemmas about `to_string`: the sorted encoder equals the plain encoder of the canonical form,
the plain encoder is injective, and the canonical forms of two dictionaries coincide exactly when the
dictionaries are equal in the sense of Python (same keys, equal values, whatever the order) -/
namespace Lena.C08

/-! ## equality of dictionaries as Python sees it -/

/-- Python's `==` on contexts, type-strict on scalars: two dictionaries are equal when they have the same
keys and equal values under every key — whatever the insertion order; two lists are equal when they have
the same length and equal elements at every position -/
inductive DictEq : Val → Val → Prop where
  | leaf (a : Leaf) : DictEq (.leaf a) (.leaf a)
  | dict (ea eb : Entries) :
      (∀ k, (lookup ea k).isSome = (lookup eb k).isSome) →
      (∀ k v w, lookup ea k = some v → lookup eb k = some w → DictEq v w) →
      DictEq (.dict ea) (.dict eb)
  | list (xa xb : List Val) :
      xa.length = xb.length →
      (∀ (i : Nat) v w, xa[i]? = some v → xb[i]? = some w → DictEq v w) →
      DictEq (.list xa) (.list xb)

/-! ## canonical form: every dictionary sorted by key -/

def insertE (k : String) (v : Val) : Entries → Entries
  | [] => [(k, v)]
  | (k', v') :: r => if k ≤ k' then (k, v) :: (k', v') :: r else (k', v') :: insertE k v r

mutual
def canon : Val → Val
  | .leaf a => .leaf a
  | .dict es => .dict (canonEs es)
  | .list xs => .list (canonL xs)
def canonEs : Entries → Entries
  | [] => []
  | (k, v) :: r => insertE k (canon v) (canonEs r)
def canonL : List Val → List Val
  | [] => []
  | v :: r => canon v :: canonL r
end

/-! the encoder without sorting -/
mutual
def rawTokens : Val → List Tok
  | .leaf a => [.scalar a]
  | .dict es => .lbrace :: (rawEs es ++ [.rbrace])
  | .list xs => .lbrack :: (rawL xs ++ [.rbrack])
def rawEs : Entries → List Tok
  | [] => []
  | (k, v) :: r =>
    match r with
    | [] => .key k :: .colon :: rawTokens v
    | _ :: _ => .key k :: .colon :: (rawTokens v ++ .comma :: rawEs r)
def rawL : List Val → List Tok
  | [] => []
  | v :: r =>
    match r with
    | [] => rawTokens v
    | _ :: _ => rawTokens v ++ .comma :: rawL r
end

/-- the rendered items of a dictionary, unsorted, with the plain encoder -/
def itemsRaw : Entries → List (String × List Tok)
  | [] => []
  | (k, v) :: r => (k, rawTokens v) :: itemsRaw r

theorem joinItems_itemsRaw : ∀ es : Entries, joinItems (itemsRaw es) = rawEs es
  | [] => by simp [itemsRaw, joinItems, rawEs]
  | [(k, v)] => by simp [itemsRaw, joinItems, rawEs]
  | (k, v) :: e :: r => by
    have ih := joinItems_itemsRaw (e :: r)
    obtain ⟨k', v'⟩ := e
    simp only [itemsRaw] at ih ⊢
    simp only [joinItems, rawEs]
    rw [ih]
    simp [rawEs]

theorem insertItem_itemsRaw (k : String) (v : Val) : ∀ l : Entries,
    insertItem k (rawTokens v) (itemsRaw l) = itemsRaw (insertE k v l)
  | [] => by simp [itemsRaw, insertItem, insertE]
  | (k', v') :: r => by
    simp only [itemsRaw, insertItem, insertE]
    split
    · simp [itemsRaw]
    · simp [itemsRaw, insertItem_itemsRaw k v r]

/-! the sorted encoder is the plain encoder of the canonical form -/
mutual
theorem toTokens_eq_raw : ∀ v : Val, toTokens v = rawTokens (canon v)
  | .leaf a => by simp [toTokens, canon, rawTokens]
  | .dict es => by
    simp only [toTokens, canon, rawTokens]
    rw [sortItems_eq_raw es, joinItems_itemsRaw]
    simp
  | .list xs => by
    simp only [toTokens, canon, rawTokens]
    rw [elemTokens_eq_raw xs]
theorem sortItems_eq_raw : ∀ es : Entries, sortItems (itemTokens es) = itemsRaw (canonEs es)
  | [] => by simp [itemTokens, sortItems, canonEs, itemsRaw]
  | (k, v) :: r => by
    simp only [itemTokens, sortItems, canonEs]
    rw [sortItems_eq_raw r, toTokens_eq_raw v, insertItem_itemsRaw]
theorem elemTokens_eq_raw : ∀ xs : List Val, elemTokens xs = rawL (canonL xs)
  | [] => by simp [elemTokens, canonL, rawL]
  | [v] => by simp [elemTokens, canonL, rawL, toTokens_eq_raw v]
  | v :: w :: r => by
    have ih := elemTokens_eq_raw (w :: r)
    show toTokens v ++ Tok.comma :: elemTokens (w :: r) =
      rawTokens (canon v) ++ Tok.comma :: rawL (canonL (w :: r))
    rw [toTokens_eq_raw v, ih]
end

/-! ## the plain encoder is injective (the token structure is unambiguous) -/
mutual
theorem rawTokens_inj : ∀ (a b : Val) (r1 r2 : List Tok),
    rawTokens a ++ r1 = rawTokens b ++ r2 → a = b ∧ r1 = r2
  | .leaf x, .leaf y, r1, r2, h => by
    simp only [rawTokens, List.cons_append, List.nil_append, List.cons.injEq, Tok.scalar.injEq] at h
    exact ⟨by rw [h.1], h.2⟩
  | .leaf x, .dict eb, r1, r2, h => by simp [rawTokens] at h
  | .leaf x, .list xb, r1, r2, h => by simp [rawTokens] at h
  | .dict ea, .leaf y, r1, r2, h => by simp [rawTokens] at h
  | .dict ea, .list xb, r1, r2, h => by simp [rawTokens] at h
  | .list xa, .leaf y, r1, r2, h => by simp [rawTokens] at h
  | .list xa, .dict eb, r1, r2, h => by simp [rawTokens] at h
  | .dict ea, .dict eb, r1, r2, h => by
    simp only [rawTokens, List.cons_append, List.append_assoc, List.cons.injEq, true_and] at h
    have := rawEs_inj ea eb r1 r2 (by simpa using h)
    exact ⟨by rw [this.1], this.2⟩
  | .list xa, .list xb, r1, r2, h => by
    simp only [rawTokens, List.cons_append, List.append_assoc, List.cons.injEq, true_and] at h
    have := rawL_inj xa xb r1 r2 (by simpa using h)
    exact ⟨by rw [this.1], this.2⟩
theorem rawEs_inj : ∀ (ea eb : Entries) (r1 r2 : List Tok),
    rawEs ea ++ .rbrace :: r1 = rawEs eb ++ .rbrace :: r2 → ea = eb ∧ r1 = r2
  | [], [], r1, r2, h => by simpa [rawEs] using h
  | [], (k, v) :: r, r1, r2, h => by
    cases r <;> simp [rawEs] at h
  | (k, v) :: r, [], r1, r2, h => by
    cases r <;> simp [rawEs] at h
  | (k, v) :: r, (k', v') :: r', r1, r2, h => by
    cases r with
    | nil =>
      cases r' with
      | nil =>
        simp only [rawEs, List.cons_append, List.cons.injEq, Tok.key.injEq, true_and] at h
        have := rawTokens_inj v v' _ _ h.2
        simp only [List.cons.injEq, true_and] at this
        exact ⟨by rw [h.1, this.1], this.2⟩
      | cons e' t' =>
        simp only [rawEs, List.cons_append, List.append_assoc, List.cons.injEq, Tok.key.injEq, true_and] at h
        have := rawTokens_inj v v' _ _ h.2
        simp at this
    | cons e t =>
      cases r' with
      | nil =>
        simp only [rawEs, List.cons_append, List.append_assoc, List.cons.injEq, Tok.key.injEq, true_and] at h
        have := rawTokens_inj v v' _ _ h.2
        simp at this
      | cons e' t' =>
        simp only [rawEs, List.cons_append, List.append_assoc, List.cons.injEq, Tok.key.injEq, true_and] at h
        have h1 := rawTokens_inj v v' _ _ h.2
        simp only [List.cons.injEq, true_and] at h1
        have h2 := rawEs_inj (e :: t) (e' :: t') r1 r2 h1.2
        exact ⟨by rw [h.1, h1.1, h2.1], h2.2⟩
theorem rawL_inj : ∀ (xa xb : List Val) (r1 r2 : List Tok),
    rawL xa ++ .rbrack :: r1 = rawL xb ++ .rbrack :: r2 → xa = xb ∧ r1 = r2
  | [], [], r1, r2, h => by simpa [rawL] using h
  | [], v :: r, r1, r2, h => by
    exfalso
    cases v <;> cases r <;> simp [rawL, rawTokens] at h
  | v :: r, [], r1, r2, h => by
    exfalso
    cases v <;> cases r <;> simp [rawL, rawTokens] at h
  | v :: r, v' :: r', r1, r2, h => by
    cases r with
    | nil =>
      cases r' with
      | nil =>
        simp only [rawL] at h
        have := rawTokens_inj v v' _ _ h
        simp only [List.cons.injEq, true_and] at this
        exact ⟨by rw [this.1], this.2⟩
      | cons e' t' =>
        simp only [rawL, List.append_assoc] at h
        have := rawTokens_inj v v' _ _ h
        simp at this
    | cons e t =>
      cases r' with
      | nil =>
        simp only [rawL, List.append_assoc] at h
        have := rawTokens_inj v v' _ _ h
        simp at this
      | cons e' t' =>
        simp only [rawL, List.append_assoc, List.cons_append] at h
        have h1 := rawTokens_inj v v' _ _ h
        simp only [List.cons.injEq, true_and] at h1
        have h2 := rawL_inj (e :: t) (e' :: t') r1 r2 h1.2
        exact ⟨by rw [h1.1, h2.1], h2.2⟩
end

theorem rawTokens_injective (a b : Val) (h : rawTokens a = rawTokens b) : a = b := by
  have := rawTokens_inj a b [] [] (by simpa using h)
  exact this.1

/-! ## lookups in the canonical form -/

theorem lookup_insertE (k : String) (v : Val) : ∀ (l : Entries) (k' : String),
    lookup (insertE k v l) k' = if k = k' then some v else lookup l k'
  | [], k' => by simp [insertE, lookup]
  | (k0, v0) :: r, k' => by
    simp only [insertE]
    split
    · simp [lookup]
    · rename_i hle
      have hne : k0 ≠ k := fun e => hle (by rw [e]; exact String.le_refl k)
      simp only [lookup, lookup_insertE k v r k']
      by_cases h1 : k0 = k'
      · have : k ≠ k' := fun e => hne (by rw [e, h1])
        simp [h1, this]
      · simp [h1]

theorem lookup_canonEs : ∀ (es : Entries) (k : String), lookup (canonEs es) k = (lookup es k).map canon
  | [], k => by simp [canonEs]
  | (k0, v0) :: r, k => by
    simp only [canonEs, lookup_insertE, lookup, lookup_canonEs r k]
    split <;> simp

/-! ## sortedness and extensionality -/

/-- strictly increasing keys -/
def SortedKeys : Entries → Prop
  | [] => True
  | (k, _) :: r => (∀ e ∈ r, k < e.1) ∧ SortedKeys r

theorem mem_insertE (k : String) (v : Val) : ∀ (l : Entries) (e : String × Val),
    e ∈ insertE k v l ↔ e = (k, v) ∨ e ∈ l
  | [], e => by simp [insertE]
  | (k0, v0) :: r, e => by
    simp only [insertE]
    split
    · simp
    · simp only [List.mem_cons, mem_insertE k v r e]
      constructor
      · rintro (h | h | h)
        · exact Or.inr (Or.inl h)
        · exact Or.inl h
        · exact Or.inr (Or.inr h)
      · rintro (h | h | h)
        · exact Or.inr (Or.inl h)
        · exact Or.inl h
        · exact Or.inr (Or.inr h)

theorem lookup_none_of_lt : ∀ (l : Entries) (k : String), (∀ e ∈ l, k < e.1) → lookup l k = none
  | [], _, _ => rfl
  | (k0, v0) :: r, k, h => by
    have h0 : k < k0 := h (k0, v0) (by simp)
    have : k0 ≠ k := fun e => String.ne_of_lt h0 e.symm
    simp only [lookup, this, if_false]
    exact lookup_none_of_lt r k (fun e he => h e (by simp [he]))

theorem mem_of_lookup : ∀ (l : Entries) (k : String) (v : Val), lookup l k = some v → (k, v) ∈ l
  | [], _, _, h => by simp at h
  | (k0, v0) :: r, k, v, h => by
    rw [lookup_cons] at h
    by_cases hk : k0 = k
    · simp [hk] at h; subst h; simp [hk]
    · simp [hk] at h; exact List.mem_cons_of_mem _ (mem_of_lookup r k v h)

theorem lookup_isSome_of_mem : ∀ (l : Entries) (k : String) (v : Val), (k, v) ∈ l → (lookup l k).isSome = true
  | [], _, _, h => by simp at h
  | (k0, v0) :: r, k, v, h => by
    rw [lookup_cons]
    by_cases hk : k0 = k
    · simp [hk]
    · simp only [hk, if_false]
      simp only [List.mem_cons, Prod.mk.injEq] at h
      rcases h with h | h
      · exact absurd h.1.symm hk
      · exact lookup_isSome_of_mem r k v h

theorem sorted_insertE (k : String) (v : Val) : ∀ (l : Entries), SortedKeys l → lookup l k = none →
    SortedKeys (insertE k v l)
  | [], _, _ => by simp [insertE, SortedKeys]
  | (k0, v0) :: r, hs, hl => by
    simp only [SortedKeys] at hs
    rw [lookup_cons] at hl
    have hne : k0 ≠ k := fun e => by simp [e] at hl
    simp only [hne, if_false] at hl
    simp only [insertE]
    split
    · rename_i hle
      have hlt : k < k0 := Std.lt_of_le_of_ne hle (Ne.symm hne)
      refine ⟨?_, hs.1, hs.2⟩
      intro e he
      simp only [List.mem_cons] at he
      rcases he with he | he
      · rw [he]; exact hlt
      · exact String.lt_trans hlt (hs.1 e he)
    · rename_i hle
      have hlt : k0 < k := String.not_le.mp hle
      refine ⟨?_, sorted_insertE k v r hs.2 hl⟩
      intro e he
      rcases (mem_insertE k v r e).1 he with he | he
      · rw [he]; exact hlt
      · exact hs.1 e he

theorem lookup_wf_val : ∀ (d : Entries) (k : String) (v : Val), EntriesWF d → lookup d k = some v → v.WF
  | [], _, _, _, h => by simp at h
  | (k0, v0) :: r, k, v, hw, h => by
    simp only [EntriesWF] at hw
    rw [lookup_cons] at h
    by_cases hk : k0 = k
    · simp [hk] at h; subst h; exact hw.2.1
    · simp [hk] at h; exact lookup_wf_val r k v hw.2.2 h

theorem sorted_canonEs : ∀ (es : Entries), EntriesWF es → SortedKeys (canonEs es)
  | [], _ => trivial
  | (k, v) :: r, hw => by
    simp only [EntriesWF] at hw
    simp only [canonEs]
    apply sorted_insertE _ _ _ (sorted_canonEs r hw.2.2)
    rw [lookup_canonEs, hw.1]; rfl

/-- two dictionaries with strictly increasing keys and the same lookups are the same list -/
theorem sorted_ext : ∀ (l1 l2 : Entries), SortedKeys l1 → SortedKeys l2 → (∀ k, lookup l1 k = lookup l2 k) → l1 = l2
  | [], [], _, _, _ => rfl
  | [], (k2, v2) :: r2, _, _, h => by
    have := h k2; simp [lookup] at this
  | (k1, v1) :: r1, [], _, _, h => by
    have := h k1; simp [lookup] at this
  | (k1, v1) :: r1, (k2, v2) :: r2, s1, s2, h => by
    simp only [SortedKeys] at s1 s2
    have hk : k1 = k2 := by
      rcases Std.lt_trichotomy k1 k2 with hlt | heq | hgt
      · exfalso
        have h1 := h k1
        have hne : k2 ≠ k1 := fun e => String.ne_of_lt hlt e.symm
        simp only [lookup, if_true, hne, if_false] at h1
        rw [lookup_none_of_lt r2 k1 (fun e he => String.lt_trans hlt (s2.1 e he))] at h1
        simp at h1
      · exact heq
      · exfalso
        have h1 := h k2
        have hne : k1 ≠ k2 := fun e => String.ne_of_lt hgt e.symm
        simp only [lookup, if_true, hne, if_false] at h1
        rw [lookup_none_of_lt r1 k2 (fun e he => String.lt_trans hgt (s1.1 e he))] at h1
        simp at h1
    subst hk
    have hv : v1 = v2 := by
      have := h k1; simpa [lookup] using this
    subst hv
    have hr : r1 = r2 := by
      apply sorted_ext r1 r2 s1.2 s2.2
      intro k
      by_cases hkk : k1 = k
      · subst hkk
        rw [lookup_none_of_lt r1 k1 s1.1, lookup_none_of_lt r2 k1 s2.1]
      · have := h k
        simpa [lookup, hkk] using this
    rw [hr]

/-! ## equal canonical forms ⇔ equal dictionaries -/

theorem canonL_eq_map : ∀ xs : List Val, canonL xs = xs.map canon
  | [] => by simp [canonL]
  | v :: r => by simp [canonL, canonL_eq_map r]

theorem getElem_wf : ∀ (xs : List Val) (i : Nat) (v : Val), ListWF xs → xs[i]? = some v → v.WF
  | [], i, v, _, h => by simp at h
  | x :: r, 0, v, hw, h => by
    simp only [ListWF] at hw
    simp at h; subst h; exact hw.1
  | x :: r, i + 1, v, hw, h => by
    simp only [ListWF] at hw
    simp at h
    exact getElem_wf r i v hw.2 h

/-- equal dictionaries have the same canonical form -/
theorem canon_eq_of_dictEq (a b : Val) (h : DictEq a b) : a.WF → b.WF → canon a = canon b := by
  induction h with
  | leaf a => intro _ _; rfl
  | dict ea eb hkeys _ ih =>
    intro wa wb
    simp only [Val.WF] at wa wb
    simp only [canon]
    congr 1
    apply sorted_ext _ _ (sorted_canonEs ea wa) (sorted_canonEs eb wb)
    intro k
    rw [lookup_canonEs, lookup_canonEs]
    have hk := hkeys k
    cases h1 : lookup ea k with
    | none =>
      rw [h1] at hk
      cases h2 : lookup eb k with
      | none => rfl
      | some w => rw [h2] at hk; simp at hk
    | some v =>
      rw [h1] at hk
      cases h2 : lookup eb k with
      | none => rw [h2] at hk; simp at hk
      | some w =>
        simp only [Option.map_some]
        rw [ih k v w h1 h2 (lookup_wf_val ea k v wa h1) (lookup_wf_val eb k w wb h2)]
  | list xa xb hlen _ ih =>
    intro wa wb
    simp only [Val.WF] at wa wb
    simp only [canon, canonL_eq_map]
    congr 1
    apply List.ext_getElem?
    intro i
    simp only [List.getElem?_map]
    cases h1 : xa[i]? with
    | none =>
      have : xb[i]? = none := by
        rw [List.getElem?_eq_none_iff] at h1 ⊢; omega
      rw [this]
    | some v =>
      cases h2 : xb[i]? with
      | none =>
        exfalso
        rw [List.getElem?_eq_none_iff] at h2
        have := (List.getElem?_eq_some_iff.1 h1).1
        omega
      | some w =>
        simp only [Option.map_some]
        rw [ih i v w h1 h2 (getElem_wf xa i v wa h1) (getElem_wf xb i w wb h2)]

mutual
/-- dictionaries with the same canonical form are equal -/
theorem dictEq_of_canon_eq : ∀ (a b : Val), canon a = canon b → DictEq a b
  | .leaf x, .leaf y, h => by
    simp only [canon, Val.leaf.injEq] at h
    rw [h]; exact .leaf y
  | .leaf x, .dict eb, h => by simp [canon] at h
  | .leaf x, .list xb, h => by simp [canon] at h
  | .dict ea, .leaf y, h => by simp [canon] at h
  | .dict ea, .list xb, h => by simp [canon] at h
  | .list xa, .leaf y, h => by simp [canon] at h
  | .list xa, .dict eb, h => by simp [canon] at h
  | .list xa, .list xb, h => by
    simp only [canon, Val.list.injEq, canonL_eq_map] at h
    have hlen : xa.length = xb.length := by
      have := congrArg List.length h
      simpa using this
    refine .list xa xb hlen ?_
    intro i v w h1 h2
    have := congrArg (fun l => l[i]?) h
    simp only [List.getElem?_map, h1, h2, Option.map_some, Option.some.injEq] at this
    exact dictEq_of_getElem xa i v h1 w this
  | .dict ea, .dict eb, h => by
    simp only [canon, Val.dict.injEq] at h
    have hl : ∀ k, (lookup ea k).map canon = (lookup eb k).map canon := by
      intro k; rw [← lookup_canonEs, ← lookup_canonEs, h]
    refine .dict ea eb ?_ ?_
    · intro k
      have := congrArg Option.isSome (hl k)
      simpa using this
    · intro k v w h1 h2
      have := hl k
      rw [h1, h2] at this
      simp only [Option.map_some, Option.some.injEq] at this
      exact dictEq_of_lookup ea k v h1 w this
theorem dictEq_of_lookup : ∀ (ea : Entries) (k : String) (v : Val), lookup ea k = some v →
    ∀ w, canon v = canon w → DictEq v w
  | [], _, _, h, _, _ => by simp at h
  | (k0, v0) :: r, k, v, h, w, hc => by
    rw [lookup_cons] at h
    by_cases hk : k0 = k
    · simp only [hk, if_true, Option.some.injEq] at h
      subst h
      exact dictEq_of_canon_eq v0 w hc
    · simp only [hk, if_false] at h
      exact dictEq_of_lookup r k v h w hc
theorem dictEq_of_getElem : ∀ (xa : List Val) (i : Nat) (v : Val), xa[i]? = some v →
    ∀ w, canon v = canon w → DictEq v w
  | [], _, _, h, _, _ => by simp at h
  | x :: r, 0, v, h, w, hc => by
    simp at h; subst h
    exact dictEq_of_canon_eq x w hc
  | x :: r, i + 1, v, h, w, hc => by
    simp at h
    exact dictEq_of_getElem r i v h w hc
end

end Lena.C08
