import LenaModel.Model.C12
/-! # C12 — lemmas about `NArr` (nested bins): `md_map` is the cell-wise map, `iter_bins` enumerates exactly the cells,
lexicographic index order of regular arrays.  Core Lean only. -/
namespace Lena.NArr
variable {α β γ δ : Type}

mutual
theorem cells_map (f : α → β) : ∀ a : NArr α, cells (map f a) = (cells a).map (fun p => (p.1, f p.2))
  | .leaf a => by simp [map, cells]
  | .node xs => by simp only [map, cells]; exact cellsFrom_mapList f 0 xs
theorem cellsFrom_mapList (f : α → β) : ∀ (k : Nat) (xs : List (NArr α)),
    cellsFrom k (mapList f xs) = (cellsFrom k xs).map (fun p => (p.1, f p.2))
  | k, [] => by simp [mapList, cellsFrom]
  | k, x :: xs => by simp [mapList, cellsFrom, cells_map f x, cellsFrom_mapList f (k+1) xs]
end

theorem values_map (f : α → β) (a : NArr α) : values (map f a) = (values a).map f := by
  simp [values, cells_map]

theorem mdMapLeaves_eq (f : α → β) : ∀ (xs : List (NArr α)) (ys : List (NArr β)),
    mdMapLeaves f xs = .ok ys → ys = mapList f xs
  | [], ys, h => by simp [mdMapLeaves] at h; simp [mapList, h]
  | .leaf v :: xs, ys, h => by
    simp only [mdMapLeaves] at h
    cases hr : mdMapLeaves f xs with
    | error e => simp [hr, bind, Except.bind] at h
    | ok r =>
      simp [hr, bind, Except.bind, pure, Except.pure] at h
      subst h
      simp [mapList, map, mdMapLeaves_eq f xs r hr]
  | .node _ :: _, ys, h => by simp [mdMapLeaves] at h

mutual
theorem mdMap_eq_map (f : α → β) : ∀ (a : NArr α) (b : NArr β), mdMap f a = .ok b → b = map f a
  | .leaf _, b, h => by simp [mdMap] at h
  | .node [], b, h => by simp [mdMap] at h; simp [map, mapList, h]
  | .node (.leaf v :: xs), b, h => by
    simp only [mdMap] at h
    cases hr : mdMapLeaves f (.leaf v :: xs) with
    | error e => simp [hr, bind, Except.bind] at h
    | ok r =>
      simp [hr, bind, Except.bind, pure, Except.pure] at h
      subst h
      simp [map, mdMapLeaves_eq f _ r hr]
  | .node (.node ys :: xs), b, h => by
    simp only [mdMap] at h
    cases hr : mdMapNodes f (.node ys :: xs) with
    | error e => simp [hr, bind, Except.bind] at h
    | ok r =>
      simp [hr, bind, Except.bind, pure, Except.pure] at h
      subst h
      simp [map, mdMapNodes_eq f _ r hr]
theorem mdMapNodes_eq (f : α → β) : ∀ (xs : List (NArr α)) (ys : List (NArr β)),
    mdMapNodes f xs = .ok ys → ys = mapList f xs
  | [], ys, h => by simp [mdMapNodes] at h; simp [mapList, h]
  | x :: xs, ys, h => by
    simp only [mdMapNodes] at h
    cases hx : mdMap f x with
    | error e => simp [hx, bind, Except.bind] at h
    | ok y =>
      cases hr : mdMapNodes f xs with
      | error e => simp [hx, hr, bind, Except.bind] at h
      | ok r =>
        simp [hx, hr, bind, Except.bind, pure, Except.pure] at h
        subst h
        simp [mapList, mdMap_eq_map f x y hx, mdMapNodes_eq f xs r hr]
end

theorem mapList_eq_map (f : α → β) (xs : List (NArr α)) : mapList f xs = xs.map (map f) := by
  induction xs with
  | nil => rfl
  | cons x xs ih => simp [mapList, ih]

theorem hasShape_leaf_iff (dims : List Nat) (v : α) : HasShape dims (.leaf v) ↔ dims = [] := by
  cases dims <;> simp [HasShape]

theorem hasShape_node_iff (dims : List Nat) (xs : List (NArr α)) :
    HasShape dims (.node xs) ↔ ∃ n ns, dims = n :: ns ∧ xs.length = n ∧ ∀ x ∈ xs, HasShape ns x := by
  cases dims with
  | nil => simp [HasShape]
  | cons n ns =>
    simp only [HasShape]
    constructor
    · intro h; exact ⟨n, ns, rfl, h⟩
    · rintro ⟨n', ns', h1, h2⟩
      cases h1
      exact h2

theorem hasShape_map (f : α → β) : ∀ (dims : List Nat) (a : NArr α), HasShape dims a → HasShape dims (map f a)
  | [], .leaf v, _ => by simp [map, HasShape]
  | [], .node _, h => by simp [HasShape] at h
  | _ :: _, .leaf _, h => by simp [HasShape] at h
  | n :: ns, .node xs, h => by
    simp only [HasShape] at h
    simp only [map, HasShape, mapList_eq_map, List.length_map]
    refine ⟨h.1, ?_⟩
    intro y hy
    obtain ⟨x, hx, rfl⟩ := List.mem_map.1 hy
    exact hasShape_map f ns x (h.2 x hx)

theorem mdMapLeaves_ok (f : α → β) : ∀ (xs : List (NArr α)), (∀ x ∈ xs, HasShape [] x) →
    mdMapLeaves f xs = .ok (mapList f xs)
  | [], _ => by simp [mdMapLeaves, mapList]
  | .leaf v :: xs, h => by
    have := mdMapLeaves_ok f xs (fun x hx => h x (List.mem_cons_of_mem _ hx))
    simp [mdMapLeaves, this, mapList, map, bind, Except.bind, pure, Except.pure]
  | .node ys :: xs, h => by
    have := h (.node ys) (List.mem_cons_self)
    simp [HasShape] at this

theorem mdMap_ok (f : α → β) : ∀ (ns : List Nat) (n : Nat) (a : NArr α), HasShape (n :: ns) a →
    mdMap f a = .ok (map f a)
  | _, _, .leaf _, h => by simp [HasShape] at h
  | _, _, .node [], _ => by simp [mdMap, map, mapList]
  | [], n, .node (.leaf v :: xs), h => by
    simp only [HasShape] at h
    simp [mdMap, mdMapLeaves_ok f _ h.2, map, bind, Except.bind, pure, Except.pure]
  | [], n, .node (.node ys :: xs), h => by
    simp only [HasShape] at h
    have := h.2 (.node ys) List.mem_cons_self
    simp [HasShape] at this
  | m :: ms, n, .node (.leaf v :: xs), h => by
    simp only [HasShape] at h
    have := h.2 (.leaf v) List.mem_cons_self
    simp [HasShape] at this
  | m :: ms, n, .node (.node ys :: xs), h => by
    simp only [HasShape] at h
    have key : ∀ (l : List (NArr α)), (∀ x ∈ l, HasShape (m :: ms) x) → mdMapNodes f l = .ok (mapList f l) := by
      intro l
      induction l with
      | nil => intro _; simp [mdMapNodes, mapList]
      | cons x l ih =>
        intro hl
        have hx := mdMap_ok f ms m x (hl x List.mem_cons_self)
        have hr := ih (fun y hy => hl y (List.mem_cons_of_mem _ hy))
        simp [mdMapNodes, hx, hr, mapList, bind, Except.bind, pure, Except.pure]
    simp [mdMap, key _ h.2, map, bind, Except.bind, pure, Except.pure]

/-! ### `zipWith`, `md_map` with two arrays -/

theorem zipWithList_eq (g : α → β → γ) : ∀ (xs : List (NArr α)) (ys : List (NArr β)),
    zipWithList g xs ys = List.zipWith (zipWith g) xs ys
  | [], _ => by simp [zipWithList]
  | _ :: _, [] => by simp [zipWithList]
  | x :: xs, y :: ys => by simp [zipWithList, zipWithList_eq g xs ys]

theorem mdMap2Leaves_ok (g : α → α → β) : ∀ (xs ys : List (NArr α)), xs.length = ys.length →
    (∀ x ∈ xs, HasShape [] x) → (∀ y ∈ ys, HasShape [] y) → mdMap2Leaves g xs ys = .ok (zipWithList g xs ys)
  | [], _, _, _, _ => by simp [mdMap2Leaves, zipWithList]
  | _ :: _, [], h, _, _ => by simp at h
  | .leaf a :: xs, .leaf b :: ys, h, hx, hy => by
    have := mdMap2Leaves_ok g xs ys (by simpa using h) (fun x m => hx x (List.mem_cons_of_mem _ m))
      (fun y m => hy y (List.mem_cons_of_mem _ m))
    simp [mdMap2Leaves, this, zipWithList, zipWith, bind, Except.bind, pure, Except.pure]
  | .leaf a :: xs, .node _ :: ys, _, _, hy => by
    have := hy _ List.mem_cons_self
    simp [HasShape] at this
  | .node _ :: xs, _ :: ys, _, hx, _ => by
    have := hx _ List.mem_cons_self
    simp [HasShape] at this

theorem mdMap2_ok (g : α → α → β) : ∀ (ns : List Nat) (n : Nat) (a b : NArr α),
    HasShape (n :: ns) a → HasShape (n :: ns) b → mdMap2 g a b = .ok (zipWith g a b)
  | _, _, .leaf _, _, h, _ => by simp [HasShape] at h
  | _, _, .node _, .leaf _, _, h => by simp [HasShape] at h
  | _, _, .node [], .node lb, _, _ => by simp [mdMap2, zipWith, zipWithList]
  | _, _, .node (x :: la), .node [], ha, hb => by
    simp only [HasShape] at ha hb
    simp at ha hb
    omega
  | [], n, .node (x :: la), .node (y :: lb), ha, hb => by
    simp only [HasShape] at ha hb
    have hlen : (x :: la).length = (y :: lb).length := by omega
    have hx : ∃ v, x = .leaf v := by
      have := ha.2 x List.mem_cons_self
      cases x with
      | leaf v => exact ⟨v, rfl⟩
      | node _ => simp [HasShape] at this
    obtain ⟨v, rfl⟩ := hx
    have hl := mdMap2Leaves_ok g _ _ hlen ha.2 hb.2
    have hlt : ¬ (lb.length + 1 < la.length + 1) := by simp at hlen; omega
    simp [mdMap2, hl, zipWith, hlt, bind, Except.bind, pure, Except.pure]
  | m :: ms, n, .node (x :: la), .node (y :: lb), ha, hb => by
    simp only [HasShape] at ha hb
    have hlen : (x :: la).length = (y :: lb).length := by omega
    have hx : ∃ l, x = .node l := by
      have := ha.2 x List.mem_cons_self
      cases x with
      | leaf v => simp [HasShape] at this
      | node l => exact ⟨l, rfl⟩
    obtain ⟨l, rfl⟩ := hx
    have key : ∀ (l1 l2 : List (NArr α)), l1.length = l2.length → (∀ x ∈ l1, HasShape (m :: ms) x) →
        (∀ y ∈ l2, HasShape (m :: ms) y) → mdMap2Nodes g l1 l2 = .ok (zipWithList g l1 l2) := by
      intro l1
      induction l1 with
      | nil => intro l2 _ _ _; simp [mdMap2Nodes, zipWithList]
      | cons x1 l1 ih =>
        intro l2 hl h1 h2
        cases l2 with
        | nil => simp at hl
        | cons y1 l2 =>
          have hx := mdMap2_ok g ms m x1 y1 (h1 _ List.mem_cons_self) (h2 _ List.mem_cons_self)
          have hr := ih l2 (by simpa using hl) (fun x hm => h1 x (List.mem_cons_of_mem _ hm))
            (fun y hm => h2 y (List.mem_cons_of_mem _ hm))
          simp [mdMap2Nodes, hx, hr, zipWithList, bind, Except.bind, pure, Except.pure]
    have hl := key _ _ hlen ha.2 hb.2
    have hlt : ¬ (lb.length + 1 < la.length + 1) := by simp at hlen; omega
    simp [mdMap2, hl, zipWith, hlt, bind, Except.bind, pure, Except.pure]

theorem hasShape_zipWith (g : α → β → γ) : ∀ (dims : List Nat) (a : NArr α) (b : NArr β),
    HasShape dims a → HasShape dims b → HasShape dims (zipWith g a b)
  | [], .leaf _, .leaf _, _, _ => by simp [zipWith, HasShape]
  | [], .node _, _, h, _ => by simp [HasShape] at h
  | [], _, .node _, _, h => by simp [HasShape] at h
  | _ :: _, .leaf _, _, h, _ => by simp [HasShape] at h
  | _ :: _, _, .leaf _, _, h => by simp [HasShape] at h
  | n :: ns, .node xs, .node ys, ha, hb => by
    simp only [HasShape] at ha hb
    simp only [zipWith, HasShape, zipWithList_eq, List.length_zipWith]
    refine ⟨by omega, ?_⟩
    intro z hz
    obtain ⟨i, hi, rfl⟩ := List.getElem_of_mem hz
    simp only [List.length_zipWith] at hi
    rw [List.getElem_zipWith]
    exact hasShape_zipWith g ns _ _ (ha.2 _ (List.getElem_mem _)) (hb.2 _ (List.getElem_mem _))

mutual
theorem zipWith_map_right (g : α → β → γ) (f : δ → β) : ∀ (a : NArr α) (b : NArr δ),
    zipWith g a (map f b) = zipWith (fun x y => g x (f y)) a b
  | .leaf _, .leaf _ => by simp [map, zipWith]
  | .leaf _, .node _ => by simp [map, zipWith]
  | .node _, .leaf _ => by simp [map, zipWith]
  | .node xs, .node ys => by simp [map, zipWith, zipWithList_map_right g f xs ys]
theorem zipWithList_map_right (g : α → β → γ) (f : δ → β) : ∀ (xs : List (NArr α)) (ys : List (NArr δ)),
    zipWithList g xs (mapList f ys) = zipWithList (fun x y => g x (f y)) xs ys
  | [], _ => by simp [zipWithList]
  | _ :: _, [] => by simp [zipWithList, mapList]
  | x :: xs, y :: ys => by simp [zipWithList, mapList, zipWith_map_right g f x y, zipWithList_map_right g f xs ys]
end

/-- cell-wise: the cell of `zipWith g a b` at an index holds `g` of the two cells at that index -/
theorem get?_zipWith (g : α → β → γ) : ∀ (idx : List Nat) (a : NArr α) (b : NArr β) (x : α) (y : β),
    get? a idx = some (.leaf x) → get? b idx = some (.leaf y) → get? (zipWith g a b) idx = some (.leaf (g x y))
  | [], .leaf _, .leaf _, x, y, ha, hb => by
    simp [get?] at ha hb
    simp [zipWith, get?, ha, hb]
  | [], .node _, _, _, _, ha, _ => by simp [get?] at ha
  | [], .leaf _, .node _, _, _, _, hb => by simp [get?] at hb
  | _ :: _, .leaf _, _, _, _, ha, _ => by simp [get?] at ha
  | _ :: _, .node _, .leaf _, _, _, _, hb => by simp [get?] at hb
  | i :: is, .node xs, .node ys, x, y, ha, hb => by
    simp only [get?] at ha hb
    cases hx : xs[i]? with
    | none => simp [hx] at ha
    | some x' =>
      cases hy : ys[i]? with
      | none => simp [hy] at hb
      | some y' =>
        simp only [hx] at ha
        simp only [hy] at hb
        have := get?_zipWith g is x' y' x y ha hb
        simp [zipWith, get?, zipWithList_eq, List.getElem?_zipWith, hx, hy, this]

/-- `get_bin_on_index` succeeds exactly when plain subscripting does -/
theorem getBin_eq_ok_iff : ∀ (idx : List Nat) (a b : NArr α), getBin a idx = .ok b ↔ get? a idx = some b
  | [], a, b => by simp [getBin, get?]
  | _ :: _, .leaf _, b => by simp [getBin, get?]
  | i :: is, .node xs, b => by
    simp only [getBin, get?]
    cases hx : xs[i]? with
    | none => simp
    | some x => simpa using getBin_eq_ok_iff is x b

mutual
/-- `iter_bins` yields `(idx, v)` exactly for the indices `idx` at which `bins[idx]` is the cell `v` -/
theorem mem_cells_iff : ∀ (a : NArr α) (idx : List Nat) (v : α), (idx, v) ∈ cells a ↔ get? a idx = some (.leaf v)
  | .leaf a, [], v => by simp [cells, get?]; exact eq_comm
  | .leaf a, _ :: _, v => by simp [cells, get?]
  | .node xs, [], v => by
    simp only [cells, get?]
    constructor
    · intro h
      obtain ⟨i, rest, x, h1, _, _⟩ := (mem_cellsFrom_iff xs 0 [] v).1 h
      simp at h1
    · intro h; simp at h
  | .node xs, i :: is, v => by
    simp only [cells, get?]
    rw [mem_cellsFrom_iff xs 0 (i :: is) v]
    constructor
    · rintro ⟨j, rest, x, h1, h2, h3⟩
      simp at h1
      obtain ⟨rfl, rfl⟩ := h1
      simp [h2, h3]
    · intro h
      cases hx : xs[i]? with
      | none => simp [hx] at h
      | some x =>
        simp only [hx] at h
        exact ⟨i, is, x, by simp, hx, h⟩
theorem mem_cellsFrom_iff : ∀ (xs : List (NArr α)) (k : Nat) (idx : List Nat) (v : α),
    (idx, v) ∈ cellsFrom k xs ↔ ∃ i rest x, idx = (k + i) :: rest ∧ xs[i]? = some x ∧ get? x rest = some (.leaf v)
  | [], k, idx, v => by simp [cellsFrom]
  | x :: xs, k, idx, v => by
    simp only [cellsFrom, List.mem_append, List.mem_map]
    constructor
    · rintro (⟨p, hp, he⟩ | h)
      · obtain ⟨pi, pv⟩ := p
        simp at he
        obtain ⟨rfl, rfl⟩ := he
        exact ⟨0, pi, x, by simp, by simp, (mem_cells_iff x pi pv).1 hp⟩
      · obtain ⟨i, rest, y, h1, h2, h3⟩ := (mem_cellsFrom_iff xs (k + 1) idx v).1 h
        exact ⟨i + 1, rest, y, by rw [h1]; congr 1; omega, by simpa using h2, h3⟩
    · rintro ⟨i, rest, y, h1, h2, h3⟩
      cases i with
      | zero =>
        left
        simp at h2
        subst h2
        exact ⟨(rest, v), (mem_cells_iff _ rest v).2 h3, by simp [h1]⟩
      | succ i =>
        right
        exact (mem_cellsFrom_iff xs (k + 1) idx v).2 ⟨i, rest, y, by rw [h1]; congr 1; omega, by simpa using h2, h3⟩
end

/-! ### index order -/

theorem indexProd_cons (r : List Nat) (rs : List (List Nat)) :
    indexProd (r :: rs) = r.flatMap (fun i => (indexProd rs).map (i :: ·)) := rfl

/-- the indices `iter_bins` yields for a regular array are `itertools.product(range(n0), range(n1), …)` -/
theorem cells_fst : ∀ (dims : List Nat) (a : NArr α), HasShape dims a →
    (cells a).map (·.1) = indexProd (dims.map List.range)
  | [], .leaf v, _ => by simp [cells, indexProd]
  | [], .node _, h => by simp [HasShape] at h
  | _ :: _, .leaf _, h => by simp [HasShape] at h
  | n :: ns, .node xs, h => by
    simp only [HasShape] at h
    have key : ∀ (l : List (NArr α)) (k : Nat), (∀ x ∈ l, HasShape ns x) →
        (cellsFrom k l).map (·.1) =
          (List.range' k l.length).flatMap (fun i => (indexProd (ns.map List.range)).map (i :: ·)) := by
      intro l
      induction l with
      | nil => intro k _; simp [cellsFrom]
      | cons x l ih =>
        intro k hl
        have hx := cells_fst ns x (hl x List.mem_cons_self)
        have hr := ih (k + 1) (fun y hy => hl y (List.mem_cons_of_mem _ hy))
        simp only [cellsFrom, List.map_append, List.map_map, List.length_cons, List.range'_succ,
          List.flatMap_cons, hr]
        congr 1
        rw [← hx]
        simp [Function.comp_def]
    simp only [cells, List.map_cons, indexProd_cons]
    rw [key xs 0 h.2, h.1, List.range_eq_range']

/-! ### `md_map` with two arrays returns the cell-wise combination (any shapes) -/

theorem mdMap2Leaves_eq (g : α → α → β) : ∀ (xs ys : List (NArr α)) (r : List (NArr β)),
    mdMap2Leaves g xs ys = .ok r → r = zipWithList g xs ys
  | [], _, r, h => by simp [mdMap2Leaves] at h; simp [zipWithList, h]
  | _ :: _, [], r, h => by simp [mdMap2Leaves] at h
  | .leaf a :: xs, .leaf b :: ys, r, h => by
    simp only [mdMap2Leaves] at h
    cases hr : mdMap2Leaves g xs ys with
    | error e => simp [hr, bind, Except.bind] at h
    | ok r' =>
      simp [hr, bind, Except.bind, pure, Except.pure] at h
      subst h
      simp [zipWithList, zipWith, mdMap2Leaves_eq g xs ys r' hr]
  | .leaf _ :: _, .node _ :: _, r, h => by simp [mdMap2Leaves] at h
  | .node _ :: _, _ :: _, r, h => by simp [mdMap2Leaves] at h

mutual
/-- `md_map(f, a, b)`, when it returns, returns the cell-wise combination -/
theorem mdMap2_eq_zipWith (g : α → α → β) : ∀ (a b : NArr α) (c : NArr β), mdMap2 g a b = .ok c → c = zipWith g a b
  | .leaf _, _, c, h => by simp [mdMap2] at h
  | .node [], b, c, h => by
    simp [mdMap2] at h
    subst h
    cases b <;> simp [zipWith, zipWithList]
  | .node (x :: la), .leaf _, c, h => by simp [mdMap2] at h
  | .node (.leaf v :: la), .node lb, c, h => by
    simp only [mdMap2] at h
    split at h
    · simp at h
      subst h
      cases lb with
      | nil => simp [zipWith, zipWithList]
      | cons _ _ => simp at *
    · split at h
      · simp at h
      · cases hr : mdMap2Leaves g (.leaf v :: la) lb with
        | error e => simp [hr, bind, Except.bind] at h
        | ok r =>
          simp [hr, bind, Except.bind, pure, Except.pure] at h
          subst h
          simp [zipWith, mdMap2Leaves_eq g _ _ r hr]
  | .node (.node l :: la), .node lb, c, h => by
    simp only [mdMap2] at h
    split at h
    · simp at h
      subst h
      cases lb with
      | nil => simp [zipWith, zipWithList]
      | cons _ _ => simp at *
    · split at h
      · simp at h
      · cases hr : mdMap2Nodes g (.node l :: la) lb with
        | error e => simp [hr, bind, Except.bind] at h
        | ok r =>
          simp [hr, bind, Except.bind, pure, Except.pure] at h
          subst h
          simp [zipWith, mdMap2Nodes_eq g _ _ r hr]
theorem mdMap2Nodes_eq (g : α → α → β) : ∀ (xs ys : List (NArr α)) (r : List (NArr β)),
    mdMap2Nodes g xs ys = .ok r → r = zipWithList g xs ys
  | [], _, r, h => by simp [mdMap2Nodes] at h; simp [zipWithList, h]
  | _ :: _, [], r, h => by simp [mdMap2Nodes] at h
  | x :: xs, y :: ys, r, h => by
    simp only [mdMap2Nodes] at h
    cases hx : mdMap2 g x y with
    | error e => simp [hx, bind, Except.bind] at h
    | ok z =>
      cases hr : mdMap2Nodes g xs ys with
      | error e => simp [hx, hr, bind, Except.bind] at h
      | ok zs =>
        simp [hx, hr, bind, Except.bind, pure, Except.pure] at h
        subst h
        simp [zipWithList, mdMap2_eq_zipWith g x y z hx, mdMap2Nodes_eq g xs ys zs hr]
end
end Lena.NArr
