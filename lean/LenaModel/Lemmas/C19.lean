import LenaModel.Model.C19Spec
/-! # C19 — lemmas: the bookkeeping of `output.changed` over the abstract file system

Everything here is about the executable model `LenaModel/Model/C19.lean` (the definitions that
`drivers/C19.lean` runs).  Structure:

* file-system and `Write` lemmas (`writeCore_frame/_content/_cases`), converter lemmas (`latexCore_launch/_skip`,
  `pngCore_run/_skip`);
* a *unit* (`FUnit`): the CSV files of a plot or of a group, the `.tex` file, the pdf, the image; the
  bookkeeping compositions `convCore`, `downCore`, `sepCore`, `grpCore` on resolved file names;
* the invariant `UnitInv`, the hypothesis `SourceClosed`, the conclusion `UnitFresh`;
* `downCore_spec` (second `Write` + both converters, all option settings), `down_of_source`, `sepCore_fresh`;
* refinement: the element-by-element pipelines `runPlot` / `runMembers` act on the world exactly as the
  bookkeeping on the names that `MakeFilename` and `Write._make_filename` resolve (`runPlot_eq_sepCore`,
  `tailStage_eq_downCore`, `runMembers_eq`);
* `runPlot_fresh`, `runPlots_fresh`: one and several plots through the whole pipeline.

The property theorems are in `LenaModel/Props/C19.lean`. -/

namespace Lena.C19
set_option linter.unusedSectionVars false
set_option linter.unusedSimpArgs false
-- file names are opaque in the proofs (only equality of names matters)
attribute [local irreducible] pdfPathOf pngPathOf
variable {C : Type} [DecidableEq C]

@[simp] theorem FS.set_eq (fs : FS C) (p : String) (f : File C) : (fs.set p f) p = some f := by simp [FS.set]
theorem FS.set_ne (fs : FS C) {p q : String} (f : File C) (h : q ≠ p) : (fs.set p f) q = fs q := by simp [FS.set, h]

@[simp] theorem put_fs_eq (w : World C) (p : String) (c : C) (e : Event) : (w.put p c e).fs p = some ⟨c, w.clock⟩ := by
  simp [World.put]
theorem put_fs_ne (w : World C) {p q : String} (c : C) (e : Event) (h : q ≠ p) : (w.put p c e).fs q = w.fs q := by
  simp [World.put, FS.set, h]
@[simp] theorem put_clock (w : World C) (p : String) (c : C) (e : Event) : (w.put p c e).clock = w.clock + 1 := rfl
@[simp] theorem note_fs (w : World C) (e : Event) : (w.note e).fs = w.fs := rfl
@[simp] theorem note_clock (w : World C) (e : Event) : (w.note e).clock = w.clock := rfl

/-- every file is older than the clock -/
def ClockInv (w : World C) : Prop := ∀ p f, w.fs p = some f → f.mtime < w.clock

theorem ClockInv.put {w : World C} (h : ClockInv w) (p : String) (c : C) (e : Event) : ClockInv (w.put p c e) := by
  intro q f hq
  by_cases hqp : q = p
  · subst hqp; simp at hq; subst hq; simp
  · rw [put_fs_ne _ _ _ hqp] at hq; have := h q f hq; simp; omega

theorem effective_cases (mode : WMode) (old : Option (File C)) (new : C) :
    effective mode old new = new ∨ ∃ f, old = some f ∧ effective mode old new = f.content := by
  cases mode <;> cases old <;> first | exact .inl rfl | exact .inr ⟨_, rfl, rfl⟩

/-- a file with content `c` is at path `p` -/
def HasContent (fs : FS C) (p : String) (c : C) : Prop := ∃ f, fs p = some f ∧ f.content = c

theorem writeCore_frame (mode : WMode) (p : String) (c : C) (w : World C) (chg : Option Bool) {q : String} (h : q ≠ p) :
    (writeCore mode p c w chg).1.fs q = w.fs q := by
  unfold writeCore
  split
  · split
    · rfl
    · exact put_fs_ne _ _ _ h
    · split
      · exact put_fs_ne _ _ _ h
      · rfl
  · exact put_fs_ne _ _ _ h

theorem writeCore_content (mode : WMode) (p : String) (c : C) (w : World C) (chg : Option Bool) :
    HasContent (writeCore mode p c w chg).1.fs p (effective mode (w.fs p) c) := by
  unfold writeCore HasContent
  split
  next f hf =>
    split
    · exact ⟨f, hf, by simp [effective, hf]⟩
    · exact ⟨_, put_fs_eq _ _ _ _, by simp [effective]⟩
    · split
      · exact ⟨_, put_fs_eq _ _ _ _, by simp [effective]⟩
      next hc => exact ⟨f, hf, by simp at hc; simp [effective, hc]⟩
  next hf => exact ⟨_, put_fs_eq _ _ _ _, by simp [effective, hf]⟩

theorem writeCore_clockInv (mode : WMode) (p : String) (c : C) (w : World C) (chg : Option Bool) (h : ClockInv w) :
    ClockInv (writeCore mode p c w chg).1 := by
  unfold writeCore
  split
  · split
    · exact h
    · exact h.put _ _ _
    · split
      · exact h.put _ _ _
      · exact h
  · exact h.put _ _ _

theorem writeCore_clock_le (mode : WMode) (p : String) (c : C) (w : World C) (chg : Option Bool) :
    w.clock ≤ (writeCore mode p c w chg).1.clock := by
  unfold writeCore
  split
  · split
    · exact Nat.le_refl _
    · simp
    · split
      · simp
      · exact Nat.le_refl _
  · simp

/-- the three outcomes of `Write`: `changed` is true afterwards; or the file existed and is kept as it is
(`changed` is the incoming value, `False` when unset); or the file did not exist, is created now and
`changed` is left as it came. -/
theorem writeCore_cases (mode : WMode) (p : String) (c : C) (w : World C) (chg : Option Bool) :
    (writeCore mode p c w chg).2 = some true
    ∨ ((writeCore mode p c w chg) = (w, some (chg.getD false)) ∧ ∃ f, w.fs p = some f ∧ effective mode (w.fs p) c = f.content)
    ∨ (w.fs p = none ∧ writeCore mode p c w chg = (w.put p c (.write p), chg)) := by
  unfold writeCore
  split
  next f hf =>
    split
    · exact .inr (.inl ⟨rfl, f, hf, by simp [effective, hf]⟩)
    · exact .inl rfl
    · split
      · exact .inl rfl
      next hc => exact .inr (.inl ⟨rfl, f, hf, by simp at hc; simp [effective, hc]⟩)
  next hf => exact .inr (.inr ⟨hf, rfl⟩)


/-! ## the converters -/

theorem latexCore_launch (conv : Conv C) (lo : Bool) (texP pdfP : String) (w : World C) (chg : Option Bool) (tf : File C)
    (ht : w.fs texP = some tf) (h : chg = some true ∨ lo = true ∨ w.fs pdfP = none) :
    latexCore conv lo texP pdfP w chg
      = .ok (w.put pdfP (conv.pdfOf tf.content (depContents w.fs (conv.depsOf tf.content))) (.latex texP), true, true) := by
  unfold latexCore depContents
  rcases h with h | h | h
  · subst h; simp [ht]
  · subst h; cases chg <;> cases hp : w.fs pdfP <;> simp [ht]
  · cases chg <;> simp [ht, h]

theorem latexCore_skip (conv : Conv C) (texP pdfP : String) (w : World C) (h : (w.fs pdfP).isSome) :
    latexCore conv false texP pdfP w (some false) = .ok (w, false, true) := by
  unfold latexCore
  simp [h]

theorem pngCore_run (conv : Conv C) (po : Bool) (pdfP pngP : String) (w : World C) (chg : Option Bool) (pf : File C)
    (hp : w.fs pdfP = some pf) (h : w.fs pngP = none ∨ po = true ∨ chg = some true) :
    pngCore conv po pdfP pngP w chg = (w.put pngP (conv.pngOf pf.content) (.topng pdfP), true) := by
  unfold pngCore
  rcases h with h | h | h <;> simp [h, hp]

theorem pngCore_skip (conv : Conv C) (pdfP pngP : String) (w : World C) (h : (w.fs pngP).isSome) :
    pngCore conv false pdfP pngP w (some false) = (w, false) := by
  unfold pngCore
  cases hg : w.fs pngP <;> simp_all


/-! ## one unit: source files, the `.tex` file, the pdf and the image -/

def FUnit.Distinct (u : FUnit) : Prop :=
  u.tex ∉ u.csvs ∧ u.pdf ∉ u.csvs ∧ u.png ∉ u.csvs ∧ u.tex ≠ u.pdf ∧ u.tex ≠ u.png ∧ u.pdf ≠ u.png

theorem convCore_launch (conv : Conv C) (lo po : Bool) (u : FUnit) (w : World C) (c : Option Bool) (tf : File C)
    (hd : u.Distinct) (hclk : ClockInv w) (ht : w.fs u.tex = some tf)
    (h : c = some true ∨ lo = true ∨ w.fs u.pdf = none) :
    ∃ w', convCore conv lo po u w c = .ok (w', some true) ∧
      HasContent w'.fs u.pdf (conv.pdfOf tf.content (depContents w.fs (conv.depsOf tf.content))) ∧
      HasContent w'.fs u.png (conv.pngOf (conv.pdfOf tf.content (depContents w.fs (conv.depsOf tf.content)))) ∧
      (∀ q, q ≠ u.pdf → q ≠ u.png → w'.fs q = w.fs q) ∧ ClockInv w' ∧ w.clock ≤ w'.clock := by
  obtain ⟨_, _, _, _, _, hpg⟩ := hd
  unfold convCore
  rw [latexCore_launch conv lo u.tex u.pdf w c tf ht h]
  simp only
  rw [pngCore_run conv po u.pdf u.png _ (some true) ⟨_, w.clock⟩ (put_fs_eq _ _ _ _) (.inr (.inr rfl))]
  refine ⟨_, rfl, ?_, ?_, ?_, ?_, ?_⟩
  · exact ⟨_, by rw [put_fs_ne _ _ _ hpg, put_fs_eq], rfl⟩
  · exact ⟨_, put_fs_eq _ _ _ _, rfl⟩
  · intro q h1 h2; rw [put_fs_ne _ _ _ h2, put_fs_ne _ _ _ h1]
  · exact (hclk.put _ _ _).put _ _ _
  · simp; omega

theorem convCore_skip (conv : Conv C) (po : Bool) (u : FUnit) (w : World C) (pf : File C)
    (hpg : u.pdf ≠ u.png) (hclk : ClockInv w) (hp : w.fs u.pdf = some pf)
    (hpng : ∀ gf, w.fs u.png = some gf → gf.content = conv.pngOf pf.content) :
    ∃ w' c, convCore conv false po u w (some false) = .ok (w', some c) ∧
      w'.fs u.pdf = some pf ∧ HasContent w'.fs u.png (conv.pngOf pf.content) ∧
      (∀ q, q ≠ u.png → w'.fs q = w.fs q) ∧ ClockInv w' ∧ w.clock ≤ w'.clock := by
  unfold convCore
  rw [latexCore_skip conv u.tex u.pdf w (by simp [hp])]
  simp only
  by_cases hrun : w.fs u.png = none ∨ po = true
  · rw [pngCore_run conv po u.pdf u.png w (some false) pf hp (by rcases hrun with h | h <;> simp [h])]
    exact ⟨_, _, rfl, by rw [put_fs_ne _ _ _ hpg, hp], ⟨_, put_fs_eq _ _ _ _, rfl⟩, fun q h => put_fs_ne _ _ _ h,
        hclk.put _ _ _, by simp⟩
  · have hg : (w.fs u.png).isSome := by
      cases hgg : w.fs u.png with
      | none => exact absurd (.inl hgg) hrun
      | some _ => rfl
    have hpo : po = false := by
      cases po with
      | false => rfl
      | true => exact absurd (.inr rfl) hrun
    subst hpo
    rw [pngCore_skip conv u.pdf u.png w hg]
    obtain ⟨gf, hgf⟩ := Option.isSome_iff_exists.mp hg
    exact ⟨_, _, rfl, hp, ⟨gf, hgf, hpng gf hgf⟩, fun q _ => rfl, hclk, Nat.le_refl _⟩


/-- **The second `Write` and the two converters, for all option settings.**  `w` is the world after the source
stage, `c1` the `output.changed` that the source stage hands on.  If `c1` is true, or the pdf is missing, or
the existing pdf is what the LaTeX command produces from the files now on disk (`hsrc`), and an existing pdf
has its `.tex` file on disk (`hsc`), then afterwards the `.tex` file holds the current text, the pdf is
rendered from it and from the CSV files on disk, and the image is converted from that pdf. -/
theorem downCore_spec (conv : Conv C) (m2 : WMode) (lo po : Bool) (u : FUnit) (ntex : C) (w : World C) (c1 : Option Bool)
    (hd : u.Distinct) (hclk : ClockInv w)
    (htd : ∀ tf, w.fs u.tex = some tf → conv.depsOf tf.content = u.csvs)
    (hpng : ∀ gf pf, w.fs u.png = some gf → w.fs u.pdf = some pf → gf.content = conv.pngOf pf.content)
    (hsrc : c1 = some true ∨ w.fs u.pdf = none ∨
      ∀ pf tf, w.fs u.pdf = some pf → w.fs u.tex = some tf → pf.content = conv.pdfOf tf.content (depContents w.fs u.csvs))
    (hsc : (w.fs u.pdf).isSome → (w.fs u.tex).isSome)
    (hdeps : conv.depsOf ntex = u.csvs) :
    ∃ w' c, downCore conv m2 lo po u ntex w c1 = .ok (w', some c) ∧
      HasContent w'.fs u.tex (effective m2 (w.fs u.tex) ntex) ∧
      HasContent w'.fs u.pdf (conv.pdfOf (effective m2 (w.fs u.tex) ntex) (depContents w.fs u.csvs)) ∧
      HasContent w'.fs u.png (conv.pngOf (conv.pdfOf (effective m2 (w.fs u.tex) ntex) (depContents w.fs u.csvs))) ∧
      (∀ q, q ≠ u.tex → q ≠ u.pdf → q ≠ u.png → w'.fs q = w.fs q) ∧ ClockInv w' ∧ w.clock ≤ w'.clock := by
  have hd' := hd
  obtain ⟨htc, hpc, hgc, htp, htg, hpg⟩ := hd'
  -- facts about the world after the second Write
  have hcont := writeCore_content m2 u.tex ntex w c1
  have hfr : ∀ q, q ≠ u.tex → (writeCore m2 u.tex ntex w c1).1.fs q = w.fs q :=
    fun q h => writeCore_frame m2 u.tex ntex w c1 h
  have hclk2 := writeCore_clockInv m2 u.tex ntex w c1 hclk
  have hle2 := writeCore_clock_le m2 u.tex ntex w c1
  obtain ⟨tf2, htf2, hc2⟩ := hcont
  -- the text on disk names the CSV files of the unit
  have hdeps2 : conv.depsOf tf2.content = u.csvs := by
    rw [hc2]
    rcases effective_cases m2 (w.fs u.tex) ntex with h | ⟨f, hf, h⟩
    · rw [h]; exact hdeps
    · rw [h]; exact htd f hf
  have hdc : depContents (writeCore m2 u.tex ntex w c1).1.fs u.csvs = depContents w.fs u.csvs := by
    unfold depContents
    apply List.map_congr_left
    intro p hp
    rw [hfr p (fun h => htc (h ▸ hp))]
  -- launching gives everything
  have launch : (writeCore m2 u.tex ntex w c1).2 = some true ∨ lo = true ∨ (writeCore m2 u.tex ntex w c1).1.fs u.pdf = none →
      ∃ w' c, downCore conv m2 lo po u ntex w c1 = .ok (w', some c) ∧
      HasContent w'.fs u.tex (effective m2 (w.fs u.tex) ntex) ∧
      HasContent w'.fs u.pdf (conv.pdfOf (effective m2 (w.fs u.tex) ntex) (depContents w.fs u.csvs)) ∧
      HasContent w'.fs u.png (conv.pngOf (conv.pdfOf (effective m2 (w.fs u.tex) ntex) (depContents w.fs u.csvs))) ∧
      (∀ q, q ≠ u.tex → q ≠ u.pdf → q ≠ u.png → w'.fs q = w.fs q) ∧ ClockInv w' ∧ w.clock ≤ w'.clock := by
    intro h
    obtain ⟨w', he, hpdf, hpngc, hframe, hck, hle⟩ := convCore_launch conv lo po u _ _ tf2 hd hclk2 htf2 h
    rw [hdeps2, hdc, hc2] at hpdf hpngc
    refine ⟨w', true, he, ⟨tf2, ?_, hc2⟩, hpdf, hpngc, ?_, hck, Nat.le_trans hle2 hle⟩
    · rw [hframe u.tex htp htg]; exact htf2
    · intro q h1 h2 h3; rw [hframe q h2 h3, hfr q h1]
  by_cases hlo : lo = true
  · exact launch (.inr (.inl hlo))
  have hlo : lo = false := by
    cases lo with
    | false => rfl
    | true => exact absurd rfl hlo
  cases hpdf : w.fs u.pdf with
  | none => exact launch (.inr (.inr (by rw [hfr u.pdf (Ne.symm htp)]; exact hpdf)))
  | some pf =>
    rcases writeCore_cases m2 u.tex ntex w c1 with h | ⟨heq, f, hf, he⟩ | ⟨hnone, _⟩
    · exact launch (.inl h)
    · -- the .tex file is kept as it is
      rcases hsrc with h1 | h1 | h1
      · exact launch (.inl (by rw [heq, h1]; rfl))
      · rw [h1] at hpdf; cases hpdf
      · by_cases hct : c1 = some true
        · exact launch (.inl (by rw [heq, hct]; rfl))
        · have hgd : c1.getD false = false := by
            cases hc : c1 with
            | none => rfl
            | some b => cases b <;> simp_all
          have hw : writeCore m2 u.tex ntex w c1 = (w, some false) := by rw [heq, hgd]
          obtain ⟨w', c, hcv, hp', hg', hframe, hck, hle⟩ :=
            convCore_skip conv po u w pf hpg hclk hpdf (fun gf hgf => hpng gf pf hgf hpdf)
          have hpc' := h1 pf f hpdf hf
          refine ⟨w', c, ?_, ⟨f, ?_, he.symm⟩, ⟨pf, hp', ?_⟩, ?_, ?_, hck, hle⟩
          · unfold downCore; rw [hw, hlo]; exact hcv
          · rw [hframe u.tex htg]; exact hf
          · rw [he]; exact hpc'
          · rw [he, ← hpc']; exact hg'
          · intro q _ _ h3; exact hframe q h3
    · -- the .tex file is missing although the pdf exists: excluded by `hsc`
      have := hsc (by simp [hpdf])
      simp [hnone] at this


/-! ## invariant of a unit, `SourceClosed`, freshness -/

/-- **Invariant between runs** (it survives the removal of any files): the `.tex` file on disk names the CSV
files of the unit; a pdf whose `.tex` and CSV files are all on disk is what the LaTeX command produces from
them; an image whose pdf is on disk was converted from it. -/
structure UnitInv (conv : Conv C) (u : FUnit) (fs : FS C) : Prop where
  texDeps : ∀ tf, fs u.tex = some tf → conv.depsOf tf.content = u.csvs
  pdfCons : ∀ pf tf, fs u.pdf = some pf → fs u.tex = some tf → (∀ p ∈ u.csvs, (fs p).isSome) →
    pf.content = conv.pdfOf tf.content (depContents fs u.csvs)
  pngCons : ∀ gf pf, fs u.png = some gf → fs u.pdf = some pf → gf.content = conv.pngOf pf.content

/-- every existing pdf has its `.tex` file and its CSV files on disk -/
def SourceClosed (u : FUnit) (fs : FS C) : Prop :=
  (fs u.pdf).isSome → (fs u.tex).isSome ∧ ∀ p ∈ u.csvs, (fs p).isSome

/-- the files of the unit hold exactly what is produced from the CSV texts `ecsvs` and the LaTeX text `etex` -/
def UnitFresh (conv : Conv C) (u : FUnit) (fs : FS C) (ecsvs : List C) (etex : C) : Prop :=
  depContents fs u.csvs = ecsvs.map some ∧ HasContent fs u.tex etex ∧
  HasContent fs u.pdf (conv.pdfOf etex (ecsvs.map some)) ∧
  HasContent fs u.png (conv.pngOf (conv.pdfOf etex (ecsvs.map some)))

theorem depContents_congr {fs fs' : FS C} {ps : List String} (h : ∀ p ∈ ps, fs' p = fs p) :
    depContents fs' ps = depContents fs ps := by
  unfold depContents
  exact List.map_congr_left (fun p hp => by rw [h p hp])

theorem UnitInv.of_fresh {conv : Conv C} {u : FUnit} {fs : FS C} {ecsvs : List C} {etex : C}
    (h : UnitFresh conv u fs ecsvs etex) (hdeps : conv.depsOf etex = u.csvs) : UnitInv conv u fs := by
  obtain ⟨hc, ⟨tf, htf, htc⟩, ⟨pf, hpf, hpc⟩, ⟨gf, hgf, hgc⟩⟩ := h
  refine ⟨?_, ?_, ?_⟩
  · intro tf' h'; rw [htf] at h'; cases h'; rw [htc]; exact hdeps
  · intro pf' tf' h1 h2 _; rw [hpf] at h1; rw [htf] at h2; cases h1; cases h2; rw [hpc, htc, hc]
  · intro gf' pf' h1 h2; rw [hgf] at h1; rw [hpf] at h2; cases h1; cases h2; rw [hgc, hpc]

theorem UnitInv.del {conv : Conv C} {u : FUnit} {fs : FS C} (h : UnitInv conv u fs) (ps : List String) :
    UnitInv conv u (fs.del ps) := by
  have key : ∀ q f, (fs.del ps) q = some f → fs q = some f := by
    intro q f hq; unfold FS.del at hq; split at hq
    · cases hq
    · exact hq
  refine ⟨?_, ?_, ?_⟩
  · intro tf h1; exact h.texDeps tf (key _ _ h1)
  · intro pf tf h1 h2 h3
    have hall : ∀ p ∈ u.csvs, (fs.del ps) p = fs p := by
      intro p hp
      have := h3 p hp
      obtain ⟨f, hf⟩ := Option.isSome_iff_exists.mp this
      rw [hf, key _ _ hf]
    rw [depContents_congr hall]
    exact h.pdfCons pf tf (key _ _ h1) (key _ _ h2) (fun p hp => by rw [← hall p hp]; exact h3 p hp)
  · intro gf pf h1 h2; exact h.pngCons gf pf (key _ _ h1) (key _ _ h2)

theorem UnitInv.empty (conv : Conv C) (u : FUnit) : UnitInv conv u (FS.empty : FS C) :=
  ⟨fun _ h => by simp [FS.empty] at h, fun _ _ h => by simp [FS.empty] at h, fun _ _ h => by simp [FS.empty] at h⟩

/-- **From the source stage to the converters.**  `w1` is the world after the CSV files were written and `c1`
the `output.changed` handed on.  If only CSV files of the unit were touched and `c1` is true unless a CSV file
was missing at the start or none was touched, then — for a run that starts `SourceClosed` — the hypotheses of
`downCore_spec` hold. -/
theorem down_of_source (conv : Conv C) (m2 : WMode) (lo po : Bool) (u : FUnit) (ntex : C) (w w1 : World C) (c1 : Option Bool)
    (hd : u.Distinct) (hinv : UnitInv conv u w.fs) (hsc : SourceClosed u w.fs) (hclk1 : ClockInv w1)
    (hframe : ∀ q, q ∉ u.csvs → w1.fs q = w.fs q)
    (hall : ∀ p ∈ u.csvs, (w1.fs p).isSome)
    (hflag : c1 = some true ∨ (∃ p ∈ u.csvs, w.fs p = none) ∨ (∀ p ∈ u.csvs, w1.fs p = w.fs p))
    (hdeps : conv.depsOf ntex = u.csvs) :
    ∃ w' c, downCore conv m2 lo po u ntex w1 c1 = .ok (w', some c) ∧
      HasContent w'.fs u.tex (effective m2 (w.fs u.tex) ntex) ∧
      HasContent w'.fs u.pdf (conv.pdfOf (effective m2 (w.fs u.tex) ntex) (depContents w1.fs u.csvs)) ∧
      HasContent w'.fs u.png (conv.pngOf (conv.pdfOf (effective m2 (w.fs u.tex) ntex) (depContents w1.fs u.csvs))) ∧
      (∀ q, q ≠ u.tex → q ≠ u.pdf → q ≠ u.png → w'.fs q = w1.fs q) ∧ ClockInv w' ∧ w1.clock ≤ w'.clock := by
  have hd' := hd
  obtain ⟨htc, hpc, hgc, _, _, _⟩ := hd'
  have ht := hframe u.tex htc
  have hp := hframe u.pdf hpc
  have hg := hframe u.png hgc
  have := downCore_spec conv m2 lo po u ntex w1 c1 hd hclk1
    (fun tf h => hinv.texDeps tf (by rw [← ht]; exact h))
    (fun gf pf h1 h2 => hinv.pngCons gf pf (by rw [← hg]; exact h1) (by rw [← hp]; exact h2))
    (by
      rcases hflag with h | ⟨p, hp1, hp2⟩ | h
      · exact .inl h
      · refine .inr (.inl ?_)
        rw [hp]
        cases hpdf : w.fs u.pdf with
        | none => rfl
        | some pf =>
          have := (hsc (by simp [hpdf])).2 p hp1
          simp [hp2] at this
      · refine .inr (.inr ?_)
        intro pf tf h1 h2
        rw [depContents_congr h]
        exact hinv.pdfCons pf tf (by rw [← hp]; exact h1) (by rw [← ht]; exact h2)
          (fun p hp' => by rw [← h p hp']; exact hall p hp'))
    (by rw [hp, ht]; exact fun h => (hsc h).1)
    hdeps
  rw [ht] at this
  exact this


/-! ## one plot: `Write` (csv), `Write` (tex), `LaTeXToPDF`, `PDFToPNG` -/

theorem effective_deps (conv : Conv C) (u : FUnit) (fs : FS C) (m2 : WMode) (ntex : C)
    (hinv : UnitInv conv u fs) (hdeps : conv.depsOf ntex = u.csvs) :
    conv.depsOf (effective m2 (fs u.tex) ntex) = u.csvs := by
  rcases effective_cases m2 (fs u.tex) ntex with h | ⟨f, hf, h⟩
  · rw [h]; exact hdeps
  · rw [h]; exact hinv.texDeps f hf

/-- **`run_fresh_partial`, bookkeeping level, one plot, all option settings.**  For every world that satisfies the
invariant and is `SourceClosed` for the plot, every data text `ncsv`, template text `ntex` (naming the CSV
file) and every setting of the two `Write`s and the two converters: the run succeeds, afterwards the four files
exist with exactly the content produced from the current texts (`existing_unchanged` keeps an existing
source file, that is its documented contract), only the plot's files were touched, and the invariant holds again. -/
theorem sepCore_fresh (conv : Conv C) (m1 m2 : WMode) (lo po : Bool) (u : FUnit) (pc : String) (ncsv ntex : C) (w : World C)
    (hu : u.csvs = [pc]) (hd : u.Distinct) (hclk : ClockInv w) (hinv : UnitInv conv u w.fs)
    (hsc : SourceClosed u w.fs) (hdeps : conv.depsOf ntex = u.csvs) :
    ∃ w' c, sepCore conv m1 m2 lo po u pc ncsv ntex w = .ok (w', some c) ∧
      UnitFresh conv u w'.fs [effective m1 (w.fs pc) ncsv] (effective m2 (w.fs u.tex) ntex) ∧
      (∀ q, q ∉ u.csvs → q ≠ u.tex → q ≠ u.pdf → q ≠ u.png → w'.fs q = w.fs q) ∧
      ClockInv w' ∧ w.clock ≤ w'.clock ∧ UnitInv conv u w'.fs := by
  have hd' := hd
  obtain ⟨htc, hpc, hgc, _, _, _⟩ := hd'
  have hmem : ∀ q, q ∉ u.csvs ↔ q ≠ pc := by intro q; rw [hu]; simp
  have hfr : ∀ q, q ∉ u.csvs → (writeCore m1 pc ncsv w none).1.fs q = w.fs q :=
    fun q h => writeCore_frame m1 pc ncsv w none ((hmem q).mp h)
  obtain ⟨cf, hcf, hcc⟩ := writeCore_content m1 pc ncsv w none
  have hflag : (writeCore m1 pc ncsv w none).2 = some true ∨ (∃ p ∈ u.csvs, w.fs p = none) ∨
      (∀ p ∈ u.csvs, (writeCore m1 pc ncsv w none).1.fs p = w.fs p) := by
    rcases writeCore_cases m1 pc ncsv w none with h | ⟨heq, _⟩ | ⟨hnone, _⟩
    · exact .inl h
    · exact .inr (.inr (fun p _ => by rw [heq]))
    · exact .inr (.inl ⟨pc, by rw [hu]; simp, hnone⟩)
  obtain ⟨w', c, he, htex, hpdf, hpng, hframe, hck, hle⟩ :=
    down_of_source conv m2 lo po u ntex w _ _ hd hinv hsc (writeCore_clockInv m1 pc ncsv w none hclk) hfr
      (by intro p hp; rw [hu] at hp; simp at hp; subst hp; simp [hcf]) hflag hdeps
  have hdc1 : depContents (writeCore m1 pc ncsv w none).1.fs u.csvs = [some (effective m1 (w.fs pc) ncsv)] := by
    rw [hu]; simp [depContents, hcf, hcc]
  rw [hdc1] at hpdf hpng
  have hcsv' : ∀ p ∈ u.csvs, w'.fs p = (writeCore m1 pc ncsv w none).1.fs p := by
    intro p hp
    exact hframe p (fun h => htc (h ▸ hp)) (fun h => hpc (h ▸ hp)) (fun h => hgc (h ▸ hp))
  have hfresh : UnitFresh conv u w'.fs [effective m1 (w.fs pc) ncsv] (effective m2 (w.fs u.tex) ntex) :=
    ⟨by rw [depContents_congr hcsv', hdc1]; rfl, htex, hpdf, hpng⟩
  refine ⟨w', c, he, hfresh, ?_, hck, Nat.le_trans (writeCore_clock_le m1 pc ncsv w none) hle,
    UnitInv.of_fresh hfresh (effective_deps conv u w.fs m2 ntex hinv hdeps)⟩
  intro q h0 h1 h2 h3
  rw [hframe q h1 h2 h3, hfr q h0]


/-! ## the pipeline of one plot is the bookkeeping on the resolved file names -/

theorem mfStep_filetype (ow : Bool) (name : Option String) (o : OutCtx) (m : MFKey × Tpl) :
    (mfStep ow name o m).1.filetype = o.filetype := by
  obtain ⟨k, t⟩ := m
  cases k <;> simp only [mfStep] <;> (repeat' split) <;> rfl

theorem mfCall_filetype (ow : Bool) (ms : List (MFKey × Tpl)) (name : Option String) (o : OutCtx) :
    (mfCall ow ms name o).1.filetype = o.filetype := by
  unfold mfCall
  suffices h : ∀ (acc : OutCtx × Bool),
      (ms.foldl (fun acc m => let r := mfStep ow name acc.1 m; (r.1, acc.2 || r.2)) acc).1.filetype = acc.1.filetype from h _
  induction ms with
  | nil => intro acc; rfl
  | cons m rest ih => intro acc; rw [List.foldl_cons, ih]; exact mfStep_filetype ow name acc.1 m

theorem mfStep_changed (ow : Bool) (name : Option String) (o : OutCtx) (m : MFKey × Tpl) :
    (mfStep ow name o m).1.changed = o.changed := by
  obtain ⟨k, t⟩ := m
  cases k <;> simp only [mfStep] <;> (repeat' split) <;> rfl

theorem mfCall_changed (ow : Bool) (ms : List (MFKey × Tpl)) (name : Option String) (o : OutCtx) :
    (mfCall ow ms name o).1.changed = o.changed := by
  unfold mfCall
  suffices h : ∀ (acc : OutCtx × Bool),
      (ms.foldl (fun acc m => let r := mfStep ow name acc.1 m; (r.1, acc.2 || r.2)) acc).1.changed = acc.1.changed from h _
  induction ms with
  | nil => intro acc; rfl
  | cons m rest ih => intro acc; rw [List.foldl_cons, ih]; exact mfStep_changed ow name acc.1 m

/-- `Write.run` on a text: the file name comes from `_make_filename`, the rest is `writeCore` -/
theorem writeVal_text (conv : Conv C) (outdir : String) (mode : WMode) (w : World C) (v : Val C) (c : C)
    (d fn fe p : String) (hd : v.data = .text c) (hw : v.noWrite = false)
    (hn : wmfCore outdir "output" v.out.dirname v.out.filename v.out.fileext v.out.filetype = .ok (d, fn, fe, p)) :
    writeVal conv outdir mode w v = .ok ((writeCore mode p c w v.out.changed).1,
      { v with data := .path p,
               out := { v.out with filename := some fn, fileext := some fe, filepath := some p,
                                   changed := (writeCore mode p c w v.out.changed).2 } }) := by
  unfold writeVal wMakeFilename
  rw [hd, hw]
  simp only [hn]
  rfl

theorem latexVal_path (conv : Conv C) (lo : Bool) (w : World C) (v : Val C) (t : String)
    (hft : v.out.filetype = some "tex") (hd : v.data = .path t) :
    latexVal conv lo w v =
      match latexCore conv lo t (pdfPathOf t) w v.out.changed with
      | .error e => .error e
      | .ok (w', chg', yielded) =>
        .ok (w', if yielded then
          some { v with data := .path (pdfPathOf t), out := { v.out with filetype := some "pdf", changed := some chg' } }
          else none) := by
  unfold latexVal
  rw [if_pos hft, hd]
  rfl

theorem pngVal_path (conv : Conv C) (po : Bool) (w : World C) (v : Val C) (t : String)
    (hft : v.out.filetype = some "pdf") (hd : v.data = .path t) :
    pngVal conv po "png" w v =
      .ok ((pngCore conv po t (pngPathOf t "png") w v.out.changed).1,
        { v with data := .path (pngPathOf t "png"),
                 out := { v.out with filetype := some "png",
                                     changed := some (pngCore conv po t (pngPathOf t "png") w v.out.changed).2 } }) := by
  unfold pngVal
  rw [if_pos hft, hd]

/-- `RenderLaTeX → Write → LaTeXToPDF → PDFToPNG` on a CSV value is `downCore` on the resolved names -/
theorem tailStage_eq_downCore (conv : Conv C) (cfg : Cfg) (tpl : Nat) (w : World C) (v : Val C) (deps : List String)
    (d fn fe pt : String) (hft : v.out.filetype = some "csv") (hnw : v.noWrite = false)
    (hdeps : (match v.group with
              | none => v.out.filepath.toList
              | some g => g.filterMap (·.filepath)) = deps)
    (hn : wmfCore cfg.outdir "output" v.out.dirname v.out.filename (some "tex") (some "tex") = .ok (d, fn, fe, pt))
    (u : FUnit) (hut : u.tex = pt) (hup : u.pdf = pdfPathOf pt) (hug : u.png = pngPathOf (pdfPathOf pt) "png") :
    ∀ w' oc, downCore conv cfg.w2 cfg.lo cfg.po u (conv.texOf tpl deps) w v.out.changed = .ok (w', oc) →
      ∃ ov, tailStage conv cfg tpl w v = .ok (w', ov) ∧ (oc = none → ov = none) ∧
        (∀ c, oc = some c → ∃ v', ov = some v' ∧ v'.data = .path u.png ∧ v'.out.changed = some c ∧
          v'.out.filepath = some u.tex) := by
  intro w' oc hs
  unfold tailStage
  have hr : renderVal conv tpl v = ⟨Data.text (conv.texOf tpl deps), v.name,
      { v.out with filetype := some "tex", fileext := some "tex" }, v.group, v.noWrite⟩ := by
    unfold renderVal; rw [if_pos hft]; subst hdeps; rfl
  rw [writeVal_text conv cfg.outdir cfg.w2 w (renderVal conv tpl v) (conv.texOf tpl deps) d fn fe pt
    (by rw [hr]) (by rw [hr]; exact hnw) (by rw [hr]; exact hn)]
  simp only [hr]
  rw [latexVal_path conv cfg.lo _ _ pt rfl rfl]
  unfold downCore convCore at hs
  rw [hut, hup, hug] at hs
  simp only at hs ⊢
  generalize latexCore conv cfg.lo pt (pdfPathOf pt) (writeCore cfg.w2 pt (conv.texOf tpl deps) w v.out.changed).1
    (writeCore cfg.w2 pt (conv.texOf tpl deps) w v.out.changed).2 = L at hs ⊢
  match L, hs with
  | .error e, hs => cases hs
  | .ok (w3, c3, false), hs =>
    simp only [Except.ok.injEq, Prod.mk.injEq] at hs
    obtain ⟨h1, h2⟩ := hs
    subst h1 h2
    exact ⟨none, by simp, fun _ => rfl, fun c hc => by cases hc⟩
  | .ok (w3, c3, true), hs =>
    simp only [Except.ok.injEq, Prod.mk.injEq] at hs
    obtain ⟨h1, h2⟩ := hs
    subst h1 h2
    simp only [if_true]
    rw [pngVal_path conv cfg.po w3 _ (pdfPathOf pt) rfl rfl]
    refine ⟨_, rfl, ?_, ?_⟩
    · intro h; cases h
    · intro c hc
      simp only [Option.some.injEq] at hc
      subst hc
      exact ⟨_, rfl, by rw [hug], rfl, by rw [hut]⟩

/-- **Refinement.**  When the naming stages resolve the plot to the unit `u` with CSV file `pc`, the pipeline
`ToCSV → MakeFilename → Write → RenderLaTeX → Write → LaTeXToPDF → PDFToPNG` acts on the world exactly as the
bookkeeping `sepCore` on these names; the yielded value names the image and carries the final `output.changed`. -/
theorem runPlot_eq_sepCore (conv : Conv C) (cfg : Cfg) (ms : List (MFKey × Tpl)) (tpl : Nat) (w : World C) (pl : Plot)
    (u : FUnit) (pc : String) (h : plotUnit cfg ms pl = .ok (u, pc)) :
    ∀ w' oc, sepCore conv cfg.w1 cfg.w2 cfg.lo cfg.po u pc (conv.csvOf pl.data) (conv.texOf tpl [pc]) w = .ok (w', oc) →
      ∃ ov, runPlot conv cfg ms tpl w pl = .ok (w', ov) ∧
        (oc = none → ov = none) ∧
        (∀ c, oc = some c → ∃ v, ov = some v ∧ v.data = .path u.png ∧ v.out.changed = some c ∧ v.out.filepath = some u.tex) := by
  intro w' oc hs
  have hft : (plotCtx cfg ms pl).filetype = some "csv" := by
    unfold plotCtx; rw [mfCall_filetype]
  have hch : (plotCtx cfg ms pl).changed = none := by
    unfold plotCtx; rw [mfCall_changed]
  cases h1 : wmfCore cfg.outdir "output" (plotCtx cfg ms pl).dirname (plotCtx cfg ms pl).filename
      (plotCtx cfg ms pl).fileext (some "csv") with
  | error e => simp [plotUnit, h1] at h
  | ok r1 =>
    obtain ⟨d1, fn, fe, pc'⟩ := r1
    cases h2 : wmfCore cfg.outdir "output" (plotCtx cfg ms pl).dirname (some fn) (some "tex") (some "tex") with
    | error e => simp [plotUnit, h1, h2] at h
    | ok r2 =>
      obtain ⟨d2, fn2, fe2, pt⟩ := r2
      simp [plotUnit, h1, h2] at h
      obtain ⟨hu, hpc⟩ := h
      subst hpc hu
      unfold runPlot memberStage
      have hv : (mfVal cfg.mf.overwrite ms (toCsvVal conv pl.name pl.data {}) : Val C)
          = ⟨.text (conv.csvOf pl.data), pl.name, plotCtx cfg ms pl, none, false⟩ := rfl
      rw [hv, writeVal_text conv cfg.outdir cfg.w1 w _ (conv.csvOf pl.data) d1 fn fe pc' rfl rfl (by rw [← hft] at h1; exact h1)]
      simp only [hch]
      unfold sepCore at hs
      simp only at hs
      exact tailStage_eq_downCore conv cfg tpl (writeCore cfg.w1 pc' (conv.csvOf pl.data) w none).1
        ⟨.path pc', pl.name, { plotCtx cfg ms pl with filename := some fn, fileext := some fe, filepath := some pc', changed := (writeCore cfg.w1 pc' (conv.csvOf pl.data) w none).2 }, none, false⟩
        [pc'] d2 fn2 fe2 pt hft rfl rfl h2 _ rfl rfl rfl w' oc hs


/-! ## one plot, pipeline level -/

theorem FUnit.mem_paths {u : FUnit} {q : String} : q ∈ u.paths ↔ q ∈ u.csvs ∨ q = u.tex ∨ q = u.pdf ∨ q = u.png := by
  simp [FUnit.paths]

theorem UnitInv.congr {conv : Conv C} {u : FUnit} {fs fs' : FS C} (h : UnitInv conv u fs)
    (heq : ∀ p ∈ u.paths, fs' p = fs p) : UnitInv conv u fs' := by
  have ht : fs' u.tex = fs u.tex := heq _ (FUnit.mem_paths.mpr (.inr (.inl rfl)))
  have hp : fs' u.pdf = fs u.pdf := heq _ (FUnit.mem_paths.mpr (.inr (.inr (.inl rfl))))
  have hg : fs' u.png = fs u.png := heq _ (FUnit.mem_paths.mpr (.inr (.inr (.inr rfl))))
  have hc : ∀ p ∈ u.csvs, fs' p = fs p := fun p hp => heq p (FUnit.mem_paths.mpr (.inl hp))
  refine ⟨?_, ?_, ?_⟩
  · intro tf h1; exact h.texDeps tf (by rw [← ht]; exact h1)
  · intro pf tf h1 h2 h3
    rw [depContents_congr hc]
    exact h.pdfCons pf tf (by rw [← hp]; exact h1) (by rw [← ht]; exact h2) (fun p hp' => by rw [← hc p hp']; exact h3 p hp')
  · intro gf pf h1 h2; exact h.pngCons gf pf (by rw [← hg]; exact h1) (by rw [← hp]; exact h2)

theorem SourceClosed.congr {u : FUnit} {fs fs' : FS C} (h : SourceClosed u fs)
    (heq : ∀ p ∈ u.paths, fs' p = fs p) : SourceClosed u fs' := by
  have ht : fs' u.tex = fs u.tex := heq _ (FUnit.mem_paths.mpr (.inr (.inl rfl)))
  have hp : fs' u.pdf = fs u.pdf := heq _ (FUnit.mem_paths.mpr (.inr (.inr (.inl rfl))))
  have hc : ∀ p ∈ u.csvs, fs' p = fs p := fun p hp => heq p (FUnit.mem_paths.mpr (.inl hp))
  intro h1
  rw [hp] at h1
  obtain ⟨h2, h3⟩ := h h1
  exact ⟨by rw [ht]; exact h2, fun p hp' => by rw [hc p hp']; exact h3 p hp'⟩

theorem UnitFresh.congr {conv : Conv C} {u : FUnit} {fs fs' : FS C} {ecsvs : List C} {etex : C}
    (h : UnitFresh conv u fs ecsvs etex) (heq : ∀ p ∈ u.paths, fs' p = fs p) : UnitFresh conv u fs' ecsvs etex := by
  have ht : fs' u.tex = fs u.tex := heq _ (FUnit.mem_paths.mpr (.inr (.inl rfl)))
  have hp : fs' u.pdf = fs u.pdf := heq _ (FUnit.mem_paths.mpr (.inr (.inr (.inl rfl))))
  have hg : fs' u.png = fs u.png := heq _ (FUnit.mem_paths.mpr (.inr (.inr (.inr rfl))))
  have hc : ∀ p ∈ u.csvs, fs' p = fs p := fun p hp => heq p (FUnit.mem_paths.mpr (.inl hp))
  obtain ⟨h1, h2, h3, h4⟩ := h
  refine ⟨by rw [depContents_congr hc]; exact h1, ?_, ?_, ?_⟩
  · unfold HasContent; rw [ht]; exact h2
  · unfold HasContent; rw [hp]; exact h3
  · unfold HasContent; rw [hg]; exact h4

/-- the converters' texts name what they are given (`depsOf` reads the names back from a rendered text) -/
def ConvOK (conv : Conv C) : Prop := ∀ t ps, conv.depsOf (conv.texOf t ps) = ps

/-- what "fresh" means for a plot after a run that started in world `w0`: the four files hold what is produced
from the current data and template (an `existing_unchanged` Write keeps a source file that existed in `w0`) -/
def PlotFresh (conv : Conv C) (cfg : Cfg) (tpl : Nat) (w0 : World C) (fs' : FS C) (pl : Plot) (up : FUnit × String) : Prop :=
  UnitFresh conv up.1 fs' [effective cfg.w1 (w0.fs up.2) (conv.csvOf pl.data)]
    (effective cfg.w2 (w0.fs up.1.tex) (conv.texOf tpl [up.2]))

theorem plotUnit_csvs {cfg : Cfg} {ms : List (MFKey × Tpl)} {pl : Plot} {up : FUnit × String}
    (h : plotUnit cfg ms pl = .ok up) : up.1.csvs = [up.2] := by
  unfold plotUnit at h
  simp only at h
  split at h
  · cases h
  · split at h
    · cases h
    · cases h; rfl

/-- **one plot through the whole pipeline** (all option settings), for a run that starts `SourceClosed` -/
theorem runPlot_fresh (conv : Conv C) (cfg : Cfg) (ms : List (MFKey × Tpl)) (tpl : Nat) (w : World C) (pl : Plot)
    (up : FUnit × String) (h : plotUnit cfg ms pl = .ok up) (hok : ConvOK conv)
    (hd : up.1.Distinct) (hclk : ClockInv w) (hinv : UnitInv conv up.1 w.fs) (hsc : SourceClosed up.1 w.fs) :
    ∃ w' v, runPlot conv cfg ms tpl w pl = .ok (w', some v) ∧ v.data = .path up.1.png ∧
      PlotFresh conv cfg tpl w w'.fs pl up ∧
      (∀ q, q ∉ up.1.paths → w'.fs q = w.fs q) ∧ ClockInv w' ∧ w.clock ≤ w'.clock ∧ UnitInv conv up.1 w'.fs := by
  obtain ⟨u, pc⟩ := up
  have hcs : u.csvs = [pc] := plotUnit_csvs h
  obtain ⟨w', c, hs, hfresh, hframe, hck, hle, hinv'⟩ :=
    sepCore_fresh conv cfg.w1 cfg.w2 cfg.lo cfg.po u pc (conv.csvOf pl.data) (conv.texOf tpl [pc]) w hcs hd hclk hinv hsc
      (by rw [hok, hcs])
  obtain ⟨ov, hr, _, hv⟩ := runPlot_eq_sepCore conv cfg ms tpl w pl u pc h w' (some c) hs
  obtain ⟨v, hov, hdata, _, _⟩ := hv c rfl
  subst hov
  refine ⟨w', v, hr, hdata, hfresh, ?_, hck, hle, hinv'⟩
  intro q hq
  rw [FUnit.mem_paths] at hq
  exact hframe q (fun h => hq (.inl h)) (fun h => hq (.inr (.inl h))) (fun h => hq (.inr (.inr (.inl h))))
    (fun h => hq (.inr (.inr (.inr h))))


/-! ## several plots -/

/-- two units share no file -/
def FUnit.Disjoint (a b : FUnit) : Prop := ∀ p ∈ a.paths, p ∉ b.paths

/-- the naming stages resolve every plot to the unit paired with it -/
def Resolves (cfg : Cfg) (ms : List (MFKey × Tpl)) (pus : List (Plot × (FUnit × String))) : Prop :=
  ∀ x ∈ pus, plotUnit cfg ms x.1 = .ok x.2

/-- the units are well formed: the files of one unit are different, different units share no file -/
def UnitsOK (us : List (FUnit × String)) : Prop :=
  (∀ up ∈ us, up.1.Distinct) ∧ us.Pairwise (fun a b => a.1.Disjoint b.1 ∧ b.1.Disjoint a.1)

/-- **several plots as separate values of one flow**, all option settings, for a run that starts `SourceClosed` -/
theorem runPlots_fresh (conv : Conv C) (cfg : Cfg) (ms : List (MFKey × Tpl)) (tpl : Nat) (hok : ConvOK conv) :
    ∀ (pus : List (Plot × (FUnit × String))) (w : World C),
      Resolves cfg ms pus → UnitsOK (pus.map (·.2)) → ClockInv w →
      (∀ x ∈ pus, UnitInv conv x.2.1 w.fs ∧ SourceClosed x.2.1 w.fs) →
      ∃ w' vs, runPlots conv cfg ms tpl w (pus.map (·.1)) = .ok (w', vs) ∧
        vs.map (fun v => dataPath v) = pus.map (fun x => x.2.1.png) ∧
        (∀ x ∈ pus, PlotFresh conv cfg tpl w w'.fs x.1 x.2) ∧
        (∀ q, (∀ x ∈ pus, q ∉ x.2.1.paths) → w'.fs q = w.fs q) ∧ ClockInv w' ∧ w.clock ≤ w'.clock ∧
        (∀ x ∈ pus, UnitInv conv x.2.1 w'.fs) := by
  intro pus
  induction pus with
  | nil =>
    intro w _ _ hclk _
    refine ⟨w, [], rfl, rfl, ?_, fun _ _ => rfl, hclk, Nat.le_refl _, ?_⟩
    · intro x h; cases h
    · intro x h; cases h
  | cons x pus ih =>
    intro w hres hu hclk hall
    obtain ⟨hdist, hpw⟩ := hu
    rw [List.map_cons, List.pairwise_cons] at hpw
    obtain ⟨hdisj, hpw'⟩ := hpw
    have hdisj' : ∀ y ∈ pus, x.2.1.Disjoint y.2.1 ∧ y.2.1.Disjoint x.2.1 :=
      fun y hy => hdisj y.2 (List.mem_map_of_mem hy)
    obtain ⟨hinv, hsc⟩ := hall x (by simp)
    obtain ⟨w1, v, hr, hdata, hfresh, hframe, hck1, hle1, hinv1⟩ :=
      runPlot_fresh conv cfg ms tpl w x.1 x.2 (hres x (by simp)) hok (hdist x.2 (by simp)) hclk hinv hsc
    -- the other units are untouched by the first plot
    have hother : ∀ y ∈ pus, ∀ p ∈ y.2.1.paths, w1.fs p = w.fs p := by
      intro y hy p hp
      exact hframe p (fun h => (hdisj' y hy).1 p h hp)
    obtain ⟨w', vs, hrs, hdatas, hfreshs, hframes, hck', hle', hinvs⟩ :=
      ih w1 (fun y hy => hres y (by simp [hy])) ⟨fun up' h => hdist up' (by simp at h ⊢; exact .inr h), hpw'⟩ hck1
        (fun y hy => ⟨(hall y (by simp [hy])).1.congr (hother y hy), (hall y (by simp [hy])).2.congr (hother y hy)⟩)
    -- the first unit is untouched by the other plots
    have hfirst : ∀ p ∈ x.2.1.paths, w'.fs p = w1.fs p := by
      intro p hp
      exact hframes p (fun y hy h => (hdisj' y hy).1 p hp h)
    refine ⟨w', v :: vs, ?_, ?_, ?_, ?_, hck', Nat.le_trans hle1 hle', ?_⟩
    · simp only [List.map_cons]; unfold runPlots; rw [hr]; simp only; rw [hrs]; rfl
    · rw [List.map_cons, List.map_cons, hdatas]; simp only [dataPath, hdata]
    · intro y hy
      simp only [List.mem_cons] at hy
      rcases hy with h | h
      · subst h; exact hfresh.congr hfirst
      · -- freshness of the others was stated relative to `w1`, which agrees with `w` on their files
        have hh := hfreshs y h
        unfold PlotFresh at hh ⊢
        have hcs := plotUnit_csvs (hres y (by simp [h]))
        have e1 : w1.fs y.2.2 = w.fs y.2.2 := hother y h _ (FUnit.mem_paths.mpr (.inl (by rw [hcs]; simp)))
        have e2 : w1.fs y.2.1.tex = w.fs y.2.1.tex := hother y h _ (FUnit.mem_paths.mpr (.inr (.inl rfl)))
        rw [← e1, ← e2]; exact hh
    · intro q hq
      rw [hframes q (fun y h => hq y (by simp [h])), hframe q (hq x (by simp))]
    · intro y hy
      simp only [List.mem_cons] at hy
      rcases hy with h | h
      · subst h; exact hinv1.congr hfirst
      · exact hinvs y h


/-! ## a group of plots: one combined `.tex` / pdf / image -/

theorem membersCore_spec (m1 : WMode) :
    ∀ (members : List (String × C)) (w : World C), (members.map (·.1)).Nodup → ClockInv w →
      let r := membersCore m1 w members
      (∀ q, q ∉ members.map (·.1) → r.1.fs q = w.fs q) ∧
      depContents r.1.fs (members.map (·.1)) = members.map (fun pc => some (effective m1 (w.fs pc.1) pc.2)) ∧
      (some true ∈ r.2 ∨ (∃ p ∈ members.map (·.1), w.fs p = none) ∨ (∀ p ∈ members.map (·.1), r.1.fs p = w.fs p)) ∧
      ClockInv r.1 ∧ w.clock ≤ r.1.clock := by
  intro members
  induction members with
  | nil => intro w _ hclk; exact ⟨fun _ _ => rfl, rfl, .inr (.inr (fun _ h => by cases h)), hclk, Nat.le_refl _⟩
  | cons pc rest ih =>
    intro w hnd hclk
    obtain ⟨p, c⟩ := pc
    simp only [List.map_cons, List.nodup_cons] at hnd
    obtain ⟨hp, hnd'⟩ := hnd
    have hfr1 : ∀ q, q ≠ p → (writeCore m1 p c w none).1.fs q = w.fs q := fun q h => writeCore_frame m1 p c w none h
    obtain ⟨ih1, ih2, ih3, ih4, ih5⟩ := ih (writeCore m1 p c w none).1 hnd' (writeCore_clockInv m1 p c w none hclk)
    simp only at ih1 ih2 ih3 ih4 ih5
    simp only [membersCore, List.map_cons]
    obtain ⟨cf, hcf, hcc⟩ := writeCore_content m1 p c w none
    have hp1 : (membersCore m1 (writeCore m1 p c w none).1 rest).1.fs p = (writeCore m1 p c w none).1.fs p := ih1 p hp
    refine ⟨?_, ?_, ?_, ih4, Nat.le_trans (writeCore_clock_le m1 p c w none) ih5⟩
    · intro q hq
      simp only [List.mem_cons, not_or] at hq
      rw [ih1 q hq.2, hfr1 q hq.1]
    · simp only [depContents, List.map_cons, List.cons.injEq]
      refine ⟨by rw [hp1, hcf, ← hcc]; rfl, ?_⟩
      have := ih2
      simp only [depContents] at this
      rw [this]
      apply List.map_congr_left
      intro pc' hpc'
      have hne : pc'.1 ≠ p := fun h => hp (h ▸ List.mem_map_of_mem hpc')
      rw [hfr1 _ hne]
    · rcases writeCore_cases m1 p c w none with h | ⟨heq, _⟩ | ⟨hnone, _⟩
      · exact .inl (by simp [h])
      · rcases ih3 with h3 | ⟨q, hq, hqn⟩ | h3
        · exact .inl (by simp [h3])
        · refine .inr (.inl ⟨q, by simp [hq], ?_⟩)
          rw [← hfr1 q (fun h => hp (h ▸ hq))]; exact hqn
        · refine .inr (.inr ?_)
          intro q hq
          simp only [List.mem_cons] at hq
          rcases hq with rfl | hq
          · rw [hp1, heq]
          · rw [h3 q hq, hfr1 q (fun h => hp (h ▸ hq))]
      · exact .inr (.inl ⟨p, by simp, hnone⟩)

/-! ### the group pipeline is `grpCore` on the resolved file names -/

theorem mfStep_nm (ow : Bool) (name : Option String) (o : OutCtx) (m : MFKey × Tpl) :
    nm (mfStep ow name o m).1 = (mfStep ow name (nm o) m).1 := by
  obtain ⟨k, t⟩ := m
  obtain ⟨fnm, dn, fe, ft, px, sx, fp, ch⟩ := o
  cases k <;> cases ow <;> cases fnm <;> cases dn <;> cases fe <;> simp only [mfStep, nm] <;> (repeat' split) <;> simp_all

theorem mfCall_nm (ow : Bool) (ms : List (MFKey × Tpl)) (name : Option String) (o : OutCtx) :
    nm (mfCall ow ms name o).1 = (mfCall ow ms name (nm o)).1 := by
  unfold mfCall
  suffices h : ∀ (acc acc' : OutCtx × Bool), nm acc.1 = acc'.1 →
      nm (ms.foldl (fun acc m => let r := mfStep ow name acc.1 m; (r.1, acc.2 || r.2)) acc).1
        = (ms.foldl (fun acc m => let r := mfStep ow name acc.1 m; (r.1, acc.2 || r.2)) acc').1 from h _ _ rfl
  induction ms with
  | nil => intro acc acc' h; exact h
  | cons m rest ih =>
    intro acc acc' h
    rw [List.foldl_cons, List.foldl_cons]
    apply ih
    simp only
    rw [mfStep_nm, h]

theorem updateWithGroup_nm (o : OutCtx) (a b : List OutCtx) (old : OutCtx) (h : a.map nm = b.map nm) :
    nm (updateWithGroup o a old) = nm (updateWithGroup o b old) := by
  have hf : ∀ (f : OutCtx → Option String), (∀ x, f (nm x) = f x) → a.map f = b.map f := by
    intro f hf
    have : (a.map nm).map f = (b.map nm).map f := by rw [h]
    simpa [List.map_map, Function.comp_def, hf] using this
  have h1 := hf (·.filename) (fun _ => rfl)
  have h2 := hf (·.dirname) (fun _ => rfl)
  have h3 := hf (·.fileext) (fun _ => rfl)
  have h4 := hf (·.filetype) (fun _ => rfl)
  have h5 := hf (·.pfx) (fun _ => rfl)
  have h6 := hf (·.sfx) (fun _ => rfl)
  have h7 := hf (·.filepath) (fun _ => rfl)
  unfold updateWithGroup
  simp only [nm, updOut, diffOut, interOut, h1, h2, h3, h4, h5, h6, h7]
  cases combineChanged o.changed (a.map (·.changed)) <;> cases combineChanged o.changed (b.map (·.changed)) <;> rfl

theorem memberStage_eq (conv : Conv C) (cfg : Cfg) (ms : List (MFKey × Tpl)) (w : World C) (pl : Plot)
    (on : OutCtx) (pc : String) (h : memberNamed cfg ms pl = .ok (on, pc)) :
    memberStage conv cfg ms w pl = .ok ((writeCore cfg.w1 pc (conv.csvOf pl.data) w none).1,
      ⟨.path pc, pl.name, { on with changed := (writeCore cfg.w1 pc (conv.csvOf pl.data) w none).2 }, none, false⟩) := by
  have hft : (plotCtx cfg ms pl).filetype = some "csv" := by unfold plotCtx; rw [mfCall_filetype]
  have hch : (plotCtx cfg ms pl).changed = none := by unfold plotCtx; rw [mfCall_changed]
  unfold memberNamed at h
  cases h1 : wmfCore cfg.outdir "output" (plotCtx cfg ms pl).dirname (plotCtx cfg ms pl).filename
      (plotCtx cfg ms pl).fileext (some "csv") with
  | error e => simp [h1] at h
  | ok r1 =>
    obtain ⟨d1, fn, fe, pc'⟩ := r1
    simp only [h1, Except.ok.injEq, Prod.mk.injEq] at h
    obtain ⟨hon, hpc⟩ := h
    subst hpc hon
    unfold memberStage
    have hv : (mfVal cfg.mf.overwrite ms (toCsvVal conv pl.name pl.data {}) : Val C)
        = ⟨.text (conv.csvOf pl.data), pl.name, plotCtx cfg ms pl, none, false⟩ := rfl
    rw [hv, writeVal_text conv cfg.outdir cfg.w1 w _ (conv.csvOf pl.data) d1 fn fe pc' rfl rfl (by rw [← hft] at h1; exact h1)]
    simp only [hch]

theorem runMembers_eq (conv : Conv C) (cfg : Cfg) (ms : List (MFKey × Tpl)) :
    ∀ (mems : List (Plot × (OutCtx × String))) (w : World C),
      (∀ x ∈ mems, memberNamed cfg ms x.1 = .ok x.2) →
      runMembers conv cfg ms w (mems.map (·.1)) =
        .ok ((membersCore cfg.w1 w (mems.map fun x => (x.2.2, conv.csvOf x.1.data))).1,
             memberVals mems (membersCore cfg.w1 w (mems.map fun x => (x.2.2, conv.csvOf x.1.data))).2) := by
  intro mems
  induction mems with
  | nil => intro w _; rfl
  | cons x rest ih =>
    intro w h
    simp only [List.map_cons, runMembers]
    rw [memberStage_eq conv cfg ms w x.1 x.2.1 x.2.2 (h x (by simp))]
    simp only
    rw [ih _ (fun y hy => h y (by simp [hy]))]
    rfl

theorem memberVals_outs (mems : List (Plot × (OutCtx × String))) :
    ∀ (flags : List (Option Bool)), flags.length = mems.length →
      ((memberVals mems flags : List (Val C)).map (·.out)).map nm = (mems.map (·.2.1)).map nm ∧
      ((memberVals mems flags : List (Val C)).map (·.out)).map (·.changed) = flags ∧
      ((memberVals mems flags : List (Val C)).map (·.out)).filterMap (·.filepath) = (mems.map (·.2.1)).filterMap (·.filepath) ∧
      (memberVals mems flags : List (Val C)).map dataPath = mems.map (·.2.2) := by
  induction mems with
  | nil => intro flags h; cases flags with
    | nil => exact ⟨rfl, rfl, rfl, rfl⟩
    | cons _ _ => cases h
  | cons x rest ih =>
    intro flags h
    cases flags with
    | nil => cases h
    | cons f fs =>
      obtain ⟨i1, i2, i3, i4⟩ := ih fs (by simpa using h)
      refine ⟨?_, ?_, ?_, ?_⟩
      · simp only [memberVals, List.map_cons, i1]; rfl
      · simp only [memberVals, List.map_cons, i2]
      · simp only [memberVals, List.map_cons, List.filterMap_cons, i3]
      · simp only [memberVals, List.map_cons, i4, dataPath]

theorem membersCore_length (m1 : WMode) : ∀ (members : List (String × C)) (w : World C),
    (membersCore m1 w members).2.length = members.length := by
  intro members
  induction members with
  | nil => intro w; rfl
  | cons pc rest ih => intro w; obtain ⟨p, c⟩ := pc; simp [membersCore, ih]

theorem allEq_none_cons {α : Type} [DecidableEq α] (xs : List (Option α)) : allEq (none :: xs) = none := by
  simp [allEq]

theorem allEq_const {α : Type} [DecidableEq α] (v : Option α) : ∀ (xs : List (Option α)), xs ≠ [] → (∀ x ∈ xs, x = v) →
    allEq xs = v := by
  intro xs hne hall
  cases xs with
  | nil => exact absurd rfl hne
  | cons a rest =>
    have ha : a = v := hall a (by simp)
    subst ha
    simp only [allEq]
    rw [if_pos]
    rw [List.all_eq_true]
    intro x hx
    simp [hall x (by simp [hx])]


theorem memberNamed_fields {cfg : Cfg} {ms : List (MFKey × Tpl)} {pl : Plot} {x : OutCtx × String}
    (h : memberNamed cfg ms pl = .ok x) : x.1.filetype = some "csv" ∧ x.1.filepath = some x.2 := by
  have hft : (plotCtx cfg ms pl).filetype = some "csv" := by unfold plotCtx; rw [mfCall_filetype]
  unfold memberNamed at h
  cases h1 : wmfCore cfg.outdir "output" (plotCtx cfg ms pl).dirname (plotCtx cfg ms pl).filename
      (plotCtx cfg ms pl).fileext (some "csv") with
  | error e => simp [h1] at h
  | ok r1 =>
    obtain ⟨d1, fn, fe, pc'⟩ := r1
    simp only [h1, Except.ok.injEq] at h
    subst h
    exact ⟨hft, rfl⟩

theorem filterMap_filepath (mems : List (Plot × (OutCtx × String))) (h : ∀ x ∈ mems, x.2.1.filepath = some x.2.2) :
    (mems.map (·.2.1)).filterMap (·.filepath) = mems.map (·.2.2) := by
  induction mems with
  | nil => rfl
  | cons x rest ih =>
    simp only [List.map_cons, List.filterMap_cons, h x (by simp)]
    rw [ih (fun y hy => h y (by simp [hy]))]

end Lena.C19
