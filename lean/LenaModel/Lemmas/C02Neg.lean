import LenaModel.Lemmas.C02
/-! # C02 — `Slice._run_negative_islice` as a generator: every branch realises `negSpec` -/

namespace Lena.C02

variable {σ α β : Type}

/-! ## loop iterations that yield nothing -/

/-- the loop goes from `X` to `Y` in exactly `j` iterations, yielding nothing -/
def Steps (step : σ → Step σ α) (X : σ) (j : Nat) (Y : σ) : Prop :=
  ∀ n, iter step (n + j) X = iter step n Y

theorem Steps.refl (step : σ → Step σ α) (X : σ) : Steps step X 0 X := fun _ => rfl

theorem Steps.cons {step : σ → Step σ α} {X X' Y : σ} {j : Nat} (h : step X = .cont X')
    (h' : Steps step X' j Y) : Steps step X (j + 1) Y := by
  intro n
  rw [← Nat.add_assoc, iter_cont _ h]
  exact h' n

theorem Steps.one {step : σ → Step σ α} {X X' : σ} (h : step X = .cont X') : Steps step X 1 X' :=
  Steps.cons h (Steps.refl _ _)

theorem Steps.trans {step : σ → Step σ α} {X Y Z : σ} {j k : Nat} (h : Steps step X j Y)
    (h' : Steps step Y k Z) : Steps step X (k + j) Z := by
  intro n
  rw [← Nat.add_assoc, h, h']

/-- a finished upstream generator stays finished -/
theorem produces_after_done {up : Gen σ α} {cnt : σ → Nat} {fu : Nat} {s' : σ}
    (h : up.next fu s' = .done s') : Produces up cnt fu s' [] (cnt s') := Feeds.done h h

section neg
variable (start stop : Option Int) (up : Gen σ α) (cnt : σ → Nat) (fu : Nat)

/-- `for _ in zip(range(a), flow): pass`: consumes `a - i` values (or all there are) -/
theorem neg_skip_loop (a : Nat) (hstart : start = some (a : Int)) :
    ∀ {s vals cf}, Produces up cnt fu s vals cf → ∀ i, i ≤ a →
      ∃ s' j, Steps (negStep start stop up fu) (s, NSt.skip i) j (s', NSt.fill 0 []) ∧
        j ≤ min (a - i) vals.length + 1 ∧
        Produces up cnt fu s' (vals.drop (a - i)) cf ∧ cnt s' = (SF.mk (cnt s) vals cf).need (a - i) := by
  intro s vals cf h
  replace h : Feeds up cnt fu s vals (some cf) := h
  generalize he : some cf = e at h
  have hsa : (start.getD 0).toNat = a := by subst hstart; simp
  induction h with
  | more => cases he
  | @done s s' h1 h2 =>
    cases he
    intro i hi
    by_cases hge : i ≥ a
    · refine ⟨s, 1, Steps.one (by simp [negStep, hsa, hge]), by omega, ?_, ?_⟩
      · have : a - i = 0 := by omega
        rw [this]; exact Feeds.done h1 h2
      · have : a - i = 0 := by omega
        simp [this]
    · refine ⟨s', 1, Steps.one (by simp [negStep, hsa, hge, h1]), by omega, ?_, ?_⟩
      · simpa using produces_after_done h2
      · obtain ⟨k, hk⟩ : ∃ k, a - i = k + 1 := ⟨a - i - 1, by omega⟩
        simp [hk]
  | @item s s' v rest e hi hrest ih =>
    cases he
    intro i hia
    by_cases hge : i ≥ a
    · have h0 : a - i = 0 := by omega
      refine ⟨s, 1, Steps.one (by simp [negStep, hsa, hge]), by omega, ?_, by simp [h0]⟩
      rw [h0]; exact Feeds.item hi hrest
    · obtain ⟨s'', j, k1, k2, k3, k4⟩ := ih rfl (i + 1) (by omega)
      obtain ⟨k, hk⟩ : ∃ k, a - i = k + 1 := ⟨a - i - 1, by omega⟩
      have hk' : a - (i + 1) = k := by omega
      refine ⟨s'', j + 1, Steps.cons (by simp [negStep, hsa, hge, hi]) k1, ?_, ?_, ?_⟩
      · simp only [List.length_cons]; omega
      · rw [hk, List.drop_succ_cons, ← hk']; exact k3
      · rw [k4, hk, hk']; simp

/-- `fill_deque(flow, m)`: the first `m - i` values (or all there are), newest first -/
theorem neg_fill_loop :
    ∀ {s vals cf}, Produces up cnt fu s vals cf → ∀ i d, d.length = i → i ≤ negLen stop →
      ∃ s' j, Steps (negStep start stop up fu) (s, NSt.fill i d) j
          (s', NSt.filled (((vals.take (negLen stop - i)).map Prod.fst).reverse ++ d)) ∧
        j ≤ min (negLen stop - i) vals.length + 1 ∧
        Produces up cnt fu s' (vals.drop (negLen stop - i)) cf ∧
        cnt s' = (SF.mk (cnt s) vals cf).need (negLen stop - i) := by
  intro s vals cf h
  replace h : Feeds up cnt fu s vals (some cf) := h
  generalize he : some cf = e at h
  induction h with
  | more => cases he
  | @done s s' h1 h2 =>
    cases he
    intro i d hd hi
    by_cases hge : i ≥ negLen stop
    · have h0 : negLen stop - i = 0 := by omega
      refine ⟨s, 1, Steps.one (by simp [negStep, hge]), by omega, ?_, by simp [h0]⟩
      rw [h0]; exact Feeds.done h1 h2
    · refine ⟨s', 1, Steps.one (by simp [negStep, hge, h1]), by omega, ?_, ?_⟩
      · simpa using produces_after_done h2
      · obtain ⟨k, hk⟩ : ∃ k, negLen stop - i = k + 1 := ⟨negLen stop - i - 1, by omega⟩
        simp [hk]
  | @item s s' v rest e hi hrest ih =>
    cases he
    intro i d hd him
    by_cases hge : i ≥ negLen stop
    · have h0 : negLen stop - i = 0 := by omega
      refine ⟨s, 1, Steps.one (by simp [negStep, hge]), by omega, ?_, by simp [h0]⟩
      · rw [h0]; exact Feeds.item hi hrest
    · have happ : Lena.C17.dqAppendLeft (negLen stop) d v = v :: d := by
        unfold Lena.C17.dqAppendLeft
        exact List.take_of_length_le (by simp; omega)
      obtain ⟨s'', j, k1, k2, k3, k4⟩ := ih rfl (i + 1) (v :: d) (by simp [hd]) (by omega)
      obtain ⟨k, hk⟩ : ∃ k, negLen stop - i = k + 1 := ⟨negLen stop - i - 1, by omega⟩
      have hk' : negLen stop - (i + 1) = k := by omega
      refine ⟨s'', j + 1, ?_, ?_, ?_, ?_⟩
      · have hstep : negStep start stop up fu (s, NSt.fill i d) = .cont (s', NSt.fill (i + 1) (v :: d)) := by
          simp [negStep, hge, hi, happ]
        have := Steps.cons hstep k1
        rw [hk'] at this
        rw [hk]
        simpa using this
      · simp only [List.length_cons]; omega
      · rw [hk, List.drop_succ_cons, ← hk']; exact k3
      · rw [k4, hk, hk']; simp

/-- `deque(flow, maxlen=m)`: reads the flow to its end -/
theorem neg_drain_loop :
    ∀ {s vals cf}, Produces up cnt fu s vals cf → ∀ d,
      ∃ s', Steps (negStep start stop up fu) (s, NSt.drain d) (vals.length + 1)
          (s', NSt.drained ((vals.map Prod.fst).foldl (Lena.C17.dqAppend (negLen start)) d)) ∧
        up.next fu s' = .done s' ∧ cnt s' = cf := by
  intro s vals cf h
  replace h : Feeds up cnt fu s vals (some cf) := h
  generalize he : some cf = e at h
  induction h with
  | more => cases he
  | @done s s' h1 h2 =>
    cases he
    intro d
    exact ⟨s', Steps.one (by simp [negStep, h1]), h2, rfl⟩
  | @item s s' v rest e hi hrest ih =>
    cases he
    intro d
    obtain ⟨s'', k1, k2, k3⟩ := ih rfl (Lena.C17.dqAppend (negLen start) d v)
    exact ⟨s'', Steps.cons (by simp [negStep, hi]) k1, k2, k3⟩

/-- the loop of the branch `start < 0 ≤ stop`: either the flow has more than `bound` values and the
generator is about to return on the arrival of value number `bound + 1`, or the flow is read to its end -/
theorem neg_pos_loop (bound : Nat) (hb : (stop.getD 0 - start.getD 0).toNat = bound) :
    ∀ {s vals cf}, Produces up cnt fu s vals cf → ∀ ind d, ind ≤ bound →
      (if bound < ind + vals.length then
        ∃ s1 j d1 v s', Steps (negStep start stop up fu) (s, NSt.posLoop ind d) j (s1, NSt.posLoop bound d1) ∧
          j ≤ vals.length ∧ up.next fu s1 = .item v s' ∧
          cnt s' = (SF.mk (cnt s) vals cf).need (bound - ind + 1)
       else
        ∃ s', Steps (negStep start stop up fu) (s, NSt.posLoop ind d) (vals.length + 1)
            (s', NSt.emitUpTo (stop.getD 0 - (((ind + vals.length : Nat) : Int)
              - (((vals.map Prod.fst).foldl (Lena.C17.dqAppend (negLen start)) d).length : Nat))).toNat
              ((vals.map Prod.fst).foldl (Lena.C17.dqAppend (negLen start)) d)) ∧
          up.next fu s' = .done s' ∧ cnt s' = cf) := by
  intro s vals cf h
  replace h : Feeds up cnt fu s vals (some cf) := h
  generalize he : some cf = e at h
  induction h with
  | more => cases he
  | @done s s' h1 h2 =>
    cases he
    intro ind d hind
    have : ¬ (bound < ind + ([] : List (α × Nat)).length) := by simp; omega
    rw [if_neg this]
    refine ⟨s', Steps.one ?_, h2, rfl⟩
    simp [negStep, h1]
  | @item s s' v rest e hi hrest ih =>
    cases he
    intro ind d hind
    by_cases hge : ind ≥ bound
    · have hlt : bound < ind + ((v, cnt s') :: rest).length := by simp; omega
      rw [if_pos hlt]
      have hib : ind = bound := by omega
      subst hib
      refine ⟨s, 0, d, v, s', Steps.refl _ _, by simp, hi, ?_⟩
      simp
    · have hstep : negStep start stop up fu (s, NSt.posLoop ind d)
          = .cont (s', NSt.posLoop (ind + 1) (Lena.C17.dqAppend (negLen start) d v)) := by
        simp [negStep, hi, hb, hge]
      have key := ih rfl (ind + 1) (Lena.C17.dqAppend (negLen start) d v) (by omega)
      by_cases hlt : bound < ind + ((v, cnt s') :: rest).length
      · have hlt' : bound < ind + 1 + rest.length := by simp at hlt; omega
        rw [if_pos hlt]
        rw [if_pos hlt'] at key
        obtain ⟨s1, j, d1, v1, s1', k1, k2, k3, k4⟩ := key
        refine ⟨s1, j + 1, d1, v1, s1', Steps.cons hstep k1, by simp; omega, k3, ?_⟩
        obtain ⟨k, hk⟩ : ∃ k, bound - ind = k + 1 := ⟨bound - ind - 1, by omega⟩
        have hk' : bound - (ind + 1) = k := by omega
        rw [k4, hk, hk']
        simp
      · have hlt' : ¬ (bound < ind + 1 + rest.length) := by simp at hlt; omega
        rw [if_neg hlt]
        rw [if_neg hlt'] at key
        obtain ⟨s'', k1, k2, k3⟩ := key
        refine ⟨s'', ?_, k2, k3⟩
        have := Steps.cons hstep k1
        have e1 : ind + 1 + rest.length = ind + ((v, cnt s') :: rest).length := by simp; omega
        rw [e1] at this
        simpa using this

/-! ## the suspension points at which the generator yields or returns -/

/-- what remains to be yielded in the lag loop: the deque from oldest to newest followed by the
values still to come, each released by the pull of a later value -/
def lagOut (d : List α) (vals : List (α × Nat)) : List (α × Nat) :=
  List.zipWith (fun o q => (o, q.2)) (d.reverse ++ vals.map Prod.fst) vals

/-- a state from which one loop iteration yields or returns, with what remains to be yielded and
the final clock -/
def NegTerm : σ × NSt α → List (α × Nat) → Nat → Prop
  | (s, .lag d), outs, cf => ∃ vals, Produces up cnt fu s vals cf ∧ (d ≠ [] ∨ vals = []) ∧
      d.length ≤ negLen stop ∧ outs = lagOut d vals
  | (s, .emitAll d), outs, cf => outs = d.map (fun x => (x, cnt s)) ∧ cf = cnt s
  | (s, .emitN n d), outs, cf => n ≤ d.length ∧ outs = (d.take n).map (fun x => (x, cnt s)) ∧ cf = cnt s
  | (s, .emitUpTo n d), outs, cf => outs = (d.take n).map (fun x => (x, cnt s)) ∧ cf = cnt s
  | (s, .finished), outs, cf => outs = [] ∧ cf = cnt s
  -- `if len(d) < -stop: return`
  | (s, .filled d), outs, cf => (∃ a, start = some a) ∧ d.length < negLen stop ∧ outs = [] ∧ cf = cnt s
  -- `if stop <= start: return`
  | (s, .init), outs, cf => (∃ a b, start = some a ∧ stop = some b ∧ a < 0 ∧ b ≤ a) ∧ outs = [] ∧ cf = cnt s
  -- `if ind >= stop - start: return` on the arrival of the next value
  | (s, .posLoop ind _), outs, cf => ∃ v s', up.next fu s = .item v s' ∧
      ind ≥ (stop.getD 0 - start.getD 0).toNat ∧ outs = [] ∧ cf = cnt s'
  | _, _, _ => False

theorem negTerm_nil {Y : σ × NSt α} {cf : Nat} (h : NegTerm start stop up cnt fu Y [] cf) :
    ∃ s', negStep start stop up fu Y = .stop (s', NSt.finished) ∧ cnt s' = cf := by
  obtain ⟨s, l⟩ := Y
  cases l with
  | lag d =>
    obtain ⟨vals, hv, hd, hl, ho⟩ := h
    cases hv with
    | @done _ s' h1 h2 => exact ⟨s', by simp [negStep, h1], rfl⟩
    | @item _ s' v rest _ hi hrest =>
      exfalso
      rcases hd with hd | hd
      · obtain ⟨o, tl, hr⟩ : ∃ o tl, d.reverse = o :: tl := by
          cases hr : d.reverse with
          | nil => simp at hr; exact absurd hr hd
          | cons o tl => exact ⟨o, tl, rfl⟩
        simp [lagOut, hr] at ho
      · cases hd
  | emitAll d =>
    obtain ⟨ho, hc⟩ := h
    cases d with
    | nil => exact ⟨s, by simp [negStep], hc.symm⟩
    | cons x r => simp at ho
  | emitN n d =>
    obtain ⟨hn, ho, hc⟩ := h
    cases n with
    | zero => exact ⟨s, by simp [negStep], hc.symm⟩
    | succ n =>
      cases d with
      | nil => simp at hn
      | cons x r => simp at ho
  | emitUpTo n d =>
    obtain ⟨ho, hc⟩ := h
    cases n with
    | zero => exact ⟨s, by simp [negStep], hc.symm⟩
    | succ n =>
      cases d with
      | nil => exact ⟨s, by simp [negStep], hc.symm⟩
      | cons x r => simp at ho
  | finished => exact ⟨s, by simp [negStep], h.2.symm⟩
  | filled d =>
    obtain ⟨⟨a, ha⟩, hd, _, hc⟩ := h
    exact ⟨s, by simp [negStep, afterFill, ha, hd], hc.symm⟩
  | init =>
    obtain ⟨⟨a, b, ha, hb, h1, h2⟩, _, hc⟩ := h
    have : ¬ (a ≥ 0) := by omega
    exact ⟨s, by simp [negStep, ha, hb, this, h2], hc.symm⟩
  | posLoop ind d =>
    obtain ⟨v, s', hi, hge, _, hc⟩ := h
    exact ⟨s', by simp [negStep, hi, hge], hc.symm⟩
  | skip i => exact absurd h (by simp [NegTerm])
  | fill i d => exact absurd h (by simp [NegTerm])
  | drain d => exact absurd h (by simp [NegTerm])
  | drained d => exact absurd h (by simp [NegTerm])

theorem negTerm_cons {Y : σ × NSt α} {b : α} {c : Nat} {rest : List (α × Nat)} {cf : Nat}
    (h : NegTerm start stop up cnt fu Y ((b, c) :: rest) cf) :
    ∃ t', negStep start stop up fu Y = .yield b t' ∧ cnt t'.1 = c ∧ NegTerm start stop up cnt fu t' rest cf := by
  obtain ⟨s, l⟩ := Y
  cases l with
  | lag d =>
    obtain ⟨vals, hv, hd, hl, ho⟩ := h
    cases hv with
    | @done _ s' h1 h2 => simp [lagOut] at ho
    | @item _ s' v rest' _ hi hrest =>
      rcases hd with hd | hd
      · rcases List.eq_nil_or_concat d with rfl | ⟨l, o, rfl⟩
        · exact absurd rfl hd
        · simp only [List.concat_eq_append] at hl ho ⊢
          simp only [lagOut, List.reverse_append, List.reverse_cons, List.reverse_nil, List.nil_append,
            List.singleton_append, List.map_cons, List.cons_append, List.zipWith_cons_cons, List.cons.injEq,
            Prod.mk.injEq] at ho
          obtain ⟨⟨rfl, rfl⟩, rfl⟩ := ho
          have happ : Lena.C17.dqAppendLeft (negLen stop) l v = v :: l := by
            unfold Lena.C17.dqAppendLeft
            exact List.take_of_length_le (by simp at hl ⊢; omega)
          refine ⟨(s', NSt.lag (v :: l)), ?_, rfl, rest', hrest, Or.inl (by simp), by simp at hl ⊢; omega, ?_⟩
          · simp [negStep, hi, happ]
          · simp [lagOut]
      · cases hd
  | emitAll d =>
    obtain ⟨ho, hc⟩ := h
    cases d with
    | nil => simp at ho
    | cons x r =>
      simp only [List.map_cons, List.cons.injEq, Prod.mk.injEq] at ho
      obtain ⟨⟨rfl, rfl⟩, rfl⟩ := ho
      exact ⟨(s, NSt.emitAll r), by simp [negStep], rfl, rfl, hc⟩
  | emitN n d =>
    obtain ⟨hn, ho, hc⟩ := h
    cases n with
    | zero => simp at ho
    | succ n =>
      cases d with
      | nil => simp at hn
      | cons x r =>
        simp only [List.take_succ_cons, List.map_cons, List.cons.injEq, Prod.mk.injEq] at ho
        obtain ⟨⟨rfl, rfl⟩, rfl⟩ := ho
        exact ⟨(s, NSt.emitN n r), by simp [negStep], rfl, by simpa using hn, rfl, hc⟩
  | emitUpTo n d =>
    obtain ⟨ho, hc⟩ := h
    cases n with
    | zero => simp at ho
    | succ n =>
      cases d with
      | nil => simp at ho
      | cons x r =>
        simp only [List.take_succ_cons, List.map_cons, List.cons.injEq, Prod.mk.injEq] at ho
        obtain ⟨⟨rfl, rfl⟩, rfl⟩ := ho
        exact ⟨(s, NSt.emitUpTo n r), by simp [negStep], rfl, rfl, hc⟩
  | finished => exact absurd h.1 (by simp)
  | filled d => exact absurd h.2.2.1 (by simp)
  | init => exact absurd h.2.1 (by simp)
  | posLoop ind d =>
    obtain ⟨v, s', _, _, ho, _⟩ := h
    exact absurd ho (by simp)
  | skip i => exact absurd h (by simp [NegTerm])
  | fill i d => exact absurd h (by simp [NegTerm])
  | drain d => exact absurd h (by simp [NegTerm])
  | drained d => exact absurd h (by simp [NegTerm])

/-- from a state that reaches, in fewer than `fu` silent iterations, a suspension point described by
`NegTerm`, the generator produces what `NegTerm` says -/
theorem neg_produces_of_term {t : σ × NSt α} {outs : List (α × Nat)} {cf : Nat}
    (h : ∃ Y j, Steps (negStep start stop up fu) t j Y ∧ j < fu ∧ NegTerm start stop up cnt fu Y outs cf) :
    Produces (negG start stop up) (fun t => cnt t.1) fu t outs cf := by
  refine produces_of_calls (negG start stop up) (fun t => cnt t.1) fu
    (fun t outs cf => ∃ Y j, Steps (negStep start stop up fu) t j Y ∧ j < fu ∧
      NegTerm start stop up cnt fu Y outs cf) ?_ ?_ outs t cf h
  · rintro t cf ⟨Y, j, hs, hj, hT⟩
    obtain ⟨s', h1, h2⟩ := negTerm_nil start stop up cnt fu hT
    obtain ⟨n, hn⟩ : ∃ n, fu = n + 1 + j := ⟨fu - 1 - j, by omega⟩
    refine ⟨(s', NSt.finished), ?_, ofStep_stop (by omega) (by simp [negStep]), h2⟩
    show iter (negStep start stop up fu) fu t = _
    have e := hs (n + 1)
    rw [← hn] at e
    rw [e]
    exact iter_stop n h1
  · rintro t b c rest cf ⟨Y, j, hs, hj, hT⟩
    obtain ⟨t', h1, h2, h3⟩ := negTerm_cons start stop up cnt fu hT
    obtain ⟨n, hn⟩ : ∃ n, fu = n + 1 + j := ⟨fu - 1 - j, by omega⟩
    refine ⟨t', ?_, h2, t', 0, Steps.refl _ _, by omega, h3⟩
    show iter (negStep start stop up fu) fu t = _
    have e := hs (n + 1)
    rw [← hn] at e
    rw [e]
    exact iter_yield n h1

end neg

end Lena.C02
