import LenaModel.Lemmas.C02
/-! # C02 — `Slice._run_negative_islice` as a generator: every branch realises `negSpec` -/

namespace Lena.C02

variable {σ α β : Type}

/-! ## loop iterations that yield nothing -/

/-- the loop goes from `X` to `Y` in exactly `j` iterations, yielding nothing -/
def Steps (step : σ → Step σ α) (X : σ) (j : Nat) (Y : σ) : Prop :=
  ∀ n, iter step (n + j) X = iter step n Y

theorem Steps.refl (step : σ → Step σ α) (X : σ) : Steps step X 0 X := fun _ => rfl

theorem Steps.cons {step : σ → Step σ α} {X X' Y : σ} {j : Nat} (h : step X = .cont X')
    (h' : Steps step X' j Y) : Steps step X (j + 1) Y := by
  intro n
  rw [← Nat.add_assoc, iter_cont _ h]
  exact h' n

theorem Steps.one {step : σ → Step σ α} {X X' : σ} (h : step X = .cont X') : Steps step X 1 X' :=
  Steps.cons h (Steps.refl _ _)

theorem Steps.trans {step : σ → Step σ α} {X Y Z : σ} {j k : Nat} (h : Steps step X j Y)
    (h' : Steps step Y k Z) : Steps step X (k + j) Z := by
  intro n
  rw [← Nat.add_assoc, h, h']

/-- a finished upstream generator stays finished -/
theorem produces_after_done {up : Gen σ α} {cnt : σ → Nat} {fu : Nat} {s' : σ}
    (h : up.next fu s' = .done s') : Produces up cnt fu s' [] (cnt s') := Feeds.done h h

section neg
variable (start stop : Option Int) (up : Gen σ α) (cnt : σ → Nat) (fu : Nat)

/-- `for _ in zip(range(a), flow): pass`: consumes `a - i` values (or all there are) -/
theorem neg_skip_loop (a : Nat) (hstart : start = some (a : Int)) :
    ∀ {s vals cf}, Produces up cnt fu s vals cf → ∀ i, i ≤ a →
      ∃ s' j, Steps (negStep start stop up fu) (s, NSt.skip i) j (s', NSt.fill 0 []) ∧
        j ≤ min (a - i) vals.length + 1 ∧
        Produces up cnt fu s' (vals.drop (a - i)) cf ∧ cnt s' = (SF.mk (cnt s) vals cf).need (a - i) := by
  intro s vals cf h
  replace h : Feeds up cnt fu s vals (some cf) := h
  generalize he : some cf = e at h
  have hsa : (start.getD 0).toNat = a := by subst hstart; simp
  induction h with
  | more => cases he
  | @done s s' h1 h2 =>
    cases he
    intro i hi
    by_cases hge : i ≥ a
    · refine ⟨s, 1, Steps.one (by simp [negStep, hsa, hge]), by omega, ?_, ?_⟩
      · have : a - i = 0 := by omega
        rw [this]; exact Feeds.done h1 h2
      · have : a - i = 0 := by omega
        simp [this]
    · refine ⟨s', 1, Steps.one (by simp [negStep, hsa, hge, h1]), by omega, ?_, ?_⟩
      · simpa using produces_after_done h2
      · obtain ⟨k, hk⟩ : ∃ k, a - i = k + 1 := ⟨a - i - 1, by omega⟩
        simp [hk]
  | @item s s' v rest e hi hrest ih =>
    cases he
    intro i hia
    by_cases hge : i ≥ a
    · have h0 : a - i = 0 := by omega
      refine ⟨s, 1, Steps.one (by simp [negStep, hsa, hge]), by omega, ?_, by simp [h0]⟩
      rw [h0]; exact Feeds.item hi hrest
    · obtain ⟨s'', j, k1, k2, k3, k4⟩ := ih rfl (i + 1) (by omega)
      obtain ⟨k, hk⟩ : ∃ k, a - i = k + 1 := ⟨a - i - 1, by omega⟩
      have hk' : a - (i + 1) = k := by omega
      refine ⟨s'', j + 1, Steps.cons (by simp [negStep, hsa, hge, hi]) k1, ?_, ?_, ?_⟩
      · simp only [List.length_cons]; omega
      · rw [hk, List.drop_succ_cons, ← hk']; exact k3
      · rw [k4, hk, hk']; simp

/-- `fill_deque(flow, m)`: the first `m - i` values (or all there are), newest first -/
theorem neg_fill_loop :
    ∀ {s vals cf}, Produces up cnt fu s vals cf → ∀ i d, d.length = i → i ≤ negLen stop →
      ∃ s' j, Steps (negStep start stop up fu) (s, NSt.fill i d) j
          (s', NSt.filled (((vals.take (negLen stop - i)).map Prod.fst).reverse ++ d)) ∧
        j ≤ min (negLen stop - i) vals.length + 1 ∧
        Produces up cnt fu s' (vals.drop (negLen stop - i)) cf ∧
        cnt s' = (SF.mk (cnt s) vals cf).need (negLen stop - i) := by
  intro s vals cf h
  replace h : Feeds up cnt fu s vals (some cf) := h
  generalize he : some cf = e at h
  induction h with
  | more => cases he
  | @done s s' h1 h2 =>
    cases he
    intro i d hd hi
    by_cases hge : i ≥ negLen stop
    · have h0 : negLen stop - i = 0 := by omega
      refine ⟨s, 1, Steps.one (by simp [negStep, hge]), by omega, ?_, by simp [h0]⟩
      rw [h0]; exact Feeds.done h1 h2
    · refine ⟨s', 1, Steps.one (by simp [negStep, hge, h1]), by omega, ?_, ?_⟩
      · simpa using produces_after_done h2
      · obtain ⟨k, hk⟩ : ∃ k, negLen stop - i = k + 1 := ⟨negLen stop - i - 1, by omega⟩
        simp [hk]
  | @item s s' v rest e hi hrest ih =>
    cases he
    intro i d hd him
    by_cases hge : i ≥ negLen stop
    · have h0 : negLen stop - i = 0 := by omega
      refine ⟨s, 1, Steps.one (by simp [negStep, hge]), by omega, ?_, by simp [h0]⟩
      · rw [h0]; exact Feeds.item hi hrest
    · have happ : Lena.C17.dqAppendLeft (negLen stop) d v = v :: d := by
        unfold Lena.C17.dqAppendLeft
        exact List.take_of_length_le (by simp; omega)
      obtain ⟨s'', j, k1, k2, k3, k4⟩ := ih rfl (i + 1) (v :: d) (by simp [hd]) (by omega)
      obtain ⟨k, hk⟩ : ∃ k, negLen stop - i = k + 1 := ⟨negLen stop - i - 1, by omega⟩
      have hk' : negLen stop - (i + 1) = k := by omega
      refine ⟨s'', j + 1, ?_, ?_, ?_, ?_⟩
      · have hstep : negStep start stop up fu (s, NSt.fill i d) = .cont (s', NSt.fill (i + 1) (v :: d)) := by
          simp [negStep, hge, hi, happ]
        have := Steps.cons hstep k1
        rw [hk'] at this
        rw [hk]
        simpa using this
      · simp only [List.length_cons]; omega
      · rw [hk, List.drop_succ_cons, ← hk']; exact k3
      · rw [k4, hk, hk']; simp

/-- `deque(flow, maxlen=m)`: reads the flow to its end -/
theorem neg_drain_loop :
    ∀ {s vals cf}, Produces up cnt fu s vals cf → ∀ d,
      ∃ s', Steps (negStep start stop up fu) (s, NSt.drain d) (vals.length + 1)
          (s', NSt.drained ((vals.map Prod.fst).foldl (Lena.C17.dqAppend (negLen start)) d)) ∧
        up.next fu s' = .done s' ∧ cnt s' = cf := by
  intro s vals cf h
  replace h : Feeds up cnt fu s vals (some cf) := h
  generalize he : some cf = e at h
  induction h with
  | more => cases he
  | @done s s' h1 h2 =>
    cases he
    intro d
    exact ⟨s', Steps.one (by simp [negStep, h1]), h2, rfl⟩
  | @item s s' v rest e hi hrest ih =>
    cases he
    intro d
    obtain ⟨s'', k1, k2, k3⟩ := ih rfl (Lena.C17.dqAppend (negLen start) d v)
    exact ⟨s'', Steps.cons (by simp [negStep, hi]) k1, k2, k3⟩

/-- the loop of the branch `start < 0 ≤ stop`: either the flow has more than `bound` values and the
generator is about to return on the arrival of value number `bound + 1`, or the flow is read to its end -/
theorem neg_pos_loop (bound : Nat) (hb : (stop.getD 0 - start.getD 0).toNat = bound) :
    ∀ {s vals cf}, Produces up cnt fu s vals cf → ∀ ind d, ind ≤ bound →
      (if bound < ind + vals.length then
        ∃ s1 j d1 v s', Steps (negStep start stop up fu) (s, NSt.posLoop ind d) j (s1, NSt.posLoop bound d1) ∧
          j ≤ vals.length ∧ up.next fu s1 = .item v s' ∧
          cnt s' = (SF.mk (cnt s) vals cf).need (bound - ind + 1)
       else
        ∃ s', Steps (negStep start stop up fu) (s, NSt.posLoop ind d) (vals.length + 1)
            (s', NSt.emitUpTo (stop.getD 0 - (((ind + vals.length : Nat) : Int)
              - (((vals.map Prod.fst).foldl (Lena.C17.dqAppend (negLen start)) d).length : Nat))).toNat
              ((vals.map Prod.fst).foldl (Lena.C17.dqAppend (negLen start)) d)) ∧
          up.next fu s' = .done s' ∧ cnt s' = cf) := by
  intro s vals cf h
  replace h : Feeds up cnt fu s vals (some cf) := h
  generalize he : some cf = e at h
  induction h with
  | more => cases he
  | @done s s' h1 h2 =>
    cases he
    intro ind d hind
    have : ¬ (bound < ind + ([] : List (α × Nat)).length) := by simp; omega
    rw [if_neg this]
    refine ⟨s', Steps.one ?_, h2, rfl⟩
    simp [negStep, h1]
  | @item s s' v rest e hi hrest ih =>
    cases he
    intro ind d hind
    by_cases hge : ind ≥ bound
    · have hlt : bound < ind + ((v, cnt s') :: rest).length := by simp; omega
      rw [if_pos hlt]
      have hib : ind = bound := by omega
      subst hib
      refine ⟨s, 0, d, v, s', Steps.refl _ _, by simp, hi, ?_⟩
      simp
    · have hstep : negStep start stop up fu (s, NSt.posLoop ind d)
          = .cont (s', NSt.posLoop (ind + 1) (Lena.C17.dqAppend (negLen start) d v)) := by
        simp [negStep, hi, hb, hge]
      have key := ih rfl (ind + 1) (Lena.C17.dqAppend (negLen start) d v) (by omega)
      by_cases hlt : bound < ind + ((v, cnt s') :: rest).length
      · have hlt' : bound < ind + 1 + rest.length := by simp at hlt; omega
        rw [if_pos hlt]
        rw [if_pos hlt'] at key
        obtain ⟨s1, j, d1, v1, s1', k1, k2, k3, k4⟩ := key
        refine ⟨s1, j + 1, d1, v1, s1', Steps.cons hstep k1, by simp; omega, k3, ?_⟩
        obtain ⟨k, hk⟩ : ∃ k, bound - ind = k + 1 := ⟨bound - ind - 1, by omega⟩
        have hk' : bound - (ind + 1) = k := by omega
        rw [k4, hk, hk']
        simp
      · have hlt' : ¬ (bound < ind + 1 + rest.length) := by simp at hlt; omega
        rw [if_neg hlt]
        rw [if_neg hlt'] at key
        obtain ⟨s'', k1, k2, k3⟩ := key
        refine ⟨s'', ?_, k2, k3⟩
        have := Steps.cons hstep k1
        have e1 : ind + 1 + rest.length = ind + ((v, cnt s') :: rest).length := by simp; omega
        rw [e1] at this
        simpa using this

/-! ## the suspension points at which the generator yields or returns -/

/-- what remains to be yielded in the lag loop: the deque from oldest to newest followed by the
values still to come, each released by the pull of a later value -/
def lagOut (d : List α) (vals : List (α × Nat)) : List (α × Nat) :=
  List.zipWith (fun o q => (o, q.2)) (d.reverse ++ vals.map Prod.fst) vals

/-- a state from which one loop iteration yields or returns, with what remains to be yielded and
the final clock -/
def NegTerm : σ × NSt α → List (α × Nat) → Nat → Prop
  | (s, .lag d), outs, cf => ∃ vals, Produces up cnt fu s vals cf ∧ (d ≠ [] ∨ vals = []) ∧
      d.length ≤ negLen stop ∧ outs = lagOut d vals
  | (s, .emitAll d), outs, cf => outs = d.map (fun x => (x, cnt s)) ∧ cf = cnt s
  | (s, .emitN n d), outs, cf => n ≤ d.length ∧ outs = (d.take n).map (fun x => (x, cnt s)) ∧ cf = cnt s
  | (s, .emitUpTo n d), outs, cf => outs = (d.take n).map (fun x => (x, cnt s)) ∧ cf = cnt s
  | (s, .finished), outs, cf => outs = [] ∧ cf = cnt s
  -- `if len(d) < -stop: return`
  | (s, .filled d), outs, cf => (∃ a, start = some a) ∧ d.length < negLen stop ∧ outs = [] ∧ cf = cnt s
  -- `if stop <= start: return`
  | (s, .init), outs, cf => (∃ a b, start = some a ∧ stop = some b ∧ a < 0 ∧ b ≤ a) ∧ outs = [] ∧ cf = cnt s
  -- `if ind >= stop - start: return` on the arrival of the next value
  | (s, .posLoop ind _), outs, cf => ∃ v s', up.next fu s = .item v s' ∧
      ind ≥ (stop.getD 0 - start.getD 0).toNat ∧ outs = [] ∧ cf = cnt s'
  | _, _, _ => False

theorem negTerm_nil {Y : σ × NSt α} {cf : Nat} (h : NegTerm start stop up cnt fu Y [] cf) :
    ∃ s', negStep start stop up fu Y = .stop (s', NSt.finished) ∧ cnt s' = cf := by
  obtain ⟨s, l⟩ := Y
  cases l with
  | lag d =>
    obtain ⟨vals, hv, hd, hl, ho⟩ := h
    cases hv with
    | @done _ s' h1 h2 => exact ⟨s', by simp [negStep, h1], rfl⟩
    | @item _ s' v rest _ hi hrest =>
      exfalso
      rcases hd with hd | hd
      · obtain ⟨o, tl, hr⟩ : ∃ o tl, d.reverse = o :: tl := by
          cases hr : d.reverse with
          | nil => simp at hr; exact absurd hr hd
          | cons o tl => exact ⟨o, tl, rfl⟩
        simp [lagOut, hr] at ho
      · cases hd
  | emitAll d =>
    obtain ⟨ho, hc⟩ := h
    cases d with
    | nil => exact ⟨s, by simp [negStep], hc.symm⟩
    | cons x r => simp at ho
  | emitN n d =>
    obtain ⟨hn, ho, hc⟩ := h
    cases n with
    | zero => exact ⟨s, by simp [negStep], hc.symm⟩
    | succ n =>
      cases d with
      | nil => simp at hn
      | cons x r => simp at ho
  | emitUpTo n d =>
    obtain ⟨ho, hc⟩ := h
    cases n with
    | zero => exact ⟨s, by simp [negStep], hc.symm⟩
    | succ n =>
      cases d with
      | nil => exact ⟨s, by simp [negStep], hc.symm⟩
      | cons x r => simp at ho
  | finished => exact ⟨s, by simp [negStep], h.2.symm⟩
  | filled d =>
    obtain ⟨⟨a, ha⟩, hd, _, hc⟩ := h
    exact ⟨s, by simp [negStep, afterFill, ha, hd], hc.symm⟩
  | init =>
    obtain ⟨⟨a, b, ha, hb, h1, h2⟩, _, hc⟩ := h
    have : ¬ (a ≥ 0) := by omega
    exact ⟨s, by simp [negStep, ha, hb, this, h2], hc.symm⟩
  | posLoop ind d =>
    obtain ⟨v, s', hi, hge, _, hc⟩ := h
    exact ⟨s', by simp [negStep, hi, hge], hc.symm⟩
  | skip i => exact absurd h (by simp [NegTerm])
  | fill i d => exact absurd h (by simp [NegTerm])
  | drain d => exact absurd h (by simp [NegTerm])
  | drained d => exact absurd h (by simp [NegTerm])

theorem negTerm_cons {Y : σ × NSt α} {b : α} {c : Nat} {rest : List (α × Nat)} {cf : Nat}
    (h : NegTerm start stop up cnt fu Y ((b, c) :: rest) cf) :
    ∃ t', negStep start stop up fu Y = .yield b t' ∧ cnt t'.1 = c ∧ NegTerm start stop up cnt fu t' rest cf := by
  obtain ⟨s, l⟩ := Y
  cases l with
  | lag d =>
    obtain ⟨vals, hv, hd, hl, ho⟩ := h
    cases hv with
    | @done _ s' h1 h2 => simp [lagOut] at ho
    | @item _ s' v rest' _ hi hrest =>
      rcases hd with hd | hd
      · rcases List.eq_nil_or_concat d with rfl | ⟨l, o, rfl⟩
        · exact absurd rfl hd
        · simp only [List.concat_eq_append] at hl ho ⊢
          simp only [lagOut, List.reverse_append, List.reverse_cons, List.reverse_nil, List.nil_append,
            List.singleton_append, List.map_cons, List.cons_append, List.zipWith_cons_cons, List.cons.injEq,
            Prod.mk.injEq] at ho
          obtain ⟨⟨rfl, rfl⟩, rfl⟩ := ho
          have happ : Lena.C17.dqAppendLeft (negLen stop) l v = v :: l := by
            unfold Lena.C17.dqAppendLeft
            exact List.take_of_length_le (by simp at hl ⊢; omega)
          refine ⟨(s', NSt.lag (v :: l)), ?_, rfl, rest', hrest, Or.inl (by simp), by simp at hl ⊢; omega, ?_⟩
          · simp [negStep, hi, happ]
          · simp [lagOut]
      · cases hd
  | emitAll d =>
    obtain ⟨ho, hc⟩ := h
    cases d with
    | nil => simp at ho
    | cons x r =>
      simp only [List.map_cons, List.cons.injEq, Prod.mk.injEq] at ho
      obtain ⟨⟨rfl, rfl⟩, rfl⟩ := ho
      exact ⟨(s, NSt.emitAll r), by simp [negStep], rfl, rfl, hc⟩
  | emitN n d =>
    obtain ⟨hn, ho, hc⟩ := h
    cases n with
    | zero => simp at ho
    | succ n =>
      cases d with
      | nil => simp at hn
      | cons x r =>
        simp only [List.take_succ_cons, List.map_cons, List.cons.injEq, Prod.mk.injEq] at ho
        obtain ⟨⟨rfl, rfl⟩, rfl⟩ := ho
        exact ⟨(s, NSt.emitN n r), by simp [negStep], rfl, by simpa using hn, rfl, hc⟩
  | emitUpTo n d =>
    obtain ⟨ho, hc⟩ := h
    cases n with
    | zero => simp at ho
    | succ n =>
      cases d with
      | nil => simp at ho
      | cons x r =>
        simp only [List.take_succ_cons, List.map_cons, List.cons.injEq, Prod.mk.injEq] at ho
        obtain ⟨⟨rfl, rfl⟩, rfl⟩ := ho
        exact ⟨(s, NSt.emitUpTo n r), by simp [negStep], rfl, rfl, hc⟩
  | finished => exact absurd h.1 (by simp)
  | filled d => exact absurd h.2.2.1 (by simp)
  | init => exact absurd h.2.1 (by simp)
  | posLoop ind d =>
    obtain ⟨v, s', _, _, ho, _⟩ := h
    exact absurd ho (by simp)
  | skip i => exact absurd h (by simp [NegTerm])
  | fill i d => exact absurd h (by simp [NegTerm])
  | drain d => exact absurd h (by simp [NegTerm])
  | drained d => exact absurd h (by simp [NegTerm])

/-- from a state that reaches, in fewer than `fu` silent iterations, a suspension point described by
`NegTerm`, the generator produces what `NegTerm` says -/
theorem neg_produces_of_term {t : σ × NSt α} {outs : List (α × Nat)} {cf : Nat}
    (h : ∃ Y j, Steps (negStep start stop up fu) t j Y ∧ j < fu ∧ NegTerm start stop up cnt fu Y outs cf) :
    Produces (negG start stop up) (fun t => cnt t.1) fu t outs cf := by
  refine produces_of_calls (negG start stop up) (fun t => cnt t.1) fu
    (fun t outs cf => ∃ Y j, Steps (negStep start stop up fu) t j Y ∧ j < fu ∧
      NegTerm start stop up cnt fu Y outs cf) ?_ ?_ outs t cf h
  · rintro t cf ⟨Y, j, hs, hj, hT⟩
    obtain ⟨s', h1, h2⟩ := negTerm_nil start stop up cnt fu hT
    obtain ⟨n, hn⟩ : ∃ n, fu = n + 1 + j := ⟨fu - 1 - j, by omega⟩
    refine ⟨(s', NSt.finished), ?_, ofStep_stop (by omega) (by simp [negStep]), h2⟩
    show iter (negStep start stop up fu) fu t = _
    have e := hs (n + 1)
    rw [← hn] at e
    rw [e]
    exact iter_stop n h1
  · rintro t b c rest cf ⟨Y, j, hs, hj, hT⟩
    obtain ⟨t', h1, h2, h3⟩ := negTerm_cons start stop up cnt fu hT
    obtain ⟨n, hn⟩ : ∃ n, fu = n + 1 + j := ⟨fu - 1 - j, by omega⟩
    refine ⟨t', ?_, h2, t', 0, Steps.refl _ _, by omega, h3⟩
    show iter (negStep start stop up fu) fu t = _
    have e := hs (n + 1)
    rw [← hn] at e
    rw [e]
    exact iter_yield n h1

end neg

/-! ## the branches -/

/-- the arguments `Slice.__init__` routes to `_run_negative_islice`: a negative `start` or `stop`
(the same as `Lena.C17.HasNeg`) -/
def NegArgs (start stop : Option Int) : Prop :=
  (∃ i, start = some i ∧ i < 0) ∨ (∃ i, stop = some i ∧ i < 0)

theorem lagOut_take_drop (m : Nat) (xs : List (α × Nat)) :
    lagOut (((xs.take m).map Prod.fst).reverse ++ []) (xs.drop m) = lagSpec m xs := by
  simp only [lagOut, lagSpec, List.append_nil, List.reverse_reverse, ← List.map_append, List.take_append_drop]

theorem need_ge_length (c0 cf : Nat) (xs : List (α × Nat)) (m : Nat) (h : xs.length < m) :
    (SF.mk c0 xs cf).need m = cf := by
  obtain ⟨k, rfl⟩ : ∃ k, m = k + 1 := ⟨m - 1, by omega⟩
  exact need_of_ge _ _ (by simp; omega)

/-- skipping `a` values and then asking for `m` more is asking for `a + m` -/
theorem need_drop (c0 cf : Nat) (xs : List (α × Nat)) (a m : Nat) :
    (SF.mk ((SF.mk c0 xs cf).need a) (xs.drop a) cf).need m = (SF.mk c0 xs cf).need (a + m) := by
  induction a generalizing c0 xs with
  | zero => simp
  | succ a ih =>
    cases xs with
    | nil =>
      cases m with
      | zero => simp
      | succ m => rw [show a + 1 + (m + 1) = (a + 1 + m) + 1 by omega]; simp
    | cons p r =>
      rw [show a + 1 + m = (a + m) + 1 by omega]
      simp only [need_cons_succ, List.drop_succ_cons]
      exact ih p.2 r

section branches
variable (up : Gen σ α) (cnt : σ → Nat) (fu : Nat)

/-- `Slice(-m)` / `Slice(None, -m)`: lag of `m` values -/
theorem neg_produces_none (b : Int) (hb : b < 0) {s : σ} {vals : List (α × Nat)} {cf : Nat}
    (h : Produces up cnt fu s vals cf) (hfu : vals.length + 3 < fu) :
    Produces (negG none (some b) up) (fun t => cnt t.1) fu (s, NSt.init)
      (negSpec none (some b) ⟨cnt s, vals, cf⟩).vals (negSpec none (some b) ⟨cnt s, vals, cf⟩).cf := by
  apply neg_produces_of_term
  have hm : 1 ≤ negLen (some b) := by simp [negLen]; omega
  obtain ⟨s', j, k1, k2, k3, k4⟩ := neg_fill_loop none (some b) up cnt fu h 0 [] rfl (Nat.zero_le _)
  simp only [Nat.sub_zero] at k1 k2 k3 k4
  refine ⟨(s', NSt.lag (((vals.take (negLen (some b))).map Prod.fst).reverse ++ [])), 1 + (j + 1), ?_, by omega, ?_⟩
  · exact Steps.trans (Steps.cons (by simp [negStep]) k1) (Steps.one (by simp [negStep, afterFill]))
  · refine ⟨vals.drop (negLen (some b)), k3, ?_, by simp; omega, ?_⟩
    · by_cases hl : negLen (some b) ≤ vals.length
      · left
        intro hnil
        have := congrArg List.length hnil
        simp only [List.append_nil, List.length_reverse, List.length_map, List.length_take, List.length_nil] at this
        omega
      · right
        exact List.drop_eq_nil_of_le (by omega)
    · simp only [negSpec]
      exact (lagOut_take_drop _ _).symm

/-- `Slice(a, -m)` with `a ≥ 0`: skip `a` values, then lag of `m` -/
theorem neg_produces_pos (a : Nat) (b : Int) (hb : b < 0) {s : σ} {vals : List (α × Nat)} {cf : Nat}
    (h : Produces up cnt fu s vals cf) (hfu : vals.length + 4 < fu) :
    Produces (negG (some (a : Int)) (some b) up) (fun t => cnt t.1) fu (s, NSt.init)
      (negSpec (some (a : Int)) (some b) ⟨cnt s, vals, cf⟩).vals
      (negSpec (some (a : Int)) (some b) ⟨cnt s, vals, cf⟩).cf := by
  apply neg_produces_of_term
  have hm : 1 ≤ negLen (some b) := by simp [negLen]; omega
  have ha : ((a : Int) ≥ 0) := by omega
  obtain ⟨s1, j1, p1, p2, p3, p4⟩ := neg_skip_loop (some (a : Int)) (some b) up cnt fu a rfl h 0 (Nat.zero_le _)
  simp only [Nat.sub_zero] at p1 p2 p3 p4
  obtain ⟨s2, j2, q1, q2, q3, q4⟩ := neg_fill_loop (some (a : Int)) (some b) up cnt fu p3 0 [] rfl (Nat.zero_le _)
  simp only [Nat.sub_zero] at q1 q2 q3 q4
  have hinit : negStep (some (a : Int)) (some b) up fu (s, NSt.init) = .cont (s, NSt.skip 0) := by
    simp [negStep, ha]
  have hsteps := Steps.trans (Steps.cons hinit p1) q1
  have hj : j1 + j2 ≤ vals.length + 2 := by
    simp only [List.length_drop] at q2
    omega
  have hspec : negSpec (some (a : Int)) (some b) ⟨cnt s, vals, cf⟩
      = ⟨cnt s, if (vals.drop a).length < negLen (some b) then [] else lagSpec (negLen (some b)) (vals.drop a), cf⟩ := by
    simp [negSpec, ha]
  rw [hspec]
  by_cases hshort : (vals.drop a).length < negLen (some b)
  · refine ⟨(s2, NSt.filled ((((vals.drop a).take (negLen (some b))).map Prod.fst).reverse ++ [])), _, hsteps,
      by omega, ⟨_, rfl⟩, ?_, ?_, ?_⟩
    · simp only [List.append_nil, List.length_reverse, List.length_map, List.length_take]
      omega
    · rw [if_pos hshort]
    · show cf = cnt s2
      rw [q4, p4, need_drop]
      exact (need_ge_length _ _ _ _ (by simp only [List.length_drop] at hshort; omega)).symm
  · refine ⟨(s2, NSt.lag ((((vals.drop a).take (negLen (some b))).map Prod.fst).reverse ++ [])),
      1 + (j2 + (j1 + 1)), ?_, by omega, ?_⟩
    · refine Steps.trans hsteps (Steps.one ?_)
      have : ¬ ((((vals.drop a).take (negLen (some b))).map Prod.fst).reverse ++ []).length < negLen (some b) := by
        simp only [List.append_nil, List.length_reverse, List.length_map, List.length_take]
        omega
      simp only [negStep, afterFill, this, if_false]
    · refine ⟨(vals.drop a).drop (negLen (some b)), q3, ?_, by simp; omega, ?_⟩
      · left
        intro hnil
        have := congrArg List.length hnil
        simp only [List.append_nil, List.length_reverse, List.length_map, List.length_take, List.length_nil] at this
        omega
      · rw [if_neg hshort]
        exact (lagOut_take_drop _ _).symm

/-- `Slice(-m, None)`: the last `m` values, known only when the flow has ended -/
theorem neg_produces_neg_none (a : Int) (ha : a < 0) {s : σ} {vals : List (α × Nat)} {cf : Nat}
    (h : Produces up cnt fu s vals cf) (hfu : vals.length + 4 < fu) :
    Produces (negG (some a) none up) (fun t => cnt t.1) fu (s, NSt.init)
      (negSpec (some a) none ⟨cnt s, vals, cf⟩).vals (negSpec (some a) none ⟨cnt s, vals, cf⟩).cf := by
  apply neg_produces_of_term
  have hna : ¬ (a ≥ 0) := by omega
  obtain ⟨s', k1, k2, k3⟩ := neg_drain_loop (some a) none up cnt fu h []
  refine ⟨(s', NSt.emitAll ((vals.map Prod.fst).foldl (Lena.C17.dqAppend (negLen (some a))) [])),
    1 + (vals.length + 1 + 1), ?_, by omega, ?_, ?_⟩
  · exact Steps.trans (Steps.cons (by simp [negStep, hna]) k1) (Steps.one (by simp [negStep]))
  · simp [negSpec, negValsAt, Lena.C17.runNegative, hna, Lena.C17.drainLeft, Lena.C17.dqOfFlow, negLen, k3]
  · simp [negSpec, hna, k3]

/-- `stop <= start < 0`: nothing can be selected, nothing is pulled -/
theorem neg_produces_neg_le (a b : Int) (ha : a < 0) (hba : b ≤ a) {s : σ} {vals : List (α × Nat)} {cf : Nat}
    (hfu : 0 < fu) :
    Produces (negG (some a) (some b) up) (fun t => cnt t.1) fu (s, NSt.init)
      (negSpec (some a) (some b) ⟨cnt s, vals, cf⟩).vals (negSpec (some a) (some b) ⟨cnt s, vals, cf⟩).cf := by
  apply neg_produces_of_term
  have hna : ¬ (a ≥ 0) := by omega
  refine ⟨(s, NSt.init), 0, Steps.refl _ _, hfu, ⟨a, b, rfl, rfl, ha, hba⟩, ?_, ?_⟩
  · simp [negSpec, hna, hba]
  · simp [negSpec, hna, hba]

/-- `start < stop < 0`: the values are known only when the flow has ended -/
theorem neg_produces_neg_neg (a b : Int) (ha : a < 0) (hab : a < b) (hb : b < 0)
    {s : σ} {vals : List (α × Nat)} {cf : Nat}
    (h : Produces up cnt fu s vals cf) (hfu : vals.length + 4 < fu) :
    Produces (negG (some a) (some b) up) (fun t => cnt t.1) fu (s, NSt.init)
      (negSpec (some a) (some b) ⟨cnt s, vals, cf⟩).vals (negSpec (some a) (some b) ⟨cnt s, vals, cf⟩).cf := by
  apply neg_produces_of_term
  have hna : ¬ (a ≥ 0) := by omega
  have hba : ¬ (b ≤ a) := by omega
  obtain ⟨s', k1, k2, k3⟩ := neg_drain_loop (some a) (some b) up cnt fu h []
  let dfin := (vals.map Prod.fst).foldl (Lena.C17.dqAppend (negLen (some a))) []
  have hn : ((dfin.length : Int) + b).toNat ≤ dfin.length := by omega
  refine ⟨(s', NSt.emitN ((dfin.length : Int) + b).toNat dfin), 1 + (vals.length + 1 + 1), ?_, by omega, hn, ?_, ?_⟩
  · exact Steps.trans (Steps.cons (by simp [negStep, hna, hba, hb]) k1) (Steps.one (by simp [negStep, dfin]))
  · have hd : Lena.C17.dqOfFlow (-a).toNat (vals.map Prod.fst) = dfin := rfl
    simp only [negSpec, hna, hba, hb, if_false, if_true, negValsAt, Lena.C17.runNegative, hd]
    rw [Lena.C17.popLeftN_spec _ _ hn]
    simp [k3]
  · simp [negSpec, hna, hba, hb, k3]

/-- `start < 0 ≤ stop`: more than `stop - start` values mean that nothing is selected (known when
value number `stop - start + 1` arrives); otherwise the values are known when the flow has ended -/
theorem neg_produces_neg_pos (a b : Int) (ha : a < 0) (hb : 0 ≤ b)
    {s : σ} {vals : List (α × Nat)} {cf : Nat}
    (h : Produces up cnt fu s vals cf) (hfu : vals.length + 4 < fu) :
    Produces (negG (some a) (some b) up) (fun t => cnt t.1) fu (s, NSt.init)
      (negSpec (some a) (some b) ⟨cnt s, vals, cf⟩).vals (negSpec (some a) (some b) ⟨cnt s, vals, cf⟩).cf := by
  apply neg_produces_of_term
  have hna : ¬ (a ≥ 0) := by omega
  have hba : ¬ (b ≤ a) := by omega
  have hb0 : ¬ (b < 0) := by omega
  have hinit : negStep (some a) (some b) up fu (s, NSt.init) = .cont (s, NSt.posLoop 0 []) := by
    simp [negStep, hna, hba, hb0]
  have key := neg_pos_loop (some a) (some b) up cnt fu (b - a).toNat rfl h 0 [] (Nat.zero_le _)
  by_cases hlong : (b - a).toNat < 0 + vals.length
  · rw [if_pos hlong] at key
    obtain ⟨s1, j, d1, v, s', k1, k2, k3, k4⟩ := key
    refine ⟨(s1, NSt.posLoop (b - a).toNat d1), j + 1, Steps.cons hinit k1, by omega, v, s', k3, ?_, ?_, ?_⟩
    · simp
    · have : vals.length > (b - a).toNat := by omega
      simp [negSpec, hna, hba, hb0, this]
    · have : vals.length > (b - a).toNat := by omega
      simp [negSpec, hna, hba, hb0, this, k4]
  · rw [if_neg hlong] at key
    obtain ⟨s', k1, k2, k3⟩ := key
    have hshort : ¬ (vals.length > (b - a).toNat) := by omega
    refine ⟨_, vals.length + 1 + 1, Steps.cons hinit k1, by omega, ?_, ?_⟩
    · simp only [negSpec, hna, hba, hb0, hshort, if_false, negValsAt, Lena.C17.runNegative]
      rw [Lena.C17.posStopLoop_spec _ _ _ _ _ (Nat.zero_le _)]
      have : ¬ ((b - a).toNat < 0 + (vals.map Prod.fst).length) := by simpa using hlong
      simp only [this, if_false, Lena.C17.popLeftUpTo_spec]
      simp [negLen, k3]
    · simp [negSpec, hna, hba, hb0, hshort, k3]

/-- **`_run_negative_islice` realises `negSpec`**, every branch -/
theorem neg_produces (start stop : Option Int) (hargs : NegArgs start stop)
    {s : σ} {vals : List (α × Nat)} {cf : Nat}
    (h : Produces up cnt fu s vals cf) (hfu : vals.length + 4 < fu) :
    Produces (negG start stop up) (fun t => cnt t.1) fu (s, NSt.init)
      (negSpec start stop ⟨cnt s, vals, cf⟩).vals (negSpec start stop ⟨cnt s, vals, cf⟩).cf := by
  cases start with
  | none =>
    rcases hargs with ⟨i, hi, _⟩ | ⟨b, rfl, hb⟩
    · cases hi
    · exact neg_produces_none up cnt fu b hb h (by omega)
  | some a =>
    by_cases ha : a < 0
    · cases stop with
      | none => exact neg_produces_neg_none up cnt fu a ha h hfu
      | some b =>
        by_cases hba : b ≤ a
        · exact neg_produces_neg_le up cnt fu a b ha hba (by omega)
        · by_cases hb : b < 0
          · exact neg_produces_neg_neg up cnt fu a b ha (by omega) hb h hfu
          · exact neg_produces_neg_pos up cnt fu a b ha (by omega) h hfu
    · rcases hargs with ⟨i, hi, hi'⟩ | ⟨b, rfl, hb⟩
      · cases hi; omega
      · obtain ⟨k, rfl⟩ : ∃ k : Nat, a = (k : Int) := ⟨a.toNat, by omega⟩
        exact neg_produces_pos up cnt fu k b hb h hfu

end branches

end Lena.C02
