import LenaModel.Model.C07
import LenaModel.Lemmas.C07
/-! # C07 — helper lemmas: update_nested (the chain `other[key][key]…`) -/
namespace Lena.C07
open Lena Lena.Val
variable {α : Type}

/-! ### `setSlot` / `getSlot` -/

theorem getSlot_nil' (k : Nat) : getSlot ([] : Slots α) k = none := by simp [getSlot]
theorem getSlot_zero' (x : Option (Val α)) (r : Slots α) : getSlot (x :: r) 0 = x := by
  cases x <;> simp [getSlot]
theorem getSlot_succ' (x : Option (Val α)) (r : Slots α) (k : Nat) :
    getSlot (x :: r) (k + 1) = getSlot r k := by simp [getSlot]

theorem getSlot_setSlot_eq : ∀ (l : Slots α) (j : Nat) (v : Option (Val α)), getSlot (setSlot l j v) j = v
  | [], 0, v => by simp [setSlot, getSlot_zero']
  | [], j + 1, v => by simp [setSlot, getSlot_succ', getSlot_setSlot_eq [] j v]
  | _ :: r, 0, v => by simp [setSlot, getSlot_zero']
  | x :: r, j + 1, v => by simp [setSlot, getSlot_succ', getSlot_setSlot_eq r j v]

theorem getSlot_setSlot_ne : ∀ (l : Slots α) (j i : Nat) (v : Option (Val α)), i ≠ j →
    getSlot (setSlot l j v) i = getSlot l i
  | [], 0, 0, _, h => by simp at h
  | [], 0, i + 1, v, _ => by simp [setSlot, getSlot_succ', getSlot_nil']
  | [], j + 1, 0, v, _ => by simp [setSlot, getSlot_zero', getSlot_nil']
  | [], j + 1, i + 1, v, h => by
      simp only [setSlot, getSlot_succ', getSlot_nil']
      rw [getSlot_setSlot_ne [] j i v (by omega), getSlot_nil']
  | _ :: r, 0, 0, _, h => by simp at h
  | _ :: r, 0, i + 1, v, _ => by simp [setSlot, getSlot_succ']
  | x :: r, j + 1, 0, v, _ => by simp [setSlot, getSlot_zero']
  | x :: r, j + 1, i + 1, v, h => by
      simp only [setSlot, getSlot_succ']
      exact getSlot_setSlot_ne r j i v (by omega)

theorem setSlot_length : ∀ (l : Slots α) (j : Nat) (v : Option (Val α)), j < l.length →
    (setSlot l j v).length = l.length
  | [], _, _, h => by simp at h
  | _ :: r, 0, v, _ => by simp [setSlot]
  | x :: r, j + 1, v, h => by simp [setSlot, setSlot_length r j v (by simpa using h)]

/-- `d[k]` read as a path of length one -/
theorem getPath_single (l : Slots α) (j : Nat) : getPath (.dict l) [j] = getSlot l j := by
  rw [getPath]; cases getSlot l j <;> simp [getPath]

theorem getPath_cons_some (l : Slots α) (j : Nat) (p : List Nat) (w : Val α) (h : getSlot l j = some w) :
    getPath (.dict l) (j :: p) = getPath w p := by
  rw [getPath, h]

theorem getPath_cons_none (l : Slots α) (j : Nat) (p : List Nat) (h : getSlot l j = none) :
    getPath (.dict l) (j :: p) = none := by
  rw [getPath, h]

/-! ### the walk to slot `j` -/

/-- propagate the outcome of the nested call -/
def Out.map {β γ : Type} (f : β → γ) : Out β → Out γ
  | .ok v => .ok (f v)
  | .lenaTypeError => .lenaTypeError
  | .typeError => .typeError

theorem nestL_none (k : Nat) (dk : Val α) : ∀ (j : Nat) (l : Slots α), getSlot l j = none →
    nestL k dk j l = .ok (setSlot l j (some dk))
  | 0, [], _ => by simp [nestL]
  | j + 1, [], _ => by simp [nestL]
  | 0, none :: r, _ => by simp [nestL, setSlot]
  | 0, some v :: r, h => by simp [getSlot_zero'] at h
  | j + 1, x :: r, h => by
      rw [getSlot_succ'] at h
      simp [nestL, nestL_none k dk j r h, setSlot]

theorem nestL_some (k : Nat) (dk : Val α) : ∀ (j : Nat) (l : Slots α) (v : Val α), getSlot l j = some v →
    nestL k dk j l = Out.map (fun v' => setSlot l j (some v')) (nestV k dk v)
  | _, [], _, h => by simp [getSlot_nil'] at h
  | 0, none :: r, _, h => by simp [getSlot_zero'] at h
  | 0, some v :: r, w, h => by
      rw [getSlot_zero'] at h
      cases h
      simp only [nestL]
      generalize nestV k dk v = o
      cases o <;> simp [Out.map, setSlot]
  | j + 1, x :: r, v, h => by
      rw [getSlot_succ'] at h
      simp only [nestL, nestL_some k dk j r v h]
      generalize nestV k dk v = o
      cases o <;> simp [Out.map, setSlot]

theorem nestDepthL_none (k : Nat) : ∀ (j : Nat) (l : Slots α), getSlot l j = none → nestDepthL k j l = 0
  | _, [], _ => by simp [nestDepthL]
  | 0, none :: r, _ => by simp [nestDepthL]
  | 0, some v :: r, h => by simp [getSlot_zero'] at h
  | j + 1, x :: r, h => by
      rw [getSlot_succ'] at h
      simp [nestDepthL, nestDepthL_none k j r h]

theorem nestDepthL_some (k : Nat) : ∀ (j : Nat) (l : Slots α) (v : Val α), getSlot l j = some v →
    nestDepthL k j l = 1 + nestDepth k v
  | _, [], _, h => by simp [getSlot_nil'] at h
  | 0, none :: r, _, h => by simp [getSlot_zero'] at h
  | 0, some v :: r, w, h => by
      rw [getSlot_zero'] at h
      cases h
      simp [nestDepthL]
  | j + 1, x :: r, v, h => by
      rw [getSlot_succ'] at h
      simp [nestDepthL, nestDepthL_some k j r v h]

theorem nestV_dict_none (k : Nat) (dk : Val α) (y : Slots α) (h : getSlot y k = none) :
    nestV k dk (.dict y) = .ok (.dict (setSlot y k (some dk))) := by
  rw [nestV, nestL_none k dk k y h]

theorem nestV_dict_some (k : Nat) (dk : Val α) (y : Slots α) (w : Val α) (h : getSlot y k = some w) :
    nestV k dk (.dict y) = Out.map (fun w' => .dict (setSlot y k (some w'))) (nestV k dk w) := by
  rw [nestV, nestL_some k dk k y w h]
  generalize nestV k dk w = o
  cases o <;> simp [Out.map]

theorem nestDepth_dict_none (k : Nat) (y : Slots α) (h : getSlot y k = none) :
    nestDepth k (.dict y) = 0 := by
  rw [nestDepth, nestDepthL_none k k y h]

theorem nestDepth_dict_some (k : Nat) (y : Slots α) (w : Val α) (h : getSlot y k = some w) :
    nestDepth k (.dict y) = 1 + nestDepth k w := by
  rw [nestDepth, nestDepthL_some k k y w h]

/-! ### what the insertion does, by induction on the length of the chain -/

theorem nestV_no_lenaTypeError (k : Nat) (dk : Val α) : ∀ (m : Nat) (v : Val α), nestDepth k v = m →
    nestV k dk v ≠ .lenaTypeError
  | _, .leaf _, _ => by simp [nestV]
  | m, .dict y, h => by
      cases hk : getSlot y k with
      | none => simp [nestV_dict_none k dk y hk]
      | some w =>
        rw [nestDepth_dict_some k y w hk] at h
        rw [nestV_dict_some k dk y w hk]
        cases m with
        | zero => omega
        | succ m =>
          have ih := nestV_no_lenaTypeError k dk m w (by omega)
          generalize nestV k dk w = o at ih
          cases o <;> simp_all [Out.map]

/-- the previous value is found below `depth + 1` keys -/
theorem nestV_reaches (k : Nat) (dk : Val α) : ∀ (m : Nat) (v v' : Val α), nestDepth k v = m →
    nestV k dk v = .ok v' → getPath v' (List.replicate (m + 1) k) = some dk
  | _, .leaf _, _, _, h => by simp [nestV] at h
  | m, .dict y, v', hm, h => by
      cases hk : getSlot y k with
      | none =>
        rw [nestDepth_dict_none k y hk] at hm
        rw [nestV_dict_none k dk y hk] at h
        subst hm
        simp only [Out.ok.injEq] at h
        subst h
        simp [List.replicate, getPath_single, getSlot_setSlot_eq]
      | some w =>
        rw [nestDepth_dict_some k y w hk] at hm
        rw [nestV_dict_some k dk y w hk] at h
        cases m with
        | zero => omega
        | succ m =>
          have hw : nestDepth k w = m := by omega
          cases hn : nestV k dk w with
          | ok w' =>
            rw [hn] at h
            simp only [Out.map, Out.ok.injEq] at h
            subst h
            rw [List.replicate_succ, getPath_cons_some _ _ _ _ (getSlot_setSlot_eq y k _)]
            exact nestV_reaches k dk m w w' hw hn
          | lenaTypeError => rw [hn] at h; simp [Out.map] at h
          | typeError => rw [hn] at h; simp [Out.map] at h

/-- the dictionaries along the chain keep all their other keys -/
theorem nestV_keeps (k : Nat) (dk : Val α) : ∀ (m : Nat) (v v' : Val α), nestDepth k v = m →
    nestV k dk v = .ok v' → ∀ (i j : Nat), i ≤ m → j ≠ k →
    getPath v' (List.replicate i k ++ [j]) = getPath v (List.replicate i k ++ [j])
  | _, .leaf _, _, _, h => by simp [nestV] at h
  | m, .dict y, v', hm, h => by
      intro i j hi hj
      cases hk : getSlot y k with
      | none =>
        rw [nestDepth_dict_none k y hk] at hm
        rw [nestV_dict_none k dk y hk] at h
        have : i = 0 := by omega
        subst this
        simp only [Out.ok.injEq] at h
        subst h
        simp [getPath_single, getSlot_setSlot_ne _ _ _ _ hj]
      | some w =>
        rw [nestDepth_dict_some k y w hk] at hm
        rw [nestV_dict_some k dk y w hk] at h
        cases m with
        | zero => omega
        | succ m =>
          have hw : nestDepth k w = m := by omega
          cases hn : nestV k dk w with
          | ok w' =>
            rw [hn] at h
            simp only [Out.map, Out.ok.injEq] at h
            subst h
            cases i with
            | zero => simp [getPath_single, getSlot_setSlot_ne _ _ _ _ hj]
            | succ i =>
              rw [List.replicate_succ, List.cons_append,
                getPath_cons_some _ _ _ _ (getSlot_setSlot_eq y k _), getPath_cons_some _ _ _ _ hk]
              exact nestV_keeps k dk m w w' hw hn i j (by omega) hj
          | lenaTypeError => rw [hn] at h; simp [Out.map] at h
          | typeError => rw [hn] at h; simp [Out.map] at h

/-- `TypeError` exactly when the chain `other[key]…[key]` ends in a value that is not a dictionary -/
theorem nestV_typeError_iff (k : Nat) (dk : Val α) : ∀ (m : Nat) (v : Val α), nestDepth k v = m →
    (nestV k dk v = .typeError ↔ ∃ a, getPath v (List.replicate m k) = some (.leaf a))
  | m, .leaf a, hm => by
      have : m = 0 := by simpa [nestDepth] using hm.symm
      subst this
      simp [nestV, getPath]
  | m, .dict y, hm => by
      cases hk : getSlot y k with
      | none =>
        rw [nestDepth_dict_none k y hk] at hm
        subst hm
        simp [nestV_dict_none k dk y hk, getPath]
      | some w =>
        rw [nestDepth_dict_some k y w hk] at hm
        rw [nestV_dict_some k dk y w hk]
        cases m with
        | zero => omega
        | succ m =>
          have ih := nestV_typeError_iff k dk m w (by omega)
          rw [List.replicate_succ, getPath_cons_some _ _ _ _ hk, ← ih]
          generalize nestV k dk w = o
          cases o <;> simp [Out.map]

end Lena.C07
