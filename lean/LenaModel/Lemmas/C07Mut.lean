import LenaModel.Model.C07Mut
import LenaModel.Lemmas.C07Tok
import LenaModel.Lemmas.C07Update
import LenaModel.Lemmas.C07Nested
/-! # C07 — helper lemmas for the write-log model of `update_recursively` / `update_nested` -/
namespace Lena.C07
open Lena Lena.Val
variable {α : Type}

/-! ### values: the write-log model computes what the value model computes -/

mutual
theorem erase_updTO (t : Nat) : ∀ (x y : Option (TVal α)) (c : Nat),
    ((updTO t x y c).val).map eraseV = updO (x.map eraseV) (y.map eraseV)
  | x, none, c => by simp [updTO, updO_none_right]
  | x, some (.leaf ts a), c => by cases x <;> simp [updTO, updO, eraseV]
  | some (.dict u x), some (.dict w y), c => by
      simp [updTO, updO, eraseV, erase_updTL u x y c]
  | some (.leaf ts a), some (.dict w y), c => by
      have ih := erase_updTL c (List.replicate y.length none) y (c + 1)
      rw [eraseL_replicate_none] at ih
      simp [updTO, updO, eraseV, ih, emptyLike, eraseL_length]
  | none, some (.dict w y), c => by simp [updTO, updO, eraseV]
theorem erase_updTL (t : Nat) : ∀ (d o : TSlots α) (c : Nat),
    eraseL (updTL t d o c).val = updL (eraseL d) (eraseL o)
  | d, [], c => by simp [updTL, eraseL, updL]
  | [], y :: r', c => by
      rw [updTL, eraseL_cons, eraseL_cons]
      simp only [eraseL, updL]
      rw [erase_updTO t none y c, erase_updTL t [] r' _]
      simp [eraseL]
  | x :: r, y :: r', c => by
      rw [updTL, eraseL_cons, eraseL_cons, eraseL_cons, updL, erase_updTO t x y c, erase_updTL t r r' _]
end


/-! ### what is written: only the dictionary itself, dictionaries of `d`, and dictionaries created by the call -/

theorem dictToksL_cons (x : Option (TVal α)) (r : TSlots α) (w : Nat) :
    w ∈ dictToksL (x :: r) ↔ (∃ v, x = some v ∧ w ∈ dictToksV v) ∨ w ∈ dictToksL r := by
  cases x <;> simp [dictToksL]

theorem dictToksL_replicate_none (n w : Nat) : w ∉ dictToksL (List.replicate n (none : Option (TVal α))) := by
  induction n with
  | zero => simp [dictToksL]
  | succ n ih => simp [List.replicate_succ, dictToksL, ih]

mutual
theorem updTO_log (t : Nat) : ∀ (x y : Option (TVal α)) (c : Nat),
    c ≤ (updTO t x y c).next ∧
    ∀ w ∈ (updTO t x y c).log, w = t ∨ (∃ v, x = some v ∧ w ∈ dictToksV v) ∨ c ≤ w
  | x, none, c => by simp [updTO]
  | x, some (.leaf ts a), c => by simp [updTO]
  | some (.dict u x), some (.dict w' y), c => by
      have ih := updTL_log u x y c
      simp only [updTO]
      refine ⟨ih.1, ?_⟩
      intro w hw
      rcases ih.2 w hw with h | h | h
      · exact Or.inr (Or.inl ⟨_, rfl, by simp [dictToksV, h]⟩)
      · exact Or.inr (Or.inl ⟨_, rfl, by simp [dictToksV, h]⟩)
      · exact Or.inr (Or.inr h)
  | some (.leaf ts a), some (.dict w' y), c => by
      have ih := updTL_log c (List.replicate y.length none) y (c + 1)
      simp only [updTO]
      refine ⟨by omega, ?_⟩
      intro w hw
      rcases List.mem_cons.1 hw with h | h
      · exact Or.inl h
      · rcases ih.2 w h with h | h | h
        · exact Or.inr (Or.inr (by omega))
        · exact absurd h (dictToksL_replicate_none _ _)
        · exact Or.inr (Or.inr (by omega))
  | none, some (.dict w' y), c => by simp [updTO]
theorem updTL_log (t : Nat) : ∀ (d o : TSlots α) (c : Nat),
    c ≤ (updTL t d o c).next ∧ ∀ w ∈ (updTL t d o c).log, w = t ∨ w ∈ dictToksL d ∨ c ≤ w
  | d, [], c => by simp [updTL]
  | [], y :: r', c => by
      have i1 := updTO_log t none y c
      have i2 := updTL_log t [] r' (updTO t none y c).next
      rw [updTL]
      refine ⟨by dsimp only; omega, ?_⟩
      intro w hw
      rcases List.mem_append.1 hw with h | h
      · rcases i1.2 w h with h | ⟨v, hv, _⟩ | h
        · exact Or.inl h
        · cases hv
        · exact Or.inr (Or.inr h)
      · rcases i2.2 w h with h | h | h
        · exact Or.inl h
        · simp [dictToksL] at h
        · exact Or.inr (Or.inr (by omega))
  | x :: r, y :: r', c => by
      have i1 := updTO_log t x y c
      have i2 := updTL_log t r r' (updTO t x y c).next
      rw [updTL]
      refine ⟨by dsimp only; omega, ?_⟩
      intro w hw
      rcases List.mem_append.1 hw with h | h
      · rcases i1.2 w h with h | h | h
        · exact Or.inl h
        · exact Or.inr (Or.inl ((dictToksL_cons x r w).2 (Or.inl h)))
        · exact Or.inr (Or.inr h)
      · rcases i2.2 w h with h | h | h
        · exact Or.inl h
        · exact Or.inr (Or.inl ((dictToksL_cons x r w).2 (Or.inr h)))
        · exact Or.inr (Or.inr (by omega))
end

/-! ### what the result consists of: objects of `d`, objects of `other` (shared), new objects -/

mutual
theorem updTO_from (t : Nat) : ∀ (x y : Option (TVal α)) (c : Nat),
    ∀ v', (updTO t x y c).val = some v' → ∀ w ∈ toksV v',
      (∃ v, x = some v ∧ w ∈ toksV v) ∨ (∃ v, y = some v ∧ w ∈ toksV v) ∨ c ≤ w
  | x, none, c => by
      intro v' hv w hw
      simp only [updTO] at hv
      exact Or.inl ⟨v', hv, hw⟩
  | x, some (.leaf ts a), c => by
      intro v' hv w hw
      simp only [updTO, Option.some.injEq] at hv
      subst hv
      exact Or.inr (Or.inl ⟨_, rfl, hw⟩)
  | some (.dict u x), some (.dict w' y), c => by
      intro v' hv w hw
      simp only [updTO, Option.some.injEq] at hv
      subst hv
      simp only [toksV, List.mem_cons] at hw
      rcases hw with hw | hw
      · exact Or.inl ⟨_, rfl, by simp [toksV, hw]⟩
      · rcases updTL_from u x y c w hw with h | h | h
        · exact Or.inl ⟨_, rfl, by simp [toksV, h]⟩
        · exact Or.inr (Or.inl ⟨_, rfl, by simp [toksV, h]⟩)
        · exact Or.inr (Or.inr h)
  | some (.leaf ts a), some (.dict w' y), c => by
      intro v' hv w hw
      simp only [updTO, Option.some.injEq] at hv
      subst hv
      simp only [toksV, List.mem_cons] at hw
      rcases hw with hw | hw
      · exact Or.inr (Or.inr (by omega))
      · rcases updTL_from c (List.replicate y.length none) y (c + 1) w hw with h | h | h
        · exact absurd h (by
            intro h
            have := FreshL_replicate_none (α := α) (w + 1) y.length w h
            omega)
        · exact Or.inr (Or.inl ⟨_, rfl, by simp [toksV, h]⟩)
        · exact Or.inr (Or.inr (by omega))
  | none, some (.dict w' y), c => by
      intro v' hv w hw
      simp only [updTO, Option.some.injEq] at hv
      subst hv
      exact Or.inr (Or.inl ⟨_, rfl, hw⟩)
theorem updTL_from (t : Nat) : ∀ (d o : TSlots α) (c : Nat),
    ∀ w ∈ toksL (updTL t d o c).val, w ∈ toksL d ∨ w ∈ toksL o ∨ c ≤ w
  | d, [], c => by
      intro w hw
      simp only [updTL] at hw
      exact Or.inl hw
  | [], y :: r', c => by
      have l1 := (updTO_log t none y c).1
      intro w hw
      rw [updTL] at hw
      cases hv : (updTO t none y c).val with
      | none =>
        rw [hv] at hw
        simp only [toksL] at hw
        rcases updTL_from t [] r' _ w hw with h | h | h
        · simp [toksL] at h
        · exact Or.inr (Or.inl (by cases y <;> simp [toksL, h]))
        · exact Or.inr (Or.inr (by omega))
      | some v' =>
        rw [hv] at hw
        simp only [toksL, List.mem_append] at hw
        rcases hw with hw | hw
        · rcases updTO_from t none y c v' hv w hw with ⟨_, h, _⟩ | ⟨v, h, h2⟩ | h
          · cases h
          · subst h; exact Or.inr (Or.inl (by simp [toksL, h2]))
          · exact Or.inr (Or.inr h)
        · rcases updTL_from t [] r' _ w hw with h | h | h
          · simp [toksL] at h
          · exact Or.inr (Or.inl (by cases y <;> simp [toksL, h]))
          · exact Or.inr (Or.inr (by omega))
  | x :: r, y :: r', c => by
      have l1 := (updTO_log t x y c).1
      intro w hw
      rw [updTL] at hw
      have tail : ∀ w, w ∈ toksL (updTL t r r' (updTO t x y c).next).val →
          w ∈ toksL (x :: r) ∨ w ∈ toksL (y :: r') ∨ c ≤ w := by
        intro w hw
        rcases updTL_from t r r' _ w hw with h | h | h
        · exact Or.inl (by cases x <;> simp [toksL, h])
        · exact Or.inr (Or.inl (by cases y <;> simp [toksL, h]))
        · exact Or.inr (Or.inr (by omega))
      cases hv : (updTO t x y c).val with
      | none =>
        rw [hv] at hw
        simp only [toksL] at hw
        exact tail w hw
      | some v' =>
        rw [hv] at hw
        simp only [toksL, List.mem_append] at hw
        rcases hw with hw | hw
        · rcases updTO_from t x y c v' hv w hw with ⟨v, h, h2⟩ | ⟨v, h, h2⟩ | h
          · subst h; exact Or.inl (by simp [toksL, h2])
          · subst h; exact Or.inr (Or.inl (by simp [toksL, h2]))
          · exact Or.inr (Or.inr h)
        · exact tail w hw
end


/-! ### update_nested with identities -/

theorem getSlotT_nil (k : Nat) : getSlotT ([] : TSlots α) k = none := by simp [getSlotT]
theorem getSlotT_zero (x : Option (TVal α)) (r : TSlots α) : getSlotT (x :: r) 0 = x := by
  cases x <;> simp [getSlotT]
theorem getSlotT_succ (x : Option (TVal α)) (r : TSlots α) (k : Nat) :
    getSlotT (x :: r) (k + 1) = getSlotT r k := by simp [getSlotT]

theorem erase_getSlotT : ∀ (l : TSlots α) (k : Nat), (getSlotT l k).map eraseV = getSlot (eraseL l) k
  | [], k => by simp [getSlotT_nil, eraseL]
  | x :: r, 0 => by rw [eraseL_cons, getSlotT_zero, getSlot_zero']
  | x :: r, k + 1 => by rw [eraseL_cons, getSlotT_succ, getSlot_succ', erase_getSlotT r k]

theorem erase_setSlotT : ∀ (l : TSlots α) (k : Nat) (v : Option (TVal α)),
    eraseL (setSlotT l k v) = setSlot (eraseL l) k (v.map eraseV)
  | [], 0, v => by simp [setSlotT, eraseL_cons, eraseL, setSlot]
  | [], k + 1, v => by
      have := erase_setSlotT [] k v
      simp only [eraseL] at this
      simp [setSlotT, eraseL, setSlot, this]
  | x :: r, 0, v => by simp [setSlotT, eraseL_cons, setSlot]
  | x :: r, k + 1, v => by simp [setSlotT, eraseL_cons, setSlot, erase_setSlotT r k v]

mutual
theorem erase_nestTV (k : Nat) (dk : TVal α) : ∀ (v : TVal α),
    toOut ((nestTV k dk v).map (fun p => eraseV p.1)) = nestV k (eraseV dk) (eraseV v)
  | .leaf ts a => by simp [nestTV, nestV, eraseV, toOut]
  | .dict t y => by
      have ih := erase_nestTL k dk t k y
      simp only [nestTV, nestV, eraseV]
      rw [← ih]
      cases nestTL k dk t k y with
      | none => simp [toOut]
      | some p => simp [toOut, eraseV]
theorem erase_nestTL (k : Nat) (dk : TVal α) (t : Nat) : ∀ (j : Nat) (l : TSlots α),
    toOut ((nestTL k dk t j l).map (fun p => eraseL p.1)) = nestL k (eraseV dk) j (eraseL l)
  | j, [] => by simp [nestTL, nestL, eraseL, toOut, erase_setSlotT]
  | 0, none :: r => by simp [nestTL, nestL, eraseL, toOut]
  | 0, some v :: r => by
      have ih := erase_nestTV k dk v
      simp only [nestTL, nestL, eraseL]
      rw [← ih]
      cases nestTV k dk v with
      | none => simp [toOut]
      | some p => simp [toOut, eraseL]
  | j + 1, x :: r => by
      have ih := erase_nestTL k dk t j r
      rw [eraseL_cons]
      simp only [nestTL, nestL]
      rw [← ih]
      cases nestTL k dk t j r with
      | none => simp [toOut]
      | some p => simp [toOut, eraseL_cons]
end

/-- `update_nested` with identities computes the value model's result -/
theorem erase_updateNestedT (k td : Nat) (x : TSlots α) (to : Nat) (y : TSlots α) :
    toOut ((updateNestedT k td x to y).map (fun p => match p.1 with
      | .dict _ l => eraseL l
      | .leaf _ _ => [])) = updateNested k (eraseL x) (eraseL y) := by
  unfold updateNestedT updateNested
  rw [← erase_getSlotT]
  cases getSlotT x k with
  | none => simp [toOut, erase_setSlotT, eraseV]
  | some dk =>
    simp only [Option.map_some]
    rw [← erase_nestTL k dk to k y]
    cases nestTL k dk to k y with
    | none => simp [toOut]
    | some p => simp [toOut, erase_setSlotT, eraseV]

mutual
theorem nestTV_written (k : Nat) (dk : TVal α) : ∀ (v v' : TVal α) (w : Nat),
    nestTV k dk v = some (v', w) → w ∈ dictToksV v
  | .leaf ts a, _, _, h => by simp [nestTV] at h
  | .dict t y, v', w, h => by
      simp only [nestTV] at h
      cases hn : nestTL k dk t k y with
      | none => rw [hn] at h; simp at h
      | some p =>
        rw [hn] at h
        simp only [Option.some.injEq, Prod.mk.injEq] at h
        have := nestTL_written k dk t k y p.1 p.2 (by rw [hn])
        rw [← h.2]
        simp only [dictToksV, List.mem_cons]
        exact this
theorem nestTL_written (k : Nat) (dk : TVal α) (t : Nat) : ∀ (j : Nat) (l l' : TSlots α) (w : Nat),
    nestTL k dk t j l = some (l', w) → w = t ∨ w ∈ dictToksL l
  | j, [], _, w, h => by simp [nestTL] at h; exact Or.inl h.2.symm
  | 0, none :: r, _, w, h => by simp [nestTL] at h; exact Or.inl h.2.symm
  | 0, some v :: r, l', w, h => by
      simp only [nestTL] at h
      cases hn : nestTV k dk v with
      | none => rw [hn] at h; simp at h
      | some p =>
        rw [hn] at h
        simp only [Option.some.injEq, Prod.mk.injEq] at h
        have := nestTV_written k dk v p.1 p.2 (by rw [hn])
        rw [← h.2]
        exact Or.inr (by simp [dictToksL, this])
  | j + 1, x :: r, l', w, h => by
      simp only [nestTL] at h
      cases hn : nestTL k dk t j r with
      | none => rw [hn] at h; simp at h
      | some p =>
        rw [hn] at h
        simp only [Option.some.injEq, Prod.mk.injEq] at h
        rcases nestTL_written k dk t j r p.1 p.2 (by rw [hn]) with h' | h'
        · exact Or.inl (by rw [← h.2]; exact h')
        · exact Or.inr ((dictToksL_cons x r w).2 (Or.inr (by rw [← h.2]; exact h')))
end

/-! ### objects that are passed on are passed on untouched -/

/-- an object of the result is new (identity `≥ c`) -/
def IsNew (c : Nat) (s : TVal α) : Prop := ∃ t, rootTok s = some t ∧ c ≤ t

theorem subsL_cons (x : Option (TVal α)) (r : TSlots α) (s : TVal α) :
    s ∈ subsL (x :: r) ↔ (∃ v, x = some v ∧ s ∈ subsV v) ∨ s ∈ subsL r := by
  cases x <;> simp [subsL]

theorem subsL_replicate_none (n : Nat) (s : TVal α) : s ∉ subsL (List.replicate n (none : Option (TVal α))) := by
  induction n with
  | zero => simp [subsL]
  | succ n ih => simp [List.replicate_succ, subsL, ih]

mutual
theorem subs_no_leafV : ∀ (v : TVal α) (ts : List Nat) (a : α), TVal.leaf ts a ∉ subsV v
  | .leaf _ _, _, _ => by simp [subsV]
  | .dict t l, ts, a => by
      simp only [subsV, List.mem_cons, not_or]
      exact ⟨by simp, subs_no_leafL l ts a⟩
theorem subs_no_leafL : ∀ (l : TSlots α) (ts : List Nat) (a : α), TVal.leaf ts a ∉ subsL l
  | [], _, _ => by simp [subsL]
  | none :: r, ts, a => by simp only [subsL]; exact subs_no_leafL r ts a
  | some v :: r, ts, a => by
      simp only [subsL, List.mem_append, not_or]
      exact ⟨subs_no_leafV v ts a, subs_no_leafL r ts a⟩
end

mutual
theorem subs_root_memV : ∀ (v : TVal α) (u : Nat) (l : TSlots α), TVal.dict u l ∈ subsV v → u ∈ dictToksV v
  | .leaf _ _, _, _, h => by simp [subsV] at h
  | .dict t l', u, l, h => by
      simp only [subsV, List.mem_cons] at h
      simp only [dictToksV, List.mem_cons]
      rcases h with h | h
      · left; injection h
      · exact Or.inr (subs_root_memL l' u l h)
theorem subs_root_memL : ∀ (l' : TSlots α) (u : Nat) (l : TSlots α), TVal.dict u l ∈ subsL l' → u ∈ dictToksL l'
  | [], _, _, h => by simp [subsL] at h
  | none :: r, u, l, h => by simp only [subsL] at h; simp only [dictToksL]; exact subs_root_memL r u l h
  | some v :: r, u, l, h => by
      simp only [subsL, List.mem_append] at h
      simp only [dictToksL, List.mem_append]
      rcases h with h | h
      · exact Or.inl (subs_root_memV v u l h)
      · exact Or.inr (subs_root_memL r u l h)
end

section diff
variable [DecidableEq α] (truthy : α → Bool)

mutual
theorem diffTV_intact (lv : Int) : ∀ (v : TVal α) (w : Val α) (c : Nat),
    ∀ s ∈ subsV (diffTV truthy lv v w c).1, s ∈ subsV v ∨ IsNew c s
  | .dict t x, .dict y, c => by
      intro s hs
      simp only [diffTV] at hs
      split at hs
      · simp only [emptyT, subsV, List.mem_cons] at hs
        rcases hs with hs | hs
        · exact Or.inr ⟨c, by rw [hs]; rfl, Nat.le_refl _⟩
        · exact absurd hs (subsL_replicate_none _ _)
      · split at hs
        · exact Or.inl hs
        · simp only [subsV, List.mem_cons] at hs
          rcases hs with hs | hs
          · exact Or.inr ⟨c, by rw [hs]; rfl, Nat.le_refl _⟩
          · rcases diffTL_intact lv x y (c + 1) s hs with h | ⟨u, h1, h2⟩
            · exact Or.inl (by simp [subsV, h])
            · exact Or.inr ⟨u, h1, by omega⟩
  | .dict t x, .leaf b, c => by
      intro s hs; simp only [diffTV] at hs; exact Or.inl hs
  | .leaf ts a, w, c => by
      intro s hs; simp only [diffTV] at hs; exact Or.inl hs
theorem diffTO_intact (lv : Int) : ∀ (x : Option (TVal α)) (y : Option (Val α)) (c : Nat),
    ∀ r, (diffTO truthy lv x y c).1 = some r → ∀ s ∈ subsV r, (∃ v, x = some v ∧ s ∈ subsV v) ∨ IsNew c s
  | none, _, c => by simp [diffTO]
  | some v, none, c => by
      intro r hr s hs
      simp only [diffTO, Option.some.injEq] at hr
      subst hr
      exact Or.inl ⟨v, rfl, hs⟩
  | some v, some w, c => by
      intro r hr s hs
      simp only [diffTO] at hr
      split at hr
      · cases hr
      · split at hr
        · split at hr
          · simp only [Option.some.injEq] at hr
            subst hr
            rcases diffTV_intact (lv - 1) v w c s hs with h | h
            · exact Or.inl ⟨v, rfl, h⟩
            · exact Or.inr h
          · cases hr
        · simp only [Option.some.injEq] at hr
          subst hr
          exact Or.inl ⟨v, rfl, hs⟩
theorem diffTL_intact (lv : Int) : ∀ (a : TSlots α) (b : Slots α) (c : Nat),
    ∀ s ∈ subsL (diffTL truthy lv a b c).1, s ∈ subsL a ∨ IsNew c s
  | [], _, c => by simp [diffTL, subsL]
  | x :: r, [], c => by
      have l1 := (diffTO_from truthy lv x none c).1
      intro s hs
      rw [diffTL, subsL_cons] at hs
      rcases hs with ⟨v, hv, hs⟩ | hs
      · rcases diffTO_intact lv x none c v hv s hs with h | h
        · exact Or.inl ((subsL_cons x r s).2 (Or.inl h))
        · exact Or.inr h
      · rcases diffTL_intact lv r [] _ s hs with h | ⟨u, h1, h2⟩
        · exact Or.inl ((subsL_cons x r s).2 (Or.inr h))
        · exact Or.inr ⟨u, h1, by omega⟩
  | x :: r, y :: r', c => by
      have l1 := (diffTO_from truthy lv x y c).1
      intro s hs
      rw [diffTL, subsL_cons] at hs
      rcases hs with ⟨v, hv, hs⟩ | hs
      · rcases diffTO_intact lv x y c v hv s hs with h | h
        · exact Or.inl ((subsL_cons x r s).2 (Or.inl h))
        · exact Or.inr h
      · rcases diffTL_intact lv r r' _ s hs with h | ⟨u, h1, h2⟩
        · exact Or.inl ((subsL_cons x r s).2 (Or.inr h))
        · exact Or.inr ⟨u, h1, by omega⟩
end
end diff

/-! ### update_recursively: the objects of `other` that end up in `d` are untouched -/

mutual
theorem updTO_intact (t : Nat) : ∀ (x y : Option (TVal α)) (c : Nat),
    ∀ r, (updTO t x y c).val = some r → ∀ s ∈ subsV r,
      (∃ v, y = some v ∧ s ∈ subsV v) ∨ (∃ u, rootTok s = some u ∧ ((∃ v, x = some v ∧ u ∈ dictToksV v) ∨ c ≤ u))
  | x, none, c => by
      intro r hr s hs
      simp only [updTO] at hr
      subst hr
      cases s with
      | leaf ts a =>
        exact absurd hs (subs_no_leafV r ts a)
      | dict u l =>
        exact Or.inr ⟨u, rfl, Or.inl ⟨r, rfl, subs_root_memV r u l hs⟩⟩
  | x, some (.leaf ts a), c => by
      intro r hr s hs
      simp only [updTO, Option.some.injEq] at hr
      subst hr
      simp [subsV] at hs
  | some (.dict u x), some (.dict w' y), c => by
      intro r hr s hs
      simp only [updTO, Option.some.injEq] at hr
      subst hr
      simp only [subsV, List.mem_cons] at hs
      rcases hs with hs | hs
      · exact Or.inr ⟨u, by rw [hs]; rfl, Or.inl ⟨_, rfl, by simp [dictToksV]⟩⟩
      · rcases updTL_intact u x y c s hs with h | ⟨u', h1, h2 | h2⟩
        · exact Or.inl ⟨_, rfl, by simp [subsV, h]⟩
        · exact Or.inr ⟨u', h1, Or.inl ⟨_, rfl, by simp [dictToksV, h2]⟩⟩
        · exact Or.inr ⟨u', h1, Or.inr h2⟩
  | some (.leaf ts a), some (.dict w' y), c => by
      intro r hr s hs
      simp only [updTO, Option.some.injEq] at hr
      subst hr
      simp only [subsV, List.mem_cons] at hs
      rcases hs with hs | hs
      · exact Or.inr ⟨c, by rw [hs]; rfl, Or.inr (Nat.le_refl _)⟩
      · rcases updTL_intact c (List.replicate y.length none) y (c + 1) s hs with h | ⟨u', h1, h2 | h2⟩
        · exact Or.inl ⟨_, rfl, by simp [subsV, h]⟩
        · exact absurd h2 (dictToksL_replicate_none _ _)
        · exact Or.inr ⟨u', h1, Or.inr (by omega)⟩
  | none, some (.dict w' y), c => by
      intro r hr s hs
      simp only [updTO, Option.some.injEq] at hr
      subst hr
      exact Or.inl ⟨_, rfl, hs⟩
theorem updTL_intact (t : Nat) : ∀ (d o : TSlots α) (c : Nat),
    ∀ s ∈ subsL (updTL t d o c).val,
      s ∈ subsL o ∨ (∃ u, rootTok s = some u ∧ (u ∈ dictToksL d ∨ c ≤ u))
  | d, [], c => by
      intro s hs
      simp only [updTL] at hs
      cases s with
      | leaf ts a => exact absurd hs (subs_no_leafL d ts a)
      | dict u l => exact Or.inr ⟨u, rfl, Or.inl (subs_root_memL d u l hs)⟩
  | [], y :: r', c => by
      have l1 := (updTO_log t none y c).1
      intro s hs
      rw [updTL] at hs
      simp only [] at hs
      rw [subsL_cons] at hs
      rcases hs with ⟨v, hv, hs⟩ | hs
      · rcases updTO_intact t none y c v hv s hs with ⟨v', h1, h2⟩ | ⟨u, h1, ⟨_, h, _⟩ | h2⟩
        · exact Or.inl ((subsL_cons y r' s).2 (Or.inl ⟨v', h1, h2⟩))
        · cases h
        · exact Or.inr ⟨u, h1, Or.inr h2⟩
      · rcases updTL_intact t [] r' _ s hs with h | ⟨u, h1, h2 | h2⟩
        · exact Or.inl ((subsL_cons y r' s).2 (Or.inr h))
        · simp [dictToksL] at h2
        · exact Or.inr ⟨u, h1, Or.inr (by omega)⟩
  | x :: r, y :: r', c => by
      have l1 := (updTO_log t x y c).1
      intro s hs
      rw [updTL] at hs
      simp only [] at hs
      rw [subsL_cons] at hs
      rcases hs with ⟨v, hv, hs⟩ | hs
      · rcases updTO_intact t x y c v hv s hs with ⟨v', h1, h2⟩ | ⟨u, h1, h | h2⟩
        · exact Or.inl ((subsL_cons y r' s).2 (Or.inl ⟨v', h1, h2⟩))
        · exact Or.inr ⟨u, h1, Or.inl ((dictToksL_cons x r u).2 (Or.inl h))⟩
        · exact Or.inr ⟨u, h1, Or.inr h2⟩
      · rcases updTL_intact t r r' _ s hs with h | ⟨u, h1, h2 | h2⟩
        · exact Or.inl ((subsL_cons y r' s).2 (Or.inr h))
        · exact Or.inr ⟨u, h1, Or.inl ((dictToksL_cons x r u).2 (Or.inr h2))⟩
        · exact Or.inr ⟨u, h1, Or.inr (by omega)⟩
end

/-! ### the write logs of intersection and difference contain new objects only -/

section wl
variable [DecidableEq α]

omit [DecidableEq α] in
theorem FreshO_zero (x : Option (TVal α)) : FreshO 0 x := fun _ _ _ _ => Nat.zero_le _
omit [DecidableEq α] in
theorem FreshL_zero (l : TSlots α) : FreshL 0 l := fun _ _ => Nat.zero_le _

theorem interTO_next_le (lv : Int) (x : Option (TVal α)) (y : Option (Val α)) (c : Nat) :
    c ≤ (interTO lv x y c).2 := (interTO_fresh lv 0 x y c (FreshO_zero x) (Nat.zero_le _)).1
theorem interTL_next_le (lv : Int) (a : TSlots α) (b : Slots α) (c : Nat) :
    c ≤ (interTL lv a b c).2 := (interTL_fresh lv 0 a b c (FreshL_zero a) (Nat.zero_le _)).1

mutual
theorem interWO_new (t : Nat) (lv : Int) : ∀ (x : Option (TVal α)) (y : Option (Val α)) (c : Nat),
    ∀ w ∈ interWO t lv x y c, w = t ∨ c ≤ w
  | none, _, c => by simp [interWO]
  | some _, none, c => by simp [interWO]
  | some (.leaf ts a), some (.leaf b), c => by
      intro w hw
      by_cases e : b = a <;> simp [interWO, eraseV, e] at hw
      exact Or.inl hw
  | some (.leaf ts a), some (.dict y), c => by
      intro w hw
      simp [interWO, eraseV] at hw
      exact Or.inl hw
  | some (.dict t' x), some (.leaf b), c => by
      intro w hw
      simp [interWO, eraseV] at hw
      exact Or.inl hw
  | some (.dict t' x), some (.dict y), c => by
      intro w hw
      by_cases e : y = eraseL x
      · simp [interWO, eraseV, e] at hw
      · by_cases h1 : lv = 1
        · simp [interWO, eraseV, e, h1] at hw; exact Or.inl hw
        · by_cases h0 : lv - 1 = 0
          · omega
          · simp only [interWO, eraseV, Val.dict.injEq, e, if_false, h1, h0, List.mem_append,
              List.mem_singleton] at hw
            rcases hw with hw | hw
            · have hc := (copyL_fresh x (c + 1)).1
              rcases interWL_new c (lv - 1) (copyL x (c + 1)).1 y (copyL x (c + 1)).2 w hw with h | h
              · exact Or.inr (by omega)
              · exact Or.inr (by omega)
            · exact Or.inl hw
  termination_by _ y _ => sizeOf y
theorem interWL_new (t : Nat) (lv : Int) : ∀ (a : TSlots α) (b : Slots α) (c : Nat),
    ∀ w ∈ interWL t lv a b c, w = t ∨ c ≤ w
  | [], _, c => by simp [interWL]
  | x :: r, [], c => by
      intro w hw
      rw [interWL] at hw
      simp only [List.mem_filterMap] at hw
      obtain ⟨o, _, ho⟩ := hw
      cases o with
      | none => simp at ho
      | some v => simp at ho; exact Or.inl ho.symm
  | x :: r, y :: r', c => by
      intro w hw
      rw [interWL, List.mem_append] at hw
      rcases hw with hw | hw
      · exact interWO_new t lv x y c w hw
      · have := interTO_next_le lv x y c
        rcases interWL_new t lv r r' _ w hw with h | h
        · exact Or.inl h
        · exact Or.inr (by omega)
  termination_by _ b _ => sizeOf b
end

theorem interWFold_new (lv : Int) (t c0 : Nat) (ht : c0 ≤ t) : ∀ (ds : List (Slots α)) (l : TSlots α) (c : Nat),
    c0 ≤ c → ∀ w ∈ interWFold lv t l ds c, c0 ≤ w
  | [], _, _, _ => by simp [interWFold]
  | d :: ds, l, c, hc => by
      intro w hw
      by_cases h0 : lv = 0
      · simp only [interWFold, h0, if_true] at hw
        split at hw
        · exact interWFold_new 0 t c0 ht ds l c hc w hw
        · simp at hw
      · simp only [interWFold, h0, if_false, List.mem_append] at hw
        rcases hw with hw | hw
        · rcases interWL_new t lv l d c w hw with h | h <;> omega
        · split at hw
          · exact interWFold_new lv t c0 ht ds _ _ (by have := interTL_next_le lv l d c; omega) w hw
          · simp at hw

section diff
variable (truthy : α → Bool)

theorem diffTO_next_le (lv : Int) (x : Option (TVal α)) (y : Option (Val α)) (c : Nat) :
    c ≤ (diffTO truthy lv x y c).2 := (diffTO_from truthy lv x y c).1

mutual
theorem diffWV_new (lv : Int) : ∀ (v : TVal α) (w : Val α) (c : Nat), ∀ u ∈ diffWV truthy lv v w c, c ≤ u
  | .dict t x, .dict y, c => by
      intro u hu
      simp only [diffWV] at hu
      split at hu
      · simp at hu
      · split at hu
        · simp at hu
        · rcases diffWL_new c lv x y (c + 1) u hu with h | h <;> omega
  | .dict t x, .leaf b, c => by simp [diffWV]
  | .leaf ts a, w, c => by simp [diffWV]
theorem diffWO_new (t : Nat) (lv : Int) : ∀ (x : Option (TVal α)) (y : Option (Val α)) (c : Nat),
    ∀ u ∈ diffWO truthy t lv x y c, u = t ∨ c ≤ u
  | none, _, c => by simp [diffWO]
  | some v, none, c => by simp [diffWO]
  | some v, some w, c => by
      intro u hu
      simp only [diffWO] at hu
      split at hu
      · simp at hu
      · split at hu
        · rw [List.mem_append] at hu
          rcases hu with hu | hu
          · exact Or.inr (diffWV_new (lv - 1) v w c u hu)
          · split at hu <;> simp_all
        · simp at hu; exact Or.inl hu
theorem diffWL_new (t : Nat) (lv : Int) : ∀ (a : TSlots α) (b : Slots α) (c : Nat),
    ∀ u ∈ diffWL truthy t lv a b c, u = t ∨ c ≤ u
  | [], _, c => by simp [diffWL]
  | x :: r, [], c => by
      intro u hu
      rw [diffWL, List.mem_append] at hu
      rcases hu with hu | hu
      · exact diffWO_new t lv x none c u hu
      · have := diffTO_next_le truthy lv x none c
        rcases diffWL_new t lv r [] _ u hu with h | h
        · exact Or.inl h
        · exact Or.inr (by omega)
  | x :: r, y :: r', c => by
      intro u hu
      rw [diffWL, List.mem_append] at hu
      rcases hu with hu | hu
      · exact diffWO_new t lv x y c u hu
      · have := diffTO_next_le truthy lv x y c
        rcases diffWL_new t lv r r' _ u hu with h | h
        · exact Or.inl h
        · exact Or.inr (by omega)
end
end diff

end wl

end Lena.C07
