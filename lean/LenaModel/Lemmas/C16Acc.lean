import LenaModel.Model.C16
import LenaModel.Lemmas.C16
import LenaModel.Model.C16Spec
/-! # C16 — the accounting invariant of `fill`/`request`

Whatever the history of `fill` and `request` calls, the values filled so far are cut into
consecutive blocks: the blocks already emitted (for each of them the element was filled with its
values and `request` consumed, in order), the values pending in the element, and the values waiting
in `_buffer_in`.  `request` is analysed as its four consecutive `if` statements. -/

namespace Lena.C16
variable {σ α β : Type}

theorem emitAll_append (e : El σ α β) (rst : Bool) (s : σ) (a b : List (List α)) :
    emitAll e rst s (a ++ b) =
      ((emitAll e rst s a).1 ++ (emitAll e rst (emitAll e rst s a).2 b).1, (emitAll e rst (emitAll e rst s a).2 b).2) := by
  induction a generalizing s with
  | nil => simp [emitAll]
  | cons x r ih => simp [emitAll, ih, List.append_assoc]

/-- the values `vals` are cut into the emitted blocks `bs` and the pending values `pend`;
`tot` is what the element yielded for the blocks, `el` its state, `n` the fill counter -/
def AccC (e : El σ α β) (N : Nat) (rst yor : Bool) (el0 : σ) (vals : List α) (tot : List β) (el : σ) (n : Nat)
    (bs : List (List α)) (pend : List α) : Prop :=
  vals = bs.flatten ++ pend ∧ (∀ b ∈ bs, b ≠ [] ∧ b.length ≤ N ∧ (yor = false → b.length = N)) ∧
  pend.length = n ∧ tot = (emitAll e rst el0 bs).1 ∧ el = pend.foldl e.fill (emitAll e rst el0 bs).2

section
variable (e : El σ α β) (N : Nat) (rst bi yor : Bool) (el0 : σ)

theorem accC_fill {vals tot el n bs pend} (x : α) (h : AccC e N rst yor el0 vals tot el n bs pend) :
    AccC e N rst yor el0 (vals ++ [x]) tot (e.fill el x) (n + 1) bs (pend ++ [x]) := by
  obtain ⟨h1, h2, h3, h4, h5⟩ := h
  refine ⟨by rw [h1, List.append_assoc], h2, by simp [h3], h4, by simp [h5]⟩

theorem accC_emit {vals tot el n bs pend} (h : AccC e N rst yor el0 vals tot el n bs pend)
    (h0 : n ≠ 0) (hle : n ≤ N) (hy : yor = false → n = N) :
    AccC e N rst yor el0 vals (tot ++ (e.req el).1) (if rst then e.reset (e.req el).2 else (e.req el).2) 0
      (bs ++ [pend]) [] := by
  obtain ⟨h1, h2, h3, h4, h5⟩ := h
  refine ⟨by simp [h1], ?_, rfl, ?_, ?_⟩
  · intro b hb
    rcases List.mem_append.mp hb with hb | hb
    · exact h2 b hb
    · have : b = pend := by simpa using hb
      subst this
      refine ⟨?_, by omega, fun hh => by rw [h3]; exact hy hh⟩
      intro hp; rw [hp] at h3; simp at h3; omega
  · rw [emitAll_append, h4, h5]; simp [emitAll]
  · rw [emitAll_append, h5]; simp [emitAll]

/-- the accounting invariant of an adapter state: `vals` were filled, `outs` yielded so far -/
def Acc (vals : List α) (outs : List β) (s : St σ α β) : Prop :=
  ∃ bs pend v0, vals = v0 ++ s.bufIn ∧ AccC e N rst yor el0 v0 (outs ++ s.bufOut) s.el s.nCount bs pend

theorem drain_bufs (l : List α) (s : St σ α β) :
    (drain e N rst l s).2.bufIn = s.bufIn ∧ (drain e N rst l s).2.bufOut = s.bufOut := by
  induction l generalizing s with
  | nil => simp [drain]
  | cons x r ih =>
    simp only [drain]
    split
    · have := ih (emit e rst { s with el := e.fill s.el x, nCount := s.nCount + 1 }).2
      simpa [emit] using this
    · have := ih { s with el := e.fill s.el x, nCount := s.nCount + 1 }
      simpa using this

theorem drain_acc (hN : 0 < N) : ∀ (l : List α) (s : St σ α β) (vals : List α) (tot : List β) (bs : List (List α)) (pend : List α),
    s.nCount < N → AccC e N rst yor el0 vals tot s.el s.nCount bs pend →
    ∃ bs' pend', AccC e N rst yor el0 (vals ++ l) (tot ++ (drain e N rst l s).1) (drain e N rst l s).2.el
      (drain e N rst l s).2.nCount bs' pend'
  | [], s, vals, tot, bs, pend, _, h => ⟨bs, pend, by simpa [drain] using h⟩
  | x :: r, s, vals, tot, bs, pend, hlt, h => by
    have hf := accC_fill e N rst yor el0 x h
    simp only [drain]
    split
    · rename_i heq
      have he := accC_emit e N rst yor el0 hf (by omega) (by omega) (fun _ => heq)
      obtain ⟨bs', pend', h'⟩ := drain_acc hN r (emit e rst { s with el := e.fill s.el x, nCount := s.nCount + 1 }).2
        (vals ++ [x]) (tot ++ (e.req (e.fill s.el x)).1) _ _ (by simpa [emit] using hN) (by simpa [emit] using he)
      refine ⟨bs', pend', ?_⟩
      simpa [emit, List.append_assoc] using h'
    · rename_i hne
      obtain ⟨bs', pend', h'⟩ := drain_acc hN r { s with el := e.fill s.el x, nCount := s.nCount + 1 }
        (vals ++ [x]) tot _ _ (by simp; omega) (by simpa using hf)
      refine ⟨bs', pend', ?_⟩
      simpa [List.append_assoc] using h'


theorem fill_acc (hN : 0 < N) (s : St σ α β) (x : α) (vals : List α) (outs : List β)
    (hinv : FRInv N bi s) (h : Acc e N rst yor el0 vals outs s) :
    Acc e N rst yor el0 (vals ++ [x]) outs (fillR e N rst bi s x) := by
  obtain ⟨i1, i2, i3, i4⟩ := hinv
  obtain ⟨bs, pend, v0, hv, hc⟩ := h
  unfold fillR
  by_cases hn : s.nCount = N
  · cases bi with
    | true =>
      simp only [hn, if_true]
      exact ⟨bs, pend, v0, by simp [hv], by simpa [hn] using hc⟩
    | false =>
      have hb : s.bufIn = [] := i3 rfl
      simp only [hn, if_true, Bool.false_eq_true, if_false]
      rw [hb, List.append_nil] at hv
      subst hv
      have he := accC_emit e N rst yor el0 hc (by omega) (by omega) (fun _ => hn)
      have hf := accC_fill e N rst yor el0 x he
      refine ⟨bs ++ [pend], [] ++ [x], vals ++ [x], by simp [emit, hb], ?_⟩
      simpa [emit, List.append_assoc] using hf
  · have hb : s.bufIn = [] := by
      by_cases hb : s.bufIn = []
      · exact hb
      · exact absurd (i4 hb) hn
    simp only [hn, if_false]
    rw [hb, List.append_nil] at hv
    subst hv
    have hf := accC_fill e N rst yor el0 x hc
    exact ⟨bs, pend ++ [x], vals ++ [x], by simp [hb], by simpa using hf⟩


/-! `request` as four consecutive steps -/

/-- `if not self._buffer_input:` yield and clear `_buffer_out` -/
def reqStep1 (bi : Bool) (s : St σ α β) : List β × St σ α β :=
  (if bi then [] else s.bufOut, if bi then s else { s with bufOut := [] })
/-- `if self._n_count == bufsize:` -/
def reqStep2 (s : St σ α β) : List β × St σ α β := if s.nCount = N then emit e rst s else ([], s)
/-- `if self._buffer_input:` re-fill the buffered values -/
def reqStep3 (s : St σ α β) : List β × St σ α β :=
  if bi then drain e N rst s.bufIn { s with bufIn := [] } else ([], s)
/-- `if self._yield_on_remainder and self._n_count:` -/
def reqStep4 (s : St σ α β) : List β × St σ α β := if yor && s.nCount != 0 then emit e rst s else ([], s)

theorem requestR_steps (s : St σ α β) :
    requestR e N rst bi yor s =
      ((reqStep1 bi s).1 ++ (reqStep2 e N rst (reqStep1 bi s).2).1 ++
          (reqStep3 e N rst bi (reqStep2 e N rst (reqStep1 bi s).2).2).1 ++
          (reqStep4 e rst yor (reqStep3 e N rst bi (reqStep2 e N rst (reqStep1 bi s).2).2).2).1,
        (reqStep4 e rst yor (reqStep3 e N rst bi (reqStep2 e N rst (reqStep1 bi s).2).2).2).2) := rfl

theorem acc_step1 (s : St σ α β) (vals : List α) (outs : List β) (hinv : FRInv N bi s)
    (h : Acc e N rst yor el0 vals outs s) :
    Acc e N rst yor el0 vals (outs ++ (reqStep1 bi s).1) (reqStep1 bi s).2 ∧ (reqStep1 bi s).2.bufOut = [] ∧
      (reqStep1 bi s).2.nCount = s.nCount ∧ (reqStep1 bi s).2.bufIn = s.bufIn := by
  obtain ⟨i1, i2, i3, i4⟩ := hinv
  obtain ⟨bs, pend, v0, hv, hc⟩ := h
  cases bi with
  | true =>
    have hb := i2 rfl
    refine ⟨⟨bs, pend, v0, hv, ?_⟩, hb, rfl, rfl⟩
    simpa [reqStep1] using hc
  | false =>
    refine ⟨⟨bs, pend, v0, hv, ?_⟩, rfl, rfl, rfl⟩
    simpa [reqStep1] using hc

theorem acc_emit (s : St σ α β) (vals : List α) (outs : List β) (hb : s.bufOut = [])
    (h0 : s.nCount ≠ 0) (hle : s.nCount ≤ N) (hy : yor = false → s.nCount = N)
    (h : Acc e N rst yor el0 vals outs s) :
    Acc e N rst yor el0 vals (outs ++ (emit e rst s).1) (emit e rst s).2 := by
  obtain ⟨bs, pend, v0, hv, hc⟩ := h
  have he := accC_emit e N rst yor el0 hc h0 hle hy
  refine ⟨bs ++ [pend], [], v0, hv, ?_⟩
  simpa [emit, hb] using he

theorem acc_step2 (hN : 0 < N) (s : St σ α β) (vals : List α) (outs : List β) (hb : s.bufOut = []) (hle : s.nCount ≤ N)
    (h : Acc e N rst yor el0 vals outs s) :
    Acc e N rst yor el0 vals (outs ++ (reqStep2 e N rst s).1) (reqStep2 e N rst s).2 ∧
      (reqStep2 e N rst s).2.bufOut = [] ∧ (reqStep2 e N rst s).2.nCount < N ∧
      (reqStep2 e N rst s).2.bufIn = s.bufIn := by
  unfold reqStep2
  by_cases hn : s.nCount = N
  · rw [if_pos hn]
    exact ⟨acc_emit e N rst yor el0 s vals outs hb (by omega) hle (fun _ => hn) h, hb, hN, rfl⟩
  · rw [if_neg hn]
    exact ⟨by simpa using h, hb, by simp; omega, rfl⟩

theorem acc_step3 (hN : 0 < N) (s : St σ α β) (vals : List α) (outs : List β) (hb : s.bufOut = []) (hlt : s.nCount < N)
    (hbi : bi = false → s.bufIn = []) (h : Acc e N rst yor el0 vals outs s) :
    Acc e N rst yor el0 vals (outs ++ (reqStep3 e N rst bi s).1) (reqStep3 e N rst bi s).2 ∧
      Normal N (reqStep3 e N rst bi s).2 := by
  unfold reqStep3
  cases bi with
  | false =>
    simp only [Bool.false_eq_true, if_false]
    exact ⟨by simpa using h, hlt, hbi rfl, hb⟩
  | true =>
    simp only [if_true]
    obtain ⟨bs, pend, v0, hv, hc⟩ := h
    have hnorm := drain_normal e N rst hN s.bufIn { s with bufIn := [] } hlt rfl hb
    obtain ⟨bs', pend', hd⟩ := drain_acc e N rst yor el0 hN s.bufIn { s with bufIn := [] } v0 (outs ++ s.bufOut) bs pend hlt hc
    refine ⟨⟨bs', pend', vals, by rw [hnorm.2.1, List.append_nil], ?_⟩, hnorm⟩
    rw [hnorm.2.2, ← hv] at *
    simpa [hb] using hd

theorem acc_step4 (s : St σ α β) (vals : List α) (outs : List β) (hs : Normal N s)
    (h : Acc e N rst yor el0 vals outs s) :
    Acc e N rst yor el0 vals (outs ++ (reqStep4 e rst yor s).1) (reqStep4 e rst yor s).2 := by
  unfold reqStep4
  by_cases hc : (yor && s.nCount != 0) = true
  · rw [if_pos hc]
    simp only [Bool.and_eq_true, bne_iff_ne, ne_eq] at hc
    exact acc_emit e N rst yor el0 s vals outs hs.2.2 hc.2 (by have := hs.1; omega)
      (fun hh => by rw [hc.1] at hh; cases hh) h
  · rw [if_neg hc]
    simpa using h

theorem request_acc (hN : 0 < N) (s : St σ α β) (vals : List α) (outs : List β)
    (hinv : FRInv N bi s) (h : Acc e N rst yor el0 vals outs s) :
    Acc e N rst yor el0 vals (outs ++ (requestR e N rst bi yor s).1) (requestR e N rst bi yor s).2 := by
  rw [requestR_steps]
  obtain ⟨a1, a2, a3, a4⟩ := acc_step1 e N rst bi yor el0 s vals outs hinv h
  obtain ⟨b1, b2, b3, b4⟩ := acc_step2 e N rst yor el0 hN _ vals _ a2 (by rw [a3]; exact hinv.1) a1
  obtain ⟨c1, c2⟩ := acc_step3 e N rst bi yor el0 hN _ vals _ b2 b3 (by rw [b4, a4]; exact hinv.2.2.1) b1
  have d1 := acc_step4 e N rst yor el0 _ vals _ c2 c1
  simpa [List.append_assoc] using d1

theorem runOps_acc (hN : 0 < N) : ∀ (ops : List (Op α)) (s : St σ α β) (vals : List α) (outs : List β),
    FRInv N bi s → Acc e N rst yor el0 vals outs s →
    Acc e N rst yor el0 (vals ++ fills ops) (outs ++ (runOps e N rst bi yor ops s).1.flatten)
      (runOps e N rst bi yor ops s).2
  | [], s, vals, outs, _, h => by simpa [runOps, fills] using h
  | .fill x :: r, s, vals, outs, hinv, h => by
    have := runOps_acc hN r (fillR e N rst bi s x) (vals ++ [x]) outs (fill_inv e N rst bi hN s x hinv)
      (fill_acc e N rst bi yor el0 hN s x vals outs hinv h)
    simpa [runOps, fills, List.append_assoc] using this
  | .request :: r, s, vals, outs, hinv, h => by
    have := runOps_acc hN r (requestR e N rst bi yor s).2 vals (outs ++ (requestR e N rst bi yor s).1)
      (normal_inv bi (request_yields_normal e N rst bi yor hN s hinv).1)
      (request_acc e N rst bi yor el0 hN s vals outs hinv h)
    simpa [runOps, fills, List.append_assoc] using this

end
end Lena.C16
