import LenaModel.Model.C02
import LenaModel.Lemmas.C17
/-! # C02 — infrastructure: what a generator will do (`Feeds` / `Produces`), the consumer lemma,
and the stage lemmas for the per-value stages, `islice` and `Count`. -/

namespace Lena.C02

variable {σ α β : Type}

/-! ## loops -/

@[simp] theorem iter_zero (step : σ → Step σ α) (s : σ) : iter step 0 s = .fuel := rfl

theorem iter_yield {step : σ → Step σ α} {s s' : σ} {a : α} (n : Nat) (h : step s = .yield a s') :
    iter step (n + 1) s = .item a s' := by simp [iter, h]

theorem iter_stop {step : σ → Step σ α} {s s' : σ} (n : Nat) (h : step s = .stop s') :
    iter step (n + 1) s = .done s' := by simp [iter, h]

theorem iter_cont {step : σ → Step σ α} {s s' : σ} (n : Nat) (h : step s = .cont s') :
    iter step (n + 1) s = iter step n s' := by simp [iter, h]

theorem ofStep_next (step : Nat → σ → Step σ α) (fu : Nat) (s : σ) :
    (ofStep step).next fu s = iter (step fu) fu s := rfl

theorem ofStep_stop {step : Nat → σ → Step σ α} {fu : Nat} {s s' : σ} (hfu : 0 < fu)
    (h : step fu s = .stop s') : (ofStep step).next fu s = .done s' := by
  obtain ⟨n, rfl⟩ : ∃ n, fu = n + 1 := ⟨fu - 1, by omega⟩
  exact iter_stop n h

theorem ofStep_yield {step : Nat → σ → Step σ α} {fu : Nat} {s s' : σ} {a : α} (hfu : 0 < fu)
    (h : step fu s = .yield a s') : (ofStep step).next fu s = .item a s' := by
  obtain ⟨n, rfl⟩ : ∃ n, fu = n + 1 := ⟨fu - 1, by omega⟩
  exact iter_yield n h

/-! ## what a generator will do

`Feeds g cnt fu s vals e`: from state `s` (with `fu` fuel per call) the generator yields `vals` —
each value with the source clock right after it is yielded — and then
* `e = some cf`: reports its end at clock `cf`, and keeps reporting it without touching the
  source (a finished Python generator);
* `e = none`: nothing is claimed about what follows (used for infinite inputs). -/
inductive Feeds (g : Gen σ α) (cnt : σ → Nat) (fu : Nat) : σ → List (α × Nat) → Option Nat → Prop
  | more {s} : Feeds g cnt fu s [] none
  | done {s s'} : g.next fu s = .done s' → g.next fu s' = .done s' → Feeds g cnt fu s [] (some (cnt s'))
  | item {s s' a rest e} : g.next fu s = .item a s' → Feeds g cnt fu s' rest e →
      Feeds g cnt fu s ((a, cnt s') :: rest) e

/-- the generator yields exactly `vals` and ends at clock `cf` -/
abbrev Produces (g : Gen σ α) (cnt : σ → Nat) (fu : Nat) (s : σ) (vals : List (α × Nat)) (cf : Nat) : Prop :=
  Feeds g cnt fu s vals (some cf)

/-- To show `Produces`, give an invariant `R` (state, what remains to be yielded, final clock) that
every `next` call maintains. -/
theorem produces_of_calls (g : Gen σ β) (cnt : σ → Nat) (fu : Nat)
    (R : σ → List (β × Nat) → Nat → Prop)
    (hnil : ∀ t cf, R t [] cf → ∃ t', g.next fu t = .done t' ∧ g.next fu t' = .done t' ∧ cnt t' = cf)
    (hcons : ∀ t b c rest cf, R t ((b, c) :: rest) cf →
      ∃ t', g.next fu t = .item b t' ∧ cnt t' = c ∧ R t' rest cf) :
    ∀ (outs : List (β × Nat)) (t : σ) (cf : Nat), R t outs cf → Produces g cnt fu t outs cf
  | [], t, cf, h => by
    obtain ⟨t', h1, h2, h3⟩ := hnil t cf h
    rw [← h3]
    exact Feeds.done h1 h2
  | (b, c) :: rest, t, cf, h => by
    obtain ⟨t', h1, h2, h3⟩ := hcons t b c rest cf h
    rw [← h2]
    exact Feeds.item h1 (produces_of_calls g cnt fu R hnil hcons rest t' cf h3)

/-! ## stamped flows -/

@[simp] theorem need_zero (sf : SF α) : sf.need 0 = sf.c0 := rfl

@[simp] theorem need_nil (c0 cf i : Nat) : (SF.mk c0 ([] : List (α × Nat)) cf).need (i + 1) = cf := by
  simp [SF.need]

@[simp] theorem need_cons_succ (c0 cf i : Nat) (p : α × Nat) (r : List (α × Nat)) :
    (SF.mk c0 (p :: r) cf).need (i + 1) = (SF.mk p.2 r cf).need i := by
  cases i <;> simp [SF.need]

theorem need_of_lt (sf : SF α) (i : Nat) (h : i < sf.vals.length) : sf.need (i + 1) = (sf.vals[i]).2 := by
  simp [SF.need, h]

theorem need_of_ge (sf : SF α) (i : Nat) (h : sf.vals.length ≤ i) : sf.need (i + 1) = sf.cf := by
  simp [SF.need, h]

/-! ## the consumer -/

/-- **Consumer lemma.**  A consumer that takes at most `k` results of a generator that `Produces
vals cf` receives the first `k` of them, each at its stamp; it has then caused exactly the pulls
up to the stamp of its `k`-th result (`need k`), or up to the end clock if there are fewer. -/
theorem take_produces (g : Gen σ α) (cnt : σ → Nat) (fu : Nat) :
    ∀ {s vals cf}, Produces g cnt fu s vals cf → ∀ k,
      takeG g cnt fu k s =
        (vals.take k, if k ≤ vals.length then Ending.stoppedByConsumer else Ending.exhausted,
         (SF.mk (cnt s) vals cf).need k) := by
  intro s vals cf h
  replace h : Feeds g cnt fu s vals (some cf) := h
  generalize he : some cf = e at h
  induction h with
  | more => cases he
  | @done s s' h1 _ =>
    cases he
    intro k
    cases k with
    | zero => simp [takeG]
    | succ k => simp [takeG, h1]
  | @item s s' a rest e hi _ ih =>
    intro k
    cases k with
    | zero => simp [takeG]
    | succ k =>
      have := ih he k
      simp only [takeG, hi, this, List.take_succ_cons, List.length_cons, Nat.add_le_add_iff_right,
        need_cons_succ]

/-- the same for a generator about whose continuation nothing is known, as long as the consumer
does not ask for more than `vals` -/
theorem take_feeds (g : Gen σ α) (cnt : σ → Nat) (fu : Nat) :
    ∀ {s vals e}, Feeds g cnt fu s vals e → ∀ k, k ≤ vals.length →
      takeG g cnt fu k s = (vals.take k, Ending.stoppedByConsumer, (SF.mk (cnt s) vals 0).need k) := by
  intro s vals e h
  induction h with
  | more => intro k hk; simp at hk; subst hk; simp [takeG]
  | done _ _ => intro k hk; simp at hk; subst hk; simp [takeG]
  | @item s s' a rest e hi _ ih =>
    intro k hk
    cases k with
    | zero => simp [takeG]
    | succ k =>
      have := ih k (by simpa using hk)
      simp only [takeG, hi, this, List.take_succ_cons, need_cons_succ]

/-! ## sources -/

theorem listSrc_produces (fu : Nat) : ∀ (xs : List α) (c : Nat),
    Produces (listSrc (α := α)) Src.clock fu { rest := xs, clock := c, ended := false }
      (stamps xs c) (c + xs.length + 1)
  | [], c => by
    have := @Feeds.done _ _ (listSrc (α := α)) Src.clock fu
      { rest := [], clock := c, ended := false } { rest := [], clock := c + 1, ended := true } rfl rfl
    simpa [stamps] using this
  | a :: r, c => by
    have ih := listSrc_produces fu r (c + 1)
    have := @Feeds.item _ _ (listSrc (α := α)) Src.clock fu
      { rest := a :: r, clock := c, ended := false } { rest := r, clock := c + 1, ended := false } a _ _ rfl ih
    simp only [stamps, List.length_cons]
    have e : c + (r.length + 1) + 1 = c + 1 + r.length + 1 := by omega
    rw [e]
    exact this

/-- the first `m` values of the infinite input started at clock `c`, with their stamps -/
def fnStamps (f : Nat → α) (c : Nat) : Nat → List (α × Nat)
  | 0 => []
  | m + 1 => (f c, c + 1) :: fnStamps f (c + 1) m

@[simp] theorem fnStamps_length (f : Nat → α) : ∀ (m c : Nat), (fnStamps f c m).length = m
  | 0, _ => rfl
  | m + 1, c => by simp [fnStamps, fnStamps_length f m]

/-- an infinite input feeds any number of values -/
theorem fnSrc_feeds (f : Nat → α) (fu : Nat) : ∀ (m c : Nat),
    Feeds (fnSrc f) id fu c (fnStamps f c m) none
  | 0, _ => Feeds.more
  | m + 1, c => by
    have := @Feeds.item _ _ (fnSrc f) id fu c (c + 1) (f c) _ _ rfl (fnSrc_feeds f fu m (c + 1))
    simpa [fnStamps] using this

/-! ## `Run._call_run` -/

theorem map_feeds (f : α → β) (up : Gen σ α) (cnt : σ → Nat) (fu : Nat) :
    ∀ {s vals e}, Feeds up cnt fu s vals e →
      Feeds (mapG f up) cnt fu s (vals.map (fun p => (f p.1, p.2))) e := by
  intro s vals e h
  induction h with
  | more => exact Feeds.more
  | done h1 h2 => exact Feeds.done (by simp [mapG, h1]) (by simp [mapG, h2])
  | item hi _ ih => exact Feeds.item (by simp [mapG, hi]) ih

/-! ## `Filter.run` -/

/-- one `next` of the filter, given enough iterations for what upstream still has to say -/
theorem filter_call (p : α → Bool) (up : Gen σ α) (cnt : σ → Nat) (fu : Nat) :
    ∀ {s vals cf}, Produces up cnt fu s vals cf → ∀ n, vals.length < n →
      (match vals.filter (fun q => p q.1) with
       | [] => ∃ s', iter (filterStep p up fu) n s = .done s' ∧ up.next fu s' = .done s' ∧ cnt s' = cf
       | (a, c) :: _ => ∃ s' rest, iter (filterStep p up fu) n s = .item a s' ∧ cnt s' = c ∧
            Produces up cnt fu s' rest cf ∧ rest.length < vals.length ∧
            rest.filter (fun q => p q.1) = (vals.filter (fun q => p q.1)).tail) := by
  intro s vals cf h
  replace h : Feeds up cnt fu s vals (some cf) := h
  generalize he : some cf = e at h
  induction h with
  | more => cases he
  | @done s s' h1 h2 =>
    cases he
    intro n hn
    cases n with
    | zero => simp at hn
    | succ n => exact ⟨s', iter_stop n (by simp [filterStep, h1]), h2, rfl⟩
  | @item s s' a rest e hi hrest ih =>
    cases he
    intro n hn
    cases n with
    | zero => simp at hn
    | succ n =>
      by_cases hp : p a = true
      · simp only [List.filter, hp]
        exact ⟨s', rest, iter_yield n (by simp [filterStep, hi, hp]), rfl, hrest, by simp, by simp⟩
      · have hp' : p a = false := by simpa using hp
        simp only [List.filter, hp']
        have := ih rfl n (by simpa using hn)
        rw [iter_cont (s' := s') n (by simp [filterStep, hi, hp'])]
        cases hf : List.filter (fun q => p q.1) rest with
        | nil => rw [hf] at this; exact this
        | cons q tl =>
          rw [hf] at this
          obtain ⟨s'', rest', h1, h2, h3, h4, h5⟩ := this
          exact ⟨s'', rest', h1, h2, h3, by simp; omega, h5⟩

theorem filter_produces (p : α → Bool) (up : Gen σ α) (cnt : σ → Nat) (fu : Nat)
    {s : σ} {vals : List (α × Nat)} {cf : Nat} (h : Produces up cnt fu s vals cf) (hfu : vals.length < fu) :
    Produces (filterG p up) cnt fu s (vals.filter (fun q => p q.1)) cf := by
  refine produces_of_calls (filterG p up) cnt fu
    (fun t outs cf' => ∃ vals', Produces up cnt fu t vals' cf' ∧ vals'.length < fu ∧
      outs = vals'.filter (fun q => p q.1)) ?_ ?_ _ s cf ⟨vals, h, hfu, rfl⟩
  · rintro t cf' ⟨vals', h', hfu', ho⟩
    have key := filter_call p up cnt fu h' fu hfu'
    rw [← ho] at key
    obtain ⟨s', h1, h2, h3⟩ := key
    have hpos : 0 < fu := by omega
    obtain ⟨m, rfl⟩ : ∃ m, fu = m + 1 := ⟨fu - 1, by omega⟩
    exact ⟨s', h1, iter_stop m (by simp [filterStep, h2]), h3⟩
  · rintro t b c rest cf' ⟨vals', h', hfu', ho⟩
    have key := filter_call p up cnt fu h' fu hfu'
    rw [← ho] at key
    obtain ⟨s', rest', h1, h2, h3, h4, h5⟩ := key
    refine ⟨s', h1, h2, rest', h3, by omega, ?_⟩
    rw [h5]
    rfl

/-! ## `Count.run` -/

/-- the invariant of `Count.run`: what remains to be yielded from each suspension point -/
def CountInv (mark : Nat → α → α) (up : Gen σ α) (cnt : σ → Nat) (fu : Nat) :
    σ × CSt α → List (α × Nat) → Nat → Prop
  | (s, .start), outs, cf => ∃ vals, Produces up cnt fu s vals cf ∧ outs = (countSpec mark ⟨cnt s, vals, cf⟩).vals
  | (s, .running prev c), outs, cf => ∃ vals, Produces up cnt fu s vals cf ∧ outs = countSpecGo mark cf prev c vals
  | (s, .finished), outs, cf => outs = [] ∧ cnt s = cf

theorem count_running_call (mark : Nat → α → α) (up : Gen σ α) (cnt : σ → Nat) (fu n : Nat)
    {s : σ} {vals : List (α × Nat)} {cf : Nat} (h : Produces up cnt fu s vals cf) (prev : α) (c : Nat) :
    ∃ b st t' rest, countSpecGo mark cf prev c vals = (b, st) :: rest ∧
      iter (countStep mark up fu) (n + 1) (s, .running prev c) = .item b t' ∧ cnt t'.1 = st ∧
      CountInv mark up cnt fu t' rest cf := by
  cases h with
  | @done _ s' h1 h2 =>
    exact ⟨mark c prev, _, (s', .finished), [], rfl, iter_yield n (by simp [countStep, h1]), rfl, rfl, rfl⟩
  | @item _ s' v rest _ hi hrest =>
    exact ⟨prev, _, (s', .running v (c + 1)), _, rfl, iter_yield n (by simp [countStep, hi]), rfl, rest, hrest, rfl⟩

theorem count_produces (mark : Nat → α → α) (up : Gen σ α) (cnt : σ → Nat) (fu : Nat)
    {s : σ} {vals : List (α × Nat)} {cf : Nat} (h : Produces up cnt fu s vals cf) (hfu : 2 ≤ fu) :
    Produces (countG mark up) (fun t => cnt t.1) fu (s, .start)
      (countSpec mark ⟨cnt s, vals, cf⟩).vals cf := by
  obtain ⟨m, rfl⟩ : ∃ m, fu = m + 2 := ⟨fu - 2, by omega⟩
  refine produces_of_calls (countG mark up) (fun t => cnt t.1) (m + 2) (CountInv mark up cnt (m + 2)) ?_ ?_ _
    (s, .start) cf ⟨vals, h, rfl⟩
  · rintro ⟨t, l⟩ cf' hR
    cases l with
    | start =>
      obtain ⟨vals', h', ho⟩ := hR
      cases h' with
      | @done _ s' h1 h2 =>
        exact ⟨(s', .finished), ofStep_stop (by omega) (by simp [countStep, h1]),
          ofStep_stop (by omega) (by simp [countStep]), rfl⟩
      | @item _ s' v rest _ hi hrest =>
        exfalso
        cases rest <;> simp [countSpec, countSpecGo] at ho
    | running prev c =>
      obtain ⟨vals', h', ho⟩ := hR
      exfalso
      cases vals' with
      | nil => simp [countSpecGo] at ho
      | cons q r => obtain ⟨v, c2⟩ := q; simp [countSpecGo] at ho
    | finished =>
      obtain ⟨_, hc⟩ := hR
      exact ⟨(t, .finished), ofStep_stop (by omega) (by simp [countStep]),
        ofStep_stop (by omega) (by simp [countStep]), hc⟩
  · rintro ⟨t, l⟩ b c rest cf' hR
    cases l with
    | start =>
      obtain ⟨vals', h', ho⟩ := hR
      cases h' with
      | @done _ s' h1 h2 => simp [countSpec] at ho
      | @item _ s' v rest' _ hi hrest =>
        simp only [countSpec] at ho
        obtain ⟨b', st, t', rest'', h1, h2, h3, h4⟩ := count_running_call mark up cnt (m + 2) m hrest v 1
        rw [h1] at ho
        cases ho
        refine ⟨t', ?_, h3, h4⟩
        show iter (countStep mark up (m + 2)) (m + 2) (t, CSt.start) = _
        rw [iter_cont (s' := (s', CSt.running v 1)) (m + 1) (by simp [countStep, hi])]
        exact h2
    | running prev c0 =>
      obtain ⟨vals', h', ho⟩ := hR
      obtain ⟨b', st, t', rest'', h1, h2, h3, h4⟩ := count_running_call mark up cnt (m + 2) (m + 1) h' prev c0
      rw [h1] at ho
      cases ho
      exact ⟨t', h2, h3, h4⟩
    | finished => obtain ⟨ho, _⟩ := hR; cases ho

/-! ## `RunIf.run` -/

theorem runIf_call {ι : Type} (sel : α → Bool) (inner : ι → α → List α × ι) (up : Gen σ α) (cnt : σ → Nat)
    (fu : Nat) :
    ∀ {s vals cf}, Produces up cnt fu s vals cf → ∀ (i : ι) n, vals.length < n →
      (match runIfSpecGo sel inner i vals with
       | [] => ∃ s' i', iter (runIfStep sel inner up fu) n (s, ([], i)) = .done (s', ([], i')) ∧
            up.next fu s' = .done s' ∧ cnt s' = cf
       | (b, c) :: rest => ∃ s' pend i' vals', iter (runIfStep sel inner up fu) n (s, ([], i)) = .item b (s', (pend, i')) ∧
            cnt s' = c ∧ Produces up cnt fu s' vals' cf ∧ vals'.length < vals.length ∧
            rest = pend.map (fun r => (r, cnt s')) ++ runIfSpecGo sel inner i' vals') := by
  intro s vals cf h
  replace h : Feeds up cnt fu s vals (some cf) := h
  generalize he : some cf = e at h
  induction h with
  | more => cases he
  | @done s s' h1 h2 =>
    cases he
    intro i n hn
    cases n with
    | zero => simp at hn
    | succ n => exact ⟨s', i, iter_stop n (by simp [runIfStep, h1]), h2, rfl⟩
  | @item s s' a rest e hi hrest ih =>
    cases he
    intro i n hn
    cases n with
    | zero => simp at hn
    | succ n =>
      have hn' : rest.length < n := by simpa using hn
      by_cases hs : sel a = true
      · cases hin : (inner i a).1 with
        | nil =>
          have := ih rfl (inner i a).2 n hn'
          simp only [runIfSpecGo, hs, if_true, hin, List.map_nil, List.nil_append]
          have hstep : runIfStep sel inner up fu (s, ([], i)) = .cont (s', ([], (inner i a).2)) := by
            simp only [runIfStep, hi, hs, if_true]
            rw [← hin]
          rw [iter_cont n hstep]
          cases hf : runIfSpecGo sel inner (inner i a).2 rest with
          | nil => rw [hf] at this; exact this
          | cons q tl =>
            rw [hf] at this
            obtain ⟨s'', pend, i', vals', h1, h2, h3, h4, h5⟩ := this
            exact ⟨s'', pend, i', vals', h1, h2, h3, by simp; omega, h5⟩
        | cons x r =>
          obtain ⟨n', rfl⟩ : ∃ n', n = n' + 1 := ⟨n - 1, by omega⟩
          simp only [runIfSpecGo, hs, if_true, hin, List.map_cons, List.cons_append]
          refine ⟨s', r, (inner i a).2, rest, ?_, rfl, hrest, by simp, rfl⟩
          have hstep : runIfStep sel inner up fu (s, ([], i)) = .cont (s', (x :: r, (inner i a).2)) := by
            simp only [runIfStep, hi, hs, if_true]
            rw [← hin]
          rw [iter_cont (n' + 1) hstep]
          exact iter_yield n' (by simp [runIfStep])
      · have hs' : sel a = false := by simpa using hs
        simp only [runIfSpecGo, hs', Bool.false_eq_true, if_false]
        exact ⟨s', [], i, rest, iter_yield n (by simp [runIfStep, hi, hs']), rfl, hrest, by simp, by simp⟩

theorem runIf_produces {ι : Type} (init : ι) (sel : α → Bool) (inner : ι → α → List α × ι) (up : Gen σ α)
    (cnt : σ → Nat) (fu : Nat)
    {s : σ} {vals : List (α × Nat)} {cf : Nat} (h : Produces up cnt fu s vals cf) (hfu : vals.length < fu) :
    Produces (runIfG sel inner up) (fun t => cnt t.1) fu (s, ([], init))
      (runIfSpec init sel inner ⟨cnt s, vals, cf⟩).vals cf := by
  have hpos : 0 < fu := by omega
  refine produces_of_calls (runIfG sel inner up) (fun t => cnt t.1) fu
    (fun t outs cf' => ∃ vals', Produces up cnt fu t.1 vals' cf' ∧ vals'.length < fu ∧
      outs = t.2.1.map (fun r => (r, cnt t.1)) ++ runIfSpecGo sel inner t.2.2 vals') ?_ ?_ _
    (s, ([], init)) cf ⟨vals, h, hfu, by simp [runIfSpec]⟩
  · rintro ⟨t, pend, i⟩ cf' ⟨vals', h', hfu', ho⟩
    cases pend with
    | cons x r => simp at ho
    | nil =>
      simp only [List.map_nil, List.nil_append] at ho
      have key := runIf_call sel inner up cnt fu h' i fu hfu'
      rw [← ho] at key
      obtain ⟨s', i', h1, h2, h3⟩ := key
      exact ⟨(s', ([], i')), h1, ofStep_stop hpos (by simp [runIfStep, h2]), h3⟩
  · rintro ⟨t, pend, i⟩ b c rest cf' ⟨vals', h', hfu', ho⟩
    cases pend with
    | cons x r =>
      simp only [List.map_cons, List.cons_append, List.cons.injEq, Prod.mk.injEq] at ho
      obtain ⟨⟨rfl, rfl⟩, rfl⟩ := ho
      exact ⟨(t, (r, i)), ofStep_yield hpos (by simp [runIfStep]), rfl, vals', h', hfu', rfl⟩
    | nil =>
      simp only [List.map_nil, List.nil_append] at ho
      have key := runIf_call sel inner up cnt fu h' i fu hfu'
      rw [← ho] at key
      obtain ⟨s', pend, i', vals'', h1, h2, h3, h4, h5⟩ := key
      exact ⟨(s', (pend, i')), h1, h2, vals'', h3, by omega, h5⟩

/-! ## `itertools.islice` -/

theorem isliceGo_nil (stop : Option Nat) (step next cnt : Nat) :
    Lena.C17.isliceGo stop step next cnt ([] : List α) = [] := by
  cases stop <;> rfl

theorem isliceGo_ge (step next cnt st : Nat) (h : st ≤ next) (xs : List α) :
    Lena.C17.isliceGo (some st) step next cnt xs = [] := by
  cases xs with
  | nil => rfl
  | cons x r => exact Lena.C17.isliceGo_stop step next cnt st h x r

theorem isliceGo_bump (stop : Option Nat) (step nx cnt : Nat) (xs : List α) :
    Lena.C17.isliceGo stop step (bump stop step nx) cnt xs = Lena.C17.isliceGo stop step (nx + step) cnt xs := by
  cases stop with
  | none => rfl
  | some st =>
    simp only [bump]
    split
    · rw [isliceGo_ge _ _ _ _ (Nat.le_refl _), isliceGo_ge _ _ _ _ (by omega)]
    · rfl

/-- the clock at which `islice` in local state `l` reports its end -/
def isliceEnd (stop : Option Nat) (l : ISt) (sf : SF α) : Nat :=
  match stop with
  | none => sf.cf
  | some st => sf.need (max l.next st - l.cnt)

/-- what `islice` needs to know about an input whose continuation is unknown: it has at least the
values `islice` will ask for -/
def IsliceEnough (stop : Option Nat) (l : ISt) (n : Nat) (e : Option Nat) : Prop :=
  e = none → ∃ st, stop = some st ∧ max l.next st - l.cnt ≤ n

/-- one `next` of `islice` -/
theorem islice_call (stop : Option Nat) (step : Nat) (hstep : 1 ≤ step) (up : Gen σ α) (cnt : σ → Nat)
    (fu : Nat) :
    ∀ {s vals e}, Feeds up cnt fu s vals e → ∀ (l : ISt), l.live = true → l.cnt ≤ l.next →
      IsliceEnough stop l vals.length e → ∀ n, vals.length < n →
      (match Lena.C17.isliceGo stop step l.next l.cnt vals with
       | [] => ∃ s' l', iter (isliceStep stop step up fu) n (s, l) = .done (s', l') ∧ l'.live = false ∧
            cnt s' = isliceEnd stop l ⟨cnt s, vals, e.getD 0⟩
       | (a, c) :: rest => ∃ s' l' vals', iter (isliceStep stop step up fu) n (s, l) = .item a (s', l') ∧
            cnt s' = c ∧ Feeds up cnt fu s' vals' e ∧ vals'.length < vals.length ∧ l'.live = true ∧
            l'.cnt ≤ l'.next ∧ IsliceEnough stop l' vals'.length e ∧
            rest = Lena.C17.isliceGo stop step l'.next l'.cnt vals' ∧
            isliceEnd stop l' ⟨cnt s', vals', e.getD 0⟩ = isliceEnd stop l ⟨cnt s, vals, e.getD 0⟩) := by
  intro s vals e h
  induction h with
  | @more s =>
    intro l hl hle hen n hn
    obtain ⟨st, rfl, hst⟩ := hen rfl
    obtain ⟨n, rfl⟩ : ∃ m, n = m + 1 := ⟨n - 1, by simp at hn; omega⟩
    simp only [List.length_nil] at hst
    have h1 : ¬ (l.cnt < l.next) := by omega
    have h2 : reached (some st) l.cnt = true := by simp [reached]; omega
    rw [isliceGo_nil]
    refine ⟨s, { l with live := false }, iter_stop n (by simp [isliceStep, hl, h1, h2]), rfl, ?_⟩
    have : max l.next st - l.cnt = 0 := by omega
    simp [isliceEnd, this]
  | @done s s' h1 h2 =>
    intro l hl hle _ n hn
    obtain ⟨n, rfl⟩ : ∃ m, n = m + 1 := ⟨n - 1, by omega⟩
    rw [isliceGo_nil]
    by_cases hlt : l.cnt < l.next
    · refine ⟨s', { l with live := false }, iter_stop n (by simp [isliceStep, hl, hlt, h1]), rfl, ?_⟩
      cases stop with
      | none => simp [isliceEnd]
      | some st =>
        obtain ⟨k, hk⟩ : ∃ k, max l.next st - l.cnt = k + 1 := ⟨max l.next st - l.cnt - 1, by omega⟩
        simp [isliceEnd, hk]
    · by_cases hr : reached stop l.cnt = true
      · refine ⟨s, { l with live := false }, iter_stop n (by simp [isliceStep, hl, hlt, hr]), rfl, ?_⟩
        cases stop with
        | none => simp [reached] at hr
        | some st =>
          have : max l.next st - l.cnt = 0 := by simp [reached] at hr; omega
          simp [isliceEnd, this]
      · refine ⟨s', { l with live := false }, iter_stop n (by simp [isliceStep, hl, hlt, hr, h1]), rfl, ?_⟩
        cases stop with
        | none => simp [isliceEnd]
        | some st =>
          obtain ⟨k, hk⟩ : ∃ k, max l.next st - l.cnt = k + 1 :=
            ⟨max l.next st - l.cnt - 1, by simp [reached] at hr; omega⟩
          simp [isliceEnd, hk]
  | @item s s' a rest e hi hrest ih =>
    intro l hl hle hen n hn
    obtain ⟨n, rfl⟩ : ∃ m, n = m + 1 := ⟨n - 1, by omega⟩
    have hn' : rest.length < n := by simpa using hn
    by_cases hlt : l.cnt < l.next
    · -- skipping: the value is pulled and dropped
      have hstep' : isliceStep stop step up fu (s, l) = .cont (s', { l with cnt := l.cnt + 1 }) := by
        simp [isliceStep, hl, hlt, hi]
      have hen' : IsliceEnough stop { l with cnt := l.cnt + 1 } rest.length e := by
        intro he
        obtain ⟨st, hst, hle'⟩ := hen he
        exact ⟨st, hst, by simp at hle' ⊢; omega⟩
      have key := ih { l with cnt := l.cnt + 1 } hl (by simp; omega) hen' n hn'
      have hgo : Lena.C17.isliceGo stop step l.next l.cnt ((a, cnt s') :: rest)
          = Lena.C17.isliceGo stop step l.next (l.cnt + 1) rest := by
        cases stop with
        | none => exact Lena.C17.isliceGo_skip none step l.next l.cnt (by intro st h; cases h) (by omega) _ _
        | some st =>
          by_cases hge : st ≤ l.next
          · rw [isliceGo_ge _ _ _ _ hge, isliceGo_ge _ _ _ _ hge]
          · exact Lena.C17.isliceGo_skip (some st) step l.next l.cnt
              (by intro st' h; cases h; omega) (by omega) _ _
      have hend : isliceEnd stop { l with cnt := l.cnt + 1 } ⟨cnt s', rest, e.getD 0⟩
          = isliceEnd stop l ⟨cnt s, (a, cnt s') :: rest, e.getD 0⟩ := by
        cases stop with
        | none => rfl
        | some st =>
          obtain ⟨k, hk⟩ : ∃ k, max l.next st - l.cnt = k + 1 := ⟨max l.next st - l.cnt - 1, by omega⟩
          have hk' : max l.next st - (l.cnt + 1) = k := by omega
          simp [isliceEnd, hk, hk']
      rw [hgo, iter_cont n hstep']
      simp only at key
      cases hf : Lena.C17.isliceGo stop step l.next (l.cnt + 1) rest with
      | nil =>
        rw [hf] at key
        obtain ⟨s'', l'', k1, k2, k3⟩ := key
        exact ⟨s'', l'', k1, k2, by rw [k3, hend]⟩
      | cons q tl =>
        rw [hf] at key
        obtain ⟨s'', l'', vals'', k1, k2, k3, k4, k5, k6, k7, k8, k9⟩ := key
        exact ⟨s'', l'', vals'', k1, k2, k3, by simp; omega, k5, k6, k7, k8, by rw [k9, hend]⟩
    · have heq : l.cnt = l.next := by omega
      by_cases hr : reached stop l.cnt = true
      · -- `cnt >= stop`: the end is reported without a pull
        cases stop with
        | none => simp [reached] at hr
        | some st =>
          have hst : st ≤ l.next := by simp [reached] at hr; omega
          rw [isliceGo_ge _ _ _ _ hst]
          refine ⟨s, { l with live := false }, iter_stop n (by simp [isliceStep, hl, hlt, hr]), rfl, ?_⟩
          have : max l.next st - l.cnt = 0 := by omega
          simp [isliceEnd, this]
      · -- the value is pulled and yielded
        have hlt' : ∀ st, stop = some st → l.next < st := by
          intro st h
          subst h
          simp [reached] at hr
          omega
        have hgo : Lena.C17.isliceGo stop step l.next l.cnt ((a, cnt s') :: rest)
            = (a, cnt s') :: Lena.C17.isliceGo stop step (bump stop step l.next) (l.cnt + 1) rest := by
          rw [isliceGo_bump, heq]
          exact Lena.C17.isliceGo_emit stop step l.next hlt' _ _
        rw [hgo]
        have hb : l.cnt + 1 ≤ bump stop step l.next := by
          cases stop with
          | none => simp [bump]; omega
          | some st =>
            have := hlt' st rfl
            simp only [bump]
            split <;> omega
        refine ⟨s', { next := bump stop step l.next, cnt := l.cnt + 1, live := true }, rest,
          iter_yield n (by simp [isliceStep, hl, hlt, hr, hi]), rfl, hrest, by simp, rfl, hb, ?_, rfl, ?_⟩
        · intro he
          obtain ⟨st, hst, hle'⟩ := hen he
          subst hst
          refine ⟨st, rfl, ?_⟩
          have := hlt' st rfl
          simp only [bump, List.length_cons] at hle' ⊢
          split <;> omega
        · cases stop with
          | none => rfl
          | some st =>
            have := hlt' st rfl
            obtain ⟨k, hk⟩ : ∃ k, max l.next st - l.cnt = k + 1 := ⟨max l.next st - l.cnt - 1, by omega⟩
            have hk' : max (bump (some st) step l.next) st - (l.cnt + 1) = k := by
              simp only [bump]
              split <;> omega
            simp [isliceEnd, hk, hk']

/-- **`islice` stage.**  Over an input that feeds `vals` (and then ends, or — if `islice` has a
`stop` and `vals` has the `max start stop` values it will ask for — continues in any way), `islice`
yields the selected values at their own stamps and ends at the clock at which it has obtained
`max start stop` values (or seen the end). -/
theorem islice_feeds (stop : Option Nat) (step : Nat) (hstep : 1 ≤ step) (up : Gen σ α) (cnt : σ → Nat)
    (fu : Nat) {s : σ} {vals : List (α × Nat)} {e : Option Nat} (h : Feeds up cnt fu s vals e) (start : Nat)
    (hen : IsliceEnough stop (isliceInit start) vals.length e) (hfu : vals.length < fu) :
    Produces (isliceG stop step up) (fun t => cnt t.1) fu (s, isliceInit start)
      (Lena.C17.islice vals start stop step)
      (isliceEnd stop (isliceInit start) ⟨cnt s, vals, e.getD 0⟩) := by
  have hpos : 0 < fu := by omega
  refine produces_of_calls (isliceG stop step up) (fun t => cnt t.1) fu
    (fun t outs cf' => (t.2.live = false ∧ outs = [] ∧ cnt t.1 = cf') ∨
      (∃ vals', Feeds up cnt fu t.1 vals' e ∧ vals'.length < fu ∧ t.2.live = true ∧ t.2.cnt ≤ t.2.next ∧
        IsliceEnough stop t.2 vals'.length e ∧ outs = Lena.C17.isliceGo stop step t.2.next t.2.cnt vals' ∧
        isliceEnd stop t.2 ⟨cnt t.1, vals', e.getD 0⟩ = cf')) ?_ ?_ _ (s, isliceInit start) _
    (Or.inr ⟨vals, h, hfu, rfl, Nat.zero_le _, hen, rfl, rfl⟩)
  · rintro ⟨t, l⟩ cf' hR
    rcases hR with ⟨hl, _, hc⟩ | ⟨vals', h', hfu', hl, hle, hen', ho, hc⟩
    · simp only at hl
      exact ⟨(t, l), ofStep_stop hpos (by simp [isliceStep, hl]), ofStep_stop hpos (by simp [isliceStep, hl]), hc⟩
    · have key := islice_call stop step hstep up cnt fu h' l hl hle hen' fu hfu'
      simp only at ho
      rw [← ho] at key
      obtain ⟨s', l', k1, k2, k3⟩ := key
      exact ⟨(s', l'), k1, ofStep_stop hpos (by simp [isliceStep, k2]), by rw [k3]; exact hc⟩
  · rintro ⟨t, l⟩ b c rest cf' hR
    rcases hR with ⟨_, ho, _⟩ | ⟨vals', h', hfu', hl, hle, hen', ho, hc⟩
    · cases ho
    · have key := islice_call stop step hstep up cnt fu h' l hl hle hen' fu hfu'
      simp only at ho
      rw [← ho] at key
      obtain ⟨s', l', vals'', k1, k2, k3, k4, k5, k6, k7, k8, k9⟩ := key
      exact ⟨(s', l'), k1, k2, Or.inr ⟨vals'', k3, by omega, k5, k6, k7, k8, by rw [k9]; exact hc⟩⟩

theorem islice_produces (start : Nat) (stop : Option Nat) (step : Nat) (hstep : 1 ≤ step) (up : Gen σ α)
    (cnt : σ → Nat) (fu : Nat) {s : σ} {vals : List (α × Nat)} {cf : Nat}
    (h : Produces up cnt fu s vals cf) (hfu : vals.length < fu) :
    Produces (isliceG stop step up) (fun t => cnt t.1) fu (s, isliceInit start)
      (isliceSpec start stop step ⟨cnt s, vals, cf⟩).vals (isliceSpec start stop step ⟨cnt s, vals, cf⟩).cf := by
  have := islice_feeds stop step hstep up cnt fu h start (by intro he; cases he) hfu
  have e : isliceEnd stop (isliceInit start) ⟨cnt s, vals, cf⟩ = (isliceSpec start stop step ⟨cnt s, vals, cf⟩).cf := by
    cases stop <;> simp [isliceEnd, isliceInit, isliceSpec]
  simp only [Option.getD_some, e] at this
  exact this

end Lena.C02
