import LenaModel.Lemmas.C12
/-! # C12 — lemmas about the histogram part of the model: sums and integrals are linear in the contents, index
tuples of a regular array are in range of the edges.  Core Lean only (`grind` for field arithmetic over `Rat`). -/
namespace Lena.C12
open Lena Lena.NArr

/-! ### sums -/

theorem foldl_add_mul (c : Q) : ∀ (l : List Q) (t : Q),
    (l.map (· * c)).foldl (· + ·) (t * c) = l.foldl (· + ·) t * c
  | [], t => by simp
  | x :: xs, t => by
    simp only [List.map_cons, List.foldl_cons]
    rw [← foldl_add_mul c xs (t + x)]
    congr 1
    grind

theorem sumQ_map_mul (c : Q) (l : List Q) : sumQ (l.map (· * c)) = sumQ l * c := by
  have := foldl_add_mul c l 0
  simpa [sumQ] using this

/-! ### `integral` is linear in the contents -/

theorem integralLoop_map_mul (axes : List (List Q)) (c : Q) :
    ∀ (l : List (List Nat × Q)) (t r : Q), integralLoop axes l t = .ok r →
      integralLoop axes (l.map (fun p => (p.1, p.2 * c))) (t * c) = .ok (r * c)
  | [], t, r, h => by
    simp [integralLoop] at h
    simp [integralLoop, h]
  | (ind, content) :: rest, t, r, h => by
    simp only [integralLoop] at h
    simp only [List.map_cons, integralLoop]
    cases hl : binLengths axes ind with
    | error e => simp [hl, bind, Except.bind] at h
    | ok lens =>
      simp only [hl, bind, Except.bind] at h
      have := integralLoop_map_mul axes c rest _ r h
      simp only [bind, Except.bind]
      rw [← this]
      congr 1
      grind

theorem integral_map_mul (bins : NArr Q) (axes : List (List Q)) (c I : Q) (h : integral bins axes = .ok I) :
    integral (map (· * c) bins) axes = .ok (I * c) := by
  unfold integral at *
  rw [cells_map]
  have := integralLoop_map_mul axes c _ 0 I h
  simpa using this

/-! ### index tuples in range, `integral` raises nothing on well-shaped bins -/

/-- `idx[k] ∈ rs[k]` for every position, and the same length -/
def AllIn : List Nat → List (List Nat) → Prop
  | [], [] => True
  | i :: is, r :: rs => i ∈ r ∧ AllIn is rs
  | _, _ => False

/-- index tuples of `itertools.product` -/
theorem mem_indexProd : ∀ (rs : List (List Nat)) (idx : List Nat), idx ∈ indexProd rs ↔ AllIn idx rs
  | [], idx => by
    cases idx <;> simp [indexProd, AllIn]
  | r :: rs, idx => by
    simp only [indexProd, List.mem_flatMap, List.mem_map]
    constructor
    · rintro ⟨i, hi, t, ht, rfl⟩
      exact ⟨hi, (mem_indexProd rs t).1 ht⟩
    · intro h
      cases idx with
      | nil => simp [AllIn] at h
      | cons i t => exact ⟨i, h.1, t, (mem_indexProd rs t).2 h.2, rfl⟩

/-- an index tuple with one index below the number of bins of every axis -/
def InRange : List (List Q) → List Nat → Prop
  | [], [] => True
  | e :: es, i :: is => i < e.length - 1 ∧ InRange es is
  | _, _ => False

theorem inRange_of_allIn : ∀ (axes : List (List Q)) (idx : List Nat),
    AllIn idx ((nbinsOf axes).map List.range) → InRange axes idx
  | [], [], _ => trivial
  | [], _ :: _, h => by simp [nbinsOf, AllIn] at h
  | _ :: _, [], h => by simp [nbinsOf, AllIn] at h
  | e :: es, i :: is, h => by
    simp only [nbinsOf, List.map_cons, AllIn, List.mem_range] at h
    exact ⟨h.1, inRange_of_allIn es is h.2⟩

theorem inRange_of_mem_cells (axes : List (List Q)) (bins : NArr Q) (hs : HasShape (nbinsOf axes) bins)
    (p : List Nat × Q) (hp : p ∈ cells bins) : InRange axes p.1 := by
  have h1 : p.1 ∈ (cells bins).map (·.1) := List.mem_map.2 ⟨p, hp, rfl⟩
  rw [cells_fst _ _ hs, mem_indexProd] at h1
  exact inRange_of_allIn axes p.1 h1

theorem binLengths_ok : ∀ (axes : List (List Q)) (idx : List Nat), InRange axes idx →
    ∃ l, binLengths axes idx = .ok l
  | _, [], _ => ⟨[], by simp [binLengths]⟩
  | [], _ :: _, h => by simp [InRange] at h
  | e :: es, i :: is, h => by
    obtain ⟨hi, ht⟩ := h
    · obtain ⟨l, hl⟩ := binLengths_ok es is ht
      have h1 : i + 1 < e.length := by omega
      have h0 : i < e.length := by omega
      refine ⟨(e[i + 1] - e[i]) :: l, ?_⟩
      simp [binLengths, List.getElem?_eq_getElem h1, List.getElem?_eq_getElem h0, hl, bind, Except.bind, pure, Except.pure]

theorem integralLoop_ok (axes : List (List Q)) : ∀ (l : List (List Nat × Q)) (t : Q),
    (∀ p ∈ l, InRange axes p.1) → ∃ r, integralLoop axes l t = .ok r
  | [], t, _ => ⟨t, by simp [integralLoop]⟩
  | (ind, c) :: rest, t, h => by
    obtain ⟨lens, hl⟩ := binLengths_ok axes ind (h (ind, c) List.mem_cons_self)
    obtain ⟨r, hr⟩ := integralLoop_ok axes rest (t + prod lens * c) (fun p hp => h p (List.mem_cons_of_mem _ hp))
    exact ⟨r, by simp [integralLoop, hl, hr, bind, Except.bind]⟩

/-- `integral` raises nothing on a histogram whose bins have the shape of its edges -/
theorem integral_ok (bins : NArr Q) (axes : List (List Q)) (hs : HasShape (nbinsOf axes) bins) :
    ∃ I, integral bins axes = .ok I :=
  integralLoop_ok axes _ 0 (fun p hp => inRange_of_mem_cells axes bins hs p hp)

/-- what `hist.scale()` leaves alone -/
theorem getScale_frame (h h1 : Hist) (rc : Bool) (I : Q) (hg : getScale h rc = .ok (h1, I)) :
    h1 = { h with scale := some I } := by
  unfold getScale at hg
  split at hg
  · rename_i s hs _
    simp at hg
    obtain ⟨rfl, rfl⟩ := hg
    cases h
    simp_all
  · cases hi : integral h.bins h.edges.axes with
    | error e => simp [hi, bind, Except.bind] at hg
    | ok s =>
      simp [hi, bind, Except.bind, pure, Except.pure] at hg
      obtain ⟨rfl, rfl⟩ := hg
      rfl

/-! ### `mapM` in `Except` -/

theorem mapM_map_ok {α β γ ε : Type} (f : β → Except ε γ) (p : α → β) (g : α → γ) :
    ∀ l : List α, (∀ x ∈ l, f (p x) = .ok (g x)) → (l.map p).mapM f = .ok (l.map g)
  | [], _ => by simp [pure, Except.pure]
  | x :: l, h => by
    have hx := h x List.mem_cons_self
    have hl := mapM_map_ok f p g l (fun y hy => h y (List.mem_cons_of_mem _ hy))
    simp [List.mapM_cons, hx, hl, bind, Except.bind, pure, Except.pure]

/-! ### the edges of a cell -/

/-- the edges `((lo, hi), …)` of the cell with index `idx` (reference: positions outside the arrays read as 0;
for an index in range they are the real edges, `cellEdges_ok`) -/
def cellEdgesRef : List (List Q) → List Nat → List (Q × Q)
  | e :: es, i :: is => (e.getD i 0, e.getD (i + 1) 0) :: cellEdgesRef es is
  | _, _ => []

theorem cellEdges_ok : ∀ (axes : List (List Q)) (idx : List Nat), InRange axes idx →
    cellEdges axes idx = .ok (cellEdgesRef axes idx)
  | [], [], _ => by simp [cellEdges, cellEdgesRef]
  | [], _ :: _, h => by simp [InRange] at h
  | _ :: _, [], _ => by simp [cellEdges, cellEdgesRef]
  | e :: es, i :: is, h => by
    obtain ⟨hi, ht⟩ := h
    have h1 : i + 1 < e.length := by omega
    have h0 : i < e.length := by omega
    simp [cellEdges, cellEdgesRef, List.getElem?_eq_getElem h1, List.getElem?_eq_getElem h0,
      cellEdges_ok es is ht, bind, Except.bind, pure, Except.pure, List.getD_eq_getElem?_getD]

/-- the pairs of `cellEdgesRef` for an index in range are consecutive edges of the axes -/
theorem cellEdgesRef_getElem : ∀ (axes : List (List Q)) (idx : List Nat), InRange axes idx →
    ∀ k (hk : k < (cellEdgesRef axes idx).length), ∃ (e : List Q) (i : Nat),
      axes[k]? = some e ∧ idx[k]? = some i ∧ e[i]? = some ((cellEdgesRef axes idx)[k]).1 ∧
        e[i + 1]? = some ((cellEdgesRef axes idx)[k]).2
  | [], [], _, k, hk => by simp [cellEdgesRef] at hk
  | [], _ :: _, h, _, _ => by simp [InRange] at h
  | _ :: _, [], _, k, hk => by simp [cellEdgesRef] at hk
  | e :: es, i :: is, h, k, hk => by
    obtain ⟨hi, ht⟩ := h
    cases k with
    | zero =>
      refine ⟨e, i, by simp, by simp, ?_, ?_⟩ <;> simp [cellEdgesRef, List.getD_eq_getElem?_getD] <;>
        rw [List.getElem?_eq_getElem (by omega)] <;> simp
    | succ k =>
      simp only [cellEdgesRef, List.length_cons] at hk
      obtain ⟨e', i', h1, h2, h3, h4⟩ := cellEdgesRef_getElem es is ht k (by omega)
      exact ⟨e', i', by simpa using h1, by simpa using h2, by simpa [cellEdgesRef] using h3,
        by simpa [cellEdgesRef] using h4⟩

end Lena.C12
