import LenaModel.Lemmas.C12
import LenaModel.Model.C12Spec
/-! # C12 — lemmas about the histogram part of the model: sums and integrals are linear in the contents, index
tuples of a regular array are in range of the edges.  Core Lean only (`grind` for field arithmetic over `Rat`). -/
namespace Lena.C12
open Lena Lena.NArr

/-! ### sums -/

theorem foldl_add_mul (c : Q) : ∀ (l : List Q) (t : Q),
    (l.map (· * c)).foldl (· + ·) (t * c) = l.foldl (· + ·) t * c
  | [], t => by simp
  | x :: xs, t => by
    simp only [List.map_cons, List.foldl_cons]
    rw [← foldl_add_mul c xs (t + x)]
    congr 1
    grind

theorem sumQ_map_mul (c : Q) (l : List Q) : sumQ (l.map (· * c)) = sumQ l * c := by
  have := foldl_add_mul c l 0
  simpa [sumQ] using this

/-! ### `integral` is linear in the contents -/

theorem integralLoop_map_mul (axes : List (List Q)) (c : Q) :
    ∀ (l : List (List Nat × Q)) (t r : Q), integralLoop axes l t = .ok r →
      integralLoop axes (l.map (fun p => (p.1, p.2 * c))) (t * c) = .ok (r * c)
  | [], t, r, h => by
    simp [integralLoop] at h
    simp [integralLoop, h]
  | (ind, content) :: rest, t, r, h => by
    simp only [integralLoop] at h
    simp only [List.map_cons, integralLoop]
    cases hl : binLengths axes ind with
    | error e => simp [hl, bind, Except.bind] at h
    | ok lens =>
      simp only [hl, bind, Except.bind] at h
      have := integralLoop_map_mul axes c rest _ r h
      simp only [bind, Except.bind]
      rw [← this]
      congr 1
      grind

theorem integral_map_mul (bins : NArr Q) (axes : List (List Q)) (c I : Q) (h : integral bins axes = .ok I) :
    integral (map (· * c) bins) axes = .ok (I * c) := by
  unfold integral at *
  rw [cells_map]
  have := integralLoop_map_mul axes c _ 0 I h
  simpa using this

/-! ### index tuples in range, `integral` raises nothing on well-shaped bins -/

/-- index tuples of `itertools.product` -/
theorem mem_indexProd : ∀ (rs : List (List Nat)) (idx : List Nat), idx ∈ indexProd rs ↔ AllIn idx rs
  | [], idx => by
    cases idx <;> simp [indexProd, AllIn]
  | r :: rs, idx => by
    simp only [indexProd, List.mem_flatMap, List.mem_map]
    constructor
    · rintro ⟨i, hi, t, ht, rfl⟩
      exact ⟨hi, (mem_indexProd rs t).1 ht⟩
    · intro h
      cases idx with
      | nil => simp [AllIn] at h
      | cons i t => exact ⟨i, h.1, t, (mem_indexProd rs t).2 h.2, rfl⟩

theorem inRange_of_allIn : ∀ (axes : List (List Q)) (idx : List Nat),
    AllIn idx ((nbinsOf axes).map List.range) → InRange axes idx
  | [], [], _ => trivial
  | [], _ :: _, h => by simp [nbinsOf, AllIn] at h
  | _ :: _, [], h => by simp [nbinsOf, AllIn] at h
  | e :: es, i :: is, h => by
    simp only [nbinsOf, List.map_cons, AllIn, List.mem_range] at h
    exact ⟨h.1, inRange_of_allIn es is h.2⟩

theorem inRange_of_mem_cells (axes : List (List Q)) (bins : NArr Q) (hs : HasShape (nbinsOf axes) bins)
    (p : List Nat × Q) (hp : p ∈ cells bins) : InRange axes p.1 := by
  have h1 : p.1 ∈ (cells bins).map (·.1) := List.mem_map.2 ⟨p, hp, rfl⟩
  rw [cells_fst _ _ hs, mem_indexProd] at h1
  exact inRange_of_allIn axes p.1 h1

theorem binLengths_ok : ∀ (axes : List (List Q)) (idx : List Nat), InRange axes idx →
    ∃ l, binLengths axes idx = .ok l
  | _, [], _ => ⟨[], by simp [binLengths]⟩
  | [], _ :: _, h => by simp [InRange] at h
  | e :: es, i :: is, h => by
    obtain ⟨hi, ht⟩ := h
    · obtain ⟨l, hl⟩ := binLengths_ok es is ht
      have h1 : i + 1 < e.length := by omega
      have h0 : i < e.length := by omega
      refine ⟨(e[i + 1] - e[i]) :: l, ?_⟩
      simp [binLengths, List.getElem?_eq_getElem h1, List.getElem?_eq_getElem h0, hl, bind, Except.bind, pure, Except.pure]

theorem integralLoop_ok (axes : List (List Q)) : ∀ (l : List (List Nat × Q)) (t : Q),
    (∀ p ∈ l, InRange axes p.1) → ∃ r, integralLoop axes l t = .ok r
  | [], t, _ => ⟨t, by simp [integralLoop]⟩
  | (ind, c) :: rest, t, h => by
    obtain ⟨lens, hl⟩ := binLengths_ok axes ind (h (ind, c) List.mem_cons_self)
    obtain ⟨r, hr⟩ := integralLoop_ok axes rest (t + prod lens * c) (fun p hp => h p (List.mem_cons_of_mem _ hp))
    exact ⟨r, by simp [integralLoop, hl, hr, bind, Except.bind]⟩

/-- `integral` raises nothing on a histogram whose bins have the shape of its edges -/
theorem integral_ok (bins : NArr Q) (axes : List (List Q)) (hs : HasShape (nbinsOf axes) bins) :
    ∃ I, integral bins axes = .ok I :=
  integralLoop_ok axes _ 0 (fun p hp => inRange_of_mem_cells axes bins hs p hp)

/-- what `hist.scale()` leaves alone -/
theorem getScale_frame (h h1 : Hist) (rc : Bool) (I : Q) (hg : getScale h rc = .ok (h1, I)) :
    h1 = { h with scale := some I } := by
  unfold getScale at hg
  split at hg
  · rename_i s hs _
    simp at hg
    obtain ⟨rfl, rfl⟩ := hg
    cases h
    simp_all
  · cases hi : integral h.bins h.edges.axes with
    | error e => simp [hi, bind, Except.bind] at hg
    | ok s =>
      simp [hi, bind, Except.bind, pure, Except.pure] at hg
      obtain ⟨rfl, rfl⟩ := hg
      rfl

/-! ### `mapM` in `Except` -/

theorem mapM_map_ok {α β γ ε : Type} (f : β → Except ε γ) (p : α → β) (g : α → γ) :
    ∀ l : List α, (∀ x ∈ l, f (p x) = .ok (g x)) → (l.map p).mapM f = .ok (l.map g)
  | [], _ => by simp [pure, Except.pure]
  | x :: l, h => by
    have hx := h x List.mem_cons_self
    have hl := mapM_map_ok f p g l (fun y hy => h y (List.mem_cons_of_mem _ hy))
    simp [List.mapM_cons, hx, hl, bind, Except.bind, pure, Except.pure]

/-! ### the edges of a cell -/

theorem cellEdges_ok : ∀ (axes : List (List Q)) (idx : List Nat), InRange axes idx →
    cellEdges axes idx = .ok (cellEdgesRef axes idx)
  | [], [], _ => by simp [cellEdges, cellEdgesRef]
  | [], _ :: _, h => by simp [InRange] at h
  | _ :: _, [], _ => by simp [cellEdges, cellEdgesRef]
  | e :: es, i :: is, h => by
    obtain ⟨hi, ht⟩ := h
    have h1 : i + 1 < e.length := by omega
    have h0 : i < e.length := by omega
    simp [cellEdges, cellEdgesRef, List.getElem?_eq_getElem h1, List.getElem?_eq_getElem h0,
      cellEdges_ok es is ht, bind, Except.bind, pure, Except.pure, List.getD_eq_getElem?_getD]

/-- the pairs of `cellEdgesRef` for an index in range are consecutive edges of the axes -/
theorem cellEdgesRef_getElem : ∀ (axes : List (List Q)) (idx : List Nat), InRange axes idx →
    ∀ k (hk : k < (cellEdgesRef axes idx).length), ∃ (e : List Q) (i : Nat),
      axes[k]? = some e ∧ idx[k]? = some i ∧ e[i]? = some ((cellEdgesRef axes idx)[k]).1 ∧
        e[i + 1]? = some ((cellEdgesRef axes idx)[k]).2
  | [], [], _, k, hk => by simp [cellEdgesRef] at hk
  | [], _ :: _, h, _, _ => by simp [InRange] at h
  | _ :: _, [], _, k, hk => by simp [cellEdgesRef] at hk
  | e :: es, i :: is, h, k, hk => by
    obtain ⟨hi, ht⟩ := h
    cases k with
    | zero =>
      refine ⟨e, i, by simp, by simp, ?_, ?_⟩ <;> simp [cellEdgesRef, List.getD_eq_getElem?_getD] <;>
        rw [List.getElem?_eq_getElem (by omega)] <;> simp
    | succ k =>
      simp only [cellEdgesRef, List.length_cons] at hk
      obtain ⟨e', i', h1, h2, h3, h4⟩ := cellEdgesRef_getElem es is ht k (by omega)
      exact ⟨e', i', by simpa using h1, by simpa using h2, by simpa [cellEdgesRef] using h3,
        by simpa [cellEdgesRef] using h4⟩

/-! ### vocabulary and helper lemmas of the histogram theorems (`Props/C12.lean`) -/

/-- the weighted bins of the other histogram in `add`: `md_map(lambda val: val*weight, other.bins)` unless the
weight is 1 -/
def weightedBins (b : Hist) (w : Q) : Except Err (NArr Q) :=
  if w ≠ 1 then mdMap (fun val => val * w) b.bins else pure b.bins

theorem weightedBins_zip (a b : Hist) (w : Q) (ob nb : NArr Q) (ho : weightedBins b w = .ok ob)
    (hnb : mdMap2 (· + ·) a.bins ob = .ok nb) : nb = zipWith (fun x y => x + y * w) a.bins b.bins := by
  have h2 := mdMap2_eq_zipWith _ _ _ _ hnb
  unfold weightedBins at ho
  by_cases hw : w = 1
  · simp [hw, pure, Except.pure] at ho
    subst ho
    subst hw
    simpa using h2
  · simp [hw] at ho
    have := mdMap_eq_map _ _ _ ho
    subst this
    rw [h2, zipWith_map_right]

/-- what `histogram(edges, bins=b)` stores -/
theorem mkHist_some (e : Edges) (b : NArr Q) (i : Q) (nh : Hist) (hk : mkHist e (some b) i = .ok nh) :
    nh.edges = e ∧ nh.bins = b ∧ nh.scale = none ∧ nh.nOut = 0 := by
  unfold mkHist at hk
  cases hce : checkEdgesIncreasing e with
  | error e => simp [hce, bind, Except.bind] at hk
  | ok u =>
    simp only [hce, bind, Except.bind] at hk
    split at hk
    · simp at hk
    · simp at hk
    · cases hl : lenBins b with
      | error e => simp [hl] at hk
      | ok n =>
        simp only [hl] at hk
        split at hk
        · simp at hk
        · simp [pure, Except.pure] at hk
          subst hk
          exact ⟨rfl, rfl, rfl, rfl⟩

/-- with zero tolerances two numbers are close only when they are equal -/
theorem isclose1_zero (x y : Q) : isclose1 ⟨0, 0⟩ x y = true ↔ x = y := by
  simp only [isclose1, Rat.abs]
  constructor
  · intro h; grind
  · rintro rfl; grind

theorem iscloseList_zero : ∀ (a b : List Q), a.length = b.length → iscloseList ⟨0, 0⟩ a b = .ok true → a = b
  | [], [], _, _ => rfl
  | [], _ :: _, hl, _ => by simp at hl
  | _ :: _, [], hl, _ => by simp at hl
  | x :: a, y :: b, hl, h => by
    simp only [iscloseList] at h
    split at h
    · rename_i hxy
      rw [(isclose1_zero x y).1 hxy, iscloseList_zero a b (by simpa using hl) h]
    · simp at h

theorem iscloseAxes_zero : ∀ (a b : List (List Q)), nbinsOf a = nbinsOf b → (∀ e ∈ a, e ≠ []) → (∀ e ∈ b, e ≠ []) →
    iscloseAxes ⟨0, 0⟩ a b = .ok true → a = b
  | [], [], _, _, _, _ => rfl
  | [], _ :: _, hl, _, _, _ => by simp [nbinsOf] at hl
  | _ :: _, [], hl, _, _, _ => by simp [nbinsOf] at hl
  | x :: a, y :: b, hl, ha, hb, h => by
    simp only [iscloseAxes] at h
    simp only [nbinsOf, List.map_cons, List.cons.injEq] at hl
    have hx := ha x List.mem_cons_self
    have hy := hb y List.mem_cons_self
    have hlen : x.length = y.length := by
      have h1 : x.length ≠ 0 := by simpa using hx
      have h2 : y.length ≠ 0 := by simpa using hy
      omega
    cases hc : iscloseList ⟨0, 0⟩ x y with
    | error e => simp [hc, bind, Except.bind] at h
    | ok cl =>
      cases cl with
      | false => simp [hc, bind, Except.bind, pure, Except.pure] at h
      | true =>
        simp only [hc, bind, Except.bind, if_true] at h
        rw [iscloseList_zero x y hlen hc, iscloseAxes_zero a b hl.2 (fun e he => ha e (List.mem_cons_of_mem _ he))
          (fun e he => hb e (List.mem_cons_of_mem _ he)) h]

theorem ranges_eq (axes : List (List Q)) :
    axes.map (fun e => List.range (e.length - 1)) = (nbinsOf axes).map List.range := by
  simp [nbinsOf, List.map_map, Function.comp_def]

/-- what the three iterators have in common for every cell `(idx, v)` that `iter_bins` yields -/
theorem cell_facts (h : Hist) (wf : h.WF) (p : List Nat × Q) (hp : p ∈ cells h.bins) :
    getBin h.bins p.1 = .ok (.leaf p.2) ∧ cellEdges h.edges.axes p.1 = .ok (cellEdgesRef h.edges.axes p.1) := by
  refine ⟨?_, cellEdges_ok _ _ (inRange_of_mem_cells _ _ wf.2 p hp)⟩
  rw [getBin_eq_ok_iff]
  exact (mem_cells_iff h.bins p.1 p.2).1 hp

theorem rangeFromTo_zero (n : Nat) : rangeFromTo 0 ((n : Int)) = List.range n := by
  simp [rangeFromTo]

theorem realIndRanges_default : ∀ (axes : List (List Q)),
    realIndRanges axes (List.replicate axes.length (none, none)) = .ok ((nbinsOf axes).map List.range)
  | [] => by simp [realIndRanges, nbinsOf]
  | e :: es => by
    have ih := realIndRanges_default es
    have hcast : ((e.length : Int) - 1) = ((e.length - 1 : Nat) : Int) ∨ e.length = 0 := by omega
    simp only [List.length_cons, List.replicate_succ, realIndRanges, ih, bind, Except.bind, pure, Except.pure,
      nbinsOf, List.map_cons]
    congr 2
    rcases hcast with hc | hc
    · rw [hc, rangeFromTo_zero]
    · simp [hc, rangeFromTo]

theorem indexProd_filter : ∀ (ps : List (Nat → Bool)) (rs : List (List Nat)), ps.length = rs.length →
    indexProd (List.zipWith (fun p r => r.filter p) ps rs) = (indexProd rs).filter (selAll ps)
  | [], [], _ => by simp [indexProd, selAll, List.filter]
  | [], _ :: _, h => by simp at h
  | _ :: _, [], h => by simp at h
  | p :: ps, r :: rs, h => by
    have ih := indexProd_filter ps rs (by simpa using h)
    simp only [List.zipWith_cons_cons, indexProd_cons, ih]
    clear h
    induction r with
    | nil => simp
    | cons i r ihr =>
      simp only [List.filter_cons, List.flatMap_cons, List.filter_append]
      rw [← ihr]
      by_cases hp : p i = true
      · simp only [hp, if_true, List.flatMap_cons]
        congr 1
        simp only [List.filter_map]
        congr 1
        apply List.filter_congr
        intro t _
        simp [selAll, hp]
      · simp only [hp]
        have : List.filter (selAll (p :: ps)) (List.map (fun x => i :: x) (indexProd rs)) = [] := by
          simp only [List.filter_eq_nil_iff, List.mem_map]
          rintro _ ⟨t, _, rfl⟩
          simp [selAll, hp]
        simp [this]

theorem filter_range_ge (lo : Nat) : ∀ u : Nat,
    (List.range u).filter (fun i => decide (lo ≤ i)) = (List.range (u - lo)).map (· + lo)
  | 0 => by simp
  | u + 1 => by
    rw [List.range_succ, List.filter_append, filter_range_ge lo u]
    by_cases h : lo ≤ u
    · have : u + 1 - lo = (u - lo) + 1 := by omega
      rw [this, List.range_succ, List.map_append]
      simp [h]
    · have : u + 1 - lo = u - lo := by omega
      simp [h, this]

theorem rangeFromTo_eq_filter (lo : Nat) (up : Int) : ∀ (n : Nat), up ≤ n →
    rangeFromTo lo up = (List.range n).filter (fun (i : Nat) => decide ((lo : Int) ≤ (i : Int) ∧ (i : Int) < up))
  | 0, hu => by
    have : up.toNat = 0 := by omega
    simp [rangeFromTo, this]
  | n + 1, hu => by
    by_cases hn : up ≤ (n : Int)
    · rw [rangeFromTo_eq_filter lo up n hn, List.range_succ, List.filter_append]
      have : ¬ ((n : Int) < up) := by omega
      simp [this]
    · have hup : up = ((n + 1 : Nat) : Int) := by omega
      subst hup
      simp only [rangeFromTo, Int.toNat_natCast]
      rw [← filter_range_ge lo (n + 1)]
      apply List.filter_congr
      intro i hi
      have := List.mem_range.1 hi
      simp
      omega

theorem realIndRanges_cons_valid (e : List Q) (es : List (List Q)) (lo up : Option Int)
    (rs : List (Option Int × Option Int)) (hv : ValidRange e (lo, up)) :
    realIndRanges (e :: es) ((lo, up) :: rs) = (do
      let tail ← realIndRanges es rs
      pure (rangeFromTo (lo.getD 0).toNat (up.getD ((e.length : Int) - 1)) :: tail)) := by
  obtain ⟨hlo, hup⟩ := hv
  have h0 : ∀ l, lo = some l → ¬ l < 0 := fun l hl => by have := hlo l hl; omega
  have h1 : ∀ u, up = some u → ¬ u > (e.length : Int) - 1 := fun u hu => by have := hup u hu; omega
  cases lo <;> cases up <;> simp [realIndRanges, bind, Except.bind, pure, Except.pure, h0, h1]

theorem head_range_eq (e : List Q) (lo up : Option Int) (hv : ValidRange e (lo, up)) :
    rangeFromTo (lo.getD 0).toNat (up.getD ((e.length : Int) - 1)) =
      (List.range (e.length - 1)).filter (rangePred e (lo, up)) := by
  obtain ⟨hlo, hup⟩ := hv
  have hle : up.getD ((e.length : Int) - 1) ≤ ((e.length - 1 : Nat) : Int) := by
    cases up with
    | none => simp; omega
    | some u => have := hup u rfl; simp; omega
  rw [rangeFromTo_eq_filter _ _ (e.length - 1) hle]
  apply List.filter_congr
  intro i _
  have hnn : 0 ≤ lo.getD 0 := by
    cases lo with
    | none => simp
    | some l => simpa using hlo l rfl
  have hcast : (((lo.getD 0).toNat : Nat) : Int) = lo.getD 0 := by omega
  simp only [rangePred, hcast]

theorem realIndRanges_valid : ∀ (axes : List (List Q)) (rg : List (Option Int × Option Int)), ValidRanges axes rg →
    realIndRanges axes rg = .ok (List.zipWith (fun p r => r.filter p) (List.zipWith rangePred axes rg)
      ((nbinsOf axes).map List.range))
  | [], [], _ => by simp [realIndRanges, nbinsOf]
  | [], _ :: _, h => by simp [ValidRanges] at h
  | _ :: _, [], h => by simp [ValidRanges] at h
  | e :: es, (lo, up) :: rs, h => by
    obtain ⟨hv, ht⟩ := h
    have ih := realIndRanges_valid es rs ht
    rw [realIndRanges_cons_valid e es lo up rs hv, ih, head_range_eq e lo up hv]
    simp [bind, Except.bind, pure, Except.pure, nbinsOf]

theorem validRanges_length : ∀ (axes : List (List Q)) (rg : List (Option Int × Option Int)), ValidRanges axes rg →
    axes.length = rg.length
  | [], [], _ => rfl
  | [], _ :: _, h => by simp [ValidRanges] at h
  | _ :: _, [], h => by simp [ValidRanges] at h
  | _ :: es, _ :: rs, h => by simp [validRanges_length es rs h.2]

/-- a negative lower index or an upper index beyond the number of bins is rejected: `LenaValueError` -/
theorem realIndRanges_invalid : ∀ (axes : List (List Q)) (rg : List (Option Int × Option Int)),
    rg.length ≤ axes.length →
    (∃ (k : Nat) (e : List Q) (r : Option Int × Option Int), axes[k]? = some e ∧ rg[k]? = some r ∧ ¬ ValidRange e r) →
    realIndRanges axes rg = .error .lenaValueError
  | _, [], _, ⟨k, _, _, _, h, _⟩ => by simp at h
  | [], _ :: _, hl, _ => by simp at hl
  | e :: es, (lo, up) :: rs, hl, ⟨k, e', r', h1, h2, h3⟩ => by
    by_cases hv : ValidRange e (lo, up)
    · cases k with
      | zero =>
        simp at h1 h2
        subst h1; subst h2
        exact absurd hv h3
      | succ k =>
        have ih := realIndRanges_invalid es rs (by simpa using hl) ⟨k, e', r', by simpa using h1, by simpa using h2, h3⟩
        obtain ⟨hlo, hup⟩ := hv
        have h0 : ∀ l, lo = some l → ¬ l < 0 := fun l hl => by have := hlo l hl; omega
        have h1 : ∀ u, up = some u → ¬ u > (e.length : Int) - 1 := fun u hu => by have := hup u hu; omega
        cases lo <;> cases up <;> simp [realIndRanges, ih, bind, Except.bind, pure, Except.pure, h0, h1]
    · cases lo with
      | some l =>
        by_cases hl0 : l < 0
        · simp [realIndRanges, hl0, bind, Except.bind]
        · cases up with
          | none =>
            exfalso; apply hv
            exact ⟨fun l' h => by (cases h; omega), fun u h => by cases h⟩
          | some u =>
            by_cases hgt : u > (e.length : Int) - 1
            · simp [realIndRanges, hl0, hgt, bind, Except.bind, pure, Except.pure]
            · exfalso; apply hv
              exact ⟨fun l' h => by (cases h; omega), fun u' h => by (cases h; omega)⟩
      | none =>
        cases up with
        | none =>
          exfalso; apply hv
          exact ⟨fun l' h => by (cases h), fun u h => by cases h⟩
        | some u =>
          by_cases hgt : u > (e.length : Int) - 1
          · simp [realIndRanges, hgt, bind, Except.bind, pure, Except.pure]
          · exfalso; apply hv
            exact ⟨fun l' h => by (cases h), fun u' h => by (cases h; omega)⟩

end Lena.C12
