import LenaModel.Lemmas.C12Graph
/-! # C12 — the Boolean decision procedures of `Model/C12Spec.lean` decide the predicates of the theorems -/

namespace Lena.NArr
variable {α : Type}

mutual
theorem hasShape_iff : ∀ (dims : List Nat) (a : NArr α), hasShape dims a = true ↔ HasShape dims a
  | [], .leaf _ => by simp [hasShape, HasShape]
  | [], .node _ => by simp [hasShape, HasShape]
  | _ :: _, .leaf _ => by simp [hasShape, HasShape]
  | n :: ns, .node xs => by
    simp only [hasShape, HasShape, Bool.and_eq_true, beq_iff_eq, allShape_iff ns xs]
theorem allShape_iff : ∀ (ns : List Nat) (xs : List (NArr α)), allShape ns xs = true ↔ ∀ x ∈ xs, HasShape ns x
  | _, [] => by simp [allShape]
  | ns, x :: xs => by
    simp only [allShape, Bool.and_eq_true, hasShape_iff ns x, allShape_iff ns xs, List.mem_cons, forall_eq_or_imp]
end

end Lena.NArr

namespace Lena.C12
open Lena Lena.NArr

theorem wfB_iff (h : Hist) : wfB h = true ↔ h.WF := by
  simp [wfB, Hist.WF, hasShape_iff]

theorem nonEmptyAxesB_iff (e : Edges) : nonEmptyAxesB e = true ↔ e.NonEmptyAxes := by
  simp [nonEmptyAxesB, Edges.NonEmptyAxes]

theorem inRangeB_iff : ∀ (axes : List (List Q)) (idx : List Nat), inRangeB axes idx = true ↔ InRange axes idx
  | [], [] => by simp [inRangeB, InRange]
  | [], _ :: _ => by simp [inRangeB, InRange]
  | _ :: _, [] => by simp [inRangeB, InRange]
  | e :: es, i :: is => by simp [inRangeB, InRange, inRangeB_iff es is]

theorem validRangeB_iff (e : List Q) (r : Option Int × Option Int) : validRangeB e r = true ↔ ValidRange e r := by
  obtain ⟨lo, up⟩ := r
  cases lo <;> cases up <;> simp [validRangeB, ValidRange]

theorem validRangesB_iff : ∀ (axes : List (List Q)) (rg : List (Option Int × Option Int)),
    validRangesB axes rg = true ↔ ValidRanges axes rg
  | [], [] => by simp [validRangesB, ValidRanges]
  | [], _ :: _ => by simp [validRangesB, ValidRanges]
  | _ :: _, [] => by simp [validRangesB, ValidRanges]
  | e :: es, r :: rs => by simp [validRangesB, ValidRanges, validRangeB_iff, validRangesB_iff es rs]

theorem errorFieldOfB_iff (coord field : Name) : errorFieldOfB coord field = true ↔ ErrorFieldOf coord field := by
  unfold errorFieldOfB
  by_cases hf : isErrField field = true
  · simp [hf, errMatches_iff field coord hf]
  · simp only [hf, Bool.false_and, Bool.false_eq_true, false_iff]
    rintro ⟨rest, hr, _⟩
    exact hf ((isErrField_iff field).2 ⟨rest, hr⟩)

theorem validB_iff (h : Hist) : validB h = true ↔ h.Valid := by
  unfold validB
  constructor
  · intro hv
    simp only [Bool.and_eq_true] at hv
    obtain ⟨⟨h1, h2⟩, h3⟩ := hv
    refine ⟨(wfB_iff h).1 h1, ?_, ?_⟩
    · cases hc : checkEdgesIncreasing h.edges with
      | ok u => rfl
      | error e => simp [hc] at h2
    · intro ax hax
      simp [hax] at h3
  · intro hv
    simp only [Bool.and_eq_true]
    refine ⟨⟨(wfB_iff h).2 hv.wf, by simp [hv.edges_ok]⟩, ?_⟩
    split
    · rename_i ax hax
      exact absurd hax (hv.not_single_nested ax)
    · rfl

end Lena.C12
