import LenaModel.Model.C08
import LenaModel.Model.C08Spec
/-! # C08 — lemmas about `format_context`: the brace checks, the de-doubling, the scanner and
`str.format`, on templates given as pieces at the level of characters -/
namespace Lena.C08

/-! ## `rfind` and the test "the last opening brace is closed" -/

theorem rfind_ge (c : Char) : ∀ s : List Char, -1 ≤ rfind c s
  | [] => by simp [rfind]
  | x :: r => by
    have := rfind_ge c r
    simp only [rfind]
    split
    · omega
    · split <;> omega

theorem rfind_nonneg_iff (c : Char) : ∀ s : List Char, 0 ≤ rfind c s ↔ c ∈ s
  | [] => by simp [rfind]
  | x :: r => by
    have ih := rfind_nonneg_iff c r
    have := rfind_ge c r
    simp only [rfind, List.mem_cons]
    by_cases h : rfind c r ≥ 0
    · simp only [h, if_true]
      constructor
      · intro _; exact Or.inr (ih.1 h)
      · intro _; omega
    · simp only [h, if_false]
      have hn : c ∉ r := fun hm => h (ih.2 hm)
      by_cases hx : x = c
      · simp [hx]
      · simp only [hx, if_false]
        constructor
        · intro h0; omega
        · intro h0; rcases h0 with h0 | h0
          · exact absurd h0.symm hx
          · exact absurd h0 hn

/-- every opening brace is followed, somewhere, by a closing brace -/
def BracesClosed : List Char → Prop
  | [] => True
  | c :: r => (c = '{' → '}' ∈ r) ∧ BracesClosed r

/-- the check of commit 5478e2e (`rfind('{') > rfind('}')` raises) is exactly `BracesClosed` -/
theorem rfind_le_iff_closed : ∀ s : List Char, rfind '{' s ≤ rfind '}' s ↔ BracesClosed s
  | [] => by simp [rfind, BracesClosed]
  | x :: r => by
    have ih := rfind_le_iff_closed r
    have ha := rfind_ge '{' r
    have hb := rfind_ge '}' r
    have hmb := rfind_nonneg_iff '}' r
    have hA : rfind '{' (x :: r) = if rfind '{' r ≥ 0 then rfind '{' r + 1 else if x = '{' then 0 else -1 := rfl
    have hB : rfind '}' (x :: r) = if rfind '}' r ≥ 0 then rfind '}' r + 1 else if x = '}' then 0 else -1 := rfl
    have hC : BracesClosed (x :: r) ↔ (x = '{' → '}' ∈ r) ∧ BracesClosed r := Iff.rfl
    have hB' : -1 ≤ rfind '}' (x :: r) := rfind_ge _ _
    rw [hC]
    by_cases h1 : rfind '{' r ≥ 0
    · rw [hA, if_pos h1]
      by_cases h2 : rfind '}' r ≥ 0
      · rw [hB, if_pos h2]
        constructor
        · intro h; exact ⟨fun _ => hmb.1 h2, ih.1 (by omega)⟩
        · intro h; have := ih.2 h.2; omega
      · have hB2 : rfind '}' (x :: r) ≤ 0 := by
          rw [hB, if_neg h2]; split <;> omega
        constructor
        · intro h; omega
        · intro h; have := ih.2 h.2; omega
    · have hc : BracesClosed r := ih.1 (by omega)
      rw [hA, if_neg h1]
      by_cases hx : x = '{'
      · rw [if_pos hx]
        by_cases h2 : rfind '}' r ≥ 0
        · rw [hB, if_pos h2]
          constructor
          · intro _; exact ⟨fun _ => hmb.1 h2, hc⟩
          · intro _; omega
        · have hne : x ≠ '}' := by rw [hx]; decide
          rw [hB, if_neg h2, if_neg hne]
          constructor
          · intro h; omega
          · intro h; exact absurd (hmb.2 (h.1 hx)) h2
      · rw [if_neg hx]
        constructor
        · intro _; exact ⟨fun e => absurd e hx, hc⟩
        · intro _; omega

theorem bracesClosed_append_free (l r : List Char) (hl : ∀ c ∈ l, c ≠ '{') (hr : BracesClosed r) :
    BracesClosed (l ++ r) := by
  induction l with
  | nil => simpa using hr
  | cons c l ih =>
    simp only [List.cons_append, BracesClosed]
    exact ⟨fun e => absurd e (hl c (by simp)), ih (fun x hx => hl x (by simp [hx]))⟩

/-! ## the scanner never runs off the end of a closed string -/

theorem scan_total : ∀ (s : List Char) (m : Mode), BracesClosed s →
    ((m = .text) ∨ '}' ∈ s) → ∃ r, scan m s = .ok r
  | [], .text, _, _ => ⟨_, rfl⟩
  | [], .braces, _, h => by simp at h
  | [], .field _, _, h => by simp at h
  | c :: r, .text, hc, _ => by
    simp only [BracesClosed] at hc
    simp only [scan]
    by_cases h : c = '{'
    · simp only [h, if_true]
      obtain ⟨x, hx⟩ := scan_total r .braces hc.2 (Or.inr (hc.1 h))
      rw [hx]; exact ⟨_, rfl⟩
    · simp only [h, if_false]
      obtain ⟨x, hx⟩ := scan_total r .text hc.2 (Or.inl rfl)
      rw [hx]; exact ⟨_, rfl⟩
  | c :: r, .braces, hc, hm => by
    simp only [BracesClosed] at hc
    have hm : '}' ∈ c :: r := by simpa using hm
    simp only [scan]
    by_cases h : c = '{'
    · simp only [h, if_true]
      obtain ⟨x, hx⟩ := scan_total r .braces hc.2 (Or.inr (hc.1 h))
      rw [hx]; exact ⟨_, rfl⟩
    · simp only [h, if_false]
      by_cases ht : isTerm c = true
      · simp only [ht, if_true]
        obtain ⟨x, hx⟩ := scan_total r .text hc.2 (Or.inl rfl)
        rw [hx]; exact ⟨_, rfl⟩
      · simp only [ht]
        have : '}' ∈ r := by
          rcases List.mem_cons.1 hm with e | e
          · exfalso; apply ht; rw [← e]; decide
          · exact e
        exact scan_total r (.field [c]) hc.2 (Or.inr this)
  | c :: r, .field arg, hc, hm => by
    simp only [BracesClosed] at hc
    have hm : '}' ∈ c :: r := by simpa using hm
    simp only [scan]
    by_cases ht : isTerm c = true
    · simp only [ht, if_true]
      obtain ⟨x, hx⟩ := scan_total r .text hc.2 (Or.inl rfl)
      rw [hx]; exact ⟨_, rfl⟩
    · simp only [ht]
      have : '}' ∈ r := by
        rcases List.mem_cons.1 hm with e | e
        · exfalso; apply ht; rw [← e]; decide
        · exact e
      exact scan_total r (.field (c :: arg)) hc.2 (Or.inr this)

/-! ## templates as pieces of characters -/

/-- a literal has no brace; a field name has no opening brace and none of the characters `}!:` that end
a field for the scanner -/
def TP.Ok : TP → Prop
  | .lit l => ∀ c ∈ l, c ≠ '{' ∧ c ≠ '}'
  | .fld n => ∀ c ∈ n, c ≠ '{' ∧ isTerm c = false

/-- after `.replace("{{", "{")` -/
def render1 : List TP → List Char
  | [] => []
  | .lit l :: r => l ++ render1 r
  | .fld n :: r => '{' :: (n ++ '}' :: '}' :: render1 r)

/-- after `.replace("}}", "}")` -/
def render2 : List TP → List Char
  | [] => []
  | .lit l :: r => l ++ render2 r
  | .fld n :: r => '{' :: (n ++ '}' :: render2 r)

/-- the new format string: every field is `{}` -/
def fstrOf : List TP → List Char
  | [] => []
  | .lit l :: r => l ++ fstrOf r
  | .fld _ :: r => '{' :: '}' :: fstrOf r

def namesOf : List TP → List String
  | [] => []
  | .lit _ :: r => namesOf r
  | .fld n :: r => String.ofList n :: namesOf r

theorem notTerm_ne_rbrace {c : Char} (h : isTerm c = false) : c ≠ '}' := by
  intro e; subst e; exact absurd h (by decide)

theorem count_render0 : ∀ ps : List TP, (∀ p ∈ ps, p.Ok) → (render0 ps).count '{' = (render0 ps).count '}'
  | [], _ => rfl
  | .lit l :: r, h => by
    have ih := count_render0 r (fun p hp => h p (by simp [hp]))
    have hl : ∀ c ∈ l, c ≠ '{' ∧ c ≠ '}' := h (.lit l) (by simp)
    have h1 : l.count '{' = 0 := List.count_eq_zero.2 (fun hm => (hl _ hm).1 rfl)
    have h2 : l.count '}' = 0 := List.count_eq_zero.2 (fun hm => (hl _ hm).2 rfl)
    simp [render0, List.count_append, h1, h2, ih]
  | .fld n :: r, h => by
    have ih := count_render0 r (fun p hp => h p (by simp [hp]))
    have hn : ∀ c ∈ n, c ≠ '{' ∧ isTerm c = false := h (.fld n) (by simp)
    have h1 : n.count '{' = 0 := List.count_eq_zero.2 (fun hm => (hn _ hm).1 rfl)
    have h2 : n.count '}' = 0 := List.count_eq_zero.2 (fun hm => notTerm_ne_rbrace (hn _ hm).2 rfl)
    simp [render0, List.count_append, h1, h2, ih]

theorem hasDouble_cons (c x : Char) (s : List Char) (h : hasDouble c s = true) : hasDouble c (x :: s) = true := by
  cases s with
  | nil => simp [hasDouble] at h
  | cons y r => simp [hasDouble, h]

theorem hasDouble_append (c : Char) (l s : List Char) (h : hasDouble c s = true) : hasDouble c (l ++ s) = true := by
  induction l with
  | nil => simpa using h
  | cons x l ih => exact hasDouble_cons c x _ ih

theorem hasDouble_render0 : ∀ ps : List TP, (∀ p ∈ ps, p.Ok) → '{' ∈ render0 ps → hasDouble '{' (render0 ps) = true
  | [], _, hm => by simp [render0] at hm
  | .lit l :: r, h, hm => by
    have hl : ∀ c ∈ l, c ≠ '{' ∧ c ≠ '}' := h (.lit l) (by simp)
    simp only [render0, List.mem_append] at hm
    rcases hm with hm | hm
    · exact absurd rfl (hl _ hm).1
    · exact hasDouble_append _ _ _ (hasDouble_render0 r (fun p hp => h p (by simp [hp])) hm)
  | .fld n :: r, _, _ => by
    simp [render0, hasDouble]

theorem dedouble_free_append (c : Char) (l r : List Char) (hl : ∀ x ∈ l, x ≠ c) :
    dedouble c (l ++ r) = l ++ dedouble c r := by
  induction l with
  | nil => rfl
  | cons x l ih =>
    have hx : x ≠ c := hl x (by simp)
    have ih := ih (fun y hy => hl y (by simp [hy]))
    cases hlr : l ++ r with
    | nil =>
      have hl0 : l = [] := by cases l <;> simp_all
      have hr0 : r = [] := by cases l <;> simp_all
      subst hl0; subst hr0
      simp [dedouble]
    | cons y t =>
      simp only [List.cons_append, hlr]
      rw [dedouble]
      simp only [hx, false_and, if_false]
      rw [← hlr, ih]

theorem dedouble_pair (c : Char) (r : List Char) : dedouble c (c :: c :: r) = c :: dedouble c r := by
  simp [dedouble]

theorem dedouble_render0 : ∀ ps : List TP, (∀ p ∈ ps, p.Ok) → dedouble '{' (render0 ps) = render1 ps
  | [], _ => rfl
  | .lit l :: r, h => by
    have hl : ∀ c ∈ l, c ≠ '{' ∧ c ≠ '}' := h (.lit l) (by simp)
    simp only [render0, render1]
    rw [dedouble_free_append _ _ _ (fun x hx => (hl x hx).1), dedouble_render0 r (fun p hp => h p (by simp [hp]))]
  | .fld n :: r, h => by
    have hn : ∀ c ∈ n, c ≠ '{' ∧ isTerm c = false := h (.fld n) (by simp)
    simp only [render0, render1]
    rw [dedouble_pair]
    have : n ++ '}' :: '}' :: render0 r = (n ++ ['}', '}']) ++ render0 r := by simp
    rw [this, dedouble_free_append _ _ _ (by
      intro x hx
      simp only [List.mem_append, List.mem_cons, List.not_mem_nil, or_false] at hx
      rcases hx with hx | hx | hx
      · exact (hn x hx).1
      · subst hx; decide
      · subst hx; decide), dedouble_render0 r (fun p hp => h p (by simp [hp]))]
    simp

theorem dedouble_render1 : ∀ ps : List TP, (∀ p ∈ ps, p.Ok) → dedouble '}' (render1 ps) = render2 ps
  | [], _ => rfl
  | .lit l :: r, h => by
    have hl : ∀ c ∈ l, c ≠ '{' ∧ c ≠ '}' := h (.lit l) (by simp)
    simp only [render1, render2]
    rw [dedouble_free_append _ _ _ (fun x hx => (hl x hx).2), dedouble_render1 r (fun p hp => h p (by simp [hp]))]
  | .fld n :: r, h => by
    have hn : ∀ c ∈ n, c ≠ '{' ∧ isTerm c = false := h (.fld n) (by simp)
    simp only [render1, render2]
    have : '{' :: (n ++ '}' :: '}' :: render1 r) = ('{' :: n) ++ ('}' :: '}' :: render1 r) := by simp
    rw [this, dedouble_free_append _ _ _ (by
      intro x hx
      simp only [List.mem_cons] at hx
      rcases hx with hx | hx
      · subst hx; decide
      · exact notTerm_ne_rbrace (hn x hx).2), dedouble_pair, dedouble_render1 r (fun p hp => h p (by simp [hp]))]
    simp

theorem closed_render2 : ∀ ps : List TP, (∀ p ∈ ps, p.Ok) → BracesClosed (render2 ps)
  | [], _ => trivial
  | .lit l :: r, h => by
    have hl : ∀ c ∈ l, c ≠ '{' ∧ c ≠ '}' := h (.lit l) (by simp)
    exact bracesClosed_append_free _ _ (fun c hc => (hl c hc).1) (closed_render2 r (fun p hp => h p (by simp [hp])))
  | .fld n :: r, h => by
    have hn : ∀ c ∈ n, c ≠ '{' ∧ isTerm c = false := h (.fld n) (by simp)
    simp only [render2, BracesClosed]
    refine ⟨fun _ => by simp, ?_⟩
    have : n ++ '}' :: render2 r = (n ++ ['}']) ++ render2 r := by simp
    rw [this]
    refine bracesClosed_append_free _ _ ?_ (closed_render2 r (fun p hp => h p (by simp [hp])))
    intro c hc
    simp only [List.mem_append, List.mem_cons, List.not_mem_nil, or_false] at hc
    rcases hc with hc | hc
    · exact (hn c hc).1
    · subst hc; decide

/-! ## the scanner on a template of pieces -/

theorem scan_text_free (l r : List Char) (o : List Char) (a : List String) (hl : ∀ c ∈ l, c ≠ '{')
    (hr : scan .text r = .ok (o, a)) : scan .text (l ++ r) = .ok (l ++ o, a) := by
  induction l with
  | nil => simpa using hr
  | cons c l ih =>
    have hc : c ≠ '{' := hl c (by simp)
    simp only [List.cons_append, scan, hc, if_false, ih (fun x hx => hl x (by simp [hx]))]

theorem scan_field (n r o : List Char) (a : List String) (hn : ∀ c ∈ n, c ≠ '{' ∧ isTerm c = false)
    (hr : scan .text r = .ok (o, a)) :
    ∀ acc, scan (.field acc) (n ++ '}' :: r) = .ok ('}' :: o, String.ofList (acc.reverse ++ n) :: a) := by
  induction n with
  | nil =>
    intro acc
    have : isTerm '}' = true := by decide
    simp [scan, this, hr]
  | cons c n ih =>
    intro acc
    have hc := hn c (by simp)
    simp only [List.cons_append, scan, hc.2]
    rw [show (if false = true then _ else scan (Mode.field (c :: acc)) (n ++ '}' :: r)) =
          scan (Mode.field (c :: acc)) (n ++ '}' :: r) from rfl]
    rw [ih (fun x hx => hn x (by simp [hx])) (c :: acc)]
    simp

theorem scan_fld (n r o : List Char) (a : List String) (hn : ∀ c ∈ n, c ≠ '{' ∧ isTerm c = false)
    (hr : scan .text r = .ok (o, a)) :
    scan .text ('{' :: (n ++ '}' :: r)) = .ok ('{' :: '}' :: o, String.ofList n :: a) := by
  cases n with
  | nil =>
    have : isTerm '}' = true := by decide
    have h2 : ('}' : Char) ≠ '{' := by decide
    simp [scan, this, h2, hr]
  | cons c n =>
    have hc := hn c (by simp)
    have := scan_field n r o a (fun x hx => hn x (by simp [hx])) hr [c]
    simp only [List.cons_append] at this ⊢
    simp only [scan, if_true, hc.1, hc.2, if_false]
    rw [show (if false = true then _ else scan (Mode.field [c]) (n ++ '}' :: r)) =
          scan (Mode.field [c]) (n ++ '}' :: r) from rfl]
    rw [this]
    simp

theorem scan_render2 : ∀ ps : List TP, (∀ p ∈ ps, p.Ok) → scan .text (render2 ps) = .ok (fstrOf ps, namesOf ps)
  | [], _ => rfl
  | .lit l :: r, h => by
    have hl : ∀ c ∈ l, c ≠ '{' ∧ c ≠ '}' := h (.lit l) (by simp)
    exact scan_text_free _ _ _ _ (fun c hc => (hl c hc).1) (scan_render2 r (fun p hp => h p (by simp [hp])))
  | .fld n :: r, h => by
    have hn : ∀ c ∈ n, c ≠ '{' ∧ isTerm c = false := h (.fld n) (by simp)
    exact scan_fld n _ _ _ hn (scan_render2 r (fun p hp => h p (by simp [hp])))

/-- `format_context` accepts every template of well-formed pieces and computes the positional format
string and the list of field names -/
theorem formatInit_render0 (ps : List TP) (h : ∀ p ∈ ps, p.Ok) :
    formatInit (some (String.ofList (render0 ps))) = .ok ⟨fstrOf ps, namesOf ps⟩ := by
  unfold formatInit
  simp only [String.toList_ofList]
  rw [if_neg (by simpa using count_render0 ps h)]
  have h2 : ((render0 ps).contains '{' && !hasDouble '{' (render0 ps)) = false := by
    by_cases hm : '{' ∈ render0 ps
    · simp [hasDouble_render0 ps h hm]
    · simp [hm]
  rw [h2]
  simp only [Bool.false_eq_true, if_false]
  rw [dedouble_render0 ps h, dedouble_render1 ps h]
  rw [if_neg (by
    have := (rfind_le_iff_closed (render2 ps)).2 (closed_render2 ps h)
    omega)]
  rw [scan_render2 ps h]

/-- **format_init_total** — commit 5478e2e: whatever the string, `format_context` returns a formatter or
raises `LenaValueError`; the scanner cannot run off the end (`IndexError`) -/
theorem formatInit_total (s : String) :
    (∃ f, formatInit (some s) = .ok f) ∨ formatInit (some s) = .error .lenaValueError := by
  unfold formatInit
  simp only
  split
  · exact Or.inr rfl
  · split
    · exact Or.inr rfl
    · split
      · exact Or.inr rfl
      · rename_i hr
        have hc := (rfind_le_iff_closed _).1 (by omega : rfind '{' (dedouble '}' (dedouble '{' s.toList)) ≤
          rfind '}' (dedouble '}' (dedouble '{' s.toList)))
        obtain ⟨⟨o, a⟩, hx⟩ := scan_total _ .text hc (Or.inl rfl)
        rw [hx]
        exact Or.inl ⟨_, rfl⟩

/-! ## `str.format` on the new format string -/

theorem pyFormat_free_cons (c : Char) (s : List Char) (args : List String) (o : List Char)
    (hc : c ≠ '{' ∧ c ≠ '}') (hs : pyFormat s args = .ok o) : pyFormat (c :: s) args = .ok (c :: o) := by
  cases s with
  | nil =>
    simp [pyFormat] at hs
    subst hs
    simp [pyFormat, hc.1, hc.2]
  | cons c' r => simp [pyFormat, hc.1, hc.2, hs]

theorem pyFormat_free (l s : List Char) (args : List String) (o : List Char) (hl : ∀ c ∈ l, c ≠ '{' ∧ c ≠ '}')
    (hs : pyFormat s args = .ok o) : pyFormat (l ++ s) args = .ok (l ++ o) := by
  induction l with
  | nil => simpa using hs
  | cons c l ih =>
    simp only [List.cons_append]
    exact pyFormat_free_cons c _ args _ (hl c (by simp)) (ih (fun x hx => hl x (by simp [hx])))

theorem pyFormat_field (s : List Char) (a : String) (args : List String) (o : List Char)
    (hs : pyFormat s args = .ok o) : pyFormat ('{' :: '}' :: s) (a :: args) = .ok (a.toList ++ o) := by
  have h2 : ('}' : Char) ≠ '{' := by decide
  simp [pyFormat, h2, hs]

/-! ## `str.format` never runs out of positional arguments on what the scanner produced -/

/-- occurrences of `{` immediately followed by `}`: the places where `str.format` can take an argument -/
def cntOpen : List Char → Nat
  | [] => 0
  | [_] => 0
  | c :: c' :: r => (if c = '{' ∧ c' = '}' then 1 else 0) + cntOpen (c' :: r)

theorem cntOpen_cons_le (c : Char) : ∀ s : List Char, cntOpen s ≤ cntOpen (c :: s)
  | [] => by simp [cntOpen]
  | x :: r => by rw [cntOpen]; omega

theorem cntOpen_cons_ne (c : Char) (h : c ≠ '{') : ∀ s : List Char, cntOpen (c :: s) = cntOpen s
  | [] => by simp [cntOpen]
  | x :: r => by rw [cntOpen]; simp [h]

theorem pyFormat_errors : ∀ (s : List Char) (args : List String) (e : Exc), pyFormat s args = .error e →
    e = .valueError ∨ e = .unmodelled ∨ (e = .indexError ∧ args.length < cntOpen s)
  | [], _, e, h => by simp [pyFormat] at h
  | [c], _, e, h => by
    simp only [pyFormat] at h
    split at h <;> simp at h
    exact Or.inl h.symm
  | c :: c' :: r, args, e, h => by
    unfold pyFormat at h
    by_cases h1 : c = '{'
    · simp only [h1, if_true] at h
      by_cases h2 : c' = '{'
      · simp only [h2, if_true] at h
        cases hr : pyFormat r args with
        | ok o => rw [hr] at h; simp at h
        | error e' =>
          rw [hr] at h; simp at h; subst h
          rcases pyFormat_errors r args e' hr with h | h | ⟨h, hl⟩
          · exact Or.inl h
          · exact Or.inr (Or.inl h)
          · refine Or.inr (Or.inr ⟨h, ?_⟩)
            have a1 := cntOpen_cons_le '{' r
            have a2 := cntOpen_cons_le c ('{' :: r)
            rw [h2]; omega
      · simp only [h2, if_false] at h
        by_cases h3 : c' = '}'
        · simp only [h3, if_true] at h
          cases args with
          | nil =>
            simp at h; subst h
            refine Or.inr (Or.inr ⟨rfl, ?_⟩)
            rw [h1, h3, cntOpen]; simp; omega
          | cons a as =>
            simp only at h
            cases hr : pyFormat r as with
            | ok o => rw [hr] at h; simp at h
            | error e' =>
              rw [hr] at h; simp at h; subst h
              rcases pyFormat_errors r as e' hr with h | h | ⟨h, hl⟩
              · exact Or.inl h
              · exact Or.inr (Or.inl h)
              · refine Or.inr (Or.inr ⟨h, ?_⟩)
                have a1 := cntOpen_cons_le '}' r
                rw [h1, h3, cntOpen]; simp; omega
        · simp only [h3, if_false] at h
          simp at h; exact Or.inr (Or.inl h.symm)
    · simp only [h1, if_false] at h
      by_cases h4 : c = '}'
      · simp only [h4, if_true] at h
        by_cases h5 : c' = '}'
        · simp only [h5, if_true] at h
          cases hr : pyFormat r args with
          | ok o => rw [hr] at h; simp at h
          | error e' =>
            rw [hr] at h; simp at h; subst h
            rcases pyFormat_errors r args e' hr with h | h | ⟨h, hl⟩
            · exact Or.inl h
            · exact Or.inr (Or.inl h)
            · refine Or.inr (Or.inr ⟨h, ?_⟩)
              have a1 := cntOpen_cons_le c' r
              have a2 := cntOpen_cons_le c (c' :: r)
              omega
        · simp only [h5, if_false] at h
          simp at h; exact Or.inl h.symm
      · simp only [h4, if_false] at h
        cases hr : pyFormat (c' :: r) args with
        | ok o => rw [hr] at h; simp at h
        | error e' =>
          rw [hr] at h; simp at h; subst h
          rcases pyFormat_errors (c' :: r) args e' hr with h | h | ⟨h, hl⟩
          · exact Or.inl h
          · exact Or.inr (Or.inl h)
          · refine Or.inr (Or.inr ⟨h, ?_⟩)
            have a2 := cntOpen_cons_le c (c' :: r)
            omega
termination_by s => s.length

/-- what the scanner returns has at least as many field names as places where `str.format` takes one -/
theorem scan_cnt : ∀ (s : List Char) (m : Mode) (o : List Char) (a : List String), scan m s = .ok (o, a) →
    (m = .text → cntOpen o ≤ a.length) ∧ (m ≠ .text → cntOpen ('{' :: o) ≤ a.length)
  | [], .text, o, a, h => by simp [scan] at h; obtain ⟨rfl, rfl⟩ := h; simp [cntOpen]
  | [], .braces, o, a, h => by simp [scan] at h
  | [], .field _, o, a, h => by simp [scan] at h
  | c :: r, .text, o, a, h => by
    simp only [scan] at h
    refine ⟨fun _ => ?_, fun hne => absurd rfl hne⟩
    by_cases hc : c = '{'
    · simp only [hc, if_true] at h
      cases hr : scan .braces r with
      | error e => rw [hr] at h; simp at h
      | ok x =>
        obtain ⟨o', a'⟩ := x
        rw [hr] at h; simp at h; obtain ⟨rfl, rfl⟩ := h
        exact (scan_cnt r .braces o' a' hr).2 (by simp)
    · simp only [hc, if_false] at h
      cases hr : scan .text r with
      | error e => rw [hr] at h; simp at h
      | ok x =>
        obtain ⟨o', a'⟩ := x
        rw [hr] at h; simp at h; obtain ⟨rfl, rfl⟩ := h
        rw [cntOpen_cons_ne c hc]
        exact (scan_cnt r .text o' a' hr).1 rfl
  | c :: r, .braces, o, a, h => by
    simp only [scan] at h
    refine ⟨fun e => by simp at e, fun _ => ?_⟩
    by_cases hc : c = '{'
    · simp only [hc, if_true] at h
      cases hr : scan .braces r with
      | error e => rw [hr] at h; simp at h
      | ok x =>
        obtain ⟨o', a'⟩ := x
        rw [hr] at h; simp at h; obtain ⟨rfl, rfl⟩ := h
        have := (scan_cnt r .braces o' a' hr).2 (by simp)
        rw [cntOpen]; simp; exact this
    · simp only [hc, if_false] at h
      by_cases ht : isTerm c = true
      · simp only [ht, if_true] at h
        cases hr : scan .text r with
        | error e => rw [hr] at h; simp at h
        | ok x =>
          obtain ⟨o', a'⟩ := x
          rw [hr] at h; simp at h; obtain ⟨rfl, rfl⟩ := h
          have := (scan_cnt r .text o' a' hr).1 rfl
          rw [cntOpen, cntOpen_cons_ne c hc]
          simp only [List.length_cons]
          split <;> omega
      · simp only [ht] at h
        exact (scan_cnt r (.field [c]) o a h).2 (by simp)
  | c :: r, .field arg, o, a, h => by
    simp only [scan] at h
    refine ⟨fun e => by simp at e, fun _ => ?_⟩
    by_cases ht : isTerm c = true
    · simp only [ht, if_true] at h
      cases hr : scan .text r with
      | error e => rw [hr] at h; simp at h
      | ok x =>
        obtain ⟨o', a'⟩ := x
        rw [hr] at h; simp at h; obtain ⟨rfl, rfl⟩ := h
        have := (scan_cnt r .text o' a' hr).1 rfl
        have hc : c ≠ '{' := by intro e; rw [e] at ht; exact absurd ht (by decide)
        rw [cntOpen, cntOpen_cons_ne c hc]
        simp only [List.length_cons]
        split <;> omega
    · simp only [ht] at h
      exact (scan_cnt r (.field (c :: arg)) o a h).2 (by simp)

theorem formatInit_cnt (s : String) (f : Fmt) (h : formatInit (some s) = .ok f) : cntOpen f.fstr ≤ f.args.length := by
  unfold formatInit at h
  simp only at h
  split at h
  · simp at h
  · split at h
    · simp at h
    · split at h
      · simp at h
      · cases hr : scan .text (dedouble '}' (dedouble '{' s.toList)) with
        | error e => rw [hr] at h; simp at h
        | ok x =>
          obtain ⟨o, a⟩ := x
          rw [hr] at h; simp at h; subst h
          exact (scan_cnt _ .text o a hr).1 rfl

end Lena.C08
