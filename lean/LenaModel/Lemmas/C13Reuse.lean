import LenaModel.Lemmas.C13Pass
/-! # C13 — re-use of a constructed program (a second enclosing sequence)

`setCtx_final` describes a delivery `c` that comes after deliveries *below* it (`Hist`: what nesting
guarantees).  When a constructed sequence is placed into a second enclosing sequence the new context is
arbitrary.  `delivery_memoryless`: if the delivery reaches every element (`covers`), every object ends in the
state `final t [c]` that depends on the program and on `c` alone — whatever the objects held before. -/

namespace Lena.C13
open Lena Lena.Val

theorem lastD_singleton (n : Nat) (c : Ctx) : lastD n [c] = c := by
  simpa using lastD_append_singleton n [] c

theorem pastT_singleton_ok (n : Nat) (t : Tree) (c x : Ctx) (h : fold n t c = .ok x) : pastT n t [c] = [x] := by
  simp [pastT, h, Except.toOption]

mutual
/-- in a closed-form state only the last context matters when it reaches everything -/
theorem final_covers (n : Nat) : ∀ (t : Tree) (F : List Ctx) (c : Ctx), covers n t c = true →
    final n t (F ++ [c]) = final n t [c]
  | .leaf e, F, c, _ => by simp only [final, lastD_append_singleton, lastD_singleton]
  | .seq kind cs, F, c, h => by
    simp only [covers, Bool.and_eq_true] at h
    simp only [final, lastD_append_singleton, lastD_singleton, finalL_covers n cs F c h.2]
  | .split bs, F, c, h => by
    simp only [covers, Bool.and_eq_true] at h
    simp only [final, finalB_covers n bs F c h.2]
theorem finalL_covers (n : Nat) : ∀ (ts : List Tree) (F : List Ctx) (c : Ctx), coversL n ts c = true →
    finalL n ts (F ++ [c]) = finalL n ts [c]
  | [], _, _, _ => by simp [finalL]
  | t :: ts, F, c, h => by
    simp only [coversL, Bool.and_eq_true] at h
    obtain ⟨ht, hrest⟩ := h
    cases hf : fold n t c with
    | error e => simp [hf] at hrest
    | ok x =>
      simp only [hf] at hrest
      simp only [finalL]
      have h1 := final_covers n t (Val.empty n :: F) c ht
      have h2 := final_covers n t [Val.empty n] c ht
      simp only [List.cons_append, List.nil_append] at h1 h2
      rw [h1, h2, pastT_append, pastT_singleton_ok n t c x hf, finalL_covers n ts (pastT n t F) x hrest]
theorem finalB_covers (n : Nat) : ∀ (bs : List Tree) (F : List Ctx) (c : Ctx), coversB n bs c = true →
    finalB n bs (F ++ [c]) = finalB n bs [c]
  | [], _, _, _ => by simp [finalB]
  | b :: bs, F, c, h => by
    simp only [coversB, Bool.and_eq_true] at h
    simp only [finalB]
    have h1 := final_covers n b (Val.empty n :: F) c h.1
    have h2 := final_covers n b [Val.empty n] c h.1
    simp only [List.cons_append, List.nil_append] at h1 h2
    rw [h1, h2, finalB_covers n bs F c h.2]
end

theorem prog_hasSet : ∀ s : St, s.prog.hasSet = s.hasSet := by
  intro s; cases s <;> simp [St.prog, Tree.hasSet, St.hasSet]

theorem prog_hasGet : ∀ s : St, s.prog.hasGet = s.hasGet := by
  intro s; cases s <;> simp [St.prog, Tree.hasGet, St.hasGet]

/-- an element without `_set_context` is its own closed form -/
theorem noSet_eq_final (n : Nat) (s : St) (F : List Ctx) (h : s.hasSet = false) : s = final n s.prog F := by
  cases s <;> simp_all [St.hasSet, St.prog, final, leafFinal]

theorem covers_nonEmpty (n : Nat) (t : Tree) (c : Ctx) (hs : t.hasSet = true) (h : covers n t c = true) :
    nonEmpty c = true := by
  cases t with
  | leaf e =>
    cases e <;> simp_all [covers, coversElem, Tree.hasSet]
  | seq kind cs => simp only [covers, Bool.and_eq_true] at h; exact h.1
  | split bs => simp only [covers, Bool.and_eq_true] at h; exact h.1

mutual
/-- **a delivery that reaches every element leaves no memory of earlier ones**: whatever the objects of a
program hold (`s` is any state of the program `s.prog`), after `_set_context(c)` with a context that reaches
every element they are in the state `final s.prog [c]`, a function of the program and of `c` alone; no
`LenaKeyError` is raised -/
theorem delivery_memoryless (n : Nat) : ∀ (s : St) (c : Ctx), s.namesOK = true → covers n s.prog c = true →
    setCtx n s c = (final n s.prog [c], none)
  | .set k ks v sc, c, _, h => by
    simp only [St.prog, covers, coversElem, Bool.and_eq_true] at h
    cases hf : fmtUpdate n k ks v c with
    | error e => simp [hf, okB] at h
    | ok c' => simp [setCtx, hf, St.prog, final, leafFinal, lastD_singleton, SC.ofExcept]
  | .store _, c, _, _ => by simp [setCtx, St.prog, final, leafFinal, lastD_singleton]
  | .ucfs _, c, _, _ => by simp [setCtx, St.prog, final, leafFinal, lastD_singleton]
  | .mkf m _, c, _, h => by
    simp only [St.prog, covers, coversElem] at h
    simp [setCtx, St.prog, final, leafFinal, lastD_singleton, h]
  | .write t nm, c, hn, h => by
    simp only [St.prog, covers, coversElem, Bool.and_eq_true, Bool.or_eq_true] at h
    simp only [St.namesOK, Bool.or_eq_true, Bool.not_eq_true'] at hn
    simp only [setCtx, St.prog, final, leafFinal, lastD_singleton, h.1, if_true, Prod.mk.injEq, and_true,
      St.write.injEq, true_and]
    unfold nameUpdate
    by_cases hp : t.parts.isEmpty = true
    · rcases hn with hn | hn
      · simp [hp] at hn
      · simp [hp, Option.isNone_iff_eq_none.mp hn]
    · simp only [hp]
      rcases h.2 with h2 | h2
      · exact absurd h2 hp
      · cases hf : fmt t c with
        | error e => simp [hf, okB] at h2
        | ok l => simp
  | .cache t nm, c, hn, h => by
    simp only [St.prog, covers, coversElem, Bool.and_eq_true, Bool.or_eq_true] at h
    simp only [St.namesOK, Bool.or_eq_true, Bool.not_eq_true'] at hn
    simp only [setCtx, St.prog, final, leafFinal, lastD_singleton, h.1, if_true, Prod.mk.injEq, and_true,
      St.cache.injEq, true_and]
    unfold nameUpdate
    by_cases hp : t.parts.isEmpty = true
    · rcases hn with hn | hn
      · simp [hp] at hn
      · simp [hp, Option.isNone_iff_eq_none.mp hn]
    · simp only [hp]
      rcases h.2 with h2 | h2
      · exact absurd h2 hp
      · cases hf : fmt t c with
        | error e => simp [hf, okB] at h2
        | ok l => simp
  | .data, c, _, _ => by simp [setCtx, St.prog, final, leafFinal]
  | .mut k ks l, c, _, _ => by simp [setCtx, St.prog, final, leafFinal]
  | .src, c, _, _ => by simp [setCtx, St.prog, final, leafFinal]
  | .seq kind cs sc, c, hn, h => by
    simp only [St.prog, covers, Bool.and_eq_true] at h
    simp only [St.namesOK] at hn
    obtain ⟨x, hx, hl⟩ := loop_memoryless n cs c hn h.2
    simp [setCtx, hl, St.prog, final, lastD_singleton, hx, SC.ofExcept]
  | .split bs, c, hn, h => by
    simp only [St.prog, covers, Bool.and_eq_true] at h
    simp only [St.namesOK] at hn
    simp [setCtx, h.1, St.prog, final, branches_memoryless n bs c hn h.1 h.2]
/-- the loop of `LenaSequence._set_context` when the delivery reaches every child -/
theorem loop_memoryless (n : Nat) : ∀ (ss : List St) (c : Ctx), namesOKL ss = true → coversL n (progL ss) c = true →
    ∃ x, foldL n (progL ss) c = .ok x ∧ loop n ss c = (finalL n (progL ss) [c], .done x)
  | [], c, _, _ => ⟨c, by simp [progL, foldL], by simp [loop, progL, finalL]⟩
  | el :: rest, c, hn, h => by
    simp only [namesOKL, Bool.and_eq_true] at hn
    simp only [progL, coversL, Bool.and_eq_true] at h
    obtain ⟨hel, hrest⟩ := h
    cases hf : fold n el.prog c with
    | error e => simp [hf] at hrest
    | ok c' =>
      simp only [hf] at hrest
      obtain ⟨x, hx, hl⟩ := loop_memoryless n rest c' hn.2 hrest
      refine ⟨x, by simp [progL, foldL, hf, hx], ?_⟩
      have hfin : final n el.prog [Val.empty n, c] = final n el.prog [c] := by
        have := final_covers n el.prog [Val.empty n] c hel
        simpa using this
      -- the element after `el._set_context(c)` (or untouched when it has no `_set_context`)
      have hstep : (if el.hasSet && nonEmpty c then setCtx n el c else (el, none)) = (final n el.prog [c], none) := by
        by_cases hs : el.hasSet = true
        · have hne := covers_nonEmpty n el.prog c (by rw [prog_hasSet]; exact hs) hel
          simp only [hs, hne, Bool.and_self, if_true]
          exact delivery_memoryless n el c hn.1 hel
        · have hs' : el.hasSet = false := by simpa using hs
          simp only [hs', Bool.false_and, Bool.false_eq_true, if_false, Prod.mk.injEq, and_true]
          exact noSet_eq_final n el [c] hs'
      rw [loop]
      simp only [hstep, final_hasGet, prog_hasGet]
      by_cases hg : el.hasGet = true
      · have hg' : el.prog.hasGet = true := by rw [prog_hasGet]; exact hg
        simp only [hg, if_true, getCtx_final n el.prog [c] hg', lastD_singleton, hf, hl, progL, finalL, hfin,
          pastT_singleton_ok n el.prog c c' hf]
      · have hg' : el.prog.hasGet = false := by rw [prog_hasGet]; simpa using hg
        have hcc : c' = c := by
          have := fold_noGet n el.prog c hg'
          rw [hf] at this; cases this; rfl
        subst hcc
        simp only [hg, hl, progL, finalL, hfin, pastT_singleton_ok n el.prog c' c' hf]
        simp
/-- `LenaSplit._set_context` when the delivery reaches every branch -/
theorem branches_memoryless (n : Nat) : ∀ (bs : List St) (c : Ctx), namesOKL bs = true → nonEmpty c = true →
    coversB n (progL bs) c = true → branches n bs c = finalB n (progL bs) [c]
  | [], _, _, _, _ => by simp [branches, progL, finalB]
  | b :: bs, c, hn, hne, h => by
    simp only [namesOKL, Bool.and_eq_true] at hn
    simp only [progL, coversB, Bool.and_eq_true] at h
    have hfin : final n b.prog [Val.empty n, c] = final n b.prog [c] := by
      have := final_covers n b.prog [Val.empty n] c h.1
      simpa using this
    simp only [branches, progL, finalB, hfin, branches_memoryless n bs c hn.2 hne h.2]
    by_cases hs : b.hasSet = true
    · simp [hs, delivery_memoryless n b c hn.1 h.1]
    · have hs' : b.hasSet = false := by simpa using hs
      simp only [hs', Bool.false_eq_true, if_false, List.cons.injEq, and_true]
      exact noSet_eq_final n b [c] hs'
end

/-! ## the invariants are those of constructed objects -/

mutual
theorem prog_final (n : Nat) : ∀ (t : Tree) (F : List Ctx), (final n t F).prog = t
  | .leaf e, F => by cases e <;> simp [final, leafFinal, St.prog]
  | .seq kind cs, F => by simp [final, St.prog, progL_finalL n cs F]
  | .split bs, F => by simp [final, St.prog, progL_finalB n bs F]
theorem progL_finalL (n : Nat) : ∀ (ts : List Tree) (F : List Ctx), progL (finalL n ts F) = ts
  | [], _ => by simp [finalL, progL]
  | t :: ts, F => by simp [finalL, progL, prog_final n t, progL_finalL n ts]
theorem progL_finalB (n : Nat) : ∀ (bs : List Tree) (F : List Ctx), progL (finalB n bs F) = bs
  | [], _ => by simp [finalB, progL]
  | b :: bs, F => by simp [finalB, progL, prog_final n b, progL_finalB n bs]
end

theorem nameUpdate_none_of_empty (t : Tpl) (c : Ctx) (h : t.parts.isEmpty = true) : nameUpdate t none c = none := by
  simp [nameUpdate, h]

mutual
theorem namesOK_final (n : Nat) : ∀ (t : Tree) (F : List Ctx), (final n t F).namesOK = true
  | .leaf e, F => by
    cases e with
    | write t =>
      simp only [final, leafFinal, St.namesOK, Bool.or_eq_true, Bool.not_eq_true']
      by_cases hp : t.parts.isEmpty = true
      · right; split <;> simp [nameUpdate, hp]
      · left; simpa using hp
    | cache t =>
      simp only [final, leafFinal, St.namesOK, Bool.or_eq_true, Bool.not_eq_true']
      by_cases hp : t.parts.isEmpty = true
      · right; split <;> simp [nameUpdate, hp]
      · left; simpa using hp
    | _ => simp [final, leafFinal, St.namesOK]
  | .seq kind cs, F => by simp [final, St.namesOK, namesOKL_finalL n cs F]
  | .split bs, F => by simp [final, St.namesOK, namesOKL_finalB n bs F]
theorem namesOKL_finalL (n : Nat) : ∀ (ts : List Tree) (F : List Ctx), namesOKL (finalL n ts F) = true
  | [], _ => by simp [finalL, namesOKL]
  | t :: ts, F => by simp [finalL, namesOKL, namesOK_final n t, namesOKL_finalL n ts]
theorem namesOKL_finalB (n : Nat) : ∀ (bs : List Tree) (F : List Ctx), namesOKL (finalB n bs F) = true
  | [], _ => by simp [finalB, namesOKL]
  | b :: bs, F => by simp [finalB, namesOKL, namesOK_final n b, namesOKL_finalB n bs]
end

mutual
/-- `_set_context` changes what the objects hold, never which program they are, and keeps the name invariant -/
theorem setCtx_prog (n : Nat) : ∀ (s : St) (c : Ctx), (setCtx n s c).1.prog = s.prog ∧
    (s.namesOK = true → (setCtx n s c).1.namesOK = true)
  | .set k ks v sc, c => by
    simp only [setCtx]
    cases fmtUpdate n k ks v c <;> simp [St.prog, St.namesOK]
  | .store _, c => by simp [setCtx, St.prog, St.namesOK]
  | .ucfs _, c => by simp [setCtx, St.prog, St.namesOK]
  | .mkf m _, c => by simp [setCtx, St.prog, St.namesOK]
  | .write t nm, c => by
    simp only [setCtx, St.prog, St.namesOK, true_and, Bool.or_eq_true, Bool.not_eq_true']
    intro h
    rcases h with h | h
    · left; exact h
    · by_cases hp : t.parts.isEmpty = true
      · right; simp [nameUpdate, hp, h]
      · left; simpa using hp
  | .cache t nm, c => by
    simp only [setCtx, St.prog, St.namesOK, true_and, Bool.or_eq_true, Bool.not_eq_true']
    intro h
    rcases h with h | h
    · left; exact h
    · by_cases hp : t.parts.isEmpty = true
      · right; simp [nameUpdate, hp, h]
      · left; simpa using hp
  | .data, c => by simp [setCtx, St.prog, St.namesOK]
  | .mut k ks l, c => by simp [setCtx, St.prog, St.namesOK]
  | .src, c => by simp [setCtx, St.prog, St.namesOK]
  | .seq kind cs sc, c => by
    have h := loop_prog n cs c
    simp only [setCtx]
    rcases hl : loop n cs c with ⟨cs', o⟩
    rw [hl] at h
    cases o <;> simp [St.prog, St.namesOK, h.1] <;> exact h.2
  | .split bs, c => by
    have h := branches_prog n bs c
    simp only [setCtx]
    split <;> simp [St.prog, St.namesOK, h.1]
    exact h.2
theorem loop_prog (n : Nat) : ∀ (ss : List St) (c : Ctx), progL (loop n ss c).1 = progL ss ∧
    (namesOKL ss = true → namesOKL (loop n ss c).1 = true)
  | [], c => by simp [loop]
  | el :: rest, c => by
    rw [loop]
    have hel := setCtx_prog n el c
    -- the element after its (possibly skipped) `_set_context`
    generalize hr : (if el.hasSet && nonEmpty c then setCtx n el c else (el, none)) = r
    have hr1 : r.1.prog = el.prog ∧ (el.namesOK = true → r.1.namesOK = true) := by
      subst hr
      split
      · exact hel
      · exact ⟨rfl, id⟩
    rcases r with ⟨el', oe⟩
    simp only at hr1
    cases oe with
    | some e => simp [progL, namesOKL, hr1.1]; intro h1 h2; exact ⟨hr1.2 h1, h2⟩
    | none =>
      simp only
      split
      · split
        · simp [progL, namesOKL, hr1.1]; intro h1 h2; exact ⟨hr1.2 h1, h2⟩
        · rename_i c' _
          have hrest := loop_prog n rest c'
          rcases hl : loop n rest c' with ⟨rest', o⟩
          rw [hl] at hrest
          simp [progL, namesOKL, hr1.1, hrest.1]; intro h1 h2; exact ⟨hr1.2 h1, hrest.2 h2⟩
      · have hrest := loop_prog n rest c
        rcases hl : loop n rest c with ⟨rest', o⟩
        rw [hl] at hrest
        simp [progL, namesOKL, hr1.1, hrest.1]; intro h1 h2; exact ⟨hr1.2 h1, hrest.2 h2⟩
theorem branches_prog (n : Nat) : ∀ (bs : List St) (c : Ctx), progL (branches n bs c) = progL bs ∧
    (namesOKL bs = true → namesOKL (branches n bs c) = true)
  | [], c => by simp [branches]
  | b :: bs, c => by
    have hb := setCtx_prog n b c
    have hrest := branches_prog n bs c
    simp only [branches, progL, namesOKL, Bool.and_eq_true]
    split
    · exact ⟨by rw [hb.1, hrest.1], fun h => ⟨hb.2 h.1, hrest.2 h.2⟩⟩
    · exact ⟨by rw [hrest.1], fun h => ⟨h.1, hrest.2 h.2⟩⟩
end

theorem deliverAll_prog (n : Nat) : ∀ (cs : List Ctx) (s : St), (deliverAll n s cs).prog = s.prog ∧
    (s.namesOK = true → (deliverAll n s cs).namesOK = true)
  | [], s => by simp [deliverAll]
  | c :: cs, s => by
    have h1 := setCtx_prog n s c
    have h2 := deliverAll_prog n cs (setCtx n s c).1
    simp only [deliverAll, List.foldl_cons] at h2 ⊢
    exact ⟨by rw [h2.1, h1.1], fun h => h2.2 (h1.2 h)⟩

/-- **element re-use**: a constructed program that has been delivered any contexts `cs` whatsoever (it stood in
other enclosing sequences) and is then delivered a context `c` that reaches every element is in the state
`final t [c]` — exactly the state of a program that was never delivered anything but `c`.  Nothing of `cs` is
remembered: no formatted value, no derived name, no stored context, no stored `LenaKeyError`. -/
theorem reuse_memoryless (n : Nat) (t : Tree) (cs : List Ctx) (c : Ctx) (h : covers n t c = true) :
    setCtx n (deliverAll n (build n t) cs) c = (final n t [c], none) := by
  have hb : (build n t).prog = t ∧ (build n t).namesOK = true := by
    rw [build_eq_final]; exact ⟨prog_final n t _, namesOK_final n t _⟩
  have hd := deliverAll_prog n cs (build n t)
  have := delivery_memoryless n (deliverAll n (build n t) cs) c (hd.2 hb.2) (by rw [hd.1, hb.1]; exact h)
  rw [hd.1, hb.1] at this
  exact this

end Lena.C13
