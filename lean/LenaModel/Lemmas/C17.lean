import LenaModel.Model.C17
/-! # C17 — helper lemmas (list arithmetic for `pySlice`, `islice`, the deque loops, `fill_into`) -/

namespace Lena.C17

variable {α : Type}

/-! ### `everyNth` -/

theorem everyNthAux_drop (k : Nat) : ∀ (j : Nat) (xs : List α),
    everyNthAux k j xs = everyNthAux k 0 (xs.drop j)
  | 0, xs => by simp
  | j + 1, [] => by simp [everyNthAux]
  | j + 1, x :: xs => by rw [everyNthAux, everyNthAux_drop k j xs]; simp

@[simp] theorem everyNth_nil (k : Nat) : everyNth k ([] : List α) = [] := by
  simp [everyNth, everyNthAux]

theorem everyNth_cons (k : Nat) (x : α) (xs : List α) :
    everyNth k (x :: xs) = x :: everyNth k (xs.drop (k - 1)) := by
  simp only [everyNth, everyNthAux]
  rw [everyNthAux_drop]

/-- step 1 keeps everything -/
theorem everyNth_one : ∀ (xs : List α), everyNth 1 xs = xs
  | [] => by simp
  | x :: xs => by rw [everyNth_cons]; simp [everyNth_one xs]

/-- element `j` of `xs[::k]` is `xs[j*k]` -/
theorem everyNth_getElem? (k : Nat) (hk : 1 ≤ k) :
    ∀ (j : Nat) (xs : List α), (everyNth k xs)[j]? = xs[j * k]?
  | _, [] => by simp
  | 0, x :: xs => by rw [everyNth_cons]; simp
  | j + 1, x :: xs => by
    rw [everyNth_cons, List.getElem?_cons_succ, everyNth_getElem? k hk j, List.getElem?_drop]
    have h : (j + 1) * k = (k - 1 + j * k) + 1 := by rw [Nat.succ_mul]; omega
    rw [h, List.getElem?_cons_succ]

/-! ### the clamped window `xs[a:b]` for natural `a`, `b` -/

/-- `(xs.drop a).take (b - a)` is insensitive to clamping `a` and `b` at the length -/
theorem window_clamp (xs : List α) (a b : Nat) :
    (xs.drop (min a xs.length)).take (min b xs.length - min a xs.length) = (xs.drop a).take (b - a) := by
  by_cases ha : xs.length ≤ a
  · rw [Nat.min_eq_right ha, List.drop_eq_nil_of_le ha, List.drop_eq_nil_of_le (Nat.le_refl _)]
    simp
  · have ha' : a ≤ xs.length := by omega
    rw [Nat.min_eq_left ha']
    by_cases hb : b ≤ xs.length
    · rw [Nat.min_eq_left hb]
    · rw [Nat.min_eq_right (by omega)]
      rw [List.take_of_length_le (by simp), List.take_of_length_le (by simp; omega)]

/-- the same without an upper bound -/
theorem window_clamp_none (xs : List α) (a : Nat) :
    (xs.drop (min a xs.length)).take (xs.length - min a xs.length) = xs.drop a := by
  by_cases ha : xs.length ≤ a
  · rw [Nat.min_eq_right ha, List.drop_eq_nil_of_le ha, List.drop_eq_nil_of_le (Nat.le_refl _)]
    simp
  · rw [Nat.min_eq_left (by omega), List.take_of_length_le (by simp)]

/-! ### `adj` on literals -/

theorem adj_ofNat (n a d : Nat) : adj n (some (a : Int)) d = min a n := by
  have h : ¬ ((a : Int) < 0) := by omega
  simp [adj, h]

theorem adj_neg (n k d : Nat) (hk : 0 < k) : adj n (some (-(k : Int))) d = n - k := by
  have h : (-(k : Int)) < 0 := by omega
  simp only [adj, h, if_true]
  split <;> omega

/-! ### `islice` -/

/-- `xs[:s]` or the whole list -/
def takeOpt (stop : Option Nat) (next : Nat) (xs : List α) : List α :=
  match stop with
  | some s => xs.take (s - next)
  | none => xs

theorem takeOpt_drop (stop : Option Nat) (next step : Nat) (hs : 1 ≤ step) (x : α) (xs : List α)
    (hlt : ∀ s, stop = some s → next < s) :
    takeOpt stop next (x :: xs) = x :: (takeOpt stop next (x :: xs)).tail ∧
    ((takeOpt stop next (x :: xs)).tail).drop (step - 1)
      = takeOpt stop (next + step) (xs.drop (step - 1)) := by
  cases stop with
  | none => simp [takeOpt]
  | some s =>
    have := hlt s rfl
    obtain ⟨t, ht⟩ : ∃ t, s - next = t + 1 := ⟨s - next - 1, by omega⟩
    simp only [takeOpt, ht, List.take_succ_cons, List.tail_cons, true_and]
    rw [List.drop_take]
    congr 1
    omega

/-- the loop of `itertools.islice`: with `cnt ≤ next`, what is still emitted from `rest` is every
`step`-th element of `rest[next-cnt : stop-cnt]` -/
theorem isliceGo_spec (stop : Option Nat) (step : Nat) (hs : 1 ≤ step) :
    ∀ (rest : List α) (next cnt : Nat), cnt ≤ next →
      isliceGo stop step next cnt rest = everyNth step (takeOpt stop next (rest.drop (next - cnt)))
  | [], next, cnt, _ => by cases stop <;> simp [isliceGo, takeOpt]
  | x :: rest, next, cnt, hle => by
    have stopCase : ∀ s, stop = some s → next ≥ s →
        everyNth step (takeOpt stop next ((x :: rest).drop (next - cnt))) = [] := by
      intro s hst hge
      subst hst
      have : s - next = 0 := by omega
      simp [takeOpt, this]
    have goCase : (∀ s, stop = some s → next < s) →
        (if cnt == next then x :: isliceGo stop step (next + step) (cnt + 1) rest
          else isliceGo stop step next (cnt + 1) rest)
        = everyNth step (takeOpt stop next ((x :: rest).drop (next - cnt))) := by
      intro hlt
      by_cases he : cnt = next
      · subst he
        simp only [beq_self_eq_true, if_true, Nat.sub_self, List.drop_zero]
        obtain ⟨h1, h2⟩ := takeOpt_drop stop cnt step hs x rest hlt
        have h3 : cnt + step - (cnt + 1) = step - 1 := by omega
        rw [h1, everyNth_cons, h2, isliceGo_spec stop step hs rest (cnt + step) (cnt + 1) (by omega), h3]
      · have hne : (cnt == next) = false := by simp [he]
        simp only [hne, Bool.false_eq_true, if_false]
        rw [isliceGo_spec stop step hs rest next (cnt + 1) (by omega)]
        obtain ⟨t, ht⟩ : ∃ t, next - cnt = t + 1 := ⟨next - cnt - 1, by omega⟩
        have ht' : next - (cnt + 1) = t := by omega
        rw [ht, ht', List.drop_succ_cons]
    cases hstop : stop with
    | none =>
      subst hstop
      simp only [isliceGo]
      exact goCase (by intro s h; cases h)
    | some s =>
      subst hstop
      simp only [isliceGo]
      by_cases hge : next ≥ s
      · simp only [hge, if_true]
        exact (stopCase s rfl hge).symm
      · simp only [hge, if_false]
        exact goCase (by intro s' h; cases h; omega)

/-! ### deque loops -/

/-- `fill_deque` when the deque does not overflow: the first `k` values, newest first -/
theorem fillDeque_spec (m : Nat) :
    ∀ (k : Nat) (d xs : List α), d.length + k ≤ m →
      fillDeque m k d xs = ((xs.take k).reverse ++ d, xs.drop k)
  | 0, d, xs, _ => by simp [fillDeque]
  | k + 1, d, [], _ => by simp [fillDeque]
  | k + 1, d, v :: rest, h => by
    have hd : dqAppendLeft m d v = v :: d := by
      unfold dqAppendLeft
      exact List.take_of_length_le (by simp; omega)
    rw [fillDeque, hd, fillDeque_spec m k (v :: d) rest (by simp; omega)]
    simp

/-- the lag loop on a non-empty deque that is not over-full: the deque from oldest to newest,
then the flow, without the last `|deque|` values; never an `IndexError` -/
theorem lagLoop_spec (m : Nat) :
    ∀ (rest d : List α), d ≠ [] → d.length ≤ m →
      lagLoop m d rest = some ((d.reverse ++ rest).take rest.length)
  | [], d, _, _ => by simp [lagLoop]
  | v :: rest, d, hne, hlen => by
    rcases List.eq_nil_or_concat d with rfl | ⟨l, o, rfl⟩
    · exact absurd rfl hne
    · simp only [List.concat_eq_append] at hlen ⊢
      have hd : dqAppendLeft m l v = v :: l := by
        unfold dqAppendLeft
        exact List.take_of_length_le (by simp at hlen ⊢; omega)
      rw [lagLoop, List.getLast?_concat, List.dropLast_concat, hd,
        lagLoop_spec m rest (v :: l) (by simp) (by simp at hlen ⊢; omega)]
      simp

theorem lagLoop_nil (m : Nat) (d : List α) : lagLoop m d [] = some [] := by
  cases d <;> simp [lagLoop]

/-- `deque(flow, maxlen=m)` started from a deque that is not over-full keeps the last `m` values -/
theorem foldl_dqAppend (m : Nat) :
    ∀ (xs d : List α), d.length ≤ m →
      xs.foldl (dqAppend m) d = (d ++ xs).drop ((d ++ xs).length - m)
  | [], d, h => by
    have : d.length - m = 0 := by omega
    simp [this]
  | v :: r, d, h => by
    have hl : (dqAppend m d v).length ≤ m := by simp [dqAppend]; omega
    rw [List.foldl_cons, foldl_dqAppend m r _ hl]
    by_cases hlt : d.length + 1 ≤ m
    · have hd : dqAppend m d v = d ++ [v] := by
        have : d.length + 1 - m = 0 := by omega
        simp [dqAppend, this]
      rw [hd]
      simp
    · have hm : d.length = m := by omega
      have hd : dqAppend m d v = (d ++ [v]).drop 1 := by
        have : d.length + 1 - m = 1 := by omega
        simp [dqAppend, this]
      have e1 : ((dqAppend m d v) ++ r).length - m = r.length := by
        rw [hd]; simp; omega
      have e2 : (d ++ v :: r).length - m = 1 + r.length := by simp; omega
      have e3 : d ++ v :: r = (d ++ [v]) ++ r := by simp
      rw [e1, e2, ← List.drop_drop, hd, e3,
        List.drop_append_of_le_length (l₁ := d ++ [v]) (l₂ := r) (i := 1) (by simp)]

theorem dqOfFlow_spec (m : Nat) (xs : List α) : dqOfFlow m xs = xs.drop (xs.length - m) := by
  unfold dqOfFlow
  rw [foldl_dqAppend m xs [] (by simp)]
  simp

theorem popLeftN_spec : ∀ (k : Nat) (d : List α), k ≤ d.length → popLeftN k d = some (d.take k)
  | 0, d, _ => by simp [popLeftN]
  | k + 1, [], h => by simp at h
  | k + 1, x :: d, h => by
    simp only [List.length_cons] at h
    simp [popLeftN, popLeftN_spec k d (by omega)]

theorem popLeftUpTo_spec : ∀ (k : Nat) (d : List α), popLeftUpTo k d = d.take k
  | 0, d => by simp [popLeftUpTo]
  | k + 1, [] => by simp [popLeftUpTo]
  | k + 1, x :: d => by simp [popLeftUpTo, popLeftUpTo_spec k d]

/-- the `for val in flow` loop of the branch "start < 0 ≤ stop" -/
theorem posStopLoop_spec (m bound : Nat) :
    ∀ (xs : List α) (ind : Nat) (d : List α), ind ≤ bound →
      posStopLoop m bound ind d xs
        = if bound < ind + xs.length then none else some (ind + xs.length, xs.foldl (dqAppend m) d)
  | [], ind, d, hb => by
    have : ¬ (bound < ind) := by omega
    simp [posStopLoop, this]
  | v :: r, ind, d, hb => by
    simp only [posStopLoop, List.length_cons, List.foldl_cons]
    by_cases h : ind ≥ bound
    · have : bound < ind + (r.length + 1) := by omega
      simp [h, this]
    · rw [if_neg h, posStopLoop_spec m bound r (ind + 1) _ (by omega)]
      have e : ind + 1 + r.length = ind + (r.length + 1) := by omega
      rw [e]

/-! ### `fill_into` -/

/-- the two shapes of the `fill_into` state, in terms of the `islice` loop variables `next`, `cnt`:
either the next index still has to be fetched (`_index > _next_index`), or it has been fetched
(`_next_index = next`, already checked against `stop`) and `_index` has not reached it yet -/
def FillGood (stop : Option Nat) (step next cnt : Nat) (s : FillState) : Prop :=
  s.index = cnt ∧ cnt ≤ next ∧
    ((s.nextIndex1 ≤ cnt ∧ s.pendingIdx = next) ∨
     (s.nextIndex1 = next + 1 ∧ s.pendingIdx = next + step ∧ ∀ st, stop = some st → next < st))

theorem fillGood_init (stop : Option Nat) (step start : Nat) :
    FillGood stop step start 0 (fillInit start) :=
  ⟨rfl, Nat.zero_le _, Or.inl ⟨Nat.le_refl _, rfl⟩⟩

/-- one `fill_into` call, related to one round of the `islice` loop -/
theorem fillInto_step (stop : Option Nat) (step : Nat) (hs : 1 ≤ step) (next cnt : Nat) (s : FillState)
    (h : FillGood stop step next cnt s) :
    ((∃ st, stop = some st ∧ st ≤ next) ∧ s.nextIndex1 ≤ cnt ∧ (fillInto stop step s).2 = .stopFill) ∨
    ((∀ st, stop = some st → next < st) ∧
      ((cnt = next ∧ (fillInto stop step s).2 = .filled
          ∧ FillGood stop step (next + step) (cnt + 1) (fillInto stop step s).1) ∨
       (cnt ≠ next ∧ (fillInto stop step s).2 = .skipped
          ∧ FillGood stop step next (cnt + 1) (fillInto stop step s).1))) := by
  obtain ⟨idx, ni, pi⟩ := s
  obtain ⟨hi, hle, hAB⟩ := h
  simp only at hi hAB
  subst hi
  -- the tail, for a state whose `_next_index` is `next`
  have tail : ∀ (p : Nat), (∀ st, stop = some st → next < st) → p = next + step →
      ((idx = next ∧ (fillTail ⟨idx, next + 1, p⟩).2 = .filled
          ∧ FillGood stop step (next + step) (idx + 1) (fillTail ⟨idx, next + 1, p⟩).1) ∨
       (idx ≠ next ∧ (fillTail ⟨idx, next + 1, p⟩).2 = .skipped
          ∧ FillGood stop step next (idx + 1) (fillTail ⟨idx, next + 1, p⟩).1)) := by
    intro p hlt hp
    by_cases he : idx = next
    · left
      have : (idx + 1 == next + 1) = true := by simp [he]
      simp only [fillTail, this, if_true]
      exact ⟨he, trivial, rfl, by omega, Or.inl ⟨by simp only []; omega, hp⟩⟩
    · right
      have : (idx + 1 == next + 1) = false := by simp [he]
      simp only [fillTail, this, Bool.false_eq_true, if_false]
      exact ⟨he, trivial, rfl, by omega, Or.inr ⟨rfl, hp, hlt⟩⟩
  rcases hAB with ⟨hn, hp⟩ | ⟨hn, hp, hlt⟩
  · -- the next index has to be fetched
    subst hp
    have hfetch : idx + 1 > ni := by omega
    simp only [fillInto, hfetch, if_true, nextIndices]
    cases hstop : stop with
    | some st =>
      by_cases hge : st ≤ pi
      · left
        have : pi ≥ st := hge
        simp only [this, if_true]
        exact ⟨⟨st, rfl, hge⟩, hn, trivial⟩
      · right
        have : ¬ (pi ≥ st) := hge
        simp only [this, if_false]
        have hlt : ∀ st', stop = some st' → pi < st' := by
          intro st' h'; rw [hstop] at h'; cases h'; omega
        rw [← hstop]
        exact ⟨hlt, tail (pi + step) hlt rfl⟩
    | none =>
      right
      simp only []
      have hlt : ∀ st', stop = some st' → pi < st' := by
        intro st' h'; rw [hstop] at h'; cases h'
      rw [← hstop]
      exact ⟨hlt, tail (pi + step) hlt rfl⟩
  · -- `_next_index = next` is known and `_index ≤ next`
    right
    subst hn
    have hnofetch : ¬ (idx + 1 > next + 1) := by omega
    simp only [fillInto, hnofetch, if_false]
    exact ⟨hlt, tail pi hlt hp⟩

theorem isliceGo_stop (step next cnt st : Nat) (h : st ≤ next) (x : α) (rest : List α) :
    isliceGo (some st) step next cnt (x :: rest) = [] := by
  have : next ≥ st := h
  simp [isliceGo, this]

theorem isliceGo_emit (stop : Option Nat) (step next : Nat) (hlt : ∀ st, stop = some st → next < st)
    (x : α) (rest : List α) :
    isliceGo stop step next next (x :: rest) = x :: isliceGo stop step (next + step) (next + 1) rest := by
  cases stop with
  | none => simp [isliceGo]
  | some st =>
    have : ¬ (next ≥ st) := by have := hlt st rfl; omega
    simp [isliceGo, this]

theorem isliceGo_skip (stop : Option Nat) (step next cnt : Nat) (hlt : ∀ st, stop = some st → next < st)
    (hne : cnt ≠ next) (x : α) (rest : List α) :
    isliceGo stop step next cnt (x :: rest) = isliceGo stop step next (cnt + 1) rest := by
  cases stop with
  | none => simp [isliceGo, hne]
  | some st =>
    have : ¬ (next ≥ st) := by have := hlt st rfl; omega
    simp [isliceGo, this, hne]

/-- the values `fill_into` passes on are those `islice` would emit -/
theorem fillAll_values (stop : Option Nat) (step : Nat) (hs : 1 ≤ step) :
    ∀ (xs : List α) (next cnt : Nat) (s : FillState), FillGood stop step next cnt s →
      (fillAll stop step s cnt xs).1 = isliceGo stop step next cnt xs
  | [], _, _, _, _ => by simp [fillAll, isliceGo]
  | x :: rest, next, cnt, s, hg => by
    have hstep := fillInto_step stop step hs next cnt s hg
    generalize hfi : fillInto stop step s = r at hstep
    obtain ⟨s', o⟩ := r
    simp only at hstep
    rcases hstep with ⟨⟨st, rfl, hle⟩, _, rfl⟩ | ⟨hlt, ⟨rfl, rfl, hg'⟩ | ⟨hne, rfl, hg'⟩⟩
    · simp only [fillAll, hfi]
      rw [isliceGo_stop _ _ _ _ hle]
    · simp only [fillAll, hfi]
      rw [isliceGo_emit stop step cnt hlt, fillAll_values stop step hs rest _ _ s' hg']
    · simp only [fillAll, hfi]
      rw [isliceGo_skip stop step next cnt hlt hne, fillAll_values stop step hs rest _ _ s' hg']

/-- where `LenaStopFill` can be raised: at some index `j ≥ cnt`, only with a finite `stop`, and then the
arithmetic progression `next, next+step, …` has left `[0, stop)` at a term all of whose predecessors
are `< j` -/
theorem fillAll_stop (stop : Option Nat) (step : Nat) (hs : 1 ≤ step) :
    ∀ (xs : List α) (next cnt : Nat) (s : FillState), FillGood stop step next cnt s →
      ∀ j, (fillAll stop step s cnt xs).2 = some j →
        ∃ st k, stop = some st ∧ st ≤ next + k * step ∧ cnt ≤ j ∧ (k = 0 ∨ next + (k - 1) * step < j)
  | [], _, _, _, _ => by simp [fillAll]
  | x :: rest, next, cnt, s, hg => by
    intro j hj
    have hstep := fillInto_step stop step hs next cnt s hg
    generalize hfi : fillInto stop step s = r at hstep
    obtain ⟨s', o⟩ := r
    simp only at hstep
    rcases hstep with ⟨⟨st, rfl, hle⟩, _, rfl⟩ | ⟨hlt, ⟨rfl, rfl, hg'⟩ | ⟨hne, rfl, hg'⟩⟩
    · simp only [fillAll, hfi, Option.some.injEq] at hj
      exact ⟨st, 0, rfl, by omega, by omega, Or.inl rfl⟩
    · simp only [fillAll, hfi] at hj
      obtain ⟨st, k, h1, h2, h3, h4⟩ := fillAll_stop stop step hs rest _ _ s' hg' j hj
      refine ⟨st, k + 1, h1, ?_, by omega, Or.inr ?_⟩
      · rw [Nat.succ_mul]; omega
      · by_cases hk0 : k = 0
        · subst hk0; simp; omega
        · have h4 : cnt + step + (k - 1) * step < j := by omega
          obtain ⟨k', rfl⟩ : ∃ k', k = k' + 1 := ⟨k - 1, by omega⟩
          simp only [Nat.add_sub_cancel] at h4 ⊢
          rw [Nat.succ_mul]; omega
    · simp only [fillAll, hfi] at hj
      obtain ⟨st, k, h1, h2, h3, h4⟩ := fillAll_stop stop step hs rest _ _ s' hg' j hj
      exact ⟨st, k, h1, h2, by omega, h4⟩

end Lena.C17
