import LenaModel.Lemmas.C12
import LenaModel.Model.C12Spec
import LenaModel.Lemmas.C12Hist
/-! # C12 — lemmas about the CSV part of the model: the rows of `hist1d_to_csv` and `hist2d_to_csv` as list
functions of edges and contents.  Core Lean only. -/
namespace Lena.C12
open Lena Lena.NArr

/-! ### CSV rows of one-dimensional histograms -/

theorem rows1dLoop_spec (vals : List Q) : ∀ (xs : List Q) (k : Nat), xs.length ≤ (vals.drop k).length →
    rows1dLoop (vals.map .leaf) xs k = .ok (List.zipWith (fun x v => [x, v]) xs (vals.drop k))
  | [], k, _ => by simp [rows1dLoop]
  | x :: xs, k, h => by
    have hk : k < vals.length := by simp at h; omega
    have hd : vals.drop k = vals[k] :: vals.drop (k + 1) := by
      rw [List.drop_eq_getElem_cons hk]
    have ih := rows1dLoop_spec vals xs (k + 1) (by simp at h ⊢; omega)
    have hget : (vals.map NArr.leaf)[k]? = some (.leaf vals[k]) := by simp [List.getElem?_eq_getElem hk]
    rw [hd]
    simp only [rows1dLoop, hget, cellNumber, ih, bind, Except.bind, pure, Except.pure, List.zipWith_cons_cons]

/-- `hist1d_to_csv`: one row `(lower edge, content)` per bin, in order, plus — when `duplicate_last_bin` — one
row `(last edge, content of the last bin)`.  Any number of bins. -/
theorem rows1d_spec (xs vals : List Q) (xLast vLast : Q) (vs : List Q) (hv : vals = vs ++ [vLast])
    (hlen : xs.length = vals.length) (dup : Bool) :
    rows1d (xs ++ [xLast]) (bins1d vals) dup =
      .ok (List.zipWith (fun x v => [x, v]) xs vals ++ (if dup then [[xLast, vLast]] else [])) := by
  have hl := rows1dLoop_spec vals xs 0 (by simp [hlen])
  simp only [List.drop_zero] at hl
  have hg : (vals.map NArr.leaf).getLast? = some (.leaf vLast) := by simp [hv]
  cases dup <;>
    simp [rows1d, bins1d, hl, hg, cellNumber, bind, Except.bind, pure, Except.pure]

/-! ### CSV rows of two-dimensional histograms -/

theorem cell2d_spec (vals : List (List Q)) (i j : Nat) (r : List Q) (v : Q) (hr : vals[i]? = some r)
    (hv : r[j]? = some v) : cell2d (bins2d vals) i j = .ok v := by
  simp [cell2d, bins2d, bins1d, hr, hv]

theorem rows2dInner_spec (vals : List (List Q)) (x : Q) (i : Nat) (r : List Q) (hr : vals[i]? = some r) :
    ∀ (ys : List Q) (j : Nat) (last : Option Q), (r.drop j).length = ys.length →
      rows2dInner (bins2d vals) x i ys j last =
        .ok (List.zipWith (fun y v => [x, y, v]) ys (r.drop j), if ys = [] then last else r.getLast?)
  | [], j, last, _ => by simp [rows2dInner]
  | y :: ys, j, last, h => by
    have hj : j < r.length := by simp at h; omega
    have hd : r.drop j = r[j] :: r.drop (j + 1) := by rw [List.drop_eq_getElem_cons hj]
    have hc := cell2d_spec vals i j r r[j] hr (List.getElem?_eq_getElem hj)
    have ih := rows2dInner_spec vals x i r hr ys (j + 1) (some r[j]) (by simp at h ⊢; omega)
    simp only [rows2dInner, hc, ih, bind, Except.bind, pure, Except.pure, hd, List.zipWith_cons_cons]
    congr 2
    by_cases hys : ys = []
    · subst hys
      have hjl : j + 1 = r.length := by simp at h; omega
      simp
      rw [List.getLast?_eq_getElem?]
      have : r.length - 1 = j := by omega
      rw [this, List.getElem?_eq_getElem hj]
    · simp [hys]

theorem rows2dOuter_spec (vals : List (List Q)) (ys : List Q) (yLast : Q) (dup : Bool) (hys : ys ≠ [])
    (hv : ∀ r ∈ vals, r.length = ys.length) :
    ∀ (xs : List Q) (k : Nat) (last : Option Q) (lastX : Option Nat), xs.length = (vals.drop k).length →
      rows2dOuter (bins2d vals) ys (some yLast) dup xs k last lastX =
        .ok ((List.zipWith (rowsFor ys yLast dup) xs (vals.drop k)).flatten,
          if xs = [] then last else (vals.getLast?.bind List.getLast?),
          if xs = [] then lastX else some (k + xs.length - 1))
  | [], k, last, lastX, _ => by simp [rows2dOuter]
  | x :: xs, k, last, lastX, h => by
    have hk : k < vals.length := by simp at h; omega
    have hd : vals.drop k = vals[k] :: vals.drop (k + 1) := by rw [List.drop_eq_getElem_cons hk]
    have hrlen : vals[k].length = ys.length := hv _ (List.getElem_mem hk)
    have hin := rows2dInner_spec vals x k vals[k] (List.getElem?_eq_getElem hk) ys 0 last (by simpa using hrlen)
    simp only [List.drop_zero, hys, if_false] at hin
    have hne : vals[k] ≠ [] := by
      intro h0; rw [h0] at hrlen; exact hys (List.length_eq_zero_iff.1 hrlen.symm)
    obtain ⟨vl, hvl⟩ : ∃ vl, vals[k].getLast? = some vl := by
      cases hg : vals[k].getLast? with
      | none => exact absurd (List.getLast?_eq_none_iff.1 hg) hne
      | some vl => exact ⟨vl, rfl⟩
    have ih := rows2dOuter_spec vals ys yLast dup hys hv xs (k + 1) (some vl) (some k)
      (by simp at h ⊢; omega)
    have hlast : (if xs = [] then some vl else vals.getLast?.bind List.getLast?) =
        vals.getLast?.bind List.getLast? := by
      by_cases hxs : xs = []
      · subst hxs
        have hkl : k + 1 = vals.length := by simp at h; omega
        rw [List.getLast?_eq_getElem?]
        have : vals.length - 1 = k := by omega
        rw [this, List.getElem?_eq_getElem hk]
        simp [hvl]
      · simp [hxs]
    have hlx : (if xs = [] then some k else some (k + 1 + xs.length - 1)) = some (k + (xs.length + 1) - 1) := by
      by_cases hxs : xs = []
      · simp [hxs]
      · have : xs.length ≠ 0 := by simpa using hxs
        simp [hxs]
    have hz : ∀ d, (List.zipWith (rowsFor ys yLast d) (x :: xs) (List.drop k vals)).flatten =
        rowsFor ys yLast d x vals[k] ++ (List.zipWith (rowsFor ys yLast d) xs (List.drop (k + 1) vals)).flatten := by
      intro d; rw [hd]; rfl
    cases dup
    · simp only [rows2dOuter, hin, hvl, ih, dupRow, bind, Except.bind, pure, Except.pure, hlast, hlx, hz]
      simp [rowsFor]
    · simp only [rows2dOuter, hin, hvl, ih, dupRow, bind, Except.bind, pure, Except.pure, hlast, hlx, hz]
      simp [rowsFor, hvl]

/-- `hist2d_to_csv`: for every `x` bin in order, one row `(x, y, content)` per `y` bin in order, plus — when
`duplicate_last_bin` — the last of them repeated at the last `y` edge; then, when `duplicate_last_bin`, the rows of
the last `x` bin repeated at the last `x` edge.  Any numbers of bins. -/
theorem rows2d_spec (xs ys : List Q) (xLast yLast : Q) (vals : List (List Q)) (vs : List (List Q)) (rLast : List Q)
    (hvals : vals = vs ++ [rLast]) (hx : xs.length = vals.length) (hys : ys ≠ [])
    (hv : ∀ r ∈ vals, r.length = ys.length) (dup : Bool) :
    rows2d (xs ++ [xLast]) (ys ++ [yLast]) (bins2d vals) dup =
      .ok ((List.zipWith (rowsFor ys yLast dup) xs vals).flatten ++
        (if dup then rowsFor ys yLast true xLast rLast else [])) := by
  have hxs : xs ≠ [] := by
    intro h0; rw [h0, hvals] at hx; simp at hx
  have ho := rows2dOuter_spec vals ys yLast dup hys hv xs 0 none none (by simpa using hx)
  simp only [List.drop_zero, hxs, if_false] at ho
  have hlastrow : vals.getLast? = some rLast := by simp [hvals]
  have hrl : rLast.length = ys.length := hv rLast (by simp [hvals])
  have hrne : rLast ≠ [] := by
    intro h0; rw [h0] at hrl; exact hys (List.length_eq_zero_iff.1 hrl.symm)
  obtain ⟨vl, hvl⟩ : ∃ vl, rLast.getLast? = some vl := by
    cases hg : rLast.getLast? with
    | none => exact absurd (List.getLast?_eq_none_iff.1 hg) hrne
    | some vl => exact ⟨vl, rfl⟩
  have hxl : xs.length ≠ 0 := by simpa using hxs
  have hidx : vals[0 + xs.length - 1]? = some rLast := by
    rw [hvals] at hx ⊢
    simp at hx
    rw [List.getElem?_append_right (by omega)]
    have : 0 + xs.length - 1 - vs.length = 0 := by omega
    rw [this]; rfl
  simp only [rows2d, List.dropLast_concat, List.getLast?_concat, ho, bind, Except.bind, hlastrow, Option.bind_some,
    hvl]
  cases dup with
  | false => simp [pure, Except.pure]
  | true =>
    have hin := rows2dInner_spec vals xLast (0 + xs.length - 1) rLast hidx ys 0 (some vl) (by simpa using hrl)
    simp only [List.drop_zero, hys, if_false, Nat.zero_add] at hin
    simp [hin, hvl, dupRow, rowsFor, pure, Except.pure]

/-! ### counting rows -/

theorem rowsFor_length (ys : List Q) (yLast : Q) (dup : Bool) (x : Q) (r : List Q) (hr : r.length = ys.length)
    (hys : ys ≠ []) : (rowsFor ys yLast dup x r).length = ys.length + (if dup then 1 else 0) := by
  have hrne : r ≠ [] := by
    intro h0; rw [h0] at hr; exact hys (List.length_eq_zero_iff.1 hr.symm)
  obtain ⟨v, hv⟩ : ∃ v, r.getLast? = some v := by
    cases hg : r.getLast? with
    | none => exact absurd (List.getLast?_eq_none_iff.1 hg) hrne
    | some v => exact ⟨v, rfl⟩
  cases dup <;> simp [rowsFor, hr, hv]

theorem flatten_zipWith_length (f : Q → List Q → List (List Q)) (m : Nat) : ∀ (xs : List Q) (vals : List (List Q)),
    xs.length = vals.length → (∀ x, ∀ r ∈ vals, (f x r).length = m) →
    (List.zipWith f xs vals).flatten.length = xs.length * m
  | [], _, _, _ => by simp
  | _ :: _, [], h, _ => by simp at h
  | x :: xs, r :: vals, h, hm => by
    have ih := flatten_zipWith_length f m xs vals (by simpa using h) (fun x r hr => hm x r (List.mem_cons_of_mem _ hr))
    simp only [List.zipWith_cons_cons, List.flatten_cons, List.length_append, ih, hm x r List.mem_cons_self,
      List.length_cons]
    rw [Nat.add_mul]; omega

/-! ### CSV rows and the cells of `iter_bins` -/

theorem cellsFrom_leaves : ∀ (l : List Q) (k : Nat),
    cellsFrom k (l.map NArr.leaf) = (l.zipIdx k).map (fun p => ([p.2], p.1))
  | [], _ => by simp [cellsFrom]
  | v :: l, k => by simp [cellsFrom, cells, List.zipIdx_cons, cellsFrom_leaves l (k + 1)]

theorem cells_bins1d (vals : List Q) : cells (bins1d vals) = vals.zipIdx.map (fun p => ([p.2], p.1)) := by
  simp [bins1d, cells, cellsFrom_leaves vals 0]

theorem rows1d_eq_cells (xLast : Q) : ∀ (vals pre xs : List Q), xs.length = vals.length →
    List.zipWith (fun x v => [x, v]) xs vals =
      (vals.zipIdx pre.length).map (fun p => cellRow [pre ++ xs ++ [xLast]] ([p.2], p.1))
  | [], _, xs, h => by
    have : xs = [] := List.length_eq_zero_iff.1 (by simpa using h)
    simp [this]
  | v :: vals, pre, [], h => by simp at h
  | v :: vals, pre, x :: xs, h => by
    have ih := rows1d_eq_cells xLast vals (pre ++ [x]) xs (by simpa using h)
    simp only [List.zipWith_cons_cons, List.zipIdx_cons, List.map_cons, ih]
    congr 1
    · simp [cellRow, cellEdgesRef, List.getD_eq_getElem?_getD]
    · simp [List.append_assoc]

theorem rows2d_eq_cells (ys : List Q) (xLast yLast : Q) : ∀ (vals : List (List Q)) (pre xs : List Q),
    xs.length = vals.length → (∀ r ∈ vals, r.length = ys.length) →
    (List.zipWith (rowsFor ys yLast false) xs vals).flatten =
      (cellsFrom pre.length (vals.map bins1d)).map (cellRow [pre ++ xs ++ [xLast], ys ++ [yLast]])
  | [], _, xs, h, _ => by
    have : xs = [] := List.length_eq_zero_iff.1 (by simpa using h)
    simp [this, cellsFrom]
  | r :: vals, pre, [], h, _ => by simp at h
  | r :: vals, pre, x :: xs, h, hr => by
    have ih := rows2d_eq_cells ys xLast yLast vals (pre ++ [x]) xs (by simpa using h)
      (fun r' hr' => hr r' (List.mem_cons_of_mem _ hr'))
    have h1 := rows1d_eq_cells yLast r [] ys (hr r List.mem_cons_self).symm
    simp only [List.zipWith_cons_cons, List.flatten_cons, List.map_cons, cellsFrom, List.map_append, ih]
    congr 1
    · simp only [rowsFor, Bool.false_eq_true, if_false, List.append_nil, cells_bins1d, List.map_map]
      have h2 : List.zipWith (fun y v => [x, y, v]) ys r = (List.zipWith (fun y v => [y, v]) ys r).map (x :: ·) := by
        rw [List.map_zipWith]
      rw [h2, h1, List.map_map]
      apply List.map_congr_left
      intro p _
      simp [cellRow, cellEdgesRef, List.getD_eq_getElem?_getD]
    · simp [List.append_assoc]

end Lena.C12
