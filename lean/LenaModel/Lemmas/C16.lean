import LenaModel.Model.C16
/-! # C16 — helper lemmas

The invariant of the `fill`/`request` state machine, the commutation lemma
`fill; request = request; fill; request`, the fill-by-fill reference `blocks`, and the list lemmas
that connect it to the block loops of `run`. -/

namespace Lena.C16

variable {σ α β : Type}

/-! ### the invariant -/

/-- the state right after `request()` (and of a fresh adapter): fewer than `N` values in the
element, both buffers empty -/
def Normal (N : Nat) (s : St σ α β) : Prop := s.nCount < N ∧ s.bufIn = [] ∧ s.bufOut = []

/-- the invariant of `fill`/`request` (the comment in `FillRequest.fill`): `_n_count` never
exceeds `bufsize`; only the buffer of the chosen mode is used; values are buffered only behind
a complete block -/
def FRInv (N : Nat) (bi : Bool) (s : St σ α β) : Prop :=
  s.nCount ≤ N ∧ (bi = true → s.bufOut = []) ∧ (bi = false → s.bufIn = []) ∧ (s.bufIn ≠ [] → s.nCount = N)

theorem init_normal (N : Nat) (hN : 0 < N) (el : σ) : Normal N (St.init el : St σ α β) :=
  ⟨hN, rfl, rfl⟩

theorem normal_inv {N : Nat} (bi : Bool) {s : St σ α β} (h : Normal N s) : FRInv N bi s := by
  obtain ⟨h1, h2, h3⟩ := h
  exact ⟨by omega, fun _ => h3, fun _ => h2, fun hb => absurd h2 hb⟩

section
variable (e : El σ α β) (N : Nat) (rst bi yor : Bool)

theorem drain_append (a b : List α) (s : St σ α β) :
    drain e N rst (a ++ b) s =
      ((drain e N rst a s).1 ++ (drain e N rst b (drain e N rst a s).2).1,
       (drain e N rst b (drain e N rst a s).2).2) := by
  induction a generalizing s with
  | nil => simp [drain]
  | cons x r ih =>
    simp only [List.cons_append, drain]
    split
    · simp only [ih]
      simp [List.append_assoc]
    · simp only [ih]

/-- draining from a state below the block size keeps the state below the block size -/
theorem drain_normal (hN : 0 < N) (l : List α) (s : St σ α β)
    (h : s.nCount < N) (hb : s.bufIn = []) (ho : s.bufOut = []) :
    Normal N (drain e N rst l s).2 := by
  induction l generalizing s with
  | nil => simp [drain, Normal, h, hb, ho]
  | cons x r ih =>
    simp only [drain]
    split
    · exact ih _ (by simpa [emit] using hN) (by simpa [emit] using hb) (by simpa [emit] using ho)
    · rename_i hne
      exact ih _ (by simp at hne ⊢; omega) (by simpa using hb) (by simpa using ho)

/-- `request()` on a state below the block size with empty buffers does nothing
(`yield_on_remainder` off) -/
theorem request_normal (s : St σ α β) (h : Normal N s) : requestR e N rst bi false s = ([], s) := by
  obtain ⟨h1, h2, h3⟩ := h
  have hne : ¬ s.nCount = N := by omega
  cases s with
  | mk el n bin bout =>
    simp only at h1 h2 h3 hne
    subst h2 h3
    cases bi <;> simp [requestR, hne, drain]

/-- after `request()` fewer than `bufsize` values are pending and the buffers are empty;
with `yield_on_remainder` nothing is pending -/
theorem request_yields_normal (hN : 0 < N) (s : St σ α β) (h : FRInv N bi s) :
    Normal N (requestR e N rst bi yor s).2 ∧ (yor = true → (requestR e N rst bi yor s).2.nCount = 0) := by
  obtain ⟨h1, h2, h3, h4⟩ := h
  -- the state before the last step of `request`
  have key : ∀ (t : St σ α β), Normal N t →
      Normal N (if (yor && t.nCount != 0) = true then emit e rst t else ([], t)).2 ∧
      (yor = true → (if (yor && t.nCount != 0) = true then emit e rst t else ([], t)).2.nCount = 0) := by
    intro t ht
    obtain ⟨t1, t2, t3⟩ := ht
    by_cases hc : (yor && t.nCount != 0) = true
    · rw [if_pos hc]
      exact ⟨⟨hN, t2, t3⟩, fun _ => rfl⟩
    · simp only [hc]
      refine ⟨⟨t1, t2, t3⟩, fun hy => ?_⟩
      subst hy
      simpa using hc
  cases bi with
  | true =>
    have hb := h2 rfl
    simp only [requestR, if_true]
    apply key
    by_cases hn : s.nCount = N
    · simp only [hn, if_true]
      exact drain_normal e N rst hN _ _ (by simpa [emit] using hN) (by simp [emit]) (by simpa [emit] using hb)
    · simp only [hn, if_false]
      exact drain_normal e N rst hN _ _ (by simp; omega) (by simp) (by simpa using hb)
  | false =>
    have hb := h3 rfl
    simp only [requestR, Bool.false_eq_true, if_false]
    apply key
    by_cases hn : s.nCount = N
    · simp [hn, emit, Normal, hN, hb]
    · simp [hn, Normal, hb]; omega

theorem fill_inv (hN : 0 < N) (s : St σ α β) (x : α) (h : FRInv N bi s) :
    FRInv N bi (fillR e N rst bi s x) := by
  obtain ⟨h1, h2, h3, h4⟩ := h
  unfold fillR
  by_cases hn : s.nCount = N
  · cases bi with
    | true => simp [hn, FRInv, h2 rfl]
    | false => simp [hn, FRInv, emit, h3 rfl]; omega
  · simp only [hn, if_false]
    have hb : s.bufIn = [] := by
      by_cases hb : s.bufIn = []
      · exact hb
      · exact absurd (h4 hb) hn
    refine ⟨by simp; omega, ?_, ?_, ?_⟩
    · intro hbi; simpa using h2 hbi
    · intro _; simpa using hb
    · intro hne; simp [hb] at hne

/-- the invariant holds in every reachable state -/
theorem runOps_inv (hN : 0 < N) : ∀ (ops : List (Op α)) (s : St σ α β), FRInv N bi s →
    FRInv N bi (runOps e N rst bi yor ops s).2
  | [], s, h => by simpa [runOps] using h
  | .fill x :: r, s, h => by
    simp only [runOps]
    exact runOps_inv hN r _ (fill_inv e N rst bi hN s x h)
  | .request :: r, s, h => by
    simp only [runOps]
    exact runOps_inv hN r _ (normal_inv bi (request_yields_normal e N rst bi yor hN s h).1)

theorem runOps_append (a b : List (Op α)) (s : St σ α β) :
    runOps e N rst bi yor (a ++ b) s =
      ((runOps e N rst bi yor a s).1 ++ (runOps e N rst bi yor b (runOps e N rst bi yor a s).2).1,
       (runOps e N rst bi yor b (runOps e N rst bi yor a s).2).2) := by
  induction a generalizing s with
  | nil => simp [runOps]
  | cons o r ih =>
    cases o with
    | fill x => simp only [List.cons_append, runOps, ih]
    | request => simp only [List.cons_append, runOps, ih, List.cons_append]

theorem fills_append (a b : List (Op α)) : fills (a ++ b) = fills a ++ fills b := by
  induction a with
  | nil => rfl
  | cons o r ih => cases o <;> simp [fills, ih]

theorem fills_map_fill (xs : List α) : fills (xs.map Op.fill) = xs := by
  induction xs with
  | nil => rfl
  | cons x r ih => simp [fills, ih]

/-- fill then request equals request, then fill-and-request on the normalised state -/
theorem fill_request_commute (hN : 0 < N) (s : St σ α β) (x : α) (h : FRInv N bi s) :
    requestR e N rst bi false (fillR e N rst bi s x) =
      ((requestR e N rst bi false s).1 ++
          (requestR e N rst bi false (fillR e N rst bi (requestR e N rst bi false s).2 x)).1,
       (requestR e N rst bi false (fillR e N rst bi (requestR e N rst bi false s).2 x)).2) := by
  obtain ⟨h1, h2, h3, h4⟩ := h
  cases s with
  | mk el n bin bout =>
  simp only at h1 h2 h3 h4
  cases bi with
  | false =>
    have hb : bin = [] := h3 rfl
    subst hb
    by_cases hn : n = N
    · subst hn
      by_cases h1N : 1 = n
      · subst h1N
        simp [requestR, fillR, emit]
      · have : ¬ (0 : Nat) = n := by omega
        simp [requestR, fillR, emit, h1N, this]
    · have hn' : ¬ n = N := hn
      by_cases hn1 : n + 1 = N
      · simp [requestR, fillR, emit, hn', hn1]
      · simp [requestR, fillR, emit, hn', hn1]
  | true =>
    have hb : bout = [] := h2 rfl
    subst hb
    by_cases hn : n = N
    · subst hn
      have hne : ¬ (0 : Nat) = n := by omega
      simp only [requestR, fillR, if_true, emit]
      rw [drain_append]
      have hnorm := drain_normal e n rst hN bin
        ({ el := if rst = true then e.reset (e.req el).2 else (e.req el).2, nCount := 0, bufIn := [], bufOut := [] } : St σ α β)
        (by simpa using hN) rfl rfl
      generalize drain e n rst bin
        ({ el := if rst = true then e.reset (e.req el).2 else (e.req el).2, nCount := 0, bufIn := [], bufOut := [] } : St σ α β) = D at hnorm ⊢
      obtain ⟨o, t⟩ := D
      cases t with
      | mk tel tn tbin tbout =>
        obtain ⟨d1, d2, d3⟩ := hnorm
        simp only at d1 d2 d3
        subst d2 d3
        have hd : ¬ tn = n := by omega
        by_cases hn1 : tn + 1 = n
        · simp [hd, hn1, drain, emit]
        · simp [hd, hn1, drain, emit]
    · have hbin : bin = [] := by
        by_cases hb : bin = []
        · exact hb
        · exact absurd (h4 hb) hn
      subst hbin
      by_cases hn1 : n + 1 = N
      · simp [requestR, fillR, emit, hn, hn1, drain]
      · simp [requestR, fillR, emit, hn, hn1, drain]

/-! ### "request after every fill" and the fill-by-fill reference -/

/-- request after every fill -/
def specN : List α → St σ α β → List β × St σ α β
  | [], t => ([], t)
  | x :: r, t =>
    let p := requestR e N rst bi false (fillR e N rst bi t x)
    let q := specN r p.2
    (p.1 ++ q.1, q.2)

/-- any schedule of fills and requests, closed by a final request, yields what
"request after every fill" yields on the same values, and ends in the same state -/
theorem schedule_specN (hN : 0 < N) : ∀ (ops : List (Op α)) (s : St σ α β), FRInv N bi s →
    ((runOps e N rst bi false ops s).1.flatten ++ (requestR e N rst bi false (runOps e N rst bi false ops s).2).1 =
        (requestR e N rst bi false s).1 ++ (specN e N rst bi (fills ops) (requestR e N rst bi false s).2).1) ∧
    ((requestR e N rst bi false (runOps e N rst bi false ops s).2).2 =
        (specN e N rst bi (fills ops) (requestR e N rst bi false s).2).2)
  | [], s, _ => by simp [runOps, fills, specN]
  | .fill x :: r, s, h => by
    have ih := schedule_specN hN r (fillR e N rst bi s x) (fill_inv e N rst bi hN s x h)
    have hc := fill_request_commute e N rst bi hN s x h
    simp only [runOps, fills, specN]
    rw [hc] at ih
    simp only at ih
    constructor
    · rw [ih.1]; simp [List.append_assoc]
    · rw [ih.2]
  | .request :: r, s, h => by
    have hn := (request_yields_normal e N rst bi false hN s h).1
    have ih := schedule_specN hN r (requestR e N rst bi false s).2 (normal_inv bi hn)
    have hr := request_normal e N rst bi _ hn
    simp only [runOps, fills, List.flatten_cons]
    rw [hr] at ih
    simp only [List.nil_append] at ih
    constructor
    · rw [List.append_assoc, ih.1]
    · rw [ih.2]

/-- Fill-by-fill reference for `yield_on_remainder` off: `n` values of the current block are in the
element; the `N`-th one completes the block, the element yields (and is reset iff `rst`).
Result: what was yielded, the element, the number of pending values. -/
def blocks : List α → σ → Nat → List β × σ × Nat
  | [], el, n => ([], el, n)
  | x :: r, el, n =>
    let el1 := e.fill el x
    if n + 1 = N then
      let q := e.req el1
      let p := blocks r (if rst then e.reset q.2 else q.2) 0
      (q.1 ++ p.1, p.2)
    else blocks r el1 (n + 1)

/-- on normal states, "request after every fill" is the fill-by-fill reference -/
theorem specN_blocks (hN : 0 < N) : ∀ (xs : List α) (el : σ) (n : Nat), n < N →
    specN e N rst bi xs { el := el, nCount := n, bufIn := [], bufOut := [] } =
      ((blocks e N rst xs el n).1,
       { el := (blocks e N rst xs el n).2.1, nCount := (blocks e N rst xs el n).2.2, bufIn := [], bufOut := [] })
  | [], el, n, _ => by simp [specN, blocks]
  | x :: r, el, n, h => by
    have hne : ¬ n = N := by omega
    by_cases hn1 : n + 1 = N
    · have ih := specN_blocks hN r (if rst then e.reset (e.req (e.fill el x)).2 else (e.req (e.fill el x)).2) 0 hN
      cases bi <;> simp [specN, blocks, requestR, fillR, emit, hne, hn1, drain, ih]
    · have ih := specN_blocks hN r (e.fill el x) (n + 1) (by omega)
      cases bi <;> simp [specN, blocks, requestR, fillR, emit, hne, hn1, drain, ih]

theorem blocks_fold : ∀ (a b : List α) (el : σ) (n : Nat), n + a.length < N →
    blocks e N rst (a ++ b) el n = blocks e N rst b (a.foldl e.fill el) (n + a.length)
  | [], b, el, n, _ => by simp
  | x :: r, b, el, n, h => by
    have hne : ¬ n + 1 = N := by simp at h; omega
    simp only [List.cons_append, blocks, hne, if_false, List.foldl_cons, List.length_cons]
    rw [blocks_fold r b _ _ (by simp at h; omega)]
    congr 1; omega

/-- a complete block at the start: the element is filled with it, yields, is reset iff `rst` -/
theorem blocks_full (a b : List α) (el : σ) (ha : a.length = N) (hN : 0 < N) :
    blocks e N rst (a ++ b) el 0 =
      ((e.req (a.foldl e.fill el)).1 ++
        (blocks e N rst b (if rst then e.reset (e.req (a.foldl e.fill el)).2 else (e.req (a.foldl e.fill el)).2) 0).1,
       (blocks e N rst b (if rst then e.reset (e.req (a.foldl e.fill el)).2 else (e.req (a.foldl e.fill el)).2) 0).2) := by
  rcases List.eq_nil_or_concat a with rfl | ⟨l, x, rfl⟩
  · simp at ha; omega
  · have hl : l.length + 1 = N := by simpa using ha
    rw [List.concat_eq_append, List.append_assoc, blocks_fold e N rst l _ el 0 (by omega)]
    simp only [List.cons_append, List.nil_append, blocks, Nat.zero_add, hl, if_true, List.foldl_append,
      List.foldl_cons, List.foldl_nil]

/-- `_run_fill_compute` without `yield_on_remainder` is the fill-by-fill reference -/
theorem runFillCompute_blocks (hN : 0 < N) : ∀ (k : Nat) (xs : List α) (el : σ), xs.length ≤ k →
    runFillCompute e N rst false el xs = ((blocks e N rst xs el 0).1, (blocks e N rst xs el 0).2.1)
  | 0, xs, el, h => by
    have : xs = [] := List.length_eq_zero_iff.mp (by omega)
    subst this
    rw [runFillCompute]; simp [blocks]
  | k + 1, xs, el, h => by
    rw [runFillCompute]
    have hN0 : ¬ N = 0 := by omega
    simp only [hN0, dite_false]
    by_cases hx : xs = []
    · subst hx; simp [blocks]
    · simp only [hx, dite_false]
      have hpos : 0 < xs.length := List.length_pos_iff.mpr hx
      by_cases hlen : xs.length < N
      · -- a short flow: nothing is yielded
        have htake : xs.take N = xs := List.take_of_length_le (by omega)
        have hmod : xs.length % N ≠ 0 := by rw [Nat.mod_eq_of_lt hlen]; omega
        rw [htake]
        simp only [hmod, ne_eq, not_false_eq_true, if_true, Bool.false_eq_true, if_false]
        have := blocks_fold e N rst xs [] el 0 (by omega)
        simp only [List.append_nil, blocks] at this
        rw [this]
      · have htl : (xs.take N).length = N := by simp; omega
        have hmod : ¬ (xs.take N).length % N ≠ 0 := by simp [htl]
        simp only [hmod, if_false]
        have hsplit : xs = xs.take N ++ xs.drop N := (List.take_append_drop N xs).symm
        have ih := runFillCompute_blocks hN k (xs.drop N)
          (if rst then e.reset (e.req ((xs.take N).foldl e.fill el)).2 else (e.req ((xs.take N).foldl e.fill el)).2)
          (by simp; omega)
        rw [ih]
        conv => rhs; rw [hsplit, blocks_full e N rst _ _ el htl hN]

end

/-! ### list lemmas for the block loops -/

theorem chunks_nil (N : Nat) : chunks N ([] : List α) = [] := by
  rw [chunks]; simp

theorem chunks_cons (N : Nat) (hN : 0 < N) (xs : List α) (hx : xs ≠ []) :
    chunks N xs = xs.take N :: chunks N (xs.drop N) := by
  rw [chunks]
  have : ¬ N = 0 := by omega
  simp [this, hx]

/-- the blocks, concatenated, are the flow -/
theorem chunks_flatten (N : Nat) (hN : 0 < N) : ∀ (k : Nat) (xs : List α), xs.length ≤ k →
    (chunks N xs).flatten = xs
  | 0, xs, h => by
    have : xs = [] := List.length_eq_zero_iff.mp (by omega)
    subst this; simp [chunks_nil]
  | k + 1, xs, h => by
    by_cases hx : xs = []
    · subst hx; simp [chunks_nil]
    · have hpos : 0 < xs.length := List.length_pos_iff.mpr hx
      rw [chunks_cons N hN xs hx, List.flatten_cons, chunks_flatten N hN k _ (by simp; omega)]
      exact List.take_append_drop N xs

end Lena.C16
