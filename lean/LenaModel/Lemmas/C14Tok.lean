import LenaModel.Model.C14Tok
import LenaModel.Lemmas.C14
namespace Lena.C14.Tok
open Lena.C14

/-! # C14 token model — lemmas -/

/-- every token of the value satisfies `P` -/
def AllT (P : Nat → Prop) (v : TV) : Prop := ∀ t ∈ tokens v, P t
def AllL (P : Nat → Prop) (l : List TV) : Prop := ∀ t ∈ tokensL l, P t
def AllS (P : Nat → Prop) (l : TSlots) : Prop := ∀ t ∈ tokensS l, P t

theorem AllS_nil (P : Nat → Prop) : AllS P [] := by intro t ht; simp [tokensS] at ht

theorem AllS_cons {P : Nat → Prop} {x : Option TV} {r : TSlots} :
    AllS P (x :: r) ↔ (∀ v, x = some v → AllT P v) ∧ AllS P r := by
  cases x with
  | none => simp [AllS, tokensS]
  | some v =>
    simp only [AllS, AllT, tokensS, List.mem_append]
    constructor
    · intro h; exact ⟨fun w hw t ht => by cases hw; exact h t (Or.inl ht), fun t ht => h t (Or.inr ht)⟩
    · intro h t ht
      rcases ht with ht | ht
      · exact h.1 v rfl t ht
      · exact h.2 t ht

theorem AllL_cons {P : Nat → Prop} {x : TV} {r : List TV} : AllL P (x :: r) ↔ AllT P x ∧ AllL P r := by
  simp only [AllL, AllT, tokensL, List.mem_append]
  constructor
  · intro h; exact ⟨fun t ht => h t (Or.inl ht), fun t ht => h t (Or.inr ht)⟩
  · intro h t ht; rcases ht with ht | ht; exact h.1 t ht; exact h.2 t ht

theorem AllL_append {P : Nat → Prop} {a b : List TV} : AllL P (a ++ b) ↔ AllL P a ∧ AllL P b := by
  induction a with
  | nil => simp [AllL, tokensL]
  | cons x r ih => simp only [List.cons_append, AllL_cons, ih, and_assoc]

theorem AllT_list {P : Nat → Prop} {t : Nat} {l : List TV} : AllT P (.list t l) ↔ P t ∧ AllL P l := by
  simp [AllT, AllL, tokens]

theorem AllT_dict {P : Nat → Prop} {t : Nat} {l : TSlots} : AllT P (.dict t l) ↔ P t ∧ AllS P l := by
  simp [AllT, AllS, tokens]

theorem AllL_mem {P : Nat → Prop} {l : List TV} (h : AllL P l) {x : TV} (hx : x ∈ l) : AllT P x := by
  induction l with
  | nil => cases hx
  | cons y r ih =>
    rw [AllL_cons] at h
    cases hx with
    | head => exact h.1
    | tail _ hx => exact ih h.2 hx

theorem getT_nil (i : Nat) : getT [] i = none := by simp [getT]
theorem getT_cons_zero (x : Option TV) (r : TSlots) : getT (x :: r) 0 = x := by cases x <;> simp [getT]
theorem getT_cons_succ (x : Option TV) (r : TSlots) (i : Nat) : getT (x :: r) (i + 1) = getT r i := by simp [getT]

theorem AllS_getT {P : Nat → Prop} {l : TSlots} (h : AllS P l) {i : Nat} {x : TV} (hx : getT l i = some x) : AllT P x := by
  induction l generalizing i with
  | nil => simp [getT_nil] at hx
  | cons y r ih =>
    rw [AllS_cons] at h
    cases i with
    | zero => rw [getT_cons_zero] at hx; exact h.1 x hx
    | succ i => rw [getT_cons_succ] at hx; exact ih h.2 hx

theorem AllS_setT {P : Nat → Prop} {l : TSlots} (h : AllS P l) (i : Nat) {v : Option TV}
    (hv : ∀ x, v = some x → AllT P x) : AllS P (setT l i v) := by
  induction l generalizing i with
  | nil =>
    induction i with
    | zero => simp only [setT]; rw [AllS_cons]; exact ⟨hv, AllS_nil P⟩
    | succ i ih => simp only [setT]; rw [AllS_cons]; exact ⟨fun _ h => (by cases h), ih⟩
  | cons y r ih =>
    rw [AllS_cons] at h
    cases i with
    | zero => simp only [setT]; rw [AllS_cons]; exact ⟨hv, h.2⟩
    | succ i => simp only [setT]; rw [AllS_cons]; exact ⟨h.1, ih h.2 i⟩

theorem AllS_replicate (P : Nat → Prop) (n : Nat) : AllS P (List.replicate n none) := by
  induction n with
  | zero => exact AllS_nil P
  | succ n ih => rw [List.replicate_succ, AllS_cons]; exact ⟨fun _ h => (by cases h), ih⟩

theorem AllT.mono {P Q : Nat → Prop} (hpq : ∀ t, P t → Q t) {v : TV} (h : AllT P v) : AllT Q v :=
  fun t ht => hpq t (h t ht)
theorem AllS.mono {P Q : Nat → Prop} (hpq : ∀ t, P t → Q t) {l : TSlots} (h : AllS P l) : AllS Q l :=
  fun t ht => hpq t (h t ht)
theorem AllL.mono {P Q : Nat → Prop} (hpq : ∀ t, P t → Q t) {l : List TV} (h : AllL P l) : AllL Q l :=
  fun t ht => hpq t (h t ht)

/-! ## `copy.deepcopy`: every object of the copy is new, the value is the same -/

mutual
theorem deepcopyT_spec (next : Nat) : ∀ v : TV,
    next ≤ (deepcopyT next v).2 ∧ AllT (fun t => next ≤ t ∧ t < (deepcopyT next v).2) (deepcopyT next v).1 ∧
    erase (deepcopyT next v).1 = erase v
  | .int i => by simp [deepcopyT, AllT, tokens, erase]
  | .str s => by simp [deepcopyT, AllT, tokens, erase]
  | .tuple l => by
    have h := deepcopyL_spec next l
    simp only [deepcopyT]
    refine ⟨h.1, ?_, by simp [erase, h.2.2]⟩
    intro t ht
    exact h.2.1 t (by simpa [tokens] using ht)
  | .list k l => by
    have h := deepcopyL_spec (next + 1) l
    simp only [deepcopyT]
    refine ⟨by omega, ?_, by simp [erase, h.2.2]⟩
    rw [AllT_list]
    refine ⟨⟨Nat.le_refl _, by omega⟩, ?_⟩
    exact AllL.mono (fun t ht => ⟨by omega, ht.2⟩) h.2.1
  | .dict k l => by
    have h := deepcopyS_spec (next + 1) l
    simp only [deepcopyT]
    refine ⟨by omega, ?_, by simp [erase, h.2.2]⟩
    rw [AllT_dict]
    refine ⟨⟨Nat.le_refl _, by omega⟩, ?_⟩
    exact AllS.mono (fun t ht => ⟨by omega, ht.2⟩) h.2.1
theorem deepcopyL_spec (next : Nat) : ∀ l : List TV,
    next ≤ (deepcopyL next l).2 ∧ AllL (fun t => next ≤ t ∧ t < (deepcopyL next l).2) (deepcopyL next l).1 ∧
    eraseL (deepcopyL next l).1 = eraseL l
  | [] => by simp [deepcopyL, AllL, tokensL, eraseL]
  | x :: r => by
    have h1 := deepcopyT_spec next x
    have h2 := deepcopyL_spec (deepcopyT next x).2 r
    simp only [deepcopyL]
    refine ⟨by omega, ?_, by simp [eraseL, h1.2.2, h2.2.2]⟩
    rw [AllL_cons]
    exact ⟨AllT.mono (fun t ht => ⟨ht.1, by omega⟩) h1.2.1, AllL.mono (fun t ht => ⟨by omega, ht.2⟩) h2.2.1⟩
theorem deepcopyS_spec (next : Nat) : ∀ l : TSlots,
    next ≤ (deepcopyS next l).2 ∧ AllS (fun t => next ≤ t ∧ t < (deepcopyS next l).2) (deepcopyS next l).1 ∧
    eraseS (deepcopyS next l).1 = eraseS l
  | [] => by simp [deepcopyS, AllS, tokensS, eraseS]
  | none :: r => by
    have h := deepcopyS_spec next r
    simp only [deepcopyS]
    refine ⟨h.1, ?_, by simp [eraseS, h.2.2]⟩
    rw [AllS_cons]
    exact ⟨fun _ hh => (by cases hh), h.2.1⟩
  | some x :: r => by
    have h1 := deepcopyT_spec next x
    have h2 := deepcopyS_spec (deepcopyT next x).2 r
    simp only [deepcopyS]
    refine ⟨by omega, ?_, by simp [eraseS, h1.2.2, h2.2.2]⟩
    rw [AllS_cons]
    refine ⟨fun v hv => ?_, AllS.mono (fun t ht => ⟨by omega, ht.2⟩) h2.2.1⟩
    cases hv
    exact AllT.mono (fun t ht => ⟨ht.1, by omega⟩) h1.2.1
end

section
variable {names : List String}

theorem preserveStepT_spec {P : Nat → Prop} {old acc : TSlots} (ho : AllS P old) (ha : AllS P acc) (t : TV)
    {acc' : TSlots} {w : Bool} (h : preserveStepT names old acc t = .ok (acc', w)) : AllS P acc' := by
  unfold preserveStepT at h
  cases t with
  | str s =>
    simp only [] at h
    cases h1 : getT acc (key names s) <;> cases h2 : getT old (key names s) <;> simp [h1, h2] at h
    · rw [← h.1]; exact ha
    · rw [← h.1]; exact AllS_setT ha _ (fun x hx => by cases hx; exact AllS_getT ho h2)
    · rw [← h.1]; exact ha
    · rw [← h.1]; exact ha
  | int i => simp only [] at h; split at h <;> cases h; exact ha
  | tuple l => simp only [] at h; split at h <;> cases h; exact ha
  | list k l => simp only [] at h; split at h <;> cases h; exact ha
  | dict k l => simp only [] at h; split at h <;> cases h; exact ha

theorem preserveLoopT_spec {P : Nat → Prop} {old : TSlots} (ho : AllS P old) (items : List TV) {acc : TSlots}
    (ha : AllS P acc) {acc' : TSlots} {w : Bool} (h : preserveLoopT names old acc items = .ok (acc', w)) :
    AllS P acc' := by
  induction items generalizing acc w with
  | nil => simp [preserveLoopT] at h; rw [← h.1]; exact ha
  | cons t r ih =>
    simp only [preserveLoopT] at h
    cases hs : preserveStepT names old acc t with
    | error e => simp [hs] at h
    | ok p =>
      obtain ⟨a1, w1⟩ := p
      simp only [hs] at h
      cases hl : preserveLoopT names old a1 r with
      | error e => simp [hl] at h
      | ok q =>
        obtain ⟨a2, w2⟩ := q
        simp only [hl] at h
        cases h
        exact ih (preserveStepT_spec ho ha t hs) hl

/-- the list object `cvar["compose"]` after lines 197-213: it is the old list of `cvar` or a new object; only
`cvar` (when the key is created) and that list are written -/
theorem composedOfT_spec {P : Nat → Prop} {n cv : Nat} {d vc : TSlots} (hfresh : ∀ t, n ≤ t → P t)
    (hd : AllS P d) (hv : AllS P vc) {t : Nat} {comp : List TV} {w : List Nat} {n' : Nat}
    (h : composedOfT names n cv d vc = .ok (t, comp, w, n')) :
    n ≤ n' ∧ P t ∧ AllL P comp ∧ (∀ x ∈ w, x = cv ∨ x = t) ∧
    (n ≤ t ∨ ∃ l, getT d (kCompose names) = some (.list t l)) := by
  unfold composedOfT at h
  simp only [] at h
  -- the base list
  have hbase : ∀ {t0 : Nat} {l0 : List TV} {w0 : List Nat} {n0 : Nat},
      (match getT d (kCompose names) with
        | some (.list t l) => (Except.ok (t, l, [], n) : Except Err (Nat × List TV × List Nat × Nat))
        | some _ => .error .assertionError
        | none =>
          match getT d (kType names) with
          | some ty => .ok (n, [ty], [cv], n + 1)
          | none => .error .unmodelled) = .ok (t0, l0, w0, n0) →
      n ≤ n0 ∧ P t0 ∧ AllL P l0 ∧ (∀ x ∈ w0, x = cv) ∧ (n ≤ t0 ∨ ∃ l, getT d (kCompose names) = some (.list t0 l)) := by
    intro t0 l0 w0 n0 hb
    cases hc : getT d (kCompose names) with
    | some c =>
      rw [hc] at hb
      cases c with
      | list tk l =>
        simp only [] at hb
        cases hb
        have := AllS_getT hd hc
        rw [AllT_list] at this
        exact ⟨Nat.le_refl _, this.1, this.2, by simp, Or.inr ⟨_, rfl⟩⟩
      | int i => cases hb
      | str s => cases hb
      | tuple l => cases hb
      | dict k l => cases hb
    | none =>
      rw [hc] at hb
      simp only [] at hb
      cases ht : getT d (kType names) with
      | none => rw [ht] at hb; cases hb
      | some ty =>
        rw [ht] at hb
        cases hb
        refine ⟨by omega, hfresh _ (Nat.le_refl _), ?_, by simp, Or.inl (Nat.le_refl _)⟩
        rw [AllL_cons]
        exact ⟨AllS_getT hd ht, by intro t ht; simp [tokensL] at ht⟩
  split at h
  · cases h
  · rename_i t0 l0 w0 n0 hb
    obtain ⟨h1, h2, h3, h4, h5⟩ := hbase hb
    cases hvc : getT vc (kCompose names) with
    | some c =>
      rw [hvc] at h
      cases c with
      | list tk l2 =>
        simp only [] at h
        cases h
        have := AllS_getT hv hvc
        rw [AllT_list] at this
        refine ⟨h1, h2, AllL_append.2 ⟨h3, this.2⟩, ?_, h5⟩
        intro x hx
        simp only [List.mem_append, List.mem_singleton] at hx
        rcases hx with hx | hx
        · exact Or.inl (h4 x hx)
        · exact Or.inr hx
      | int i => cases h
      | str s => cases h
      | tuple l => cases h
      | dict k l => cases h
    | none =>
      rw [hvc] at h
      simp only [] at h
      cases hty : getT vc (kType names) with
      | none =>
        rw [hty] at h
        cases h
        exact ⟨h1, h2, h3, fun x hx => Or.inl (h4 x hx), h5⟩
      | some ty =>
        rw [hty] at h
        simp only [] at h
        split at h
        · cases h
          refine ⟨h1, h2, AllL_append.2 ⟨h3, ?_⟩, ?_, h5⟩
          · rw [AllL_cons]; exact ⟨AllS_getT hv hty, by intro t ht; simp [tokensL] at ht⟩
          · intro x hx
            simp only [List.mem_append, List.mem_singleton] at hx
            rcases hx with hx | hx
            · exact Or.inl (h4 x hx)
            · exact Or.inr hx
        · cases h
          exact ⟨h1, h2, h3, fun x hx => Or.inl (h4 x hx), h5⟩

end

section
variable {names : List String}

/-- the tokens `_update_context` may write to besides new objects and `var_context` itself: the old
`context.variable` and its `compose` list -/
def cvarSpine (names : List String) (cvar : Option TV) : List Nat :=
  match cvar with
  | some (.dict cv d) =>
    cv :: (match getT d (kCompose names) with
      | some (.list t _) => [t]
      | _ => [])
  | _ => []

theorem updateVarT_spec {P : Nat → Prop} {fx : Bool} {n ct : Nat} {cvar : Option TV} {cc : TSlots}
    (hfresh : ∀ t, n ≤ t → P t) (hct : P ct) (hcv : ∀ c, cvar = some c → AllT P c) (hcc : AllS P cc) {u : Upd}
    (h : updateVarT names fx n cvar ct cc = .ok u) :
    n ≤ u.next ∧ AllT P u.cvar ∧ ∀ t ∈ u.writes, n ≤ t ∨ t = ct ∨ t ∈ cvarSpine names cvar := by
  have hplain : n ≤ n ∧ AllT P (.dict ct cc) ∧ ∀ t ∈ ([] : List Nat), n ≤ t ∨ t = ct ∨ t ∈ cvarSpine names cvar :=
    ⟨Nat.le_refl _, AllT_dict.2 ⟨hct, hcc⟩, by simp⟩
  unfold updateVarT at h
  simp only [] at h
  cases cvar with
  | none => simp only [] at h; cases h; exact hplain
  | some c =>
    simp only [] at h
    split at h
    · cases h; exact hplain
    · cases c with
      | dict cv d =>
        simp only [] at h
        have hd : AllS P d := (AllT_dict.1 (hcv _ rfl)).2
        split at h
        · cases hco : composedOfT names n cv d cc with
          | error e => simp [hco] at h
          | ok q =>
            obtain ⟨t, comp, w, n'⟩ := q
            simp only [hco] at h
            obtain ⟨h1, h2, h3, h4, h5⟩ := composedOfT_spec hfresh hd hcc hco
            have hw : ∀ x ∈ w, n ≤ x ∨ x = ct ∨ x ∈ cvarSpine names (some (.dict cv d)) := by
              intro x hx
              rcases h4 x hx with rfl | rfl
              · right; right; simp [cvarSpine]
              · rcases h5 with h5 | ⟨l, h5⟩
                · exact Or.inl h5
                · right; right; simp [cvarSpine, h5]
            split at h
            · cases h
              exact ⟨h1, AllT_dict.2 ⟨hct, hcc⟩, hw⟩
            · have hlist : ∀ x, some (TV.list t comp) = some x → AllT P x := by
                intro x hx; cases hx; exact AllT_list.2 ⟨h2, h3⟩
              cases hl : preserveLoopT names (setT d (kCompose names) (some (.list t comp)))
                  (setT cc (kCompose names) (some (.list t comp))) comp with
              | error e => simp [hl] at h
              | ok q2 =>
                obtain ⟨vc', wb⟩ := q2
                simp only [hl] at h
                cases h
                refine ⟨h1, AllT_dict.2 ⟨hct, ?_⟩, ?_⟩
                · exact preserveLoopT_spec (AllS_setT hd _ hlist) comp (AllS_setT hcc _ hlist) hl
                · intro x hx
                  simp only [List.mem_append, List.mem_singleton] at hx
                  rcases hx with hx | hx
                  · exact hw x hx
                  · exact Or.inr (Or.inl hx)
        · cases h; exact hplain
      | int i =>
        simp only [] at h
        split at h
        · cases h
        · cases h
        · split at h
          · split at h
            · cases h
            · cases h
            · cases h; exact hplain
          · cases h; exact hplain
      | str s =>
        simp only [] at h
        split at h
        · cases h
        · cases h
        · split at h
          · split at h
            · cases h
            · cases h
            · cases h; exact hplain
          · cases h; exact hplain
      | tuple l =>
        simp only [] at h
        split at h
        · cases h
        · cases h
        · split at h
          · split at h
            · cases h
            · cases h
            · cases h; exact hplain
          · cases h; exact hplain
      | list k l =>
        simp only [] at h
        split at h
        · cases h
        · cases h
        · split at h
          · split at h
            · cases h
            · cases h
            · cases h; exact hplain
          · cases h; exact hplain

theorem getT_setT (l : TSlots) (i j : Nat) (v : Option TV) :
    getT (setT l i v) j = if j = i then v else getT l j := by
  induction l generalizing i j with
  | nil =>
    induction i generalizing j with
    | zero => cases j <;> simp [setT, getT_cons_zero, getT_cons_succ, getT_nil]
    | succ i ih =>
      cases j with
      | zero => simp [setT, getT_cons_zero, getT_nil]
      | succ j => simp [setT, getT_cons_succ, ih j, getT_nil]
  | cons x r ih =>
    cases i with
    | zero => cases j <;> simp [setT, getT_cons_zero, getT_cons_succ]
    | succ i =>
      cases j with
      | zero => simp [setT, getT_cons_zero]
      | succ j => simp [setT, getT_cons_succ, ih i j]

theorem getT_replicate (n i : Nat) : getT (List.replicate n none) i = none := by
  simp only [getT]
  by_cases h : i < n
  · simp [h]
  · simp [h]

/-- the part of `callT` after `get_data_context`: context object `c` with slots `cs`, counter `n0` -/
def callCore (names : List String) (fx : Bool) (n0 vt : Nat) (vc : TSlots) (c : Nat) (cs : TSlots) : Except Err CallRes :=
  match deepcopyT n0 (.dict vt vc) with
  | (.dict ct cc, n1) =>
    match updateVarT names fx n1 (getT cs (kVariable names)) ct cc with
    | .error e => .error e
    | .ok u => .ok ⟨c, setT cs (kVariable names) (some u.cvar), u.writes ++ [c], u.next⟩
  | _ => .error .unmodelled

theorem callT_eq (fx : Bool) (next vt : Nat) (vc : TSlots) (ctx : Option (Nat × TSlots)) :
    callT names fx next vt vc ctx =
      match ctx with
      | some (c, cs) => callCore names fx next vt vc c cs
      | none => callCore names fx (next + 1) vt vc next (List.replicate names.length none) := by
  unfold callT callCore
  cases ctx with
  | none => rfl
  | some p => obtain ⟨c, cs⟩ := p; rfl

theorem callCore_spec {P : Nat → Prop} {fx : Bool} {n0 vt c : Nat} {vc cs : TSlots} {r : CallRes}
    (hfresh : ∀ t, n0 ≤ t → P t) (hc : P c) (hcs : AllS P cs)
    (h : callCore names fx n0 vt vc c cs = .ok r) :
    n0 ≤ r.next ∧ AllT P (.dict r.ctxTok r.ctx) ∧
    (∀ t ∈ r.writes, n0 ≤ t ∨ t = c ∨ t ∈ cvarSpine names (getT cs (kVariable names))) ∧
    r.ctxTok = c ∧ ∀ k, k ≠ kVariable names → getT r.ctx k = getT cs k := by
  unfold callCore at h
  have hcopy := deepcopyS_spec (n0 + 1) vc
  simp only [deepcopyT] at h
  cases hu : updateVarT names fx (deepcopyS (n0 + 1) vc).2 (getT cs (kVariable names)) n0 (deepcopyS (n0 + 1) vc).1 with
  | error e => simp [hu] at h
  | ok u =>
    simp only [hu] at h
    cases h
    have hspec := updateVarT_spec (P := P) (fun t ht => hfresh t (by omega))
      (hfresh n0 (Nat.le_refl _)) (fun cv hcv => AllS_getT hcs hcv)
      (AllS.mono (fun t ht => hfresh t (by omega)) hcopy.2.1) hu
    have hnx : n0 ≤ u.next := by have := hspec.1; have := hcopy.1; omega
    refine ⟨hnx, AllT_dict.2 ⟨hc, AllS_setT hcs _ (fun x hx => by cases hx; exact hspec.2.1)⟩, ?_, rfl, ?_⟩
    · intro t ht
      simp only [List.mem_append, List.mem_singleton] at ht
      rcases ht with ht | ht
      · rcases hspec.2.2 t ht with h1 | h1 | h1
        · exact Or.inl (by omega)
        · exact Or.inl (by omega)
        · exact Or.inr (Or.inr h1)
      · exact Or.inr (Or.inl ht)
    · intro k hk
      rw [getT_setT]; simp [hk]

theorem cvarSpine_sub (c : Nat) (cs : TSlots) {t : Nat}
    (ht : t = c ∨ t ∈ cvarSpine names (getT cs (kVariable names))) : t ∈ spineTokens names (some (c, cs)) := by
  simp only [spineTokens, List.mem_cons]
  rcases ht with rfl | ht
  · exact Or.inl rfl
  · right
    unfold cvarSpine at ht
    cases hg : getT cs (kVariable names) with
    | none => rw [hg] at ht; simp at ht
    | some cv =>
      rw [hg] at ht
      cases cv with
      | dict k l => exact ht
      | int i => simp at ht
      | str s => simp at ht
      | tuple l => simp at ht
      | list k l => simp at ht

/-- **`Variable.__call__` on identities.**  Every object of the returned context is an object of the value's
context or was created by the call (token `≥ next`) — in particular it is never an object of the variable;
every object the call writes to was created by it or is the context, the old `context.variable` or its `compose`
list; the returned context is the value's context object, and all its keys other than `variable` hold the very
same objects as before. -/
theorem callT_spec {fx : Bool} {next vt : Nat} {vc : TSlots} {ctx : Option (Nat × TSlots)} {r : CallRes}
    (h : callT names fx next vt vc ctx = .ok r) :
    next ≤ r.next ∧
    AllT (fun t => next ≤ t ∨ t ∈ ctxTokens ctx) (.dict r.ctxTok r.ctx) ∧
    (∀ t ∈ r.writes, next ≤ t ∨ t ∈ spineTokens names ctx) ∧
    (∀ c cs, ctx = some (c, cs) → r.ctxTok = c ∧ ∀ k, k ≠ kVariable names → getT r.ctx k = getT cs k) := by
  rw [callT_eq] at h
  cases ctx with
  | none =>
    simp only [] at h
    have hs := callCore_spec (P := fun t => next ≤ t ∨ t ∈ ctxTokens none) (fun t ht => Or.inl (by omega))
      (Or.inl (Nat.le_refl _)) (AllS_replicate _ _) h
    refine ⟨by omega, hs.2.1, ?_, by intro c cs hc; cases hc⟩
    intro t ht
    rcases hs.2.2.1 t ht with h1 | h1 | h1
    · exact Or.inl (by omega)
    · exact Or.inl (by omega)
    · rw [getT_replicate] at h1; simp [cvarSpine] at h1
  | some p =>
    obtain ⟨c, cs⟩ := p
    simp only [] at h
    have hs := callCore_spec (P := fun t => next ≤ t ∨ t ∈ ctxTokens (some (c, cs))) (fun t ht => Or.inl ht)
      (Or.inr (by simp [ctxTokens, tokens])) (fun t ht => Or.inr (by simp [ctxTokens, tokens, ht])) h
    refine ⟨hs.1, hs.2.1, ?_, ?_⟩
    · intro t ht
      rcases hs.2.2.1 t ht with h1 | h1 | h1
      · exact Or.inl h1
      · exact Or.inr (cvarSpine_sub c cs (Or.inl h1))
      · exact Or.inr (cvarSpine_sub c cs (Or.inr h1))
    · intro c' cs' hc
      cases hc
      exact hs.2.2.2

end

section
variable {names : List String}

/-! ## the token model erases to the value model -/

theorem getSlot_eraseS (l : TSlots) (i : Nat) : getSlot (eraseS l) i = (getT l i).map erase := by
  induction l generalizing i with
  | nil => simp [eraseS, getT_nil]
  | cons x r ih =>
    cases x with
    | none => cases i <;> simp [eraseS, getT_cons_zero, getT_cons_succ, ih]
    | some v => cases i <;> simp [eraseS, getT_cons_zero, getT_cons_succ, ih]

theorem eraseS_cons (x : Option TV) (r : TSlots) : eraseS (x :: r) = x.map erase :: eraseS r := by
  cases x <;> simp [eraseS]

theorem eraseS_setT (l : TSlots) (i : Nat) (v : Option TV) :
    eraseS (setT l i v) = setSlot (eraseS l) i (v.map erase) := by
  induction l generalizing i with
  | nil =>
    induction i with
    | zero => simp [setT, setSlot, eraseS_cons, eraseS]
    | succ i ih => simp only [setT, eraseS_cons, ih]; simp [eraseS, setSlot]
  | cons x r ih =>
    cases i with
    | zero => simp [setT, eraseS_cons, setSlot]
    | succ i => simp [setT, eraseS_cons, setSlot, ih]

theorem eraseS_replicate (n : Nat) : eraseS (List.replicate n none) = emptyD n := by
  induction n with
  | zero => rfl
  | succ n ih => simp [List.replicate_succ, eraseS, emptyD] at *; exact ih

theorem eraseL_append (a b : List TV) : eraseL (a ++ b) = eraseL a ++ eraseL b := by
  induction a with
  | nil => simp [eraseL]
  | cons x r ih => simp [eraseL, ih]

theorem eraseL_isEmpty (a : List TV) : (eraseL a).isEmpty = a.isEmpty := by
  cases a <;> simp [eraseL]

/-- results of the token model seen without tokens -/
def eraseP (r : Except Err (TSlots × Bool)) : Except Err Slots :=
  match r with
  | .ok (a, _) => .ok (eraseS a)
  | .error e => .error e

theorem preserveStepT_erase (old acc : TSlots) (t : TV) :
    eraseP (preserveStepT names old acc t) = preserveStep names (eraseS old) (eraseS acc) (erase t) := by
  cases t with
  | str s =>
    simp only [preserveStepT, preserveStep, erase, getSlot_eraseS]
    cases h1 : getT acc (key names s) <;> cases h2 : getT old (key names s) <;>
      simp [eraseP, eraseS_setT]
  | int i => simp [preserveStepT, preserveStep, erase, eraseP, V.hashable]
  | tuple l =>
    simp only [preserveStepT, preserveStep, erase]
    by_cases hh : (V.seq true (eraseL l)).hashable = true
    · simp [hh, eraseP]
    · simp [hh, eraseP]
  | list k l => simp [preserveStepT, preserveStep, erase, eraseP, V.hashable]
  | dict k l => simp [preserveStepT, preserveStep, erase, eraseP, V.hashable]

theorem preserveLoopT_erase (old : TSlots) (items : List TV) (acc : TSlots) :
    eraseP (preserveLoopT names old acc items) = preserveLoop names (eraseS old) (eraseS acc) (eraseL items) := by
  induction items generalizing acc with
  | nil => simp [preserveLoopT, preserveLoop, eraseL, eraseP]
  | cons t r ih =>
    have hs := preserveStepT_erase (names := names) old acc t
    simp only [preserveLoopT, preserveLoop, eraseL]
    cases h1 : preserveStepT names old acc t with
    | error e =>
      rw [h1] at hs
      simp only [eraseP] at hs
      rw [← hs]; rfl
    | ok p =>
      obtain ⟨a1, w1⟩ := p
      rw [h1] at hs
      simp only [eraseP] at hs
      rw [← hs]
      simp only []
      rw [← ih a1]
      cases preserveLoopT names old a1 r with
      | error e => rfl
      | ok q => obtain ⟨a2, w2⟩ := q; rfl

end

section
variable {names : List String}

def eraseC (r : Except Err (Nat × List TV × List Nat × Nat)) : Except Err (List V) :=
  match r with
  | .ok (_, comp, _, _) => .ok (eraseL comp)
  | .error e => .error e

theorem composedOfT_erase (n cv : Nat) (d vc : TSlots) :
    eraseC (composedOfT names n cv d vc) = composedOf names (eraseS d) (eraseS vc) := by
  unfold composedOfT composedOf
  simp only [getSlot_eraseS]
  cases hc : getT d (kCompose names) with
  | none =>
    simp only [Option.map_none]
    cases ht : getT d (kType names) with
    | none => simp [eraseC]
    | some ty =>
      simp only [Option.map_some]
      cases hvc : getT vc (kCompose names) with
      | none =>
        simp only [Option.map_none]
        cases hvt : getT vc (kType names) with
        | none => simp [eraseC, eraseL]
        | some ty2 =>
          simp only [Option.map_some]
          by_cases htr : V.truthy (erase ty2) = true
          · simp [htr, eraseC, eraseL]
          · simp [htr, eraseC, eraseL]
      | some c2 =>
        cases c2 <;> simp [eraseC, eraseL, erase]
  | some c =>
    cases c with
    | list tk l =>
      simp only [Option.map_some, erase]
      cases hvc : getT vc (kCompose names) with
      | none =>
        simp only [Option.map_none]
        cases hvt : getT vc (kType names) with
        | none => simp [eraseC]
        | some ty2 =>
          simp only [Option.map_some]
          by_cases htr : V.truthy (erase ty2) = true
          · simp [htr, eraseC, eraseL, eraseL_append]
          · simp [htr, eraseC]
      | some c2 =>
        cases c2 <;> simp [eraseC, erase, eraseL_append]
    | int i => simp [eraseC, erase]
    | str s => simp [eraseC, erase]
    | tuple l => simp [eraseC, erase]
    | dict k l => simp [eraseC, erase]

def eraseU (r : Except Err Upd) : Except Err V :=
  match r with
  | .ok u => .ok (erase u.cvar)
  | .error e => .error e

def dictOf (r : Except Err Slots) : Except Err V :=
  match r with
  | .ok a => .ok (.dict a)
  | .error e => .error e

theorem truthy_erase_dict (k : Nat) (d : TSlots) :
    V.truthy (erase (.dict k d)) = (eraseS d).any Option.isSome := rfl

theorem updateVarT_erase (fx : Bool) (n ct : Nat) (cvar : Option TV) (cc : TSlots) :
    eraseU (updateVarT names fx n cvar ct cc) = dictOf (updateVar names fx (cvar.map erase) (eraseS cc)) := by
  unfold updateVarT updateVar
  cases cvar with
  | none => simp [eraseU, dictOf, erase]
  | some c =>
    simp only [Option.map_some]
    by_cases htr : V.truthy (erase c) = true
    · simp only [htr, Bool.not_true, Bool.false_eq_true, if_false]
      cases c with
      | dict cv d =>
        simp only [erase, hasKey, getSlot_eraseS, Option.isSome_map]
        by_cases hcond : ((getT d (kType names)).isSome || fx && (getT d (kCompose names)).isSome) = true
        · simp only [hcond, if_true]
          have hco := composedOfT_erase (names := names) n cv d cc
          cases h1 : composedOfT names n cv d cc with
          | error e =>
            rw [h1] at hco
            simp only [eraseC] at hco
            rw [← hco]
            simp [eraseU, dictOf]
          | ok q =>
            obtain ⟨t, comp, w, n'⟩ := q
            rw [h1] at hco
            simp only [eraseC] at hco
            rw [← hco]
            simp only [finish, eraseL_isEmpty]
            by_cases hemp : comp.isEmpty = true
            · simp [hemp, eraseU, dictOf, erase]
            · simp only [hemp, Bool.false_eq_true, if_false]
              have hl := preserveLoopT_erase (names := names) (setT d (kCompose names) (some (.list t comp)))
                comp (setT cc (kCompose names) (some (.list t comp)))
              simp only [eraseS_setT, Option.map_some, erase] at hl
              rw [← hl]
              cases preserveLoopT names (setT d (kCompose names) (some (.list t comp)))
                  (setT cc (kCompose names) (some (.list t comp))) comp with
              | error e => simp [eraseP, eraseU, dictOf]
              | ok q2 => obtain ⟨a2, w2⟩ := q2; simp [eraseP, eraseU, dictOf, erase]
        · simp [hcond, eraseU, dictOf, erase]
      | int i =>
        simp only [erase]
        cases h1 : nonDictContains "type" (V.int i) with
        | error e => simp [eraseU, dictOf]
        | ok b =>
          cases b
          · cases fx
            · simp [eraseU, dictOf, erase]
            · cases h2 : nonDictContains "compose" (V.int i) with
              | error e => simp [eraseU, dictOf]
              | ok b2 => cases b2 <;> simp [eraseU, dictOf, erase]
          · simp [eraseU, dictOf]
      | str s =>
        simp only [erase]
        cases h1 : nonDictContains "type" (V.str s) with
        | error e => simp [eraseU, dictOf]
        | ok b =>
          cases b
          · cases fx
            · simp [eraseU, dictOf, erase]
            · cases h2 : nonDictContains "compose" (V.str s) with
              | error e => simp [eraseU, dictOf]
              | ok b2 => cases b2 <;> simp [eraseU, dictOf, erase]
          · simp [eraseU, dictOf]
      | tuple l =>
        simp only [erase]
        cases h1 : nonDictContains "type" (V.seq true (eraseL l)) with
        | error e => simp [eraseU, dictOf]
        | ok b =>
          cases b
          · cases fx
            · simp [eraseU, dictOf, erase]
            · cases h2 : nonDictContains "compose" (V.seq true (eraseL l)) with
              | error e => simp [eraseU, dictOf]
              | ok b2 => cases b2 <;> simp [eraseU, dictOf, erase]
          · simp [eraseU, dictOf]
      | list k l =>
        simp only [erase]
        cases h1 : nonDictContains "type" (V.seq false (eraseL l)) with
        | error e => simp [eraseU, dictOf]
        | ok b =>
          cases b
          · cases fx
            · simp [eraseU, dictOf, erase]
            · cases h2 : nonDictContains "compose" (V.seq false (eraseL l)) with
              | error e => simp [eraseU, dictOf]
              | ok b2 => cases b2 <;> simp [eraseU, dictOf, erase]
          · simp [eraseU, dictOf]
    · simp [htr, eraseU, dictOf, erase]

/-- the context part of a token-level result, without tokens -/
def eraseR (r : Except Err CallRes) : Except Err Slots :=
  match r with
  | .ok r => .ok (eraseS r.ctx)
  | .error e => .error e

theorem callCore_erase (fx : Bool) (n0 vt c : Nat) (vc cs : TSlots) :
    eraseR (callCore names fx n0 vt vc c cs) = updateContext names fx (eraseS cs) (eraseS vc) := by
  unfold callCore updateContext
  have hcopy := (deepcopyS_spec (n0 + 1) vc).2.2
  simp only [deepcopyT]
  have hu := updateVarT_erase (names := names) fx (deepcopyS (n0 + 1) vc).2 n0 (getT cs (kVariable names))
    (deepcopyS (n0 + 1) vc).1
  rw [hcopy, ← getSlot_eraseS] at hu
  cases h1 : updateVarT names fx (deepcopyS (n0 + 1) vc).2 (getT cs (kVariable names)) n0 (deepcopyS (n0 + 1) vc).1 with
  | error e =>
    rw [h1] at hu
    simp only [eraseU] at hu
    cases h2 : updateVar names fx (getSlot (eraseS cs) (kVariable names)) (eraseS vc) with
    | error e2 => rw [h2] at hu; simp only [dictOf] at hu; cases hu; rfl
    | ok a => rw [h2] at hu; simp [dictOf] at hu
  | ok u =>
    rw [h1] at hu
    simp only [eraseU] at hu
    cases h2 : updateVar names fx (getSlot (eraseS cs) (kVariable names)) (eraseS vc) with
    | error e2 => rw [h2] at hu; simp [dictOf] at hu
    | ok a =>
      rw [h2] at hu
      simp only [dictOf, Except.ok.injEq] at hu
      simp [eraseR, eraseS_setT, hu]

end

end Lena.C14.Tok
