import LenaModel.Model.C06
import LenaModel.Model.C06Spec
/-! # C06 — helper lemmas and specification vocabulary

* order: `StrictInc`, `countLE` (number of edges not greater than a value) and the key fact
  `le_iff_lt_countLE` (in a strictly increasing array the edges `≤ v` are exactly the first
  `countLE arr v` ones); the loop invariant proof `bin1dLoop_spec`;
* sums over nested arrays (`total`), the walk of `histogram.fill` (`fillWalk_*`), regular shapes,
  the frame lemmas for `NArr.modifyAt`;
* cells of a mesh (`InCell`, `indices`, `inCell_iff`);
* `check_edges_increasing`, `init_bins`.

Core Lean only (`Std.IsLinearOrder`, `Std.LawfulOrderLT`, `Lean.Grind.AddCommMonoid` are core
classes with instances for `Int`, `Nat`, `Rat`). -/
open Lena Lena.C06
namespace Lena.C06
set_option linter.unusedSectionVars false
set_option linter.unusedSimpArgs false

section Order
variable {α : Type} [LT α] [LE α] [DecidableLT α] [DecidableLE α] [DecidableEq α]
  [Std.IsLinearOrder α] [Std.LawfulOrderLT α]


theorem lt_trans' {a b c : α} (h1 : a < b) (h2 : b < c) : a < c := by grind
theorem not_le_of_lt' {a b : α} (h : a < b) : ¬ b ≤ a := by grind
theorem lt_of_not_le' {a b : α} (h : ¬ b ≤ a) : a < b := by grind

theorem increasingPairs_iff : ∀ (arr : List α), increasingPairs arr = true ↔ StrictInc arr
  | [] => by simp [increasingPairs, StrictInc]
  | [a] => by simp [increasingPairs, StrictInc]
  | a :: b :: rest => by
    have ih := increasingPairs_iff (b :: rest)
    simp only [increasingPairs, Bool.and_eq_true, decide_eq_true_eq, ih, StrictInc, List.pairwise_cons]
    constructor
    · rintro ⟨hab, hb, hr⟩
      refine ⟨?_, hb, hr⟩
      intro x hx
      rcases List.mem_cons.1 hx with rfl | hx
      · exact hab
      · exact lt_trans' hab (hb x hx)
    · rintro ⟨ha, hb, hr⟩
      exact ⟨ha b (by simp), hb, hr⟩

theorem countLE_eq_zero_of_lt {arr : List α} {v : α} (h : ∀ x ∈ arr, v < x) : countLE arr v = 0 := by
  unfold countLE
  rw [List.countP_eq_zero]
  intro x hx
  have := h x hx
  simp; grind

theorem le_iff_lt_countLE {v : α} : ∀ {arr : List α}, StrictInc arr → ∀ (i : Nat) (h : i < arr.length),
    arr[i] ≤ v ↔ i < countLE arr v
  | [], _, i, h => by simp at h
  | a :: as, hinc, i, h => by
    have hp := List.pairwise_cons.1 hinc
    by_cases hav : a ≤ v
    · have hc : countLE (a :: as) v = countLE as v + 1 := by simp [countLE, List.countP_cons, hav]
      cases i with
      | zero => simp [hc, hav]
      | succ i =>
        have := le_iff_lt_countLE (v := v) hp.2 i (by simpa using h)
        simp [hc, this]
    · have hz : countLE as v = 0 := countLE_eq_zero_of_lt (fun x hx => by have := hp.1 x hx; grind)
      have hc : countLE (a :: as) v = 0 := by
        have : countLE (a :: as) v = countLE as v := by simp [countLE, List.countP_cons, hav]
        omega
      cases i with
      | zero => simp [hc, hav]
      | succ i =>
        have hi : i < as.length := by simpa using h
        have hlt : a < as[i] := hp.1 _ (List.getElem_mem hi)
        simp [hc]; grind

theorem countLE_le_length (arr : List α) (v : α) : countLE arr v ≤ arr.length := List.countP_le_length

theorem GuessOK.at {guess : Nat → Nat → Int} (hg : GuessOK guess) (arr : List α) (val : α) :
    GuessOKAt arr val guess := fun lo hi _ hl _ _ => hg lo hi (by omega)

theorem lt_iff_not_le' {a b : α} : a < b ↔ ¬ b ≤ a := by grind

theorem strictInc_getElem_lt {arr : List α} (hinc : StrictInc arr) {i j : Nat} (hij : i < j) (hj : j < arr.length) :
    arr[i] < arr[j] := List.pairwise_iff_getElem.1 hinc i j (by omega) hj hij

/-- the loop invariant `lo ≤ countLE ≤ hi + 1` is kept by every branch, **whatever the guess is**
(after the fix of notes/C06_defect_3: a guess at or beyond a bound moves that bound by one) -/
theorem bin1dLoop_correct (guess : Nat → Nat → Int) (val : α) (arr : List α)
    (hinc : StrictInc arr) :
    ∀ (n lo hi : Nat), hi - lo = n → lo ≤ hi → hi < arr.length → lo ≤ countLE arr val →
      countLE arr val ≤ hi + 1 → bin1dLoop guess val arr lo hi = .ok ((countLE arr val : Int) - 1) := by
  intro n
  induction n using Nat.strongRecOn with
  | _ n ih =>
    intro lo hi hn hle hhi hk1 hk2
    have hlo : lo < arr.length := by omega
    have klo : arr[lo] ≤ val ↔ lo < countLE arr val := le_iff_lt_countLE hinc lo hlo
    have khi : arr[hi] ≤ val ↔ hi < countLE arr val := le_iff_lt_countLE hinc hi hhi
    have llo : val < arr[lo] ↔ ¬ lo < countLE arr val := by rw [lt_iff_not_le', klo]
    rw [bin1dLoop]
    simp only [List.getElem?_eq_getElem hlo, List.getElem?_eq_getElem hhi]
    by_cases hsmall : hi - lo ≤ 1
    · simp only [hsmall, if_true]
      by_cases h1 : val < arr[lo]
      · simp only [h1, if_true]
        have := llo.1 h1
        congr 1; omega
      · simp only [h1, if_false]
        have := (not_congr llo).1 h1
        by_cases h2 : arr[hi] ≤ val
        · simp only [h2, if_true]
          have := khi.1 h2
          congr 1; omega
        · simp only [h2, if_false]
          have := (not_congr khi).1 h2
          congr 1; omega
    · simp only [hsmall, if_false]
      by_cases he : val = arr[lo]
      · rw [if_pos he]
        have h1 : lo < countLE arr val := klo.1 (by rw [he]; exact Std.IsPreorder.le_refl _)
        have h2 : ¬ (lo + 1 < countLE arr val) := by
          intro hc
          have hl1 : lo + 1 < arr.length := by omega
          have := (le_iff_lt_countLE (v := val) hinc (lo + 1) hl1).2 hc
          have hlt := strictInc_getElem_lt hinc (Nat.lt_succ_self lo) hl1
          rw [he] at this
          exact (lt_iff_not_le'.1 hlt) this
        congr 1; omega
      · simp only [he, if_false]
        by_cases h1 : val < arr[lo]
        · simp only [h1, if_true]
          have := llo.1 h1
          congr 1; omega
        · simp only [h1, if_false]
          have hlok := (not_congr llo).1 h1
          by_cases h2 : arr[hi] ≤ val
          · simp only [h2, if_true]
            have := khi.1 h2
            congr 1; omega
          · simp only [h2, if_false]
            have hhik := (not_congr khi).1 h2
            by_cases c1 : guess lo hi ≤ (lo : Int)
            · simp only [c1, if_true]
              exact ih (hi - (lo + 1)) (by omega) (lo + 1) hi rfl (by omega) hhi (by omega) hk2
            · simp only [c1, if_false]
              by_cases c2 : (hi : Int) ≤ guess lo hi
              · simp only [c2, if_true]
                exact ih (hi - 1 - lo) (by omega) lo (hi - 1) rfl (by omega) (by omega) hk1 (by omega)
              · simp only [c2, if_false]
                have hgn : (guess lo hi).toNat < arr.length := by omega
                simp only [List.getElem?_eq_getElem hgn]
                have kg := le_iff_lt_countLE (v := val) hinc (guess lo hi).toNat hgn
                by_cases c3 : val < arr[(guess lo hi).toNat]
                · simp only [c3, if_true]
                  have := (not_congr kg).1 (lt_iff_not_le'.1 c3)
                  exact ih ((guess lo hi).toNat - lo) (by omega) lo _ rfl (by omega) hgn hk1 (by omega)
                · simp only [c3, if_false]
                  have := kg.1 (by rw [lt_iff_not_le'] at c3; exact Classical.not_not.1 c3)
                  exact ih (hi - (guess lo hi).toNat) (by omega) _ hi rfl (by omega) hhi (by omega) hk2
/-- (kept for the files that use it: the hypothesis on the guess is no longer needed) -/
theorem bin1dLoop_spec (guess : Nat → Nat → Int) (val : α) (arr : List α) (_hg : GuessOKAt arr val guess)
    (hinc : StrictInc arr) :
    ∀ (n lo hi : Nat), hi - lo = n → lo ≤ hi → hi < arr.length → lo ≤ countLE arr val →
      countLE arr val ≤ hi + 1 → bin1dLoop guess val arr lo hi = .ok ((countLE arr val : Int) - 1) :=
  bin1dLoop_correct guess val arr hinc

end Order

variable {β : Type}

/-! ## sums over nested arrays -/

section Monoid
variable [Lean.Grind.AddCommMonoid β]
open Lean.Grind.AddCommMonoid

theorem zero_add' (a : β) : 0 + a = a := by rw [add_comm, add_zero]
theorem add_right_comm' (a b c : β) : a + b + c = a + c + b := by
  rw [add_assoc, add_comm b c, ← add_assoc]

theorem totalList_set {w : β} : ∀ (xs : List (NArr β)) (i : Nat) (x x' : NArr β),
    xs[i]? = some x → total x' = total x + w → totalList (xs.set i x') = totalList xs + w
  | [], i, x, x', h, _ => by simp at h
  | y :: ys, 0, x, x', h, ht => by
    simp at h; subst h
    simp only [List.set_cons_zero, totalList, ht]
    exact add_right_comm' _ _ _
  | y :: ys, i + 1, x, x', h, ht => by
    simp at h
    simp only [List.set_cons_succ, totalList, totalList_set ys i x x' h ht, add_assoc]

mutual
theorem foldl_values (a : NArr β) (z : β) :
    ((NArr.cells a).map (·.2)).foldl (· + ·) z = z + total a := by
  match a with
  | .leaf v => simp [NArr.cells, total]
  | .node xs => simp only [NArr.cells, total]; exact foldl_valuesFrom 0 xs z
theorem foldl_valuesFrom (k : Nat) (xs : List (NArr β)) (z : β) :
    ((NArr.cellsFrom k xs).map (·.2)).foldl (· + ·) z = z + totalList xs := by
  match xs with
  | [] => simp [NArr.cellsFrom, totalList, add_zero]
  | x :: xs =>
    simp only [NArr.cellsFrom, List.map_append, List.foldl_append, List.map_map, totalList]
    have : (List.map ((fun x => x.snd) ∘ fun p => (k :: p.fst, p.snd)) (NArr.cells x)) = (NArr.cells x).map (·.2) := by
      apply List.map_congr_left; intro p _; rfl
    rw [this, foldl_values x z, foldl_valuesFrom (k + 1) xs, add_assoc]
end

end Monoid

/-! ## the walk of `fill` -/
section Walk
variable [Add β]

theorem fillWalk_nil (w : β) (a : NArr β) : fillWalk w a [] = .error .indexError := by
  cases a <;> simp [fillWalk]

end Walk
/-! ## the walk of `fill` (2) -/
section Walk2
variable [Lean.Grind.AddCommMonoid β]
open Lean.Grind.AddCommMonoid

/-- whatever the shapes: a walk that reaches a cell adds exactly `w` to the sum of all cells -/
theorem fillWalk_total (w : β) : ∀ (idxs : List Int) (a a' : NArr β),
    fillWalk w a idxs = .ok (some a') → total a' = total a + w
  | [], a, a', h => by rw [fillWalk_nil] at h; cases h
  | [i], a, a', h => by
    unfold fillWalk at h
    split at h
    · cases h
    · cases a with
      | leaf c => simp at h
      | node xs =>
        simp only at h
        split at h
        · cases h
        · rename_i c hc
          simp only [Except.ok.injEq, Option.some.injEq] at h
          subst h
          simp only [total]
          exact totalList_set xs _ (.leaf c) _ hc (by simp [total])
        · cases h
  | i :: j :: is, a, a', h => by
    unfold fillWalk at h
    split at h
    · cases h
    · cases a with
      | leaf c => simp at h
      | node xs =>
        simp only at h
        split at h
        · cases h
        · rename_i x hx
          split at h
          · cases h
          · cases h
          · rename_i x' hx'
            simp only [Except.ok.injEq, Option.some.injEq] at h
            subst h
            simp only [total]
            exact totalList_set xs _ x x' hx (fillWalk_total w (j :: is) x x' hx')

end Walk2
/-! ## regular shapes -/
section Shape
variable [Add β]

theorem hasShape_node {n : Nat} {ns : List Nat} {xs : List (NArr β)} :
    NArr.HasShape (n :: ns) (.node xs) ↔ xs.length = n ∧ ∀ x ∈ xs, NArr.HasShape ns x := by
  rw [NArr.HasShape]

theorem hasShape_leaf_cons {n : Nat} {ns : List Nat} {c : β} : ¬ NArr.HasShape (n :: ns) (.leaf c) := by
  rw [NArr.HasShape]; exact id

theorem hasShape_nil {a : NArr β} : NArr.HasShape [] a ↔ ∃ c, a = .leaf c := by
  cases a <;> simp [NArr.HasShape]

theorem fillWalk_inRange (w : β) : ∀ (idxs : List Int) (ds : List Nat) (a : NArr β),
    NArr.HasShape ds a → InRange idxs ds → ds ≠ [] →
    fillWalk w a idxs = .ok (some (NArr.modifyAt (· + w) a (idxs.map Int.toNat)))
  | [], [], _, _, _, hne => absurd rfl hne
  | [], _ :: _, _, _, hr, _ => by simp [InRange] at hr
  | _ :: _, [], _, _, hr, _ => by simp [InRange] at hr
  | [i], [d], a, hs, hr, _ => by
    cases a with
    | leaf c => exact absurd hs hasShape_leaf_cons
    | node xs =>
      obtain ⟨hlen, hall⟩ := hasShape_node.1 hs
      simp only [InRange, and_true] at hr
      have hi : i.toNat < xs.length := by omega
      obtain ⟨c, hc⟩ := hasShape_nil.1 (hall _ (List.getElem_mem hi))
      have hx : xs[i.toNat]? = some (.leaf c) := by rw [List.getElem?_eq_getElem hi, hc]
      have : ¬ i < 0 := by omega
      simp [fillWalk, this, hx, NArr.modifyAt]
  | [_], _ :: _ :: _, _, _, hr, _ => by simp [InRange] at hr
  | _ :: _ :: _, [_], _, _, hr, _ => by simp [InRange] at hr
  | i :: j :: is, d :: d2 :: ds, a, hs, hr, _ => by
    cases a with
    | leaf c => exact absurd hs hasShape_leaf_cons
    | node xs =>
      obtain ⟨hlen, hall⟩ := hasShape_node.1 hs
      have hr' : (0 ≤ i ∧ i < (d : Int)) ∧ InRange (j :: is) (d2 :: ds) := hr
      have hi : i.toNat < xs.length := by omega
      have hx : xs[i.toNat]? = some xs[i.toNat] := List.getElem?_eq_getElem hi
      have ih := fillWalk_inRange w (j :: is) (d2 :: ds) xs[i.toNat] (hall _ (List.getElem_mem hi)) hr'.2 (by simp)
      have : ¬ i < 0 := by omega
      simp only [List.map_cons] at ih
      simp [fillWalk, this, hx, ih, NArr.modifyAt]

theorem fillWalk_outRange (w : β) : ∀ (idxs : List Int) (ds : List Nat) (a : NArr β),
    NArr.HasShape ds a → idxs.length = ds.length → ¬ InRange idxs ds → ds ≠ [] →
    fillWalk w a idxs = .ok none
  | [], [], _, _, _, _, hne => absurd rfl hne
  | [], _ :: _, _, _, hl, _, _ => by simp at hl
  | _ :: _, [], _, _, hl, _, _ => by simp at hl
  | [i], [d], a, hs, _, hr, _ => by
    cases a with
    | leaf c => exact absurd hs hasShape_leaf_cons
    | node xs =>
      obtain ⟨hlen, hall⟩ := hasShape_node.1 hs
      simp only [InRange, and_true] at hr
      by_cases h0 : i < 0
      · simp [fillWalk, h0]
      · have hx : xs[i.toNat]? = none := by rw [List.getElem?_eq_none]; omega
        simp [fillWalk, h0, hx]
  | [_], _ :: _ :: _, _, _, hl, _, _ => by simp at hl
  | _ :: _ :: _, [_], _, _, hl, _, _ => by simp at hl
  | i :: j :: is, d :: d2 :: ds, a, hs, hl, hr, _ => by
    cases a with
    | leaf c => exact absurd hs hasShape_leaf_cons
    | node xs =>
      obtain ⟨hlen, hall⟩ := hasShape_node.1 hs
      by_cases h0 : i < 0
      · simp [fillWalk, h0]
      · by_cases hi : i.toNat < xs.length
        · have hx : xs[i.toNat]? = some xs[i.toNat] := List.getElem?_eq_getElem hi
          have hr2 : ¬ InRange (j :: is) (d2 :: ds) := by
            intro h; apply hr
            exact ⟨by omega, h⟩
          have ih := fillWalk_outRange w (j :: is) (d2 :: ds) xs[i.toNat] (hall _ (List.getElem_mem hi))
            (by simpa using hl) hr2 (by simp)
          simp [fillWalk, h0, hx, ih]
        · have hx : xs[i.toNat]? = none := by rw [List.getElem?_eq_none]; omega
          simp [fillWalk, h0, hx]

/-- `modifyAt` keeps a regular shape -/
theorem hasShape_modifyAt (f : β → β) : ∀ (idx : List Nat) (ds : List Nat) (a : NArr β),
    NArr.HasShape ds a → NArr.HasShape ds (NArr.modifyAt f a idx)
  | [], ds, .leaf c, hs => by
    cases ds with
    | nil => simp [NArr.modifyAt, NArr.HasShape]
    | cons d ds => exact absurd hs hasShape_leaf_cons
  | _ :: _, _, .leaf c, hs => by simpa [NArr.modifyAt] using hs
  | [], _, .node xs, hs => by simpa [NArr.modifyAt] using hs
  | i :: is, ds, .node xs, hs => by
    cases ds with
    | nil => simp [NArr.HasShape] at hs
    | cons d ds =>
      obtain ⟨hlen, hall⟩ := hasShape_node.1 hs
      unfold NArr.modifyAt
      cases hx : xs[i]? with
      | none => simpa using hs
      | some x =>
        simp only
        rw [hasShape_node]
        refine ⟨by simpa using hlen, ?_⟩
        intro y hy
        rcases List.mem_or_eq_of_mem_set hy with hy | rfl
        · exact hall y hy
        · exact hasShape_modifyAt f is ds x (hall x (List.mem_of_getElem? hx))

end Shape

/-! ## more about the walk: shape and existence of the cell -/
section Walk3
variable [Add β]

/-- whatever the indices: a walk that reaches a cell keeps a regular shape -/
theorem fillWalk_shape (w : β) : ∀ (idxs : List Int) (ds : List Nat) (a a' : NArr β),
    fillWalk w a idxs = .ok (some a') → NArr.HasShape ds a → NArr.HasShape ds a'
  | [], _, a, a', h, _ => by rw [fillWalk_nil] at h; cases h
  | [i], ds, a, a', h, hs => by
    unfold fillWalk at h
    split at h
    · cases h
    · cases a with
      | leaf c => simp at h
      | node xs =>
        simp only at h
        split at h
        · cases h
        · rename_i c hc
          simp only [Except.ok.injEq, Option.some.injEq] at h
          subst h
          cases ds with
          | nil => simp [NArr.HasShape] at hs
          | cons d ds =>
            obtain ⟨hlen, hall⟩ := hasShape_node.1 hs
            rw [hasShape_node]
            refine ⟨by simpa using hlen, ?_⟩
            intro y hy
            rcases List.mem_or_eq_of_mem_set hy with hy | rfl
            · exact hall y hy
            · have := hall _ (List.mem_of_getElem? hc)
              cases ds with
              | nil => simp [NArr.HasShape]
              | cons d2 ds => exact absurd this hasShape_leaf_cons
        · cases h
  | i :: j :: is, ds, a, a', h, hs => by
    unfold fillWalk at h
    split at h
    · cases h
    · cases a with
      | leaf c => simp at h
      | node xs =>
        simp only at h
        split at h
        · cases h
        · rename_i x hx
          split at h
          · cases h
          · cases h
          · rename_i x' hx'
            simp only [Except.ok.injEq, Option.some.injEq] at h
            subst h
            cases ds with
            | nil => simp [NArr.HasShape] at hs
            | cons d ds =>
              obtain ⟨hlen, hall⟩ := hasShape_node.1 hs
              rw [hasShape_node]
              refine ⟨by simpa using hlen, ?_⟩
              intro y hy
              rcases List.mem_or_eq_of_mem_set hy with hy | rfl
              · exact hall y hy
              · exact fillWalk_shape w (j :: is) ds x _ hx' (hall x (List.mem_of_getElem? hx))

/-- in a regular array every in-range index addresses a cell -/
theorem get?_of_inRange : ∀ (idxs : List Int) (ds : List Nat) (a : NArr β),
    NArr.HasShape ds a → InRange idxs ds → ∃ c, NArr.get? a (idxs.map Int.toNat) = some (.leaf c)
  | [], [], a, hs, _ => by
    obtain ⟨c, rfl⟩ := hasShape_nil.1 hs
    exact ⟨c, rfl⟩
  | [], _ :: _, _, _, hr => by simp [InRange] at hr
  | _ :: _, [], _, _, hr => by simp [InRange] at hr
  | i :: is, d :: ds, a, hs, hr => by
    cases a with
    | leaf c => exact absurd hs hasShape_leaf_cons
    | node xs =>
      obtain ⟨hlen, hall⟩ := hasShape_node.1 hs
      have hr' : (0 ≤ i ∧ i < (d : Int)) ∧ InRange is ds := hr
      have hi : i.toNat < xs.length := by omega
      obtain ⟨c, hc⟩ := get?_of_inRange is ds xs[i.toNat] (hall _ (List.getElem_mem hi)) hr'.2
      refine ⟨c, ?_⟩
      simp only [List.map_cons, NArr.get?, List.getElem?_eq_getElem hi]
      exact hc

end Walk3

/-! ## reading cells: `get?` against `modifyAt` -/
section Frame

theorem get?_modifyAt_same (f : β → β) : ∀ (idx : List Nat) (a : NArr β) (c : β),
    NArr.get? a idx = some (.leaf c) → NArr.get? (NArr.modifyAt f a idx) idx = some (.leaf (f c))
  | [], .leaf v, c, h => by simp [NArr.get?] at h; subst h; simp [NArr.modifyAt, NArr.get?]
  | [], .node xs, c, h => by simp [NArr.get?] at h
  | _ :: _, .leaf v, c, h => by simp [NArr.get?] at h
  | i :: is, .node xs, c, h => by
    unfold NArr.get? at h
    unfold NArr.modifyAt
    cases hx : xs[i]? with
    | none => simp [hx] at h
    | some x =>
      simp only [hx] at h
      have hi : i < xs.length := (List.getElem?_eq_some_iff.1 hx).1
      simp only [NArr.get?, List.getElem?_set_self hi]
      exact get?_modifyAt_same f is x c h

theorem get?_modifyAt_other (f : β → β) : ∀ (idx j : List Nat) (a : NArr β),
    j ≠ idx → j.length = idx.length → NArr.get? (NArr.modifyAt f a idx) j = NArr.get? a j
  | [], [], _, hne, _ => absurd rfl hne
  | [], _ :: _, _, _, hl => by simp at hl
  | _ :: _, [], _, _, hl => by simp at hl
  | i :: is, j0 :: js, .leaf v, _, _ => by simp [NArr.modifyAt]
  | i :: is, j0 :: js, .node xs, hne, hl => by
    unfold NArr.modifyAt
    cases hx : xs[i]? with
    | none => rfl
    | some x =>
      simp only [NArr.get?]
      by_cases hij : i = j0
      · subst hij
        have hi : i < xs.length := (List.getElem?_eq_some_iff.1 hx).1
        have hjs : js ≠ is := fun h => hne (by rw [h])
        simp only [List.getElem?_set_self hi, hx]
        exact get?_modifyAt_other f is js x hjs (by simpa using hl)
      · rw [List.getElem?_set_ne hij]

end Frame
/-! ## cells of a mesh -/
section Cells
variable {α : Type} [LT α] [LE α] [DecidableLT α] [DecidableLE α] [DecidableEq α]
  [Std.IsLinearOrder α] [Std.LawfulOrderLT α]

theorem inCell_axis_iff {arr : List α} (hinc : StrictInc arr) (x : α) (i : Nat) :
    (∃ h : i + 1 < arr.length, arr[i] ≤ x ∧ x < arr[i + 1]) ↔
      (countLE arr x = i + 1 ∧ i + 1 < arr.length) := by
  constructor
  · rintro ⟨h, h1, h2⟩
    have a := (le_iff_lt_countLE (v := x) hinc i (by omega)).1 h1
    have b := (not_congr (le_iff_lt_countLE (v := x) hinc (i + 1) h)).1 (lt_iff_not_le'.1 h2)
    exact ⟨by omega, h⟩
  · rintro ⟨hk, h⟩
    refine ⟨h, (le_iff_lt_countLE (v := x) hinc i (by omega)).2 (by omega), ?_⟩
    rw [lt_iff_not_le', le_iff_lt_countLE (v := x) hinc (i + 1) h]
    omega

theorem inCell_iff : ∀ (axes : List (List α)) (xs : List α) (idx : List Nat),
    (∀ arr ∈ axes, StrictInc arr) → xs.length = axes.length →
    (InCell axes xs idx ↔
      InRange (indices axes xs) (dimsOf axes) ∧ idx = (indices axes xs).map Int.toNat)
  | [], [], [], _, _ => by simp [InCell, InRange, indices, dimsOf]
  | [], [], _ :: _, _, _ => by simp [InCell, InRange, indices, dimsOf]
  | [], _ :: _, _, _, hl => by simp at hl
  | _ :: _, [], _, _, hl => by simp at hl
  | arr :: axes, x :: xs, [], _, _ => by simp [InCell, indices]
  | arr :: axes, x :: xs, i :: idx, hinc, hl => by
    have ih := inCell_iff axes xs idx (fun a ha => hinc a (List.mem_cons_of_mem _ ha)) (by simpa using hl)
    have hax := inCell_axis_iff (hinc arr (by simp)) x i
    simp only [InCell, indices, dimsOf, List.zipWith_cons_cons, List.map_cons, InRange, List.cons.injEq] at ih ⊢
    rw [hax, ih]
    constructor
    · rintro ⟨⟨hk, hlt⟩, hr, hidx⟩
      refine ⟨⟨by omega, hr⟩, by omega, hidx⟩
    · rintro ⟨⟨hk, hr⟩, hi, hidx⟩
      refine ⟨by omega, hr, hidx⟩

/-- at most one cell contains a point -/
theorem inCell_unique {axes : List (List α)} {xs : List α} {i j : List Nat}
    (hinc : ∀ arr ∈ axes, StrictInc arr) (hl : xs.length = axes.length)
    (hi : InCell axes xs i) (hj : InCell axes xs j) : i = j := by
  rw [((inCell_iff axes xs i hinc hl).1 hi).2, ((inCell_iff axes xs j hinc hl).1 hj).2]

theorem inCell_length : ∀ {axes : List (List α)} {xs : List α} {idx : List Nat},
    InCell axes xs idx → idx.length = axes.length
  | [], [], [], _ => rfl
  | [], [], _ :: _, h => by simp [InCell] at h
  | [], _ :: _, _, h => by simp [InCell] at h
  | _ :: _, [], _, h => by simp [InCell] at h
  | _ :: _, _ :: _, [], h => by simp [InCell] at h
  | _ :: axes, _ :: xs, _ :: idx, h => by
    have := inCell_length (axes := axes) (xs := xs) (idx := idx) h.2
    simp [this]

end Cells
/-! ## the search without the order hypothesis: it returns, and within `[ind_min − 1, ind_max]` -/
section Totality
variable {α : Type} [LT α] [LE α] [DecidableLT α] [DecidableLE α] [DecidableEq α]

theorem bin1dLoop_total (guess : Nat → Nat → Int) (val : α) (arr : List α) (_hg : GuessOK guess) :
    ∀ (n lo hi : Nat), hi - lo = n → lo ≤ hi → hi < arr.length →
      ∃ r, bin1dLoop guess val arr lo hi = .ok r ∧ (lo : Int) - 1 ≤ r ∧ r ≤ (hi : Int) := by
  intro n
  induction n using Nat.strongRecOn with
  | _ n ih =>
    intro lo hi hn hle hhi
    have hlo : lo < arr.length := by omega
    rw [bin1dLoop]
    simp only [List.getElem?_eq_getElem hlo, List.getElem?_eq_getElem hhi]
    by_cases hsmall : hi - lo ≤ 1
    · simp only [hsmall, if_true]
      split
      · exact ⟨_, rfl, by omega, by omega⟩
      · split
        · exact ⟨_, rfl, by omega, by omega⟩
        · exact ⟨_, rfl, by omega, by omega⟩
    · simp only [hsmall, if_false]
      split
      · exact ⟨_, rfl, by omega, by omega⟩
      · split
        · exact ⟨_, rfl, by omega, by omega⟩
        · split
          · exact ⟨_, rfl, by omega, by omega⟩
          · split
            · obtain ⟨r, h, h1, h2⟩ := ih (hi - (lo + 1)) (by omega) (lo + 1) hi rfl (by omega) hhi
              exact ⟨r, h, by omega, h2⟩
            · split
              · obtain ⟨r, h, h1, h2⟩ := ih (hi - 1 - lo) (by omega) lo (hi - 1) rfl (by omega) (by omega)
                exact ⟨r, h, h1, by omega⟩
              · have hgn : (guess lo hi).toNat < arr.length := by omega
                simp only [List.getElem?_eq_getElem hgn]
                split
                · obtain ⟨r, h, h1, h2⟩ := ih ((guess lo hi).toNat - lo) (by omega) lo _ rfl (by omega) hgn
                  exact ⟨r, h, h1, by omega⟩
                · obtain ⟨r, h, h1, h2⟩ := ih (hi - (guess lo hi).toNat) (by omega) _ hi rfl (by omega) hhi
                  exact ⟨r, h, by omega, h2⟩

end Totality

/-! ## `check_edges_increasing`, `init_bins`, `histogram.__init__` -/
section Init
variable {α : Type} [LT α] [LE α] [DecidableLT α] [DecidableLE α] [DecidableEq α]
  [Std.IsLinearOrder α] [Std.LawfulOrderLT α]

theorem checkEdges1d_ok {arr : List α} (h : ValidAxis arr) : checkEdges1d arr = .ok () := by
  have h1 : ¬ arr.length ≤ 1 := by have := h.1; omega
  have h2 : increasingPairs arr = true := (increasingPairs_iff arr).2 h.2
  simp [checkEdges1d, h1, h2]

theorem checkEdges1d_err {arr : List α} (h : ¬ ValidAxis arr) : checkEdges1d arr = .error .lenaValueError := by
  unfold checkEdges1d
  by_cases h1 : arr.length ≤ 1
  · simp [h1]
  · have h2 : ¬ increasingPairs arr = true := fun hp => h ⟨by omega, (increasingPairs_iff arr).1 hp⟩
    simp [h1, h2]

theorem checkEdgesAxes_ok : ∀ {axes : List (List α)}, (∀ arr ∈ axes, ValidAxis arr) →
    checkEdgesAxes axes = .ok ()
  | [], _ => rfl
  | arr :: rest, h => by
    have ha := h arr (by simp)
    have h1 : ¬ arr.length ≤ 1 := by have := ha.1; omega
    have ih := checkEdgesAxes_ok (axes := rest) (fun a hm => h a (List.mem_cons_of_mem _ hm))
    simp [checkEdgesAxes, h1, checkEdges1d_ok ha, ih, bind, Except.bind]

theorem checkEdgesAxes_err : ∀ {axes : List (List α)}, ¬ (∀ arr ∈ axes, ValidAxis arr) →
    checkEdgesAxes axes = .error .lenaValueError
  | [], h => absurd (by simp) h
  | arr :: rest, h => by
    unfold checkEdgesAxes
    by_cases h1 : arr.length ≤ 1
    · simp [h1]
    · by_cases ha : ValidAxis arr
      · have hr : ¬ (∀ a ∈ rest, ValidAxis a) := by
          intro hr; apply h; intro a hm
          rcases List.mem_cons.1 hm with rfl | hm
          · exact ha
          · exact hr a hm
        simp [h1, checkEdges1d_ok ha, checkEdgesAxes_err hr, bind, Except.bind]
      · simp [h1, checkEdges1d_err ha, bind, Except.bind]

theorem checkEdgesIncreasing_ok {e : Edges α} (h : ValidEdges e) : checkEdgesIncreasing e = .ok () := by
  cases e with
  | flat arr =>
    have ha : ValidAxis arr := h.2 arr (by simp [Edges.axes])
    have : ¬ arr.length = 0 := by have := ha.1; omega
    simp [checkEdgesIncreasing, this, checkEdges1d_ok ha]
  | nested axes =>
    have : ¬ axes.length = 0 := by have := h.1; simpa [Edges.axes] using this
    simp only [checkEdgesIncreasing, this, if_false]
    exact checkEdgesAxes_ok h.2

theorem checkEdgesIncreasing_err {e : Edges α} (h : ¬ ValidEdges e) :
    checkEdgesIncreasing e = .error .lenaValueError := by
  cases e with
  | flat arr =>
    unfold checkEdgesIncreasing
    by_cases h0 : arr.length = 0
    · simp [h0]
    · have : ¬ ValidAxis arr := fun ha => h ⟨by simp [Edges.axes], by simpa [Edges.axes] using ha⟩
      simp [h0, checkEdges1d_err this]
  | nested axes =>
    unfold checkEdgesIncreasing
    by_cases h0 : axes.length = 0
    · simp [h0]
    · have : ¬ (∀ a ∈ axes, ValidAxis a) := fun ha => h ⟨by simpa [Edges.axes] using h0, ha⟩
      simp [h0, checkEdgesAxes_err this]

omit [LT α] [LE α] [DecidableLT α] [DecidableLE α] [DecidableEq α] [Std.IsLinearOrder α] [Std.LawfulOrderLT α] in
theorem initBinsAxes_eq (v : β) : ∀ (axes : List (List α)), axes ≠ [] →
    initBinsAxes v axes = .ok (NArr.full (axes.map (fun a => a.length - 1)) v)
  | [], h => absurd rfl h
  | [arr], _ => by simp [initBinsAxes, NArr.full]
  | arr :: b :: rest, _ => by
    have ih := initBinsAxes_eq v (b :: rest) (by simp)
    simp only [initBinsAxes, ih, bind, Except.bind, List.map_cons, NArr.full, pure, Except.pure]

omit [LT α] [LE α] [DecidableLT α] [DecidableLE α] [DecidableEq α] [Std.IsLinearOrder α] [Std.LawfulOrderLT α] in
theorem initBins_eq (v : β) (e : Edges α) (h : e.axes ≠ []) (h1 : ∀ a ∈ e.axes, a ≠ []) :
    initBins v e = .ok (NArr.full (e.axes.map (fun a => a.length - 1)) v) := by
  cases e with
  | flat arr =>
    have : ¬ arr.length = 0 := by have := h1 arr (by simp [Edges.axes]); simpa using this
    simp [initBins, this, Edges.axes, NArr.full]
  | nested axes => exact initBinsAxes_eq v axes h

theorem hasShape_full (v : β) : ∀ ds : List Nat, NArr.HasShape ds (NArr.full ds v)
  | [] => by simp [NArr.full, NArr.HasShape]
  | d :: ds => by
    rw [NArr.full, NArr.HasShape]
    refine ⟨by simp, ?_⟩
    intro x hx
    rw [List.eq_of_mem_replicate hx]
    exact hasShape_full v ds

end Init

section InitTotal
variable [Lean.Grind.AddCommMonoid β]
open Lean.Grind.AddCommMonoid

theorem totalList_replicate_zero (x : NArr β) (hx : total x = 0) : ∀ n, totalList (List.replicate n x) = 0
  | 0 => rfl
  | n + 1 => by simp [List.replicate_succ, totalList, hx, totalList_replicate_zero x hx n, add_zero]

theorem total_full_zero : ∀ ds : List Nat, total (NArr.full ds (0 : β)) = 0
  | [] => rfl
  | d :: ds => by
    simp only [NArr.full, total]
    exact totalList_replicate_zero _ (total_full_zero ds) d

end InitTotal
/-! ## the interpolation guess in exact arithmetic -/
section Interp

/-- in exact arithmetic the interpolation guess is within `[ind_min, ind_max]` wherever the search
consults it -/
theorem interpGuess_okAt (arr : List Int) (val : Int) : GuessOKAt arr val (interpGuess arr val) := by
  intro lo hi h hl h1 h2
  have hlo : lo < arr.length := by omega
  simp only [interpGuess, List.getElem?_eq_getElem hlo, List.getElem?_eq_getElem h, Option.getD_some]
  have hd : (0 : Int) ≤ (hi : Int) - (lo : Int) := by omega
  have hx : 0 ≤ val - arr[lo] := by omega
  have hy : 0 < arr[hi] - arr[lo] := by omega
  have hq0 : 0 ≤ (((hi : Int) - (lo : Int)) * (val - arr[lo])) / (arr[hi] - arr[lo]) :=
    Int.ediv_nonneg (Int.mul_nonneg hd hx) (Int.le_of_lt hy)
  have hle : ((hi : Int) - (lo : Int)) * (val - arr[lo]) ≤ ((hi : Int) - (lo : Int)) * (arr[hi] - arr[lo]) :=
    Int.mul_le_mul_of_nonneg_left (by omega) hd
  have hq1 : (((hi : Int) - (lo : Int)) * (val - arr[lo])) / (arr[hi] - arr[lo]) ≤ (hi : Int) - (lo : Int) := by
    have := Int.ediv_le_ediv hy hle
    rwa [Int.mul_ediv_cancel _ (Int.ne_of_gt hy)] at this
  omega

end Interp

end Lena.C06
