import LenaModel.Model.C06
/-! # C06 — helper lemmas -/
