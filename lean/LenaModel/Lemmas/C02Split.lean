import LenaModel.Lemmas.C02Neg
/-! # C02 — `Split.run` as a generator realises `splitSpec`: a block's results are all handed
downstream at the clock at which the block was complete, before the next block is pulled. -/

namespace Lena.C02

variable {σ σb α : Type}

section split
variable (bufsize : Option Nat) (copyBuf : Bool) (up : Gen σ α) (cnt : σ → Nat) (fu : Nat)

/-- `list(islice(flow, bufsize))`: reads `k` more values — up to `bufsize` in total — or all there are -/
theorem split_read_loop (k0 N : Nat)
    (hfull : ∀ buf : List α, buf.length ≤ N → blockFull bufsize buf = decide (buf.length ≥ k0)) :
    ∀ {s vals cf}, Produces up cnt fu s vals cf → ∀ (l : SSt σb α), l.phase = .reading → l.buf.length ≤ k0 →
      l.buf.length + vals.length ≤ N →
      ∃ s' j, Steps (splitStep bufsize copyBuf up fu) (s, l) j
          (s', { l with buf := l.buf ++ (vals.take (k0 - l.buf.length)).map Prod.fst, phase := .blockRead }) ∧
        j ≤ min (k0 - l.buf.length) vals.length + 1 ∧
        Produces up cnt fu s' (vals.drop (k0 - l.buf.length)) cf ∧
        cnt s' = (SF.mk (cnt s) vals cf).need (k0 - l.buf.length) := by
  intro s vals cf h
  replace h : Feeds up cnt fu s vals (some cf) := h
  generalize he : some cf = e at h
  induction h with
  | more => cases he
  | @done s s' h1 h2 =>
    cases he
    intro l hl hb hN
    have hf := hfull l.buf (by omega)
    by_cases hge : l.buf.length ≥ k0
    · have h0 : k0 - l.buf.length = 0 := by omega
      refine ⟨s, 1, Steps.one ?_, by omega, ?_, by simp [h0]⟩
      · simp [splitStep, hl, hf, hge, h0]
      · rw [h0]; exact Feeds.done h1 h2
    · refine ⟨s', 1, Steps.one ?_, by omega, ?_, ?_⟩
      · simp [splitStep, hl, hf, hge, h1]
      · simpa using produces_after_done h2
      · obtain ⟨k, hk⟩ : ∃ k, k0 - l.buf.length = k + 1 := ⟨k0 - l.buf.length - 1, by omega⟩
        simp [hk]
  | @item s s' v rest e hi hrest ih =>
    cases he
    intro l hl hb hN
    have hf := hfull l.buf (by omega)
    by_cases hge : l.buf.length ≥ k0
    · have h0 : k0 - l.buf.length = 0 := by omega
      refine ⟨s, 1, Steps.one ?_, by omega, ?_, by simp [h0]⟩
      · simp [splitStep, hl, hf, hge, h0]
      · rw [h0]; exact Feeds.item hi hrest
    · obtain ⟨k, hk⟩ : ∃ k, k0 - l.buf.length = k + 1 := ⟨k0 - l.buf.length - 1, by omega⟩
      have hk' : k0 - (l.buf ++ [v]).length = k := by simp; omega
      obtain ⟨s'', j, k1, k2, k3, k4⟩ := ih rfl { l with buf := l.buf ++ [v] } hl (by simp; omega)
        (by simp at hN ⊢; omega)
      simp only [hk'] at k1 k2 k3 k4
      refine ⟨s'', j + 1, ?_, ?_, ?_, ?_⟩
      · have hstep : splitStep bufsize copyBuf up fu (s, l) = .cont (s', { l with buf := l.buf ++ [v] }) := by
          simp [splitStep, hl, hf, hge, hi]
        have := Steps.cons hstep k1
        rw [hk]
        simpa using this
      · simp only [List.length_cons]; omega
      · rw [hk, List.drop_succ_cons]; exact k3
      · rw [k4, hk]; simp

end split

/-- `bufsize` is a natural number or `None` (`Split.__init__` rejects anything else) -/
def GoodBufsize (bufsize : Option Nat) : Prop := bufsize ≠ some 0

theorem blockFull_eq (bufsize : Option Nat) (xs : List (α × Nat)) (buf : List α) (hb : buf.length ≤ xs.length) :
    blockFull bufsize buf = decide (buf.length ≥ blockAsk bufsize xs) := by
  cases bufsize with
  | some b => rfl
  | none =>
    have : ¬ (buf.length ≥ xs.length + 1) := by omega
    simp [blockFull, blockAsk, this]

section split2
variable (bufsize : Option Nat) (copyBuf : Bool) (up : Gen σ α) (cnt : σ → Nat) (fu : Nat)

/-- the suspension points of `Split.run` at which the next loop iteration yields or returns, with what
remains to be yielded -/
def SplitTerm : σ × SSt σb α → List (α × Nat) → Nat → Prop
  | (s, l), outs, cf =>
    match l.phase with
    | .emitting => ∃ x r vals fuel, l.pending = x :: r ∧ l.buf = [] ∧ l.fwe = false ∧ Produces up cnt fu s vals cf ∧
        vals.length + 1 ≤ fuel ∧ 4 * vals.length + 5 < fu ∧
        outs = (x :: r).map (fun v => (v, cnt s)) ++ splitSpecGo bufsize copyBuf cf fuel (cnt s) vals l.act false
    | .finalEmit => outs = l.pending.map (fun v => (v, cnt s)) ∧ cf = cnt s
    | .finished => outs = [] ∧ cf = cnt s
    | _ => False

/-- from the start of a block read, the generator reaches — silently, in a number of iterations linear
in what the input still has — a point where it yields the next result of the specification -/
theorem split_reach (hb : GoodBufsize bufsize) :
    ∀ (fuel : Nat) {s : σ} {vals : List (α × Nat)} {cf : Nat}, Produces up cnt fu s vals cf →
      vals.length + 1 ≤ fuel → 4 * vals.length + 5 < fu → ∀ (act : List (Lena.C03.Branch σb α)) (cur lst : List α) (fwe : Bool),
      ∃ Y j, Steps (splitStep bufsize copyBuf up fu)
          (s, ({ act := act, cur := cur, last := lst, buf := [], pending := [], phase := .reading, fwe := fwe } : SSt σb α)) j Y ∧
        j ≤ 4 * vals.length + 3 ∧
        SplitTerm bufsize copyBuf up cnt fu Y (splitSpecGo bufsize copyBuf cf fuel (cnt s) vals act fwe) cf := by
  intro fuel
  induction fuel with
  | zero => intro s vals cf _ h; omega
  | succ fuel ih =>
    intro s vals cf h hfuel hfu act cur lst fwe
    have hk1 : 1 ≤ blockAsk bufsize vals := by
      cases bufsize with
      | none => simp [blockAsk]
      | some b =>
        have : b ≠ 0 := fun h0 => hb (by rw [h0])
        simp [blockAsk]; omega
    have hfull : ∀ buf : List α, buf.length ≤ vals.length →
        blockFull bufsize buf = decide (buf.length ≥ blockAsk bufsize vals) :=
      fun buf hbuf => blockFull_eq bufsize vals buf hbuf
    obtain ⟨s1, j1, r1, r2, r3, r4⟩ := split_read_loop bufsize copyBuf up cnt fu (blockAsk bufsize vals) vals.length
      hfull h ({ act := act, cur := cur, last := lst, buf := [], pending := [], phase := .reading, fwe := fwe } : SSt σb α) rfl
      (by simp) (by simp)
    simp only [List.length_nil, Nat.sub_zero, List.nil_append] at r1 r2 r3 r4
    rw [splitSpecGo]
    simp only [← r4]
    by_cases hempty : ((vals.take (blockAsk bufsize vals)).map Prod.fst).isEmpty = true
    · -- the flow has ended: final pass
      have hvals : vals = [] := by
        cases vals with
        | nil => rfl
        | cons p r =>
          obtain ⟨k, hk⟩ : ∃ k, blockAsk bufsize (p :: r) = k + 1 := ⟨_, (Nat.sub_add_cancel hk1).symm⟩
          simp [hk] at hempty
      have hcf : cnt s1 = cf := by
        obtain ⟨k, hk⟩ : ∃ k, blockAsk bufsize vals = k + 1 := ⟨_, (Nat.sub_add_cancel hk1).symm⟩
        rw [r4, hk, hvals]
        simp
      rw [if_pos hempty]
      refine ⟨(s1, {
                act := act
                cur := (vals.take (blockAsk bufsize vals)).map Prod.fst
                last := lst
                buf := (vals.take (blockAsk bufsize vals)).map Prod.fst
                pending := Lena.C03.outputs (Lena.C03.finalPass fwe act)
                phase := .finalEmit
                fwe := fwe }), 1 + j1,
        Steps.trans r1 (Steps.one ?_), by omega, rfl, hcf.symm⟩
      simp only [splitStep, processBlock, hempty, if_true]
    · rw [if_neg hempty]
      have hne : vals ≠ [] := by
        intro h0
        simp [h0] at hempty
      have hlen : 1 ≤ vals.length := by
        cases vals with
        | nil => exact absurd rfl hne
        | cons p r => simp
      have hstep : splitStep bufsize copyBuf up fu
          (s1, ({
              act := act
              cur := cur
              last := lst
              buf := (vals.take (blockAsk bufsize vals)).map Prod.fst
              pending := []
              phase := .blockRead
              fwe := fwe } : SSt σb α))
          = .cont (s1, {
              act := (Lena.C03.blockLoop copyBuf ((vals.take (blockAsk bufsize vals)).map Prod.fst)
                (act.length + 1) 0 act []).2
              cur := (vals.take (blockAsk bufsize vals)).map Prod.fst
              last := if act.isEmpty then lst else (vals.take (blockAsk bufsize vals)).map Prod.fst
              buf := []
              pending := Lena.C03.outputs (Lena.C03.blockLoop copyBuf
                ((vals.take (blockAsk bufsize vals)).map Prod.fst) (act.length + 1) 0 act []).1
              phase := .emitting
              fwe := false }) := by
        simp only [splitStep, processBlock, hempty, if_false, Bool.false_eq_true]
      have hdl : (vals.drop (blockAsk bufsize vals)).length = vals.length - blockAsk bufsize vals :=
        List.length_drop
      have hdrop : (vals.drop (blockAsk bufsize vals)).length + 1 ≤ vals.length := by omega
      cases hp : Lena.C03.outputs (Lena.C03.blockLoop copyBuf
          ((vals.take (blockAsk bufsize vals)).map Prod.fst) (act.length + 1) 0 act []).1 with
      | cons x rest =>
        refine ⟨_, 1 + j1, Steps.trans r1 (Steps.one hstep), by omega, ?_⟩
        refine ⟨x, rest, vals.drop (blockAsk bufsize vals), fuel, hp, rfl, rfl, r3, by omega, by omega, ?_⟩
        simp
      | nil =>
        obtain ⟨Y, j2, q1, q2, q3⟩ := ih r3 (by omega) (by omega)
          (Lena.C03.blockLoop copyBuf ((vals.take (blockAsk bufsize vals)).map Prod.fst) (act.length + 1) 0 act []).2
          ((vals.take (blockAsk bufsize vals)).map Prod.fst)
          (if act.isEmpty then lst else (vals.take (blockAsk bufsize vals)).map Prod.fst) false
        refine ⟨Y, (j2 + 1) + (1 + j1), ?_, by omega, ?_⟩
        · refine Steps.trans (Steps.trans r1 (Steps.one hstep)) (Steps.trans (Steps.one ?_) q1)
          simp only [splitStep, hp]
        · simpa [hp] using q3

/-- **`Split.run` realises `splitSpec`** -/
theorem split_produces (hb : GoodBufsize bufsize) (brs : List (Lena.C03.Branch σb α))
    {s : σ} {vals : List (α × Nat)} {cf : Nat} (h : Produces up cnt fu s vals cf)
    (hfu : 4 * vals.length + 5 < fu) :
    Produces (splitG bufsize copyBuf up) (fun t => cnt t.1) fu (s, splitInit brs)
      (splitSpec brs bufsize copyBuf ⟨cnt s, vals, cf⟩).vals cf := by
  have hpos : 0 < fu := by omega
  refine produces_of_calls (splitG bufsize copyBuf up) (fun t => cnt t.1) fu
    (fun t outs cf => ∃ Y j, Steps (splitStep bufsize copyBuf up fu) t j Y ∧ j + 1 < fu ∧
      SplitTerm bufsize copyBuf up cnt fu Y outs cf) ?_ ?_ _ (s, splitInit brs) cf ?_
  · rintro t cf ⟨⟨s', l⟩, j, hs, hj, hT⟩
    obtain ⟨n, hn⟩ : ∃ n, fu = n + 1 + j := ⟨fu - 1 - j, by omega⟩
    have e := hs (n + 1)
    rw [← hn] at e
    simp only [SplitTerm] at hT
    cases hph : l.phase with
    | emitting =>
      rw [hph] at hT
      obtain ⟨x, r, vals', fuel, _, _, _, _, _, _, ho⟩ := hT
      simp at ho
    | finalEmit =>
      rw [hph] at hT
      obtain ⟨ho, hc⟩ := hT
      have hpend : l.pending = [] := by
        cases hq : l.pending with
        | nil => rfl
        | cons x r => rw [hq] at ho; simp at ho
      refine ⟨(s', { l with phase := .finished }), ?_, ofStep_stop hpos (by simp [splitStep]), hc.symm⟩
      show iter (splitStep bufsize copyBuf up fu) fu t = _
      rw [e]
      exact iter_stop n (by simp [splitStep, hph, hpend])
    | finished =>
      rw [hph] at hT
      refine ⟨(s', l), ?_, ofStep_stop hpos (by simp [splitStep, hph]), hT.2.symm⟩
      show iter (splitStep bufsize copyBuf up fu) fu t = _
      rw [e]
      exact iter_stop n (by simp [splitStep, hph])
    | reading => rw [hph] at hT; exact absurd hT id
    | blockRead => rw [hph] at hT; exact absurd hT id
  · rintro t b c rest cf ⟨⟨s', l⟩, j, hs, hj, hT⟩
    obtain ⟨n, hn⟩ : ∃ n, fu = n + 1 + j := ⟨fu - 1 - j, by omega⟩
    have e := hs (n + 1)
    rw [← hn] at e
    simp only [SplitTerm] at hT
    cases hph : l.phase with
    | emitting =>
      rw [hph] at hT
      obtain ⟨x, r, vals', fuel, hpend, hbuf, hfwe, hv, hfuel, hfu', ho⟩ := hT
      simp only [List.map_cons, List.cons_append, List.cons.injEq, Prod.mk.injEq] at ho
      obtain ⟨⟨rfl, rfl⟩, rfl⟩ := ho
      refine ⟨(s', { l with pending := r }), ?_, rfl, ?_⟩
      · show iter (splitStep bufsize copyBuf up fu) fu t = _
        rw [e]
        exact iter_yield n (by simp [splitStep, hph, hpend])
      · cases r with
        | cons x' r' =>
          refine ⟨(s', { l with pending := x' :: r' }), 0, Steps.refl _ _, by omega, ?_⟩
          simp only [SplitTerm, hph]
          exact ⟨x', r', vals', fuel, rfl, hbuf, hfwe, hv, hfuel, hfu', rfl⟩
        | nil =>
          obtain ⟨Y, j2, q1, q2, q3⟩ := split_reach bufsize copyBuf up cnt fu hb fuel hv hfuel hfu' l.act l.cur l.last false
          refine ⟨Y, j2 + 1, Steps.trans (Steps.one ?_) q1, by omega, ?_⟩
          · have : ({ l with pending := [], phase := SPhase.reading } : SSt σb α)
                = { act := l.act, cur := l.cur, last := l.last, buf := [], pending := [], phase := .reading, fwe := false } := by
              cases l; simp_all
            rw [← this]
            simp [splitStep, hph]
          · simpa using q3
    | finalEmit =>
      rw [hph] at hT
      obtain ⟨ho, hc⟩ := hT
      cases hq : l.pending with
      | nil => rw [hq] at ho; simp at ho
      | cons x r =>
        rw [hq] at ho
        simp only [List.map_cons, List.cons.injEq, Prod.mk.injEq] at ho
        obtain ⟨⟨rfl, rfl⟩, rfl⟩ := ho
        refine ⟨(s', { l with pending := r }), ?_, rfl, (s', { l with pending := r }), 0, Steps.refl _ _, by omega, ?_⟩
        · show iter (splitStep bufsize copyBuf up fu) fu t = _
          rw [e]
          exact iter_yield n (by simp [splitStep, hph, hq])
        · simp only [SplitTerm, hph]
          exact ⟨trivial, hc⟩
    | finished => rw [hph] at hT; exact absurd hT.1 (by simp)
    | reading => rw [hph] at hT; exact absurd hT id
    | blockRead => rw [hph] at hT; exact absurd hT id
  · obtain ⟨Y, j, q1, q2, q3⟩ := split_reach bufsize copyBuf up cnt fu hb (vals.length + 1) h (Nat.le_refl _) hfu brs [] [] true
    exact ⟨Y, j, q1, by omega, q3⟩

end split2

end Lena.C02
