import LenaModel.Model.C07
import LenaModel.Lemmas.C07
/-! # C07 — helper lemmas: a level that exceeds the nesting depth does not limit anything -/
namespace Lena.C07
open Lena Lena.Val
variable {α : Type} [DecidableEq α]

/-- the level does not limit the recursion into a dictionary whose items have depth `≤ k`:
it is unlimited (negative) or larger than `k` -/
def LevelCovers (lv : Int) (k : Nat) : Prop := lv < 0 ∨ (k : Int) < lv

omit [DecidableEq α] in
theorem depthL_cons_some (v : Val α) (r : Slots α) : depthL (some v :: r) = max (depthV v) (depthL r) := by
  rw [depthL]

theorem LevelCovers.mono {lv : Int} {k k' : Nat} (h : LevelCovers lv k) (hk : k' ≤ k) : LevelCovers lv k' := by
  rcases h with h | h
  · exact Or.inl h
  · exact Or.inr (by omega)

theorem LevelCovers.pred {lv : Int} {k : Nat} (h : LevelCovers lv (1 + k)) : LevelCovers (lv - 1) k := by
  rcases h with h | h
  · exact Or.inl (by omega)
  · exact Or.inr (by omega)

theorem LevelCovers.ne_one {lv : Int} {k : Nat} (h : LevelCovers lv (1 + k)) : lv ≠ 1 := by
  rcases h with h | h <;> omega

mutual
theorem interO_level (lv lv' : Int) : ∀ (x y : Option (Val α)),
    (∀ v, x = some v → LevelCovers lv (depthV v) ∧ LevelCovers lv' (depthV v)) →
    interO lv x y = interO lv' x y
  | none, _, _ => by simp [interO]
  | some v, none, _ => by simp [interO]
  | some (.leaf a), some (.leaf b), _ => by simp [interO]
  | some (.leaf a), some (.dict y), _ => by simp [interO]
  | some (.dict x), some (.leaf b), _ => by simp [interO]
  | some (.dict x), some (.dict y), h => by
      obtain ⟨h1, h2⟩ := h _ rfl
      rw [depthV] at h1 h2
      have n1 := h1.ne_one
      have n2 := h2.ne_one
      have z1 : ¬ (lv - 1 = 0) := by omega
      have z2 : ¬ (lv' - 1 = 0) := by omega
      simp only [interO, n1, n2, z1, z2, if_false]
      rw [interL_level (lv - 1) (lv' - 1) x y h1.pred h2.pred]
theorem interL_level (lv lv' : Int) : ∀ (a b : Slots α),
    LevelCovers lv (depthL a) → LevelCovers lv' (depthL a) → interL lv a b = interL lv' a b
  | [], _, _, _ => by simp [interL]
  | none :: r, [], h1, h2 => by
      rw [depthL] at h1 h2
      simp [interL, interO, interL_level lv lv' r [] h1 h2]
  | none :: r, y :: r', h1, h2 => by
      rw [depthL] at h1 h2
      simp [interL, interO, interL_level lv lv' r r' h1 h2]
  | some v :: r, [], h1, h2 => by
      rw [depthL] at h1 h2
      simp [interL, interO, interL_level lv lv' r [] (h1.mono (Nat.le_max_right _ _)) (h2.mono (Nat.le_max_right _ _))]
  | some v :: r, y :: r', h1, h2 => by
      rw [depthL] at h1 h2
      have e1 := interO_level lv lv' (some v) y (by
        intro w hw; cases hw
        exact ⟨h1.mono (Nat.le_max_left _ _), h2.mono (Nat.le_max_left _ _)⟩)
      simp [interL, e1, interL_level lv lv' r r' (h1.mono (Nat.le_max_right _ _)) (h2.mono (Nat.le_max_right _ _))]
end

mutual
theorem contO_level (lv lv' : Int) : ∀ (x y : Option (Val α)),
    (∀ v, x = some v → LevelCovers lv (depthV v) ∧ LevelCovers lv' (depthV v)) →
    contO lv x y = contO lv' x y
  | none, _, _ => by rw [contO, contO]
  | some v, none, _ => by simp [contO]
  | some (.leaf a), some (.leaf b), _ => by simp [contO]
  | some (.leaf a), some (.dict y), _ => by simp [contO]
  | some (.dict x), some (.leaf b), _ => by simp [contO]
  | some (.dict x), some (.dict y), h => by
      obtain ⟨h1, h2⟩ := h _ rfl
      rw [depthV] at h1 h2
      have n1 := h1.ne_one
      have n2 := h2.ne_one
      simp only [contO]
      rw [contL_level (lv - 1) (lv' - 1) x y h1.pred h2.pred]
      simp [n1, n2]
theorem contL_level (lv lv' : Int) : ∀ (a b : Slots α),
    LevelCovers lv (depthL a) → LevelCovers lv' (depthL a) → contL lv a b = contL lv' a b
  | [], _, _, _ => by simp [contL]
  | none :: r, [], h1, h2 => by
      rw [depthL] at h1 h2
      simp [contL, contO, contL_level lv lv' r [] h1 h2]
  | none :: r, y :: r', h1, h2 => by
      rw [depthL] at h1 h2
      simp [contL, contO, contL_level lv lv' r r' h1 h2]
  | some v :: r, [], h1, h2 => by
      rw [depthL] at h1 h2
      simp [contL, contO]
  | some v :: r, y :: r', h1, h2 => by
      rw [depthL] at h1 h2
      have e1 := contO_level lv lv' (some v) y (by
        intro w hw; cases hw
        exact ⟨h1.mono (Nat.le_max_left _ _), h2.mono (Nat.le_max_left _ _)⟩)
      simp [contL, e1, contL_level lv lv' r r' (h1.mono (Nat.le_max_right _ _)) (h2.mono (Nat.le_max_right _ _))]
end

mutual
theorem diffSpecO_level (lv lv' : Int) : ∀ (x y : Option (Val α)),
    (∀ v, x = some v → LevelCovers lv (depthV v) ∧ LevelCovers lv' (depthV v)) →
    diffSpecO lv x y = diffSpecO lv' x y
  | none, _, _ => by simp [diffSpecO]
  | some v, none, _ => by simp [diffSpecO]
  | some (.leaf a), some (.leaf b), _ => by simp [diffSpecO, contO]
  | some (.leaf a), some (.dict y), _ => by simp [diffSpecO, contO]
  | some (.dict x), some (.leaf b), _ => by simp [diffSpecO, contO]
  | some (.dict x), some (.dict y), h => by
      have hc := contO_level lv lv' (some (.dict x)) (some (.dict y)) h
      obtain ⟨h1, h2⟩ := h _ rfl
      rw [depthV] at h1 h2
      have n1 := h1.ne_one
      have n2 := h2.ne_one
      simp only [diffSpecO, hc, n1, n2, if_false]
      rw [diffSpecL_level (lv - 1) (lv' - 1) x y h1.pred h2.pred]
theorem diffSpecL_level (lv lv' : Int) : ∀ (a b : Slots α),
    LevelCovers lv (depthL a) → LevelCovers lv' (depthL a) → diffSpecL lv a b = diffSpecL lv' a b
  | [], _, _, _ => by simp [diffSpecL]
  | none :: r, [], h1, h2 => by
      rw [depthL] at h1 h2
      simp [diffSpecL, diffSpecO, diffSpecL_level lv lv' r [] h1 h2]
  | none :: r, y :: r', h1, h2 => by
      rw [depthL] at h1 h2
      simp [diffSpecL, diffSpecO, diffSpecL_level lv lv' r r' h1 h2]
  | some v :: r, [], h1, h2 => by
      rw [depthL] at h1 h2
      simp [diffSpecL, diffSpecO, diffSpecL_level lv lv' r [] (h1.mono (Nat.le_max_right _ _)) (h2.mono (Nat.le_max_right _ _))]
  | some v :: r, y :: r', h1, h2 => by
      rw [depthL] at h1 h2
      have e1 := diffSpecO_level lv lv' (some v) y (by
        intro w hw; cases hw
        exact ⟨h1.mono (Nat.le_max_left _ _), h2.mono (Nat.le_max_left _ _)⟩)
      simp [diffSpecL, e1, diffSpecL_level lv lv' r r' (h1.mono (Nat.le_max_right _ _)) (h2.mono (Nat.le_max_right _ _))]
end

-- intersecting does not increase the depth
mutual
theorem depth_interO (lv : Int) : ∀ (x y : Option (Val α)) (v : Val α), x = some v →
    ∀ w, interO lv x y = some w → depthV w ≤ depthV v
  | none, _, _, h, _, _ => by simp at h
  | some v, none, _, _, w, hw => by simp [interO] at hw
  | some (.leaf a), some (.leaf b), v, h, w, hw => by
      cases h
      by_cases e : b = a <;> simp [interO, e] at hw
      subst hw; exact Nat.le_refl _
  | some (.leaf a), some (.dict y), _, _, w, hw => by simp [interO] at hw
  | some (.dict x), some (.leaf b), _, _, w, hw => by simp [interO] at hw
  | some (.dict x), some (.dict y), v, h, w, hw => by
      cases h
      by_cases e : y = x
      · simp [interO, e] at hw; subst hw; exact Nat.le_refl _
      · by_cases h1 : lv = 1
        · simp [interO, e, h1] at hw
        · have z : ¬ (lv - 1 = 0) := by omega
          simp [interO, e, h1, z] at hw
          subst hw
          rw [depthV, depthV]
          have := depth_interL (lv - 1) x y
          omega
theorem depth_interL (lv : Int) : ∀ (a b : Slots α), depthL (interL lv a b) ≤ depthL a
  | [], _ => by simp [interL]
  | none :: r, [] => by
      simp only [interL, interO, depthL]; exact depth_interL lv r []
  | none :: r, y :: r' => by
      simp only [interL, interO, depthL]; exact depth_interL lv r r'
  | some v :: r, [] => by
      simp only [interL, interO, depthL]
      have := depth_interL lv r []
      omega
  | some v :: r, y :: r' => by
      simp only [interL]
      have ih := depth_interL lv r r'
      cases hi : interO lv (some v) y with
      | none => rw [depthL, depthL]; omega
      | some w =>
        have := depth_interO lv (some v) y v rfl w hi
        rw [depthL, depthL]; omega
end

/-! ### limited containment implies unlimited containment -/

mutual
theorem contO_unlimited (lv lv' : Int) (h' : lv' < 0) : ∀ x y : Option (Val α),
    contO lv x y = true → contO lv' x y = true
  | none, _, _ => by rw [contO]
  | some _, none, h => by simp [contO] at h
  | some (.leaf a), some (.leaf b), h => by simpa [contO] using h
  | some (.leaf a), some (.dict y), h => by simp [contO] at h
  | some (.dict x), some (.leaf b), h => by simp [contO] at h
  | some (.dict x), some (.dict y), h => by
      simp [contO] at h ⊢
      rcases h with h | ⟨_, h⟩
      · exact Or.inl h
      · exact Or.inr ⟨by omega, contL_unlimited (lv - 1) (lv' - 1) (by omega) x y h⟩
theorem contL_unlimited (lv lv' : Int) (h' : lv' < 0) : ∀ a b : Slots α,
    contL lv a b = true → contL lv' a b = true
  | [], _, _ => by simp [contL]
  | x :: r, [], h => by
      simp [contL] at h ⊢
      exact ⟨contO_unlimited lv lv' h' x none h.1, contL_unlimited lv lv' h' r [] h.2⟩
  | x :: r, y :: r', h => by
      simp [contL] at h ⊢
      exact ⟨contO_unlimited lv lv' h' x y h.1, contL_unlimited lv lv' h' r r' h.2⟩
end

end Lena.C07
