import LenaModel.Lemmas.C13Pass
/-! # C13 lemmas, part 3 — well-formedness of the slot vectors

Structural equality of slot vectors is Python's `dict.__eq__` only between values whose dictionaries all have
the same number `n` of slots (`Val.WF n`); `intersection` compares with `==`.  Every context the protocol
computes is well formed, so the equality tests of the model are the equality tests of the code. -/

namespace Lena.C13
open Lena Lena.Val

theorem wfl_iff : ∀ (n : Nat) (l : Ctx), WFL n l ↔ ∀ v, some v ∈ l → WF n v
  | _, [] => by simp [WFL]
  | n, none :: r => by simp [WFL, wfl_iff n r]
  | n, some w :: r => by
    simp only [WFL, wfl_iff n r, List.mem_cons]
    constructor
    · rintro ⟨h1, h2⟩ v (hv | hv)
      · simp only [Option.some.injEq] at hv; subst hv; exact h1
      · exact h2 v hv
    · intro h
      exact ⟨h w (Or.inl rfl), fun v hv => h v (Or.inr hv)⟩

theorem wfl_replicate_none (n m : Nat) : WFL n (List.replicate m (none : Option V)) := by
  rw [wfl_iff]; intro v hv; simp [List.mem_replicate] at hv

theorem wfd_empty (n : Nat) : WFD n (Val.empty n : Ctx) :=
  ⟨by simp [Val.empty], wfl_replicate_none n n⟩

theorem single_wfd (n : Nat) : ∀ (ks : List Nat) (k : Nat) (l : Leaf), WFD n (single n k ks l)
  | [], k, l => by
    refine ⟨single_length n k [] l, ?_⟩
    rw [wfl_iff]; intro v hv
    simp only [single, List.mem_map] at hv
    obtain ⟨i, _, hi⟩ := hv
    split at hi
    · simp only [Option.some.injEq] at hi; subst hi; simp [WF]
    · simp at hi
  | k' :: ks, k, l => by
    refine ⟨single_length n k (k' :: ks) l, ?_⟩
    rw [wfl_iff]; intro v hv
    simp only [single, List.mem_map] at hv
    obtain ⟨i, _, hi⟩ := hv
    split at hi
    · simp only [Option.some.injEq] at hi; subst hi
      have := single_wfd n ks k' l
      simp only [WF]; exact this
    · simp at hi

mutual
theorem wfB_sound (n : Nat) : ∀ v : V, wfB n v = true → WF n v
  | .leaf _, _ => by simp [WF]
  | .dict l, h => by
    simp only [wfB, Bool.and_eq_true, beq_iff_eq] at h
    exact ⟨h.1, wfLB_sound n l h.2⟩
theorem wfLB_sound (n : Nat) : ∀ l : Ctx, wfLB n l = true → WFL n l
  | [], _ => by simp [WFL]
  | none :: r, h => by simp only [wfLB] at h; simpa [WFL] using wfLB_sound n r h
  | some v :: r, h => by
    simp only [wfLB, Bool.and_eq_true] at h
    exact ⟨wfB_sound n v h.1, wfLB_sound n r h.2⟩
end

/-- `str_to_dict(key, v)` of a well-formed value is a dictionary over the alphabet -/
theorem singleV_wfd (n : Nat) : ∀ (ks : List Nat) (k : Nat) (v : V), WF n v → WFD n (singleV n k ks v)
  | [], k, v, hw => by
    refine ⟨singleV_length n k [] v, ?_⟩
    rw [wfl_iff]; intro w hv
    simp only [singleV, List.mem_map] at hv
    obtain ⟨i, _, hi⟩ := hv
    split at hi
    · simp only [Option.some.injEq] at hi; subst hi; exact hw
    · simp at hi
  | k' :: ks, k, v, hw => by
    refine ⟨singleV_length n k (k' :: ks) v, ?_⟩
    rw [wfl_iff]; intro w hv
    simp only [singleV, List.mem_map] at hv
    obtain ⟨i, _, hi⟩ := hv
    split at hi
    · simp only [Option.some.injEq] at hi; subst hi
      have := singleV_wfd n ks k' v hw
      simp only [WF]; exact this
    · simp at hi

mutual
theorem updV_wf (n : Nat) : ∀ (v : V) (a : Option V), WFO n a → WF n v → WF n (updV a v)
  | .leaf _, _, _, _ => by simp [updV, WF]
  | .dict y, none, _, hv => by simpa [updV] using hv
  | .dict y, some (.leaf _), _, hv => by
    simp only [WF] at hv
    simp only [updV, WF, updL_length, emptyLike, List.length_replicate, Nat.max_self]
    exact ⟨hv.1, updL_wf n y _ (wfl_replicate_none n _) hv.2⟩
  | .dict y, some (.dict x), ha, hv => by
    simp only [WFO, WF] at ha hv
    simp only [updV, WF, updL_length, ha.1, hv.1, Nat.max_self]
    exact ⟨trivial, updL_wf n y x ha.2 hv.2⟩
theorem updO_wf (n : Nat) : ∀ (u a : Option V), WFO n a → WFO n u → WFO n (updO a u)
  | none, a, ha, _ => by simpa [updO] using ha
  | some v, a, ha, hv => by
    simp only [WFO] at hv
    simp only [updO, WFO]; exact updV_wf n v a ha hv
theorem updL_wf (n : Nat) : ∀ (u d : Ctx), WFL n d → WFL n u → WFL n (updL d u)
  | [], d, hd, _ => by simpa [updL] using hd
  | y :: r, [], _, hu => by
    have hy : WFO n y ∧ WFL n r := by cases y <;> simp_all [WFL, WFO]
    have h1 := updO_wf n y none (by simp [WFO]) hy.1
    have h2 := updL_wf n r [] (by simp [WFL]) hy.2
    simp only [updL]
    cases h : updO none y <;> simp_all [WFL, WFO]
  | y :: r, x :: d, hd, hu => by
    have hy : WFO n y ∧ WFL n r := by cases y <;> simp_all [WFL, WFO]
    have hx : WFO n x ∧ WFL n d := by cases x <;> simp_all [WFL, WFO]
    have h1 := updO_wf n y x hx.1 hy.1
    have h2 := updL_wf n r d hx.2 hy.2
    simp only [updL]
    cases h : updO x y <;> simp_all [WFL, WFO]
end

theorem updL_wfd (n : Nat) (d u : Ctx) (hd : WFD n d) (hu : WFD n u) : WFD n (updL d u) :=
  ⟨by rw [updL_length, hd.1, hu.1, Nat.max_self], updL_wf n u d hd.2 hu.2⟩

mutual
theorem interV_wf (n : Nat) : ∀ (v w : V), WF n v → WFO n (interV v w)
  | .leaf a, w, _ => by
    simp only [interV]; split <;> simp [WFO, WF]
  | .dict x, w, hv => by
    simp only [interV]; split
    · simpa [WFO] using hv
    · cases w with
      | leaf _ => simp [WFO]
      | dict y =>
        simp only [WF] at hv
        simp only [WFO, WF, interL_length]
        exact ⟨hv.1, interL_wf n x y hv.2⟩
theorem interO_wf (n : Nat) : ∀ (a b : Option V), WFO n a → WFO n (interO a b)
  | none, _, _ => by simp [interO, WFO]
  | some _, none, _ => by simp [interO, WFO]
  | some v, some w, ha => by
    simp only [WFO] at ha
    simp only [interO]; exact interV_wf n v w ha
theorem interL_wf (n : Nat) : ∀ (a b : Ctx), WFL n a → WFL n (interL a b)
  | [], _, _ => by simp [interL, WFL]
  | x :: r, [], ha => by
    have hx : WFO n x ∧ WFL n r := by cases x <;> simp_all [WFL, WFO]
    have h1 := interO_wf n x none hx.1
    have h2 := interL_wf n r [] hx.2
    simp only [interL]
    cases h : interO x none <;> simp_all [WFL, WFO]
  | x :: r, y :: b, ha => by
    have hx : WFO n x ∧ WFL n r := by cases x <;> simp_all [WFL, WFO]
    have h1 := interO_wf n x y hx.1
    have h2 := interL_wf n r b hx.2
    simp only [interL]
    cases h : interO x y <;> simp_all [WFL, WFO]
end

theorem interFold_wfd (n : Nat) : ∀ (ds : List Ctx) (res : Ctx), WFD n res → WFD n (interFold res ds)
  | [], res, h => by simpa [interFold] using h
  | d :: ds, res, h => by
    have h1 : WFD n (interL res d) := ⟨by rw [interL_length]; exact h.1, interL_wf n res d h.2⟩
    simp only [interFold]; split
    · exact interFold_wfd n ds _ h1
    · exact h1

theorem interN_wfd (n : Nat) (cs : List Ctx) (h : ∀ c ∈ cs, WFD n c) : WFD n (interN n cs) := by
  cases cs with
  | nil => exact wfd_empty n
  | cons c cs => simp only [interN]; exact interFold_wfd n cs c (h c (by simp))

theorem fmtUpdate_wfd (n k : Nat) (ks : List Nat) (v : SVal) (c x : Ctx) (hc : WFD n c) (hw : v.wf n = true)
    (hv : fmtUpdate n k ks v c = .ok x) : WFD n x := by
  cases v with
  | dictv y =>
    simp only [fmtUpdate] at hv; cases hv
    exact updL_wfd n c _ hc (singleV_wfd n ks k _ (wfB_sound n _ hw))
  | const l =>
    simp only [fmtUpdate] at hv; cases hv
    exact updL_wfd n c _ hc (single_wfd n ks k l)
  | tpl t =>
    simp only [fmtUpdate] at hv
    cases hf : fmt t c with
    | error e => simp [hf] at hv
    | ok l =>
      simp only [hf] at hv; cases hv
      exact updL_wfd n c _ hc (single_wfd n ks k l)

mutual
theorem fold_wfd (n : Nat) : ∀ (t : Tree) (c x : Ctx), t.valsWF n = true → WFD n c → fold n t c = .ok x → WFD n x
  | .leaf (.set k ks v), c, x, hw, h, hv => by
    simp only [fold, foldElem] at hv
    exact fmtUpdate_wfd n k ks v c x h (by simpa [Tree.valsWF] using hw) hv
  | .leaf .store, c, x, _, h, hv => by simp only [fold, foldElem] at hv; cases hv; exact h
  | .leaf .ucfs, c, x, _, h, hv => by simp only [fold, foldElem] at hv; cases hv; exact h
  | .leaf (.mkf _), c, x, _, h, hv => by simp only [fold, foldElem] at hv; cases hv; exact h
  | .leaf (.write _), c, x, _, h, hv => by simp only [fold, foldElem] at hv; cases hv; exact h
  | .leaf (.cache _), c, x, _, h, hv => by simp only [fold, foldElem] at hv; cases hv; exact h
  | .leaf .data, c, x, _, h, hv => by simp only [fold, foldElem] at hv; cases hv; exact h
  | .leaf (.mut ..), c, x, _, h, hv => by simp only [fold, foldElem] at hv; cases hv; exact h
  | .leaf .src, c, x, _, h, hv => by simp only [fold, foldElem] at hv; cases hv; exact h
  | .seq _ cs, c, x, hw, h, hv => by
    simp only [fold] at hv
    exact foldL_wfd n cs c x (by simpa [Tree.valsWF] using hw) h hv
  | .split bs, c, x, hw, h, hv => by
    simp only [fold] at hv
    have hw' : valsWFL n bs = true := by simpa [Tree.valsWF] using hw
    cases hb : foldB n bs c with
    | error e => simp [hb] at hv
    | ok xs =>
      simp only [hb] at hv
      cases hv
      exact interN_wfd n xs (foldB_wfd n bs c xs hw' h hb)
theorem foldL_wfd (n : Nat) : ∀ (ts : List Tree) (c x : Ctx), valsWFL n ts = true → WFD n c → foldL n ts c = .ok x →
    WFD n x
  | [], c, x, _, h, hv => by simp only [foldL] at hv; cases hv; exact h
  | t :: ts, c, x, hw, h, hv => by
    simp only [valsWFL, Bool.and_eq_true] at hw
    simp only [foldL] at hv
    cases ht : fold n t c with
    | error e => simp [ht] at hv
    | ok c' =>
      simp only [ht] at hv
      exact foldL_wfd n ts c' x hw.2 (fold_wfd n t c c' hw.1 h ht) hv
theorem foldB_wfd (n : Nat) : ∀ (bs : List Tree) (c : Ctx) (xs : List Ctx), valsWFL n bs = true → WFD n c →
    foldB n bs c = .ok xs → ∀ x ∈ xs, WFD n x
  | [], c, xs, _, h, hv => by simp only [foldB] at hv; cases hv; simp
  | b :: bs, c, xs, hw, h, hv => by
    simp only [valsWFL, Bool.and_eq_true] at hw
    simp only [foldB] at hv
    by_cases hg : b.hasGet = true
    · simp only [hg, if_true] at hv
      cases hb : fold n b c with
      | error e => simp [hb] at hv
      | ok x =>
        simp only [hb] at hv
        cases hr : foldB n bs c with
        | error e => simp [hr] at hv
        | ok xs' =>
          simp only [hr] at hv
          cases hv
          intro y hy
          simp only [List.mem_cons] at hy
          rcases hy with hy | hy
          · subst hy; exact fold_wfd n b c _ hw.1 h hb
          · exact foldB_wfd n bs c xs' hw.2 h hr y hy
    · simp only [hg] at hv
      exact foldB_wfd n bs c xs hw.2 h hv
end

theorem valsWFL_take (n : Nat) : ∀ (ts : List Tree) (i : Nat), valsWFL n ts = true → valsWFL n (ts.take i) = true
  | [], i, _ => by simp [valsWFL]
  | t :: ts, 0, _ => by simp [valsWFL]
  | t :: ts, i + 1, h => by
    simp only [valsWFL, Bool.and_eq_true, List.take_succ_cons] at h ⊢
    exact ⟨h.1, valsWFL_take n ts i h.2⟩

theorem valsWFL_get (n : Nat) : ∀ (ts : List Tree) (i : Nat) (t : Tree), valsWFL n ts = true → ts[i]? = some t →
    t.valsWF n = true
  | [], i, t, _, ht => by simp at ht
  | t0 :: ts, 0, t, h, ht => by
    simp only [valsWFL, Bool.and_eq_true] at h
    simp only [List.getElem?_cons_zero, Option.some.injEq] at ht; subst ht; exact h.1
  | t0 :: ts, i + 1, t, h, ht => by
    simp only [valsWFL, Bool.and_eq_true] at h
    simp only [List.getElem?_cons_succ] at ht
    exact valsWFL_get n ts i t h.2 ht

end Lena.C13
