import LenaModel.Model.C15
/-! # C15 — helper lemmas

* `beqV/beqL/beqO` are structural equality (hence `DecidableEq Val`);
* facts about `heads`, `tailsOf`, `tailsNE` (`_group_by_starting_prefixes`);
* what a successful `make` step looks like (`make_ok_inv`) and what it does with one key
  (`make_key_cases`: proper key / sub-tree / not mentioned);
* the recursion fuel `makeFuel` suffices. -/

namespace Lena.C15

/-! ### structural equality -/

mutual
theorem beqV_iff : ∀ a b : Val, beqV a b = true ↔ a = b
  | .leaf a, .leaf b => by simp [beqV]
  | .dict a, .dict b => by simp [beqV, beqL_iff a b]
  | .leaf _, .dict _ => by simp [beqV]
  | .dict _, .leaf _ => by simp [beqV]
theorem beqL_iff : ∀ a b : Slots, beqL a b = true ↔ a = b
  | [], [] => by simp [beqL]
  | x :: r, y :: r' => by simp [beqL, beqO_iff x y, beqL_iff r r']
  | [], _ :: _ => by simp [beqL]
  | _ :: _, [] => by simp [beqL]
theorem beqO_iff : ∀ a b : Option Val, beqO a b = true ↔ a = b
  | none, none => by simp [beqO]
  | some v, some w => by simp [beqO, beqV_iff v w]
  | none, some _ => by simp [beqO]
  | some _, none => by simp [beqO]
end

instance : DecidableEq Val := fun a b => decidable_of_iff _ (beqV_iff a b)

theorem beqL_eq_decide (a b : Slots) : beqL a b = decide (a = b) := by
  cases h : beqL a b with
  | true => simp [(beqL_iff a b).1 h]
  | false =>
    have : a ≠ b := fun e => by rw [(beqL_iff a b).2 e] at h; cases h
    simp [this]

/-! ### facts about heads / tails -/

theorem mem_heads (k : Nat) (ps : List Path) : k ∈ heads ps ↔ ∃ t, (k :: t) ∈ ps := by
  unfold heads
  simp only [List.mem_filterMap]
  constructor
  · rintro ⟨p, hp, hk⟩
    cases p with
    | nil => simp at hk
    | cons h t => simp at hk; subst hk; exact ⟨t, hp⟩
  · rintro ⟨t, ht⟩; exact ⟨k :: t, ht, by simp⟩

theorem mem_tailsOf (k : Nat) (ps : List Path) (t : Path) : t ∈ tailsOf k ps ↔ (k :: t) ∈ ps := by
  unfold tailsOf
  simp only [List.mem_filterMap]
  constructor
  · rintro ⟨p, hp, hk⟩
    cases p with
    | nil => simp at hk
    | cons h t' =>
      by_cases e : h = k
      · simp [e] at hk; subst hk; subst e; exact hp
      · simp [e] at hk
  · intro h; exact ⟨k :: t, h, by simp⟩

theorem mem_tailsNE (k : Nat) (ps : List Path) (t : Path) : t ∈ tailsNE k ps ↔ t ≠ [] ∧ (k :: t) ∈ ps := by
  simp only [tailsNE, List.mem_filter, mem_tailsOf, decide_eq_true_eq]
  exact And.comm

theorem tailsOf_nil_of_not_head (k : Nat) (ps : List Path) (h : k ∉ heads ps) : tailsOf k ps = [] := by
  apply List.eq_nil_iff_forall_not_mem.2
  intro t ht
  rw [mem_tailsOf] at ht
  exact h ((mem_heads k ps).2 ⟨t, ht⟩)

theorem tailsNE_nil_of_not_head (k : Nat) (ps : List Path) (h : k ∉ heads ps) : tailsNE k ps = [] := by
  simp [tailsNE, tailsOf_nil_of_not_head k ps h]

theorem single_not_mem_of_not_head (k : Nat) (ps : List Path) (h : k ∉ heads ps) : [k] ∉ ps := by
  intro hm; exact h ((mem_heads k ps).2 ⟨[], hm⟩)

theorem any_nil_tailsOf (k : Nat) (ps : List Path) : (tailsOf k ps).any (· = []) = decide ([k] ∈ ps) := by
  by_cases h : [k] ∈ ps
  · simp only [h, decide_true, List.any_eq_true, decide_eq_true_eq]
    exact ⟨[], (mem_tailsOf k ps []).2 h, rfl⟩
  · simp only [h, decide_false]
    cases hh : (tailsOf k ps).any (· = []) with
    | false => rfl
    | true =>
      simp only [List.any_eq_true, decide_eq_true_eq] at hh
      obtain ⟨t', ht', e⟩ := hh
      subst e
      exact absurd ((mem_tailsOf k ps []).1 ht') h

/-- `new_incl`: the polarity flips exactly when the key itself is listed in the opposite list -/
theorem newIncl_eq (k : Nat) (opp : List Path) (d : Bool) :
    newIncl k opp d = if [k] ∈ opp then !d else d := by
  unfold newIncl
  rw [any_nil_tailsOf]
  by_cases h : [k] ∈ opp <;> simp [h]

/-- no path is listed in both lists -/
def Disjoint (I E : List Path) : Prop := ∀ p, p ∈ I → p ∈ E → False

theorem disjoint_tails (k : Nat) (I E : List Path) (h : Disjoint I E) :
    Disjoint (tailsNE k I) (tailsNE k E) := by
  intro p hi he
  rw [mem_tailsNE] at hi he
  exact h (k :: p) hi.2 he.2

/-! ### one step of `make` -/

/-- lookup in the dictionary of sub-trees built by `make` -/
theorem lookupSub_built (g : Nat → Made) (k : Nat) :
    ∀ (l : List Nat), (∀ k' ∈ l, ∃ t, g k' = .ok t) →
      lookupSub k ((l.map (fun k => (k, g k))).filterMap (fun kt => kt.2.tree?.map (fun t => (kt.1, t)))) =
        if k ∈ l then (g k).tree? else none
  | [], _ => by simp [lookupSub]
  | k' :: r, h => by
    obtain ⟨t, hg⟩ := h k' (by simp)
    have ht : (g k').tree? = some t := by rw [hg]; rfl
    have ih := lookupSub_built g k r (fun x hx => h x (by simp [hx]))
    simp only [List.map_cons, List.filterMap_cons, ht, Option.map_some]
    by_cases e : k = k'
    · subst e; simp [lookupSub, ht]
    · simp only [lookupSub, e, if_false, ih]
      simp [e]

/-- the three things a tree built by one step of `make` can do with a key `k`
(`opp` = `subkeys`, the list of the polarity opposite to the default; `same` = `subsubs`) -/
inductive KeyCase (opp same : List Path) (g : Nat → Made) (keys : List Nat) (subs : List (Nat × Tree))
    (k : Nat) : Prop where
  /-- `k` is a proper key: listed itself, nothing listed below it -/
  | proper (hc : keys.contains k = true) (hk : [k] ∈ opp) (ht : tailsNE k opp = [])
      (hs : tailsNE k same = []) (hn : [k] ∉ same)
  /-- `k` has a sub-tree, built by the recursive call -/
  | sub (t : Tree) (hc : keys.contains k = false) (hg : g k = .ok t) (hl : lookupSub k subs = some t)
  /-- `k` is not mentioned -/
  | absent (hc : keys.contains k = false) (hl : lookupSub k subs = none)
      (ho : k ∉ heads opp) (hs : k ∉ heads same)

theorem make_key_cases (opp same : List Path) (g : Nat → Made)
    (hextra : ∀ x, x ∈ heads same → x ∈ heads opp)
    (hall : ∀ x, x ∈ heads opp → isProper x opp same = false → ∃ t, g x = .ok t) (k : Nat) :
    KeyCase opp same g
      (((heads opp).eraseDups).filter (fun k => isProper k opp same))
      ((((heads opp).eraseDups).filter (fun k => !isProper k opp same)).map (fun k => (k, g k))
        |>.filterMap (fun kt => kt.2.tree?.map (fun t => (kt.1, t)))) k := by
  have hall' : ∀ k' ∈ List.filter (fun k => !isProper k opp same) (heads opp).eraseDups,
      ∃ t, g k' = .ok t := by
    intro k' hk'
    simp only [List.mem_filter, List.mem_eraseDups, Bool.not_eq_true'] at hk'
    exact hall k' hk'.1 hk'.2
  have hlk := lookupSub_built g k _ hall'
  by_cases hk : k ∈ heads opp
  · by_cases hp : isProper k opp same = true
    · have hc : (List.filter (fun k => isProper k opp same) (heads opp).eraseDups).contains k = true := by
        simp [List.mem_filter, List.mem_eraseDups, hk, hp]
      simp only [isProper, Bool.and_eq_true, decide_eq_true_eq, Bool.not_eq_true', List.contains_eq_mem,
        decide_eq_false_iff_not] at hp
      obtain ⟨ht, hnS⟩ := hp
      exact .proper hc ((mem_tailsOf k opp []).1 (by rw [ht]; simp)) (by simp [tailsNE, ht])
        (tailsNE_nil_of_not_head k same hnS) (single_not_mem_of_not_head k same hnS)
    · have hp' : isProper k opp same = false := by simpa using hp
      have hc : (List.filter (fun k => isProper k opp same) (heads opp).eraseDups).contains k = false := by
        simp [List.mem_filter, hp']
      obtain ⟨t, hg⟩ := hall k hk hp'
      have hmem : k ∈ List.filter (fun k => !isProper k opp same) (heads opp).eraseDups := by
        simp [List.mem_filter, List.mem_eraseDups, hk, hp']
      rw [if_pos hmem, hg] at hlk
      exact .sub t hc hg hlk
  · have hc : (List.filter (fun k => isProper k opp same) (heads opp).eraseDups).contains k = false := by
      simp [List.mem_filter, List.mem_eraseDups, hk]
    have hnm : k ∉ List.filter (fun k => !isProper k opp same) (heads opp).eraseDups := by
      simp [List.mem_filter, List.mem_eraseDups, hk]
    rw [if_neg hnm] at hlk
    exact .absent hc hlk hk (fun h => hk (hextra k h))

/-- the body of `_make_include_exclude_tree` with the recursive call abstracted as `g`
(`opp` = `subkeys`, `same` = `subsubs`) -/
def makeStep (opp same : List Path) (d : Bool) (g : Nat → Made) : Made :=
  if (heads same).any (fun k => !(heads opp).contains k) then .valueError
  else
    let ks := (heads opp).eraseDups
    let keys := ks.filter (fun k => isProper k opp same)
    let subs := (ks.filter (fun k => !isProper k opp same)).map (fun k => (k, g k))
    if subs.any (fun kt => kt.2.isFuel) then .fuel
    else if subs.any (fun kt => kt.2.isValueError) then .valueError
    else .ok (.node d keys (subs.filterMap (fun kt => kt.2.tree?.map (fun t => (kt.1, t)))))

theorem make_succ (f : Nat) (I E : List Path) (d : Bool) :
    make (f + 1) I E d = makeStep (if d then E else I) (if d then I else E) d
      (fun k => make f (tailsNE k I) (tailsNE k E) (newIncl k (if d then E else I) d)) := by
  rw [make]; rfl

/-- what a successful step of `_make_include_exclude_tree` means -/
theorem makeStep_ok_inv {opp same : List Path} {d : Bool} {g : Nat → Made} {T : Tree}
    (h : makeStep opp same d g = .ok T) :
    (∀ x, x ∈ heads same → x ∈ heads opp) ∧
    (∀ x, x ∈ heads opp → isProper x opp same = false → ∃ t, g x = .ok t) ∧
    T = .node d (((heads opp).eraseDups).filter (fun k => isProper k opp same))
      ((((heads opp).eraseDups).filter (fun k => !isProper k opp same)).map (fun k => (k, g k))
        |>.filterMap (fun kt => kt.2.tree?.map (fun t => (kt.1, t)))) := by
  unfold makeStep at h
  simp only [] at h
  by_cases hextra : ((heads same).any fun k => !(heads opp).contains k) = true
  · rw [if_pos hextra] at h; cases h
  · rw [if_neg hextra] at h
    by_cases hfuel : ((List.map (fun k => (k, g k))
        (List.filter (fun k => !isProper k opp same) (heads opp).eraseDups)).any fun kt => kt.snd.isFuel) = true
    · rw [if_pos hfuel] at h; cases h
    · rw [if_neg hfuel] at h
      by_cases hve : ((List.map (fun k => (k, g k))
          (List.filter (fun k => !isProper k opp same) (heads opp).eraseDups)).any
            fun kt => kt.snd.isValueError) = true
      · rw [if_pos hve] at h; cases h
      · rw [if_neg hve] at h
        refine ⟨?_, ?_, ?_⟩
        · intro x hx
          simp only [List.any_eq_true, Bool.not_eq_true', List.contains_eq_mem, decide_eq_false_iff_not,
            not_exists, not_and, Classical.not_not] at hextra
          exact hextra x hx
        · intro x hx hp
          simp only [List.any_eq_true, not_exists, not_and, Bool.not_eq_true] at hfuel hve
          have hm : (x, g x) ∈ List.map (fun k => (k, g k))
              (List.filter (fun k => !isProper k opp same) (heads opp).eraseDups) := by
            simp only [List.mem_map, List.mem_filter, List.mem_eraseDups, Bool.not_eq_true']
            exact ⟨x, ⟨hx, hp⟩, rfl⟩
          have h1 := hfuel _ hm
          have h2 := hve _ hm
          cases hg : g x with
          | ok t => exact ⟨t, rfl⟩
          | valueError => simp [hg, Made.isValueError] at h2
          | fuel => simp [hg, Made.isFuel] at h1
        · injection h with h
          exact h.symm

theorem makeStep_not_fuel {opp same : List Path} {d : Bool} {g : Nat → Made}
    (h : ∀ k ∈ heads opp, (g k).isFuel = false) : (makeStep opp same d g).isFuel = false := by
  unfold makeStep
  simp only []
  by_cases hextra : ((heads same).any fun k => !(heads opp).contains k) = true
  · rw [if_pos hextra]; rfl
  · rw [if_neg hextra]
    have hfuel : ¬ ((List.map (fun k => (k, g k))
        (List.filter (fun k => !isProper k opp same) (heads opp).eraseDups)).any fun kt => kt.snd.isFuel) = true := by
      simp only [List.any_eq_true, List.mem_map, List.mem_filter, List.mem_eraseDups]
      rintro ⟨kt, ⟨k, ⟨hk, _⟩, rfl⟩, hf⟩
      rw [h k hk] at hf
      cases hf
    rw [if_neg hfuel]
    split <;> rfl

/-! ### the fuel -/

theorem depthOf_le {ps : List Path} {p : Path} (h : p ∈ ps) : p.length ≤ depthOf ps := by
  induction ps with
  | nil => cases h
  | cons q r ih =>
    simp only [depthOf, List.foldr_cons] at ih ⊢
    rcases List.mem_cons.1 h with rfl | h
    · omega
    · have := ih h; omega

theorem depthOf_le_of {ps : List Path} {n : Nat} (h : ∀ p ∈ ps, p.length ≤ n) : depthOf ps ≤ n := by
  induction ps with
  | nil => simp [depthOf]
  | cons q r ih =>
    have h1 := h q (by simp)
    have h2 := ih (fun p hp => h p (by simp [hp]))
    simp only [depthOf, List.foldr_cons] at h2 ⊢
    omega

theorem depthOf_tailsNE (k : Nat) (ps : List Path) : depthOf (tailsNE k ps) ≤ depthOf ps - 1 := by
  apply depthOf_le_of
  intro p hp
  rw [mem_tailsNE] at hp
  have := depthOf_le hp.2
  simp at this
  omega

theorem depth_pos_of_head {k : Nat} {ps : List Path} (h : k ∈ heads ps) : 1 ≤ depthOf ps := by
  obtain ⟨t, ht⟩ := (mem_heads k ps).1 h
  have := depthOf_le ht
  simp at this
  omega

/-- with more fuel than the longest listed path, `make` does not run out of fuel -/
theorem make_not_fuel : ∀ (f : Nat) (I E : List Path) (d : Bool),
    max (depthOf I) (depthOf E) < f → (make f I E d).isFuel = false
  | 0, _, _, _, h => by omega
  | f + 1, I, E, d, h => by
    rw [make_succ]
    apply makeStep_not_fuel
    intro k hk
    have h1 := depthOf_tailsNE k I
    have h2 := depthOf_tailsNE k E
    apply make_not_fuel f
    cases d
    · have hpos := depth_pos_of_head (show k ∈ heads I from hk); omega
    · have hpos := depth_pos_of_head (show k ∈ heads E from hk); omega

end Lena.C15
