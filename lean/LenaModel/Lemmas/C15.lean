import LenaModel.Model.C15
import LenaModel.Model.C15Spec
/-! # C15 — helper lemmas

About the model alone:
* facts about `heads`, `tailsOf`, `tailsNE` (`_group_by_starting_prefixes`);
* what a successful `make` step looks like (`makeStep_ok_inv`) and what it does with one key
  (`make_key_cases`: proper key / sub-tree / not mentioned); the recursion fuel `makeFuel` suffices;
* `List.eraseDups` has no duplicates; `groupsAdd` on a dictionary with distinct keys.

Connecting the model with the specification vocabulary of `Model/C15Spec.lean`:
* `mk_sem`/`items_sem` (objects built by `Selector.__init__` evaluate to `sem`), construction errors,
  `sem_false`/`sem_total` (boolean form), `getRecGo_eq_valAt`, `containsGo_spec`;
* `sel_eq_polarity'`, `make_spec` (the tree built by `make` computes `keepL (sel I E d)`);
* `atPath_keepL`, `keepV_none_iff`, `keepV_congr`/`keepL_congr` (the selected part, path by path);
* `foldl_groupsOf`, `flatten_filters_perm` (the dictionary of groups). -/

namespace Lena.C15

theorem beqL_eq_decide (a b : Slots) : beqL a b = decide (a = b) := by
  cases h : beqL a b with
  | true => simp [(beqL_iff a b).1 h]
  | false =>
    have : a ≠ b := fun e => by rw [(beqL_iff a b).2 e] at h; cases h
    simp [this]

/-! ### facts about heads / tails -/

theorem mem_heads (k : Nat) (ps : List Path) : k ∈ heads ps ↔ ∃ t, (k :: t) ∈ ps := by
  unfold heads
  simp only [List.mem_filterMap]
  constructor
  · rintro ⟨p, hp, hk⟩
    cases p with
    | nil => simp at hk
    | cons h t => simp at hk; subst hk; exact ⟨t, hp⟩
  · rintro ⟨t, ht⟩; exact ⟨k :: t, ht, by simp⟩

theorem mem_tailsOf (k : Nat) (ps : List Path) (t : Path) : t ∈ tailsOf k ps ↔ (k :: t) ∈ ps := by
  unfold tailsOf
  simp only [List.mem_filterMap]
  constructor
  · rintro ⟨p, hp, hk⟩
    cases p with
    | nil => simp at hk
    | cons h t' =>
      by_cases e : h = k
      · simp [e] at hk; subst hk; subst e; exact hp
      · simp [e] at hk
  · intro h; exact ⟨k :: t, h, by simp⟩

theorem mem_tailsNE (k : Nat) (ps : List Path) (t : Path) : t ∈ tailsNE k ps ↔ t ≠ [] ∧ (k :: t) ∈ ps := by
  simp only [tailsNE, List.mem_filter, mem_tailsOf, decide_eq_true_eq]
  exact And.comm

theorem tailsOf_nil_of_not_head (k : Nat) (ps : List Path) (h : k ∉ heads ps) : tailsOf k ps = [] := by
  apply List.eq_nil_iff_forall_not_mem.2
  intro t ht
  rw [mem_tailsOf] at ht
  exact h ((mem_heads k ps).2 ⟨t, ht⟩)

theorem tailsNE_nil_of_not_head (k : Nat) (ps : List Path) (h : k ∉ heads ps) : tailsNE k ps = [] := by
  simp [tailsNE, tailsOf_nil_of_not_head k ps h]

theorem single_not_mem_of_not_head (k : Nat) (ps : List Path) (h : k ∉ heads ps) : [k] ∉ ps := by
  intro hm; exact h ((mem_heads k ps).2 ⟨[], hm⟩)

theorem any_nil_tailsOf (k : Nat) (ps : List Path) : (tailsOf k ps).any (· = []) = decide ([k] ∈ ps) := by
  by_cases h : [k] ∈ ps
  · simp only [h, decide_true, List.any_eq_true, decide_eq_true_eq]
    exact ⟨[], (mem_tailsOf k ps []).2 h, rfl⟩
  · simp only [h, decide_false]
    cases hh : (tailsOf k ps).any (· = []) with
    | false => rfl
    | true =>
      simp only [List.any_eq_true, decide_eq_true_eq] at hh
      obtain ⟨t', ht', e⟩ := hh
      subst e
      exact absurd ((mem_tailsOf k ps []).1 ht') h

/-- `new_incl`: the polarity flips exactly when the key itself is listed in the opposite list -/
theorem newIncl_eq (k : Nat) (opp : List Path) (d : Bool) :
    newIncl k opp d = if [k] ∈ opp then !d else d := by
  unfold newIncl
  rw [any_nil_tailsOf]
  by_cases h : [k] ∈ opp <;> simp [h]

theorem disjoint_tails (k : Nat) (I E : List Path) (h : Disjoint I E) :
    Disjoint (tailsNE k I) (tailsNE k E) := by
  intro p hi he
  rw [mem_tailsNE] at hi he
  exact h (k :: p) hi.2 he.2

/-! ### one step of `make` -/

/-- lookup in the dictionary of sub-trees built by `make` -/
theorem lookupSub_built (g : Nat → Made) (k : Nat) :
    ∀ (l : List Nat), (∀ k' ∈ l, ∃ t, g k' = .ok t) →
      lookupSub k ((l.map (fun k => (k, g k))).filterMap (fun kt => kt.2.tree?.map (fun t => (kt.1, t)))) =
        if k ∈ l then (g k).tree? else none
  | [], _ => by simp [lookupSub]
  | k' :: r, h => by
    obtain ⟨t, hg⟩ := h k' (by simp)
    have ht : (g k').tree? = some t := by rw [hg]; rfl
    have ih := lookupSub_built g k r (fun x hx => h x (by simp [hx]))
    simp only [List.map_cons, List.filterMap_cons, ht, Option.map_some]
    by_cases e : k = k'
    · subst e; simp [lookupSub, ht]
    · simp only [lookupSub, e, if_false, ih]
      simp [e]

/-- the three things a tree built by one step of `make` can do with a key `k`
(`opp` = `subkeys`, the list of the polarity opposite to the default; `same` = `subsubs`) -/
inductive KeyCase (opp same : List Path) (g : Nat → Made) (keys : List Nat) (subs : List (Nat × Tree))
    (k : Nat) : Prop where
  /-- `k` is a proper key: listed itself, nothing listed below it -/
  | proper (hc : keys.contains k = true) (hk : [k] ∈ opp) (ht : tailsNE k opp = [])
      (hs : tailsNE k same = []) (hn : [k] ∉ same)
  /-- `k` has a sub-tree, built by the recursive call -/
  | sub (t : Tree) (hc : keys.contains k = false) (hg : g k = .ok t) (hl : lookupSub k subs = some t)
  /-- `k` is not mentioned -/
  | absent (hc : keys.contains k = false) (hl : lookupSub k subs = none)
      (ho : k ∉ heads opp) (hs : k ∉ heads same)

theorem make_key_cases (opp same : List Path) (g : Nat → Made)
    (hextra : ∀ x, x ∈ heads same → x ∈ heads opp)
    (hall : ∀ x, x ∈ heads opp → isProper x opp same = false → ∃ t, g x = .ok t) (k : Nat) :
    KeyCase opp same g
      (((heads opp).eraseDups).filter (fun k => isProper k opp same))
      ((((heads opp).eraseDups).filter (fun k => !isProper k opp same)).map (fun k => (k, g k))
        |>.filterMap (fun kt => kt.2.tree?.map (fun t => (kt.1, t)))) k := by
  have hall' : ∀ k' ∈ List.filter (fun k => !isProper k opp same) (heads opp).eraseDups,
      ∃ t, g k' = .ok t := by
    intro k' hk'
    simp only [List.mem_filter, List.mem_eraseDups, Bool.not_eq_true'] at hk'
    exact hall k' hk'.1 hk'.2
  have hlk := lookupSub_built g k _ hall'
  by_cases hk : k ∈ heads opp
  · by_cases hp : isProper k opp same = true
    · have hc : (List.filter (fun k => isProper k opp same) (heads opp).eraseDups).contains k = true := by
        simp [List.mem_filter, List.mem_eraseDups, hk, hp]
      simp only [isProper, Bool.and_eq_true, decide_eq_true_eq, Bool.not_eq_true', List.contains_eq_mem,
        decide_eq_false_iff_not] at hp
      obtain ⟨ht, hnS⟩ := hp
      exact .proper hc ((mem_tailsOf k opp []).1 (by rw [ht]; simp)) (by simp [tailsNE, ht])
        (tailsNE_nil_of_not_head k same hnS) (single_not_mem_of_not_head k same hnS)
    · have hp' : isProper k opp same = false := by simpa using hp
      have hc : (List.filter (fun k => isProper k opp same) (heads opp).eraseDups).contains k = false := by
        simp [List.mem_filter, hp']
      obtain ⟨t, hg⟩ := hall k hk hp'
      have hmem : k ∈ List.filter (fun k => !isProper k opp same) (heads opp).eraseDups := by
        simp [List.mem_filter, List.mem_eraseDups, hk, hp']
      rw [if_pos hmem, hg] at hlk
      exact .sub t hc hg hlk
  · have hc : (List.filter (fun k => isProper k opp same) (heads opp).eraseDups).contains k = false := by
      simp [List.mem_filter, List.mem_eraseDups, hk]
    have hnm : k ∉ List.filter (fun k => !isProper k opp same) (heads opp).eraseDups := by
      simp [List.mem_filter, List.mem_eraseDups, hk]
    rw [if_neg hnm] at hlk
    exact .absent hc hlk hk (fun h => hk (hextra k h))

/-- the body of `_make_include_exclude_tree` with the recursive call abstracted as `g`
(`opp` = `subkeys`, `same` = `subsubs`) -/
def makeStep (opp same : List Path) (d : Bool) (g : Nat → Made) : Made :=
  if (heads same).any (fun k => !(heads opp).contains k) then .valueError
  else
    let ks := (heads opp).eraseDups
    let keys := ks.filter (fun k => isProper k opp same)
    let subs := (ks.filter (fun k => !isProper k opp same)).map (fun k => (k, g k))
    if subs.any (fun kt => kt.2.isFuel) then .fuel
    else if subs.any (fun kt => kt.2.isValueError) then .valueError
    else .ok (.node d keys (subs.filterMap (fun kt => kt.2.tree?.map (fun t => (kt.1, t)))))

theorem make_succ (f : Nat) (I E : List Path) (d : Bool) :
    make (f + 1) I E d = makeStep (if d then E else I) (if d then I else E) d
      (fun k => make f (tailsNE k I) (tailsNE k E) (newIncl k (if d then E else I) d)) := by
  rw [make]; rfl

/-- what a successful step of `_make_include_exclude_tree` means -/
theorem makeStep_ok_inv {opp same : List Path} {d : Bool} {g : Nat → Made} {T : Tree}
    (h : makeStep opp same d g = .ok T) :
    (∀ x, x ∈ heads same → x ∈ heads opp) ∧
    (∀ x, x ∈ heads opp → isProper x opp same = false → ∃ t, g x = .ok t) ∧
    T = .node d (((heads opp).eraseDups).filter (fun k => isProper k opp same))
      ((((heads opp).eraseDups).filter (fun k => !isProper k opp same)).map (fun k => (k, g k))
        |>.filterMap (fun kt => kt.2.tree?.map (fun t => (kt.1, t)))) := by
  unfold makeStep at h
  simp only [] at h
  by_cases hextra : ((heads same).any fun k => !(heads opp).contains k) = true
  · rw [if_pos hextra] at h; cases h
  · rw [if_neg hextra] at h
    by_cases hfuel : ((List.map (fun k => (k, g k))
        (List.filter (fun k => !isProper k opp same) (heads opp).eraseDups)).any fun kt => kt.snd.isFuel) = true
    · rw [if_pos hfuel] at h; cases h
    · rw [if_neg hfuel] at h
      by_cases hve : ((List.map (fun k => (k, g k))
          (List.filter (fun k => !isProper k opp same) (heads opp).eraseDups)).any
            fun kt => kt.snd.isValueError) = true
      · rw [if_pos hve] at h; cases h
      · rw [if_neg hve] at h
        refine ⟨?_, ?_, ?_⟩
        · intro x hx
          simp only [List.any_eq_true, Bool.not_eq_true', List.contains_eq_mem, decide_eq_false_iff_not,
            not_exists, not_and, Classical.not_not] at hextra
          exact hextra x hx
        · intro x hx hp
          simp only [List.any_eq_true, not_exists, not_and, Bool.not_eq_true] at hfuel hve
          have hm : (x, g x) ∈ List.map (fun k => (k, g k))
              (List.filter (fun k => !isProper k opp same) (heads opp).eraseDups) := by
            simp only [List.mem_map, List.mem_filter, List.mem_eraseDups, Bool.not_eq_true']
            exact ⟨x, ⟨hx, hp⟩, rfl⟩
          have h1 := hfuel _ hm
          have h2 := hve _ hm
          cases hg : g x with
          | ok t => exact ⟨t, rfl⟩
          | valueError => simp [hg, Made.isValueError] at h2
          | fuel => simp [hg, Made.isFuel] at h1
        · injection h with h
          exact h.symm

theorem makeStep_not_fuel {opp same : List Path} {d : Bool} {g : Nat → Made}
    (h : ∀ k ∈ heads opp, (g k).isFuel = false) : (makeStep opp same d g).isFuel = false := by
  unfold makeStep
  simp only []
  by_cases hextra : ((heads same).any fun k => !(heads opp).contains k) = true
  · rw [if_pos hextra]; rfl
  · rw [if_neg hextra]
    have hfuel : ¬ ((List.map (fun k => (k, g k))
        (List.filter (fun k => !isProper k opp same) (heads opp).eraseDups)).any fun kt => kt.snd.isFuel) = true := by
      simp only [List.any_eq_true, List.mem_map, List.mem_filter, List.mem_eraseDups]
      rintro ⟨kt, ⟨k, ⟨hk, _⟩, rfl⟩, hf⟩
      rw [h k hk] at hf
      cases hf
    rw [if_neg hfuel]
    split <;> rfl

/-! ### the fuel -/

theorem depthOf_le {ps : List Path} {p : Path} (h : p ∈ ps) : p.length ≤ depthOf ps := by
  induction ps with
  | nil => cases h
  | cons q r ih =>
    simp only [depthOf, List.foldr_cons] at ih ⊢
    rcases List.mem_cons.1 h with rfl | h
    · omega
    · have := ih h; omega

theorem depthOf_le_of {ps : List Path} {n : Nat} (h : ∀ p ∈ ps, p.length ≤ n) : depthOf ps ≤ n := by
  induction ps with
  | nil => simp [depthOf]
  | cons q r ih =>
    have h1 := h q (by simp)
    have h2 := ih (fun p hp => h p (by simp [hp]))
    simp only [depthOf, List.foldr_cons] at h2 ⊢
    omega

theorem depthOf_tailsNE (k : Nat) (ps : List Path) : depthOf (tailsNE k ps) ≤ depthOf ps - 1 := by
  apply depthOf_le_of
  intro p hp
  rw [mem_tailsNE] at hp
  have := depthOf_le hp.2
  simp at this
  omega

theorem depth_pos_of_head {k : Nat} {ps : List Path} (h : k ∈ heads ps) : 1 ≤ depthOf ps := by
  obtain ⟨t, ht⟩ := (mem_heads k ps).1 h
  have := depthOf_le ht
  simp at this
  omega

/-- with more fuel than the longest listed path, `make` does not run out of fuel -/
theorem make_not_fuel : ∀ (f : Nat) (I E : List Path) (d : Bool),
    max (depthOf I) (depthOf E) < f → (make f I E d).isFuel = false
  | 0, _, _, _, h => by omega
  | f + 1, I, E, d, h => by
    rw [make_succ]
    apply makeStep_not_fuel
    intro k hk
    have h1 := depthOf_tailsNE k I
    have h2 := depthOf_tailsNE k E
    apply make_not_fuel f
    cases d
    · have hpos := depth_pos_of_head (show k ∈ heads I from hk); omega
    · have hpos := depth_pos_of_head (show k ∈ heads E from hk); omega

/-! ### groups: `List.eraseDups` and `groupsAdd` -/

theorem not_mem_eraseDups_filter {α : Type} [BEq α] [LawfulBEq α] (a : α) (l : List α) :
    a ∉ (l.filter (fun b => !b == a)).eraseDups := by
  rw [List.mem_eraseDups, List.mem_filter]
  rintro ⟨_, h⟩
  simp at h

theorem nodup_eraseDups {α : Type} [BEq α] [LawfulBEq α] : ∀ (l : List α), l.eraseDups.Nodup
  | [] => by simp
  | a :: l => by
    rw [List.eraseDups_cons, List.nodup_cons]
    have : (l.filter (fun b => !b == a)).length < (a :: l).length :=
      Nat.lt_succ_of_le (List.length_filter_le _ _)
    exact ⟨not_mem_eraseDups_filter a l, nodup_eraseDups _⟩
termination_by l => l.length

theorem eraseDups_snoc {α : Type} [BEq α] [LawfulBEq α] (l : List α) (a : α) :
    (l ++ [a]).eraseDups = l.eraseDups ++ (if a ∈ l then [] else [a]) := by
  rw [List.eraseDups_append]
  congr 1
  by_cases h : a ∈ l
  · simp [List.removeAll, h]
  · simp [List.removeAll, h, List.eraseDups_cons]

/-- `groupsAdd` on a dictionary with distinct keys: the group of `kk` gets `v` appended; a new group is
appended at the end if there is none -/
theorem groupsAdd_map (kk : Slots) (v : Item) (F : Slots → List Item) : ∀ (L : List Slots), L.Nodup →
    groupsAdd kk v (L.map (fun k => (k, F k))) =
      L.map (fun k => (k, F k ++ if kk = k then [v] else [])) ++ (if kk ∈ L then [] else [(kk, [v])])
  | [], _ => by simp [groupsAdd]
  | k :: L, hn => by
    rw [List.nodup_cons] at hn
    simp only [List.map_cons, groupsAdd, beqL_eq_decide]
    by_cases e : kk = k
    · subst e
      simp only [decide_true, if_true, List.mem_cons, true_or, List.append_nil, List.cons.injEq, true_and]
      apply List.map_congr_left
      intro k' hk'
      have : kk ≠ k' := fun e => hn.1 (e ▸ hk')
      simp [this]
    · have ih := groupsAdd_map kk v F L hn.2
      simp only [e, decide_false, Bool.false_eq_true, if_false, List.append_nil, ih, List.mem_cons, false_or,
        List.cons_append]


/-! ## Part 1 — selectors -/

theorem absorb_idem (r : Bool) (x : Res) : absorb r (absorb r x) = absorb r x := by
  cases x <;> cases r <;> simp [absorb]

section Sem
variable (names : List String)

theorem getRecGo_eq_valAt : ∀ (ks : List String) (d : Slots), getRecGo names d ks = valAt names (.dict d) ks
  | [], d => by simp [getRecGo, valAt]
  | [k], d => by
    simp only [getRecGo, valAt]
    cases lookupKey names d k with
    | none => simp
    | some w => simp
  | k :: k' :: rest, d => by
    simp only [getRecGo, valAt]
    cases h : lookupKey names d k with
    | none => simp
    | some w =>
      cases w with
      | leaf a => simp [valAt]
      | dict l => simp [getRecGo_eq_valAt (k' :: rest) l]

/-- `SelectContext.__call__` is the reference semantics `selCtxSem` -/
theorem call_selCtx (k : KeyArg) (p : Val → Res) (r : Bool) (v : Item) :
    call names (.selCtx k p r) v = selCtxSem names k p r v := by
  rw [call, getRecursively, selCtxSem]
  cases k.resolve with
  | keys ks =>
    simp only [getRecGo_eq_valAt]
    cases valAt names (.dict (v.context names.length)) ks <;> rfl
  | never => rfl
  | valueError => rfl
  | typeError => rfl

@[simp] theorem pep479_ok (b : Bool) : pep479 (.ok b) = .ok b := rfl

theorem pep479e_idem (e : String) : pep479e (pep479e e) = pep479e e := by
  unfold pep479e
  by_cases h : e = "Other:StopIteration"
  · simp [h]
  · simp [h]

theorem semAny_eq_orRes (r : Bool) (l : List Spec) (v : Item) :
    semAny names r l v = orRes (l.map (fun s => pep479 (sem names r s v))) := by
  induction l with
  | nil => simp [semAny, orRes]
  | cons s rest ih =>
    simp only [semAny, List.map_cons]
    cases h : pep479 (sem names r s v) with
    | ok b => cases b <;> simp [orRes, ih]
    | raise e => simp [orRes]

theorem semAll_eq_andRes (r : Bool) (l : List Spec) (v : Item) :
    semAll names r l v = andRes (l.map (fun s => pep479 (sem names r s v))) := by
  induction l with
  | nil => simp [semAll, andRes]
  | cons s rest ih =>
    simp only [semAll, List.map_cons]
    cases h : pep479 (sem names r s v) with
    | ok b => cases b <;> simp [andRes, ih]
    | raise e => simp [andRes]

/-- what the induction hypothesis on `s` gives about `_selector` of `Selector(s, r)` -/
theorem inner_of_mk {s : Spec}
    (hs : ∀ (r : Bool) (o : Obj) (v : Item), mkSelector r s = some o → call names o v = sem names r s v)
    (r : Bool) (i : Obj) (v : Item) (hi : inner r s = some i) :
    absorb r (call names i v) = absorb r (sem names r s v) := by
  by_cases hinst : s.isInst = true
  · have := hs r i v (by simp [mkSelector, hinst, hi])
    rw [this]
  · have := hs r (.selector i r) v (by simp [mkSelector, hinst, hi])
    rw [← this, call, absorb_idem]

mutual
theorem mk_sem : ∀ (s : Spec) (r : Bool) (o : Obj) (v : Item),
    mkSelector r s = some o → call names o v = sem names r s v
  | .str x, r, o, v, h => by
    simp [mkSelector, Spec.isInst, inner] at h; subst h; simp [call, sem, absorb]
  | .cls c, r, o, v, h => by
    simp [mkSelector, Spec.isInst, inner] at h; subst h; simp [call, sem, absorb]
  | .fn f, r, o, v, h => by
    simp [mkSelector, Spec.isInst, inner] at h; subst h; simp [call, sem]
  | .list l, r, o, v, h => by
    simp [mkSelector, Spec.isInst, inner] at h
    obtain ⟨os, hos, rfl⟩ := h
    simp [call, sem, (items_sem l r os v hos).2]
  | .tuple l, r, o, v, h => by
    simp [mkSelector, Spec.isInst, inner] at h
    obtain ⟨os, hos, rfl⟩ := h
    simp [call, sem, (items_sem l r os v hos).1]
  | .notI s r', r, o, v, h => by
    simp [mkSelector, Spec.isInst, inner] at h
    obtain ⟨i, hi, rfl⟩ := h
    simp [call, sem, inner_of_mk names (mk_sem s) r' i v hi]
  | .selI s r', r, o, v, h => by
    simp [mkSelector, Spec.isInst, inner] at h
    obtain ⟨i, hi, rfl⟩ := h
    simp [call, sem, inner_of_mk names (mk_sem s) r' i v hi]
  | .andI l r', r, o, v, h => by
    simp [mkSelector, Spec.isInst, inner] at h
    obtain ⟨os, hos, rfl⟩ := h
    simp [call, sem, (items_sem l r' os v hos).1]
  | .orI l r', r, o, v, h => by
    simp [mkSelector, Spec.isInst, inner] at h
    obtain ⟨os, hos, rfl⟩ := h
    simp [call, sem, (items_sem l r' os v hos).2]
  | .selCtx k p r', r, o, v, h => by
    simp [mkSelector, Spec.isInst, inner] at h; subst h
    rw [call_selCtx, sem]
  | .bad, r, o, v, h => by
    simp [mkSelector, Spec.isInst, inner] at h
theorem items_sem : ∀ (l : List Spec) (r : Bool) (os : List Obj) (v : Item),
    items r l = some os →
      callAll names os v = semAll names r l v ∧ callAny names os v = semAny names r l v
  | [], r, os, v, h => by
    simp [items] at h; subst h; simp [callAll, callAny, semAll, semAny]
  | s :: rest, r, os, v, h => by
    rw [items] at h
    have hmk : (if s.isInst then inner r s else (inner r s).map (.selector · r)) = mkSelector r s := rfl
    rw [hmk] at h
    cases ho : mkSelector r s with
    | none => simp [ho] at h
    | some o =>
      cases hr : items r rest with
      | none => simp [ho, hr] at h
      | some os' =>
        simp [ho, hr] at h; subst h
        have h1 := mk_sem s r o v ho
        have h2 := items_sem rest r os' v hr
        simp only [callAll, callAny, semAll, semAny, h1, h2.1, h2.2]
        exact ⟨rfl, rfl⟩
end

/-! ### construction errors -/
mutual
theorem inner_none : ∀ (s : Spec) (r : Bool), inner r s = none ↔ s.hasBad = true
  | .str _, _ | .cls _, _ | .fn _, _ | .selCtx .., _ => by simp [inner, Spec.hasBad]
  | .bad, _ => by simp [inner, Spec.hasBad]
  | .list l, r | .tuple l, r => by simp [inner, Spec.hasBad, items_none l r]
  | .andI l r', _ | .orI l r', _ => by simp [inner, Spec.hasBad, items_none l r']
  | .notI s r', _ | .selI s r', _ => by simp [inner, Spec.hasBad, inner_none s r']
theorem items_none : ∀ (l : List Spec) (r : Bool), items r l = none ↔ hasBadL l = true
  | [], _ => by simp [items, hasBadL]
  | s :: rest, r => by
    rw [items, hasBadL]
    have h1 := inner_none s r
    have h2 := items_none rest r
    cases hi : inner r s with
    | none => simp [h1.1 hi]
    | some i =>
      have hm : (if s.isInst = true then some i else Option.map (fun x => Obj.selector x r) (some i))
          = some (if s.isInst = true then i else .selector i r) := by split <;> rfl
      rw [hm]
      have hb : s.hasBad = false := by
        cases hb : s.hasBad with
        | false => rfl
        | true => rw [h1.2 hb] at hi; cases hi
      cases hr : items r rest with
      | none => simp [hb, h2.1 hr]
      | some os =>
        have hb2 : hasBadL rest = false := by
          cases hb2 : hasBadL rest with
          | false => rfl
          | true => rw [h2.2 hb2] at hr; cases hr
        simp [hb, hb2]
end

theorem mkSelector_none (s : Spec) (r : Bool) : mkSelector r s = none ↔ s.hasBad = true := by
  rw [← inner_none s r, mkSelector]
  split <;> simp

theorem semBAny_eq_any (l : List Spec) (v : Item) : semBAny names l v = l.any (semB names · v) := by
  induction l with
  | nil => rfl
  | cons s rest ih => simp [semBAny, ih]

theorem semBAll_eq_all (l : List Spec) (v : Item) : semBAll names l v = l.all (semB names · v) := by
  induction l with
  | nil => rfl
  | cons s rest ih => simp [semBAll, ih]

theorem absorb_false_ok (x : Res) : absorb false x = .ok (decide (x = .ok true)) := by
  cases x with
  | ok b => cases b <;> simp [absorb]
  | raise e => simp [absorb]

theorem res_ok_decide {x : Res} {b : Bool} (h : x = .ok b) : x = .ok (decide (x = .ok true)) := by
  subst h; cases b <;> simp

theorem selCtxSem_false_ok' (k : KeyArg) (p : Val → Res) (v : Item)
    (hk : (match k.resolve with | .valueError => false | .typeError => false | _ => true) = true) :
    ∃ b, selCtxSem names k p false v = .ok b := by
  unfold selCtxSem
  cases hr : k.resolve with
  | keys ks =>
    simp only []
    cases valAt names (.dict (v.context names.length)) ks with
    | none => exact ⟨false, rfl⟩
    | some sub => exact ⟨_, absorb_false_ok _⟩
  | never => exact ⟨false, rfl⟩
  | valueError => simp [hr] at hk
  | typeError => simp [hr] at hk

theorem selCtxSem_false_ok (k : KeyArg) (p : Val → Res) (v : Item)
    (hk : (match k.resolve with | .valueError => false | .typeError => false | _ => true) = true) :
    selCtxSem names k p false v = .ok (decide (selCtxSem names k p false v = .ok true)) := by
  obtain ⟨b, hb⟩ := selCtxSem_false_ok' names k p v hk
  exact res_ok_decide hb

theorem selCtxSem_of_isOk' (k : KeyArg) (p : Val → Res) (v : Item)
    (h : (selCtxSem names k p true v).isOk = true) : ∃ b, ∀ r, selCtxSem names k p r v = .ok b := by
  unfold selCtxSem at h ⊢
  cases hr : k.resolve with
  | keys ks =>
    simp only [hr] at h ⊢
    cases hv : valAt names (.dict (v.context names.length)) ks with
    | none => exact ⟨false, fun _ => rfl⟩
    | some sub =>
      simp only [hv] at h ⊢
      cases hp : p sub with
      | ok b => exact ⟨b, fun r => by cases r <;> rfl⟩
      | raise e => simp [hp, absorb, Res.isOk] at h
  | never => exact ⟨false, fun _ => rfl⟩
  | valueError => simp [hr, Res.isOk] at h
  | typeError => simp [hr, Res.isOk] at h

theorem selCtxSem_of_isOk (k : KeyArg) (p : Val → Res) (v : Item)
    (h : (selCtxSem names k p true v).isOk = true) (r : Bool) :
    selCtxSem names k p r v = .ok (decide (selCtxSem names k p false v = .ok true)) := by
  obtain ⟨b, hb⟩ := selCtxSem_of_isOk' names k p v h
  rw [hb r, hb false]
  cases b <;> simp

mutual
theorem sem_false : ∀ (s : Spec) (v : Item), s.allRoe false = true → s.keysOk = true → s.hasBad = false →
    sem names false s v = .ok (semB names s v)
  | .str _, v, _, _, _ | .cls _, v, _, _, _ => by simp [sem, semB]
  | .fn f, v, _, _, _ => by simp [sem, semB, absorb_false_ok]
  | .list l, v, ha, hk, hb => by
    simp only [Spec.allRoe, Spec.hasBad, Spec.keysOk] at ha hb hk
    simp [sem, semB, (semL_false l v ha hk hb).2, absorb]
  | .tuple l, v, ha, hk, hb => by
    simp only [Spec.allRoe, Spec.hasBad, Spec.keysOk] at ha hb hk
    simp [sem, semB, (semL_false l v ha hk hb).1, absorb]
  | .notI s r, v, ha, hk, hb => by
    simp only [Spec.allRoe, Spec.hasBad, Spec.keysOk, Bool.and_eq_true, beq_iff_eq] at ha hb hk
    obtain ⟨rfl, ha⟩ := ha
    simp [sem, semB, sem_false s v ha hk hb, absorb, neg]
  | .selI s r, v, ha, hk, hb => by
    simp only [Spec.allRoe, Spec.hasBad, Spec.keysOk, Bool.and_eq_true, beq_iff_eq] at ha hb hk
    obtain ⟨rfl, ha⟩ := ha
    simp [sem, semB, sem_false s v ha hk hb, absorb]
  | .andI l r, v, ha, hk, hb => by
    simp only [Spec.allRoe, Spec.hasBad, Spec.keysOk, Bool.and_eq_true, beq_iff_eq] at ha hb hk
    obtain ⟨rfl, ha⟩ := ha
    simp [sem, semB, (semL_false l v ha hk hb).1]
  | .orI l r, v, ha, hk, hb => by
    simp only [Spec.allRoe, Spec.hasBad, Spec.keysOk, Bool.and_eq_true, beq_iff_eq] at ha hb hk
    obtain ⟨rfl, ha⟩ := ha
    simp [sem, semB, (semL_false l v ha hk hb).2]
  | .selCtx k p r, v, ha, hk, _ => by
    simp only [Spec.allRoe, beq_iff_eq] at ha
    subst ha
    rw [Spec.keysOk] at hk
    rw [sem, semB]
    exact selCtxSem_false_ok names k p v hk
  | .bad, _, _, _, hb => by simp [Spec.hasBad] at hb
theorem semL_false : ∀ (l : List Spec) (v : Item), allRoeL false l = true → keysOkL l = true → hasBadL l = false →
    semAll names false l v = .ok (semBAll names l v) ∧ semAny names false l v = .ok (semBAny names l v)
  | [], v, _, _, _ => by simp [semAll, semAny, semBAll, semBAny]
  | s :: rest, v, ha, hk, hb => by
    simp only [allRoeL, hasBadL, keysOkL, Bool.and_eq_true, Bool.or_eq_false_iff] at ha hb hk
    have h1 := sem_false s v ha.1 hk.1 hb.1
    have h2 := semL_false rest v ha.2 hk.2 hb.2
    simp only [semAll, semAny, semBAll, semBAny, h1, pep479_ok]
    cases semB names s v <;> simp [h2.1, h2.2]
end

mutual
theorem sem_total : ∀ (s : Spec) (r : Bool) (v : Item), s.totalOn names v = true → s.hasBad = false →
    sem names r s v = .ok (semB names s v)
  | .str _, _, v, _, _ | .cls _, _, v, _, _ => by simp [sem, semB]
  | .fn f, r, v, ht, _ => by
    simp only [Spec.totalOn] at ht
    cases hf : f v with
    | ok b => simp [sem, semB, hf, absorb]
    | raise e => simp [hf] at ht
  | .list l, r, v, ht, hb => by
    simp only [Spec.totalOn, Spec.hasBad] at ht hb
    simp [sem, semB, (semL_total l r v ht hb).2, absorb]
  | .tuple l, r, v, ht, hb => by
    simp only [Spec.totalOn, Spec.hasBad] at ht hb
    simp [sem, semB, (semL_total l r v ht hb).1, absorb]
  | .notI s r', _, v, ht, hb => by
    simp only [Spec.totalOn, Spec.hasBad] at ht hb
    simp [sem, semB, sem_total s r' v ht hb, absorb, neg]
  | .selI s r', _, v, ht, hb => by
    simp only [Spec.totalOn, Spec.hasBad] at ht hb
    simp [sem, semB, sem_total s r' v ht hb, absorb]
  | .andI l r', _, v, ht, hb => by
    simp only [Spec.totalOn, Spec.hasBad] at ht hb
    simp [sem, semB, (semL_total l r' v ht hb).1]
  | .orI l r', _, v, ht, hb => by
    simp only [Spec.totalOn, Spec.hasBad] at ht hb
    simp [sem, semB, (semL_total l r' v ht hb).2]
  | .selCtx k p r', _, v, ht, _ => by
    rw [Spec.totalOn] at ht
    rw [sem, semB]
    exact selCtxSem_of_isOk names k p v ht r'
  | .bad, _, _, _, hb => by simp [Spec.hasBad] at hb
theorem semL_total : ∀ (l : List Spec) (r : Bool) (v : Item), totalOnL names v l = true → hasBadL l = false →
    semAll names r l v = .ok (semBAll names l v) ∧ semAny names r l v = .ok (semBAny names l v)
  | [], _, v, _, _ => by simp [semAll, semAny, semBAll, semBAny]
  | s :: rest, r, v, ht, hb => by
    simp only [totalOnL, hasBadL, Bool.and_eq_true, Bool.or_eq_false_iff] at ht hb
    have h1 := sem_total s r v ht.1 hb.1
    have h2 := semL_total rest r v ht.2 hb.2
    simp only [semAll, semAny, semBAll, semBAny, h1, pep479_ok]
    cases semB names s v <;> simp [h2.1, h2.2]
end

/-- `contains` walks all levels but the last through dictionaries and tests the last one -/
theorem containsGo_spec : ∀ (init : List String) (v : Val) (last : String),
    containsGo names v (init ++ [last]) =
      containsLast names last (valAt names v init)
  | [], .dict l, last => by simp [containsGo, valAt, containsLast]
  | [], .leaf a, last => by simp [containsGo, valAt, containsLast]
  | k :: rest, .leaf a, last => by
    cases rest <;> simp [containsGo, valAt, containsLast]
  | k :: rest, .dict l, last => by
    have ih := fun w => containsGo_spec rest w last
    cases hr : rest ++ [last] with
    | nil => simp at hr
    | cons k' r' =>
      rw [List.cons_append, hr, containsGo, valAt]
      · cases hl : lookupKey names l k with
        | none => simp [containsLast]
        | some w => simp only []; rw [← hr, ih w]
      · intro h; cases h

theorem splitDotsC_ne_nil : ∀ cs : List Char, splitDotsC cs ≠ []
  | [] => by simp [splitDotsC]
  | c :: cs => by
    rw [splitDotsC]
    split
    · simp
    · split <;> simp

theorem lookupKey_replicate (n : Nat) (k : String) : lookupKey names (List.replicate n none) k = none := by
  simp only [lookupKey, slotGet]
  cases h : (List.replicate n (none : Option Val))[List.idxOf k names]? with
  | none => rfl
  | some x =>
    have := List.mem_of_getElem? h
    rw [List.mem_replicate] at this
    rw [this.2]; rfl

end Sem

/-! ## Part 2 — include/exclude trees -/

theorem prefixesDesc_cons (k : Nat) (p : Path) :
    prefixesDesc (k :: p) = (prefixesDesc p).map (k :: ·) ++ [[k]] := by
  unfold prefixesDesc
  simp only [List.length_cons, List.range_succ_eq_map, List.reverse_cons, List.map_append, List.map_cons,
    List.map_nil, List.take_succ_cons, List.take_zero, List.map_reverse, List.map_map]
  rfl

theorem ne_nil_of_mem_prefixesDesc {p q : Path} (h : q ∈ prefixesDesc p) : q ≠ [] := by
  unfold prefixesDesc at h
  simp only [List.mem_map, List.mem_reverse, List.mem_range] at h
  obtain ⟨n, hn, rfl⟩ := h
  cases p with
  | nil => simp at hn
  | cons a t => simp

theorem find?_congr' {α : Type} {l : List α} {f g : α → Bool} (h : ∀ x ∈ l, f x = g x) :
    l.find? f = l.find? g := by
  induction l with
  | nil => rfl
  | cons a t ih =>
    simp only [List.find?_cons, h a (by simp)]
    rw [ih (fun x hx => h x (by simp [hx]))]

theorem sel_eq_polarity' : ∀ (p : Path) (I E : List Path) (d : Bool), sel I E d p = polarity I E d p
  | [], I, E, d => by simp [sel, polarity, prefixesDesc]
  | k :: p, I, E, d => by
    rw [sel, sel_eq_polarity' p]
    unfold polarity
    rw [prefixesDesc_cons, List.find?_append, List.find?_map]
    have hf : (prefixesDesc p).find? ((fun q => decide (q ∈ I ∨ q ∈ E)) ∘ (fun x => k :: x)) =
        (prefixesDesc p).find? (fun q => decide (q ∈ tailsNE k I ∨ q ∈ tailsNE k E)) := by
      apply find?_congr'
      intro q hq
      simp [mem_tailsNE, ne_nil_of_mem_prefixesDesc hq]
    rw [hf]
    cases h : (prefixesDesc p).find? (fun q => decide (q ∈ tailsNE k I ∨ q ∈ tailsNE k E)) with
    | some q =>
      have hne : q ≠ [] := ne_nil_of_mem_prefixesDesc (List.mem_of_find?_eq_some h)
      simp [mem_tailsNE, hne]
    | none =>
      by_cases h1 : [k] ∈ I
      · simp [h1]
      · by_cases h2 : [k] ∈ E <;> simp [h1, h2]

/-! ### trivial restrictions -/
mutual
theorem keepV_true : ∀ v : Val, keepV (fun _ => true) v = some v
  | .leaf a => by simp [keepV]
  | .dict l => by simp [keepV, keepL_true 0 l]
theorem keepL_true : ∀ (k : Nat) (l : Slots), keepL (fun _ => true) k l = l
  | _, [] => by simp [keepL]
  | k, none :: r => by simp [keepL, keepL_true (k + 1) r]
  | k, some v :: r => by simp [keepL, keepV_true v, keepL_true (k + 1) r]
end

mutual
theorem keepV_false : ∀ v : Val, keepV (fun _ => false) v = none
  | .leaf a => by simp [keepV]
  | .dict l => by
    have h := keepL_false 0 l
    simp [keepV, nonEmpty]
    exact h
theorem keepL_false : ∀ (k : Nat) (l : Slots), ∀ x ∈ keepL (fun _ => false) k l, x = none
  | _, [] => by simp [keepL]
  | k, none :: r => by
    intro x hx; simp [keepL] at hx
    rcases hx with h | h
    · exact h
    · exact keepL_false (k + 1) r x h
  | k, some v :: r => by
    intro x hx
    simp [keepL, keepV_false v] at hx
    rcases hx with h | h
    · exact h
    · exact keepL_false (k + 1) r x h
end

theorem sel_nil (d : Bool) : sel [] [] d = fun _ => d := by
  funext p
  induction p with
  | nil => rfl
  | cons k p ih => simpa [sel, tailsNE, tailsOf] using ih

theorem sel_cons (I E : List Path) (d : Bool) (k : Nat) :
    (fun p => sel I E d (k :: p)) =
      sel (tailsNE k I) (tailsNE k E) (if [k] ∈ I then true else if [k] ∈ E then false else d) := by
  funext p; rw [sel]

/-- the per-key logic of `IncludeExcludeTree.get`, both defaults -/
theorem getL_cons_some (incl : Bool) (keys : List Nat) (subs : List (Nat × Tree)) (k : Nat) (v : Val) (r : Slots) :
    getL (.node incl keys subs) k (some v :: r) =
      (if keys.contains k then (if incl then none else some v)
       else match lookupSub k subs with
         | some st => getV st v
         | none => if incl then some v else none) :: getL (.node incl keys subs) (k + 1) r := by
  rw [getL]
  cases incl <;> simp <;> split <;> rfl

/-- a node whose keys behave as `KeyCase` says, with sub-trees that follow the rule, follows the rule -/
theorem node_spec (d : Bool) (I E : List Path) (keys : List Nat) (subs : List (Nat × Tree)) (g : Nat → Made)
    (hdis : Disjoint I E)
    (hkey : ∀ k, KeyCase (if d then E else I) (if d then I else E) g keys subs k)
    (ihg : ∀ k t, g k = .ok t → ∀ v,
      getV t v = keepV (sel (tailsNE k I) (tailsNE k E) (newIncl k (if d then E else I) d)) v) :
    ∀ k l, getL (.node d keys subs) k l = keepL (sel I E d) k l := by
  intro k l
  induction l generalizing k with
  | nil => simp [getL, keepL]
  | cons x r ihl =>
    cases x with
    | none => simp [getL, keepL, ihl]
    | some v =>
      rw [getL_cons_some, keepL, ihl, sel_cons]
      congr 1
      cases d with
      | true =>
        -- default include: opp = E, same = I
        rcases hkey k with ⟨hc, hk, ht, hs, hn⟩ | ⟨t, hc, hg, hl⟩ | ⟨hc, hl, ho, hs⟩
        · simp at ht hs hk hn hc
          simp [hc, hk, hn, ht, hs, sel_nil, keepV_false]
        · simp at hc
          simp only [List.contains_eq_mem, hc, decide_false, Bool.false_eq_true, if_false, hl, ihg k t hg v, newIncl_eq]
          by_cases hkE : [k] ∈ E
          · have hkI : [k] ∉ I := fun hI => hdis [k] hI hkE
            simp [hkE, hkI]
          · simp [hkE]
        · simp at ho hs hc
          simp [hc, hl, tailsNE_nil_of_not_head k I hs, tailsNE_nil_of_not_head k E ho,
            single_not_mem_of_not_head k I hs, single_not_mem_of_not_head k E ho, sel_nil, keepV_true]
      | false =>
        -- default exclude: opp = I, same = E
        rcases hkey k with ⟨hc, hk, ht, hs, hn⟩ | ⟨t, hc, hg, hl⟩ | ⟨hc, hl, ho, hs⟩
        · simp at ht hs hk hc
          simp [hc, hk, ht, hs, sel_nil, keepV_true]
        · simp at hc
          simp only [List.contains_eq_mem, hc, decide_false, Bool.false_eq_true, if_false, hl, ihg k t hg v, newIncl_eq]
          by_cases hkI : [k] ∈ I <;> simp [hkI]
        · simp at ho hs hc
          simp [hc, hl, tailsNE_nil_of_not_head k I ho, tailsNE_nil_of_not_head k E hs,
            single_not_mem_of_not_head k I ho, single_not_mem_of_not_head k E hs, sel_nil, keepV_false]

theorem make_spec : ∀ (f : Nat) (I E : List Path) (d : Bool) (T : Tree),
    Disjoint I E → make f I E d = .ok T →
    T.incl = d ∧ (∀ k l, getL T k l = keepL (sel I E d) k l) ∧ (∀ v, getV T v = keepV (sel I E d) v) := by
  intro f
  induction f with
  | zero => intro I E d T _ h; simp [make] at h
  | succ f ih =>
    intro I E d T hdis h
    rw [make_succ] at h
    obtain ⟨hextra, hall, hT⟩ := makeStep_ok_inv h
    have hkey := make_key_cases _ _ _ hextra hall
    have hL := node_spec d I E _ _ _ hdis hkey
      (fun k t hg => (ih _ _ _ t (disjoint_tails k I E hdis) hg).2.2)
    rw [← hT] at hL
    have hi : T.incl = d := by rw [hT]; rfl
    refine ⟨hi, hL, ?_⟩
    intro v
    cases v with
    | leaf a => rw [getV, keepV, hi]; cases d <;> rfl
    | dict l => rw [getV, keepV, hi, hL]; cases d <;> rfl

theorem slotGet_nil (k : Nat) : slotGet [] k = none := by simp [slotGet]

theorem slotGet_cons_zero (x : Option Val) (r : Slots) : slotGet (x :: r) 0 = x := by simp [slotGet]

theorem slotGet_cons_succ (x : Option Val) (r : Slots) (j : Nat) : slotGet (x :: r) (j + 1) = slotGet r j := by
  simp [slotGet]

theorem slotGet_keepL (pol : Path → Bool) : ∀ (l : Slots) (k j : Nat),
    slotGet (keepL pol k l) j = (slotGet l j).bind (keepV (fun p => pol ((k + j) :: p)))
  | [], k, j => by simp [keepL, slotGet_nil]
  | x :: r, k, 0 => by
    cases x <;> simp [keepL, slotGet_cons_zero]
  | x :: r, k, j + 1 => by
    have ih := slotGet_keepL pol r (k + 1) j
    have e : k + 1 + j = k + (j + 1) := by omega
    rw [e] at ih
    cases x <;> simp [keepL, slotGet_cons_succ, ih]

theorem slotGet_of_all_none {l : Slots} (h : ∀ x ∈ l, x = none) (j : Nat) : slotGet l j = none := by
  unfold slotGet
  cases hj : l[j]? with
  | none => rfl
  | some x => rw [h x (List.mem_of_getElem? hj)]; rfl

theorem nonEmpty_false_iff (l : Slots) : nonEmpty l = false ↔ ∀ x ∈ l, x = none := by
  unfold nonEmpty
  rw [Bool.eq_false_iff]
  simp only [ne_eq, List.any_eq_true, not_exists, not_and]
  constructor
  · intro h x hx
    cases x with
    | none => rfl
    | some v => exact absurd rfl (h _ hx)
  · intro h x hx
    rw [h x hx]; simp

theorem atPath_dict_cons (l : Slots) (k : Nat) (p : Path) :
    atPath (.dict l) (k :: p) = (slotGet l k).bind (fun w => atPath w p) := by
  rw [atPath]; cases slotGet l k <;> rfl

theorem atPath_leaf_cons (a : Leaf) (k : Nat) (p : Path) : atPath (.leaf a) (k :: p) = none := by
  rw [atPath]

theorem atPath_nil (v : Val) : atPath v [] = some v := by
  cases v <;> rw [atPath]

/-- **`get` path by path**: below the root, the value found in the selected part at a path `k :: p` is
the selected part of the value found there in the context, under the predicate shifted by the path -/
theorem atPath_keepL : ∀ (p : Path) (k : Nat) (l : Slots) (pol : Path → Bool),
    atPath (.dict (keepL pol 0 l)) (k :: p) =
      (atPath (.dict l) (k :: p)).bind (keepV (fun q => pol (k :: p ++ q))) := by
  intro p
  induction p with
  | nil =>
    intro k l pol
    simp only [atPath_dict_cons, slotGet_keepL, Nat.zero_add, atPath_nil]
    cases slotGet l k with
    | none => rfl
    | some x => simp
  | cons k' p ih =>
    intro k l pol
    rw [atPath_dict_cons, atPath_dict_cons, slotGet_keepL]
    cases hx : slotGet l k with
    | none => rfl
    | some x =>
      simp only [Option.bind_some, Nat.zero_add]
      cases x with
      | leaf a =>
        rw [keepV]
        split <;> simp [atPath_leaf_cons]
      | dict l' =>
        have hi := ih k' l' (fun q => pol (k :: q))
        rw [show (fun q => pol (k :: k' :: p ++ q)) = (fun q => pol (k :: (k' :: p ++ q))) from rfl, ← hi, keepV]
        split
        · rfl
        · rename_i hne
          simp only [Bool.or_eq_true, not_or, Bool.not_eq_true] at hne
          have hall := (nonEmpty_false_iff _).1 hne.1
          simp [atPath_dict_cons, slotGet_of_all_none hall]

theorem isSome_atPath_leaf {a : Leaf} {q : Path} (h : (atPath (.leaf a) q).isSome = true) : q = [] := by
  cases q with
  | nil => rfl
  | cons k p => simp [atPath_leaf_cons] at h

theorem keepL_cons_none (pol : Path → Bool) (k : Nat) (r : Slots) :
    keepL pol k (none :: r) = none :: keepL pol (k + 1) r := by rw [keepL]

theorem keepL_cons_some (pol : Path → Bool) (k : Nat) (v : Val) (r : Slots) :
    keepL pol k (some v :: r) = keepV (fun p => pol (k :: p)) v :: keepL pol (k + 1) r := by rw [keepL]

mutual
theorem keepV_none_iff : ∀ (v : Val) (pol : Path → Bool),
    keepV pol v = none ↔ ∀ q, (atPath v q).isSome = true → pol q = false
  | .leaf a, pol => by
    rw [keepV]
    constructor
    · intro h q hq
      rw [isSome_atPath_leaf hq]
      cases hp : pol [] with
      | false => rfl
      | true => simp [hp] at h
    · intro h
      have := h [] (by simp [atPath_nil])
      simp [this]
  | .dict l, pol => by
    rw [keepV]
    have hl := keepL_none_iff l 0 pol
    simp only [Nat.zero_add] at hl
    constructor
    · intro h q hq
      have h' : nonEmpty (keepL pol 0 l) = false ∧ pol [] = false := by
        cases h1 : nonEmpty (keepL pol 0 l) <;> cases h2 : pol [] <;> simp [h1, h2] at h ⊢
      cases q with
      | nil => exact h'.2
      | cons j q' =>
        rw [atPath_dict_cons] at hq
        cases hw : slotGet l j with
        | none => simp [hw] at hq
        | some w =>
          simp only [hw, Option.bind_some] at hq
          exact hl.1 ((nonEmpty_false_iff _).1 h'.1) j w hw q' hq
    · intro h
      have h2 : pol [] = false := h [] (by simp [atPath_nil])
      have h1 : nonEmpty (keepL pol 0 l) = false := by
        rw [nonEmpty_false_iff]
        apply hl.2
        intro j w hw q hq
        apply h (j :: q)
        simp [atPath_dict_cons, hw, hq]
      simp [h1, h2]
theorem keepL_none_iff : ∀ (l : Slots) (k : Nat) (pol : Path → Bool),
    (∀ x ∈ keepL pol k l, x = none) ↔
      ∀ j w, slotGet l j = some w → ∀ q, (atPath w q).isSome = true → pol ((k + j) :: q) = false
  | [], k, pol => by simp [keepL, slotGet_nil]
  | none :: r, k, pol => by
    rw [keepL_cons_none]
    have ih := keepL_none_iff r (k + 1) pol
    simp only [List.mem_cons, forall_eq_or_imp, true_and]
    rw [ih]
    constructor
    · intro h j w hw q hq
      cases j with
      | zero => simp [slotGet_cons_zero] at hw
      | succ j =>
        rw [slotGet_cons_succ] at hw
        have := h j w hw q hq
        rwa [show k + 1 + j = k + (j + 1) by omega] at this
    · intro h j w hw q hq
      have := h (j + 1) w (by rwa [slotGet_cons_succ]) q hq
      rwa [show k + (j + 1) = k + 1 + j by omega] at this
  | some v :: r, k, pol => by
    rw [keepL_cons_some]
    have ih := keepL_none_iff r (k + 1) pol
    have hv := keepV_none_iff v (fun p => pol (k :: p))
    simp only [List.mem_cons, forall_eq_or_imp]
    rw [ih, hv]
    constructor
    · intro h j w hw q hq
      cases j with
      | zero =>
        simp only [slotGet_cons_zero, Option.some.injEq] at hw
        subst hw
        exact h.1 q hq
      | succ j =>
        rw [slotGet_cons_succ] at hw
        have := h.2 j w hw q hq
        rwa [show k + 1 + j = k + (j + 1) by omega] at this
    · intro h
      refine ⟨fun q hq => h 0 v (by simp [slotGet_cons_zero]) q hq, ?_⟩
      intro j w hw q hq
      have := h (j + 1) w (by rwa [slotGet_cons_succ]) q hq
      rwa [show k + (j + 1) = k + 1 + j by omega] at this
end

theorem atPath_append : ∀ (p q : Path) (v : Val), atPath v (p ++ q) = (atPath v p).bind (fun w => atPath w q)
  | [], q, v => by simp [atPath_nil]
  | k :: p, q, .leaf a => by simp [atPath_leaf_cons]
  | k :: p, q, .dict l => by
    rw [List.cons_append, atPath_dict_cons, atPath_dict_cons]
    cases slotGet l k with
    | none => rfl
    | some w => simp [atPath_append p q w]

theorem seenOf_absent_iff (o : Option Val) : seenOf o = .absent ↔ o = none := by
  cases o with
  | none => simp [seenOf]
  | some v => cases v <;> simp [seenOf]

theorem seenOf_keep {pol : Path → Bool} (h : pol [] = true) (o : Option Val) :
    seenOf (o.bind (keepV pol)) = seenOf o := by
  cases o with
  | none => rfl
  | some v => cases v <;> simp [keepV, h, seenOf]

theorem WFL_cons_none (n : Nat) (r : Slots) : WFL n (none :: r) ↔ WFL n r := by rw [WFL]

theorem WFL_cons_some (n : Nat) (v : Val) (r : Slots) : WFL n (some v :: r) ↔ WFV n v ∧ WFL n r := by rw [WFL]

theorem WFV_dict (n : Nat) (l : Slots) : WFV n (.dict l) ↔ l.length = n ∧ WFL n l := by rw [WFV]

theorem agree_of_keepL_eq {pol : Path → Bool} {l1 l2 : Slots} (h : keepL pol 0 l1 = keepL pol 0 l2) :
    AgreeOn pol (.dict l1) (.dict l2) := by
  intro p hp
  cases p with
  | nil => simp [seen, atPath_nil, seenOf]
  | cons k p =>
    have h1 := atPath_keepL p k l1 pol
    have h2 := atPath_keepL p k l2 pol
    rw [h] at h1
    have hsh : (fun q => pol (k :: p ++ q)) [] = true := by simpa using hp
    have := seenOf_keep (pol := fun q => pol (k :: p ++ q)) hsh (atPath (.dict l1) (k :: p))
    rw [← h1, h2, seenOf_keep (pol := fun q => pol (k :: p ++ q)) hsh] at this
    exact this.symm

mutual
theorem keepV_congr (n : Nat) : ∀ (v1 v2 : Val) (pol : Path → Bool), WFV n v1 → WFV n v2 →
    (∀ p, pol p = true → seen v1 p = seen v2 p) → keepV pol v1 = keepV pol v2
  | .leaf a, .leaf b, pol, _, _, h => by
    rw [keepV, keepV]
    by_cases hp : pol [] = true
    · have := h [] hp
      simp only [seen, atPath_nil, seenOf, Seen.leaf.injEq] at this
      rw [this]
    · simp [hp]
  | .leaf a, .dict l2, pol, _, _, h => by
    by_cases hp : pol [] = true
    · have := h [] hp
      simp [seen, atPath_nil, seenOf] at this
    · have h2 : keepV pol (.dict l2) = none := by
        rw [keepV_none_iff]
        intro q hq
        cases q with
        | nil => simpa using hp
        | cons j q' =>
          cases hq' : pol (j :: q') with
          | false => rfl
          | true =>
            have := h _ hq'
            simp only [seen, atPath_leaf_cons] at this
            rw [show seenOf (none : Option Val) = .absent from rfl, eq_comm, seenOf_absent_iff] at this
            simp [this] at hq
      rw [h2, keepV]; simp [hp]
  | .dict l1, .leaf b, pol, _, _, h => by
    by_cases hp : pol [] = true
    · have := h [] hp
      simp [seen, atPath_nil, seenOf] at this
    · have h2 : keepV pol (.dict l1) = none := by
        rw [keepV_none_iff]
        intro q hq
        cases q with
        | nil => simpa using hp
        | cons j q' =>
          cases hq' : pol (j :: q') with
          | false => rfl
          | true =>
            have := h _ hq'
            simp only [seen, atPath_leaf_cons] at this
            rw [show seenOf (none : Option Val) = .absent from rfl, seenOf_absent_iff] at this
            simp [this] at hq
      rw [h2, keepV]; simp [hp]
  | .dict l1, .dict l2, pol, w1, w2, h => by
    rw [WFV_dict] at w1 w2
    have := keepL_congr n l1 l2 0 pol (by rw [w1.1, w2.1]) w1.2 w2.2 (by
      intro j p hp
      simp only [Nat.zero_add] at hp
      have := h _ hp
      simpa [seen, atPath_dict_cons] using this)
    rw [keepV, keepV, this]
theorem keepL_congr (n : Nat) : ∀ (l1 l2 : Slots) (k : Nat) (pol : Path → Bool), l1.length = l2.length →
    WFL n l1 → WFL n l2 →
    (∀ j p, pol ((k + j) :: p) = true →
      seenOf ((slotGet l1 j).bind (fun w => atPath w p)) = seenOf ((slotGet l2 j).bind (fun w => atPath w p))) →
    keepL pol k l1 = keepL pol k l2
  | [], [], _, _, _, _, _, _ => rfl
  | [], _ :: _, _, _, hl, _, _, _ => by simp at hl
  | _ :: _, [], _, _, hl, _, _, _ => by simp at hl
  | x1 :: r1, x2 :: r2, k, pol, hl, w1, w2, h => by
    have htail : ∀ j p, pol ((k + 1 + j) :: p) = true →
        seenOf ((slotGet r1 j).bind (fun w => atPath w p)) = seenOf ((slotGet r2 j).bind (fun w => atPath w p)) := by
      intro j p hp
      have := h (j + 1) p (by rwa [show k + (j + 1) = k + 1 + j by omega])
      simpa [slotGet_cons_succ] using this
    have hhead : ∀ p, pol (k :: p) = true →
        seenOf (x1.bind (fun w => atPath w p)) = seenOf (x2.bind (fun w => atPath w p)) := by
      intro p hp
      have := h 0 p (by simpa using hp)
      simpa [slotGet_cons_zero] using this
    have hl' : r1.length = r2.length := by simpa using hl
    cases x1 with
    | none =>
      cases x2 with
      | none =>
        rw [WFL_cons_none] at w1 w2
        rw [keepL_cons_none, keepL_cons_none, keepL_congr n r1 r2 (k + 1) pol hl' w1 w2 htail]
      | some v2 =>
        rw [WFL_cons_none] at w1
        rw [WFL_cons_some] at w2
        have hv : keepV (fun p => pol (k :: p)) v2 = none := by
          rw [keepV_none_iff]
          intro q hq
          cases hq' : pol (k :: q) with
          | false => rfl
          | true =>
            have := hhead q hq'
            simp only [Option.bind_none, Option.bind_some] at this
            rw [show seenOf (none : Option Val) = .absent from rfl, eq_comm, seenOf_absent_iff] at this
            simp [this] at hq
        rw [keepL_cons_none, keepL_cons_some, hv, keepL_congr n r1 r2 (k + 1) pol hl' w1 w2.2 htail]
    | some v1 =>
      cases x2 with
      | none =>
        rw [WFL_cons_some] at w1
        rw [WFL_cons_none] at w2
        have hv : keepV (fun p => pol (k :: p)) v1 = none := by
          rw [keepV_none_iff]
          intro q hq
          cases hq' : pol (k :: q) with
          | false => rfl
          | true =>
            have := hhead q hq'
            simp only [Option.bind_none, Option.bind_some] at this
            rw [show seenOf (none : Option Val) = .absent from rfl, seenOf_absent_iff] at this
            simp [this] at hq
        rw [keepL_cons_none, keepL_cons_some, hv, keepL_congr n r1 r2 (k + 1) pol hl' w1.2 w2 htail]
      | some v2 =>
        rw [WFL_cons_some] at w1 w2
        rw [keepL_cons_some, keepL_cons_some, keepL_congr n r1 r2 (k + 1) pol hl' w1.2 w2.2 htail,
          keepV_congr n v1 v2 (fun p => pol (k :: p)) w1.1 w2.1 (fun p hp => by simpa [seen] using hhead p hp)]
end

theorem wfl_replicate (n m : Nat) : WFL n (List.replicate m none) := by
  induction m with
  | zero => simp [WFL]
  | succ m ih => rw [List.replicate_succ, WFL_cons_none]; exact ih

/-! ### the code's rule `selC`, rejection, decided forms -/

theorem prefixesAsc_cons (k : Nat) (p : Path) :
    prefixesAsc (k :: p) = [k] :: (prefixesAsc p).map (k :: ·) := by
  unfold prefixesAsc
  simp only [List.length_cons, List.range_succ_eq_map, List.map_cons, List.take_succ_cons, List.take_zero,
    List.map_map]
  rfl

theorem ne_nil_of_mem_prefixesAsc {p q : Path} (h : q ∈ prefixesAsc p) : q ≠ [] := by
  unfold prefixesAsc at h
  simp only [List.mem_map, List.mem_range] at h
  obtain ⟨n, hn, rfl⟩ := h
  cases p with
  | nil => simp at hn
  | cons a t => simp

theorem oppOf_tails (k : Nat) (I E : List Path) (c : Bool) :
    oppOf (tailsNE k I) (tailsNE k E) c = tailsNE k (oppOf I E c) := by
  cases c <;> rfl

theorem sameOf_tails (k : Nat) (I E : List Path) (c : Bool) :
    sameOf (tailsNE k I) (tailsNE k E) c = tailsNE k (sameOf I E c) := by
  cases c <;> rfl

theorem foldl_flip_map (I E : List Path) (k : Nat) : ∀ (l : List Path) (c : Bool), (∀ q ∈ l, q ≠ []) →
    (l.map (k :: ·)).foldl (fun c q => if q ∈ oppOf I E c then !c else c) c =
      l.foldl (fun c q => if q ∈ oppOf (tailsNE k I) (tailsNE k E) c then !c else c) c
  | [], _, _ => rfl
  | q :: l, c, h => by
    simp only [List.map_cons, List.foldl_cons]
    have hq : (k :: q ∈ oppOf I E c) ↔ q ∈ oppOf (tailsNE k I) (tailsNE k E) c := by
      rw [oppOf_tails, mem_tailsNE]
      simp [h q (by simp)]
    rw [foldl_flip_map I E k l _ (fun x hx => h x (by simp [hx]))]
    by_cases hm : k :: q ∈ oppOf I E c
    · rw [if_pos hm, if_pos (hq.1 hm)]
    · rw [if_neg hm, if_neg (fun h' => hm (hq.2 h'))]

theorem selC_nil (d : Bool) : selC [] [] d = fun _ => d := by
  funext p
  induction p with
  | nil => rfl
  | cons k p ih => cases d <;> simpa [selC, oppOf, tailsNE, tailsOf] using ih

theorem selC_cons (I E : List Path) (d : Bool) (k : Nat) :
    (fun p => selC I E d (k :: p)) =
      selC (tailsNE k I) (tailsNE k E) (if [k] ∈ oppOf I E d then !d else d) := by
  funext p; rw [selC]

/-- a node whose keys behave as `KeyCase` says, with sub-trees that follow the code's rule, follows it -/
theorem node_specC (d : Bool) (I E : List Path) (keys : List Nat) (subs : List (Nat × Tree)) (g : Nat → Made)
    (hkey : ∀ k, KeyCase (if d then E else I) (if d then I else E) g keys subs k)
    (ihg : ∀ k t, g k = .ok t → ∀ v,
      getV t v = keepV (selC (tailsNE k I) (tailsNE k E) (newIncl k (if d then E else I) d)) v) :
    ∀ k l, getL (.node d keys subs) k l = keepL (selC I E d) k l := by
  intro k l
  induction l generalizing k with
  | nil => simp [getL, keepL]
  | cons x r ihl =>
    cases x with
    | none => simp [getL, keepL, ihl]
    | some v =>
      rw [getL_cons_some, keepL, ihl, selC_cons]
      congr 1
      have hopp : oppOf I E d = (if d then E else I) := rfl
      rcases hkey k with ⟨hc, hk, ht, hs, hn⟩ | ⟨t, hc, hg, hl⟩ | ⟨hc, hl, ho, hs⟩
      · simp only [List.contains_eq_mem, decide_eq_true_eq] at hc
        have h1 : tailsNE k I = [] := by cases d <;> simp_all
        have h2 : tailsNE k E = [] := by cases d <;> simp_all
        rw [hopp, if_pos hk, h1, h2, selC_nil]
        cases d
        · simp [hc, keepV_true]
        · simp [hc, keepV_false]
      · simp only [List.contains_eq_mem, decide_eq_false_iff_not] at hc
        simp only [List.contains_eq_mem, hc, decide_false, Bool.false_eq_true, if_false, hl, ihg k t hg v,
          newIncl_eq, hopp]
      · simp only [List.contains_eq_mem, decide_eq_false_iff_not] at hc
        have h1 : tailsNE k I = [] := by
          cases d
          · exact tailsNE_nil_of_not_head k I ho
          · exact tailsNE_nil_of_not_head k I hs
        have h2 : tailsNE k E = [] := by
          cases d
          · exact tailsNE_nil_of_not_head k E hs
          · exact tailsNE_nil_of_not_head k E ho
        have h3 : [k] ∉ (if d then E else I) := single_not_mem_of_not_head k _ ho
        rw [hopp, if_neg h3, h1, h2, selC_nil]
        cases d
        · simp [hc, hl, keepV_false]
        · simp [hc, hl, keepV_true]

theorem make_specC : ∀ (f : Nat) (I E : List Path) (d : Bool) (T : Tree), make f I E d = .ok T →
    T.incl = d ∧ (∀ k l, getL T k l = keepL (selC I E d) k l) ∧ (∀ v, getV T v = keepV (selC I E d) v) := by
  intro f
  induction f with
  | zero => intro I E d T h; simp [make] at h
  | succ f ih =>
    intro I E d T h
    rw [make_succ] at h
    obtain ⟨hextra, hall, hT⟩ := makeStep_ok_inv h
    have hkey := make_key_cases _ _ _ hextra hall
    have hL := node_specC d I E _ _ _ hkey (fun k t hg => (ih _ _ _ t hg).2.2)
    rw [← hT] at hL
    have hi : T.incl = d := by rw [hT]; rfl
    refine ⟨hi, hL, ?_⟩
    intro v
    cases v with
    | leaf a => rw [getV, keepV, hi]; cases d <;> rfl
    | dict l => rw [getV, keepV, hi, hL]; cases d <;> rfl

theorem makeStep_valueError_iff {opp same : List Path} {d : Bool} {g : Nat → Made}
    (hf : ∀ k ∈ heads opp, (g k).isFuel = false) :
    makeStep opp same d g = .valueError ↔
      (∃ k, k ∈ heads same ∧ k ∉ heads opp) ∨
      (∃ k, k ∈ heads opp ∧ isProper k opp same = false ∧ g k = .valueError) := by
  unfold makeStep
  simp only []
  by_cases hextra : ((heads same).any fun k => !(heads opp).contains k) = true
  · rw [if_pos hextra]
    simp only [List.any_eq_true, Bool.not_eq_true', List.contains_eq_mem, decide_eq_false_iff_not] at hextra
    simp only [true_iff]
    exact Or.inl hextra
  · rw [if_neg hextra]
    have hne : ¬ ∃ k, k ∈ heads same ∧ k ∉ heads opp := by
      simpa only [List.any_eq_true, Bool.not_eq_true', List.contains_eq_mem, decide_eq_false_iff_not] using hextra
    have hfuel : ¬ ((List.map (fun k => (k, g k))
        (List.filter (fun k => !isProper k opp same) (heads opp).eraseDups)).any fun kt => kt.snd.isFuel) = true := by
      simp only [List.any_eq_true, List.mem_map, List.mem_filter, List.mem_eraseDups]
      rintro ⟨kt, ⟨k, ⟨hk, _⟩, rfl⟩, hfk⟩
      rw [hf k hk] at hfk
      cases hfk
    rw [if_neg hfuel]
    constructor
    · intro h
      right
      split at h
      · rename_i hve
        simp only [List.any_eq_true, List.mem_map, List.mem_filter, List.mem_eraseDups, Bool.not_eq_true'] at hve
        obtain ⟨kt, ⟨k, ⟨hk, hp⟩, rfl⟩, hv⟩ := hve
        refine ⟨k, hk, hp, ?_⟩
        cases hg : g k with
        | valueError => rfl
        | ok t => simp [hg, Made.isValueError] at hv
        | fuel => simp [hg, Made.isValueError] at hv
      · cases h
    · rintro (h | ⟨k, hk, hp, hg⟩)
      · exact absurd h hne
      · rw [if_pos]
        simp only [List.any_eq_true, List.mem_map, List.mem_filter, List.mem_eraseDups, Bool.not_eq_true']
        exact ⟨(k, g k), ⟨k, ⟨hk, hp⟩, rfl⟩, by rw [hg]; rfl⟩

theorem mem_sameOf_or {I E : List Path} {c : Bool} {p : Path} (h : p ∈ sameOf I E c) (d : Bool) :
    p ∈ sameOf I E d ∨ p ∈ oppOf I E d := by
  cases c <;> cases d <;> simp_all [sameOf, oppOf]

/-- `prefixesDesc p` are exactly the non-empty prefixes of `p` … -/
theorem mem_prefixesDesc (p q : Path) : q ∈ prefixesDesc p ↔ q ≠ [] ∧ q <+: p := by
  unfold prefixesDesc
  simp only [List.mem_map, List.mem_reverse, List.mem_range]
  constructor
  · rintro ⟨n, hn, rfl⟩
    refine ⟨?_, List.take_prefix _ _⟩
    cases p with
    | nil => simp at hn
    | cons a t => simp
  · rintro ⟨hne, hpre⟩
    have hlen := hpre.length_le
    have hq : 0 < q.length := List.length_pos_iff.2 hne
    refine ⟨q.length - 1, by omega, ?_⟩
    rw [show q.length - 1 + 1 = q.length by omega]
    exact (List.prefix_iff_eq_take.1 hpre).symm

theorem mem_prefixesAsc (p q : Path) : q ∈ prefixesAsc p ↔ q ≠ [] ∧ q <+: p := by
  have : prefixesDesc p = (prefixesAsc p).reverse := by
    unfold prefixesDesc prefixesAsc; rw [List.map_reverse]
  rw [← mem_prefixesDesc, this, List.mem_reverse]

theorem prefix_snoc_iff (pre : Path) (k : Nat) (p : Path) : (pre ++ [k]) <+: p ↔ ∃ t, pre ++ k :: t = p := by
  constructor
  · rintro ⟨t, rfl⟩; exact ⟨t, by simp⟩
  · rintro ⟨t, rfl⟩; exact ⟨t, by simp⟩

mutual
theorem mem_allPathsV : ∀ (v : Val) (p : Path), p ∈ allPathsV v ↔ (atPath v p).isSome = true
  | .leaf a, p => by
    rw [allPathsV]
    cases p with
    | nil => simp [atPath_nil]
    | cons k q => simp [atPath_leaf_cons]
  | .dict l, p => by
    rw [allPathsV]
    cases p with
    | nil => simp [atPath_nil]
    | cons k q =>
      have := mem_allPathsL l 0 k q
      simp only [Nat.zero_add] at this
      simp only [List.mem_cons, reduceCtorEq, false_or, atPath_dict_cons]
      rw [← this]
theorem mem_allPathsL : ∀ (l : Slots) (k j : Nat) (q : Path),
    ((k + j) :: q) ∈ allPathsL k l ↔ ((slotGet l j).bind (fun w => atPath w q)).isSome = true
  | [], k, j, q => by simp [allPathsL, slotGet_nil]
  | none :: r, k, j, q => by
    rw [allPathsL]
    cases j with
    | zero =>
      simp only [slotGet_cons_zero, Option.bind_none, Option.isSome_none, Bool.false_eq_true, iff_false]
      intro h
      exact absurd h (not_mem_allPathsL_lt r (k + 1) k q (by omega))
    | succ j =>
      have := mem_allPathsL r (k + 1) j q
      rw [show k + 1 + j = k + (j + 1) by omega] at this
      rw [this, slotGet_cons_succ]
  | some v :: r, k, j, q => by
    rw [allPathsL, List.mem_append]
    cases j with
    | zero =>
      simp only [Nat.add_zero, List.mem_map, List.cons.injEq, true_and, exists_eq_right, slotGet_cons_zero,
        Option.bind_some]
      rw [mem_allPathsV v q]
      constructor
      · rintro (h | h)
        · exact h
        · exact absurd h (not_mem_allPathsL_lt r (k + 1) k q (by omega))
      · exact Or.inl
    | succ j =>
      have := mem_allPathsL r (k + 1) j q
      rw [show k + 1 + j = k + (j + 1) by omega] at this
      rw [this, slotGet_cons_succ]
      constructor
      · rintro (h | h)
        · simp only [List.mem_map, List.cons.injEq] at h
          obtain ⟨_, _, h1, _⟩ := h
          omega
        · exact h
      · exact Or.inr
theorem not_mem_allPathsL_lt : ∀ (l : Slots) (k i : Nat) (q : Path), i < k → (i :: q) ∉ allPathsL k l
  | [], _, _, _, _ => by simp [allPathsL]
  | none :: r, k, i, q, h => by
    rw [allPathsL]; exact not_mem_allPathsL_lt r (k + 1) i q (by omega)
  | some v :: r, k, i, q, h => by
    rw [allPathsL, List.mem_append]
    rintro (h' | h')
    · simp only [List.mem_map, List.cons.injEq] at h'
      obtain ⟨_, _, h1, _⟩ := h'
      omega
    · exact not_mem_allPathsL_lt r (k + 1) i q (by omega) h'
end

/-! ## Part 3 — `GroupBy` -/

theorem groupsAdd_groupsOf (key : Item → Slots) (xs : List Item) (v : Item) :
    groupsAdd (key v) v (groupsOf key xs) = groupsOf key (xs ++ [v]) := by
  unfold groupsOf
  rw [groupsAdd_map (key v) v (fun k => xs.filter (fun v => key v = k)) _ (nodup_eraseDups _),
    List.map_append, List.map_cons, List.map_nil, eraseDups_snoc, List.map_append]
  congr 1
  · apply List.map_congr_left
    intro k _
    simp only [List.filter_append, List.filter_cons, List.filter_nil]
    by_cases e : key v = k <;> simp [e]
  · simp only [List.mem_eraseDups]
    by_cases h : key v ∈ xs.map key
    · simp [h]
    · have hf : xs.filter (fun w => key w = key v) = [] := by
        rw [List.filter_eq_nil_iff]
        intro w hw
        simp only [decide_eq_true_eq]
        intro e
        exact h (List.mem_map.2 ⟨w, hw, e⟩)
      simp [h, hf, List.filter_append]

theorem foldl_groupsOf (key : Item → Slots) : ∀ (vs pre : List Item),
    vs.foldl (fun gs v => groupsAdd (key v) v gs) (groupsOf key pre) = groupsOf key (pre ++ vs)
  | [], pre => by simp
  | v :: vs, pre => by
    rw [List.foldl_cons, groupsAdd_groupsOf, foldl_groupsOf key vs (pre ++ [v])]
    simp

theorem filter_or_perm {α : Type} (p q : α → Bool) (h : ∀ x, p x = true → q x = true → False) :
    ∀ l : List α, (l.filter p ++ l.filter q).Perm (l.filter (fun x => p x || q x))
  | [] => by simp
  | x :: l => by
    have ih := filter_or_perm p q h l
    cases hp : p x <;> cases hq : q x
    · simpa [List.filter_cons, hp, hq] using ih
    · simp only [List.filter_cons, hp, hq, Bool.false_eq_true, if_false, if_true, Bool.or_true]
      exact List.perm_middle.trans (List.Perm.cons x ih)
    · simp only [List.filter_cons, hp, hq, Bool.false_eq_true, if_false, if_true, Bool.or_false, List.cons_append]
      exact List.Perm.cons x ih
    · exact absurd hq (fun hq => h x hp hq)

theorem flatten_filters_perm (key : Item → Slots) (vs : List Item) : ∀ (L : List Slots), L.Nodup →
    ((L.map (fun k => vs.filter (fun v => key v = k))).flatten).Perm (vs.filter (fun v => decide (key v ∈ L)))
  | [], _ => by simp
  | k :: L, hn => by
    rw [List.nodup_cons] at hn
    have ih := flatten_filters_perm key vs L hn.2
    simp only [List.map_cons, List.flatten_cons]
    refine (List.Perm.append_left _ ih).trans ?_
    have := filter_or_perm (fun v => decide (key v = k)) (fun v => decide (key v ∈ L)) (by
      intro x h1 h2
      simp only [decide_eq_true_eq] at h1 h2
      exact hn.1 (h1 ▸ h2)) vs
    refine this.trans ?_
    apply List.Perm.of_eq
    apply List.filter_congr
    intro x _
    simp [List.mem_cons]

theorem eraseDups_replicate {α : Type} [BEq α] [LawfulBEq α] (a : α) : ∀ n, (List.replicate (n + 1) a).eraseDups = [a]
  | 0 => by simp [List.eraseDups_cons]
  | n + 1 => by
    rw [List.replicate_succ, List.eraseDups_cons]
    have : List.filter (fun b => !b == a) (List.replicate (n + 1) a) = [] := by
      rw [List.filter_eq_nil_iff]
      intro x hx
      rw [List.mem_replicate] at hx
      simp [hx.2]
    rw [this]; rfl

theorem getL_exclude_all : ∀ (k : Nat) (l : Slots), getL (.node false [] []) k l = List.replicate l.length none
  | _, [] => by simp [getL]
  | k, none :: r => by rw [getL, getL_exclude_all (k + 1) r]; simp [List.replicate_succ]
  | k, some v :: r => by
    rw [getL, getL_exclude_all (k + 1) r]
    simp [lookupSub, List.replicate_succ]

/-! ### unserialisable objects; groups for any key type -/

/-! ### unserialisable objects in the selected part -/
mutual
theorem hasObjV_iff : ∀ v : Val, hasObjV v = true ↔ ∃ p s, atPath v p = some (.leaf (.obj s))
  | .leaf a => by
    cases a with
    | obj s => simp only [hasObjV, true_iff]; exact ⟨[], s, by simp [atPath_nil]⟩
    | none | bool _ | int _ | str _ =>
      simp only [hasObjV, Bool.false_eq_true, false_iff, not_exists]
      intro p s h
      cases p with
      | nil => simp [atPath_nil] at h
      | cons k q => simp [atPath_leaf_cons] at h
  | .dict l => by
    rw [hasObjV, hasObjL_iff l]
    constructor
    · rintro ⟨j, w, hw, p, s, h⟩
      exact ⟨j :: p, s, by simp [atPath_dict_cons, hw, h]⟩
    · rintro ⟨p, s, h⟩
      cases p with
      | nil => simp [atPath_nil] at h
      | cons j q =>
        rw [atPath_dict_cons] at h
        cases hw : slotGet l j with
        | none => simp [hw] at h
        | some w => exact ⟨j, w, hw, q, s, by simpa [hw] using h⟩
theorem hasObjL_iff : ∀ l : Slots, hasObjL l = true ↔
    ∃ j w, slotGet l j = some w ∧ ∃ p s, atPath w p = some (.leaf (.obj s))
  | [] => by simp [hasObjL, slotGet_nil]
  | none :: r => by
    rw [hasObjL, hasObjL_iff r]
    constructor
    · rintro ⟨j, w, hw, h⟩; exact ⟨j + 1, w, by rwa [slotGet_cons_succ], h⟩
    · rintro ⟨j, w, hw, h⟩
      cases j with
      | zero => simp [slotGet_cons_zero] at hw
      | succ j => exact ⟨j, w, by rwa [slotGet_cons_succ] at hw, h⟩
  | some v :: r => by
    rw [hasObjL, Bool.or_eq_true, hasObjV_iff v, hasObjL_iff r]
    constructor
    · rintro (h | ⟨j, w, hw, h⟩)
      · exact ⟨0, v, by simp [slotGet_cons_zero], h⟩
      · exact ⟨j + 1, w, by rwa [slotGet_cons_succ], h⟩
    · rintro ⟨j, w, hw, h⟩
      cases j with
      | zero =>
        simp only [slotGet_cons_zero, Option.some.injEq] at hw
        subst hw; exact Or.inl h
      | succ j => exact Or.inr ⟨j, w, by rwa [slotGet_cons_succ] at hw, h⟩
end

theorem groupsAddG_map {K : Type} [DecidableEq K] (kk : K) (v : Item) (F : K → List Item) :
    ∀ (L : List K), L.Nodup →
    groupsAddG kk v (L.map (fun k => (k, F k))) =
      L.map (fun k => (k, F k ++ if kk = k then [v] else [])) ++ (if kk ∈ L then [] else [(kk, [v])])
  | [], _ => by simp [groupsAddG]
  | k :: L, hn => by
    rw [List.nodup_cons] at hn
    simp only [List.map_cons, groupsAddG]
    by_cases e : kk = k
    · subst e
      simp only [if_true, List.mem_cons, true_or, List.append_nil, List.cons.injEq, true_and]
      apply List.map_congr_left
      intro k' hk'
      have : kk ≠ k' := fun e => hn.1 (e ▸ hk')
      simp [this]
    · have ih := groupsAddG_map kk v F L hn.2
      simp only [e, if_false, List.append_nil, ih, List.mem_cons, false_or, List.cons_append]

theorem groupsAddG_groupsOfG {K : Type} [DecidableEq K] (key : Item → K) (xs : List Item) (v : Item) :
    groupsAddG (key v) v (groupsOfG key xs) = groupsOfG key (xs ++ [v]) := by
  unfold groupsOfG
  rw [groupsAddG_map (key v) v (fun k => xs.filter (fun v => key v = k)) _ (nodup_eraseDups _),
    List.map_append, List.map_cons, List.map_nil, eraseDups_snoc, List.map_append]
  congr 1
  · apply List.map_congr_left
    intro k _
    simp only [List.filter_append, List.filter_cons, List.filter_nil]
    by_cases e : key v = k <;> simp [e]
  · simp only [List.mem_eraseDups]
    by_cases h : key v ∈ xs.map key
    · simp [h]
    · have hf : xs.filter (fun w => key w = key v) = [] := by
        rw [List.filter_eq_nil_iff]
        intro w hw
        simp only [decide_eq_true_eq]
        intro e
        exact h (List.mem_map.2 ⟨w, hw, e⟩)
      simp [h, hf, List.filter_append]

/-! ### known keys -/

theorem idxOf_inj_of_mem {names : List String} {a b : String} (ha : a ∈ names)
    (h : names.idxOf a = names.idxOf b) : a = b := by
  have hlt : names.idxOf a < names.length := List.idxOf_lt_length_iff.2 ha
  have hb : b ∈ names := by
    rw [← List.idxOf_lt_length_iff, ← h]; exact hlt
  have e1 := List.getElem_idxOf hlt
  have hlt' : names.idxOf b < names.length := List.idxOf_lt_length_iff.2 hb
  have e2 := List.getElem_idxOf hlt'
  rw [← e1, ← e2]
  congr 1

/-- over known keys, different dotted keys are different index paths: the model does not conflate them -/
theorem idxPath_inj (names : List String) : ∀ (ks1 ks2 : List String), (∀ k ∈ ks1, k ∈ names) →
    ks1.map names.idxOf = ks2.map names.idxOf → ks1 = ks2
  | [], [], _, _ => rfl
  | [], _ :: _, _, h => by simp at h
  | _ :: _, [], _, h => by simp at h
  | a :: r1, b :: r2, hk, h => by
    simp only [List.map_cons, List.cons.injEq] at h
    rw [idxOf_inj_of_mem (hk a (by simp)) h.1, idxPath_inj names r1 r2 (fun k hk' => hk k (by simp [hk'])) h.2]

end Lena.C15
