import LenaModel.Lemmas.C02Spec
/-! # C02 — "shortest prefix": results of exact stages are handed over at the stamp of an input value -/

namespace Lena.C02

variable {α β : Type}

theorem isliceGo_subset (stop : Option Nat) (step : Nat) :
    ∀ (xs : List α) (next cnt : Nat) (x : α), x ∈ Lena.C17.isliceGo stop step next cnt xs → x ∈ xs
  | [], next, cnt, x, h => by cases stop <;> simp [Lena.C17.isliceGo] at h
  | y :: rest, next, cnt, x, h => by
    cases stop with
    | none =>
      simp only [Lena.C17.isliceGo] at h
      split at h
      · rcases List.mem_cons.mp h with rfl | h'
        · simp
        · exact List.mem_cons_of_mem _ (isliceGo_subset none step rest _ _ x h')
      · exact List.mem_cons_of_mem _ (isliceGo_subset none step rest _ _ x h)
    | some s =>
      simp only [Lena.C17.isliceGo] at h
      split at h
      · simp at h
      · split at h
        · rcases List.mem_cons.mp h with rfl | h'
          · simp
          · exact List.mem_cons_of_mem _ (isliceGo_subset (some s) step rest _ _ x h')
        · exact List.mem_cons_of_mem _ (isliceGo_subset (some s) step rest _ _ x h)

theorem runIfSpecGo_stamps {ι : Type} (sel : α → Bool) (inner : ι → α → List α × ι) :
    ∀ (vals : List (α × Nat)) (i : ι) (p : α × Nat), p ∈ runIfSpecGo sel inner i vals →
      p.2 ∈ vals.map Prod.snd
  | [], _, p, h => by simp [runIfSpecGo] at h
  | q :: r, i, p, h => by
    simp only [runIfSpecGo] at h
    split at h
    · rcases List.mem_append.mp h with h' | h'
      · simp only [List.mem_map] at h'
        obtain ⟨x, _, rfl⟩ := h'
        simp
      · have := runIfSpecGo_stamps sel inner r _ p h'
        simp only [List.map_cons, List.mem_cons]
        exact Or.inr this
    · rcases List.mem_cons.mp h with rfl | h'
      · simp
      · have := runIfSpecGo_stamps sel inner r _ p h'
        simp only [List.map_cons, List.mem_cons]
        exact Or.inr this

/-- stamps of the instrumented input started at clock `c`: `c+1 … c+n` -/
theorem stamps_snd_bounds : ∀ (xs : List α) (c : Nat) (p : α × Nat), p ∈ stamps xs c → c < p.2 ∧ p.2 ≤ c + xs.length
  | [], _, p, h => by simp [stamps] at h
  | a :: r, c, p, h => by
    simp only [stamps, List.mem_cons] at h
    rcases h with rfl | h'
    · simp
    · have := stamps_snd_bounds r (c + 1) p h'
      simp only [List.length_cons]
      omega

end Lena.C02
